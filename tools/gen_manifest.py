#!/usr/bin/env python3
"""Regenerates MANIFEST.json from props/C*.py (claimed checks) and properties.jsonl (everything else -> not_applicable)."""
import os, sys, json, glob, importlib
V = os.path.dirname(os.path.dirname(os.path.abspath(__file__)))
sys.path[:0] = [os.path.join(V, "lib"), V]

NOT_BUILT = {}  # pid -> reason, overrides the default reason
try:
    NOT_BUILT = json.load(open(os.path.join(V, "tools", "not_claimed.json")))
except FileNotFoundError:
    pass

props = [json.loads(l) for l in open(os.path.join(V, "properties.jsonl"))]
# only properties the coordinator has reviewed and accepted are claimed (one id per line)
CLAIMED = set(open(os.path.join(V, "tools", "claimed.txt")).read().split())
checks, na, engines = [], [], {}
for p in props:
    pid = p["id"]
    path = os.path.join(V, "props", pid + ".py")
    if pid not in CLAIMED or not os.path.exists(path):
        na.append({"property_id": pid, "reason": NOT_BUILT.get(pid, "not claimed: model, theorems and correspondence for this property are not built yet (see DESIGN.md section 7 for the planned design); no other technique is substituted")})
        continue
    spec = importlib.import_module("props." + pid)
    m = spec.MANIFEST
    eng = m.get("engine", "inproc")
    engines.setdefault(eng, []).append(pid)
    checks.append({
        "property_id": pid,
        "quick_cmd": "./check %s --tier quick" % pid,
        "thorough_cmd": "./check %s --tier thorough" % pid,
        "evidence_file": "evidence/%s.json" % pid,
        "replay_cmd_template": "./check %s --replay {path}" % pid,
        "engine": eng,
        "level_claimed": {"category": "proof", "text": m["text"], "design_ref": m.get("design_ref", "DESIGN.md section 7, " + pid)},
        "level_note": m["note"],
        "technique": m.get("technique", "Lean 4 theorem about a model + differential correspondence with the staged code"),
    })
man = {
    "version": 1,
    "setup_cmd": "./setup.sh",
    "hooks": {
        "guard": "SQUID_CACHE_SQUID_VERIF",
        "enable": "checks copy /repo's working tree to /var/tmp/verif-*, touch the files that mention the guard and run make with CPPFLAGS+=-DSQUID_CACHE_SQUID_VERIF; harness objects are compiled with the same define",
        "baseline_off_cmd": "cd /repo && make -k check",
        "source_commits": json.load(open(os.path.join(V, "tools", "hook_commits.json"))) if os.path.exists(os.path.join(V, "tools", "hook_commits.json")) else [],
        "add_only": True,
    },
    "engines": [
        {"name": "lean", "path": "lean/", "serves_properties": [c["property_id"] for c in checks],
         "kind_free_text": "Lean 4 library SquidModel (models, lemmas, property theorems), Gen/ regenerated from the staged tree every run, axiom audit, native model driver"},
        {"name": "inproc", "path": "harness/", "serves_properties": engines.get("inproc", []),
         "kind_free_text": "C++ harnesses linking the staged tree's objects with ASan/UBSan-built copies of the code under test; line protocol diffed against the model driver; direct property oracle"},
        {"name": "e2e", "path": "e2e/", "serves_properties": engines.get("e2e", []),
         "kind_free_text": "rebuilt squid binary on loopback with scripted origin/client/helper stubs; scenario observations checked against the model's allowed set and a direct oracle"},
    ],
    "checks": checks,
    "not_applicable": na,
    "notes": "All claimed checks decide by machine-checked proof in Lean 4 about a model tied to /repo's current tree by a translator (Gen/) and a differential correspondence run; see DESIGN.md. ./check <id> --tier quick|thorough; VERIF_SEED selects the PRNG seed.",
}
json.dump(man, open(os.path.join(V, "MANIFEST.json"), "w"), indent=1)
print("claimed %d, not claimed %d" % (len(checks), len(na)))
