#!/usr/bin/env python3
"""Development aid (not part of ./check): run a spec's build/cases/oracle/compare against an already built scratch tree, skipping the
stage rsync+make of lib/vf/run.py (which alone takes 15 min on a heavily loaded machine).
  tools/c09/devcheck.py C09 /var/tmp/c09dev [--only m,c] [--seed N] [--tier quick]
The scratch dir must contain repo/ (built) and work/. Prints failing cases; exit 1 when any oracle failure or divergence is found."""
import sys, os, importlib, collections, time
ROOT = os.path.dirname(os.path.dirname(os.path.dirname(os.path.abspath(__file__))))
sys.path[:0] = [os.path.join(ROOT, "lib"), ROOT]
from vf.stage import Stage
from vf.util import Rng
from vf.harness import ModelRunner


class Dev(Stage):
    def __init__(self, d):
        self.dir, self.repo, self.work = d, d + "/repo", d + "/work"
        self.hooks, self.keep, self.timings, self.hooked_files = True, True, {}, []
        os.makedirs(self.work, exist_ok=True)


def main():
    a = sys.argv[1:]
    pid, d = a[0], a[1]
    only = a[a.index("--only") + 1].split(",") if "--only" in a else None
    seed = int(a[a.index("--seed") + 1]) if "--seed" in a else 1
    tier = a[a.index("--tier") + 1] if "--tier" in a else "quick"
    spec = importlib.import_module("props." + pid)
    t = time.time()
    h = spec.build(Dev(d))
    print("built in %.0f s" % (time.time() - t), flush=True)
    try:
        lines = [l for l in spec.cases(Rng(seed).fork(pid), tier) if only is None or l.split(" ")[0] in only]
        t = time.time()
        impl = h.run(lines)
        mod = ModelRunner(spec.MODEL).run(lines)
        print("%d cases in %.0f s" % (len(lines), time.time() - t), flush=True)
        bad = 0
        tags = collections.Counter()
        for l, i, m in zip(lines, impl, mod):
            tags[spec.tag(l, i, m)] += 1
            why = spec.oracle(l, i)
            ok = spec.compare(l, i, m) if hasattr(spec, "compare") else i == m
            if why or not ok:
                bad += 1
                if bad <= 12:
                    print("FAIL %s\n   impl=%s\n   model=%s\n   why=%s" % (l[:300], (i or "")[:200], (m or "")[:200], why))
        for k, v in tags.most_common(25):
            print("%6d  %s" % (v, k))
        print("failing cases: %d" % bad)
        return 1 if bad else 0
    finally:
        if hasattr(h, "close"):
            h.close()


if __name__ == "__main__":
    sys.exit(main())
