#!/usr/bin/env python3
"""Regenerates lean/Driver/C09.lean: the C09 line driver = its own part (m / c lines) + verbatim copies of the `handle` code of the
parser properties' drivers (C21 C23 C24 C26 C30), because two driver modules cannot be imported together (each defines `main`).
Run it again when one of those drivers changes:  python3 tools/c09/gen_driver.py"""
import os, re
ROOT = os.path.dirname(os.path.dirname(os.path.dirname(os.path.abspath(__file__))))
D = os.path.join(ROOT, "lean", "Driver")
SUBS = ["C21", "C23", "C24", "C26", "C30"]

OWN = r'''
namespace Driver.C09
open SquidModel SquidModel.Robust

def setByName (n : String) : Option CharSet :=
  let (neg, base) := if n.startsWith "!" then (true, (n.drop 1).toString) else (false, n)
  let s : Option CharSet := match base with
    | "ALPHA" => some Gen.CharSets.ALPHA | "DIGIT" => some Gen.CharSets.DIGIT | "TCHAR" => some Gen.CharSets.TCHAR
    | "WSP" => some Gen.CharSets.WSP | "CR" => some Gen.CharSets.CR | "LF" => some Gen.CharSets.LF | "SP" => some Gen.CharSets.SP
    | "HEXDIG" => some Gen.CharSets.HEXDIG | "VCHAR" => some Gen.CharSets.VCHAR | "OBSTEXT" => some Gen.CharSets.OBSTEXT
    | "CTL" => some Gen.CharSets.CTL
    | _ => none
  s.map fun c => if neg then c.complement else c

/-- `some none` = npos -/
def posOf (t : String) : Option (Option Nat) :=
  if t == "npos" then some none else if t.length > 9 then none else t.toNat?.map some

def showPos : Option Nat → String
  | none => "npos"
  | some n => toString n

def showFault : Fault → String
  | .oob i l => s!"fault:oob:{i}:{l}"
  | .underflow a b => s!"fault:underflow:{a}:{b}"

def showTok : M (Option (Bytes × Bytes)) → Bytes → String
  | .error f, _ => showFault f
  | .ok (some (tok, rest)), _ => s!"T {Bytes.toHex tok} {Bytes.toHex rest}"
  | .ok none, s => s!"F {Bytes.toHex s}"

def showSkip : M (Bool × Bytes) → String
  | .error f => showFault f
  | .ok (true, rest) => s!"T {Bytes.toHex rest}"
  | .ok (false, rest) => s!"F {Bytes.toHex rest}"

def showCount : M (Nat × Bytes) → String
  | .error f => showFault f
  | .ok (n, rest) => s!"N {n} {Bytes.toHex rest}"

def handleM (op setN limN : String) (s t : Bytes) : String :=
  match op with
  | "he" => match headersEndIdx s s.length with
    | .error f => showFault f
    | .ok (n, f) => s!"n={n} f={if f then 1 else 0}"
  | "sw" => match startsWith s t with
    | .error f => showFault f
    | .ok b => s!"r={if b then 1 else 0}"
  | "skip" => showSkip (tokSkip t s)
  | "skipsuffix" => showSkip (tokSkipSuffix t s)
  | "skipchar" => match t with
    | [] => "bad-op"
    | ch :: _ => showSkip (tokSkipChar ch s)
  | _ =>
    match setByName setN with
    | none => "bad-op"
    | some set =>
      match op with
      | "skipall" => showCount (tokSkipAll set s)
      | "skipalltr" => showCount (tokSkipAllTrailing set s)
      | "skipone" => showSkip (tokSkipOne set s)
      | "skiponetr" => showSkip (tokSkipOneTrailing set s)
      | _ =>
        match posOf limN with
        | none => "bad-op"
        | some lim =>
          match op with
          | "ffn" => match findFirstNotOf set s lim with
            | .error f => showFault f
            | .ok r => "r=" ++ showPos r
          | "fln" => match findLastNotOf set s lim with
            | .error f => showFault f
            | .ok r => "r=" ++ showPos r
          | "prefix" => showTok (tokPrefix set lim s) s
          | "suffix" => showTok (tokSuffix set lim s) s
          | _ => "bad-op"

def parseEv (t : String) : Option Ev :=
  if t == "eof" then some .eof else if t == "to" then some .timeout else if t == "err" then some .ioError
  else if t.startsWith "d:" then (Bytes.ofHex (t.drop 2).toString).map .data else none

def parseEvs : List String → Option (List Ev)
  | [] => some []
  | h :: t => match parseEv h, parseEvs t with
    | some e, some r => some (e :: r)
    | _, _ => none

def showFate : Fate → String
  | .reading => "reading"
  | .replied s => s!"replied {s}"
  | .handed => "handed"
  | .closed => "closed"
  | .aborted .parserGrewBuffer => "aborted parserGrewBuffer"
  | .aborted .inBufBelowLimit => "aborted inBufBelowLimit"

/-- c <relaxed 0|1> <limit> <bufMax> <halfClosed 0|1> <events...> -/
def handleC : List String → String
  | rel :: lim :: bm :: hc :: evs =>
    match lim.toNat?, bm.toNat?, parseEvs evs with
    | some limit, some bufMax, some es =>
      let cfg : CCfg := { p := { relaxed := rel == "1", limit := limit, fixCr := Gen.Http1Request.fixCr, fixLine := Gen.Http1Request.fixLine },
                          bufMax := bufMax, halfClosed := hc == "1" }
      showFate (run cfg es).fate
    | _, _, _ => "bad-op"
  | _ => "bad-op"

/-- strip the first word (and the blank after it) -/
def restOf (line : String) : String :=
  match line.splitOn " " with
  | _ :: t => " ".intercalate t
  | [] => ""

def handle (line : String) : String :=
  match Driver.words line with
  | "m" :: op :: setN :: limN :: sh :: rest =>
    match Bytes.ofHex sh, (match rest with | [] => some [] | th :: _ => Bytes.ofHex th) with
    | some s, some t => handleM op setN limN s t
    | _, _ => "bad-op"
  | "c" :: rest => handleC rest
  | "a" :: _ => "-"          -- whole-binary sanitizer scenario: no model prediction
  | "s21" :: _ => Driver.C09.Sub21.handle (restOf line)
  | "s23" :: _ => Driver.C09.Sub23.handle (restOf line)
  | "s24" :: _ => Driver.C09.Sub24.handle (restOf line)
  | "s26" :: _ => Driver.C09.Sub26.handle (restOf line)
  | "s30" :: _ => Driver.C09.Sub30.handle (restOf line)
  | _ => "bad-op"

end Driver.C09

def main : IO UInt32 := Driver.runPure Driver.C09.handle
'''


def main():
    imports, sections = ["import Driver.Loop", "import SquidModel.Robust.Mem", "import SquidModel.Robust.Client", "import SquidModel.Gen.CharSets"], []
    for s in SUBS:
        text = open(os.path.join(D, s + ".lean")).read()
        for l in text.splitlines():
            if l.startswith("import ") and l not in imports:
                imports.append(l)
        opens = [l for l in text.splitlines() if l.startswith("open ")]
        m = re.search(r"^namespace Driver\.%s\n(.*?)^end Driver\.%s" % (s, s), text, re.S | re.M)
        body = m.group(1)
        n = s[1:]
        sections.append("-- ---- copied from Driver/%s.lean ----\nsection\n%s\nnamespace Driver.C09.Sub%s\n%s\nend Driver.C09.Sub%s\nend\n" % (
            s, "\n".join(opens), n, body, n))
    head = ("/-\nC09 line driver. GENERATED by tools/c09/gen_driver.py — the Sub<nn> sections are verbatim copies of the `handle` code of the\n"
            "parser properties' drivers (a driver module defines `main`, so two of them cannot be imported together); the m / c lines are C09's own.\n-/\n")
    out = head + "\n".join(imports) + "\n\n" + "\n".join(sections) + OWN
    with open(os.path.join(D, "C09.lean"), "w") as f:
        f.write(out)


if __name__ == "__main__":
    main()
