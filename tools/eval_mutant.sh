#!/bin/bash
# tools/eval_mutant.sh <Cnn> <scratch dir> [name]
# Confirms an independently seeded breakage (demo fails with the patch, passes without, touched unit tests pass),
# stores it under seeded/<name>/ and runs the property's check against it through VERIF_PATCH (never touches /repo).
set -u
P=$1; S=$2; NAME=${3:-$P}
V=/verif; D=$V/seeded/$NAME
mkdir -p $D; LOG=$D/eval.log; : > $LOG
[ -f $S/MUTANT/patch.diff ] || { echo "no MUTANT/patch.diff in $S" | tee -a $LOG; exit 2; }
cp $S/MUTANT/patch.diff $D/patch.diff; rm -rf $D/demo; cp -r $S/MUTANT/demo $D/demo 2>/dev/null; cp $S/MUTANT/meta.json $D/agent_meta.json 2>/dev/null
cd $S
echo "== demo WITH the patch (expect failure)" >> $LOG
(make -j6 all >/dev/null 2>&1; timeout 1500 bash MUTANT/demo/run.sh) >> $LOG 2>&1; RC_WITH=$?
echo "rc_with=$RC_WITH" >> $LOG
echo "== demo WITHOUT the patch (expect success)" >> $LOG
patch -R -p1 -s < MUTANT/patch.diff >> $LOG 2>&1
(make -j6 all >/dev/null 2>&1; timeout 1500 bash MUTANT/demo/run.sh) >> $LOG 2>&1; RC_WITHOUT=$?
echo "rc_without=$RC_WITHOUT" >> $LOG
patch -p1 -s < MUTANT/patch.diff >> $LOG 2>&1
echo "== patch applies to /repo?" >> $LOG
(cd /repo && git apply --check $D/patch.diff) >> $LOG 2>&1; APPLIES=$?
echo "== check $P against the patch" >> $LOG
cd $V
VERIF_JOBS=6 VERIF_PATCH=$D/patch.diff ./check $P --no-evidence > $D/check.out 2>&1; RC_CHECK=$?
grep -E "VIOLATION|KNOWN-FINDING|quick seed" $D/check.out >> $LOG
python3 - <<PY
import json,os
d="$D"
am={}
try: am=json.load(open(os.path.join(d,"agent_meta.json")))
except Exception: pass
viol=[l.strip() for l in open(os.path.join(d,"check.out")) if l.startswith("VIOLATION")]
meta={"property":"$P","summary":am.get("summary"),"needs":am.get("needs"),"files":am.get("files"),
 "confirmed":{"demo_rc_with_patch":$RC_WITH,"demo_rc_without_patch":$RC_WITHOUT,"applies_to_repo":$APPLIES==0,"agent_unit_tests":am.get("unit_tests_run")},
 "ran":"VERIF_PATCH=seeded/$NAME/patch.diff ./check $P (quick, seed 1)","check_rc":$RC_CHECK,"violation_lines":viol[:5],
 "caught": ($RC_CHECK==1 and len(viol)>0), "valid": ($RC_WITH!=0 and $RC_WITHOUT==0)}
json.dump(meta,open(os.path.join(d,"meta.json"),"w"),indent=1)
print(json.dumps({k:meta[k] for k in ("property","caught","valid","check_rc")}))
PY
