#!/usr/bin/env python3
"""Prints the prompt for an independent breakage-seeding agent: property text + scratch copy path only."""
import sys, json
pid, path = sys.argv[1], sys.argv[2]
props = {json.loads(l)["id"]: json.loads(l) for l in open("/verif/properties.jsonl")}
p = props[pid]
print("""You are given a scratch copy of the Squid proxy source tree (a git repository with an up-to-date in-tree autotools build: the
object files are already built, `make -j8` in the top directory rebuilds incrementally, `make -C src check TESTS=tests/testX` or
`cd src && make tests/testX && ./tests/testX` runs one unit test, `make -k check` runs the whole suite, about 160 tests) at:

    %s

Work ONLY inside that directory. Do not read or write anything under /verif or /repo (they are off limits for this task).

A semantic property that Squid is supposed to satisfy:

  id: %s
  title: %s
  statement: %s
  quantified over: %s
  code it is anchored in: %s

Your task: write ONE realistic change to the Squid source (a bug a developer could plausibly introduce: an off-by-one in a bound, a
dropped or inverted check, a wrong variable, a reordered pair of operations, a missed state reset, two cooperating sites that each
look fine alone ...) that makes Squid VIOLATE this property, while (a) everything still compiles, and (b) the existing unit-test suite
still passes (run at least the unit tests of the touched area, ideally `make -k check` in src/). The violation must need something
SPECIFIC to manifest — a particular input shape, boundary value, interleaving, fault or multi-step sequence — not something any ordinary
request would expose immediately. Keep the change small (a few lines), in the anchored code or code it calls.

Deliver, inside the scratch directory:
  1. `MUTANT/patch.diff` — `git diff` of your change (source files only, no build products).
  2. `MUTANT/demo/` — a demonstration (a small C++ test program linked against the tree's objects, or a script driving the built
     `src/squid` binary with python stubs on loopback) that FAILS (non-zero exit, printing what went wrong) with your change applied and
     PASSES without it. Include `MUTANT/demo/run.sh` that builds and runs it from the scratch directory (it must work offline).
  3. `MUTANT/meta.json` — {"property": "%s", "summary": "<one line>", "needs": "<what specific input/schedule/sequence makes it manifest>",
     "files": [...], "unit_tests_run": "<what you ran and the result>"}.
Verify both directions yourself (demo passes on the clean tree — `git stash` / `git checkout` —, fails with the patch; the touched unit
tests pass with the patch). Leave the tree with your patch APPLIED and built at the end. Running squid: `src/squid -N -n <uniqueName> -f conf -d1`
with a config that sets http_port 127.0.0.1:<port>, cache_effective_user nobody, cache_effective_group nogroup, pid_filename/cache_log/
access_log/coredump_dir in a chmod-777 directory under the scratch dir, mime_table <tree>/src/mime.conf.default, icon_directory <tree>/icons/silk,
error_directory <tree>/errors/templates, unlinkd_program <tree>/src/unlinkd, logfile_daemon <tree>/src/log/file/log_file_daemon, pinger_enable off,
shutdown_lifetime 0 seconds, http_access allow all (origin stubs must send a Date header). In your final message: the patch, why it breaks the
property, what is needed for it to manifest, and the demo results in both directions.
""" % (path, pid, p["title"], p["statement"], p["quantifier"]["text"], ", ".join(p["anchors"]["files"]) + " — " + "; ".join(m["where"] for m in p["anchors"]["mechanism"]), pid))
