#!/usr/bin/env python3
"""Prints the builder-agent prompt for the given property ids."""
import sys, json
ids = sys.argv[1:]
props = {json.loads(l)["id"]: json.loads(l) for l in open("/verif/properties.jsonl")}
print("""You are one of several engineers building machine-checked (Lean 4) verification of the Squid proxy (/repo, C++) inside an
existing framework in /verif. Your job: build the complete check for propert%s %s.

START by reading, in this order: /verif/HOWTO.md (the rules and file layout — follow them exactly), then the worked example
(props/C32.py, harness/c32.cc, translate/html_quote.py, lean/SquidModel/Html/*.lean, lean/SquidModel/Properties/C32.lean, lean/Driver/C32.lean;
for end-to-end properties also props/C63.py, e2e/rig.py, lean/SquidModel/Fwd/*.lean, lean/SquidModel/Properties/C63.lean, lean/Driver/C63.lean),
then lib/vf/run.py and lib/vf/stage.py (how your spec is called), then the design entry for your property in /verif/DESIGN.md
(grep -n '\\*\\*%s' /verif/DESIGN.md ; also section 8 'Defects found while reading' and /verif/notes/candidates.md for suspected defects in
your area), then the anchored squid source files themselves. The property text is given and fixed:

%s

What to deliver (all under /verif, only your own new files as listed in HOWTO.md; never touch /repo, never `git commit`, never edit
shared files such as lib/, check, MANIFEST.json, lakefile.toml, Base/*.lean, other properties' files):
  1. A Lean model of the anchored code that follows the C++ branch by branch, and property theorems at full strength, for ALL inputs /
     histories (induction, invariants, refinement — no bounds), no sorry/axiom/native_decide. Non-vacuity examples. If a statement is
     false of the real code, prove the counterexample and a `_partial` theorem with the excluded region as an explicit hypothesis.
  2. A C++ harness calling the real code from the stage (ASan/UBSan), a line driver for the model, a spec props/Cnn.py with strong
     structured generators (valid/boundary/mutation streams, exhaustive small scopes in thorough) and a DIRECT oracle for the property
     that does not depend on the model. A translator for any table/constant your model or theorems depend on.
  3. `./check Cnn` exits 0 on the unchanged tree for VERIF_SEED=1..5 (quick) and once with --tier thorough; quick ≤ ~2 min.
     Genuine defects: confirm on the real code, known_findings.d entry + narrow classify() + corpus witness + candidate fix diff in
     notes/fixes/ (verified via VERIF_PATCH). Never loosen an oracle to get quiet.
  4. Self-test with 2-3 subtle breaking diffs (notes/selftest/) via VERIF_PATCH: the check must exit 1 with a VIOLATION line; and one
     harmless refactoring diff must not alarm.
  5. notes/built/Cnn.md as described in HOWTO.md.
Work autonomously until all of this is done; prefer depth (more of the real code's branches inside the model, stronger theorems, a
tighter tie) over stopping early. Time matters: get a first end-to-end version (small model, one theorem, harness, oracle) passing within
the first hour, then deepen. Several other agents build in the same lake project concurrently: always build with `tools/lb <targets>`,
only your own modules. In your final message report: files created, the theorem statements (in words), what is not modelled, findings
(with witness inputs), self-test results, wall-clock of quick/thorough, and anything the coordinator must integrate.
""" % ("y" if len(ids) == 1 else "ies", ", ".join(ids), ids[0], "\n\n".join(json.dumps(props[i], indent=1) for i in ids)))
