#!/usr/bin/env python3
"""prints the one-paragraph launcher prompt for a queued builder agent: tools/launch_extra.py C29"""
import sys, json
key = sys.argv[1]
extras = json.load(open("/verif/tools/queue/extras.json"))
print("Your full task description is in the file /tmp/prompt_%s.txt — read it first (cat /tmp/prompt_%s.txt) and follow it exactly. Working directory: /verif. %s The machine is shared with ~20 other agents and heavily loaded: builds and checks can be several times slower than the numbers quoted in the docs; never use pkill/killall with patterns (only kill PIDs you started)." % (key, key, extras[key]))
