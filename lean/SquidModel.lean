-- root of the library; property modules are built individually by the checks
import SquidModel.Base.Bytes
