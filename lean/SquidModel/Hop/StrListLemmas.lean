/-
Facts about the list scanner model (StrList.lean): on a list without double quotes and NUL, every comma-delimited
element (with optional whitespace around it) is yielded by the `strListGetItem` iteration, hence is a member.
-/
import SquidModel.Hop.StrList
import SquidModel.Base.Finite
namespace SquidModel.Hop

/-- the bytes that let the scanner leave the plain comma-list path: double quote, NUL
(VT and FF were in this set until strListGetItem learnt to skip them, /repo 43aac5c) -/
def cleanByte (c : UInt8) : Bool := c != 34 && c != 0

/-- no double quote, NUL -/
def Clean (s : Bytes) : Prop := ∀ c ∈ s, cleanByte c = true

instance (s : Bytes) : Decidable (Clean s) := by unfold Clean; exact inferInstance

/-- a list element that can name a header field: non-empty, no whitespace, comma, double quote or NUL (every token is one) -/
def tokByte (c : UInt8) : Bool := !isSpace c && c != 44 && c != 34 && c != 0

def IsTok (t : Bytes) : Prop := t ≠ [] ∧ ∀ c ∈ t, tokByte c = true

/-- every byte that is not skipped as leading whitespace/delimiter is followed by a comma later on -/
def leadEnd : Bytes → Bool
  | [] => true
  | c :: cs => (isLead 44 c || cs.contains 44) && leadEnd cs

/-! ### byte facts (all 256 octets by kernel evaluation) -/

theorem space_is_lead_or_vtff : ∀ c : UInt8, (!isSpace c || isLead 44 c || !cleanByte c) = true :=
  forall_octet _ (by decide +kernel)

theorem tok_not_lead : ∀ c : UInt8, (!tokByte c || !isLead 44 c) = true :=
  forall_octet _ (by decide +kernel)

theorem tok_plain : ∀ c : UInt8, (!tokByte c || (c != 34 && c != 44)) = true :=
  forall_octet _ (by decide +kernel)

theorem space_plain : ∀ c : UInt8, (!isSpace c || (c != 34 && c != 44)) = true :=
  forall_octet _ (by decide +kernel)

theorem tok_not_space : ∀ c : UInt8, (!tokByte c || !isSpace c) = true :=
  forall_octet _ (by decide +kernel)

theorem tok_clean_nonzero : ∀ c : UInt8, (!tokByte c || c != 0) = true :=
  forall_octet _ (by decide +kernel)

theorem lead_plain_or_comma : ∀ c : UInt8, (!isLead 44 c || c == 44 || isSpace c) = true :=
  forall_octet _ (by decide +kernel)

/-! ### splitting a list at the first element with a property -/

theorem split_first {α : Type} (p : α → Bool) : ∀ l : List α, (∃ x ∈ l, p x = true) →
    ∃ a x r, l = a ++ x :: r ∧ (∀ y ∈ a, p y = false) ∧ p x = true
  | [], h => by obtain ⟨x, hx, _⟩ := h; cases hx
  | y :: ys, h => by
    by_cases hy : p y = true
    · exact ⟨[], y, ys, rfl, by simp, hy⟩
    · have h' : ∃ x ∈ ys, p x = true := by
        obtain ⟨x, hx, hp⟩ := h
        rcases List.mem_cons.1 hx with rfl | hx
        · exact absurd hp hy
        · exact ⟨x, hx, hp⟩
      obtain ⟨a, x, r, e, ha, hx⟩ := split_first p ys h'
      refine ⟨y :: a, x, r, by simp [e], ?_, hx⟩
      intro z hz
      rcases List.mem_cons.1 hz with rfl | hz
      · simpa using hy
      · exact ha z hz

/-! ### skipLead -/

theorem skipLead_append_lead (del : UInt8) : ∀ (a b : Bytes), (∀ c ∈ a, isLead del c = true) →
    skipLead del (a ++ b) = skipLead del b
  | [], _, _ => rfl
  | c :: cs, b, h => by
    have hc : isLead del c = true := h c (by simp)
    simp only [List.cons_append, skipLead, hc, if_true]
    exact skipLead_append_lead del cs b (fun x hx => h x (by simp [hx]))

theorem skipLead_cons_nonlead (del c : UInt8) (cs : Bytes) (h : isLead del c = false) :
    skipLead del (c :: cs) = c :: cs := by
  simp [skipLead, h]

/-! ### scan -/

theorem scan_plain : ∀ (a b : Bytes), (∀ c ∈ a, (c != 34 && c != 44) = true) → (b = [] ∨ ∃ t, b = 44 :: t) →
    scan 44 false (a ++ b) = a.length
  | [], b, _, hb => by
    rcases hb with rfl | ⟨t, rfl⟩
    · simp [scan]
    · simp [scan]
  | c :: cs, b, h, hb => by
    have hc := h c (by simp)
    simp only [Bool.and_eq_true, bne_iff_ne, ne_eq] at hc
    have ih := scan_plain cs b (fun x hx => h x (by simp [hx])) hb
    simp only [List.cons_append, scan]
    have h1 : (c == 34) = false := by simpa using hc.1
    have h2 : (c == 44) = false := by simpa using hc.2
    simp [h1, h2, ih]
    omega

/-! ### rtrim -/

theorem rtrim_allSpace : ∀ (w : Bytes), (∀ c ∈ w, isSpace c = true) → rtrim w = []
  | [], _ => rfl
  | c :: cs, h => by
    have ih := rtrim_allSpace cs (fun x hx => h x (by simp [hx]))
    have hc := h c (by simp)
    simp [rtrim, ih, hc]

theorem rtrim_append_space (w : Bytes) (hw : ∀ c ∈ w, isSpace c = true) : ∀ (t : Bytes), rtrim (t ++ w) = rtrim t
  | [] => by simpa [rtrim] using rtrim_allSpace w hw
  | c :: cs => by
    have ih := rtrim_append_space w hw cs
    simp only [List.cons_append, rtrim, ih]

theorem rtrim_noSpace : ∀ (t : Bytes), (∀ c ∈ t, isSpace c = false) → rtrim t = t
  | [], _ => rfl
  | c :: cs, h => by
    have ih := rtrim_noSpace cs (fun x hx => h x (by simp [hx]))
    have hc := h c (by simp)
    simp only [rtrim, ih]
    cases cs with
    | nil => simp [hc]
    | cons d ds => rfl

theorem rtrim_ne_nil_of_head (c : UInt8) (cs : Bytes) (h : isSpace c = false) : rtrim (c :: cs) ≠ [] := by
  simp only [rtrim]
  cases hr : rtrim cs with
  | nil => simp [h]
  | cons d ds => simp

/-! ### leadEnd -/

theorem leadEnd_suffix : ∀ (a b : Bytes), leadEnd (a ++ b) = true → leadEnd b = true
  | [], _, h => h
  | c :: cs, b, h => by
    simp only [List.cons_append, leadEnd, Bool.and_eq_true] at h
    exact leadEnd_suffix cs b h.2

theorem leadEnd_head (c : UInt8) (cs : Bytes) (h : leadEnd (c :: cs) = true) (hc : isLead 44 c = false) : 44 ∈ cs := by
  simp only [leadEnd, Bool.and_eq_true, Bool.or_eq_true, hc, Bool.false_eq_true, false_or] at h
  simpa using h.1

theorem leadEnd_append : ∀ (a b : Bytes), leadEnd a = true → leadEnd b = true → leadEnd (a ++ b) = true
  | [], _, _, hb => hb
  | c :: cs, b, ha, hb => by
    simp only [leadEnd, Bool.and_eq_true, Bool.or_eq_true] at ha
    simp only [List.cons_append, leadEnd, Bool.and_eq_true, Bool.or_eq_true]
    refine ⟨?_, leadEnd_append cs b ha.2 hb⟩
    rcases ha.1 with h | h
    · exact Or.inl h
    · right
      simp only [List.contains_eq_mem, List.mem_append, decide_eq_true_eq] at h ⊢
      exact Or.inl h

theorem leadEnd_allLead : ∀ (w : Bytes), (∀ c ∈ w, isLead 44 c = true) → leadEnd w = true
  | [], _ => rfl
  | c :: cs, h => by
    simp only [leadEnd, Bool.and_eq_true, Bool.or_eq_true]
    exact ⟨Or.inl (h c (by simp)), leadEnd_allLead cs (fun x hx => h x (by simp [hx]))⟩

theorem leadEnd_snoc_comma : ∀ (p : Bytes), leadEnd (p ++ [44]) = true
  | [] => by decide
  | c :: cs => by
    simp only [List.cons_append, leadEnd, Bool.and_eq_true, Bool.or_eq_true]
    refine ⟨Or.inr ?_, leadEnd_snoc_comma cs⟩
    simp

/-! ### the iteration finds every element -/

theorem itemsAux_step (fuel : Nat) (s : Bytes) :
    itemsAux 44 (fuel + 1) s =
      (if (rtrim ((skipLead 44 s).take (scan 44 false (skipLead 44 s)))).isEmpty then []
       else (rtrim ((skipLead 44 s).take (scan 44 false (skipLead 44 s))), skipLead 44 s) ::
         itemsAux 44 fuel ((skipLead 44 s).drop (scan 44 false (skipLead 44 s)))) := rfl

theorem tok_mem_itemsAux (tok w2 post : Bytes) (htok : IsTok tok) (hw2 : ∀ c ∈ w2, isSpace c = true)
    (hpost : post = [] ∨ ∃ t, post = 44 :: t) :
    ∀ (n : Nat) (pre : Bytes) (fuel : Nat), pre.length ≤ n → Clean pre → leadEnd pre = true →
      (pre ++ (tok ++ (w2 ++ post))).length < fuel →
      ∃ raw, (tok, raw) ∈ itemsAux 44 fuel (pre ++ (tok ++ (w2 ++ post))) := by
  intro n
  induction n with
  | zero =>
    intro pre fuel hlen _ _ hfuel
    have hpre : pre = [] := List.eq_nil_of_length_eq_zero (by omega)
    subst hpre
    -- same as the all-lead case below with an empty prefix
    obtain ⟨fuel, rfl⟩ : ∃ f, fuel = f + 1 := ⟨fuel - 1, by omega⟩
    obtain ⟨t0, ts, rfl⟩ : ∃ t0 ts, tok = t0 :: ts := by
      cases tok with
      | nil => exact absurd rfl htok.1
      | cons a b => exact ⟨a, b, rfl⟩
    have ht0 : isLead 44 t0 = false := by
      have h1 := htok.2 t0 (by simp)
      have h2 := tok_not_lead t0
      simp only [h1, Bool.not_true, Bool.false_or, Bool.not_eq_true'] at h2
      exact h2
    have hskip : skipLead 44 ([] ++ (t0 :: ts ++ (w2 ++ post))) = t0 :: ts ++ (w2 ++ post) := by
      simp only [List.nil_append, List.cons_append]
      exact skipLead_cons_nonlead 44 t0 _ ht0
    have hplain : ∀ c ∈ (t0 :: ts) ++ w2, (c != 34 && c != 44) = true := by
      intro c hc
      rcases List.mem_append.1 hc with hc | hc
      · have h1 := htok.2 c hc
        have h2 := tok_plain c
        simpa [h1] using h2
      · have h1 := hw2 c hc
        have h2 := space_plain c
        simpa [h1] using h2
    have hscan : scan 44 false (t0 :: ts ++ (w2 ++ post)) = ((t0 :: ts) ++ w2).length := by
      have := scan_plain ((t0 :: ts) ++ w2) post hplain hpost
      simpa [List.append_assoc] using this
    have hnosp : ∀ c ∈ t0 :: ts, isSpace c = false := by
      intro c hc
      have h1 := htok.2 c hc
      have h2 := tok_not_space c
      simpa [h1] using h2
    have hitem : rtrim ((t0 :: ts ++ (w2 ++ post)).take ((t0 :: ts) ++ w2).length) = t0 :: ts := by
      have : (t0 :: ts ++ (w2 ++ post)).take ((t0 :: ts) ++ w2).length = (t0 :: ts) ++ w2 := by
        rw [← List.append_assoc]
        exact List.take_left' rfl
      rw [this, rtrim_append_space w2 hw2, rtrim_noSpace _ hnosp]
    refine ⟨t0 :: ts ++ (w2 ++ post), ?_⟩
    rw [itemsAux_step, hskip, hscan, hitem]
    simp
  | succ n ih =>
    intro pre fuel hlen hclean hle hfuel
    obtain ⟨fuel, rfl⟩ : ∃ f, fuel = f + 1 := ⟨fuel - 1, by omega⟩
    obtain ⟨t0, ts, rfl⟩ : ∃ t0 ts, tok = t0 :: ts := by
      cases tok with
      | nil => exact absurd rfl htok.1
      | cons a b => exact ⟨a, b, rfl⟩
    have ht0 : isLead 44 t0 = false := by
      have h1 := htok.2 t0 (by simp)
      have h2 := tok_not_lead t0
      simp only [h1, Bool.not_true, Bool.false_or, Bool.not_eq_true'] at h2
      exact h2
    have hplain : ∀ c ∈ (t0 :: ts) ++ w2, (c != 34 && c != 44) = true := by
      intro c hc
      rcases List.mem_append.1 hc with hc | hc
      · have h1 := htok.2 c hc
        have h2 := tok_plain c
        simpa [h1] using h2
      · have h1 := hw2 c hc
        have h2 := space_plain c
        simpa [h1] using h2
    have hnosp : ∀ c ∈ t0 :: ts, isSpace c = false := by
      intro c hc
      have h1 := htok.2 c hc
      have h2 := tok_not_space c
      simpa [h1] using h2
    by_cases hall : ∀ c ∈ pre, isLead 44 c = true
    · -- the whole prefix is skipped: the element is the next item
      have hskip : skipLead 44 (pre ++ (t0 :: ts ++ (w2 ++ post))) = t0 :: ts ++ (w2 ++ post) := by
        rw [skipLead_append_lead 44 pre _ hall]
        exact skipLead_cons_nonlead 44 t0 _ ht0
      have hscan : scan 44 false (t0 :: ts ++ (w2 ++ post)) = ((t0 :: ts) ++ w2).length := by
        have := scan_plain ((t0 :: ts) ++ w2) post hplain hpost
        simpa [List.append_assoc] using this
      have hitem : rtrim ((t0 :: ts ++ (w2 ++ post)).take ((t0 :: ts) ++ w2).length) = t0 :: ts := by
        have : (t0 :: ts ++ (w2 ++ post)).take ((t0 :: ts) ++ w2).length = (t0 :: ts) ++ w2 := by
          rw [← List.append_assoc]
          exact List.take_left' rfl
        rw [this, rtrim_append_space w2 hw2, rtrim_noSpace _ hnosp]
      refine ⟨t0 :: ts ++ (w2 ++ post), ?_⟩
      rw [itemsAux_step, hskip, hscan, hitem]
      simp
    · -- some byte of the prefix starts an earlier item, which ends at a comma inside the prefix
      have hex : ∃ x ∈ pre, (!isLead 44 x) = true := by
        by_cases h : ∃ x ∈ pre, (!isLead 44 x) = true
        · exact h
        · exfalso
          apply hall
          intro c hc
          by_cases hcl : isLead 44 c = true
          · exact hcl
          · exact absurd ⟨c, hc, by simpa using hcl⟩ h
      obtain ⟨a, c, r, hpre, ha, hc⟩ := split_first (fun x => !isLead 44 x) pre hex
      have hcl : isLead 44 c = false := by simpa using hc
      have ha' : ∀ y ∈ a, isLead 44 y = true := by
        intro y hy
        simpa using ha y hy
      have hle' : leadEnd (c :: r) = true := by
        rw [hpre] at hle
        exact leadEnd_suffix a _ hle
      have hcomma : ∃ x ∈ r, (x == 44) = true := ⟨44, leadEnd_head c r hle' hcl, by simp⟩
      obtain ⟨b', x, r', hr, hb', hx⟩ := split_first (fun x => x == 44) r hcomma
      have hx44 : x = 44 := by simpa using hx
      subst hx44
      have hcleanc : cleanByte c = true := hclean c (by rw [hpre]; simp)
      have hcsp : isSpace c = false := by
        have h2 := space_is_lead_or_vtff c
        simp only [hcl, hcleanc, Bool.not_true, Bool.or_false, Bool.not_eq_true'] at h2
        exact h2
      have hc44 : (c != 44) = true := by
        cases h44 : (c == 44) with
        | true =>
          have : c = 44 := by simpa using h44
          subst this
          exact absurd hcl (by decide)
        | false => simp [bne, h44]
      have hbplain : ∀ y ∈ c :: b', (y != 34 && y != 44) = true := by
        intro y hy
        have hyc : cleanByte y = true := hclean y (by
          rw [hpre, hr]
          rcases List.mem_cons.1 hy with rfl | hy
          · simp
          · simp [hy])
        have hy34 : (y != 34) = true := by
          simp only [cleanByte, Bool.and_eq_true] at hyc
          exact hyc.1
        rcases List.mem_cons.1 hy with rfl | hy
        · simp [hy34, hc44]
        · have := hb' y hy
          simp only [Bool.and_eq_true, hy34, true_and, bne_iff_ne, ne_eq]
          simpa using this
      -- the string after skipping
      have hs : pre ++ (t0 :: ts ++ (w2 ++ post)) = a ++ ((c :: b') ++ (44 :: (r' ++ (t0 :: ts ++ (w2 ++ post))))) := by
        rw [hpre, hr]
        simp [List.append_assoc]
      have hskip : skipLead 44 (pre ++ (t0 :: ts ++ (w2 ++ post))) = (c :: b') ++ (44 :: (r' ++ (t0 :: ts ++ (w2 ++ post)))) := by
        rw [hs, skipLead_append_lead 44 a _ ha']
        exact skipLead_cons_nonlead 44 c _ hcl
      have hscan : scan 44 false ((c :: b') ++ (44 :: (r' ++ (t0 :: ts ++ (w2 ++ post))))) = (c :: b').length :=
        scan_plain (c :: b') _ hbplain (Or.inr ⟨_, rfl⟩)
      have htake : ((c :: b') ++ (44 :: (r' ++ (t0 :: ts ++ (w2 ++ post))))).take (c :: b').length = c :: b' :=
        List.take_left' rfl
      have hdrop : ((c :: b') ++ (44 :: (r' ++ (t0 :: ts ++ (w2 ++ post))))).drop (c :: b').length
          = (44 :: r') ++ (t0 :: ts ++ (w2 ++ post)) := by
        rw [List.drop_left' rfl]
        rfl
      have hne : rtrim (c :: b') ≠ [] := rtrim_ne_nil_of_head c b' hcsp
      have hempty : (rtrim (c :: b')).isEmpty = false := by
        cases h : rtrim (c :: b') with
        | nil => exact absurd h hne
        | cons _ _ => rfl
      -- induction hypothesis on the rest of the prefix
      have hlen' : (44 :: r').length ≤ n := by
        have : pre.length = a.length + (1 + (b'.length + (1 + r'.length))) := by
          rw [hpre, hr]; simp; omega
        simp only [List.length_cons]
        omega
      have hclean' : Clean (44 :: r') := by
        intro y hy
        apply hclean y
        rw [hpre, hr]
        rcases List.mem_cons.1 hy with rfl | hy
        · simp
        · simp [hy]
      have hle'' : leadEnd (44 :: r') = true := by
        have : pre = (a ++ (c :: b')) ++ (44 :: r') := by rw [hpre, hr]; simp
        rw [this] at hle
        exact leadEnd_suffix _ _ hle
      have hfuel' : ((44 :: r') ++ (t0 :: ts ++ (w2 ++ post))).length < fuel := by
        have h1 : (pre ++ (t0 :: ts ++ (w2 ++ post))).length < fuel + 1 := hfuel
        rw [hs] at h1
        simp only [List.length_append, List.length_cons] at h1 ⊢
        omega
      obtain ⟨raw, hraw⟩ := ih (44 :: r') fuel hlen' hclean' hle'' hfuel'
      refine ⟨raw, ?_⟩
      rw [itemsAux_step, hskip, hscan, htake, hdrop, hempty]
      simp only [Bool.false_eq_true, if_false]
      exact List.mem_cons_of_mem _ hraw

/-! ### C strings -/

theorem cstr_of_nonzero : ∀ (s : Bytes), (∀ c ∈ s, c ≠ 0) → cstr s = s
  | [], _ => rfl
  | c :: cs, h => by
    have hc : (c == 0) = false := by simpa using h c (by simp)
    simp [cstr, hc, cstr_of_nonzero cs (fun x hx => h x (by simp [hx]))]

theorem clean_nonzero {s : Bytes} (h : Clean s) : ∀ c ∈ s, c ≠ 0 := by
  intro c hc
  have := h c hc
  simp only [cleanByte, Bool.and_eq_true, bne_iff_ne, ne_eq] at this
  exact this.2

/-- On a list without double quote and NUL, an element `tok` delimited by commas (or the ends of the list), with
skippable bytes before it and whitespace after it, is a member — whatever its letter case. -/
theorem isMember_of_element (pre tok w2 post m : Bytes) (hclean : Clean (pre ++ (tok ++ (w2 ++ post))))
    (hle : leadEnd pre = true) (htok : IsTok tok) (hw2 : ∀ c ∈ w2, isSpace c = true)
    (hpost : post = [] ∨ ∃ t, post = 44 :: t) (hm : lowerB tok = lowerB m) :
    isMember (pre ++ (tok ++ (w2 ++ post))) m = true := by
  have hcs : cstr (pre ++ (tok ++ (w2 ++ post))) = pre ++ (tok ++ (w2 ++ post)) := cstr_of_nonzero _ (clean_nonzero hclean)
  have hpc : Clean pre := fun c hc => hclean c (by simp [hc])
  obtain ⟨raw, hraw⟩ := tok_mem_itemsAux tok w2 post htok hw2 hpost pre.length pre
    ((pre ++ (tok ++ (w2 ++ post))).length + 1) (Nat.le_refl _) hpc hle (by omega)
  unfold isMember items itemsRaw
  rw [hcs]
  simp only [List.any_eq_true, List.mem_map]
  refine ⟨tok, ⟨(tok, raw), hraw, rfl⟩, ?_⟩
  have hlen : tok.length = m.length := by
    have := congrArg List.length hm
    simpa [lowerB] using this
  simp [hlen, hm]

end SquidModel.Hop
