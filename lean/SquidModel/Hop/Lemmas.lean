/-
Lemmas about the request and reply filter models: joined Connection lists, where every outgoing field comes from,
and what Squid's own additions look like.
-/
import SquidModel.Hop.Reply
import SquidModel.Hop.StrListLemmas
namespace SquidModel.Hop
open SquidModel.Gen.HopByHop

/-! ### RFC 9110 list syntax and the joined list -/

/-- `tok` is an element of the comma-separated field value `v`: delimited by commas or the ends of the value, with optional
whitespace (SP / HTAB) around it -/
def IsElement (tok v : Bytes) : Prop :=
  ∃ p w1 w2 q, v = p ++ (w1 ++ (tok ++ (w2 ++ q))) ∧ (p = [] ∨ ∃ p', p = p' ++ [44]) ∧ (q = [] ∨ ∃ q', q = 44 :: q') ∧
    (∀ c ∈ w1, c = 32 ∨ c = 9) ∧ (∀ c ∈ w2, c = 32 ∨ c = 9)

theorem listAdd_clean (acc x : Bytes) (hx : Clean x) : listAdd acc x = if acc.isEmpty then x else acc ++ [44, 32] ++ x := by
  unfold listAdd
  rw [cstr_of_nonzero x (clean_nonzero hx)]

theorem foldl_listAdd_prefix : ∀ (xs : List Bytes) (acc : Bytes), acc ≠ [] → (∀ x ∈ xs, Clean x) →
    ∃ B, xs.foldl listAdd acc = acc ++ B ∧ (B = [] ∨ ∃ B', B = 44 :: B')
  | [], acc, _, _ => ⟨[], by simp, Or.inl rfl⟩
  | x :: xs, acc, hacc, hc => by
    have hx : Clean x := hc x (by simp)
    have hadd : listAdd acc x = acc ++ [44, 32] ++ x := by
      rw [listAdd_clean acc x hx]
      cases acc with
      | nil => exact absurd rfl hacc
      | cons _ _ => rfl
    have hne : listAdd acc x ≠ [] := by
      rw [hadd]
      cases acc with
      | nil => exact absurd rfl hacc
      | cons _ _ => simp
    obtain ⟨B, hB, _⟩ := foldl_listAdd_prefix xs (listAdd acc x) hne (fun y hy => hc y (by simp [hy]))
    refine ⟨[44, 32] ++ x ++ B, ?_, Or.inr ⟨_, rfl⟩⟩
    rw [List.foldl_cons, hB, hadd]
    simp [List.append_assoc]

theorem foldl_listAdd_split (v : Bytes) (hv : v ≠ []) : ∀ (vals : List Bytes) (acc : Bytes), v ∈ vals → (∀ x ∈ vals, Clean x) →
    ∃ A B, vals.foldl listAdd acc = A ++ (v ++ B) ∧ (A = [] ∨ ∃ A', A = A' ++ [44, 32]) ∧ (B = [] ∨ ∃ B', B = 44 :: B')
  | [], _, h, _ => by cases h
  | x :: xs, acc, h, hc => by
    have hx : Clean x := hc x (by simp)
    have hxs : ∀ y ∈ xs, Clean y := fun y hy => hc y (by simp [hy])
    by_cases hvx : v = x
    · subst hvx
      have hne : listAdd acc v ≠ [] := by
        rw [listAdd_clean acc v hx]
        split
        · exact hv
        · simp
      obtain ⟨B, hB, hB'⟩ := foldl_listAdd_prefix xs (listAdd acc v) hne hxs
      simp only [List.foldl_cons, hB]
      rw [listAdd_clean acc v hx]
      by_cases he : acc.isEmpty = true
      · refine ⟨[], B, by simp [he], Or.inl rfl, hB'⟩
      · refine ⟨acc ++ [44, 32], B, by simp [he, List.append_assoc], Or.inr ⟨acc, rfl⟩, hB'⟩
    · have hmem : v ∈ xs := by
        rcases List.mem_cons.1 h with h | h
        · exact absurd h hvx
        · exact h
      simpa using foldl_listAdd_split v hv xs (listAdd acc x) hmem hxs

theorem clean_append {a b : Bytes} (ha : Clean a) (hb : Clean b) : Clean (a ++ b) := by
  intro c hc
  rcases List.mem_append.1 hc with h | h
  · exact ha c h
  · exact hb c h

theorem clean_foldl : ∀ (xs : List Bytes) (acc : Bytes), Clean acc → (∀ x ∈ xs, Clean x) → Clean (xs.foldl listAdd acc)
  | [], _, h, _ => h
  | x :: xs, acc, hacc, hc => by
    have hx : Clean x := hc x (by simp)
    apply clean_foldl xs _ _ (fun y hy => hc y (by simp [hy]))
    rw [listAdd_clean acc x hx]
    split
    · exact hx
    · exact clean_append (clean_append hacc (by intro c hc; simp at hc; rcases hc with rfl | rfl <;> decide)) hx

/-- A token that is an element (RFC list syntax, any letter case) of one of several Connection field values is a member of
the joined list, provided no value contains a double quote, VT, FF or NUL. -/
theorem isMember_join_of_element (vals : List Bytes) (v tok m : Bytes) (hclean : ∀ x ∈ vals, Clean x) (hv : v ∈ vals)
    (hel : IsElement tok v) (htok : IsTok tok) (hm : lowerB tok = lowerB m) :
    isMember (joinValues vals) m = true ∧ (joinValues vals).length > 0 := by
  obtain ⟨p, w1, w2, q, hveq, hp, hq, hw1, hw2⟩ := hel
  have hvne : v ≠ [] := by
    intro h
    rw [h] at hveq
    have := congrArg List.length hveq
    have htl : 0 < tok.length := List.length_pos_iff.2 htok.1
    simp only [List.length_nil, List.length_append] at this
    omega
  obtain ⟨A, B, hj, hA, hB⟩ := foldl_listAdd_split v hvne vals [] hv hclean
  have hjc : Clean (joinValues vals) := clean_foldl vals [] (by intro c hc; cases hc) hclean
  have heq : joinValues vals = (A ++ (p ++ w1)) ++ (tok ++ (w2 ++ (q ++ B))) := by
    unfold joinValues
    rw [hj, hveq]
    simp [List.append_assoc]
  have hlead : leadEnd (A ++ (p ++ w1)) = true := by
    apply leadEnd_append
    · rcases hA with rfl | ⟨A', rfl⟩
      · rfl
      · have : A' ++ [44, 32] = (A' ++ [44]) ++ [32] := by simp
        rw [this]
        exact leadEnd_append _ _ (leadEnd_snoc_comma A') (by decide)
    · apply leadEnd_append
      · rcases hp with rfl | ⟨p', rfl⟩
        · rfl
        · exact leadEnd_snoc_comma p'
      · apply leadEnd_allLead
        intro c hc
        rcases hw1 c hc with rfl | rfl <;> decide
  have hw2' : ∀ c ∈ w2, isSpace c = true := by
    intro c hc
    rcases hw2 c hc with rfl | rfl <;> decide
  have hpost : (q ++ B) = [] ∨ ∃ t, (q ++ B) = 44 :: t := by
    rcases hq with rfl | ⟨q', rfl⟩
    · simpa using hB
    · exact Or.inr ⟨q' ++ B, rfl⟩
  constructor
  · rw [heq]
    apply isMember_of_element _ tok w2 _ m _ hlead htok hw2' hpost hm
    rw [← heq]
    exact hjc
  · rw [heq]
    have htl : 0 < tok.length := List.length_pos_iff.2 htok.1
    simp only [List.length_append]
    omega

/-! ### request side: where outgoing fields come from -/

/-- what Squid's own additions (and derived fields) of the request path satisfy -/
def OwnOk (ctx : Ctx) (o : Out) : Prop :=
  o.isCopy = false ∧
  (o.id = Id.TRANSFER_ENCODING → ctx.chunkedRequest = true ∧ o.src = .own ∧ o.value = some chunkedBytes) ∧
  (o.id = Id.PROXY_AUTHORIZATION → ctx.toOrigin = false) ∧
  (o.id = Id.CONNECTION → o.src = .own ∧ (o.value = some keepAliveBytes ∨ o.value = some closeBytes ∨ o.value = some [117, 112, 103, 114, 97, 100, 101])) ∧
  (∀ i, o.src = .derived i → o.id = Id.MAX_FORWARDS ∨ (o.id = Id.AUTHORIZATION ∧ ctx.toOrigin = true ∧ ctx.peerLogin = some .proxypass)) ∧
  o.id ≠ Id.KEEP_ALIVE ∧ o.id ≠ Id.TE ∧ o.id ≠ Id.TRAILER ∧ o.id ≠ Id.PROXY_CONNECTION ∧ o.id ≠ Id.PROXY_AUTHENTICATE ∧
  (o.id = Id.UPGRADE → ctx.upgradeOut = true)

theorem ownOk_of (ctx : Ctx) (id : Nat) (v : Option Bytes)
    (hte : id = Id.TRANSFER_ENCODING → ctx.chunkedRequest = true ∧ v = some chunkedBytes)
    (hpa : id = Id.PROXY_AUTHORIZATION → ctx.toOrigin = false)
    (hco : id = Id.CONNECTION → (v = some keepAliveBytes ∨ v = some closeBytes ∨ v = some [117, 112, 103, 114, 97, 100, 101]))
    (hup : id = Id.UPGRADE → ctx.upgradeOut = true)
    (h4 : id ≠ Id.KEEP_ALIVE ∧ id ≠ Id.TE ∧ id ≠ Id.TRAILER ∧ id ≠ Id.PROXY_CONNECTION ∧ id ≠ Id.PROXY_AUTHENTICATE) :
    OwnOk ctx (own id v) := by
  unfold OwnOk own Out.isCopy
  refine ⟨rfl, fun h => ⟨(hte h).1, rfl, (hte h).2⟩, hpa, fun h => ⟨rfl, hco h⟩, ?_,
    h4.1, h4.2.1, h4.2.2.1, h4.2.2.2.1, h4.2.2.2.2, hup⟩
  intro i h
  exact Src.noConfusion h

theorem ownOk_own (ctx : Ctx) (id : Nat) (v : Option Bytes)
    (h1 : id ≠ Id.TRANSFER_ENCODING) (h2 : id ≠ Id.PROXY_AUTHORIZATION) (h3 : id ≠ Id.CONNECTION)
    (h4 : id ≠ Id.KEEP_ALIVE ∧ id ≠ Id.TE ∧ id ≠ Id.TRAILER ∧ id ≠ Id.PROXY_CONNECTION ∧ id ≠ Id.PROXY_AUTHENTICATE ∧ id ≠ Id.UPGRADE) :
    OwnOk ctx (own id v) :=
  ownOk_of ctx id v (fun h => absurd h h1) (fun h => absurd h h2) (fun h => absurd h h3) (fun h => absurd h h4.2.2.2.2.2)
    ⟨h4.1, h4.2.1, h4.2.2.1, h4.2.2.2.1, h4.2.2.2.2.1⟩

theorem ownOk_derived (ctx : Ctx) (i id : Nat) (name : Bytes) (v : Option Bytes)
    (hd : id = Id.MAX_FORWARDS ∨ (id = Id.AUTHORIZATION ∧ ctx.toOrigin = true ∧ ctx.peerLogin = some .proxypass)) :
    OwnOk ctx ⟨.derived i, id, name, v⟩ := by
  have hne : id ≠ Id.TRANSFER_ENCODING ∧ id ≠ Id.PROXY_AUTHORIZATION ∧ id ≠ Id.CONNECTION ∧ id ≠ Id.KEEP_ALIVE ∧ id ≠ Id.TE ∧
      id ≠ Id.TRAILER ∧ id ≠ Id.PROXY_CONNECTION ∧ id ≠ Id.PROXY_AUTHENTICATE ∧ id ≠ Id.UPGRADE := by
    rcases hd with rfl | ⟨rfl, _⟩ <;> decide
  unfold OwnOk Out.isCopy
  exact ⟨rfl, fun h => absurd h hne.1, fun h => absurd h hne.2.1, fun h => absurd h hne.2.2.1, fun _ _ => hd,
    hne.2.2.2.1, hne.2.2.2.2.1, hne.2.2.2.2.2.1, hne.2.2.2.2.2.2.1, hne.2.2.2.2.2.2.2.1, fun h => absurd h hne.2.2.2.2.2.2.2.2⟩

theorem emit_cases (ctx : Ctx) (sc : Bytes) (out : List Out) (i : Nat) (e : Entry) :
    ∀ o ∈ emit ctx sc out i e, (o = ⟨.copied i, e.id, e.name, some e.value⟩ ∧ bodyOf e.id ≠ .drop) ∨ OwnOk ctx o := by
  intro o ho
  unfold emit at ho
  generalize hb : bodyOf e.id = b at ho
  have hclone : o ∈ ([⟨.copied i, e.id, e.name, some e.value⟩] : List Out) → b ≠ .drop →
      (o = ⟨.copied i, e.id, e.name, some e.value⟩ ∧ b ≠ .drop) ∨ OwnOk ctx o := by
    intro h hne
    exact Or.inl ⟨by simpa using h, hne⟩
  have hhost : o ∈ [own Id.HOST none] → (o = ⟨.copied i, e.id, e.name, some e.value⟩ ∧ b ≠ .drop) ∨ OwnOk ctx o := by
    intro h
    simp only [List.mem_singleton] at h
    subst h
    exact Or.inr (ownOk_own ctx _ _ (by decide) (by decide) (by decide) (by decide))
  have hmf : ∀ v, o ∈ ([⟨.derived i, Id.MAX_FORWARDS, registeredName Id.MAX_FORWARDS, v⟩] : List Out) →
      (o = ⟨.copied i, e.id, e.name, some e.value⟩ ∧ b ≠ .drop) ∨ OwnOk ctx o := by
    intro v h
    simp only [List.mem_singleton] at h
    subst h
    exact Or.inr (ownOk_derived ctx i _ _ _ (Or.inl rfl))
  cases b <;> simp only [] at ho <;> (repeat' split at ho) <;> first
    | (cases ho; done)
    | exact hclone ho (by decide)
    | exact hhost ho
    | exact hmf _ ho

theorem emit_copied_index (ctx : Ctx) (sc : Bytes) (out : List Out) (i j : Nat) (e : Entry) (o : Out)
    (ho : o ∈ emit ctx sc out i e) (hs : o.src = .copied j) : j = i ∧ o = ⟨.copied i, e.id, e.name, some e.value⟩ ∧ bodyOf e.id ≠ .drop := by
  rcases emit_cases ctx sc out i e o ho with ⟨h, hb⟩ | h
  · subst h
    simp only [Src.copied.injEq] at hs
    exact ⟨hs.symm, rfl, hb⟩
  · have := h.1
    unfold Out.isCopy at this
    rw [hs] at this
    cases this

theorem emit_filter (ctx : Ctx) (sc : Bytes) (out : List Out) (i : Nat) (e : Entry) (hb : bodyOf e.id = .connectionFilter)
    (hlen : sc.length > 0) (hm : isMember sc e.name = true) : emit ctx sc out i e = [] := by
  unfold emit
  rw [hb]
  simp [hlen, hm]

theorem mem_copyLoop (ctx : Ctx) (sc : Bytes) : ∀ (es : List Entry) (out : List Out) (k : Nat) (o : Out),
    o ∈ copyLoop ctx sc out k es → o ∈ out ∨ ∃ j e out', es[j]? = some e ∧ o ∈ emit ctx sc out' (k + j) e
  | [], out, k, o, h => Or.inl h
  | e :: es, out, k, o, h => by
    simp only [copyLoop] at h
    rcases mem_copyLoop ctx sc es _ (k + 1) o h with h | ⟨j, e', out', hj, ho⟩
    · unfold copyOne at h
      rcases List.mem_append.1 h with h | h
      · exact Or.inl h
      · exact Or.inr ⟨0, e, out, rfl, by simpa using h⟩
    · refine Or.inr ⟨j + 1, e', out', by simpa using hj, ?_⟩
      have : k + 1 + j = k + (j + 1) := by omega
      rw [← this]
      exact ho

theorem beforeLoop_own (ctx : Ctx) : ∀ o ∈ beforeLoop ctx, OwnOk ctx o := by
  intro o ho
  unfold beforeLoop at ho
  have hup : ∀ o ∈ (if ctx.upgradeOut then [own Id.UPGRADE none, own Id.CONNECTION (some [117, 112, 103, 114, 97, 100, 101])] else []), OwnOk ctx o := by
    intro o ho
    split at ho
    · rename_i hu
      simp only [List.mem_cons, List.mem_nil_iff, or_false] at ho
      rcases ho with rfl | rfl
      · exact ownOk_of ctx _ _ (fun h => absurd h (by decide)) (fun h => absurd h (by decide)) (fun h => absurd h (by decide)) (fun _ => hu) (by decide)
      · exact ownOk_of ctx _ _ (fun h => absurd h (by decide)) (fun h => absurd h (by decide)) (fun _ => Or.inr (Or.inr rfl)) (fun h => absurd h (by decide)) (by decide)
    · cases ho
  simp only [] at ho
  have hims : OwnOk ctx (own Id.IF_MODIFIED_SINCE none) := ownOk_own ctx _ _ (by decide) (by decide) (by decide) (by decide)
  have hinm : OwnOk ctx (own Id.IF_NONE_MATCH none) := ownOk_own ctx _ _ (by decide) (by decide) (by decide) (by decide)
  split at ho
  · rcases List.mem_append.1 ho with ho | ho
    · split at ho
      · rcases List.mem_append.1 ho with ho | ho
        · exact hup o ho
        · simp only [List.mem_singleton] at ho; subst ho; exact hims
      · exact hup o ho
    · simp only [List.mem_singleton] at ho; subst ho; exact hinm
  · split at ho
    · rcases List.mem_append.1 ho with ho | ho
      · exact hup o ho
      · simp only [List.mem_singleton] at ho; subst ho; exact hims
    · exact hup o ho

theorem proxypassField_ok (ctx : Ctx) (login : Login) (hdrIn : List Entry) (o : Out) (hl : ctx.peerLogin = some login)
    (h : proxypassField ctx login hdrIn = some o) : OwnOk ctx o := by
  unfold proxypassField at h
  split at h
  · rename_i hcond
    simp only [Bool.and_eq_true, beq_iff_eq] at hcond
    split at h
    · split at h
      · simp only [Option.some.injEq] at h
        subst h
        exact ownOk_derived ctx _ _ _ _ (Or.inr ⟨rfl, hcond.1, by rw [hl, hcond.2]⟩)
      · cases h
    · cases h
  · cases h

theorem fixup_cases (ctx : Ctx) (hdrIn : List Entry) (l : List Out) : ∀ o ∈ fixupAuthentication ctx hdrIn l, o ∈ l ∨ OwnOk ctx o := by
  intro o ho
  unfold fixupAuthentication at ho
  have hownA : ∀ v, OwnOk ctx (own Id.AUTHORIZATION v) := fun v => ownOk_own ctx _ _ (by decide) (by decide) (by decide) (by decide)
  have hownP : ctx.toOrigin = false → ∀ v, OwnOk ctx (own Id.PROXY_AUTHORIZATION v) := fun ht v =>
    ownOk_of ctx _ _ (fun h => absurd h (by decide)) (fun _ => ht) (fun h => absurd h (by decide)) (fun h => absurd h (by decide)) (by decide)
  split at ho
  · exact Or.inl ho
  split at ho
  · exact Or.inl ho
  split at ho
  · exact Or.inl ho
  split at ho
  · exact Or.inl ho
  rename_i login hlogin
  cases ht : ctx.toOrigin <;> simp only [ht, Bool.false_eq_true, if_false, if_true] at ho <;> (repeat' split at ho)
  all_goals first
    | exact Or.inl ho
    | (rcases List.mem_append.1 ho with ho | ho
       · exact Or.inl ho
       · simp only [List.mem_singleton] at ho
         subst ho
         right
         first
           | exact hownA _
           | exact hownP ht _
           | (apply proxypassField_ok ctx login hdrIn _ hlogin; assumption))

theorem mem_addChunked (ctx : Ctx) (l : List Out) (o : Out) (h : o ∈ addChunked ctx l) : o ∈ l ∨ OwnOk ctx o := by
  unfold addChunked at h
  split at h
  · rename_i hc
    rcases List.mem_append.1 h with h | h
    · exact Or.inl h
    · simp only [List.mem_singleton] at h; subst h
      exact Or.inr (ownOk_of ctx _ _ (fun _ => ⟨hc, rfl⟩) (fun h => absurd h (by decide)) (fun h => absurd h (by decide)) (fun h => absurd h (by decide)) (by decide))
  · exact Or.inl h

theorem mem_addConnection (ctx : Ctx) (l : List Out) (o : Out) (h : o ∈ addConnection ctx l) : o ∈ l ∨ OwnOk ctx o := by
  unfold addConnection at h
  split at h
  · rcases List.mem_append.1 h with h | h
    · exact Or.inl h
    · simp only [List.mem_singleton] at h; subst h
      refine Or.inr (ownOk_of ctx _ _ (fun h => absurd h (by decide)) (fun h => absurd h (by decide)) (fun _ => ?_) (fun h => absurd h (by decide)) (by decide))
      cases ctx.keepalive <;> simp
  · exact Or.inl h

/-- the remaining statements add at most one own field with a harmless id -/
theorem mem_simple_stage (ctx : Ctx) (f : List Out → List Out) (id : Nat) (v : Option Bytes)
    (hf : ∀ l o, o ∈ f l → o ∈ l ∨ o = own id v)
    (h1 : id ≠ Id.TRANSFER_ENCODING) (h2 : id ≠ Id.PROXY_AUTHORIZATION) (h3 : id ≠ Id.CONNECTION)
    (h4 : id ≠ Id.KEEP_ALIVE ∧ id ≠ Id.TE ∧ id ≠ Id.TRAILER ∧ id ≠ Id.PROXY_CONNECTION ∧ id ≠ Id.PROXY_AUTHENTICATE ∧ id ≠ Id.UPGRADE)
    (l : List Out) (o : Out) (h : o ∈ f l) : o ∈ l ∨ OwnOk ctx o := by
  rcases hf l o h with h | rfl
  · exact Or.inl h
  · exact Or.inr (ownOk_own ctx id v h1 h2 h3 h4)

theorem mem_addFrontEndHttps (ctx : Ctx) (l : List Out) (o : Out) (h : o ∈ addFrontEndHttps ctx l) : o ∈ l ∨ o = own Id.FRONT_END_HTTPS (some [79, 110]) := by
  unfold addFrontEndHttps at h
  split at h
  · rcases List.mem_append.1 h with h | h
    · exact Or.inl h
    · exact Or.inr (by simpa using h)
  · exact Or.inl h

theorem mem_addCc (l : List Out) (o : Out) (h : o ∈ addCc l) : o ∈ l ∨ o = own Id.CACHE_CONTROL none := by
  unfold addCc at h
  rcases List.mem_append.1 h with h | h
  · exact Or.inl (List.mem_filter.1 h).1
  · exact Or.inr (by simpa using h)

theorem mem_addUrlAuth (ctx : Ctx) (l : List Out) (o : Out) (h : o ∈ addUrlAuth ctx l) : o ∈ l ∨ o = own Id.AUTHORIZATION none := by
  unfold addUrlAuth at h
  split at h
  · rcases List.mem_append.1 h with h | h
    · exact Or.inl h
    · exact Or.inr (by simpa using h)
  · exact Or.inl h

theorem mem_addHost (l : List Out) (o : Out) (h : o ∈ addHost l) : o ∈ l ∨ o = own Id.HOST none := by
  unfold addHost at h
  split at h
  · rcases List.mem_append.1 h with h | h
    · exact Or.inl h
    · exact Or.inr (by simpa using h)
  · exact Or.inl h

theorem mem_addXff (ctx : Ctx) (hdrIn : List Entry) (l : List Out) (o : Out) (h : o ∈ addXff ctx hdrIn l) : o ∈ l ∨ o = own Id.X_FORWARDED_FOR none := by
  unfold addXff at h
  split at h
  · exact Or.inl h
  · split at h
    · exact Or.inl h
    · rcases List.mem_append.1 h with h | h
      · exact Or.inl h
      · exact Or.inr (by simpa using h)

theorem mem_addSurrogate (ctx : Ctx) (l : List Out) (o : Out) (h : o ∈ addSurrogate ctx l) : o ∈ l ∨ o = own Id.SURROGATE_CAPABILITY none := by
  unfold addSurrogate at h
  split at h
  · rcases List.mem_append.1 h with h | h
    · exact Or.inl (List.mem_filter.1 h).1
    · exact Or.inr (by simpa using h)
  · exact Or.inl h

theorem mem_addVia (ctx : Ctx) (l : List Out) (o : Out) (h : o ∈ addVia ctx l) : o ∈ l ∨ o = own Id.VIA none := by
  unfold addVia at h
  split at h
  · split at h
    · exact Or.inl h
    · rcases List.mem_append.1 h with h | h
      · exact Or.inl h
      · exact Or.inr (by simpa using h)
  · exact Or.inl h

theorem afterLoop_cases (ctx : Ctx) (hdrIn : List Entry) (l : List Out) : ∀ o ∈ afterLoop ctx hdrIn l, o ∈ l ∨ OwnOk ctx o := by
  intro o ho
  unfold afterLoop at ho
  rcases mem_addChunked ctx _ o ho with ho | h
  case inr =>
    exact Or.inr h
  rcases mem_simple_stage ctx _ _ _ (mem_addFrontEndHttps ctx) (by decide) (by decide) (by decide) (by decide) _ o ho with ho | h
  case inr =>
    exact Or.inr h
  rcases mem_addConnection ctx _ o ho with ho | h
  case inr =>
    exact Or.inr h
  rcases mem_simple_stage ctx _ _ _ mem_addCc (by decide) (by decide) (by decide) (by decide) _ o ho with ho | h
  case inr =>
    exact Or.inr h
  rcases fixup_cases ctx hdrIn _ o ho with ho | h
  case inr =>
    exact Or.inr h
  rcases mem_simple_stage ctx _ _ _ (mem_addUrlAuth ctx) (by decide) (by decide) (by decide) (by decide) _ o ho with ho | h
  case inr =>
    exact Or.inr h
  rcases mem_simple_stage ctx _ _ _ mem_addHost (by decide) (by decide) (by decide) (by decide) _ o ho with ho | h
  case inr =>
    exact Or.inr h
  rcases mem_simple_stage ctx _ _ _ (mem_addXff ctx hdrIn) (by decide) (by decide) (by decide) (by decide) _ o ho with ho | h
  case inr =>
    exact Or.inr h
  rcases mem_simple_stage ctx _ _ _ (mem_addSurrogate ctx) (by decide) (by decide) (by decide) (by decide) _ o ho with ho | h
  case inr =>
    exact Or.inr h
  exact mem_simple_stage ctx _ _ _ (mem_addVia ctx) (by decide) (by decide) (by decide) (by decide) _ o ho

/-- every field of the outgoing request is a clone of a received field made by the switch, or one of Squid's own -/
theorem buildRequest_cases (ctx : Ctx) (hdrIn : List Entry) : ∀ o ∈ buildRequest ctx hdrIn,
    (∃ i e out', hdrIn[i]? = some e ∧ o ∈ emit ctx (getList hdrIn Id.CONNECTION) out' i e) ∨ OwnOk ctx o := by
  intro o ho
  unfold buildRequest at ho
  rcases afterLoop_cases ctx hdrIn _ o ho with ho | h
  · rcases mem_copyLoop ctx _ hdrIn _ 0 o ho with ho | ⟨j, e, out', hj, ho⟩
    · exact Or.inr (beforeLoop_own ctx o ho)
    · exact Or.inl ⟨j, e, out', hj, by simpa using ho⟩
  · exact Or.inr h

/-! ### reply side -/

def ROwnOk (rc : RCtx) (o : Out) : Prop :=
  o.isCopy = false ∧
  (o.id = Id.TRANSFER_ENCODING → rc.chunkedReply = true ∧ o.value = some chunkedBytes) ∧
  (o.id = Id.CONNECTION → o.value = some keepAliveBytes ∨ o.value = some closeBytes ∨ o.value = some proxySupportBytes) ∧
  o.id ≠ Id.KEEP_ALIVE ∧ o.id ≠ Id.TE ∧ o.id ≠ Id.TRAILER ∧ o.id ≠ Id.PROXY_CONNECTION ∧ o.id ≠ Id.PROXY_AUTHENTICATE ∧ o.id ≠ Id.UPGRADE ∧
  o.id ≠ Id.PROXY_AUTHORIZATION

theorem rownOk_of (rc : RCtx) (id : Nat) (v : Option Bytes)
    (hte : id = Id.TRANSFER_ENCODING → rc.chunkedReply = true ∧ v = some chunkedBytes)
    (hco : id = Id.CONNECTION → v = some keepAliveBytes ∨ v = some closeBytes ∨ v = some proxySupportBytes)
    (h4 : id ≠ Id.KEEP_ALIVE ∧ id ≠ Id.TE ∧ id ≠ Id.TRAILER ∧ id ≠ Id.PROXY_CONNECTION ∧ id ≠ Id.PROXY_AUTHENTICATE ∧ id ≠ Id.UPGRADE ∧ id ≠ Id.PROXY_AUTHORIZATION) :
    ROwnOk rc (own id v) := by
  unfold ROwnOk own Out.isCopy
  exact ⟨rfl, hte, hco, h4.1, h4.2.1, h4.2.2.1, h4.2.2.2.1, h4.2.2.2.2.1, h4.2.2.2.2.2.1, h4.2.2.2.2.2.2⟩

theorem rownOk_own (rc : RCtx) (id : Nat) (v : Option Bytes) (h1 : id ≠ Id.TRANSFER_ENCODING) (h3 : id ≠ Id.CONNECTION)
    (h4 : id ≠ Id.KEEP_ALIVE ∧ id ≠ Id.TE ∧ id ≠ Id.TRAILER ∧ id ≠ Id.PROXY_CONNECTION ∧ id ≠ Id.PROXY_AUTHENTICATE ∧ id ≠ Id.UPGRADE ∧ id ≠ Id.PROXY_AUTHORIZATION) :
    ROwnOk rc (own id v) :=
  rownOk_of rc id v (fun h => absurd h h1) (fun h => absurd h h3) h4

theorem mem_wwwAuthLoop (rc : RCtx) : ∀ (l : List Out) (o : Out), o ∈ (wwwAuthLoop rc l).1 → o ∈ l
  | [], _, h => by simp [wwwAuthLoop] at h
  | x :: rest, o, h => by
    unfold wwwAuthLoop at h
    split at h
    · split at h
      · exact List.mem_cons_of_mem _ (mem_wwwAuthLoop rc rest o h)
      · exact h
    · simp only [List.mem_cons] at h
      rcases h with rfl | h
      · simp
      · exact List.mem_cons_of_mem _ (mem_wwwAuthLoop rc rest o h)

theorem mem_updateGo (id : Nat) : ∀ (l : List Out) (f : Bool) (o : Out), o ∈ updateGo id l f → o ∈ l ∨ o = own id none
  | [], _, _, h => by simp [updateGo] at h
  | x :: rest, f, o, h => by
    unfold updateGo at h
    split at h
    · split at h
      · rcases mem_updateGo id rest true o h with h | h
        · exact Or.inl (List.mem_cons_of_mem _ h)
        · exact Or.inr h
      · simp only [List.mem_cons] at h
        rcases h with rfl | h
        · exact Or.inr rfl
        · rcases mem_updateGo id rest true o h with h | h
          · exact Or.inl (List.mem_cons_of_mem _ h)
          · exact Or.inr h
    · simp only [List.mem_cons] at h
      rcases h with rfl | h
      · exact Or.inl (by simp)
      · rcases mem_updateGo id rest f o h with h | h
        · exact Or.inl (List.mem_cons_of_mem _ h)
        · exact Or.inr h

theorem mem_rSimple (rc : RCtx) (f : List Out → List Out) (id : Nat) (v : Option Bytes)
    (hf : ∀ l o, o ∈ f l → o ∈ l ∨ o = own id v) (h1 : id ≠ Id.TRANSFER_ENCODING) (h3 : id ≠ Id.CONNECTION)
    (h4 : id ≠ Id.KEEP_ALIVE ∧ id ≠ Id.TE ∧ id ≠ Id.TRAILER ∧ id ≠ Id.PROXY_CONNECTION ∧ id ≠ Id.PROXY_AUTHENTICATE ∧ id ≠ Id.UPGRADE ∧ id ≠ Id.PROXY_AUTHORIZATION)
    (l : List Out) (o : Out) (h : o ∈ f l) : o ∈ l ∨ ROwnOk rc o := by
  rcases hf l o h with h | rfl
  · exact Or.inl h
  · exact Or.inr (rownOk_own rc id v h1 h3 h4)

theorem mem_rSurrogate (rc : RCtx) (l : List Out) (o : Out) (h : o ∈ rSurrogate rc l) : o ∈ l := by
  unfold rSurrogate at h
  split at h
  · exact (List.mem_filter.1 h).1
  · exact h

theorem mem_rConnection (rc : RCtx) (l : List Out) (o : Out) (h : o ∈ rConnection rc l) : o ∈ l ∨ ROwnOk rc o := by
  unfold rConnection at h
  rcases List.mem_append.1 h with h | h
  · exact Or.inl h
  · simp only [List.mem_singleton] at h; subst h
    refine Or.inr (rownOk_of rc _ _ (fun h => absurd h (by decide)) (fun _ => ?_) (by decide))
    cases rc.proxyKeepalive <;> simp

theorem mem_rVia (rc : RCtx) (l : List Out) (o : Out) (h : o ∈ rVia rc l) : o ∈ l ∨ o = own Id.VIA none := by
  unfold rVia at h
  split at h
  · unfold updateOrAdd at h
    split at h
    · exact mem_updateGo _ _ _ _ h
    · rcases List.mem_append.1 h with h | h
      · exact Or.inl h
      · exact Or.inr (by simpa using h)
  · exact Or.inl h

theorem mem_rChunked (rc : RCtx) (l : List Out) (o : Out) (h : o ∈ rChunked rc l) : o ∈ l ∨ ROwnOk rc o := by
  unfold rChunked at h
  split at h
  · rename_i hc
    rcases List.mem_append.1 h with h | h
    · exact Or.inl h
    · simp only [List.mem_singleton] at h; subst h
      exact Or.inr (rownOk_of rc _ _ (fun _ => ⟨hc, rfl⟩) (fun h => absurd h (by decide)) (by decide))
  · exact Or.inl h

theorem mem_rCacheStatus (l : List Out) (o : Out) (h : o ∈ rCacheStatus l) : o ∈ l ∨ o = own Id.CACHE_STATUS none := by
  unfold rCacheStatus at h
  rcases List.mem_append.1 h with h | h
  · exact Or.inl h
  · exact Or.inr (by simpa using h)

theorem mem_rWwwAuth (rc : RCtx) (l : List Out) (o : Out) (h : o ∈ rWwwAuth rc l) : o ∈ l ∨ ROwnOk rc o := by
  unfold rWwwAuth at h
  split at h
  · split at h
    · rcases List.mem_append.1 h with h | h
      · exact Or.inl (mem_wwwAuthLoop rc _ o h)
      · simp only [List.mem_cons, List.mem_nil_iff, or_false] at h
        rcases h with rfl | rfl
        · exact Or.inr (rownOk_own rc _ _ (by decide) (by decide) (by decide))
        · exact Or.inr (rownOk_of rc _ _ (fun h => absurd h (by decide)) (fun _ => Or.inr (Or.inr rfl)) (by decide))
    · exact Or.inl (mem_wwwAuthLoop rc _ o h)
  · exact Or.inl h

theorem mem_rDate (l : List Out) (o : Out) (h : o ∈ rDate l) : o ∈ l ∨ o = own Id.DATE none := by
  unfold rDate at h
  split at h
  · rcases List.mem_append.1 h with h | h
    · exact Or.inl h
    · exact Or.inr (by simpa using h)
  · exact Or.inl h

theorem mem_rAge (rc : RCtx) (l : List Out) (o : Out) (h : o ∈ rAge rc l) : o ∈ l ∨ o = own Id.AGE none := by
  unfold rAge at h
  split at h
  · split at h
    · rcases List.mem_append.1 h with h | h
      · exact Or.inl (List.mem_filter.1 h).1
      · exact Or.inr (by simpa using h)
    · exact Or.inl (List.mem_filter.1 h).1
  · exact Or.inl h

theorem afterFilter_cases (rc : RCtx) (l : List Out) : ∀ o ∈ afterFilter rc l, o ∈ l ∨ ROwnOk rc o := by
  intro o ho
  unfold afterFilter at ho
  have ho := mem_rSurrogate rc _ o ho
  rcases mem_rConnection rc _ o ho with ho | h
  case inr => exact Or.inr h
  rcases mem_rSimple rc _ _ _ (mem_rVia rc) (by decide) (by decide) (by decide) _ o ho with ho | h
  case inr => exact Or.inr h
  rcases mem_rChunked rc _ o ho with ho | h
  case inr => exact Or.inr h
  rcases mem_rSimple rc _ _ _ mem_rCacheStatus (by decide) (by decide) (by decide) _ o ho with ho | h
  case inr => exact Or.inr h
  rcases mem_rWwwAuth rc _ o ho with ho | h
  case inr => exact Or.inr h
  rcases mem_rSimple rc _ _ _ mem_rDate (by decide) (by decide) (by decide) _ o ho with ho | h
  case inr => exact Or.inr h
  exact mem_rSimple rc _ _ _ (mem_rAge rc) (by decide) (by decide) (by decide) _ o ho

theorem mem_slotsOf (hdr : List Entry) (s : Slot) (h : s ∈ slotsOf hdr) : hdr[s.1]? = some s.2 := by
  unfold slotsOf at h
  simp only [List.mem_map] at h
  obtain ⟨p, hp, rfl⟩ := h
  have := List.mem_zipIdx hp
  simp only [Nat.zero_add] at this
  simp only []
  rw [List.getElem?_eq_some_iff]
  exact ⟨by omega, by simpa using this.2.2.symm⟩

/-- filtering fields with an id other than Connection does not change the Connection list -/
theorem getList_delById (h : List Slot) (id : Nat) (hid : id ≠ Id.CONNECTION) :
    getList ((delById h id).map (·.2)) Id.CONNECTION = getList (h.map (·.2)) Id.CONNECTION := by
  unfold getList delById
  congr 2
  induction h with
  | nil => rfl
  | cons s rest ih =>
    simp only [List.filter_cons]
    by_cases h1 : (s.2.id != id) = true
    · simp only [h1, if_true, List.map_cons, List.filter_cons]
      by_cases h2 : (s.2.id == Id.CONNECTION) = true
      · simp only [h2, if_true, ih]
      · simp only [h2, ih]
    · simp only [h1, List.map_cons, List.filter_cons]
      have h3 : s.2.id = id := by simpa using h1
      have h2 : (s.2.id == Id.CONNECTION) = false := by
        rw [h3]
        simpa using hid
      simp only [h2, Bool.false_eq_true, if_false, ih]

theorem has_delById (h : List Slot) (id : Nat) (hid : id ≠ Id.CONNECTION) :
    has ((delById h id).map (·.2)) Id.CONNECTION = has (h.map (·.2)) Id.CONNECTION := by
  unfold has delById
  rw [Bool.eq_iff_iff]
  simp only [List.any_eq_true, List.mem_map, List.mem_filter]
  constructor
  · rintro ⟨e, ⟨s, ⟨hs, _⟩, rfl⟩, he⟩
    exact ⟨_, ⟨s, hs, rfl⟩, he⟩
  · rintro ⟨e, ⟨s, hs, rfl⟩, he⟩
    refine ⟨_, ⟨s, ⟨hs, ?_⟩, rfl⟩, he⟩
    have h1 : s.2.id = Id.CONNECTION := by simpa using he
    have h2 : s.2.id ≠ id := by rw [h1]; exact fun h => hid h.symm
    simpa using h2

theorem has_slotsOf (hdr : List Entry) (id : Nat) : has ((slotsOf hdr).map (·.2)) id = has hdr id := by
  have : (slotsOf hdr).map (·.2) = hdr := by
    unfold slotsOf
    simp only [List.map_map]
    have : ((fun (x : Slot) => x.2) ∘ fun (p : Entry × Nat) => (p.2, p.1)) = fun (p : Entry × Nat) => p.1 := rfl
    rw [this]
    exact List.zipIdx_map_fst _ _
  rw [this]

theorem map_slotsOf (hdr : List Entry) : (slotsOf hdr).map (·.2) = hdr := by
  unfold slotsOf
  simp only [List.map_map]
  have : ((fun (x : Slot) => x.2) ∘ fun (p : Entry × Nat) => (p.2, p.1)) = fun (p : Entry × Nat) => p.1 := rfl
  rw [this]
  exact List.zipIdx_map_fst _ _

/-- what survives `removeHopByHopEntries` -/
theorem removeHopByHop_cases (h : List Slot) : ∀ s ∈ removeHopByHopEntries h,
    s ∈ h ∧ isHopByHop s.2.id = false ∧
    (has (h.map (·.2)) Id.CONNECTION = true → isMember (getList (h.map (·.2)) Id.CONNECTION) s.2.name = false) := by
  intro s hs
  unfold removeHopByHopEntries at hs
  have hs' := List.mem_filter.1 hs
  have hhop : isHopByHop s.2.id = false := by simpa using hs'.2
  have hs4 := hs'.1
  unfold removeConnectionHeaderEntries at hs4
  split at hs4
  · simp only [] at hs4
    have := List.mem_filter.1 hs4
    exact ⟨this.1, hhop, fun _ => by simpa using this.2⟩
  · rename_i hno
    exact ⟨hs4, hhop, fun hhas => absurd hhas hno⟩

/-- every field of a forwarded 1xx control message (not 101) is a received field that survived `removeHopByHopEntries`, or
Squid's own `Connection: keep-alive` -/
theorem buildControlMsg_cases (hdr : List Entry) : ∀ o ∈ buildControlMsg false hdr,
    (∃ s : Slot, o = toOut s ∧ hdr[s.1]? = some s.2 ∧ isHopByHop s.2.id = false ∧
      (has hdr Id.CONNECTION = true → isMember (getList hdr Id.CONNECTION) s.2.name = false)) ∨
    o = own Id.CONNECTION (some keepAliveBytes) := by
  intro o ho
  unfold buildControlMsg at ho
  simp only [Bool.false_and, Bool.false_eq_true, if_false] at ho
  rcases List.mem_append.1 ho with ho | ho
  · simp only [List.mem_map] at ho
    obtain ⟨s, hs, rfl⟩ := ho
    have hs2 := (List.mem_filter.1 hs).1
    obtain ⟨hmem, hhop, hconn⟩ := removeHopByHop_cases (slotsOf hdr) s hs2
    rw [map_slotsOf] at hconn
    exact Or.inl ⟨s, rfl, mem_slotsOf hdr s hmem, hhop, hconn⟩
  · exact Or.inr (by simpa using ho)

/-- what survives the deletions at the start of `buildReplyHeader` -/
theorem replyFilter_cases (rc : RCtx) (hdr : List Entry) : ∀ s ∈ replyFilter rc hdr,
    hdr[s.1]? = some s.2 ∧ isHopByHop s.2.id = false ∧
    (has hdr Id.CONNECTION = true → isMember (getList hdr Id.CONNECTION) s.2.name = false) ∧
    (rc.loginPassOrPassthru = false → rc.satisfactionMode = false → s.2.id ≠ Id.PROXY_AUTHENTICATE) := by
  intro s hs
  unfold replyFilter at hs
  simp only [] at hs
  -- name the intermediate headers
  generalize hh1 : (if (rc.isHit || rc.collapsedSlave) = true then delById (slotsOf hdr) Id.SET_COOKIE else slotsOf hdr) = h1 at hs
  generalize hh2 : (if (!rc.loginPassOrPassthru) = true then (if (!rc.satisfactionMode) = true then delById h1 Id.PROXY_AUTHENTICATE else h1) else h1) = h2 at hs
  have hs3 : s ∈ removeHopByHopEntries h2 := by
    split at hs
    · exact (List.mem_filter.1 hs).1
    · exact hs
  have hc1 : getList (h1.map (·.2)) Id.CONNECTION = getList hdr Id.CONNECTION ∧ has (h1.map (·.2)) Id.CONNECTION = has hdr Id.CONNECTION := by
    rw [← hh1]
    split
    · rw [getList_delById _ _ (by decide), has_delById _ _ (by decide), map_slotsOf]
      exact ⟨rfl, rfl⟩
    · rw [map_slotsOf]
      exact ⟨rfl, rfl⟩
  have hc2 : getList (h2.map (·.2)) Id.CONNECTION = getList hdr Id.CONNECTION ∧ has (h2.map (·.2)) Id.CONNECTION = has hdr Id.CONNECTION := by
    rw [← hh2]
    split
    · split
      · rw [getList_delById _ _ (by decide), has_delById _ _ (by decide)]
        exact hc1
      · exact hc1
    · exact hc1
  have hsub1 : ∀ t ∈ h1, t ∈ slotsOf hdr := by
    intro t ht
    rw [← hh1] at ht
    split at ht
    · exact (List.mem_filter.1 ht).1
    · exact ht
  have hsub2 : ∀ t ∈ h2, t ∈ h1 ∧ (rc.loginPassOrPassthru = false → rc.satisfactionMode = false → t.2.id ≠ Id.PROXY_AUTHENTICATE) := by
    intro t ht
    rw [← hh2] at ht
    split at ht
    · split at ht
      · have := List.mem_filter.1 ht
        exact ⟨this.1, fun _ _ => by simpa using this.2⟩
      · rename_i h1' h2'
        refine ⟨ht, fun _ hsm => ?_⟩
        simp [hsm] at h2'
    · rename_i h1'
      refine ⟨ht, fun hl _ => ?_⟩
      simp [hl] at h1'
  unfold removeHopByHopEntries at hs3
  have hs3' := List.mem_filter.1 hs3
  have hhop : isHopByHop s.2.id = false := by simpa using hs3'.2
  have hs4 := hs3'.1
  unfold removeConnectionHeaderEntries at hs4
  have hmem2 : s ∈ h2 ∧ (has hdr Id.CONNECTION = true → isMember (getList hdr Id.CONNECTION) s.2.name = false) := by
    split at hs4
    · simp only [] at hs4
      have := List.mem_filter.1 hs4
      refine ⟨this.1, fun _ => ?_⟩
      rw [← hc2.1]
      simpa using this.2
    · rename_i hno
      refine ⟨hs4, fun hhas => ?_⟩
      rw [hc2.2] at hno
      exact absurd hhas hno
  exact ⟨mem_slotsOf hdr s (hsub1 s (hsub2 s hmem2.1).1), hhop, hmem2.2, (hsub2 s hmem2.1).2⟩

/-- every field of the reply sent to the client is a stored field that survived the deletions, or one of Squid's own -/
theorem buildReply_cases (rc : RCtx) (hdr : List Entry) : ∀ o ∈ buildReply rc hdr,
    (∃ s ∈ replyFilter rc hdr, o = toOut s) ∨ ROwnOk rc o := by
  intro o ho
  unfold buildReply at ho
  rcases afterFilter_cases rc _ o ho with ho | h
  · simp only [List.mem_map] at ho
    obtain ⟨s, hs, rfl⟩ := ho
    exact Or.inl ⟨s, hs, rfl⟩
  · exact Or.inr h

/-! ### parsed fields carry the id of their name -/

theorem registry_consistent :
    registry.all (fun r => r.1 == Id.OTHER || r.1 == Id.BAD_HDR || (idOf r.2.1 == r.1 && findById r.1 == some r)) = true := by
  decide +kernel

theorem idOf_registeredName (name : Bytes) (h : idOf name ≠ Id.OTHER) : idOf (registeredName (idOf name)) = idOf name := by
  unfold idOf at h ⊢
  cases hf : findByName name with
  | none => simp [hf] at h
  | some r =>
    simp only [hf] at h ⊢
    by_cases hr : (r.1 == Id.OTHER || r.1 == Id.BAD_HDR) = true
    · simp [hr] at h
    · simp only [hr, Bool.false_eq_true, if_false] at h ⊢
      have hmem : r ∈ registry := by
        unfold findByName at hf
        exact List.mem_of_find?_eq_some hf
      have hc := List.all_eq_true.1 registry_consistent r hmem
      simp only [hr, Bool.false_or, Bool.and_eq_true, beq_iff_eq] at hc
      have hname : registeredName r.1 = r.2.1 := by
        unfold registeredName
        rw [hc.2]
      rw [hname]
      have := hc.1
      unfold idOf at this
      exact this

theorem entryOf_id (n v : Bytes) : (entryOf n v).id = idOf (entryOf n v).name := by
  unfold entryOf
  simp only []
  split
  · rfl
  · rename_i hne
    exact (idOf_registeredName _ (by simpa using hne)).symm

theorem mkEntry_id (isRequest : Bool) (n v : Bytes) (e : Entry) (h : mkEntry isRequest n v = some e) : e.id = idOf e.name := by
  unfold mkEntry at h
  split at h
  · cases h
  · split at h
    · cases h
    · split at h
      · cases h
      · simp only [Option.some.injEq] at h
        subst h
        exact entryOf_id _ _

theorem mkEntries_id (isRequest : Bool) : ∀ (fs : List (Bytes × Bytes)) (hdr : List Entry), mkEntries isRequest fs = some hdr →
    ∀ e ∈ hdr, e.id = idOf e.name
  | [], hdr, h, e, he => by
    simp only [mkEntries, Option.some.injEq] at h
    subst h
    cases he
  | (n, v) :: rest, hdr, h, e, he => by
    unfold mkEntries at h
    split at h
    · rename_i e0 es h0 hes
      simp only [Option.some.injEq] at h
      subst h
      rcases List.mem_cons.1 he with rfl | he
      · exact mkEntry_id isRequest n v _ h0
      · exact mkEntries_id isRequest rest es hes e he
    · cases h

end SquidModel.Hop
