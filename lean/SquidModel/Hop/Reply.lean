/-
Model of the reply-header filter: `HttpHeader::removeConnectionHeaderEntries`, `HttpHeader::removeHopByHopEntries`
(src/HttpHeader.cc) and the field deletions/additions of `clientReplyContext::buildReplyHeader` (src/client_side_reply.cc).
Core-only.
-/
import SquidModel.Hop.Request
namespace SquidModel.Hop
open SquidModel.Gen.HopByHop

/-- a stored reply field together with its position in the reply the origin sent -/
abbrev Slot := Nat × Entry

def slotsOf (hdr : List Entry) : List Slot := hdr.zipIdx.map fun p => (p.2, p.1)

def delById (hdr : List Slot) (id : Nat) : List Slot := hdr.filter (·.2.id != id)

/-- `HttpHeader::removeConnectionHeaderEntries()` -/
def removeConnectionHeaderEntries (hdr : List Slot) : List Slot :=
  if has (hdr.map (·.2)) Id.CONNECTION then
    let strConnection := getList (hdr.map (·.2)) Id.CONNECTION
    hdr.filter fun s => !isMember strConnection s.2.name
  else hdr

/-- `HttpHeader::removeHopByHopEntries()` -/
def removeHopByHopEntries (hdr : List Slot) : List Slot :=
  (removeConnectionHeaderEntries hdr).filter fun s => !isHopByHop s.2.id

/-- inputs of `buildReplyHeader` other than the stored reply header -/
structure RCtx where
  isHit : Bool := false               -- http->loggingTags().isTcpHit()
  collapsedSlave : Bool := false      -- collapsedRevalidation == crSlave
  loginPassOrPassthru : Bool := false -- request->peer_login is "PASS" or "PASSTHRU"
  satisfactionMode : Bool := false    -- http->requestSatisfactionMode() (adaptation service answered)
  denied : Bool := false              -- loggingTags().oldType == LOG_TCP_DENIED
  connectionAuthDisabled : Bool := false
  acceleratedOrIntercepted : Bool := false
  ageOwn : Bool := true               -- on a hit: storeEntry()->timestamp <= squid_curtime (an Age field is computed)
  chunkedReply : Bool := false        -- maySendChunkedReply && reply->bodySize(method) < 0
  viaOn : Bool := true
  proxyKeepalive : Bool := true       -- request->flags.proxyKeepalive after the keep-alive decisions
  requestHasSurrogateCapability : Bool := false
  prohibitsContentLength : Bool := false -- Http::ProhibitsContentLength(status)
  deriving Repr

def toOut (s : Slot) : Out := ⟨.copied s.1, s.2.id, s.2.name, some s.2.value⟩

/-- `strncasecmp(value, scheme, n) == 0 && (value[n] == '\0' || value[n] == ' ')` -/
def schemeIs (value scheme : Bytes) : Bool :=
  lowerB ((cstr value).take scheme.length) == lowerB scheme &&
  (match (cstr value).drop scheme.length with | [] => true | c :: _ => c == 32)

def isConnectionAuth (value : Bytes) : Bool :=
  schemeIs value [78, 84, 76, 77] || schemeIs value [78, 101, 103, 111, 116, 105, 97, 116, 101] || schemeIs value [75, 101, 114, 98, 101, 114, 111, 115]

/-- the `while ((e = hdr->getEntry(&pos)))` loop that filters unproxyable authentication types:
-> (fields kept, whether Proxy-Support/Connection are to be appended) -/
def wwwAuthLoop (rc : RCtx) : List Out → List Out × Bool
  | [] => ([], false)
  | o :: rest =>
    if o.id == Id.WWW_AUTHENTICATE && isConnectionAuth (o.value.getD []) then
      if rc.connectionAuthDisabled then wwwAuthLoop rc rest       -- delAt; continue
      else (o :: rest, !rc.acceleratedOrIntercepted)               -- break
    else
      let r := wwwAuthLoop rc rest
      (o :: r.1, r.2)

/-- `HttpHeader::updateOrAddStr(id, own value)`: the first field with that id takes the new value, later ones go -/
def updateGo (id : Nat) : List Out → Bool → List Out
  | [], _ => []
  | o :: rest, found =>
    if o.id == id then (if found then updateGo id rest true else own id none :: updateGo id rest true) else o :: updateGo id rest found

def updateOrAdd (out : List Out) (id : Nat) : List Out :=
  if outHas out id then updateGo id out false else out ++ [own id none]

def proxySupportBytes : Bytes := [80, 114, 111, 120, 121, 45, 115, 117, 112, 112, 111, 114, 116]

/-- the field deletions at the start of `buildReplyHeader` (Set-Cookie on hits, Proxy-Authenticate, hop-by-hop,
irrelevant Content-Length), on the stored reply header -/
def replyFilter (rc : RCtx) (hdr : List Entry) : List Slot :=
  let h0 := slotsOf hdr
  let h1 := if rc.isHit || rc.collapsedSlave then delById h0 Id.SET_COOKIE else h0
  let h2 := if !rc.loginPassOrPassthru then (if !rc.satisfactionMode then delById h1 Id.PROXY_AUTHENTICATE else h1) else h1
  let h3 := removeHopByHopEntries h2
  if rc.prohibitsContentLength then delById h3 Id.CONTENT_LENGTH else h3

/-- the later statements of `buildReplyHeader`, one function per statement -/
def rAge (rc : RCtx) (o : List Out) : List Out :=
  if rc.isHit then
    (if rc.ageOwn then o.filter (·.id != Id.AGE) ++ [own Id.AGE none] else o.filter (·.id != Id.AGE))
  else o
def rDate (o : List Out) : List Out := if !outHas o Id.DATE then o ++ [own Id.DATE none] else o
def rWwwAuth (rc : RCtx) (o : List Out) : List Out :=
  if !rc.denied && outHas o Id.WWW_AUTHENTICATE then
    (if (wwwAuthLoop rc o).2 then (wwwAuthLoop rc o).1 ++ [own Id.PROXY_SUPPORT none, own Id.CONNECTION (some proxySupportBytes)]
     else (wwwAuthLoop rc o).1)
  else o
def rCacheStatus (o : List Out) : List Out := o ++ [own Id.CACHE_STATUS none]
def rChunked (rc : RCtx) (o : List Out) : List Out :=
  if rc.chunkedReply then o ++ [own Id.TRANSFER_ENCODING (some chunkedBytes)] else o
def rVia (rc : RCtx) (o : List Out) : List Out := if rc.viaOn then updateOrAdd o Id.VIA else o
def rConnection (rc : RCtx) (o : List Out) : List Out :=
  o ++ [own Id.CONNECTION (some (if rc.proxyKeepalive then keepAliveBytes else closeBytes))]
def rSurrogate (rc : RCtx) (o : List Out) : List Out :=
  if outHas o Id.SURROGATE_CONTROL && !rc.requestHasSurrogateCapability then o.filter (·.id != Id.SURROGATE_CONTROL) else o

def afterFilter (rc : RCtx) (o : List Out) : List Out :=
  rSurrogate rc (rConnection rc (rVia rc (rChunked rc (rCacheStatus (rWwwAuth rc (rDate (rAge rc o)))))))

/-- `clientReplyContext::buildReplyHeader()` on the stored reply header `hdr`, without `httpHdrMangleList` and the
`Auth::UserRequest::AddReplyAuthHeader` additions -/
def buildReply (rc : RCtx) (hdr : List Entry) : List Out :=
  afterFilter rc ((replyFilter rc hdr).map toOut)

def upgradeBytes : Bytes := [117, 112, 103, 114, 97, 100, 101]

/-- `Http::One::Server::writeControlMsgAndCall(rep, call)` (src/servers/Http1Server.cc): what a 1xx control message from the
origin looks like when it is passed to the client. `switching`: the status is 101. No Proxy-Authenticate deletion here. -/
def buildControlMsg (switching : Bool) (hdr : List Entry) : List Out :=
  let upgradeHeader := getList hdr Id.UPGRADE
  -- removeHopByHopEntries(); removeIrrelevantContentLength() (1xx prohibits Content-Length)
  let kept := delById (removeHopByHopEntries (slotsOf hdr)) Id.CONTENT_LENGTH
  kept.map toOut ++
    (if switching && upgradeHeader.length > 0 then [own Id.UPGRADE (some upgradeHeader), own Id.CONNECTION (some upgradeBytes)]
     else [own Id.CONNECTION (some keepAliveBytes)])

/-- `httpHeaderHasConnDir(&header, directive)` (USE_HTTP_VIOLATIONS build: Proxy-Connection counts when Connection is absent) -/
def hasConnDir (hdr : List Entry) (directive : Bytes) : Bool :=
  if has hdr Id.CONNECTION then isMember (getList hdr Id.CONNECTION) directive
  else if has hdr Id.PROXY_CONNECTION then isMember (getList hdr Id.PROXY_CONNECTION) directive
  else false

/-- `Http::Message::persistent()` -/
def persistent (http11 : Bool) (hdr : List Entry) : Bool :=
  if http11 then !hasConnDir hdr [99, 108, 111, 115, 101]
  else hasConnDir hdr [107, 101, 101, 112, 45, 97, 108, 105, 118, 101]

/-- the fixed statements the reply model transcribes are present in the staged source -/
def replyModelApplies : Bool :=
  removeConnectionEntriesBody && removeHopByHopBody && replyDeletesProxyAuthenticate && replyPutsOwnChunked && replyPutsOwnConnection

end SquidModel.Hop
