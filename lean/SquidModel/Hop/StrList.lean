/-
Model of the comma-list scanner of src/StrList.cc as used for the Connection header:
`strListGetItem`, `strListIsMember`, `strListAdd` (and `HttpHeader::getList`, which joins the values of all fields of one id).
Byte-level, branch by branch. Core-only.
-/
import SquidModel.Base.Bytes
namespace SquidModel.Hop

/-- the C string a `String::termedBuf()` denotes: everything before the first NUL -/
def cstr : Bytes → Bytes
  | [] => []
  | c :: cs => if c == 0 then [] else c :: cstr cs

/-- `xisspace` in the C locale: SP, HT, LF, VT, FF, CR -/
def isSpace (c : UInt8) : Bool := c == 32 || (9 ≤ c && c ≤ 13)

/-- membership in `delim[2]` = `" ?,\t\r\n\v\f"` where `?` is overwritten with `del` (VT and FF since /repo 43aac5c:
"all xisspace() characters, which the rtrim below removes") -/
def isLead (del c : UInt8) : Bool := c == 32 || c == del || c == 44 || c == 9 || c == 13 || c == 10 || c == 11 || c == 12

/-- `*pos += strspn(*pos, delim[2])`: skip leading whitespace and delimiters -/
def skipLead (del : UInt8) : Bytes → Bytes
  | [] => []
  | c :: cs => if isLead del c then skipLead del cs else c :: cs

/-- The `do { … } while (**pos)` loop that finds the end of the item: number of bytes from the item's start to the
delimiter (or the end of the string). `quoted` is the loop's flag. Unquoted, `strcspn(delim[0] = "\"?,")` stops at a
double quote (toggle, step over it), at `del` or `,` (break); quoted, `strcspn(delim[1] = "\"\\")` stops at a double
quote (toggle) or a backslash (step over it and over the next byte, if any). -/
def scan (del : UInt8) : Bool → Bytes → Nat
  | _, [] => 0
  | false, c :: cs =>
    if c == 34 then 1 + scan del true cs
    else if c == del || c == 44 then 0
    else 1 + scan del false cs
  | true, c :: cs =>
    if c == 34 then 1 + scan del false cs
    else if c == 92 then
      match cs with
      | [] => 1
      | _ :: cs' => 2 + scan del true cs'
    else 1 + scan del true cs

/-- `while (len > 0 && xisspace((*item)[len - 1])) --len;` -/
def rtrim : Bytes → Bytes
  | [] => []
  | c :: cs =>
    match rtrim cs with
    | [] => if isSpace c then [] else [c]
    | r => c :: r

/-- Successive calls of `strListGetItem(str, del, &item, &ilen, &pos)` until it returns 0. Every element is the pair
(item of length `ilen`, the string from the item's start) — the second component is what `item[k]` for `k ≥ ilen` reads.
The call returns `len > 0`: an item that is empty after `rtrim` ends the iteration, whatever follows. -/
def itemsAux (del : UInt8) : Nat → Bytes → List (Bytes × Bytes)
  | 0, _ => []
  | fuel + 1, s =>
    let s1 := skipLead del s
    let n := scan del false s1
    let item := rtrim (s1.take n)
    if item.isEmpty then [] else (item, s1) :: itemsAux del fuel (s1.drop n)

def itemsRaw (del : UInt8) (s : Bytes) : List (Bytes × Bytes) := itemsAux del ((cstr s).length + 1) (cstr s)

/-- the items `strListGetItem` yields for the list `s` -/
def items (del : UInt8) (s : Bytes) : List Bytes := (itemsRaw del s).map (·.1)

/-- `tolower` in the C locale -/
def lower (c : UInt8) : UInt8 := if 65 ≤ c && c ≤ 90 then c + 32 else c

def lowerB (b : Bytes) : Bytes := b.map lower

/-- `strListIsMember(list, m, del)`: some item has the length of `m` and equals it ignoring case -/
def isMember (list m : Bytes) (del : UInt8 := 44) : Bool :=
  (items del list).any fun it => it.length == m.length && lowerB it == lowerB m

/-- `strListAdd(&str, item, ',')` with a C-string item: `", "` goes in front unless `str` is still empty -/
def listAdd (str item : Bytes) : Bytes :=
  if str.isEmpty then cstr item else str ++ [44, 32] ++ cstr item

/-- `HttpHeader::getList(id)`: the values of all fields with that id, in order, joined by `strListAdd` -/
def joinValues (vals : List Bytes) : Bytes := vals.foldl listAdd []

end SquidModel.Hop
