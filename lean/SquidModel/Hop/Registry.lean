/-
Header fields as `HttpHeaderEntry` objects: id lookup in `Http::HeaderLookupTable` (the regenerated registry),
`HttpHeaderEntry::parse` (name check, id, canonical name, value trimming). Core-only.
-/
import SquidModel.Hop.StrList
import SquidModel.Gen.HopByHop
import SquidModel.Gen.CharSets
namespace SquidModel.Hop
open SquidModel.Gen.HopByHop

/-- `HttpHeaderHashTable::lookup` (gperf, `%ignore-case`, `%compare-lengths`): the record whose name equals `name` ignoring case -/
def findByName (name : Bytes) : Option (Nat × List UInt8 × Bool × Bool) :=
  registry.find? fun r => lowerB r.2.1 == lowerB name

def findById (id : Nat) : Option (Nat × List UInt8 × Bool × Bool) :=
  registry.find? fun r => r.1 == id

/-- the id `HttpHeaderEntry::parse` assigns: `HeaderLookupTable.lookup(name).id`, where the lookup reports the `Other:` record
and a miss as `BAD_HDR`, and `BAD_HDR` becomes `OTHER` -/
def idOf (name : Bytes) : Nat :=
  match findByName name with
  | some r => if r.1 == Id.OTHER || r.1 == Id.BAD_HDR then Id.OTHER else r.1
  | none => Id.OTHER

/-- `HeaderLookupTable.lookup(id).hopbyhop` -/
def isHopByHop (id : Nat) : Bool :=
  match findById id with
  | some r => r.2.2.2
  | none => false

/-- `HeaderLookupTable.lookup(id).name` -/
def registeredName (id : Nat) : Bytes :=
  match findById id with
  | some r => r.2.1
  | none => []

/-- a parsed header field (`HttpHeaderEntry`) -/
structure Entry where
  id : Nat
  name : Bytes
  value : Bytes
  deriving DecidableEq, Repr

def ltrimSpace : Bytes → Bytes
  | [] => []
  | c :: cs => if isSpace c then ltrimSpace cs else c :: cs

/-- the field name after the whitespace-before-colon rule: fatal for requests (empty result), stripped for replies -/
def strippedName (isRequest : Bool) (name : Bytes) : Bytes :=
  if isSpace (name.getLast?.getD 0) then (if isRequest then [] else rtrim name) else name

/-- id lookup, canonical name, value trimming -/
def entryOf (name value : Bytes) : Entry :=
  ⟨idOf name, if idOf name == Id.OTHER then name else registeredName (idOf name), rtrim (ltrimSpace value)⟩

/-- `HttpHeaderEntry::parse(field_start, field_end, msgType)` for a field `name ":" value` (name without a colon).
`isRequest`: whitespace between the name and the colon is fatal for requests and stripped for replies. -/
def mkEntry (isRequest : Bool) (name value : Bytes) : Option Entry :=
  if name.isEmpty then none else
  if (strippedName isRequest name).isEmpty then none else
  if !(strippedName isRequest name).all (fun c => Gen.CharSets.TCHAR.mem c) then none else
  some (entryOf (strippedName isRequest name) value)

def mkEntries (isRequest : Bool) : List (Bytes × Bytes) → Option (List Entry)
  | [] => some []
  | (n, v) :: rest =>
    match mkEntry isRequest n v, mkEntries isRequest rest with
    | some e, some es => some (e :: es)
    | _, _ => none

/-- `HttpHeader::getList(id)` over a header (list of entries) -/
def getList (hdr : List Entry) (id : Nat) : Bytes :=
  joinValues ((hdr.filter (·.id == id)).map (·.value))

def has (hdr : List Entry) (id : Nat) : Bool := hdr.any (·.id == id)

end SquidModel.Hop
