/-
Model of the access-log quoting code, branch by branch:
  `log_quoted_string` and the quoting switch of `Format::Format::assemble` (src/format/Format.cc),
  `Format::QuoteMimeBlob` (src/format/Quoting.cc), `rfc1738_do_escape` (lib/rfc1738.cc), `strwordquote` (src/tools.cc),
  `Log::Format::SquidCustom` (one record = the assembled format + LF),
and the specification-side decoders / field scanners used to state reversibility and delimitation.
Character sets, flag values and `case` tables come from `Gen.LogQuoting` (regenerated from the source text).
-/
import SquidModel.Base.Bytes
import SquidModel.Gen.LogQuoting

namespace SquidModel.Log
open SquidModel.Gen.LogQuoting

def hexUpper (n : Nat) : UInt8 := if n < 10 then UInt8.ofNat (48 + n) else UInt8.ofNat (55 + n)
def hexLower (n : Nat) : UInt8 := if n < 10 then UInt8.ofNat (48 + n) else UInt8.ofNat (87 + n)

/-- `snprintf("%%%02X")` -/
def pctUpper (b : UInt8) : Bytes := [37, hexUpper (b.toNat / 16), hexUpper (b.toNat % 16)]
/-- `'%'`, `c2x[2c]`, `c2x[2c+1]` -/
def pctLower (b : UInt8) : Bytes := [37, hexLower (b.toNat / 16), hexLower (b.toNat % 16)]

def isAlnum (b : UInt8) : Bool := (97 ≤ b && b ≤ 122) || (65 ≤ b && b ≤ 90) || (48 ≤ b && b ≤ 57)

def hasFlag (flags f : Nat) : Bool := flags &&& f != 0

/-- one iteration of the loop of `rfc1738_do_escape`; `*src <= ' '` is a comparison of (signed) `char` -/
def rfc1738Byte (flags : Nat) (b : UInt8) : Bytes :=
  if isAlnum b then [b] else
  let e1 :=
    if hasFlag flags flagUnsafe then
      let inList := unsafeChars.contains b
      if !hasFlag flags flagNoPercent && b == 37 then true
      else if !hasFlag flags flagNoSpace && (b ≤ 32 || b ≥ 128) then true
      else inList
    else false
  let e2 := if hasFlag flags flagReserved && !e1 then reservedChars.contains b else e1
  let e3 := if hasFlag flags flagCtrls && !e2 then (b ≤ 31 || b == 127 || b ≥ 128) else e2
  if e3 then pctUpper b else [b]

def rfc1738DoEscape (flags : Nat) (s : Bytes) : Bytes := s.flatMap (rfc1738Byte flags)

/-- LOG_QUOTE_URL -/
def urlQuote (s : Bytes) : Bytes := rfc1738DoEscape flagsEscape s
/-- LOG_QUOTE_NONE of a field that asked for quoting -/
def defaultQuote (s : Bytes) : Bytes := rfc1738DoEscape flagsUnescaped s

/-- `log_quoted_string`: bytes outside the strcspn stop set are copied; a stop byte with its own `case` is replaced by the two
bytes of that case; any other stop byte gets a backslash in front -/
def quotedByte (b : UInt8) : Bytes :=
  if quotedStop.contains b then
    match quotedCases.lookup b with
    | some e => e
    | none => [92, b]
  else [b]

def quotedString (s : Bytes) : Bytes := s.flatMap quotedByte

/-- `Format::QuoteMimeBlob` (built with OLD_LOG_MIME off) -/
def mimeByte (b : UInt8) : Bytes :=
  if b == 13 then [92, 114]
  else if b == 10 then [92, 110]
  else if b ≤ 31 || b ≥ 127 || b == 37 || b == 91 || b == 93 then pctLower b
  else if b == 92 then [92, 92]
  else [b]

def mimeBlob (s : Bytes) : Bytes := s.flatMap mimeByte

/-- the loop of `strwordquote` -/
def wordByte (b : UInt8) : Bytes :=
  if wordStop.contains b then
    match wordCases.lookup b with
    | some e => e
    | none => [92, b]
  else [b]

/-- `strwordquote`: wrapped in double quotes exactly when the word contains a space -/
def wordQuote (s : Bytes) : Bytes :=
  if s.contains 32 then 34 :: (s.flatMap wordByte ++ [34]) else s.flatMap wordByte

inductive Quoting
  | none | quotes | mimeblob | url | shell | raw
  deriving DecidableEq, Repr

/-- the tail of `Format::assemble` for one %code: `out` is the field's text (`none` = no value), `needs` the per-field `quote` flag -/
def field (needs : Bool) (q : Quoting) (out : Option Bytes) : Bytes :=
  match out with
  | none => [45]
  | some v =>
    if v.isEmpty then [45]
    else if needs || q != .none then
      match q with
      | .none => defaultQuote v
      | .quotes => quotedString v
      | .mimeblob => mimeBlob v
      | .url => urlQuote v
      | .shell => wordQuote v
      | .raw => v
    else v

/-- a compiled logformat: literal text and %codes (with their values for this transaction) -/
inductive Tok
  | text (b : Bytes)
  | code (needs : Bool) (q : Quoting) (out : Option Bytes)

def assemble (fmt : List Tok) : Bytes :=
  fmt.flatMap fun t => match t with
    | .text b => b
    | .code n q o => field n q o

/-- `Log::Format::SquidCustom`: `logfilePrintf("%s\n", mb.buf)` -/
def record (fmt : List Tok) : Bytes := assemble fmt ++ [10]

/-! ### specification side: decoders -/

def hexVal (c : UInt8) : Option Nat :=
  if 48 ≤ c && c ≤ 57 then some (c.toNat - 48)
  else if 97 ≤ c && c ≤ 102 then some (c.toNat - 87)
  else if 65 ≤ c && c ≤ 70 then some (c.toNat - 55)
  else none

/-- what follows a backslash -/
def unBackslash (c : UInt8) : UInt8 :=
  if c == 110 then 10 else if c == 114 then 13 else if c == 116 then 9 else c

/-- one decoder for all styles: `%XX` when `pct`, backslash escapes when `bs` -/
def decode (pct bs : Bool) : Bytes → Bytes
  | [] => []
  | [c] => [c]
  | [c, d] => if bs && c == 92 then [unBackslash d] else [c, d]
  | c :: d :: e :: rest =>
    if bs && c == 92 then unBackslash d :: decode pct bs (e :: rest)
    else if pct && c == 37 then
      match hexVal d, hexVal e with
      | some x, some y => UInt8.ofNat (x * 16 + y) :: decode pct bs rest
      | _, _ => c :: decode pct bs (d :: e :: rest)
    else c :: decode pct bs (d :: e :: rest)

def unQuotedString (s : Bytes) : Bytes := decode false true s
def unMimeBlob (s : Bytes) : Bytes := decode true true s
def unUrl (s : Bytes) : Bytes := decode true false s

/-- inverse of `wordQuote` -/
def unWord (s : Bytes) : Bytes :=
  match s with
  | 34 :: r => decode false true r.dropLast
  | _ => decode false true s

/-- read a quoted-string field up to the closing (unescaped) double quote: (field, text after the quote) -/
def scanQuoted : Bytes → Bytes × Bytes
  | [] => ([], [])
  | [c] => if c == 34 then ([], []) else ([c], [])
  | c :: d :: rest =>
    if c == 92 then let r := scanQuoted rest; (c :: d :: r.1, r.2)
    else if c == 34 then ([], d :: rest)
    else let r := scanQuoted (d :: rest); (c :: r.1, r.2)

end SquidModel.Log
