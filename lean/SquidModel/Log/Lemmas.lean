/-
Lemmas about the log quoting model: a generic "prefix code" argument for the decoders, absence of given bytes, the
field scanner, and the per-byte facts re-decided against the regenerated tables.
-/
import SquidModel.Log.Quote
import SquidModel.Base.Finite

namespace SquidModel.Log
open SquidModel.Gen.LogQuoting

/-- the three forms a per-byte code may take for `decode pct bs` to invert it -/
def shapeOk (pct bs : Bool) (b : UInt8) (e : Bytes) : Bool :=
  match e with
  | [x] => x == b && !(bs && x == 92) && !(pct && x == 37)
  | [x, y] => bs && x == 92 && unBackslash y == b
  | [x, h1, h2] =>
    pct && x == 37 && !(bs && x == 92) &&
      (match hexVal h1, hexVal h2 with
       | some a, some c => UInt8.ofNat (a * 16 + c) == b
       | _, _ => false)
  | _ => false

theorem decode_single (pct bs : Bool) (x : UInt8) (h1 : (bs && x == 92) = false) (h2 : (pct && x == 37) = false) (rest : Bytes) :
    decode pct bs (x :: rest) = x :: decode pct bs rest := by
  match rest with
  | [] => simp [decode]
  | [d] => simp [decode, h1]
  | d :: e :: r => rw [decode]; simp [h1, h2]

theorem decode_bs (pct : Bool) (y : UInt8) (rest : Bytes) :
    decode pct true (92 :: y :: rest) = unBackslash y :: decode pct true rest := by
  match rest with
  | [] => simp [decode]
  | e :: r => rw [decode]; simp

theorem decode_pct (bs : Bool) (h1 h2 : UInt8) (a c : Nat) (ha : hexVal h1 = some a) (hc : hexVal h2 = some c) (rest : Bytes) :
    decode true bs (37 :: h1 :: h2 :: rest) = UInt8.ofNat (a * 16 + c) :: decode true bs rest := by
  rw [decode]; simp [ha, hc]

/-- a per-byte code of the right shape is inverted by `decode` -/
theorem decode_flatMap (pct bs : Bool) (enc : UInt8 → Bytes) (h : ∀ b, shapeOk pct bs b (enc b) = true) :
    ∀ s : Bytes, decode pct bs (s.flatMap enc) = s := by
  intro s
  induction s with
  | nil => simp [decode]
  | cons b s ih =>
    simp only [List.flatMap_cons]
    have hb := h b
    generalize enc b = e at hb
    match e with
    | [] => simp [shapeOk] at hb
    | [x] =>
      simp only [shapeOk, Bool.and_eq_true, beq_iff_eq, Bool.not_eq_true'] at hb
      obtain ⟨⟨rfl, h1⟩, h2⟩ := hb
      simp only [List.singleton_append]
      rw [decode_single pct bs x h1 h2, ih]
    | [x, y] =>
      simp only [shapeOk, Bool.and_eq_true, beq_iff_eq] at hb
      obtain ⟨⟨hbs, rfl⟩, hy⟩ := hb
      subst hbs
      simp only [List.cons_append, List.nil_append]
      rw [decode_bs, ih, hy]
    | [x, h1, h2] =>
      simp only [shapeOk, Bool.and_eq_true, beq_iff_eq] at hb
      obtain ⟨⟨⟨hp, rfl⟩, _⟩, hv⟩ := hb
      subst hp
      simp only [List.cons_append, List.nil_append]
      split at hv
      · rename_i a c ha hc
        rw [decode_pct bs h1 h2 a c ha hc, ih]
        simp only [beq_iff_eq] at hv
        rw [hv]
      · simp at hv
    | _ :: _ :: _ :: _ :: _ => simp [shapeOk] at hb

theorem not_mem_flatMap (d : UInt8) (enc : UInt8 → Bytes) (h : ∀ b, (enc b).contains d = false) (s : Bytes) :
    (s.flatMap enc).contains d = false := by
  induction s with
  | nil => simp
  | cons b s ih =>
    simp only [List.flatMap_cons, List.contains_eq_mem, List.mem_append, decide_eq_false_iff_not, not_or] at ih ⊢
    have hb := h b
    simp only [List.contains_eq_mem, decide_eq_false_iff_not] at hb
    exact ⟨hb, ih⟩

/-- the form a per-byte code must have for `scanQuoted` to step over it -/
def scanOk (e : Bytes) : Bool :=
  match e with
  | [x] => x != 34 && x != 92
  | [x, _] => x == 92
  | _ => false

theorem scanQuoted_flatMap (enc : UInt8 → Bytes) (h : ∀ b, scanOk (enc b) = true) (rest : Bytes) :
    ∀ s : Bytes, scanQuoted (s.flatMap enc ++ 34 :: rest) = (s.flatMap enc, rest) := by
  intro s
  induction s with
  | nil =>
    simp only [List.flatMap_nil, List.nil_append]
    match rest with
    | [] => simp [scanQuoted]
    | d :: r => rw [scanQuoted]; simp
  | cons b s ih =>
    simp only [List.flatMap_cons, List.append_assoc]
    have hb := h b
    generalize enc b = e at hb
    match e with
    | [x] =>
      simp only [scanOk, Bool.and_eq_true, bne_iff_ne, ne_eq] at hb
      obtain ⟨h1, h2⟩ := hb
      simp only [List.singleton_append]
      generalize hr : s.flatMap enc ++ 34 :: rest = tail at ih
      match tail with
      | [] => simp at hr
      | d :: r =>
        rw [scanQuoted]
        simp [h1, h2, ih]
    | [x, y] =>
      simp only [scanOk, beq_iff_eq] at hb
      subst hb
      simp only [List.cons_append, List.nil_append]
      rw [scanQuoted]
      simp [ih]
    | [] => simp [scanOk] at hb
    | _ :: _ :: _ :: _ => simp [scanOk] at hb

/-! ### per-byte facts (kernel-decided over all 256 octets against the regenerated data) -/

theorem quoted_shape : ∀ b, shapeOk false true b (quotedByte b) = true :=
  forall_octet (fun b => shapeOk false true b (quotedByte b)) (by decide +kernel)
theorem mime_shape : ∀ b, shapeOk true true b (mimeByte b) = true :=
  forall_octet (fun b => shapeOk true true b (mimeByte b)) (by decide +kernel)
theorem url_shape : ∀ b, shapeOk true false b (rfc1738Byte flagsEscape b) = true :=
  forall_octet (fun b => shapeOk true false b (rfc1738Byte flagsEscape b)) (by decide +kernel)
theorem word_shape : ∀ b, shapeOk false true b (wordByte b) = true :=
  forall_octet (fun b => shapeOk false true b (wordByte b)) (by decide +kernel)

theorem quoted_scan : ∀ b, scanOk (quotedByte b) = true :=
  forall_octet (fun b => scanOk (quotedByte b)) (by decide +kernel)
theorem word_scan : ∀ b, scanOk (wordByte b) = true :=
  forall_octet (fun b => scanOk (wordByte b)) (by decide +kernel)

/-- bytes that never occur in the output of a per-byte code -/
def avoids (enc : UInt8 → Bytes) (ds : List UInt8) (b : UInt8) : Bool := ds.all fun d => !(enc b).contains d

theorem quoted_avoids : ∀ b, avoids quotedByte [10, 13, 9] b = true :=
  forall_octet _ (by decide +kernel)
theorem mime_avoids : ∀ b, avoids mimeByte [10, 13, 9, 91, 93] b = true :=
  forall_octet _ (by decide +kernel)
theorem url_avoids : ∀ b, avoids (rfc1738Byte flagsEscape) [10, 13, 9, 32, 34] b = true :=
  forall_octet _ (by decide +kernel)
theorem default_avoids : ∀ b, avoids (rfc1738Byte flagsUnescaped) [10, 13, 9, 32, 34] b = true :=
  forall_octet _ (by decide +kernel)
theorem word_avoids : ∀ b, avoids wordByte [10, 13] b = true :=
  forall_octet _ (by decide +kernel)
/-- the only space `wordByte` emits is the space itself -/
theorem word_space : ∀ b, (b == 32 || !(wordByte b).contains 32) = true :=
  forall_octet _ (by decide +kernel)
theorem word_head : ∀ b, ((wordByte b).head? != some 34) = true :=
  forall_octet _ (by decide +kernel)

theorem avoids_flatMap (enc : UInt8 → Bytes) (ds : List UInt8) (h : ∀ b, avoids enc ds b = true) (d : UInt8) (hd : d ∈ ds) (s : Bytes) :
    (s.flatMap enc).contains d = false := by
  apply not_mem_flatMap
  intro b
  have := h b
  simp only [avoids, List.all_eq_true, Bool.not_eq_true'] at this
  exact this d hd

/-- the hand-written branch-by-branch models agree with the graphs dumped from the running code on every byte 1..255 -/
def agrees (f : UInt8 → Bytes) (table : List (List UInt8)) (n : Nat) : Bool :=
  n == 0 || f (UInt8.ofNat n) == table.getD n []

theorem quoted_matches_dump : allBelow 256 (agrees quotedByte quotedTable) = true := by decide +kernel
theorem mime_matches_dump : allBelow 256 (agrees mimeByte mimeTable) = true := by decide +kernel
theorem escape_matches_dump : allBelow 256 (agrees (rfc1738Byte flagsEscape) escapeTable) = true := by decide +kernel
theorem unescaped_matches_dump : allBelow 256 (agrees (rfc1738Byte flagsUnescaped) unescapedTable) = true := by decide +kernel
theorem part_matches_dump : allBelow 256 (agrees (rfc1738Byte flagsPart) partTable) = true := by decide +kernel
theorem word_matches_dump : allBelow 256 (agrees (fun b => wordQuote [b]) wordTable) = true := by decide +kernel

end SquidModel.Log
