/-
Small list helpers standing for the `Parser::Tokenizer` operations that the HTTP/1 request parser uses
(src/parser/Tokenizer.cc).  A tokenizer is its unconsumed buffer (`Bytes`); the operations used on the
*end* of the buffer (`suffix`, `skipSuffix`, `skipOneTrailing`, `skipAllTrailing`) are modelled as the
corresponding operations on the *front* of the reversed buffer.

  Tokenizer::prefix(tok, set, limit)  ~  `prefixTok`
  Tokenizer::skipAll(set)             ~  `(s.takeWhile set).length`, `s.dropWhile set`
  Tokenizer::skipOne(set)             ~  pattern match on the head
  Tokenizer::suffix/skipAllTrailing   ~  takeWhile/dropWhile on the reversed buffer
  Tokenizer::skipSuffix(t)            ~  `stripPrefix t.reverse` on the reversed buffer
Core-only.
-/
import SquidModel.Base.CharSet

namespace SquidModel.Http1

/-- `Tokenizer::prefix(returned, chars, limit)`: the longest run of `p` bytes at the front of the first `limit`
bytes; fails when it is empty. Returns the token and the rest. -/
def prefixTok (p : UInt8 → Bool) (limit : Option Nat) (s : Bytes) : Option (Bytes × Bytes) :=
  let window := match limit with
    | none => s
    | some n => s.take n
  let t := window.takeWhile p
  if t.isEmpty then none else some (t, s.drop t.length)

/-- `some rest` when `s = t ++ rest` -/
def stripPrefix : Bytes → Bytes → Option Bytes
  | [], s => some s
  | _ :: _, [] => none
  | a :: t, b :: s => if a = b then stripPrefix t s else none

theorem stripPrefix_append (t r : Bytes) : stripPrefix t (t ++ r) = some r := by
  induction t with
  | nil => rfl
  | cons a t ih => simp [stripPrefix, ih]

theorem stripPrefix_eq_some {t s r : Bytes} (h : stripPrefix t s = some r) : s = t ++ r := by
  induction t generalizing s with
  | nil => simp [stripPrefix] at h; simp [h]
  | cons a t ih =>
    cases s with
    | nil => simp [stripPrefix] at h
    | cons b s =>
      simp only [stripPrefix] at h
      split at h
      · rename_i hab; subst hab; simp [ih h]
      · simp at h

/-- C-locale `tolower` on an octet -/
def lower (b : UInt8) : UInt8 := if 65 ≤ b ∧ b ≤ 90 then b + 32 else b

/-- `SBuf::caseCmp(...) == 0` -/
def caseEq (a b : Bytes) : Bool := a.map lower == b.map lower

end SquidModel.Http1
