/-
C21: incremental parsing equals one-shot parsing (resume lemma, monotonicity of finished parses, induction over the
segments).
-/
import SquidModel.Http1.SegLemmas

namespace SquidModel.Http1
open Gen.CharSets Gen.Http1Request

/-- stage 1 of `doParse` returns without leaving `HTTP_PARSE_NONE` -/
def waits (cfg : Cfg) (g : Bytes) : Prop := g = [] ∨ (cfg.fixCr = true ∧ cfg.relaxed = true ∧ g = [13])

instance (cfg : Cfg) (g : Bytes) : Decidable (waits cfg g) := by unfold waits; infer_instance

/-- the segmentation hazard of the unrepaired relaxed parser: the bytes delivered so far end in a lone CR that
`skipGarbageLines` left in the buffer, and the next byte is the LF of that empty line -/
def crHazard (cfg : Cfg) (a s : Bytes) : Prop :=
  cfg.relaxed = true ∧ cfg.fixCr = false ∧ skipGarbage a = [13] ∧ s.head? = some 10

theorem strip_length_le (cfg : Cfg) (a : Bytes) : (strip cfg a).length ≤ a.length := by
  unfold strip; split
  · exact skipGarbage_length_le a
  · exact Nat.le_refl _

theorem stageNone_none (cfg : Cfg) (st : PState) (a : Bytes) (h : st.stage = .none) :
    stageNone cfg { st with buf := a } =
      if waits cfg (strip cfg a) then { st with buf := strip cfg a }
      else { st with buf := strip cfg a, stage := .first } := by
  unfold stageNone waits
  simp only [h, ↓reduceIte]
  by_cases he : strip cfg a = []
  · simp [he]
  · by_cases hw : cfg.fixCr = true ∧ cfg.relaxed = true ∧ strip cfg a = [13]
    · rw [if_neg he, if_pos hw, if_pos (Or.inr hw)]
    · rw [if_neg he, if_neg hw, if_neg (by intro hh; rcases hh with hh | hh; exact he hh; exact hw hh)]

theorem stageNone_other (cfg : Cfg) (st : PState) (h : st.stage ≠ .none) : stageNone cfg st = st := by
  unfold stageNone; simp [h]

theorem stageFirst_other (cfg : Cfg) (st : PState) (h : st.stage ≠ .first) : stageFirst cfg st = st := by
  unfold stageFirst; simp [h]

theorem stageMime_other (cfg : Cfg) (st : PState) (h : st.stage ≠ .mime) : stageMime cfg st = st := by
  unfold stageMime; simp [h]

/-- stage 3 either finishes or leaves the parser untouched -/
theorem stageMime_not_done (cfg : Cfg) (st : PState) (h : (stageMime cfg st).stage ≠ .done) : stageMime cfg st = st := by
  unfold stageMime at h ⊢
  split
  · split
    · split
      · rfl
      · rename_i h1 h2 _ _ h3; simp [h1, h2, h3] at h
      · rename_i h1 h2 _ _ _ h3; simp [h1, h2, h3] at h
    · rename_i h1 h2; simp [h1, h2] at h
  · rfl

/-- `strip` of an extended input, when the parser has left stage NONE on the prefix -/
theorem strip_append (cfg : Cfg) (a s : Bytes) (hw : ¬waits cfg (strip cfg a)) (hz : ¬crHazard cfg a s) :
    strip cfg (a ++ s) = strip cfg a ++ s ∧ ¬waits cfg (strip cfg a ++ s) := by
  unfold waits at hw ⊢
  unfold strip at hw ⊢
  by_cases hr : cfg.relaxed = true
  · simp only [hr, ↓reduceIte, true_and] at hw ⊢
    have hne : skipGarbage a ≠ [] := fun h => hw (Or.inl h)
    have h13 : ¬(skipGarbage a = [13] ∧ s.head? = some 10) := by
      intro ⟨h1, h2⟩
      by_cases hf : cfg.fixCr = true
      · exact hw (Or.inr ⟨hf, h1⟩)
      · exact hz ⟨hr, by simpa using hf, h1, h2⟩
    refine ⟨skipGarbage_append a s _ rfl hne h13, ?_⟩
    intro h
    rcases h with h | ⟨hf, h⟩
    · simp at h; exact hne h.1
    · cases hg : skipGarbage a with
      | nil => exact hne hg
      | cons x r =>
        rw [hg] at h
        simp only [List.cons_append, List.cons.injEq, List.append_eq_nil_iff] at h
        exact hw (Or.inr ⟨hf, by rw [hg, h.1, h.2.1]⟩)
  · simp only [hr, Bool.false_eq_true, ↓reduceIte, false_and, and_false, or_false] at hw ⊢
    exact ⟨trivial, fun h => hw (List.append_eq_nil_iff.1 h).1⟩

end SquidModel.Http1

namespace SquidModel.Http1
open Gen.CharSets Gen.Http1Request

/-- the parser state after the request line `f` was accepted and `rest` is what follows it -/
def afterLine (f : ReqLine) (rest : Bytes) : PState :=
  { stage := .mime, buf := rest, status := 200, method := f.method, isGet := f.isGet, uri := f.uri,
    vmaj := f.vmaj, vmin := f.vmin }

theorem stageFirst_fresh (cfg : Cfg) (g : Bytes) :
    stageFirst cfg { buf := g, stage := .first } =
      match parseFirstLine cfg g with
      | .more => { buf := g, stage := .first }
      | .bad s => { buf := g, status := s, stage := .done }
      | .ok f rest => afterLine f rest := by
  unfold stageFirst afterLine
  simp only [↓reduceIte]
  cases parseFirstLine cfg g <;> rfl

theorem parse_fresh_wait (cfg : Cfg) (a : Bytes) (hw : waits cfg (strip cfg a)) :
    parse cfg {} a = { buf := strip cfg a } := by
  unfold parse
  rw [stageNone_none cfg {} a rfl, if_pos hw, stageFirst_other _ _ (by simp), stageMime_other _ _ (by simp)]

theorem parse_fresh_go (cfg : Cfg) (a : Bytes) (hw : ¬waits cfg (strip cfg a)) :
    parse cfg {} a = stageMime cfg (stageFirst cfg { buf := strip cfg a, stage := .first }) := by
  unfold parse
  rw [stageNone_none cfg {} a rfl, if_neg hw]

/-- **Resume lemma.** As long as the parser is not done, calling it again with the unparsed rest plus new bytes gives
exactly the state a fresh parser reaches on the whole input — except in the CR hazard. -/
theorem parse_resume (cfg : Cfg) (a s : Bytes) (hnd : (parse cfg {} a).stage ≠ .done) (hz : ¬crHazard cfg a s) :
    parse cfg (parse cfg {} a) ((parse cfg {} a).buf ++ s) = parse cfg {} (a ++ s) := by
  by_cases hw : waits cfg (strip cfg a)
  · rw [parse_fresh_wait cfg a hw]
    have key : strip cfg (strip cfg a ++ s) = strip cfg (a ++ s) := by
      unfold waits at hw
      unfold strip at hw ⊢
      by_cases hr : cfg.relaxed = true
      · simp only [hr, ↓reduceIte] at hw ⊢
        rcases hw with h | ⟨_, _, h⟩
        · rw [h, skipGarbage_append_nil a s h]
          simp
        · rw [h, skipGarbage_append_cr a s h]
          simp
      · simp only [hr, Bool.false_eq_true, ↓reduceIte]
    unfold parse
    rw [stageNone_none cfg _ _ rfl, stageNone_none cfg _ _ rfl, key]
  · obtain ⟨e1, e2⟩ := strip_append cfg a s hw hz
    have hfresh : parse cfg {} (a ++ s) = stageMime cfg (stageFirst cfg { buf := strip cfg a ++ s, stage := .first }) := by
      rw [parse_fresh_go cfg (a ++ s) (by rw [e1]; exact e2), e1]
    rw [hfresh]
    have ha := parse_fresh_go cfg a hw
    rw [stageFirst_fresh] at ha
    rw [stageFirst_fresh]
    cases hp : parseFirstLine cfg (strip cfg a) with
    | more =>
      rw [hp] at ha
      simp only at ha
      rw [stageMime_other _ _ (by simp)] at ha
      rw [ha]
      unfold parse
      rw [stageNone_other _ _ (by simp), stageFirst_fresh]
    | bad st =>
      rw [hp] at ha
      simp only at ha
      rw [stageMime_other _ _ (by simp)] at ha
      rw [ha] at hnd
      simp at hnd
    | ok f rest =>
      rw [hp] at ha
      simp only at ha
      rw [ha] at hnd
      rw [stageMime_not_done _ _ hnd] at ha
      rw [ha, parseFirstLine_ok_append cfg s hp]
      unfold parse
      rw [stageNone_other _ _ (by simp [afterLine]), stageFirst_other _ _ (by simp [afterLine])]
      rfl

end SquidModel.Http1

namespace SquidModel.Http1
open Gen.CharSets Gen.Http1Request

/-! ### grabMime on an extended buffer -/

theorem grabMime_tooLarge_append (cfg : Cfg) (fls : Nat) (rest b : Bytes) {r : Bytes}
    (h : grabMime cfg fls rest = .tooLarge r) : ∃ r', grabMime cfg fls (rest ++ b) = .tooLarge r' := by
  unfold grabMime headersEnd at h ⊢
  cases he : headersEndFrom .s1 rest with
  | some v =>
    obtain ⟨n, o⟩ := v
    rw [he] at h
    rw [(headersEndFrom_some_append .s1 rest b he).1]
    simp only at h ⊢
    split at h
    · rename_i hh; rw [if_pos hh]; exact ⟨_, rfl⟩
    · simp at h
  | none =>
    rw [he] at h
    simp only at h
    have hlen : rest.length + fls ≥ cfg.limit := by
      by_cases hh : rest.length + fls ≥ cfg.limit
      · exact hh
      · rw [if_neg hh] at h; simp at h
    cases he' : headersEndFrom .s1 (rest ++ b) with
    | none =>
      simp only
      rw [if_pos (by simp; omega)]; exact ⟨_, rfl⟩
    | some v =>
      obtain ⟨n, o⟩ := v
      have := headersEndFrom_none_append .s1 rest b he he'
      simp only
      rw [if_pos (by omega)]; exact ⟨_, rfl⟩

theorem grabMime_block_append (cfg : Cfg) (fls : Nat) (rest b : Bytes) {m r : Bytes}
    (h : grabMime cfg fls rest = .block m r) :
    grabMime cfg fls (rest ++ b) = .block m (r ++ b) ∧ r.length ≤ rest.length := by
  unfold grabMime headersEnd at h ⊢
  cases he : headersEndFrom .s1 rest with
  | some v =>
    obtain ⟨n, o⟩ := v
    rw [he] at h
    obtain ⟨e, hn⟩ := headersEndFrom_some_append .s1 rest b he
    rw [e]
    simp only at h ⊢
    split at h
    · simp at h
    · rename_i hh
      rw [if_neg hh]
      simp only [MimeRes.block.injEq] at h ⊢
      rw [List.take_append_of_le_length hn, List.drop_append_of_le_length hn]
      refine ⟨⟨h.1, by rw [h.2]⟩, ?_⟩
      rw [← h.2]; simp
  | none =>
    rw [he] at h
    simp only at h
    split at h <;> simp at h

/-! ### a finished parse is not changed by later bytes -/

/-- the connection after a single read of `a` into an empty buffer -/
def run (cfg : Cfg) (a : Bytes) : Conn := { st := parse cfg {} a, fed := a.length }

theorem feed_fresh (cfg : Cfg) (a : Bytes) : feed cfg {} a = run cfg a := by
  simp [feed, run]

theorem parse_done_extend (cfg : Cfg) (a b : Bytes) (hd : (parse cfg {} a).stage = .done)
    (hz : ¬crHazard cfg a b) (hl : lineCond cfg (strip cfg (a ++ b))) :
    (run cfg (a ++ b)).outcome = (run cfg a).outcome := by
  have hw : ¬waits cfg (strip cfg a) := by
    intro hw
    rw [parse_fresh_wait cfg a hw] at hd
    simp at hd
  obtain ⟨e1, e2⟩ := strip_append cfg a b hw hz
  have hb : parse cfg {} (a ++ b) = stageMime cfg (stageFirst cfg { buf := strip cfg a ++ b, stage := .first }) := by
    rw [parse_fresh_go cfg (a ++ b) (by rw [e1]; exact e2), e1]
  have ha := parse_fresh_go cfg a hw
  rw [stageFirst_fresh] at ha hb
  rw [e1] at hl
  have hlen := strip_length_le cfg a
  cases hp : parseFirstLine cfg (strip cfg a) with
  | more =>
    rw [hp] at ha
    simp only at ha
    rw [stageMime_other _ _ (by simp)] at ha
    rw [ha] at hd
    simp at hd
  | bad s =>
    rw [hp] at ha
    rw [parseFirstLine_bad_append cfg b hp hl] at hb
    simp only at ha hb
    rw [stageMime_other _ _ (by simp)] at ha hb
    unfold run Conn.outcome Conn.consumed
    rw [ha, hb]
    simp only [ne_eq, not_true_eq_false, ↓reduceIte, List.length_append]
    have : a.length + b.length - ((strip cfg a).length + b.length) = a.length - (strip cfg a).length := by omega
    rw [this]
  | ok f rest =>
    rw [hp] at ha
    rw [parseFirstLine_ok_append cfg b hp] at hb
    simp only at ha hb
    unfold stageMime at ha hb
    simp only [afterLine, ↓reduceIte] at ha hb
    by_cases hv : f.vmaj = 1
    · simp only [hv, ↓reduceIte, PState.firstLineSize] at ha hb
      cases hg : grabMime cfg (f.method.length + f.uri.length + 12) rest with
      | more =>
        rw [hg] at ha
        simp only at ha
        rw [ha] at hd
        simp at hd
      | tooLarge r =>
        obtain ⟨r', hg'⟩ := grabMime_tooLarge_append cfg _ rest b hg
        rw [hg] at ha
        rw [hg'] at hb
        simp only at ha hb
        unfold run Conn.outcome Conn.consumed
        rw [ha, hb]
        simp
      | block m r =>
        obtain ⟨hg', hr⟩ := grabMime_block_append cfg _ rest b hg
        rw [hg] at ha
        rw [hg'] at hb
        simp only at ha hb
        unfold run Conn.outcome Conn.consumed
        rw [ha, hb]
        simp only [ne_eq, not_true_eq_false, ↓reduceIte, List.length_append]
        have : a.length + b.length - (r.length + b.length) = a.length - r.length := by omega
        rw [this]
    · simp only [hv, ↓reduceIte] at ha hb
      unfold run Conn.outcome Conn.consumed
      rw [ha, hb]
      simp only [ne_eq, not_true_eq_false, ↓reduceIte, List.length_append]
      have : a.length + b.length - (rest.length + b.length) = a.length - rest.length := by omega
      rw [this]

end SquidModel.Http1

namespace SquidModel.Http1
open Gen.CharSets Gen.Http1Request

/-! ### induction over the segments -/

/-- no segment boundary shows the CR hazard: `a` are the bytes delivered before the segments `segs` -/
def NoCrSplitFrom (cfg : Cfg) : Bytes → List Bytes → Prop
  | _, [] => True
  | a, s :: rest => ¬crHazard cfg a (s ++ rest.flatten) ∧ NoCrSplitFrom cfg (a ++ s) rest

theorem crHazard_mono (cfg : Cfg) (a s t : Bytes) (h : ¬crHazard cfg a (s ++ t)) : ¬crHazard cfg a s := by
  intro ⟨h1, h2, h3, h4⟩
  apply h
  refine ⟨h1, h2, h3, ?_⟩
  cases s with
  | nil => simp at h4
  | cons x s => simpa using h4

theorem parse_nil (cfg : Cfg) : parse cfg {} [] = {} := by
  have : strip cfg [] = [] := by unfold strip; split <;> simp
  rw [parse_fresh_wait cfg [] (by rw [this]; exact Or.inl rfl), this]

theorem feed_segments (cfg : Cfg) (whole : Bytes) (hl : lineCond cfg (strip cfg whole)) :
    ∀ (segs : List Bytes) (a : Bytes) (c : Conn), a ++ segs.flatten = whole → NoCrSplitFrom cfg a segs →
      ((c.st.stage ≠ .done ∧ c = run cfg a) ∨ (c.st.stage = .done ∧ (run cfg whole).outcome = c.outcome)) →
      (segs.foldl (feed cfg) c).outcome = (run cfg whole).outcome := by
  intro segs
  induction segs with
  | nil =>
    intro a c hw _ hr
    simp only [List.flatten_nil, List.append_nil] at hw
    subst hw
    rcases hr with ⟨_, h⟩ | ⟨_, h⟩
    · simp [h]
    · simp [h]
  | cons s rest ih =>
    intro a c hw hcr hr
    simp only [List.foldl_cons]
    obtain ⟨hz, hcr'⟩ := hcr
    apply ih (a ++ s) (feed cfg c s) (by simpa using hw) hcr'
    rcases hr with ⟨hnd, hc⟩ | ⟨hd, ho⟩
    · have hstep : feed cfg c s = run cfg (a ++ s) := by
        subst hc
        unfold feed
        rw [if_neg hnd]
        unfold run at hnd ⊢
        simp only at hnd ⊢
        rw [parse_resume cfg a s hnd (crHazard_mono cfg a s _ hz)]
        simp
      rw [hstep]
      by_cases hd' : (run cfg (a ++ s)).st.stage = .done
      · right
        refine ⟨hd', ?_⟩
        have hz' : ¬crHazard cfg (a ++ s) rest.flatten := by
          cases rest with
          | nil => intro ⟨_, _, _, h4⟩; simp at h4
          | cons s' rest' => exact hcr'.1
        have hw' : (a ++ s) ++ rest.flatten = whole := by simpa using hw
        rw [← hw']
        exact parse_done_extend cfg (a ++ s) rest.flatten hd' hz' (by rw [hw']; exact hl)
      · left
        exact ⟨hd', rfl⟩
    · right
      have : feed cfg c s = c := by unfold feed; rw [if_pos hd]
      rw [this]
      exact ⟨hd, ho⟩

/-- **Segmentation independence of the model**, with the two side conditions that the unrepaired code needs. -/
theorem incremental_eq_oneShot_of (cfg : Cfg) (segs : List Bytes) (hcr : NoCrSplitFrom cfg [] segs)
    (hl : lineCond cfg (strip cfg segs.flatten)) : incremental cfg segs = oneShot cfg segs.flatten := by
  unfold incremental oneShot feedAll
  rw [feed_fresh]
  apply feed_segments cfg segs.flatten hl segs [] {} (by simp) hcr
  left
  refine ⟨by simp, ?_⟩
  unfold run
  rw [parse_nil]
  rfl

/-- the boundary-indexed form of `NoCrSplitFrom` -/
theorem noCrSplitFrom_of_forall (cfg : Cfg) (segs : List Bytes) (a : Bytes)
    (h : ∀ k, ¬crHazard cfg (a ++ (segs.take k).flatten) (segs.drop k).flatten) : NoCrSplitFrom cfg a segs := by
  induction segs generalizing a with
  | nil => trivial
  | cons s rest ih =>
    refine ⟨by simpa using h 0, ih (a ++ s) ?_⟩
    intro k
    have := h (k + 1)
    simpa using this

end SquidModel.Http1
