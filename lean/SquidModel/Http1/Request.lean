/-
Model of the HTTP/1 request parser, function by function:

  src/http/one/RequestParser.cc   skipGarbageLines, parseMethodField, parseUriField, parseHttpVersionField,
                                  skipDelimiter, skipTrailingCrs, parseRequestFirstLine, doParse, firstLineSize
  src/http/one/Parser.cc          DelimiterCharacters, grabMimeBlock, cleanMimePrefix, unfoldMime
  src/mime_header.cc              headersEnd
  src/http/RequestMethod.cc       HttpRequestMethod(const SBuf &)
  src/client_side.cc              ConnStateData::parseHttpRequest (`parse(inBuf); inBuf = remaining()`)
  src/servers/Http1Server.cc      Server::parseOneRequest (one parser object until it is done)

Parameters: `relaxed` (Config.onoff.relaxed_header_parser, 0 or 1) and `limit` (Config.maxRequestHeaderSize).
The character sets, the method table and the two length limits come from `Gen` (dumped from the running code).

The two `fix…` switches describe the candidate repairs of notes/fixes/ (C21-cr-split, C21-line-limit); the translator
sets them from the behaviour of the staged code (both `false` on the pinned tree), so that the model follows
the code that is actually built.
-/
import SquidModel.Http1.Tok
import SquidModel.Gen.CharSets
import SquidModel.Gen.Http1Request

deriving instance DecidableEq for Except

namespace SquidModel.Http1
open Gen.CharSets Gen.Http1Request

structure Cfg where
  relaxed : Bool
  limit : Nat
  /-- doParse waits for more data when the relaxed parser holds exactly one CR before any request line -/
  fixCr : Bool := false
  /-- parseRequestFirstLine applies its length check to a complete first line as well -/
  fixLine : Bool := false
  deriving DecidableEq, Repr

/-- `Http1::Parser::DelimiterCharacters()` -/
def delims (cfg : Cfg) : CharSet := if cfg.relaxed then RelaxedDelims else StrictDelims

/-- `RequestParser::RequestTargetCharacters()` -/
def targetChars (cfg : Cfg) : CharSet := if cfg.relaxed then RelaxedTarget else StrictTarget

/-- `CharacterSet::LF.complement()`: the characters of a line -/
def notLF (c : UInt8) : Bool := !LF.mem c

/-! ### skipGarbageLines -/

/-- the `while` loop of `skipGarbageLines`: drop leading `LF` and `CR LF` -/
def skipGarbage : Bytes → Bytes
  | 10 :: r => skipGarbage r
  | 13 :: 10 :: r => skipGarbage r
  | s => s

/-- `skipGarbageLines` -/
def strip (cfg : Cfg) (a : Bytes) : Bytes := if cfg.relaxed then skipGarbage a else a

/-! ### HttpRequestMethod(const SBuf &) -/

/-- index into the method table that the constructor's linear search stops at -/
def methodLookup (relaxed : Bool) (m : Bytes) : Option Nat :=
  methods.findIdx? (fun k => caseEq k m && (relaxed || k == m))

/-- `HttpRequestMethod::image()` of the method constructed from `m` -/
def methodImage (relaxed : Bool) (m : Bytes) : Bytes :=
  match methodLookup relaxed m with
  | some i => methods.getD i m
  | none => m

/-- `method_ == Http::METHOD_GET` -/
def methodIsGet (relaxed : Bool) (m : Bytes) : Bool := methodLookup relaxed m == some getIndex

/-! ### request-line fields -/

/-- `parseMethodField` (including its `skipDelimiter` call): method text and the tokenizer after the delimiters,
or the status code -/
def parseMethodField (cfg : Cfg) (tok : Bytes) : Except Nat (Bytes × Bytes) :=
  match prefixTok TCHAR.mem (some maxMethodLength) tok with
  | none => .error 400
  | some (m, rest) =>
    let count := (rest.takeWhile (delims cfg).mem).length
    if count = 0 then .error 400
    else if count > 1 ∧ !cfg.relaxed then .error 400
    else .ok (m, rest.dropWhile (delims cfg).mem)

/-- `skipTrailingCrs` on the reversed tokenizer -/
def skipTrailingCrs (cfg : Cfg) (r : Bytes) : Except Nat Bytes :=
  if cfg.relaxed then .ok (r.dropWhile CR.mem)
  else match r with
    | c :: r' => if CR.mem c then .ok r' else .error 400
    | [] => .error 400

/-- "1.1/PTTH" and "0.1/PTTH" -/
def revHttp11 : Bytes := [49, 46, 49, 47, 80, 84, 84, 72]
def revHttp10 : Bytes := [48, 46, 49, 47, 80, 84, 84, 72]
/-- "/PTTH" -/
def revProto : Bytes := [47, 80, 84, 84, 72]

/-- the generic `HTTP/` 1*DIGIT `.` 1*DIGIT branch of `parseHttpVersionField`, on the reversed tokenizer -/
def parseVersionGeneric (r : Bytes) : Option (Nat × Nat × Bytes) :=
  let minor := r.takeWhile DIGIT.mem
  if minor.isEmpty then none else
  match r.dropWhile DIGIT.mem with
  | 46 :: r2 =>
    let major := r2.takeWhile DIGIT.mem
    if major.isEmpty then none else
    match stripPrefix revProto (r2.dropWhile DIGIT.mem) with
    | some r4 =>
      if major.length > 1 ∨ minor.length > 1 then some (0, 0, r4)
      else some ((major.headD 48).toNat - 48, (minor.headD 48).toNat - 48, r4)
    | none => none
  | _ => none

/-- `parseHttpVersionField` on the reversed tokenizer: (major, minor, tokenizer) or the status code -/
def parseVersion (isGet : Bool) (r : Bytes) : Except Nat (Nat × Nat × Bytes) :=
  match stripPrefix revHttp11 r with
  | some r' => .ok (1, 1, r')
  | none =>
    match stripPrefix revHttp10 r with
    | some r' => .ok (1, 0, r')
    | none =>
      match parseVersionGeneric r with
      | some v => .ok v
      | none => if isGet then .ok (0, 9, r) else .error 400

/-- `parseUriField` followed by the `tok.atEnd()` test -/
def parseUri (cfg : Cfg) (tok : Bytes) : Except Nat Bytes :=
  match prefixTok (targetChars cfg).mem none tok with
  | none => .error 400
  | some (u, rest) =>
    if u.length > maxUriLength then .error 414
    else if !rest.isEmpty then .error 400
    else .ok u

/-- the fields of an accepted request line: `method_` (image, and whether it is METHOD_GET), `uri_`, `msgProtocol_` -/
structure ReqLine where
  method : Bytes
  isGet : Bool
  uri : Bytes
  vmaj : Nat
  vmin : Nat
  deriving DecidableEq, Repr

/-- the part of `parseRequestFirstLine` that works on the line cut out of the buffer (without its LF) -/
def parseLine (cfg : Cfg) (line : Bytes) : Except Nat ReqLine :=
  match parseMethodField cfg line with
  | .error s => .error s
  | .ok (m, tok) =>
    let isGet := methodIsGet cfg.relaxed m
    match skipTrailingCrs cfg tok.reverse with
    | .error s => .error s
    | .ok r1 =>
      match parseVersion isGet r1 with
      | .error s => .error s
      | .ok (maj, min, r2) =>
        let count := (r2.takeWhile (delims cfg).mem).length
        -- `!http0() && !skipDelimiter(tok.skipAllTrailing(...))`: nothing is skipped for major version 0
        if maj ≠ 0 ∧ count = 0 then .error 400
        else if maj ≠ 0 ∧ count > 1 ∧ !cfg.relaxed then .error 400
        else
          let r3 := if maj ≠ 0 then r2.dropWhile (delims cfg).mem else r2
          match parseUri cfg r3.reverse with
          | .error s => .error s
          | .ok u => .ok { method := methodImage cfg.relaxed m, isGet := isGet, uri := u, vmaj := maj, vmin := min }

inductive LineRes where
  | more
  | bad (status : Nat)
  | ok (f : ReqLine) (rest : Bytes)
  deriving DecidableEq, Repr

/-- "who should we blame for our failure to parse this line?" -/
def blame (cfg : Cfg) (buf : Bytes) : LineRes :=
  match parseMethodField cfg buf with
  | .error s => .bad s
  | .ok _ => .bad 414

/-- `parseRequestFirstLine` -/
def parseFirstLine (cfg : Cfg) (buf : Bytes) : LineRes :=
  let line := buf.takeWhile notLF
  match line.isEmpty, buf.dropWhile notLF with
  | false, 10 :: rest =>
    if cfg.fixLine ∧ line.length ≥ cfg.limit then blame cfg buf
    else match parseLine cfg line with
      | .error s => .bad s
      | .ok f => .ok f rest
  | _, _ => if buf.length ≥ cfg.limit then blame cfg buf else .more

/-! ### mime block -/

inductive HS where | s0 | s1 | s2
  deriving DecidableEq, Repr

/-- one iteration of the `while` loop of `headersEnd`: the next state (`none` = state 3, the end of the headers)
and whether this byte set `containsObsFold` -/
def hsStep : HS → UInt8 → Option HS × Bool
  | .s0, c => (some (if c = 10 then .s1 else .s0), false)
  | .s1, c =>
    if c = 13 then (some .s2, false)
    else if c = 10 then (none, false)
    else if c = 32 ∨ c = 9 then (some .s0, true)
    else (some .s0, false)
  | .s2, c => if c = 10 then (none, false) else (some .s0, false)

/-- `headersEnd`: number of bytes up to and including the terminator and the obs-fold flag; `none` for its 0 -/
def headersEndFrom : HS → Bytes → Option (Nat × Bool)
  | _, [] => none
  | st, c :: r =>
    match hsStep st c with
    | (none, _) => some (1, false)
    | (some st', f) => (headersEndFrom st' r).map fun (n, o) => (n + 1, o || f)

def headersEnd (s : Bytes) : Option (Nat × Bool) := headersEndFrom .s1 s

/-- the loop of `cleanMimePrefix` (fuel: one unit per skipped line) -/
def cleanLoop : Nat → Bytes → Bytes
  | 0, s => s
  | _ + 1, [] => []
  | f + 1, c :: r =>
    if RelaxedDelims.mem c then
      match r.dropWhile LineChars.mem with
      | d :: r' => if LF.mem d then cleanLoop f r' else cleanLoop f (d :: r')
      | [] => cleanLoop f []
    else c :: r

def cleanMimePrefix (m : Bytes) : Bytes :=
  let t := cleanLoop m.length m
  if t.isEmpty then [13, 10] else t

def nonCRLF (c : UInt8) : Bool := !(CR.mem c || LF.mem c)

/-- the loop of `unfoldMime` (fuel: one unit per iteration; every iteration consumes at least one byte) -/
def unfoldLoop : Nat → Bytes → Bytes
  | 0, _ => []
  | _ + 1, [] => []
  | f + 1, s@(_ :: _) =>
    let blob := s.takeWhile nonCRLF
    let s1 := s.dropWhile nonCRLF
    let crs := s1.takeWhile CR.mem
    let s2 := s1.dropWhile CR.mem
    match s2 with
    | c :: s3 =>
      if LF.mem c then
        if (s3.takeWhile WSP.mem).isEmpty then blob ++ crs ++ [c] ++ unfoldLoop f s3
        else blob ++ [32] ++ unfoldLoop f (s3.dropWhile WSP.mem)
      else blob ++ crs ++ unfoldLoop f s2
    | [] => blob ++ crs

def unfoldMime (m : Bytes) : Bytes := unfoldLoop m.length m

/-! ### parser object -/

inductive Stage where | none | first | mime | done
  deriving DecidableEq, Repr

/-- the members of `Http1::RequestParser` that matter: `parsingStage_`, `buf_`, `parseStatusCode` (0 = scNone),
`method_` (image and whether it is METHOD_GET), `uri_`, `msgProtocol_` (major, minor), `mimeHeaderBlock_` -/
structure PState where
  stage : Stage := .none
  buf : Bytes := []
  status : Nat := 0
  method : Bytes := []
  isGet : Bool := false
  uri : Bytes := []
  vmaj : Nat := 0
  vmin : Nat := 0
  mime : Bytes := []
  deriving DecidableEq, Repr

/-- `firstLineSize()` -/
def PState.firstLineSize (st : PState) : Nat := st.method.length + st.uri.length + 12

/-- stage 1 of `doParse`: locate the request line -/
def stageNone (cfg : Cfg) (st : PState) : PState :=
  if st.stage = .none then
    if strip cfg st.buf = [] then { st with buf := strip cfg st.buf }
    else if cfg.fixCr ∧ cfg.relaxed ∧ strip cfg st.buf = [13] then { st with buf := strip cfg st.buf }
    else { st with buf := strip cfg st.buf, stage := .first }
  else st

/-- stage 2 of `doParse`: parse the request line -/
def stageFirst (cfg : Cfg) (st : PState) : PState :=
  if st.stage = .first then
    match parseFirstLine cfg st.buf with
    | .more => st
    | .bad s => { st with status := s, stage := .done }
    | .ok f rest =>
      { st with method := f.method, isGet := f.isGet, uri := f.uri, vmaj := f.vmaj, vmin := f.vmin, status := 200,
                buf := rest, stage := .mime }
  else st

/-- what `grabMimeBlock` finds in the buffer -/
inductive MimeRes where
  | more
  | tooLarge (rest : Bytes)
  | block (mime rest : Bytes)
  deriving DecidableEq, Repr

/-- the `expectMime` branch of `grabMimeBlock(which, limit)`; `fls` is `firstLineSize()` -/
def grabMime (cfg : Cfg) (fls : Nat) (buf : Bytes) : MimeRes :=
  match headersEnd buf with
  | some (n, obsFold) =>
    if fls + n ≥ cfg.limit then .tooLarge (buf.drop n)
    else
      let block := cleanMimePrefix (buf.take n)
      .block (if obsFold then unfoldMime block else block) (buf.drop n)
  | none =>
    if buf.length + fls ≥ cfg.limit then .tooLarge buf else .more

/-- stage 3 of `doParse`: `grabMimeBlock("Request", Config.maxRequestHeaderSize)` -/
def stageMime (cfg : Cfg) (st : PState) : PState :=
  if st.stage = .mime then
    if st.vmaj = 1 then   -- expectMime: the protocol is HTTP once a request line was accepted
      match grabMime cfg st.firstLineSize st.buf with
      | .more => st
      | .tooLarge rest => { st with status := 431, buf := rest, stage := .done }
      | .block m rest => { st with mime := m, buf := rest, stage := .done }
    else { st with stage := .done }
  else st

/-- `RequestParser::parse(aBuf)` / `doParse` -/
def parse (cfg : Cfg) (st : PState) (aBuf : Bytes) : PState :=
  stageMime cfg (stageFirst cfg (stageNone cfg { st with buf := aBuf }))

/-! ### the connection: `inBuf`, one parser until it is done -/

/-- `fed` counts the bytes delivered so far; `inBuf` is `st.buf` (`inBuf = hp->remaining()`) -/
structure Conn where
  st : PState := {}
  fed : Nat := 0
  deriving DecidableEq, Repr

/-- one read: the new bytes are appended to `inBuf` and the parser is called, unless it already finished -/
def feed (cfg : Cfg) (c : Conn) (seg : Bytes) : Conn :=
  if c.st.stage = .done then c
  else { st := parse cfg c.st (c.st.buf ++ seg), fed := c.fed + seg.length }

def feedAll (cfg : Cfg) (segs : List Bytes) : Conn := segs.foldl (feed cfg) {}

def Conn.consumed (c : Conn) : Nat := c.fed - c.st.buf.length

/-- what the caller of the parser sees (the outcome the property speaks about) -/
inductive Outcome where
  | needMore (consumed : Nat)
  | accepted (method : Bytes) (isGet : Bool) (uri : Bytes) (vmaj vmin : Nat) (mime : Bytes) (consumed : Nat)
  | rejected (status : Nat)
  deriving DecidableEq, Repr

def Conn.outcome (c : Conn) : Outcome :=
  if c.st.stage ≠ .done then .needMore c.consumed
  else if c.st.status = 200 then .accepted c.st.method c.st.isGet c.st.uri c.st.vmaj c.st.vmin c.st.mime c.consumed
  else .rejected c.st.status

/-- incremental delivery -/
def incremental (cfg : Cfg) (segs : List Bytes) : Outcome := (feedAll cfg segs).outcome

/-- everything in a single call -/
def oneShot (cfg : Cfg) (bytes : Bytes) : Outcome := (feed cfg {} bytes).outcome

end SquidModel.Http1

namespace SquidModel.Http1

/-! ### what the parser made of the first line (the observation C22 is about) -/

inductive LineVerdict where
  | incomplete
  | reject (status : Nat)
  | accept (f : ReqLine)
  deriving DecidableEq, Repr

/-- one call of the parser on `bytes`; the request line counts as accepted when the parser went past it
(`parseStatusCode` is set to scOkay at that point and can only become 431 afterwards) -/
def lineVerdict (cfg : Cfg) (bytes : Bytes) : LineVerdict :=
  let st := parse cfg {} bytes
  if st.status = 0 then .incomplete
  else if st.stage = .mime ∨ (st.stage = .done ∧ (st.status = 200 ∨ st.status = 431)) then
    .accept { method := st.method, isGet := st.isGet, uri := st.uri, vmaj := st.vmaj, vmin := st.vmin }
  else .reject st.status

end SquidModel.Http1
