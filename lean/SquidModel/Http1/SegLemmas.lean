/-
Lemmas for C21: how each piece of the request parser behaves when more bytes are appended to its input.
-/
import SquidModel.Http1.Facts

namespace SquidModel.Http1
open Gen.CharSets Gen.Http1Request

/-! ### skipGarbage -/

@[simp] theorem skipGarbage_nil : skipGarbage [] = [] := by simp [skipGarbage]
@[simp] theorem skipGarbage_lf (r : Bytes) : skipGarbage (10 :: r) = skipGarbage r := by simp [skipGarbage]
@[simp] theorem skipGarbage_crlf (r : Bytes) : skipGarbage (13 :: 10 :: r) = skipGarbage r := by simp [skipGarbage]
@[simp] theorem skipGarbage_cr : skipGarbage [13] = [13] := by simp [skipGarbage]

theorem skipGarbage_cr_other {d : UInt8} (r : Bytes) (h : d ≠ 10) : skipGarbage (13 :: d :: r) = 13 :: d :: r := by
  unfold skipGarbage
  split <;> simp_all

theorem skipGarbage_other {c : UInt8} (r : Bytes) (h1 : c ≠ 10) (h2 : c ≠ 13) : skipGarbage (c :: r) = c :: r := by
  unfold skipGarbage
  split <;> simp_all

theorem skipGarbage_length_le (x : Bytes) : (skipGarbage x).length ≤ x.length := by
  fun_induction skipGarbage x <;> simp_all <;> omega

theorem skipGarbage_fix (x : Bytes) (h1 : ∀ r, x = 10 :: r → False) (h2 : ∀ r, x = 13 :: 10 :: r → False) :
    skipGarbage x = x := by
  unfold skipGarbage
  split
  · next r => exact absurd rfl (h1 r)
  · next r => exact absurd rfl (h2 r)
  · rfl

/-- what `skipGarbage` returns is a fixed point unless it is a lone CR that an LF may follow -/
theorem skipGarbage_stable (g s : Bytes) (hg : skipGarbage g = g) (hne : g ≠ [])
    (hz : ¬(g = [13] ∧ s.head? = some 10)) : skipGarbage (g ++ s) = g ++ s := by
  match g, hg, hne, hz with
  | c :: g', hg, _, hz =>
    by_cases h10 : c = 10
    · subst h10
      -- a fixed point cannot start with LF
      exfalso
      rw [skipGarbage_lf] at hg
      have := skipGarbage_length_le g'
      rw [hg] at this; simp at this; omega
    · by_cases h13 : c = 13
      · subst h13
        cases g' with
        | nil =>
          cases s with
          | nil => simp
          | cons d s' =>
            have : d ≠ 10 := by intro hd; apply hz; simp [hd]
            simpa using skipGarbage_cr_other s' this
        | cons d g'' =>
          by_cases hd : d = 10
          · subst hd
            exfalso
            rw [skipGarbage_crlf] at hg
            have := skipGarbage_length_le g''
            rw [hg] at this; simp at this; omega
          · simpa using skipGarbage_cr_other (g'' ++ s) hd
      · simpa using skipGarbage_other (g' ++ s) h10 h13

theorem skipGarbage_idem (a : Bytes) : skipGarbage (skipGarbage a) = skipGarbage a := by
  fun_induction skipGarbage a with
  | case1 r ih => exact ih
  | case2 r ih => exact ih
  | case3 s h1 h2 => exact skipGarbage_fix s h1 h2

/-- a prefix that is all garbage disappears -/
theorem skipGarbage_append_nil (a s : Bytes) (h : skipGarbage a = []) : skipGarbage (a ++ s) = skipGarbage s := by
  fun_induction skipGarbage a with
  | case1 r ih => simpa using ih h
  | case2 r ih => simpa using ih h
  | case3 x h1 h2 => subst h; simp

/-- a prefix whose unskipped rest is a lone CR -/
theorem skipGarbage_append_cr (a s : Bytes) (h : skipGarbage a = [13]) : skipGarbage (a ++ s) = skipGarbage (13 :: s) := by
  fun_induction skipGarbage a with
  | case1 r ih => simpa using ih h
  | case2 r ih => simpa using ih h
  | case3 x h1 h2 => subst h; simp

/-- otherwise the unskipped rest of the prefix stays where it is -/
theorem skipGarbage_append (a s g : Bytes) (h : skipGarbage a = g) (hne : g ≠ [])
    (hz : ¬(g = [13] ∧ s.head? = some 10)) : skipGarbage (a ++ s) = g ++ s := by
  fun_induction skipGarbage a with
  | case1 r ih => simpa using ih h
  | case2 r ih => simpa using ih h
  | case3 x h1 h2 =>
    subst h
    exact skipGarbage_stable _ _ (skipGarbage_fix x h1 h2) hne hz

end SquidModel.Http1

namespace SquidModel.Http1
open Gen.CharSets Gen.Http1Request

/-! ### cutting the first line -/

theorem span_append {p : UInt8 → Bool} {g s rest : Bytes} {c : UInt8} (h : g.dropWhile p = c :: rest) :
    (g ++ s).takeWhile p = g.takeWhile p ∧ (g ++ s).dropWhile p = c :: (rest ++ s) := by
  constructor
  · rw [List.takeWhile_append]
    have h1 := List.takeWhile_append_dropWhile (p := p) (l := g)
    have h2 : (g.takeWhile p).length + (g.dropWhile p).length = g.length := by
      rw [← List.length_append, h1]
    rw [h] at h2
    simp only [List.length_cons] at h2
    rw [if_neg (by omega)]
  · rw [List.dropWhile_append, h]; simp

theorem span_all {p : UInt8 → Bool} {g : Bytes} (h : g.dropWhile p = []) : g.takeWhile p = g := by
  have h1 := List.takeWhile_append_dropWhile (p := p) (l := g)
  rw [h] at h1; simpa using h1

theorem dropWhile_head_notLF {g rest : Bytes} {c : UInt8} (h : g.dropWhile notLF = c :: rest) : c = 10 := by
  induction g with
  | nil => simp at h
  | cons x g ih =>
    simp only [List.dropWhile_cons] at h
    split at h
    · exact ih h
    · rename_i hx
      injection h with h1 _
      subst h1
      by_cases hc : x = 10
      · exact hc
      · exact absurd ((notLF_iff x).2 hc) hx

/-- the buffer holds a complete, non-empty first line -/
theorem parseFirstLine_complete (cfg : Cfg) {g rest : Bytes} (h2 : g.takeWhile notLF ≠ [])
    (h3 : g.dropWhile notLF = 10 :: rest) :
    parseFirstLine cfg g =
      if cfg.fixLine ∧ (g.takeWhile notLF).length ≥ cfg.limit then blame cfg g
      else match parseLine cfg (g.takeWhile notLF) with
        | .error s => .bad s
        | .ok f => .ok f rest := by
  unfold parseFirstLine
  simp only [h3]
  have : (g.takeWhile notLF).isEmpty = false := by simpa using h2
  simp only [this]
  rfl

/-- the buffer does not hold a complete first line (no LF at all, or an LF right at the front) -/
theorem parseFirstLine_incomplete (cfg : Cfg) {g : Bytes}
    (h : g.takeWhile notLF = [] ∨ g.dropWhile notLF = []) :
    parseFirstLine cfg g = if g.length ≥ cfg.limit then blame cfg g else .more := by
  unfold parseFirstLine
  rcases h with h | h
  · simp only [h, List.isEmpty_nil]
  · simp only [h]
    split <;> simp_all

theorem blame_lf (cfg : Cfg) (x : Bytes) : blame cfg (10 :: x) = .bad 400 := by
  simp [blame, parseMethodField, prefixTok, maxMethodLength, tchar_not_lf]

theorem parseFirstLine_ok_append (cfg : Cfg) {g rest : Bytes} {f : ReqLine} (s : Bytes)
    (h : parseFirstLine cfg g = .ok f rest) : parseFirstLine cfg (g ++ s) = .ok f (rest ++ s) := by
  cases hd : g.dropWhile notLF with
  | nil =>
    rw [parseFirstLine_incomplete cfg (Or.inr hd)] at h
    unfold blame at h
    split at h
    · split at h <;> simp at h
    · simp at h
  | cons c rest' =>
    have hc := dropWhile_head_notLF hd
    subst hc
    by_cases hl : g.takeWhile notLF = []
    · rw [parseFirstLine_incomplete cfg (Or.inl hl)] at h
      unfold blame at h
      split at h
      · split at h <;> simp at h
      · simp at h
    · obtain ⟨e1, e2⟩ := span_append (s := s) hd
      rw [parseFirstLine_complete cfg hl hd] at h
      rw [parseFirstLine_complete cfg (by rw [e1]; exact hl) e2, e1]
      split at h
      · unfold blame at h; split at h <;> simp at h
      · rename_i hfix
        rw [if_neg hfix]
        split at h
        · simp at h
        · rename_i f' hf
          simp only [LineRes.ok.injEq] at h
          simp [h.1, h.2]

end SquidModel.Http1

namespace SquidModel.Http1
open Gen.CharSets Gen.Http1Request

/-! ### the verdict of `blame` only depends on the method field and two more bytes -/

theorem takeWhile_count_append (p : UInt8 → Bool) (r b : Bytes) (h : 2 ≤ r.length) :
    (((r ++ b).takeWhile p).length = 0 ↔ (r.takeWhile p).length = 0) ∧
    (((r ++ b).takeWhile p).length > 1 ↔ (r.takeWhile p).length > 1) := by
  match r, h with
  | x :: y :: r', _ =>
    cases hx : p x <;> cases hy : p y <;> simp [List.takeWhile, hx, hy]

theorem blame_append (cfg : Cfg) (g b : Bytes) (h : maxMethodLength + 2 ≤ g.length) :
    blame cfg (g ++ b) = blame cfg g := by
  unfold blame parseMethodField prefixTok
  have ht : (g ++ b).take maxMethodLength = g.take maxMethodLength :=
    List.take_append_of_le_length (by omega)
  simp only [ht]
  generalize hm : (g.take maxMethodLength).takeWhile TCHAR.mem = m
  have hml : m.length ≤ maxMethodLength := by
    rw [← hm]
    exact Nat.le_trans (List.takeWhile_prefix _).length_le (List.length_take_le _ _)
  by_cases hme : m.isEmpty = true
  · simp [hme]
  · simp only [hme]
    have hd : (g ++ b).drop m.length = g.drop m.length ++ b := List.drop_append_of_le_length (by omega)
    simp only [hd]
    have h2 : 2 ≤ (g.drop m.length).length := by simp; omega
    obtain ⟨c0, c1⟩ := takeWhile_count_append (delims cfg).mem (g.drop m.length) b h2
    by_cases z : ((g.drop m.length).takeWhile (delims cfg).mem).length = 0
    · simp [z, c0.2 z]
    · have z' : ¬((g.drop m.length ++ b).takeWhile (delims cfg).mem).length = 0 := fun hh => z (c0.1 hh)
      simp only [z, z', Bool.false_eq_true, ↓reduceIte]
      by_cases w : 1 < ((g.drop m.length).takeWhile (delims cfg).mem).length ∧ cfg.relaxed = false
      · have w' : 1 < ((g.drop m.length ++ b).takeWhile (delims cfg).mem).length ∧ cfg.relaxed = false :=
          ⟨c1.2 w.1, w.2⟩
        simp [w, w']
      · have w' : ¬(1 < ((g.drop m.length ++ b).takeWhile (delims cfg).mem).length ∧ cfg.relaxed = false) :=
          fun hh => w ⟨c1.1 hh.1, hh.2⟩
        simp [w, w']

end SquidModel.Http1

namespace SquidModel.Http1
open Gen.CharSets Gen.Http1Request

/-! ### a rejected first line stays rejected with the same status -/

/-- the side condition under which the length check of `parseRequestFirstLine` cannot depend on where the input is cut:
without the candidate repair, the first line (all bytes before the first LF, or everything) is shorter than the limit;
with it, the limit leaves room for a method and two more bytes -/
def lineCond (cfg : Cfg) (g : Bytes) : Prop :=
  if cfg.fixLine then maxMethodLength + 2 ≤ cfg.limit else (g.takeWhile notLF).length < cfg.limit

theorem takeWhile_append_length_ge (p : UInt8 → Bool) (g b : Bytes) (h : g.dropWhile p = []) :
    g.length ≤ ((g ++ b).takeWhile p).length := by
  rw [List.takeWhile_append, span_all h]
  simp

theorem parseFirstLine_bad_append (cfg : Cfg) {g : Bytes} {s : Nat} (b : Bytes)
    (h : parseFirstLine cfg g = .bad s) (hc : lineCond cfg (g ++ b)) :
    parseFirstLine cfg (g ++ b) = .bad s := by
  cases hd : g.dropWhile notLF with
  | nil =>
    -- no LF in `g`: the verdict came from the length check
    rw [parseFirstLine_incomplete cfg (Or.inr hd)] at h
    have hlen : g.length ≥ cfg.limit := by
      by_cases hl : g.length ≥ cfg.limit
      · exact hl
      · rw [if_neg hl] at h; simp at h
    rw [if_pos hlen] at h
    have hge := takeWhile_append_length_ge notLF g b hd
    unfold lineCond at hc
    by_cases hfix : cfg.fixLine = true
    · rw [if_pos hfix] at hc
      have hb : blame cfg (g ++ b) = blame cfg g := blame_append cfg g b (by omega)
      cases hd' : (g ++ b).dropWhile notLF with
      | nil =>
        rw [parseFirstLine_incomplete cfg (Or.inr hd'), if_pos (by simp; omega), hb, h]
      | cons c rest =>
        have hc' := dropWhile_head_notLF hd'
        subst hc'
        by_cases hl : (g ++ b).takeWhile notLF = []
        · rw [parseFirstLine_incomplete cfg (Or.inl hl), if_pos (by simp; omega), hb, h]
        · rw [parseFirstLine_complete cfg hl hd', if_pos ⟨hfix, by omega⟩, hb, h]
    · rw [if_neg hfix] at hc
      omega
  | cons c rest =>
    have hc' := dropWhile_head_notLF hd
    subst hc'
    obtain ⟨e1, e2⟩ := span_append (s := b) hd
    by_cases hl : g.takeWhile notLF = []
    · -- `g` starts with LF
      rw [parseFirstLine_incomplete cfg (Or.inl hl)] at h
      have hlen : g.length ≥ cfg.limit := by
        by_cases hl : g.length ≥ cfg.limit
        · exact hl
        · rw [if_neg hl] at h; simp at h
      rw [if_pos hlen] at h
      have hg : g = 10 :: rest := by
        have := List.takeWhile_append_dropWhile (p := notLF) (l := g)
        rw [hl, hd] at this; simpa using this.symm
      rw [parseFirstLine_incomplete cfg (Or.inl (by rw [e1]; exact hl)), if_pos (by simp; omega)]
      rw [hg] at h ⊢
      rw [blame_lf] at h
      simp only [List.cons_append, blame_lf]
      exact h
    · rw [parseFirstLine_complete cfg hl hd] at h
      rw [parseFirstLine_complete cfg (by rw [e1]; exact hl) e2, e1]
      by_cases hfix : cfg.fixLine = true ∧ (g.takeWhile notLF).length ≥ cfg.limit
      · rw [if_pos hfix] at h ⊢
        unfold lineCond at hc
        rw [if_pos hfix.1] at hc
        have : (g.takeWhile notLF).length ≤ g.length := (List.takeWhile_prefix _).length_le
        rw [blame_append cfg g b (by omega)]
        exact h
      · rw [if_neg hfix] at h ⊢
        split at h
        · rename_i s' hs
          simp only [LineRes.bad.injEq] at h
          simp [h]
        · simp at h

end SquidModel.Http1

namespace SquidModel.Http1
open Gen.CharSets Gen.Http1Request

/-! ### headersEnd -/

theorem headersEndFrom_some_append (st : HS) (a b : Bytes) {n : Nat} {o : Bool}
    (h : headersEndFrom st a = some (n, o)) :
    headersEndFrom st (a ++ b) = some (n, o) ∧ n ≤ a.length := by
  induction a generalizing st n o with
  | nil => simp [headersEndFrom] at h
  | cons c r ih =>
    simp only [headersEndFrom, List.cons_append] at h ⊢
    cases hs : hsStep st c with
    | mk nx f =>
      rw [hs] at h
      cases nx with
      | none => simp only at h ⊢; exact ⟨h, by simp at h; simp [← h.1]⟩
      | some st' =>
        simp only at h ⊢
        cases hr : headersEndFrom st' r with
        | none => rw [hr] at h; simp at h
        | some v =>
          obtain ⟨n', o'⟩ := v
          obtain ⟨e, l⟩ := ih st' hr
          rw [hr] at h
          rw [e]
          simp only [Option.map_some, Option.some.injEq, Prod.mk.injEq] at h ⊢
          exact ⟨h, by simp; omega⟩

theorem headersEndFrom_none_append (st : HS) (a b : Bytes) {n : Nat} {o : Bool}
    (h : headersEndFrom st a = none) (h2 : headersEndFrom st (a ++ b) = some (n, o)) : a.length < n := by
  induction a generalizing st n o with
  | nil =>
    cases b with
    | nil => simp [headersEndFrom] at h2
    | cons c r =>
      simp only [headersEndFrom, List.nil_append] at h2
      cases hs : hsStep st c with
      | mk nx f =>
        rw [hs] at h2
        cases nx with
        | none => simp at h2; simp [← h2.1]
        | some st' =>
          simp only [Option.map_eq_some_iff, Prod.mk.injEq, Prod.exists] at h2
          obtain ⟨n', o', _, rfl, _⟩ := h2
          simp
  | cons c r ih =>
    simp only [headersEndFrom, List.cons_append] at h h2
    cases hs : hsStep st c with
    | mk nx f =>
      rw [hs] at h h2
      cases nx with
      | none => simp at h
      | some st' =>
        simp only [Option.map_eq_some_iff, Option.map_eq_none_iff, Prod.mk.injEq, Prod.exists] at h h2
        obtain ⟨n', o', h', rfl, _⟩ := h2
        have := ih st' h h'
        simp; omega

end SquidModel.Http1
