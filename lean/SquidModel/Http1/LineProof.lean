/-
C22: the request-line parser accepts exactly the lines the grammar relation derives, with the relation's fields.
-/
import SquidModel.Http1.LineLemmas

namespace SquidModel.Http1
open Gen.CharSets Gen.Http1Request Grammar

theorem body_ne_nil {r g : Bool} {body u : Bytes} {maj min : Nat} (h : Body r g body u maj min) : body ≠ [] := by
  cases h with
  | versioned u d a b hu => simp [hu.1]
  | version0 u ma mi hu => simp [hu.1]
  | simple u _ hu => exact hu.1

theorem digit_toNat {a : UInt8} (h : isDigit a = true) : 48 ≤ a.toNat ∧ a.toNat ≤ 57 := by
  unfold isDigit at h
  simp only [Bool.and_eq_true, decide_eq_true_eq] at h
  exact ⟨UInt8.le_iff_toNat_le.1 h.1, UInt8.le_iff_toNat_le.1 h.2⟩

theorem toNat_ne_48 {a : UInt8} (h : a ≠ 48) : a.toNat ≠ 48 := by
  intro hh
  apply h
  exact UInt8.toNat_inj.1 (by simpa using hh)

/-- the grammar's fields of a parser result -/
def ReqLine.fields (f : ReqLine) : Fields := { method := f.method, uri := f.uri, vmaj := f.vmaj, vmin := f.vmin }

/-- completeness: what the relation derives is accepted, with the relation's fields -/
theorem parseLine_of_requestLine (cfg : Cfg) (line : Bytes) (F : Fields) (h : RequestLine cfg.relaxed line F) :
    parseLine cfg line = .ok { method := F.method, isGet := F.method == GET, uri := F.uri, vmaj := F.vmaj, vmin := F.vmin } := by
  obtain ⟨fm, fu, fmaj, fmin⟩ := F
  obtain ⟨m, d, body, crs, hline, hm, hd, hcrs, hhead, hlast, hbody, hmeth⟩ := h
  simp only at hbody hmeth ⊢
  have hbne := body_ne_nil hbody
  have hhead' : ∀ c, (body ++ crs).head? = some c → isDelim cfg.relaxed c = false := by
    intro c hc
    cases body with
    | nil => exact absurd rfl hbne
    | cons x xs => exact hhead c (by simpa using hc)
  unfold parseLine
  rw [hline, List.append_assoc (m ++ d), parseMethodField_of cfg hm hd hhead']
  simp only
  rw [skipTrailingCrs_of cfg hcrs hlast]
  simp only
  rw [parseVersion_eq_generic, methodIsGet_eq, methodImage_eq, ← hmeth]
  rw [← hmeth] at hbody
  cases hbody with
  | versioned _ d2 a b hu hd2 hul ha hb ha0 =>
    have e : fu ++ d2 ++ httpSlash ++ [a, 46, b] = (fu ++ d2) ++ httpSlash ++ [a] ++ [46] ++ [b] := by simp
    rw [e, generic_of ⟨by simp, by simpa using ha⟩ ⟨by simp, by simpa using hb⟩]
    have hmaj : a.toNat - 48 ≠ 0 := by
      have := digit_toNat ha
      have := toNat_ne_48 ha0
      omega
    simp only [List.length_cons, List.length_nil, Nat.zero_add, Nat.lt_irrefl, or_self, ↓reduceIte, List.reverse_cons,
      List.reverse_nil, List.nil_append, List.headD_cons, List.reverse_append]
    obtain ⟨t1, t2⟩ := takeWhile_stop (p := (delims cfg).mem) (m := d2.reverse) (x := fu.reverse)
      (by intro c hc; rw [delims_mem]; exact hd2.2.1 c (by simpa using hc))
      (by intro c hc; rw [delims_mem]; rw [List.head?_reverse] at hc; exact hul c hc)
    rw [t1, t2]
    have hd2len : d2.reverse.length ≠ 0 := by
      simp; exact hd2.1
    have h1 : ¬(a.toNat - 48 ≠ 0 ∧ d2.reverse.length = 0) := fun hh => hd2len hh.2
    have h2 : ¬(a.toNat - 48 ≠ 0 ∧ d2.reverse.length > 1 ∧ (!cfg.relaxed) = true) := by
      intro ⟨_, hh, hr⟩
      have := hd2.2.2 (by simpa using hr)
      simp at hh; omega
    rw [if_neg h1, if_neg h2, if_pos hmaj, List.reverse_reverse, (parseUri_iff cfg fu fu).2 ⟨rfl, hu⟩]
  | version0 _ ma mi hu hma hmi hz =>
    rw [generic_of hma hmi]
    have hmulti : (if ma.length > 1 ∨ mi.length > 1 then (0, 0, fu.reverse)
        else ((ma.reverse.headD 48).toNat - 48, (mi.reverse.headD 48).toNat - 48, fu.reverse)) =
        (0, (if ma.length > 1 ∨ mi.length > 1 then 0 else (mi.headD 48).toNat - 48), fu.reverse) := by
      by_cases hc : ma.length > 1 ∨ mi.length > 1
      · simp [hc]
      · rw [if_neg hc, if_neg hc]
        have hma1 : ma = [48] := by
          rcases hz with h | h | h
          · exact absurd (Or.inl h) hc
          · exact absurd (Or.inr h) hc
          · exact h
        have hmi1 : mi.length = 1 := by
          have : mi.length ≠ 0 := by intro hh; exact hmi.1 (List.length_eq_zero_iff.1 hh)
          omega
        match mi, hmi1 with
        | [x], _ => simp [hma1]
    rw [hmulti]
    simp only [ne_eq, not_true_eq_false, false_and, ↓reduceIte, List.reverse_reverse]
    rw [(parseUri_iff cfg fu fu).2 ⟨rfl, hu⟩]
  | simple _ hg hu hnv =>
    rw [(generic_none_iff fu).2 hnv]
    simp only [hg, ↓reduceIte, ne_eq, not_true_eq_false, false_and, List.reverse_reverse]
    rw [(parseUri_iff cfg fu fu).2 ⟨rfl, hu⟩]

/-- soundness: an accepted line is derived by the relation, with the parser's fields -/
theorem requestLine_of_parseLine (cfg : Cfg) (line : Bytes) (f : ReqLine) (h : parseLine cfg line = .ok f) :
    RequestLine cfg.relaxed line f.fields ∧ f.isGet = (f.method == GET) := by
  unfold parseLine at h
  cases hpm : parseMethodField cfg line with
  | error s => rw [hpm] at h; simp at h
  | ok v =>
    obtain ⟨m, tok⟩ := v
    rw [hpm] at h
    simp only at h
    obtain ⟨d, hline, hm, hd, hhead⟩ := parseMethodField_ok cfg hpm
    cases hcr : skipTrailingCrs cfg tok.reverse with
    | error s => rw [hcr] at h; simp at h
    | ok r1 =>
      rw [hcr] at h
      simp only at h
      obtain ⟨crs, htok, hcrs, hlast⟩ := skipTrailingCrs_ok cfg hcr
      rw [parseVersion_eq_generic, methodIsGet_eq, methodImage_eq] at h
      -- what remains to be shown once the body is understood
      have finish : ∀ (u : Bytes) (maj min : Nat), r1.reverse ≠ [] →
          Body cfg.relaxed (canonMethod cfg.relaxed m == GET) r1.reverse u maj min →
          f = { method := canonMethod cfg.relaxed m, isGet := canonMethod cfg.relaxed m == GET, uri := u, vmaj := maj, vmin := min } →
          RequestLine cfg.relaxed line f.fields ∧ f.isGet = (f.method == GET) := by
        intro u maj min hne hb hf
        subst hf
        refine ⟨⟨m, d, r1.reverse, crs, ?_, hm, hd, hcrs, ?_, hlast, hb, rfl⟩, rfl⟩
        · rw [hline, htok]; simp
        · intro c hc
          apply hhead c
          rw [htok]
          cases hr : r1.reverse with
          | nil => exact absurd hr hne
          | cons x xs => rw [hr] at hc; simpa using hc
      cases hg : parseVersionGeneric r1 with
      | some v =>
        obtain ⟨maj, min, r2⟩ := v
        rw [hg] at h
        simp only at h
        obtain ⟨ma, mi, hma, hmi, hrev, hver⟩ := generic_ok hg
        obtain ⟨s1, s2, s3⟩ := span_spec (delims cfg).mem r2
        by_cases hmaj : maj = 0
        · -- major version 0: everything before the version token is the target
          subst hmaj
          simp only [ne_eq, not_true_eq_false, false_and, ↓reduceIte] at h
          cases hu : parseUri cfg r2.reverse with
          | error s => rw [hu] at h; simp at h
          | ok u =>
            rw [hu] at h
            simp only [Except.ok.injEq] at h
            obtain ⟨e, htu⟩ := (parseUri_iff cfg _ _).1 hu
            have hne : r1.reverse ≠ [] := by rw [hrev]; simp [httpSlash]
            by_cases hc : ma.length > 1 ∨ mi.length > 1
            · rw [if_pos hc] at hver
              simp only [Prod.mk.injEq] at hver
              apply finish u 0 min hne _ h.symm
              rw [hrev, e, hver.2]
              have := Body.version0 (relaxed := cfg.relaxed) (isGet := canonMethod cfg.relaxed m == GET) u ma mi htu hma hmi
                (by rcases hc with hc | hc; exact Or.inl hc; exact Or.inr (Or.inl hc))
              rw [if_pos hc] at this
              exact this
            · rw [if_neg hc] at hver
              simp only [Prod.mk.injEq] at hver
              have hma1 : ma.length = 1 := by
                have : ma.length ≠ 0 := by intro hh; exact hma.1 (List.length_eq_zero_iff.1 hh)
                omega
              have hmi1 : mi.length = 1 := by
                have : mi.length ≠ 0 := by intro hh; exact hmi.1 (List.length_eq_zero_iff.1 hh)
                omega
              match ma, mi, hma1, hmi1, hma, hmi, hver, hrev, hc with
              | [a], [b], _, _, hma, hmi, hver, hrev, hc =>
                simp only [List.reverse_cons, List.reverse_nil, List.nil_append, List.headD_cons] at hver
                have ha := digit_toNat (hma.2 a (by simp))
                have ha48 : a = 48 := by
                  apply UInt8.toNat_inj.1
                  have := hver.1
                  simp; omega
                subst ha48
                apply finish u 0 min hne _ h.symm
                rw [hrev, e, hver.2]
                have := Body.version0 (relaxed := cfg.relaxed) (isGet := canonMethod cfg.relaxed m == GET) u [48] [b] htu hma hmi
                  (Or.inr (Or.inr rfl))
                rw [if_neg hc] at this
                simpa using this
        · -- a real version: a delimiter must precede it
          have hmaj' : maj ≠ 0 := hmaj
          by_cases h0 : (r2.takeWhile (delims cfg).mem).length = 0
          · simp [hmaj', h0] at h
          · rw [if_neg (fun hh => h0 hh.2)] at h
            by_cases h1 : (r2.takeWhile (delims cfg).mem).length > 1 ∧ (!cfg.relaxed) = true
            · rw [if_pos ⟨hmaj', h1⟩] at h; simp at h
            · rw [if_neg (fun hh => h1 hh.2), if_pos hmaj'] at h
              cases hu : parseUri cfg (r2.dropWhile (delims cfg).mem).reverse with
              | error s => rw [hu] at h; simp at h
              | ok u =>
                rw [hu] at h
                simp only [Except.ok.injEq] at h
                obtain ⟨e, htu⟩ := (parseUri_iff cfg _ _).1 hu
                have hne : r1.reverse ≠ [] := by rw [hrev]; simp [httpSlash]
                -- the version is not multi-digit (it would be 0.0)
                have hc : ¬(ma.length > 1 ∨ mi.length > 1) := by
                  intro hc
                  rw [if_pos hc] at hver
                  simp only [Prod.mk.injEq] at hver
                  exact hmaj hver.1
                rw [if_neg hc] at hver
                simp only [Prod.mk.injEq] at hver
                have hma1 : ma.length = 1 := by
                  have : ma.length ≠ 0 := by intro hh; exact hma.1 (List.length_eq_zero_iff.1 hh)
                  omega
                have hmi1 : mi.length = 1 := by
                  have : mi.length ≠ 0 := by intro hh; exact hmi.1 (List.length_eq_zero_iff.1 hh)
                  omega
                match ma, mi, hma1, hmi1, hma, hmi, hver, hrev with
                | [a], [b], _, _, hma, hmi, hver, hrev =>
                  simp only [List.reverse_cons, List.reverse_nil, List.nil_append, List.headD_cons] at hver
                  apply finish u maj min hne _ h.symm
                  have hr2 : r2.reverse = u ++ (r2.takeWhile (delims cfg).mem).reverse := by
                    conv => lhs; rw [s1]
                    rw [List.reverse_append, e]
                  rw [hrev, hr2, hver.1, hver.2]
                  have hb := Body.versioned (relaxed := cfg.relaxed) (isGet := canonMethod cfg.relaxed m == GET) u
                    (r2.takeWhile (delims cfg).mem).reverse a b htu
                    ⟨by intro hh; apply h0; simpa using congrArg List.length hh,
                     by intro c hc; rw [← delims_mem]; exact s2 c (by simpa using hc),
                     by intro hr
                        have : ¬(r2.takeWhile (delims cfg).mem).length > 1 := fun hh => h1 ⟨hh, by simp [hr]⟩
                        simp; omega⟩
                    (by intro c hc
                        rw [← e, List.getLast?_reverse] at hc
                        rw [← delims_mem]; exact s3 c hc)
                    (hma.2 a (by simp)) (hmi.2 b (by simp))
                    (by intro ha; subst ha; apply hmaj; rw [hver.1]; rfl)
                  simpa using hb
      | none =>
        rw [hg] at h
        simp only at h
        by_cases hget : (canonMethod cfg.relaxed m == GET) = true
        · simp only [hget, ↓reduceIte, ne_eq, not_true_eq_false, false_and] at h
          cases hu : parseUri cfg r1.reverse with
          | error s => rw [hu] at h; simp at h
          | ok u =>
            rw [hu] at h
            simp only [Except.ok.injEq] at h
            obtain ⟨e, htu⟩ := (parseUri_iff cfg _ _).1 hu
            have hnv : ¬VersionTail r1.reverse := (generic_none_iff r1.reverse).1 (by simpa using hg)
            apply finish u 0 9 (by rw [e]; exact htu.1) _ (by rw [← h]; simp [hget])
            rw [e]
            exact Body.simple u hget htu (by rw [← e]; exact hnv)
        · simp [hget] at h

/-- **Exact characterisation**: the parser accepts a line with fields `f` iff the relation derives `f`'s fields from it. -/
theorem parseLine_iff (cfg : Cfg) (line : Bytes) (f : ReqLine) :
    parseLine cfg line = .ok f ↔ (RequestLine cfg.relaxed line f.fields ∧ f.isGet = (f.method == GET)) := by
  constructor
  · exact requestLine_of_parseLine cfg line f
  · intro ⟨h1, h2⟩
    have := parseLine_of_requestLine cfg line f.fields h1
    rw [this]
    cases f
    simp_all [ReqLine.fields]

end SquidModel.Http1
