/-
The character classes written out in `Grammar` coincide with the sets dumped from the running code
(re-decided by the kernel on every run), plus the few facts about them that the C22 proofs use.
-/
import SquidModel.Http1.Grammar
import SquidModel.Http1.Request
import SquidModel.Base.Finite

namespace SquidModel.Http1
open Gen.CharSets Gen.Http1Request Grammar

theorem tchar_eq : ∀ c : UInt8, (TCHAR.mem c == isTchar c) = true := forall_octet _ (by decide +kernel)
theorem digit_eq : ∀ c : UInt8, (DIGIT.mem c == isDigit c) = true := forall_octet _ (by decide +kernel)
theorem cr_eq : ∀ c : UInt8, (CR.mem c == (c == 13)) = true := forall_octet _ (by decide +kernel)
theorem strictDelims_eq : ∀ c : UInt8, (StrictDelims.mem c == (c == 32)) = true := forall_octet _ (by decide +kernel)
theorem relaxedDelims_eq : ∀ c : UInt8, (RelaxedDelims.mem c == isRelaxedDelim c) = true := forall_octet _ (by decide +kernel)
theorem strictTarget_eq : ∀ c : UInt8, (StrictTarget.mem c == isUriChar c) = true := forall_octet _ (by decide +kernel)
theorem uriValid_eq : ∀ c : UInt8, (UriValid.mem c == isUriChar c) = true := forall_octet _ (by decide +kernel)
theorem relaxedTarget_eq : ∀ c : UInt8, (RelaxedTarget.mem c == isRelaxedTarget c) = true := forall_octet _ (by decide +kernel)
theorem delim_not_tchar' : ∀ c : UInt8, (!(isRelaxedDelim c) || !(isTchar c)) = true := forall_octet _ (by decide +kernel)

theorem tchar_mem (c : UInt8) : TCHAR.mem c = isTchar c := by simpa using tchar_eq c
theorem digit_mem (c : UInt8) : DIGIT.mem c = isDigit c := by simpa using digit_eq c
theorem cr_mem (c : UInt8) : CR.mem c = (c == 13) := by simpa using cr_eq c

theorem delims_mem (cfg : Cfg) (c : UInt8) : (delims cfg).mem c = isDelim cfg.relaxed c := by
  unfold delims isDelim
  split
  · simpa using relaxedDelims_eq c
  · simpa using strictDelims_eq c

theorem target_mem (cfg : Cfg) (c : UInt8) : (targetChars cfg).mem c = isTarget cfg.relaxed c := by
  unfold targetChars isTarget
  split
  · simpa using relaxedTarget_eq c
  · simpa using strictTarget_eq c

theorem delim_not_tchar (r : Bool) (c : UInt8) (h : isDelim r c = true) : isTchar c = false := by
  have := delim_not_tchar' c
  unfold isDelim at h
  cases r
  · simp at h; subst h; decide
  · simp at h; simp [h] at this; exact this

theorem delims_fun (cfg : Cfg) : (delims cfg).mem = isDelim cfg.relaxed := funext (delims_mem cfg)
theorem target_fun (cfg : Cfg) : (targetChars cfg).mem = isTarget cfg.relaxed := funext (target_mem cfg)
theorem tchar_fun : TCHAR.mem = isTchar := funext tchar_mem
theorem digit_fun : DIGIT.mem = isDigit := funext digit_mem
theorem cr_fun : CR.mem = fun c => c == 13 := funext cr_mem

end SquidModel.Http1
