/-
The request-line grammar as a declarative relation (specification side of C22), written from the RFCs and from the
tolerances documented in src/http/one/Parser.cc / RequestParser.cc — not from the parser functions.

  RFC 9112 §3      request-line = method SP request-target SP HTTP-version   (+ CRLF)
  RFC 9110 §5.6.2  method = token = 1*tchar
  RFC 9112 §2.3    HTTP-version = "HTTP/" DIGIT "." DIGIT
  RFC 3986 §2      characters of a URI (request-target is checked lexically only: 1*uri-char)
  RFC 1945 §4.1    Simple-Request = "GET" SP Request-URI CRLF
  relaxed mode     1*( SP / HTAB / VT / FF / CR ) as delimiter, *CR LF as line end, whitespace, RFC 2396 "unwise"
                   characters and octets 128..255 inside the target, mixed-case known methods corrected

The character classes are written out here; `ClassFacts` proves that they coincide with the sets dumped from the
running code.  `line` is the request line without its terminating LF.
-/
import SquidModel.Http1.Tok
import SquidModel.Gen.Http1Request

namespace SquidModel.Http1.Grammar
open SquidModel.Http1

def isDigit (c : UInt8) : Bool := 48 ≤ c && c ≤ 57
def isAlpha (c : UInt8) : Bool := (65 ≤ c && c ≤ 90) || (97 ≤ c && c ≤ 122)

/-- tchar: "!#$%&'*+-.^_`|~" DIGIT ALPHA -/
def isTchar (c : UInt8) : Bool :=
  isDigit c || isAlpha c || [33, 35, 36, 37, 38, 39, 42, 43, 45, 46, 94, 95, 96, 124, 126].contains c

/-- unreserved / gen-delims / sub-delims / "%" -/
def isUriChar (c : UInt8) : Bool :=
  isDigit c || isAlpha c ||
    [45, 46, 95, 126, 58, 47, 63, 35, 91, 93, 64, 33, 36, 38, 39, 40, 41, 42, 43, 44, 59, 61, 37].contains c

/-- SP HTAB VT FF CR -/
def isRelaxedDelim (c : UInt8) : Bool := c == 32 || c == 9 || c == 11 || c == 12 || c == 13

/-- URI characters, whitespace, the RFC 2396 unwise characters `"\|^<>`{}`, and octets 128..255 -/
def isRelaxedTarget (c : UInt8) : Bool :=
  isUriChar c || isRelaxedDelim c || [34, 92, 124, 94, 60, 62, 96, 123, 125].contains c || 128 ≤ c

def isDelim (relaxed : Bool) (c : UInt8) : Bool := if relaxed then isRelaxedDelim c else c == 32
def isTarget (relaxed : Bool) (c : UInt8) : Bool := if relaxed then isRelaxedTarget c else isUriChar c

/-- "HTTP/" -/
def httpSlash : Bytes := [72, 84, 84, 80, 47]
def GET : Bytes := [71, 69, 84]

def MethodOk (m : Bytes) : Prop := m ≠ [] ∧ (∀ c ∈ m, isTchar c = true) ∧ m.length ≤ Gen.Http1Request.maxMethodLength

/-- strict: exactly one SP; relaxed: one or more relaxed delimiters -/
def DelimOk (relaxed : Bool) (d : Bytes) : Prop :=
  d ≠ [] ∧ (∀ c ∈ d, isDelim relaxed c = true) ∧ (relaxed = false → d.length = 1)

/-- what precedes the LF: strict exactly one CR; relaxed any number of CRs -/
def EolOk (relaxed : Bool) (crs : Bytes) : Prop :=
  (∀ c ∈ crs, c = 13) ∧ (relaxed = false → crs.length = 1)

def TargetOk (relaxed : Bool) (u : Bytes) : Prop :=
  u ≠ [] ∧ (∀ c ∈ u, isTarget relaxed c = true) ∧ u.length ≤ Gen.Http1Request.maxUriLength

def Digits (s : Bytes) : Prop := s ≠ [] ∧ ∀ c ∈ s, isDigit c = true

/-- the text ends in something that reads as a version token: "HTTP/" 1*DIGIT "." 1*DIGIT -/
def VersionTail (s : Bytes) : Prop :=
  ∃ p ma mi, s = p ++ httpSlash ++ ma ++ [46] ++ mi ∧ Digits ma ∧ Digits mi

/-- the method the parser reports: a known method written in another case is corrected in relaxed mode -/
def canonMethod (relaxed : Bool) (m : Bytes) : Bytes :=
  if relaxed then (Gen.Http1Request.methods.find? (fun k => caseEq k m)).getD m else m

/-- What may stand between the delimiter after the method and the line end, with the target and version it denotes.
`isGet`: the method is GET. -/
inductive Body (relaxed : Bool) (isGet : Bool) : Bytes → Bytes → Nat → Nat → Prop where
  /-- request-target delimiter "HTTP/" DIGIT "." DIGIT with a major version other than 0 (RFC 9112) -/
  | versioned (u d : Bytes) (a b : UInt8) :
      TargetOk relaxed u → DelimOk relaxed d → (∀ c, u.getLast? = some c → isDelim relaxed c = false) →
      isDigit a = true → isDigit b = true → a ≠ 48 →
      Body relaxed isGet (u ++ d ++ httpSlash ++ [a, 46, b]) u (a.toNat - 48) (b.toNat - 48)
  /-- DEVIATION (finding C22-version0-no-delimiter): a version token that denotes major version 0 — literally "0", or
  any multi-digit number, which Squid maps to 0.0 — is cut off the end and everything before it is the target; no
  delimiter is looked for (so there need not be one, and in relaxed mode whitespace before it stays in the target) -/
  | version0 (u ma mi : Bytes) :
      TargetOk relaxed u → Digits ma → Digits mi → (ma.length > 1 ∨ mi.length > 1 ∨ ma = [48]) →
      Body relaxed isGet (u ++ httpSlash ++ ma ++ [46] ++ mi) u 0
        (if ma.length > 1 ∨ mi.length > 1 then 0 else (mi.headD 48).toNat - 48)
  /-- RFC 1945 Simple-Request (GET only): no version token; DEVIATION (finding C22-simple-request-version-tail): only
  when the target does not itself end in something that reads as a version token -/
  | simple (u : Bytes) :
      isGet = true → TargetOk relaxed u → ¬VersionTail u → Body relaxed isGet u u 0 9

/-- the fields a request line denotes -/
structure Fields where
  method : Bytes
  uri : Bytes
  vmaj : Nat
  vmin : Nat
  deriving DecidableEq, Repr

/-- `line` (the request line without its LF) derives the fields `f` -/
def RequestLine (relaxed : Bool) (line : Bytes) (f : Fields) : Prop :=
  ∃ m d body crs, line = m ++ d ++ body ++ crs ∧
    MethodOk m ∧ DelimOk relaxed d ∧ EolOk relaxed crs ∧
    (∀ c, body.head? = some c → isDelim relaxed c = false) ∧
    (relaxed = true → body.getLast? ≠ some 13) ∧
    Body relaxed (canonMethod relaxed m == GET) body f.uri f.vmaj f.vmin ∧
    f.method = canonMethod relaxed m

end SquidModel.Http1.Grammar
