/-
Facts about the regenerated character sets and constants that the proofs about the request parser use.
They are re-decided by the kernel against `Gen` on every run.
-/
import SquidModel.Http1.Request
import SquidModel.Base.Finite

namespace SquidModel.Http1
open Gen.CharSets Gen.Http1Request

theorem lf_mem_iff' : ∀ c : UInt8, (LF.mem c == (c == 10)) = true :=
  forall_octet _ (by decide +kernel)

theorem lf_mem_iff (c : UInt8) : LF.mem c = true ↔ c = 10 := by
  have := lf_mem_iff' c
  simp only [beq_iff_eq] at this
  rw [this]; simp

theorem notLF_iff (c : UInt8) : notLF c = true ↔ c ≠ 10 := by
  unfold notLF
  rw [Bool.not_eq_true', ← Bool.not_eq_true, lf_mem_iff]

theorem notLF_ten : notLF 10 = false := by decide

theorem tchar_not_lf : TCHAR.mem 10 = false := by decide

end SquidModel.Http1
