/-
Lemmas for C22: each field parser of the request line, characterised in both directions.
-/
import SquidModel.Http1.ClassFacts

namespace SquidModel.Http1
open Gen.CharSets Gen.Http1Request Grammar

/-! ### list helpers -/

theorem mem_takeWhile_imp {p : UInt8 → Bool} {l : Bytes} {c : UInt8} (h : c ∈ l.takeWhile p) : p c = true := by
  induction l with
  | nil => simp at h
  | cons x r ih =>
    simp only [List.takeWhile_cons] at h
    split at h
    · rename_i hx
      simp only [List.mem_cons] at h
      rcases h with h | h
      · subst h; exact hx
      · exact ih h
    · simp at h

theorem takeWhile_all {p : UInt8 → Bool} {l : Bytes} (h : ∀ c ∈ l, p c = true) :
    l.takeWhile p = l ∧ l.dropWhile p = [] := by
  induction l with
  | nil => simp
  | cons x r ih =>
    have hx := h x (by simp)
    have := ih (fun c hc => h c (by simp [hc]))
    simp [hx, this]

theorem drop_takeWhile_length (p : UInt8 → Bool) (l : Bytes) :
    l.drop (l.takeWhile p).length = l.dropWhile p := by
  induction l with
  | nil => simp
  | cons x r ih =>
    simp only [List.takeWhile_cons, List.dropWhile_cons]
    split <;> simp [ih]

theorem takeWhile_stop {p : UInt8 → Bool} {m x : Bytes} (hm : ∀ c ∈ m, p c = true)
    (hx : ∀ c, x.head? = some c → p c = false) :
    (m ++ x).takeWhile p = m ∧ (m ++ x).dropWhile p = x := by
  have hx' : x.takeWhile p = [] ∧ x.dropWhile p = x := by
    cases x with
    | nil => simp
    | cons c r => have := hx c rfl; simp [List.takeWhile, List.dropWhile, this]
  constructor
  · rw [List.takeWhile_append_of_pos hm, hx'.1]; simp
  · rw [List.dropWhile_append_of_pos hm, hx'.2]

theorem span_spec (p : UInt8 → Bool) (l : Bytes) :
    l = l.takeWhile p ++ l.dropWhile p ∧ (∀ c ∈ l.takeWhile p, p c = true) ∧
    (∀ c, (l.dropWhile p).head? = some c → p c = false) := by
  refine ⟨List.takeWhile_append_dropWhile.symm, fun c hc => mem_takeWhile_imp hc, ?_⟩
  intro c hc
  have := List.head?_dropWhile_not p l
  rw [hc] at this
  exact this

theorem takeWhile_take_stop {p : UInt8 → Bool} {m x : Bytes} {n : Nat} (hm : ∀ c ∈ m, p c = true)
    (hn : m.length ≤ n) (hx : ∀ c, x.head? = some c → p c = false) :
    ((m ++ x).take n).takeWhile p = m := by
  rw [List.take_append]
  have : m.take n = m := List.take_of_length_le hn
  rw [this]
  apply (takeWhile_stop hm _).1
  intro c hc
  cases x with
  | nil => simp at hc
  | cons y r =>
    cases hk : n - m.length with
    | zero => simp [hk] at hc
    | succ k => simp [hk] at hc; subst hc; exact hx _ rfl

/-! ### parseMethodField -/

theorem parseMethodField_of (cfg : Cfg) {m d rest : Bytes} (hm : MethodOk m) (hd : DelimOk cfg.relaxed d)
    (hr : ∀ c, rest.head? = some c → isDelim cfg.relaxed c = false) :
    parseMethodField cfg (m ++ d ++ rest) = .ok (m, rest) := by
  obtain ⟨hm1, hm2, hm3⟩ := hm
  obtain ⟨hd1, hd2, hd3⟩ := hd
  unfold parseMethodField prefixTok
  simp only [tchar_fun, delims_fun, List.append_assoc]
  have hdx : ∀ c, (d ++ rest).head? = some c → isTchar c = false := by
    intro c hc
    cases d with
    | nil => exact absurd rfl hd1
    | cons x xs =>
      simp at hc; subst hc
      exact delim_not_tchar _ _ (hd2 _ (by simp))
  rw [takeWhile_take_stop hm2 hm3 hdx]
  have hme : m.isEmpty = false := by simpa using hm1
  simp only [hme, Bool.false_eq_true, ↓reduceIte, List.drop_left']
  obtain ⟨t1, t2⟩ := takeWhile_stop (p := isDelim cfg.relaxed) hd2 hr
  rw [t1, t2]
  have h0 : d.length ≠ 0 := by
    intro h; exact hd1 (List.length_eq_zero_iff.1 h)
  rw [if_neg h0]
  have : ¬(d.length > 1 ∧ (!cfg.relaxed) = true) := by
    intro ⟨h1, h2⟩
    have := hd3 (by simpa using h2)
    omega
  rw [if_neg this]

theorem parseMethodField_ok (cfg : Cfg) {line m tok : Bytes} (h : parseMethodField cfg line = .ok (m, tok)) :
    ∃ d, line = m ++ d ++ tok ∧ MethodOk m ∧ DelimOk cfg.relaxed d ∧
      (∀ c, tok.head? = some c → isDelim cfg.relaxed c = false) := by
  unfold parseMethodField prefixTok at h
  simp only [tchar_fun, delims_fun] at h
  generalize hm : (line.take maxMethodLength).takeWhile isTchar = m0 at h
  by_cases hme : m0.isEmpty = true
  · simp [hme] at h
  · simp only [hme, Bool.false_eq_true, ↓reduceIte] at h
    -- m0 is a prefix of the line
    have hpre : m0 <+: line := by
      rw [← hm]
      exact (List.takeWhile_prefix _).trans (List.take_prefix _ _)
    obtain ⟨t, ht⟩ := hpre
    have hdrop : line.drop m0.length = t := by rw [← ht]; simp
    rw [hdrop] at h
    obtain ⟨s1, s2, s3⟩ := span_spec (isDelim cfg.relaxed) t
    by_cases h0 : (t.takeWhile (isDelim cfg.relaxed)).length = 0
    · simp [h0] at h
    · rw [if_neg h0] at h
      by_cases h1 : (t.takeWhile (isDelim cfg.relaxed)).length > 1 ∧ (!cfg.relaxed) = true
      · simp [h1] at h
      · rw [if_neg h1] at h
        simp only [Except.ok.injEq, Prod.mk.injEq] at h
        obtain ⟨e1, e2⟩ := h
        subst e1
        refine ⟨t.takeWhile (isDelim cfg.relaxed), ?_, ⟨?_, ?_, ?_⟩, ⟨?_, s2, ?_⟩, ?_⟩
        · rw [← e2, List.append_assoc, ← s1, ht]
        · simpa using hme
        · intro c hc; rw [← hm] at hc; exact mem_takeWhile_imp hc
        · rw [← hm]; exact Nat.le_trans (List.takeWhile_prefix _).length_le (List.length_take_le _ _)
        · intro hh; rw [hh] at h0; simp at h0
        · intro hr
          have : ¬(t.takeWhile (isDelim cfg.relaxed)).length > 1 := fun hh => h1 ⟨hh, by simp [hr]⟩
          omega
        · rw [← e2]; exact s3

/-! ### skipTrailingCrs -/

theorem skipTrailingCrs_of (cfg : Cfg) {body crs : Bytes} (hc : EolOk cfg.relaxed crs)
    (hb : cfg.relaxed = true → body.getLast? ≠ some 13) :
    skipTrailingCrs cfg (body ++ crs).reverse = .ok body.reverse := by
  obtain ⟨hc1, hc2⟩ := hc
  unfold skipTrailingCrs
  rw [List.reverse_append]
  by_cases hr : cfg.relaxed = true
  · simp only [hr, ↓reduceIte, cr_fun]
    have := (takeWhile_stop (p := fun c => c == 13) (m := crs.reverse) (x := body.reverse)
      (by intro c hc; simp at hc; simp [hc1 c hc])
      (by intro c hc; rw [List.head?_reverse] at hc; have := hb hr; rw [hc] at this; simpa using this)).2
    rw [this]
  · have hr' : cfg.relaxed = false := by simpa using hr
    simp only [hr', Bool.false_eq_true, ↓reduceIte]
    have hl := hc2 hr'
    match crs, hl, hc1 with
    | [x], _, hc1 =>
      have : x = 13 := hc1 x (by simp)
      subst this
      simp [cr_mem]

theorem skipTrailingCrs_ok (cfg : Cfg) {tok r1 : Bytes} (h : skipTrailingCrs cfg tok.reverse = .ok r1) :
    ∃ crs, tok = r1.reverse ++ crs ∧ EolOk cfg.relaxed crs ∧
      (cfg.relaxed = true → r1.reverse.getLast? ≠ some 13) := by
  unfold skipTrailingCrs at h
  by_cases hr : cfg.relaxed = true
  · simp only [hr, ↓reduceIte, cr_fun, Except.ok.injEq] at h
    obtain ⟨s1, s2, s3⟩ := span_spec (fun c => c == 13) tok.reverse
    refine ⟨(tok.reverse.takeWhile (fun c => c == 13)).reverse, ?_, ⟨?_, ?_⟩, ?_⟩
    · rw [← h, ← List.reverse_append, ← s1, List.reverse_reverse]
    · intro c hc; simp at hc; simpa using s2 c hc
    · intro hh; rw [hr] at hh; simp at hh
    · intro _
      rw [List.getLast?_reverse, ← h]
      intro hh
      have := s3 13 hh
      simp at this
  · have hr' : cfg.relaxed = false := by simpa using hr
    simp only [hr', Bool.false_eq_true, ↓reduceIte] at h
    split at h
    · rename_i c r' heq
      split at h
      · rename_i hc
        simp only [Except.ok.injEq] at h
        subst h
        rw [cr_mem] at hc
        have hc' : c = 13 := by simpa using hc
        subst hc'
        refine ⟨[13], ?_, ⟨by simp, by simp⟩, by intro hh; rw [hr'] at hh; simp at hh⟩
        have := congrArg List.reverse heq
        simpa using this
      · simp at h
    · simp at h

/-! ### parseUri -/

theorem parseUri_iff (cfg : Cfg) (tok u : Bytes) :
    parseUri cfg tok = .ok u ↔ tok = u ∧ TargetOk cfg.relaxed u := by
  unfold parseUri prefixTok TargetOk
  simp only [target_fun]
  obtain ⟨s1, s2, s3⟩ := span_spec (isTarget cfg.relaxed) tok
  have hdrop := drop_takeWhile_length (isTarget cfg.relaxed) tok
  constructor
  · intro h
    by_cases he : (tok.takeWhile (isTarget cfg.relaxed)).isEmpty = true
    · simp [he] at h
    · simp only [he, Bool.false_eq_true, ↓reduceIte, hdrop] at h
      split at h
      · simp at h
      · split at h
        · simp at h
        · rename_i hl hr
          simp only [Except.ok.injEq] at h
          have hr' : tok.dropWhile (isTarget cfg.relaxed) = [] := by simpa using hr
          rw [hr'] at s1
          simp only [List.append_nil] at s1
          rw [← s1] at h
          subst h
          refine ⟨rfl, ?_, ?_, ?_⟩
          · intro hh; rw [← s1, hh] at he; simp at he
          · rw [s1]; exact s2
          · rw [← s1] at hl; omega
  · intro ⟨e, h1, h2, h3⟩
    subst e
    obtain ⟨ht, hd⟩ := takeWhile_all h2
    rw [ht]
    have he : tok.isEmpty = false := by simpa using h1
    simp only [he, Bool.false_eq_true, ↓reduceIte, List.drop_length]
    rw [if_neg (by omega)]
    simp

end SquidModel.Http1

namespace SquidModel.Http1
open Gen.CharSets Gen.Http1Request Grammar

/-! ### parseHttpVersionField -/

theorem digits_reverse {s : Bytes} (h : Digits s) : Digits s.reverse := by
  obtain ⟨h1, h2⟩ := h
  exact ⟨by simpa using h1, by intro c hc; exact h2 c (by simpa using hc)⟩

theorem revProto_eq : httpSlash.reverse = revProto := by decide

/-- the generic branch on a text that ends in a version token -/
theorem generic_of {p ma mi : Bytes} (hma : Digits ma) (hmi : Digits mi) :
    parseVersionGeneric (p ++ httpSlash ++ ma ++ [46] ++ mi).reverse =
      some (if ma.length > 1 ∨ mi.length > 1 then (0, 0, p.reverse)
            else ((ma.reverse.headD 48).toNat - 48, (mi.reverse.headD 48).toNat - 48, p.reverse)) := by
  have hrev : (p ++ httpSlash ++ ma ++ [46] ++ mi).reverse = mi.reverse ++ (46 :: (ma.reverse ++ (revProto ++ p.reverse))) := by
    simp [← revProto_eq]
  rw [hrev]
  unfold parseVersionGeneric
  simp only [digit_fun]
  obtain ⟨a1, a2⟩ := takeWhile_stop (p := isDigit) (m := mi.reverse) (x := 46 :: (ma.reverse ++ (revProto ++ p.reverse)))
    (digits_reverse hmi).2 (by intro c hc; simp at hc; subst hc; decide)
  rw [a1, a2]
  have e1 : mi.reverse.isEmpty = false := by simpa using hmi.1
  simp only [e1, Bool.false_eq_true, ↓reduceIte]
  obtain ⟨b1, b2⟩ := takeWhile_stop (p := isDigit) (m := ma.reverse) (x := revProto ++ p.reverse)
    (digits_reverse hma).2 (by intro c hc; simp [revProto] at hc; subst hc; decide)
  rw [b1, b2]
  have e2 : ma.reverse.isEmpty = false := by simpa using hma.1
  simp only [e2, Bool.false_eq_true, ↓reduceIte, stripPrefix_append, List.length_reverse]
  split <;> rfl

/-- ... and conversely -/
theorem generic_ok {r r4 : Bytes} {maj min : Nat} (h : parseVersionGeneric r = some (maj, min, r4)) :
    ∃ ma mi, Digits ma ∧ Digits mi ∧ r.reverse = r4.reverse ++ httpSlash ++ ma ++ [46] ++ mi ∧
      (maj, min) = (if ma.length > 1 ∨ mi.length > 1 then (0, 0)
                    else ((ma.reverse.headD 48).toNat - 48, (mi.reverse.headD 48).toNat - 48)) := by
  unfold parseVersionGeneric at h
  simp only [digit_fun] at h
  obtain ⟨s1, s2, _⟩ := span_spec isDigit r
  by_cases e1 : (r.takeWhile isDigit).isEmpty = true
  · simp [e1] at h
  · simp only [e1, Bool.false_eq_true, ↓reduceIte] at h
    split at h
    · rename_i r2 heq
      obtain ⟨t1, t2, _⟩ := span_spec isDigit r2
      by_cases e2 : (r2.takeWhile isDigit).isEmpty = true
      · simp [e2] at h
      · simp only [e2, Bool.false_eq_true, ↓reduceIte] at h
        split at h
        · rename_i r4' hs
          have hs' := stripPrefix_eq_some hs
          refine ⟨(r2.takeWhile isDigit).reverse, (r.takeWhile isDigit).reverse, ?_, ?_, ?_, ?_⟩
          · exact ⟨by simpa using e2, by intro c hc; exact t2 c (by simpa using hc)⟩
          · exact ⟨by simpa using e1, by intro c hc; exact s2 c (by simpa using hc)⟩
          · have hr4 : r4' = r4 := by
              split at h <;> simp at h <;> exact h.2.2
            subst hr4
            conv => lhs; rw [s1, heq, t1, hs']
            simp [← revProto_eq]
          · simp only [List.length_reverse, List.reverse_reverse]
            split at h
            · rename_i hc
              simp only [Option.some.injEq, Prod.mk.injEq] at h
              rw [if_pos hc]; simp [← h.1, ← h.2.1]
            · rename_i hc
              simp only [Option.some.injEq, Prod.mk.injEq] at h
              rw [if_neg hc]; simp [← h.1, ← h.2.1]
        · simp at h
    · simp at h

theorem isDigit_46 : isDigit 46 = false := by decide
theorem isDigit_47 : isDigit 47 = false := by decide

/-- the two fast paths ("HTTP/1.1", "HTTP/1.0") agree with the generic branch -/
theorem parseVersion_eq_generic (g : Bool) (r : Bytes) :
    parseVersion g r =
      match parseVersionGeneric r with
      | some v => .ok v
      | none => if g then .ok (0, 9, r) else .error 400 := by
  unfold parseVersion
  cases h1 : stripPrefix revHttp11 r with
  | some r' =>
    have := stripPrefix_eq_some h1
    subst this
    have : parseVersionGeneric (revHttp11 ++ r') = some (1, 1, r') := by
      have := generic_of (p := r'.reverse) (ma := [49]) (mi := [49]) ⟨by simp, by decide⟩ ⟨by simp, by decide⟩
      simpa [httpSlash, revHttp11] using this
    simp [this]
  | none =>
    cases h0 : stripPrefix revHttp10 r with
    | some r' =>
      have := stripPrefix_eq_some h0
      subst this
      have : parseVersionGeneric (revHttp10 ++ r') = some (1, 0, r') := by
        have := generic_of (p := r'.reverse) (ma := [49]) (mi := [48]) ⟨by simp, by decide⟩ ⟨by simp, by decide⟩
        simpa [httpSlash, revHttp10] using this
      simp [this]
    | none => rfl

/-- no version token at the end ⇔ the generic branch fails -/
theorem generic_none_iff (s : Bytes) : parseVersionGeneric s.reverse = none ↔ ¬VersionTail s := by
  constructor
  · intro h ⟨p, ma, mi, e, hma, hmi⟩
    rw [e, generic_of hma hmi] at h
    simp at h
  · intro h
    cases hg : parseVersionGeneric s.reverse with
    | none => rfl
    | some v =>
      obtain ⟨maj, min, r4⟩ := v
      obtain ⟨ma, mi, hma, hmi, e, _⟩ := generic_ok hg
      exfalso
      apply h
      exact ⟨r4.reverse, ma, mi, by simpa using e, hma, hmi⟩

/-! ### the method the parser reports -/

theorem methods_shape : methods.head? = some GET ∧ getIndex = 0 ∧ methods.tail.contains GET = false := by decide

theorem findIdx_none {l : List Bytes} {p : Bytes → Bool} (h : l.findIdx? p = none) : l.find? p = none := by
  induction l with
  | nil => simp
  | cons x xs ih =>
    simp only [List.findIdx?_cons, List.find?_cons] at h ⊢
    by_cases hx : p x = true
    · simp [hx] at h
    · simp only [hx, Bool.false_eq_true, ↓reduceIte, Option.map_eq_none_iff] at h ⊢
      exact ih h

theorem findIdx_some {l : List Bytes} {p : Bytes → Bool} {i : Nat} (m : Bytes) (h : l.findIdx? p = some i) :
    l.find? p = some (l.getD i m) ∧ l.getD i m ∈ l := by
  induction l generalizing i with
  | nil => simp at h
  | cons x xs ih =>
    simp only [List.findIdx?_cons, List.find?_cons] at h ⊢
    by_cases hx : p x = true
    · simp only [hx, ↓reduceIte, Option.some.injEq] at h
      subst h
      simp [hx]
    · simp only [hx, Bool.false_eq_true, ↓reduceIte, Option.map_eq_some_iff] at h ⊢
      obtain ⟨j, hj, rfl⟩ := h
      obtain ⟨e1, e2⟩ := ih hj
      simp only [List.getD_cons_succ]
      exact ⟨e1, List.mem_cons_of_mem _ e2⟩

theorem methodImage_eq (r : Bool) (m : Bytes) : methodImage r m = canonMethod r m := by
  unfold methodImage methodLookup canonMethod
  have et : (fun k => caseEq k m && (true || k == m)) = (fun k => caseEq k m) := by funext k; simp
  cases hf : methods.findIdx? (fun k => caseEq k m && (r || k == m)) with
  | none =>
    have := findIdx_none hf
    cases r with
    | true => rw [et] at this; simp [this]
    | false => simp
  | some i =>
    obtain ⟨e1, _⟩ := findIdx_some m hf
    cases r with
    | true => rw [et] at e1; simp only [↓reduceIte, e1, Option.getD_some]
    | false =>
      have := List.find?_some e1
      simp only [Bool.false_or, Bool.and_eq_true, beq_iff_eq] at this
      simp only [Bool.false_eq_true, ↓reduceIte]
      exact this.2

theorem caseEq_refl (m : Bytes) : caseEq m m = true := by simp [caseEq]

theorem methodIsGet_eq (r : Bool) (m : Bytes) : methodIsGet r m = (canonMethod r m == GET) := by
  rw [← methodImage_eq]
  unfold methodIsGet methodImage methodLookup
  obtain ⟨h1, h2, h3⟩ := methods_shape
  rw [h2]
  cases hm : methods with
  | nil => rw [hm] at h1; simp at h1
  | cons x xs =>
    rw [hm] at h1 h3
    simp only [List.head?_cons, Option.some.injEq] at h1
    subst h1
    simp only [List.tail_cons] at h3
    simp only [List.findIdx?_cons]
    by_cases hp : (caseEq GET m && (r || GET == m)) = true
    · simp [hp]
    · simp only [hp, Bool.false_eq_true, ↓reduceIte]
      cases hf : xs.findIdx? (fun k => caseEq k m && (r || k == m)) with
      | none =>
        simp only [Option.map_none]
        have : ¬(m = GET) := by
          intro hh; subst hh; simp [caseEq_refl] at hp
        simp [this]
      | some i =>
        simp only [Option.map_some]
        obtain ⟨_, hmem⟩ := findIdx_some m hf
        have : xs.getD i m ≠ GET := by
          intro hh
          rw [hh] at hmem
          have := List.contains_iff_mem.2 hmem
          rw [h3] at this; simp at this
        rw [List.getD_cons_succ]
        have e : (some (i + 1) == some 0) = false := by simp
        rw [e]
        exact (beq_eq_false_iff_ne.2 this).symm

end SquidModel.Http1
