/-
History-level lemmas used by the C59 property theorems: what `cancel` removes, completeness of `runOnce`,
handler time under a forward-moving clock, and the evaluated witnesses.
-/
import SquidModel.Event.Inv

namespace SquidModel.Event

/-! ### cancel -/

/-- The events `cancel(f, a)` is meant to remove from the list `l`: the first match for a non-null argument,
every event of handler `f` for `nullptr`. -/
def IsTarget (f a : Nat) (l : List Ev) (e : Ev) : Prop :=
  if a ≠ 0 then l.find? (aimedAt f a) = some e else e ∈ l ∧ e.func = f

instance (f a : Nat) (l : List Ev) (e : Ev) : Decidable (IsTarget f a l e) := by
  unfold IsTarget; exact inferInstance

theorem target_mem {f a : Nat} {l : List Ev} {e : Ev} (h : IsTarget f a l e) : e ∈ l := by
  unfold IsTarget at h
  split at h
  · exact List.mem_of_find?_eq_some h
  · exact h.1

theorem find_not_mem_eraseP (p : Ev → Bool) (l : List Ev) (hn : (l.map (·.id)).Nodup) (e : Ev)
    (h : l.find? p = some e) : e ∉ l.eraseP p := by
  induction l with
  | nil => cases h
  | cons x xs ih =>
    rw [List.map_cons, List.nodup_cons] at hn
    rw [List.eraseP_cons]
    rw [List.find?_cons] at h
    cases hp : p x with
    | true =>
      rw [hp] at h
      simp only [Option.some.injEq] at h
      subst h
      simp only [cond_true]
      intro hm
      exact hn.1 (List.mem_map.mpr ⟨x, hm, rfl⟩)
    | false =>
      rw [hp] at h
      simp only [cond_false]
      intro hm
      rcases List.mem_cons.mp hm with rfl | hm
      · have := List.find?_some h
        rw [hp] at this; cases this
      · exact ih hn.2 h hm

theorem target_not_in_removeTargets {f a : Nat} {l : List Ev} {e : Ev} (hn : (l.map (·.id)).Nodup)
    (h : IsTarget f a l e) : e ∉ removeTargets f a l := by
  unfold IsTarget at h
  unfold removeTargets
  split at h
  · rename_i ha
    rw [if_pos ha]
    exact find_not_mem_eraseP _ l hn e h
  · rename_i ha
    rw [if_neg ha]
    intro hm
    have := (List.mem_filter.mp hm).2
    simp [aimedAt, h.2] at this

/-- Everything `cancel` is not aimed at is kept by `removeTargets`, in the same order. -/
theorem removeTargets_sublist (f a : Nat) (l : List Ev) : (removeTargets f a l).Sublist l := by
  unfold removeTargets
  split
  · exact List.eraseP_sublist
  · exact List.filter_sublist

/-- For a non-null argument exactly one entry goes when there is a match. -/
theorem removeTargets_length (f a : Nat) (ha : a ≠ 0) (l : List Ev) :
    (removeTargets f a l).length = if l.any (aimedAt f a) then l.length - 1 else l.length := by
  unfold removeTargets
  simp only [ne_eq, ha, not_false_eq_true, ↓reduceIte]
  exact List.length_eraseP

theorem cancelWith_frame (skip : Bool) (s : St) (f a : Nat) :
    (cancelWith skip s f a).1.queue = s.queue ∧ (cancelWith skip s f a).1.now = s.now ∧
    (cancelWith skip s f a).1.invalid = s.invalid ∧ (cancelWith skip s f a).1.nextId = s.nextId :=
  ⟨rfl, rfl, rfl, rfl⟩

theorem cancelWith_gone {s : St} (h : Inv s) (skip : Bool) (f a : Nat) (e : Ev)
    (ht : IsTarget f a s.tasks e) (hreg : skip = false ∨ a ≠ 0 ∨ noAdjacent f s.tasks = true) (ops : List Op) :
    (∀ x ∈ dequeuedIn (cancelWith skip s f a).1 ops, x.id ≠ e.id) ∧
    (∀ x ∈ firedIn (cancelWith skip s f a).1 ops, x.id ≠ e.id) := by
  have hn : (s.tasks.map (·.id)).Nodup := by
    have := h.nodup
    rw [List.map_append, List.nodup_append] at this
    exact this.1
  apply gone_never_again (s' := (cancelWith skip s f a).1) h e (target_mem ht) (cancelLoop_sublist skip f a false s.tasks) rfl rfl
  show e ∉ (cancelLoop skip f a false s.tasks).1
  rw [cancelLoop_exact skip f a s.tasks hreg]
  exact target_not_in_removeTargets hn ht

/-! ### completeness -/

/-- In a sorted list whose head is not due, nothing is due. -/
theorem not_due_of_head {l : List Ev} {now : Int} (hs : l.Pairwise Before) (h : timeRemainingOf l now ≠ 0) :
    ∀ x ∈ l, now < x.when := by
  cases l with
  | nil => intro x hx; cases hx
  | cons y r =>
    have hy : now < y.when := by
      by_cases h1 : y.when ≤ now
      · exact absurd (timeRemainingOf_eq_zero.mpr ⟨y, r, rfl, h1⟩) h
      · omega
    intro x hx
    rcases List.mem_cons.mp hx with rfl | hx
    · exact hy
    · have := ((List.pairwise_cons.mp hs).1 x hx).when_le
      omega

/-- `runOnce` dequeues every event that is due. -/
theorem runOnce_complete {s : St} (h : Inv s) : ∀ x ∈ s.tasks, x.when ≤ s.now → x ∈ (runOnce s).2.dequeued := by
  obtain ⟨h1, _, _, h4, _, _, h7, _⟩ := runOnce_spec s
  intro x hx hdue
  rw [← h1] at hx
  rcases List.mem_append.mp hx with hx | hx
  · exact hx
  · have hs : (runOnce s).1.tasks.Pairwise Before := by
      have : (runOnce s).1.tasks.Sublist s.tasks := by rw [← h1]; exact List.sublist_append_right _ _
      exact h.sorted.sublist this
    have := not_due_of_head hs h7 x hx
    rw [h4] at this
    omega

/-- `checkEvents` dequeues every due event unless it stopped behind a heavy one. -/
theorem checkEvents_complete {s : St} (h : Inv s) :
    (∃ e, (checkEvents s).2.2.getLast? = some e ∧ heavy s.invalid e = true) ∨
    (∀ x ∈ s.tasks, x.when ≤ s.now → x ∈ (checkEvents s).2.2) := by
  rcases checkEvents_stops s with hh | hn
  · exact Or.inl hh
  · right
    have h1 := checkEvents_prefix s
    have hfr := checkEvents_frame s
    intro x hx hdue
    rw [← h1] at hx
    rcases List.mem_append.mp hx with hx | hx
    · exact hx
    · have hs : (checkEvents s).1.tasks.Pairwise Before := by
        have : (checkEvents s).1.tasks.Sublist s.tasks := by rw [← h1]; exact List.sublist_append_right _ _
        exact h.sorted.sublist this
      have := not_due_of_head hs hn x hx
      rw [hfr.1] at this
      omega

/-! ### at most once -/

/-- An event dequeued by an operation is not dequeued again by any continuation of the history. -/
theorem dequeued_once {s : St} (h : Inv s) (op : Op) (e : Ev) (he : e ∈ (step s op).2.dequeued) (ops : List Op) :
    ∀ x ∈ dequeuedIn (step s op).1 ops, x.id ≠ e.id := by
  obtain ⟨hn, _, _, hd, _⟩ := step_origin s op
  have hes : e ∈ s.tasks := hd e he
  have hfresh := h.fresh e (List.mem_append_left _ hes)
  have hnd : (s.tasks.map (·.id)).Nodup := by
    have := h.nodup
    rw [List.map_append, List.nodup_append] at this
    exact this.1
  -- the list before is `dequeued ++ remaining`
  have hsplit : (step s op).2.dequeued ++ (step s op).1.tasks = s.tasks := by
    cases op with
    | check => exact checkEvents_prefix s
    | loop => exact (runOnce_spec s).1
    | clock d => exact absurd he List.not_mem_nil
    | sched f a d w c => exact absurd he List.not_mem_nil
    | cancel f a => exact absurd he List.not_mem_nil
    | dispatch => exact absurd he List.not_mem_nil
    | remaining => exact absurd he List.not_mem_nil
    | find f a => exact absurd he List.not_mem_nil
    | invalidate a => exact absurd he List.not_mem_nil
    | pending => exact absurd he List.not_mem_nil
  intro x hx hid
  rcases (later_origin (step s op).1 ops).1 x hx with hx | hx
  · have hxs : x ∈ s.tasks := by rw [← hsplit]; exact List.mem_append_right _ hx
    have hxe := eq_of_id_eq hnd hxs hes hid
    subst hxe
    rw [← hsplit, List.map_append, List.nodup_append] at hnd
    exact hnd.2.2 x.id (List.mem_map.mpr ⟨x, he, rfl⟩) x.id (List.mem_map.mpr ⟨x, hx, rfl⟩) rfl
  · omega

/-! ### handler time when the clock does not go back -/

/-- Operations that do not step the clock back. -/
def Op.forward : Op → Prop
  | .clock d => 0 ≤ d
  | _ => True

/-- Every queued call belongs to an event that is due. -/
def QueueDue (s : St) : Prop := ∀ e ∈ s.queue, e.when ≤ s.now

theorem queueDue_step {s : St} (h : QueueDue s) (op : Op) (hf : op.forward) : QueueDue (step s op).1 := by
  cases op with
  | clock d =>
    intro e he
    have := h e he
    simp only [Op.forward] at hf
    simp only [step, advance]
    omega
  | sched f a d w c => exact h
  | cancel f a => exact h
  | check =>
    intro e he
    simp only [step] at he ⊢
    rw [checkEvents_queue] at he
    rw [(checkEvents_frame s).1]
    rcases List.mem_append.mp he with he | he
    · exact h e he
    · exact checkEvents_due s e he
  | dispatch => intro e he; cases he
  | loop =>
    intro e he
    simp only [step] at he
    rw [(runOnce_spec s).2.2.2.2.2.2.2] at he
    cases he
  | remaining => exact h
  | find f a => exact h
  | invalidate a =>
    intro e he
    simp only [step, invalidate] at he ⊢
    split at he <;> split <;> exact h e he
  | pending => exact h

theorem fired_due {s : St} (h : QueueDue s) (op : Op) : ∀ e ∈ (step s op).2.fired, e.when ≤ s.now := by
  cases op with
  | dispatch =>
    intro e he
    simp only [step, dispatch, Obs.fired] at he
    exact h e (List.mem_filter.mp he).1
  | loop =>
    intro e he
    obtain ⟨_, h2, h3, _⟩ := runOnce_spec s
    simp only [step, Obs.fired] at he
    rw [h2] at he
    rcases List.mem_append.mp (List.mem_filter.mp he).1 with he | he
    · exact h e he
    · exact h3 e he
  | clock d => intro e he; exact absurd he List.not_mem_nil
  | sched f a d w c => intro e he; exact absurd he List.not_mem_nil
  | cancel f a => intro e he; exact absurd he List.not_mem_nil
  | check => intro e he; exact absurd he List.not_mem_nil
  | remaining => intro e he; exact absurd he List.not_mem_nil
  | find f a => intro e he; exact absurd he List.not_mem_nil
  | invalidate a => intro e he; exact absurd he List.not_mem_nil
  | pending => intro e he; exact absurd he List.not_mem_nil

theorem queueDue_exec {s : St} (h : QueueDue s) (ops : List Op) (hf : ∀ op ∈ ops, op.forward) : QueueDue (exec s ops) := by
  induction ops generalizing s with
  | nil => exact h
  | cons op ops ih =>
    exact ih (queueDue_step h op (hf op List.mem_cons_self)) (fun o ho => hf o (List.mem_cons_of_mem _ ho))

theorem queueDue_init : QueueDue init := by intro e he; cases he

/-! ### evaluated witnesses (independent of the regenerated flag) -/

/-- Three immediate events of handler 1. -/
def threeSame : List Op := [.sched 1 0 0 0 false, .sched 1 0 0 0 false, .sched 1 0 0 0 false]

/-- With the stepping-over loop the middle one of three equal-handler events survives `cancel(1, nullptr)`
and is dequeued and fired by the next `runOnce`. -/
theorem skip_witness :
    (⟨2, 1, 0, 0, 0, false⟩ : Ev) ∈ (exec init threeSame).tasks ∧
    (⟨2, 1, 0, 0, 0, false⟩ : Ev) ∈ (cancelWith true (exec init threeSame) 1 0).1.tasks ∧
    (⟨2, 1, 0, 0, 0, false⟩ : Ev) ∈ dequeuedIn (cancelWith true (exec init threeSame) 1 0).1 [.loop] ∧
    (⟨2, 1, 0, 0, 0, false⟩ : Ev) ∈ firedIn (cancelWith true (exec init threeSame) 1 0).1 [.loop] := by
  decide

/-- The repaired loop removes all three. -/
theorem fixed_witness : (cancelWith false (exec init threeSame) 1 0).1.tasks = [] := by decide

/-- A clock stepped back between `checkEvents` and the dispatch lets a handler run before its due time. -/
theorem clock_back_witness :
    (run init [.clock 100, .sched 1 1 10 0 false, .clock 10, .check, .clock (-5), .dispatch]).2.getLast? =
      some (.dispatched true [⟨1, 1, 1, 110, 0, false⟩]) ∧
    (exec init [.clock 100, .sched 1 1 10 0 false, .clock 10, .check, .clock (-5)]).now = 105 := by
  decide

end SquidModel.Event
