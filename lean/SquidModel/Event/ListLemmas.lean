/-
List-level facts about the scheduler model: the insertion loop of `schedule`, the unlink loop of `cancel`,
`timeRemaining` and the dequeue loop of `checkEvents`.
-/
import SquidModel.Event.Sched

namespace SquidModel.Event

/-- Firing order: earlier due time first, equal due times in scheduling (`id`) order. -/
def Before (a b : Ev) : Prop := a.when < b.when ∨ (a.when = b.when ∧ a.id < b.id)

instance (a b : Ev) : Decidable (Before a b) := by unfold Before; exact inferInstance

theorem Before.when_le {a b : Ev} (h : Before a b) : a.when ≤ b.when := by
  unfold Before at h; omega

/-! ### insert -/

theorem insert_perm (e : Ev) (l : List Ev) : (insert e l).Perm (e :: l) := by
  induction l with
  | nil => exact List.Perm.refl _
  | cons x xs ih =>
    simp only [insert]
    split
    · exact List.Perm.refl _
    · exact (List.Perm.cons x ih).trans (List.Perm.swap e x xs)

theorem mem_insert {e x : Ev} {l : List Ev} : x ∈ insert e l ↔ x = e ∨ x ∈ l := by
  rw [(insert_perm e l).mem_iff, List.mem_cons]

/-- Inserting an event whose id is larger than every id in a sorted list keeps the list sorted:
the new entry lands behind every entry with the same or an earlier time. -/
theorem insert_sorted (e : Ev) (l : List Ev) (hs : l.Pairwise Before) (hid : ∀ x ∈ l, x.id < e.id) :
    (insert e l).Pairwise Before := by
  induction l with
  | nil => simp [insert]
  | cons x xs ih =>
    have hx := List.pairwise_cons.mp hs
    simp only [insert]
    split
    · rename_i hgt
      refine List.pairwise_cons.mpr ⟨?_, hs⟩
      intro y hy
      rcases List.mem_cons.mp hy with rfl | hy
      · exact Or.inl hgt
      · have := (hx.1 y hy).when_le
        exact Or.inl (by omega)
    · rename_i hle
      refine List.pairwise_cons.mpr ⟨?_, ih hx.2 (fun y hy => hid y (List.mem_cons_of_mem _ hy))⟩
      intro y hy
      rcases mem_insert.mp hy with rfl | hy
      · have := hid x List.mem_cons_self
        unfold Before; omega
      · exact hx.1 y hy

/-- The new entry sits behind all entries that are not later, in front of all later ones. -/
theorem insert_split (e : Ev) (l : List Ev) :
    ∃ l₁ l₂, l = l₁ ++ l₂ ∧ insert e l = l₁ ++ e :: l₂ ∧ (∀ x ∈ l₁, x.when ≤ e.when) ∧
      (∀ y, l₂.head? = some y → e.when < y.when) := by
  induction l with
  | nil => exact ⟨[], [], rfl, rfl, by simp, by simp⟩
  | cons x xs ih =>
    simp only [insert]
    split
    · rename_i hgt
      exact ⟨[], x :: xs, rfl, rfl, by simp, by intro y hy; simp at hy; subst hy; exact hgt⟩
    · rename_i hle
      obtain ⟨l₁, l₂, h1, h2, h3, h4⟩ := ih
      refine ⟨x :: l₁, l₂, by rw [h1]; rfl, by rw [h2]; rfl, ?_, h4⟩
      intro y hy
      rcases List.mem_cons.mp hy with rfl | hy
      · omega
      · exact h3 y hy

/-! ### cancel -/

/-- What `cancel(f, a)` is aimed at. -/
def aimedAt (f a : Nat) (e : Ev) : Bool := e.func == f && (a == 0 || e.arg == a)

theorem cancelLoop_sublist (skip : Bool) (f a : Nat) (so : Bool) (l : List Ev) :
    (cancelLoop skip f a so l).1.Sublist l := by
  induction l generalizing so with
  | nil => simp [cancelLoop]
  | cons ev rest ih =>
    unfold cancelLoop
    split
    · exact (ih false).cons_cons ev
    · split
      · exact (ih false).cons_cons ev
      · split
        · exact (ih false).cons_cons ev
        · split
          · exact List.sublist_cons_self ev rest
          · exact (ih skip).cons ev

/-- Whatever the loop does, an event it is not aimed at stays in the list. -/
theorem cancelLoop_keeps (skip : Bool) (f a : Nat) (so : Bool) (l : List Ev) (x : Ev)
    (hx : x ∈ l) (hn : aimedAt f a x = false) : x ∈ (cancelLoop skip f a so l).1 := by
  induction l generalizing so with
  | nil => cases hx
  | cons ev rest ih =>
    unfold cancelLoop
    rcases List.mem_cons.mp hx with rfl | hx
    · split
      · exact List.mem_cons_self
      · split
        · exact List.mem_cons_self
        · split
          · exact List.mem_cons_self
          · rename_i h1 h2 h3
            exfalso
            simp only [aimedAt, Bool.and_eq_false_iff, Bool.or_eq_false_iff, beq_eq_false_iff_ne, ne_eq] at hn
            simp only [ne_eq, Decidable.not_not] at h2
            simp only [ne_eq, not_and, Decidable.not_not] at h3
            rcases hn with hn | hn
            · exact hn h2
            · exact hn.2 (h3 hn.1)
    · split
      · exact List.mem_cons_of_mem _ (ih false hx)
      · split
        · exact List.mem_cons_of_mem _ (ih false hx)
        · split
          · exact List.mem_cons_of_mem _ (ih false hx)
          · split
            · exact hx
            · exact ih skip hx

/-- `cancel(f, a)` with a non-null argument: exactly the first matching entry goes, and the function
returns from inside the loop iff there was one. Holds for the loop as written and for the repaired one. -/
theorem cancelLoop_arg (skip : Bool) (f a : Nat) (ha : a ≠ 0) (l : List Ev) :
    cancelLoop skip f a false l = (l.eraseP (aimedAt f a), l.any (aimedAt f a)) := by
  induction l with
  | nil => simp [cancelLoop]
  | cons ev rest ih =>
    unfold cancelLoop
    simp only [Bool.false_eq_true, ↓reduceIte, List.eraseP_cons, List.any_cons]
    split
    · rename_i h1
      have : aimedAt f a ev = false := by simp [aimedAt, h1]
      rw [ih, this]; rfl
    · rename_i h1
      split
      · rename_i h2
        have : aimedAt f a ev = false := by
          simp only [aimedAt, Bool.and_eq_false_iff, Bool.or_eq_false_iff, beq_eq_false_iff_ne, ne_eq]
          exact Or.inr ⟨ha, h2.2⟩
        rw [ih, this]; rfl
      · rename_i h2
        have : aimedAt f a ev = true := by
          simp only [ne_eq, Decidable.not_not] at h1
          simp only [ne_eq, not_and, Decidable.not_not] at h2
          simp [aimedAt, h1, h2 ha]
        simp [ha, this]

/-- `cancel(f, nullptr)` without the stepping-over: every entry of handler `f` goes. -/
theorem cancelLoop_null_fixed (f : Nat) (l : List Ev) :
    cancelLoop false f 0 false l = (l.filter (fun e => !aimedAt f 0 e), false) := by
  induction l with
  | nil => simp [cancelLoop]
  | cons ev rest ih =>
    unfold cancelLoop
    simp only [Bool.false_eq_true, ↓reduceIte, ne_eq, not_true_eq_false, false_and, List.filter_cons]
    split
    · rename_i h1
      have : aimedAt f 0 ev = false := by simp [aimedAt, h1]
      rw [ih, this]; rfl
    · rename_i h1
      have : aimedAt f 0 ev = true := by
        simp only [ne_eq, Decidable.not_not] at h1
        simp [aimedAt, h1]
      rw [ih, this]; rfl

/-- No two neighbours of the list both have handler `f`. -/
def noAdjacent (f : Nat) : List Ev → Bool
  | [] => true
  | [_] => true
  | x :: y :: r => !(x.func == f && y.func == f) && noAdjacent f (y :: r)

/-- `cancel(f, nullptr)` as written (stepping over the successor of a removed node) still removes every
entry of handler `f` when no two of them are neighbours. -/
theorem cancelLoop_null_skip_noAdjacent (f : Nat) (so : Bool) (l : List Ev) (hadj : noAdjacent f l = true)
    (hso : so = true → ∀ x, l.head? = some x → x.func ≠ f) :
    cancelLoop true f 0 so l = (l.filter (fun e => !aimedAt f 0 e), false) := by
  induction l generalizing so with
  | nil => simp [cancelLoop]
  | cons ev rest ih =>
    have hadj' : noAdjacent f rest = true := by
      cases rest with
      | nil => rfl
      | cons y r => simp only [noAdjacent, Bool.and_eq_true] at hadj; exact hadj.2
    unfold cancelLoop
    simp only [ne_eq, not_true_eq_false, false_and, ↓reduceIte, List.filter_cons]
    split
    · rename_i hs
      have hne := hso hs ev rfl
      have : aimedAt f 0 ev = false := by simp [aimedAt, hne]
      rw [ih false hadj' (by intro h; cases h), this]; rfl
    · split
      · rename_i h1
        have : aimedAt f 0 ev = false := by simp [aimedAt, h1]
        rw [ih false hadj' (by intro h; cases h), this]; rfl
      · rename_i h1
        simp only [ne_eq, Decidable.not_not] at h1
        have : aimedAt f 0 ev = true := by simp [aimedAt, h1]
        rw [ih true hadj' ?_, this]; rfl
        intro _ x hx
        cases rest with
        | nil => cases hx
        | cons y r =>
          simp only [List.head?_cons, Option.some.injEq] at hx
          subst hx
          simp only [noAdjacent, Bool.and_eq_true, Bool.not_eq_true', Bool.and_eq_false_iff,
            beq_eq_false_iff_ne, ne_eq] at hadj
          rcases hadj.1 with h | h
          · exact absurd h1 h
          · exact h

/-- What `cancel(f, a)` is meant to leave: everything but the first match (`a ≠ nullptr`),
everything but the events of handler `f` (`a = nullptr`). -/
def removeTargets (f a : Nat) (l : List Ev) : List Ev :=
  if a ≠ 0 then l.eraseP (aimedAt f a) else l.filter (fun e => !aimedAt f 0 e)

theorem cancelLoop_exact (skip : Bool) (f a : Nat) (l : List Ev)
    (h : skip = false ∨ a ≠ 0 ∨ noAdjacent f l = true) :
    (cancelLoop skip f a false l).1 = removeTargets f a l := by
  unfold removeTargets
  by_cases ha : a = 0
  · subst ha
    simp only [ne_eq, not_true_eq_false, ↓reduceIte]
    cases skip with
    | false => rw [cancelLoop_null_fixed]
    | true =>
      rcases h with h | h | h
      · cases h
      · exact absurd rfl h
      · rw [cancelLoop_null_skip_noAdjacent f false l h (by intro h; cases h)]
  · simp only [ne_eq, ha, not_false_eq_true, ↓reduceIte]
    rw [cancelLoop_arg skip f a ha]

/-! ### timeRemaining -/

theorem timeRemainingOf_eq_zero {l : List Ev} {now : Int} :
    timeRemainingOf l now = 0 ↔ ∃ e r, l = e :: r ∧ e.when ≤ now := by
  cases l with
  | nil => simp [timeRemainingOf, EVENT_IDLE]
  | cons e r =>
    simp only [timeRemainingOf]
    split
    · rename_i h; simp [h]
    · rename_i h
      constructor
      · intro h0; omega
      · rintro ⟨e', r', heq, hle⟩
        simp only [List.cons.injEq] at heq
        rw [← heq.1] at hle; exact absurd hle h

/-- idle (−1) iff nothing is scheduled; 0 iff the head is due; otherwise the least whole number of milliseconds
(at least 1) that does not end before the head's time: `125 d / 128` ms for `d` ticks. -/
theorem timeRemainingOf_spec (l : List Ev) (now : Int) :
    (l = [] ∧ timeRemainingOf l now = -1) ∨
    (∃ e r, l = e :: r ∧ e.when ≤ now ∧ timeRemainingOf l now = 0) ∨
    (∃ e r, l = e :: r ∧ now < e.when ∧ 1 ≤ timeRemainingOf l now ∧
       125 * (e.when - now) ≤ 128 * timeRemainingOf l now ∧
       128 * (timeRemainingOf l now - 1) < 125 * (e.when - now)) := by
  cases l with
  | nil => left; simp [timeRemainingOf, EVENT_IDLE]
  | cons e r =>
    right
    by_cases h : e.when ≤ now
    · left; exact ⟨e, r, rfl, h, by simp [timeRemainingOf, h]⟩
    · right
      refine ⟨e, r, rfl, by omega, ?_⟩
      simp only [timeRemainingOf, h, ↓reduceIte]
      omega

/-- The `int` conversion of `timeRemaining` is defined when the head is at most `2^31 - 1` ms away. -/
theorem timeRemainingOf_fits (l : List Ev) (now : Int)
    (h : ∀ e r, l = e :: r → 125 * (e.when - now) ≤ 128 * 2147483647) :
    -1 ≤ timeRemainingOf l now ∧ timeRemainingOf l now ≤ 2147483647 := by
  cases l with
  | nil => simp [timeRemainingOf, EVENT_IDLE]
  | cons e r =>
    have := h e r rfl
    simp only [timeRemainingOf]
    split <;> omega

/-! ### the dequeue loop of checkEvents -/

theorem checkLoop_append (now : Int) (inv : List Nat) (l : List Ev) :
    (checkLoop now inv l).1 ++ (checkLoop now inv l).2 = l := by
  induction l with
  | nil => rfl
  | cons e rest ih =>
    simp only [checkLoop]
    split
    · rfl
    · split
      · simp [ih]
      · rfl

theorem checkLoop_nonempty (now : Int) (inv : List Nat) (e : Ev) (rest : List Ev) :
    (checkLoop now inv (e :: rest)).1 ≠ [] := by
  simp only [checkLoop]
  split
  · simp
  · split <;> simp

/-- Entered with a due head, the loop only dequeues due events. -/
theorem checkLoop_due (now : Int) (inv : List Nat) (l : List Ev) (h0 : timeRemainingOf l now = 0) :
    ∀ e ∈ (checkLoop now inv l).1, e.when ≤ now := by
  induction l with
  | nil => intro e he; cases he
  | cons x rest ih =>
    obtain ⟨e', r', heq, hle⟩ := timeRemainingOf_eq_zero.mp h0
    simp only [List.cons.injEq] at heq
    have hx : x.when ≤ now := by rw [heq.1]; exact hle
    simp only [checkLoop]
    split
    · intro e he; simp only [List.mem_singleton] at he; subst he; exact hx
    · split
      · rename_i h1
        intro e he
        rcases List.mem_cons.mp he with rfl | he
        · exact hx
        · exact ih h1 e he
      · intro e he; simp only [List.mem_singleton] at he; subst he; exact hx

/-- The loop stops only behind a heavy event or when the next event is not due (or nothing is left). -/
theorem checkLoop_stops (now : Int) (inv : List Nat) (l : List Ev) (hl : l ≠ []) :
    (∃ e, (checkLoop now inv l).1.getLast? = some e ∧ heavy inv e = true) ∨
      timeRemainingOf (checkLoop now inv l).2 now ≠ 0 := by
  induction l with
  | nil => exact absurd rfl hl
  | cons x rest ih =>
    simp only [checkLoop]
    split
    · rename_i hh; left; exact ⟨x, rfl, hh⟩
    · split
      · rename_i h1
        have hr : rest ≠ [] := by
          obtain ⟨e', r', heq, _⟩ := timeRemainingOf_eq_zero.mp h1
          rw [heq]; simp
        rcases ih hr with ⟨e, he, hh⟩ | h
        · left
          refine ⟨e, ?_, hh⟩
          have hne := checkLoop_nonempty now inv
          cases hc : (checkLoop now inv rest).1 with
          | nil => rw [hc] at he; cases he
          | cons y ys => rw [hc] at he; simpa [List.getLast?_cons_cons] using he
        · right; exact h
      · rename_i h1; right; exact h1

/-- Nothing behind a non-heavy dequeued event is skipped: all dequeued events but the last are not heavy. -/
theorem checkLoop_heavy_last (now : Int) (inv : List Nat) (l : List Ev) :
    ∀ e ∈ (checkLoop now inv l).1.dropLast, heavy inv e = false := by
  induction l with
  | nil => intro e he; cases he
  | cons x rest ih =>
    simp only [checkLoop]
    split
    · intro e he; cases he
    · rename_i hh
      split
      · intro e he
        cases hc : (checkLoop now inv rest).1 with
        | nil => rw [hc] at he; cases he
        | cons y ys =>
          rw [hc] at he ih
          simp only [List.dropLast_cons_cons, List.mem_cons] at he
          rcases he with rfl | he
          · simpa using hh
          · exact ih e he
      · intro e he; cases he

end SquidModel.Event
