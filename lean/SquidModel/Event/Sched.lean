/-
Model of Squid's timed-event scheduler: `EventScheduler` (src/event.cc), the part of `AsyncCallQueue::fire`
and `EventDialer::canDial` its calls go through, and `EventLoop::runOnce` (src/EventLoop.cc) with the scheduler
registered as an ordinary engine next to an idle primary engine.

Times are integers in ticks of 1/1024 s (`current_dtime = now/1024`, `when = delta/1024`): all doubles the code
computes from such values are exact, so `Int` arithmetic is the C++ arithmetic.
`func` and `arg` are small numbers standing for the handler and the `void *` (0 = nullptr).
Core Lean only (the driver links this file).
-/
import SquidModel.Gen.EventCfg

namespace SquidModel.Event

/-- `ev_entry` (event.h). `id` is the position of the `schedule` call in the history (the harness puts it in `name`). -/
structure Ev where
  id : Nat
  func : Nat
  arg : Nat
  when : Int
  weight : Int
  cbdata : Bool
deriving DecidableEq, Repr

/-- Scheduler + the bits of its environment the code reads. -/
structure St where
  /-- `EventScheduler::tasks`, head first -/
  tasks : List Ev
  /-- `current_dtime` in ticks -/
  now : Int
  /-- cbdata objects that have been freed (`cbdataReferenceValid` is false for them) -/
  invalid : List Nat
  /-- calls sitting in the `AsyncCallQueue` (an `EventDialer` carries func, arg and cbdata of its event) -/
  queue : List Ev
  /-- number of `schedule` calls so far + 1 -/
  nextId : Nat
deriving DecidableEq, Repr

def init : St := { tasks := [], now := 0, invalid := [], queue := [], nextId := 1 }

/-- `cbdataReferenceValid(p)`: a null pointer is always valid. -/
def validArg (invalid : List Nat) (a : Nat) : Bool := a == 0 || !invalid.contains a

/-! ### schedule -/

/-- The insertion loop of `EventScheduler::schedule`: stop at the first entry with a later time
("insert after the last event with the same or earlier time"). -/
def insert (e : Ev) : List Ev → List Ev
  | [] => [e]
  | x :: xs => if x.when > e.when then e :: x :: xs else x :: insert e xs

/-- `const double timestamp = when > 0.0 ? current_dtime + when : 0;` -/
def timestamp (now delta : Int) : Int := if delta > 0 then now + delta else 0

def schedule (s : St) (func arg : Nat) (delta weight : Int) (cbdata : Bool) : St :=
  { s with tasks := insert ⟨s.nextId, func, arg, timestamp s.now delta, weight, cbdata⟩ s.tasks,
           nextId := s.nextId + 1 }

/-! ### cancel -/

/-- The loop of `EventScheduler::cancel(func, arg)`; the list argument is what `*E` points at.
`skip` = "the `for` increment `E = &(*E)->next` also runs after a node was unlinked" (the code as written);
`stepOver` = that increment is pending: the node now at `*E` is passed without being examined.
Returns the new suffix and whether the function returned from inside the loop (the final `debug_trap` is not reached). -/
def cancelLoop (skip : Bool) (f a : Nat) : Bool → List Ev → List Ev × Bool
  | _, [] => ([], false)                      -- loop condition fails / `if (nullptr == *E) break;`
  | stepOver, ev :: rest =>
    if stepOver then                          -- E = &(*E)->next after an unlink
      let r := cancelLoop skip f a false rest; (ev :: r.1, r.2)
    else if ev.func ≠ f then                  -- continue
      let r := cancelLoop skip f a false rest; (ev :: r.1, r.2)
    else if a ≠ 0 ∧ ev.arg ≠ a then           -- continue
      let r := cancelLoop skip f a false rest; (ev :: r.1, r.2)
    else                                      -- *E = event->next; delete event;
      if a ≠ 0 then (rest, true)              -- return
      else cancelLoop skip f a skip rest

/-- `cancel`: new state and "debug_trap was called" (`if (arg) debug_trap(...)` after the loop). -/
def cancelWith (skip : Bool) (s : St) (f a : Nat) : St × Bool :=
  let r := cancelLoop skip f a false s.tasks
  ({ s with tasks := r.1 }, a ≠ 0 && !r.2)

def cancel (s : St) (f a : Nat) : St × Bool := cancelWith Gen.EventCfg.cancelSkipsSuccessor s f a

/-! ### timeRemaining / checkEvents -/

def EVENT_IDLE : Int := -1

/-- `EventScheduler::timeRemaining` for the list `tasks`: with `diff = d/1024` s the value `ceil(1000*diff)`
is `ceil(125 d / 128)`. (The conversion to `int` is assumed to fit: `d < 2^31` ms.) -/
def timeRemainingOf (tasks : List Ev) (now : Int) : Int :=
  match tasks with
  | [] => EVENT_IDLE
  | e :: _ =>
    if e.when ≤ now then 0
    else max 1 ((125 * (e.when - now) + 127) / 128)

def timeRemaining (s : St) : Int := timeRemainingOf s.tasks s.now

/-- `heavy = event->weight && (!event->cbdata || cbdataReferenceValid(event->arg))` -/
def heavy (invalid : List Nat) (e : Ev) : Bool := e.weight != 0 && (!e.cbdata || validArg invalid e.arg)

/-- The `do … while (result == 0)` loop of `checkEvents`, entered with a non-empty list whose head is due:
returns the dequeued events (one `ScheduleCallHere` each, in this order) and the remaining list. -/
def checkLoop (now : Int) (invalid : List Nat) : List Ev → List Ev × List Ev
  | [] => ([], [])                               -- assert(event): not reachable, see `checkEvents`
  | e :: rest =>
    if heavy invalid e then ([e], rest)          -- break
    else if timeRemainingOf rest now = 0 then
      let r := checkLoop now invalid rest; (e :: r.1, r.2)
    else ([e], rest)

/-- `checkEvents`: new state, return value, events dequeued by this call. -/
def checkEvents (s : St) : St × Int × List Ev :=
  if timeRemaining s ≠ 0 then (s, timeRemaining s, [])
  else
    let r := checkLoop s.now s.invalid s.tasks
    let s' := { s with tasks := r.2, queue := s.queue ++ r.1 }
    (s', timeRemaining s', r.1)

/-! ### AsyncCallQueue::fire with EventDialer::canDial -/

/-- `canDial`: a call whose argument is locked cbdata that became invalid is cancelled instead of made. -/
def canDial (invalid : List Nat) (e : Ev) : Bool := !(e.cbdata && !validArg invalid e.arg)

/-- `AsyncCallQueue::fire`: new state, "made" (the queue was not empty), handlers run (in this order). -/
def dispatch (s : St) : St × Bool × List Ev :=
  ({ s with queue := [] }, !s.queue.isEmpty, s.queue.filter (canDial s.invalid))

/-! ### EventLoop::runOnce -/

def EVENT_LOOP_TIMEOUT : Int := 1000

structure LoopOut where
  /-- return value of `runOnce` (`runOnceResult`) -/
  result : Bool
  /-- `loop_delay` handed to the primary engine -/
  delay : Int
  dequeued : List Ev
  fired : List Ev
deriving DecidableEq, Repr

/-- `checkEngine(scheduler, false)`: a negative answer is EVENT_IDLE here (the scheduler never answers EVENT_ERROR);
any other answer means the loop is not idle and may have to wait less. -/
def LoopOut.afterCheck (o : LoopOut) (r : Int) (dq : List Ev) : LoopOut :=
  if r < 0 then { o with dequeued := o.dequeued ++ dq }
  else { o with result := false, delay := if r < o.delay then r else o.delay, dequeued := o.dequeued ++ dq }

/-- `sawActivity = dispatchCalls(); if (sawActivity) runOnceResult = false;` -/
def LoopOut.afterDispatch (o : LoopOut) (made : Bool) (fd : List Ev) : LoopOut :=
  { o with fired := o.fired ++ fd, result := if made then false else o.result }

/-- One pass of `do { checkEngine(scheduler); sawActivity = dispatchCalls(); } while (sawActivity);`:
new state, `sawActivity`, new bookkeeping. -/
def loopPass (s : St) (o : LoopOut) : St × Bool × LoopOut :=
  let c := checkEvents s
  let d := dispatch c.1
  (d.1, d.2.1, (o.afterCheck c.2.1 c.2.2).afterDispatch d.2.1 d.2.2)

/-- The `do … while (sawActivity)` loop. `fuel` only makes the recursion structural; `runOnce` supplies enough
(see `loopBody_spec` in Inv.lean). -/
def loopBody : Nat → St → LoopOut → St × LoopOut
  | 0, s, o => (s, o)
  | fuel + 1, s, o =>
    let p := loopPass s o
    if p.2.1 then loopBody fuel p.1 p.2.2 else (p.1, p.2.2)

/-- `EventLoop::runOnce()`; the primary engine (checked last, with `loop_delay`) is idle and schedules nothing. -/
def runOnce (s : St) : St × LoopOut :=
  loopBody (s.tasks.length + 2) s { result := true, delay := EVENT_LOOP_TIMEOUT, dequeued := [], fired := [] }

/-! ### find, clock, cbdata -/

/-- `EventScheduler::find` -/
def find (s : St) (f a : Nat) : Bool := s.tasks.any (fun e => e.func == f && e.arg == a)

def advance (s : St) (d : Int) : St := { s with now := s.now + d }

def invalidate (s : St) (a : Nat) : St := if s.invalid.contains a then s else { s with invalid := a :: s.invalid }

/-! ### histories -/

inductive Op where
  | clock (d : Int)
  | sched (func arg : Nat) (delta weight : Int) (cbdata : Bool)
  | cancel (func arg : Nat)
  | check
  | dispatch
  | loop
  | remaining
  | find (func arg : Nat)
  | invalidate (arg : Nat)
  | pending
deriving DecidableEq, Repr

/-- What an operation lets the caller observe. -/
inductive Obs where
  | none
  | scheduled (id : Nat)
  | cancelled (trap : Bool)
  | checked (ret : Int) (dequeued : List Ev)
  | dispatched (made : Bool) (fired : List Ev)
  | looped (o : LoopOut)
  | remaining (ms : Int)
  | found (b : Bool)
  | pending (l : List Ev)
deriving DecidableEq, Repr

def step (s : St) : Op → St × Obs
  | .clock d => (advance s d, .none)
  | .sched f a d w c => (schedule s f a d w c, .scheduled s.nextId)
  | .cancel f a => let r := cancel s f a; (r.1, .cancelled r.2)
  | .check => let r := checkEvents s; (r.1, .checked r.2.1 r.2.2)
  | .dispatch => let r := dispatch s; (r.1, .dispatched r.2.1 r.2.2)
  | .loop => let r := runOnce s; (r.1, .looped r.2)
  | .remaining => (s, .remaining (timeRemaining s))
  | .find f a => (s, .found (find s f a))
  | .invalidate a => (invalidate s a, .none)
  | .pending => (s, .pending s.tasks)

def run (s : St) : List Op → St × List Obs
  | [] => (s, [])
  | op :: ops =>
    let r := step s op
    let q := run r.1 ops
    (q.1, r.2 :: q.2)

/-- State after a history. -/
def exec (s : St) (ops : List Op) : St := (run s ops).1

end SquidModel.Event
