/-
State-level facts: checkEvents, dispatch, runOnce; the invariant of reachable states; what later histories can fire.
-/
import SquidModel.Event.ListLemmas

namespace SquidModel.Event

/-! ### checkEvents -/

theorem checkEvents_prefix (s : St) : (checkEvents s).2.2 ++ (checkEvents s).1.tasks = s.tasks := by
  unfold checkEvents
  split
  · rfl
  · exact checkLoop_append _ _ _

theorem checkEvents_queue (s : St) : (checkEvents s).1.queue = s.queue ++ (checkEvents s).2.2 := by
  unfold checkEvents
  split
  · simp
  · rfl

theorem checkEvents_frame (s : St) :
    (checkEvents s).1.now = s.now ∧ (checkEvents s).1.invalid = s.invalid ∧ (checkEvents s).1.nextId = s.nextId := by
  unfold checkEvents
  split <;> exact ⟨rfl, rfl, rfl⟩

theorem checkEvents_ret (s : St) : (checkEvents s).2.1 = timeRemaining (checkEvents s).1 := by
  unfold checkEvents
  split <;> rfl

theorem checkEvents_due (s : St) : ∀ e ∈ (checkEvents s).2.2, e.when ≤ s.now := by
  unfold checkEvents
  split
  · intro e he; cases he
  · rename_i h
    simp only [ne_eq, Decidable.not_not] at h
    exact checkLoop_due s.now s.invalid s.tasks h

/-- No dequeue at all happens only when nothing is due. -/
theorem checkEvents_none (s : St) (h : (checkEvents s).2.2 = []) : timeRemaining s ≠ 0 := by
  intro h0
  unfold checkEvents at h
  simp only [h0, ne_eq, not_true_eq_false, ↓reduceIte] at h
  obtain ⟨e, r, heq, _⟩ := timeRemainingOf_eq_zero.mp h0
  rw [heq] at h
  exact checkLoop_nonempty _ _ _ _ h

/-- checkEvents stops only behind a heavy event or when nothing more is due. -/
theorem checkEvents_stops (s : St) :
    (∃ e, (checkEvents s).2.2.getLast? = some e ∧ heavy s.invalid e = true) ∨ timeRemaining (checkEvents s).1 ≠ 0 := by
  unfold checkEvents
  split
  · rename_i h; right; exact h
  · rename_i h
    simp only [ne_eq, Decidable.not_not] at h
    have hl : s.tasks ≠ [] := by
      obtain ⟨e, r, heq, _⟩ := timeRemainingOf_eq_zero.mp h
      rw [heq]; simp
    exact checkLoop_stops s.now s.invalid s.tasks hl

/-! ### dispatch -/

theorem dispatch_frame (s : St) :
    (dispatch s).1.tasks = s.tasks ∧ (dispatch s).1.now = s.now ∧ (dispatch s).1.invalid = s.invalid ∧
    (dispatch s).1.nextId = s.nextId ∧ (dispatch s).1.queue = [] := ⟨rfl, rfl, rfl, rfl, rfl⟩

/-! ### runOnce -/

/-- One pass of the runOnce loop in terms of the lists. -/
theorem loopBody_spec (fuel : Nat) (s : St) (o : LoopOut) :
    let r := loopBody fuel s o
    (∃ dq, r.2.dequeued = o.dequeued ++ dq ∧ dq ++ r.1.tasks = s.tasks ∧
      (fuel ≠ 0 → r.2.fired = o.fired ++ (s.queue ++ dq).filter (canDial s.invalid)) ∧
      (∀ e ∈ dq, e.when ≤ s.now)) ∧
    r.1.now = s.now ∧ r.1.invalid = s.invalid ∧ r.1.nextId = s.nextId ∧
    (s.tasks.length + 1 + (if s.queue = [] then 0 else 1) ≤ fuel → timeRemaining r.1 ≠ 0 ∧ r.1.queue = []) := by
  induction fuel generalizing s o with
  | zero =>
    simp only [loopBody]
    refine ⟨⟨[], by simp, by simp, by simp, by simp⟩, rfl, rfl, rfl, ?_⟩
    intro h; omega
  | succ fuel ih =>
    have hpre := checkEvents_prefix s
    have hq := checkEvents_queue s
    have hfr := checkEvents_frame s
    have hdue := checkEvents_due s
    simp only [loopBody]
    generalize hce : checkEvents s = ce at hpre hq hfr hdue
    obtain ⟨s1, r, dq⟩ := ce
    simp only at hpre hq hfr hdue
    simp only [dispatch]
    split
    · -- made: the queue was not empty, go round again
      rename_i hmade
      generalize ho2 : ({ (if r < 0 then { o with dequeued := o.dequeued ++ dq }
          else { o with result := false, delay := if r < o.delay then r else o.delay, dequeued := o.dequeued ++ dq } : LoopOut) with
          fired := (if r < 0 then { o with dequeued := o.dequeued ++ dq }
            else { o with result := false, delay := if r < o.delay then r else o.delay, dequeued := o.dequeued ++ dq } : LoopOut).fired
              ++ s1.queue.filter (canDial s1.invalid),
          result := if (!s1.queue.isEmpty) = true then false else (if r < 0 then { o with dequeued := o.dequeued ++ dq }
            else { o with result := false, delay := if r < o.delay then r else o.delay, dequeued := o.dequeued ++ dq } : LoopOut).result } : LoopOut) = o2
      have ho2d : o2.dequeued = o.dequeued ++ dq := by rw [← ho2]; split <;> rfl
      have ho2f : o2.fired = o.fired ++ s1.queue.filter (canDial s1.invalid) := by rw [← ho2]; split <;> rfl
      have := ih { s1 with queue := [] } o2
      simp only at this
      obtain ⟨⟨dq', h1, h2, h3, h4⟩, h5, h6, h7, h8⟩ := this
      refine ⟨⟨dq ++ dq', ?_, ?_, ?_, ?_⟩, ?_, ?_, ?_, ?_⟩
      · rw [h1, ho2d, List.append_assoc]
      · rw [List.append_assoc, h2]; exact hpre
      · intro _
        by_cases hf : fuel = 0
        · subst hf
          simp only [loopBody] at h2 ⊢
          have : dq' = [] := by
            have := congrArg List.length h2
            simp only [List.length_append] at this
            exact List.eq_nil_of_length_eq_zero (by omega)
          subst this
          rw [ho2f, hq, hfr.2.1]; simp
        · rw [h3 hf, ho2f, hq, hfr.2.1]
          simp [List.filter_append, List.append_assoc]
      · intro e he
        rcases List.mem_append.mp he with he | he
        · exact hdue e he
        · have := h4 e he; rw [hfr.1] at this; exact this
      · rw [h5]; exact hfr.1
      · rw [h6]; exact hfr.2.1
      · rw [h7]; exact hfr.2.2
      · intro hfuel
        apply h8
        simp only [↓reduceIte]
        have hlen := congrArg List.length hpre
        simp only [List.length_append] at hlen
        by_cases hdq : dq = []
        · subst hdq
          have hsq : s.queue ≠ [] := by
            intro h
            rw [hq, h] at hmade
            simp at hmade
          simp only [hsq, ↓reduceIte] at hfuel
          simp only [List.length_nil] at hlen
          omega
        · have : 0 < dq.length := List.length_pos_iff.mpr hdq
          split at hfuel <;> omega
    · -- nothing was queued: the loop ends
      rename_i hmade
      have hs1q : s1.queue = [] := by
        cases hc : s1.queue with
        | nil => rfl
        | cons a b => rw [hc] at hmade; simp at hmade
      have hsq : s.queue = [] ∧ dq = [] := by
        rw [hq] at hs1q
        exact List.append_eq_nil_iff.mp hs1q
      obtain ⟨hsq, hdq⟩ := hsq
      subst hdq
      refine ⟨⟨[], ?_, ?_, ?_, by simp⟩, hfr.1, hfr.2.1, hfr.2.2, ?_⟩
      · split <;> simp
      · simpa using hpre
      · intro _
        rw [hs1q, hsq]
        split <;> simp
      · intro _
        refine ⟨?_, rfl⟩
        have hnone := checkEvents_none s (by rw [hce])
        have : s1.tasks = s.tasks := by simpa using hpre
        unfold timeRemaining at hnone ⊢
        simp only
        rw [this, hfr.1]; exact hnone

theorem runOnce_spec (s : St) :
    (runOnce s).2.dequeued ++ (runOnce s).1.tasks = s.tasks ∧
    (runOnce s).2.fired = (s.queue ++ (runOnce s).2.dequeued).filter (canDial s.invalid) ∧
    (∀ e ∈ (runOnce s).2.dequeued, e.when ≤ s.now) ∧
    (runOnce s).1.now = s.now ∧ (runOnce s).1.invalid = s.invalid ∧ (runOnce s).1.nextId = s.nextId ∧
    timeRemaining (runOnce s).1 ≠ 0 ∧ (runOnce s).1.queue = [] := by
  have h := loopBody_spec (s.tasks.length + 2) s { result := true, delay := EVENT_LOOP_TIMEOUT, dequeued := [], fired := [] }
  simp only at h
  obtain ⟨⟨dq, h1, h2, h3, h4⟩, h5, h6, h7, h8⟩ := h
  unfold runOnce
  simp only [List.nil_append] at h1 h3
  have h8' := h8 (by split <;> omega)
  rw [h1]
  exact ⟨h2, by rw [h3 (by omega)], h4, h5, h6, h7, h8'.1, h8'.2⟩

/-! ### the invariant -/

structure Inv (s : St) : Prop where
  /-- the list is strictly sorted by (due time, scheduling order) -/
  sorted : s.tasks.Pairwise Before
  /-- ids are handed out in increasing order -/
  fresh : ∀ e ∈ s.tasks ++ s.queue, e.id < s.nextId
  /-- an id names one event, whether still scheduled or already queued as a call -/
  nodup : ((s.tasks ++ s.queue).map (·.id)).Nodup

theorem Inv.init : Inv init := ⟨by simp [SquidModel.Event.init], by simp [SquidModel.Event.init], by simp [SquidModel.Event.init]⟩

theorem Inv.schedule {s : St} (h : Inv s) (f a : Nat) (d w : Int) (c : Bool) : Inv (schedule s f a d w c) := by
  have hfr : ∀ x ∈ s.tasks, x.id < s.nextId := fun x hx => h.fresh x (List.mem_append_left _ hx)
  refine ⟨insert_sorted _ _ h.sorted hfr, ?_, ?_⟩
  · intro e he
    simp only [schedule] at he ⊢
    rcases List.mem_append.mp he with he | he
    · rcases mem_insert.mp he with rfl | he
      · simp
      · have := hfr e he; omega
    · have := h.fresh e (List.mem_append_right _ he); omega
  · simp only [schedule]
    have hp : (insert ⟨s.nextId, f, a, timestamp s.now d, w, c⟩ s.tasks ++ s.queue).Perm
        (⟨s.nextId, f, a, timestamp s.now d, w, c⟩ :: (s.tasks ++ s.queue)) :=
      (insert_perm _ _).append_right _
    rw [(hp.map (·.id)).nodup_iff, List.map_cons, List.nodup_cons]
    refine ⟨?_, h.nodup⟩
    intro hm
    obtain ⟨x, hx, hxid⟩ := List.mem_map.mp hm
    have := h.fresh x hx
    simp only at hxid
    omega

theorem Inv.tasks_sub {s : St} (h : Inv s) {t : List Ev} (ht : t.Sublist s.tasks) : Inv { s with tasks := t } := by
  refine ⟨h.sorted.sublist ht, ?_, ?_⟩
  · intro e he
    rcases List.mem_append.mp he with he | he
    · exact h.fresh e (List.mem_append_left _ (ht.subset he))
    · exact h.fresh e (List.mem_append_right _ he)
  · exact ((ht.append_right s.queue).map (·.id)).nodup h.nodup

theorem Inv.cancelWith {s : St} (h : Inv s) (skip : Bool) (f a : Nat) : Inv (cancelWith skip s f a).1 :=
  h.tasks_sub (cancelLoop_sublist skip f a false s.tasks)

theorem Inv.checkEvents {s : St} (h : Inv s) : Inv (checkEvents s).1 := by
  have hpre := checkEvents_prefix s
  have hq := checkEvents_queue s
  have hfr := checkEvents_frame s
  have hperm : ((checkEvents s).1.tasks ++ (checkEvents s).1.queue).Perm (s.tasks ++ s.queue) := by
    rw [hq, ← hpre]
    -- t ++ (q ++ d) ~ (d ++ t) ++ q
    have h1 : ((checkEvents s).1.tasks ++ (s.queue ++ (checkEvents s).2.2)).Perm
        ((s.queue ++ (checkEvents s).2.2) ++ (checkEvents s).1.tasks) := List.perm_append_comm
    have h2 : ((s.queue ++ (checkEvents s).2.2) ++ (checkEvents s).1.tasks).Perm
        (s.queue ++ ((checkEvents s).2.2 ++ (checkEvents s).1.tasks)) := by rw [List.append_assoc]
    exact (h1.trans h2).trans List.perm_append_comm
  refine ⟨?_, ?_, ?_⟩
  · have : (checkEvents s).1.tasks.Sublist s.tasks := by
      rw [← hpre]; exact List.sublist_append_right _ _
    exact h.sorted.sublist this
  · intro e he
    rw [hfr.2.2]
    exact h.fresh e (hperm.mem_iff.mp he)
  · exact ((hperm.map (·.id)).nodup_iff).mpr h.nodup

theorem Inv.dispatch {s : St} (h : Inv s) : Inv (dispatch s).1 := by
  refine ⟨h.sorted, ?_, ?_⟩
  · intro e he
    simp only [dispatch, List.append_nil] at he
    exact h.fresh e (List.mem_append_left _ he)
  · simp only [dispatch, List.append_nil]
    have : (s.tasks.map (·.id)).Sublist ((s.tasks ++ s.queue).map (·.id)) :=
      (List.sublist_append_left s.tasks s.queue).map _
    exact this.nodup h.nodup

theorem Inv.runOnce {s : St} (h : Inv s) : Inv (runOnce s).1 := by
  obtain ⟨h1, _, _, _, _, h6, _, h8⟩ := runOnce_spec s
  have hsub : (runOnce s).1.tasks.Sublist s.tasks := by
    rw [← h1]; exact List.sublist_append_right _ _
  refine ⟨h.sorted.sublist hsub, ?_, ?_⟩
  · intro e he
    rw [h8, List.append_nil] at he
    rw [h6]
    exact h.fresh e (List.mem_append_left _ (hsub.subset he))
  · rw [h8, List.append_nil]
    have : ((runOnce s).1.tasks.map (·.id)).Sublist ((s.tasks ++ s.queue).map (·.id)) :=
      (hsub.trans (List.sublist_append_left s.tasks s.queue)).map _
    exact this.nodup h.nodup

theorem Inv.step {s : St} (h : Inv s) (op : Op) : Inv (step s op).1 := by
  cases op with
  | clock d => exact ⟨h.sorted, h.fresh, h.nodup⟩
  | sched f a d w c => exact h.schedule f a d w c
  | cancel f a => exact h.cancelWith _ f a
  | check => exact h.checkEvents
  | dispatch => exact h.dispatch
  | loop => exact h.runOnce
  | remaining => exact h
  | find f a => exact h
  | invalidate a =>
    simp only [SquidModel.Event.step, invalidate]
    split
    · exact h
    · exact ⟨h.sorted, h.fresh, h.nodup⟩
  | pending => exact h

theorem Inv.exec {s : St} (h : Inv s) (ops : List Op) : Inv (exec s ops) := by
  induction ops generalizing s with
  | nil => exact h
  | cons op ops ih => exact ih (h.step op)

/-- States the scheduler can be in: after any history from the empty scheduler. -/
def Reachable (s : St) : Prop := ∃ ops, s = exec init ops

theorem Reachable.inv {s : St} (h : Reachable s) : Inv s := by
  obtain ⟨ops, rfl⟩ := h
  exact Inv.init.exec ops

theorem Reachable.step {s : St} (h : Reachable s) (op : Op) : Reachable (step s op).1 := by
  obtain ⟨ops, rfl⟩ := h
  refine ⟨ops ++ [op], ?_⟩
  have : ∀ (s : St) (ops : List Op), exec s (ops ++ [op]) = (step (exec s ops) op).1 := by
    intro s ops
    induction ops generalizing s with
    | nil => rfl
    | cons o os ih => exact ih (SquidModel.Event.step s o).1
  exact (this _ _).symm

/-- Two entries with the same id in a list whose ids are distinct are the same entry. -/
theorem eq_of_id_eq {l : List Ev} (hn : (l.map (·.id)).Nodup) {x y : Ev} (hx : x ∈ l) (hy : y ∈ l)
    (hid : x.id = y.id) : x = y := by
  induction l with
  | nil => cases hx
  | cons z zs ih =>
    simp only [List.map_cons, List.nodup_cons] at hn
    rcases List.mem_cons.mp hx with rfl | hx <;> rcases List.mem_cons.mp hy with rfl | hy
    · rfl
    · exact absurd (List.mem_map.mpr ⟨y, hy, hid.symm⟩) hn.1
    · exact absurd (List.mem_map.mpr ⟨x, hx, hid⟩) hn.1
    · exact ih hn.2 hx hy

/-! ### what a later history can dequeue or fire -/

/-- Events dequeued (handed to the call queue) by the operation that produced this observation. -/
def Obs.dequeued : Obs → List Ev
  | .checked _ dq => dq
  | .looped o => o.dequeued
  | _ => []

/-- Events whose handler ran during the operation that produced this observation. -/
def Obs.fired : Obs → List Ev
  | .dispatched _ fd => fd
  | .looped o => o.fired
  | _ => []

/-- All events dequeued while `ops` run from `s`. -/
def dequeuedIn (s : St) (ops : List Op) : List Ev := (run s ops).2.flatMap Obs.dequeued

/-- All events whose handler runs while `ops` run from `s`. -/
def firedIn (s : St) (ops : List Op) : List Ev := (run s ops).2.flatMap Obs.fired

theorem step_origin (s : St) (op : Op) :
    s.nextId ≤ (step s op).1.nextId ∧
    (∀ x ∈ (step s op).1.tasks, x ∈ s.tasks ∨ s.nextId ≤ x.id) ∧
    (∀ x ∈ (step s op).1.queue, x ∈ s.tasks ∨ x ∈ s.queue) ∧
    (∀ x ∈ (step s op).2.dequeued, x ∈ s.tasks) ∧
    (∀ x ∈ (step s op).2.fired, x ∈ s.tasks ∨ x ∈ s.queue) := by
  cases op with
  | clock d => exact ⟨Nat.le_refl _, fun x hx => Or.inl hx, fun x hx => Or.inr hx, fun x hx => by cases hx, fun x hx => by cases hx⟩
  | sched f a d w c =>
    refine ⟨by simp [step, schedule], ?_, fun x hx => Or.inr hx, fun x hx => by cases hx, fun x hx => by cases hx⟩
    intro x hx
    simp only [step, schedule] at hx
    rcases mem_insert.mp hx with rfl | hx
    · right; simp
    · left; exact hx
  | cancel f a =>
    refine ⟨Nat.le_refl _, ?_, fun x hx => Or.inr hx, fun x hx => by cases hx, fun x hx => by cases hx⟩
    intro x hx
    left
    exact (cancelLoop_sublist _ f a false s.tasks).subset hx
  | check =>
    have hpre := checkEvents_prefix s
    have hq := checkEvents_queue s
    have hfr := checkEvents_frame s
    refine ⟨by simp only [step]; omega, ?_, ?_, ?_, fun x hx => by cases hx⟩
    · intro x hx; left; simp only [step] at hx; rw [← hpre]; exact List.mem_append_right _ hx
    · intro x hx
      simp only [step] at hx
      rw [hq] at hx
      rcases List.mem_append.mp hx with hx | hx
      · right; exact hx
      · left; rw [← hpre]; exact List.mem_append_left _ hx
    · intro x hx
      simp only [step, Obs.dequeued] at hx
      rw [← hpre]; exact List.mem_append_left _ hx
  | dispatch =>
    refine ⟨Nat.le_refl _, fun x hx => Or.inl hx, fun x hx => by cases hx, fun x hx => by cases hx, ?_⟩
    intro x hx
    simp only [step, dispatch, Obs.fired] at hx
    right; exact (List.mem_filter.mp hx).1
  | loop =>
    obtain ⟨h1, h2, _, _, _, h6, _, h8⟩ := runOnce_spec s
    refine ⟨by simp only [step]; omega, ?_, ?_, ?_, ?_⟩
    · intro x hx; left; simp only [step] at hx; rw [← h1]; exact List.mem_append_right _ hx
    · intro x hx; simp only [step] at hx; rw [h8] at hx; cases hx
    · intro x hx
      simp only [step, Obs.dequeued] at hx
      rw [← h1]; exact List.mem_append_left _ hx
    · intro x hx
      simp only [step, Obs.fired] at hx
      rw [h2] at hx
      rcases List.mem_append.mp (List.mem_filter.mp hx).1 with hx | hx
      · right; exact hx
      · left; rw [← h1]; exact List.mem_append_left _ hx
  | remaining => exact ⟨Nat.le_refl _, fun x hx => Or.inl hx, fun x hx => Or.inr hx, fun x hx => by cases hx, fun x hx => by cases hx⟩
  | find f a => exact ⟨Nat.le_refl _, fun x hx => Or.inl hx, fun x hx => Or.inr hx, fun x hx => by cases hx, fun x hx => by cases hx⟩
  | invalidate a =>
    refine ⟨?_, ?_, ?_, fun x hx => by cases hx, fun x hx => by cases hx⟩
    · simp only [step, invalidate]; split <;> exact Nat.le_refl _
    · intro x hx; left; simp only [step, invalidate] at hx; split at hx <;> exact hx
    · intro x hx; right; simp only [step, invalidate] at hx; split at hx <;> exact hx
  | pending => exact ⟨Nat.le_refl _, fun x hx => Or.inl hx, fun x hx => Or.inr hx, fun x hx => by cases hx, fun x hx => by cases hx⟩

/-- Whatever a later history dequeues or fires was scheduled or queued at its start, or carries a fresh id. -/
theorem later_origin (s : St) (ops : List Op) :
    (∀ x ∈ dequeuedIn s ops, x ∈ s.tasks ∨ s.nextId ≤ x.id) ∧
    (∀ x ∈ firedIn s ops, x ∈ s.tasks ∨ x ∈ s.queue ∨ s.nextId ≤ x.id) := by
  induction ops generalizing s with
  | nil => exact ⟨fun x hx => by cases hx, fun x hx => by cases hx⟩
  | cons op ops ih =>
    obtain ⟨hn, ht, hq, hd, hf⟩ := step_origin s op
    obtain ⟨ihd, ihf⟩ := ih (step s op).1
    constructor
    · intro x hx
      simp only [dequeuedIn, run, List.flatMap_cons] at hx
      rcases List.mem_append.mp hx with hx | hx
      · exact Or.inl (hd x hx)
      · rcases ihd x hx with h | h
        · rcases ht x h with h | h
          · exact Or.inl h
          · exact Or.inr h
        · exact Or.inr (by omega)
    · intro x hx
      simp only [firedIn, run, List.flatMap_cons] at hx
      rcases List.mem_append.mp hx with hx | hx
      · rcases hf x hx with h | h
        · exact Or.inl h
        · exact Or.inr (Or.inl h)
      · rcases ihf x hx with h | h | h
        · rcases ht x h with h | h
          · exact Or.inl h
          · exact Or.inr (Or.inr h)
        · rcases hq x h with h | h
          · exact Or.inl h
          · exact Or.inr (Or.inl h)
        · exact Or.inr (Or.inr (by omega))

/-- An event that left the list (and is not in the call queue) is never dequeued or fired again. -/
theorem gone_never_again {s s' : St} (h : Inv s) (e : Ev) (he : e ∈ s.tasks)
    (ht : s'.tasks.Sublist s.tasks) (hq : s'.queue = s.queue) (hn : s'.nextId = s.nextId) (hgone : e ∉ s'.tasks)
    (ops : List Op) : (∀ x ∈ dequeuedIn s' ops, x.id ≠ e.id) ∧ (∀ x ∈ firedIn s' ops, x.id ≠ e.id) := by
  obtain ⟨hd, hf⟩ := later_origin s' ops
  have hfresh := h.fresh e (List.mem_append_left _ he)
  have key : ∀ x, x ∈ s'.tasks ∨ x ∈ s'.queue ∨ s'.nextId ≤ x.id → x.id ≠ e.id := by
    intro x hx hid
    rcases hx with hx | hx | hx
    · have := eq_of_id_eq h.nodup (List.mem_append_left _ (ht.subset hx)) (List.mem_append_left _ he) hid
      exact hgone (this ▸ hx)
    · rw [hq] at hx
      have hxe := eq_of_id_eq h.nodup (List.mem_append_right _ hx) (List.mem_append_left _ he) hid
      subst hxe
      have hnd := h.nodup
      rw [List.map_append, List.nodup_append] at hnd
      exact hnd.2.2 x.id (List.mem_map.mpr ⟨x, he, rfl⟩) x.id (List.mem_map.mpr ⟨x, hx, rfl⟩) rfl
    · rw [hn] at hx; omega
  exact ⟨fun x hx => key x ((hd x hx).elim Or.inl (fun h => Or.inr (Or.inr h))), fun x hx => key x (hf x hx)⟩

end SquidModel.Event
