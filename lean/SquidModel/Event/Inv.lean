/-
State-level facts: checkEvents, dispatch, runOnce; the invariant of reachable states; what later histories can fire.
-/
import SquidModel.Event.ListLemmas

namespace SquidModel.Event

/-! ### checkEvents -/

theorem checkEvents_prefix (s : St) : (checkEvents s).2.2 ++ (checkEvents s).1.tasks = s.tasks := by
  unfold checkEvents
  split
  · rfl
  · exact checkLoop_append _ _ _

theorem checkEvents_queue (s : St) : (checkEvents s).1.queue = s.queue ++ (checkEvents s).2.2 := by
  unfold checkEvents
  split
  · simp
  · rfl

theorem checkEvents_frame (s : St) :
    (checkEvents s).1.now = s.now ∧ (checkEvents s).1.invalid = s.invalid ∧ (checkEvents s).1.nextId = s.nextId := by
  unfold checkEvents
  split <;> exact ⟨rfl, rfl, rfl⟩

theorem checkEvents_ret (s : St) : (checkEvents s).2.1 = timeRemaining (checkEvents s).1 := by
  unfold checkEvents
  split <;> rfl

theorem checkEvents_due (s : St) : ∀ e ∈ (checkEvents s).2.2, e.when ≤ s.now := by
  unfold checkEvents
  split
  · intro e he; cases he
  · rename_i h
    simp only [ne_eq, Decidable.not_not] at h
    exact checkLoop_due s.now s.invalid s.tasks h

/-- No dequeue at all happens only when nothing is due. -/
theorem checkEvents_none (s : St) (h : (checkEvents s).2.2 = []) : timeRemaining s ≠ 0 := by
  intro h0
  unfold checkEvents at h
  simp only [h0, ne_eq, not_true_eq_false, ↓reduceIte] at h
  obtain ⟨e, r, heq, _⟩ := timeRemainingOf_eq_zero.mp h0
  rw [heq] at h
  exact checkLoop_nonempty _ _ _ _ h

/-- checkEvents stops only behind a heavy event or when nothing more is due. -/
theorem checkEvents_stops (s : St) :
    (∃ e, (checkEvents s).2.2.getLast? = some e ∧ heavy s.invalid e = true) ∨ timeRemaining (checkEvents s).1 ≠ 0 := by
  unfold checkEvents
  split
  · rename_i h; right; exact h
  · rename_i h
    simp only [ne_eq, Decidable.not_not] at h
    have hl : s.tasks ≠ [] := by
      obtain ⟨e, r, heq, _⟩ := timeRemainingOf_eq_zero.mp h
      rw [heq]; simp
    exact checkLoop_stops s.now s.invalid s.tasks hl

/-! ### dispatch -/

theorem dispatch_frame (s : St) :
    (dispatch s).1.tasks = s.tasks ∧ (dispatch s).1.now = s.now ∧ (dispatch s).1.invalid = s.invalid ∧
    (dispatch s).1.nextId = s.nextId ∧ (dispatch s).1.queue = [] := ⟨rfl, rfl, rfl, rfl, rfl⟩

/-! ### runOnce -/

theorem afterCheck_dequeued (o : LoopOut) (r : Int) (dq : List Ev) : (o.afterCheck r dq).dequeued = o.dequeued ++ dq := by
  unfold LoopOut.afterCheck; split <;> rfl

theorem afterCheck_fired (o : LoopOut) (r : Int) (dq : List Ev) : (o.afterCheck r dq).fired = o.fired := by
  unfold LoopOut.afterCheck; split <;> rfl

/-- One pass of the runOnce loop in terms of the lists. -/
theorem loopPass_spec (s : St) (o : LoopOut) :
    (checkEvents s).2.2 ++ (loopPass s o).1.tasks = s.tasks ∧
    (loopPass s o).1.queue = [] ∧
    ((loopPass s o).2.1 = false → s.queue = [] ∧ (checkEvents s).2.2 = []) ∧
    (loopPass s o).2.2.dequeued = o.dequeued ++ (checkEvents s).2.2 ∧
    (loopPass s o).2.2.fired = o.fired ++ (s.queue ++ (checkEvents s).2.2).filter (canDial s.invalid) ∧
    (loopPass s o).1.now = s.now ∧ (loopPass s o).1.invalid = s.invalid ∧ (loopPass s o).1.nextId = s.nextId := by
  have hpre := checkEvents_prefix s
  have hq := checkEvents_queue s
  have hfr := checkEvents_frame s
  refine ⟨hpre, rfl, ?_, ?_, ?_, hfr.1, hfr.2.1, hfr.2.2⟩
  · intro h
    have h' : (!(checkEvents s).1.queue.isEmpty) = false := h
    rw [hq] at h'
    cases hs : s.queue with
    | nil =>
      rw [hs] at h'
      cases hd : (checkEvents s).2.2 with
      | nil => exact ⟨rfl, rfl⟩
      | cons a b => rw [hd] at h'; simp at h'
    | cons a b => rw [hs] at h'; simp at h'
  · show ((o.afterCheck _ _).afterDispatch _ _).dequeued = _
    simp only [LoopOut.afterDispatch, afterCheck_dequeued]
  · show ((o.afterCheck _ _).afterDispatch _ _).fired = _
    simp only [LoopOut.afterDispatch, afterCheck_fired, dispatch]
    rw [hq, hfr.2.1]

theorem loopBody_spec (fuel : Nat) (s : St) (o : LoopOut) :
    (∃ dq, (loopBody fuel s o).2.dequeued = o.dequeued ++ dq ∧ dq ++ (loopBody fuel s o).1.tasks = s.tasks ∧
      (fuel ≠ 0 → (loopBody fuel s o).2.fired = o.fired ++ (s.queue ++ dq).filter (canDial s.invalid)) ∧
      (∀ e ∈ dq, e.when ≤ s.now)) ∧
    (loopBody fuel s o).1.now = s.now ∧ (loopBody fuel s o).1.invalid = s.invalid ∧
    (loopBody fuel s o).1.nextId = s.nextId ∧
    (s.tasks.length + 1 + (if s.queue = [] then 0 else 1) ≤ fuel →
      timeRemaining (loopBody fuel s o).1 ≠ 0 ∧ (loopBody fuel s o).1.queue = []) := by
  induction fuel generalizing s o with
  | zero =>
    refine ⟨⟨[], by simp [loopBody], by simp [loopBody], by simp, by simp⟩, rfl, rfl, rfl, ?_⟩
    intro h; omega
  | succ fuel ih =>
    obtain ⟨p1, p2, p3, p4, p5, p6, p7, p8⟩ := loopPass_spec s o
    have hdue := checkEvents_due s
    have hstep : loopBody (fuel + 1) s o =
        if (loopPass s o).2.1 then loopBody fuel (loopPass s o).1 (loopPass s o).2.2
        else ((loopPass s o).1, (loopPass s o).2.2) := rfl
    rw [hstep]
    have hlen := congrArg List.length p1
    simp only [List.length_append] at hlen
    split
    · -- sawActivity: go round again
      rename_i hmade
      obtain ⟨⟨dq', h1, h2, h3, h4⟩, h5, h6, h7, h8⟩ := ih (loopPass s o).1 (loopPass s o).2.2
      refine ⟨⟨(checkEvents s).2.2 ++ dq', ?_, ?_, ?_, ?_⟩, ?_, ?_, ?_, ?_⟩
      · rw [h1, p4, List.append_assoc]
      · rw [List.append_assoc, h2]; exact p1
      · intro _
        by_cases hf : fuel = 0
        · subst hf
          have hd' : dq' = [] := by
            have hl := congrArg List.length h2
            simp only [loopBody, List.length_append] at hl
            exact List.eq_nil_of_length_eq_zero (by omega)
          subst hd'
          simp only [loopBody, List.append_nil]
          exact p5
        · rw [h3 hf, p5, p2, p7]
          simp only [List.nil_append, List.filter_append, List.append_assoc]
      · intro e he
        rcases List.mem_append.mp he with he | he
        · exact hdue e he
        · have := h4 e he; rw [p6] at this; exact this
      · rw [h5]; exact p6
      · rw [h6]; exact p7
      · rw [h7]; exact p8
      · intro hfuel
        apply h8
        rw [p2]
        simp only [↓reduceIte]
        by_cases hdq : (checkEvents s).2.2 = []
        · have hsq : s.queue ≠ [] := by
            intro h
            have : (loopPass s o).2.1 = (!(checkEvents s).1.queue.isEmpty) := rfl
            rw [this, checkEvents_queue, h, hdq] at hmade
            simp at hmade
          simp only [hsq, ↓reduceIte] at hfuel
          rw [hdq] at hlen
          simp only [List.length_nil] at hlen
          omega
        · have : 0 < (checkEvents s).2.2.length := List.length_pos_iff.mpr hdq
          split at hfuel <;> omega
    · -- nothing was queued: the loop ends
      rename_i hmade
      have hmade' : (loopPass s o).2.1 = false := by
        cases h : (loopPass s o).2.1 with
        | false => rfl
        | true => exact absurd h hmade
      obtain ⟨hsq, hdq⟩ := p3 hmade'
      refine ⟨⟨[], ?_, ?_, ?_, by simp⟩, p6, p7, p8, ?_⟩
      · rw [p4, hdq]
      · rw [hdq] at p1; simpa using p1
      · intro _
        rw [p5, hdq]
      · intro _
        refine ⟨?_, p2⟩
        have hnone := checkEvents_none s hdq
        have ht : (loopPass s o).1.tasks = s.tasks := by rw [hdq] at p1; simpa using p1
        unfold timeRemaining at hnone ⊢
        rw [ht, p6]; exact hnone

theorem runOnce_spec (s : St) :
    (runOnce s).2.dequeued ++ (runOnce s).1.tasks = s.tasks ∧
    (runOnce s).2.fired = (s.queue ++ (runOnce s).2.dequeued).filter (canDial s.invalid) ∧
    (∀ e ∈ (runOnce s).2.dequeued, e.when ≤ s.now) ∧
    (runOnce s).1.now = s.now ∧ (runOnce s).1.invalid = s.invalid ∧ (runOnce s).1.nextId = s.nextId ∧
    timeRemaining (runOnce s).1 ≠ 0 ∧ (runOnce s).1.queue = [] := by
  have h := loopBody_spec (s.tasks.length + 2) s { result := true, delay := EVENT_LOOP_TIMEOUT, dequeued := [], fired := [] }
  simp only at h
  obtain ⟨⟨dq, h1, h2, h3, h4⟩, h5, h6, h7, h8⟩ := h
  unfold runOnce
  simp only [List.nil_append] at h1 h3
  have h8' := h8 (by split <;> omega)
  rw [h1]
  exact ⟨h2, by rw [h3 (by omega)], h4, h5, h6, h7, h8'.1, h8'.2⟩

/-! ### the invariant -/

structure Inv (s : St) : Prop where
  /-- the list is strictly sorted by (due time, scheduling order) -/
  sorted : s.tasks.Pairwise Before
  /-- ids are handed out in increasing order -/
  fresh : ∀ e ∈ s.tasks ++ s.queue, e.id < s.nextId
  /-- an id names one event, whether still scheduled or already queued as a call -/
  nodup : ((s.tasks ++ s.queue).map (·.id)).Nodup

theorem inv_init : Inv init := ⟨by simp [SquidModel.Event.init], by simp [SquidModel.Event.init], by simp [SquidModel.Event.init]⟩

theorem inv_schedule {s : St} (h : Inv s) (f a : Nat) (d w : Int) (c : Bool) : Inv (schedule s f a d w c) := by
  have hfr : ∀ x ∈ s.tasks, x.id < s.nextId := fun x hx => h.fresh x (List.mem_append_left _ hx)
  refine ⟨insert_sorted _ _ h.sorted hfr, ?_, ?_⟩
  · intro e he
    simp only [schedule] at he ⊢
    rcases List.mem_append.mp he with he | he
    · rcases mem_insert.mp he with rfl | he
      · simp
      · have := hfr e he; omega
    · have := h.fresh e (List.mem_append_right _ he); omega
  · simp only [schedule]
    have hp : (insert ⟨s.nextId, f, a, timestamp s.now d, w, c⟩ s.tasks ++ s.queue).Perm
        (⟨s.nextId, f, a, timestamp s.now d, w, c⟩ :: (s.tasks ++ s.queue)) :=
      (insert_perm _ _).append_right _
    rw [(hp.map (·.id)).nodup_iff, List.map_cons, List.nodup_cons]
    refine ⟨?_, h.nodup⟩
    intro hm
    obtain ⟨x, hx, hxid⟩ := List.mem_map.mp hm
    have := h.fresh x hx
    simp only at hxid
    omega

theorem inv_tasks_sub {s : St} (h : Inv s) {t : List Ev} (ht : t.Sublist s.tasks) : Inv { s with tasks := t } := by
  refine ⟨h.sorted.sublist ht, ?_, ?_⟩
  · intro e he
    rcases List.mem_append.mp he with he | he
    · exact h.fresh e (List.mem_append_left _ (ht.subset he))
    · exact h.fresh e (List.mem_append_right _ he)
  · exact ((ht.append_right s.queue).map (·.id)).nodup h.nodup

theorem inv_cancelWith {s : St} (h : Inv s) (skip : Bool) (f a : Nat) : Inv (cancelWith skip s f a).1 :=
  inv_tasks_sub h (cancelLoop_sublist skip f a false s.tasks)

theorem inv_checkEvents {s : St} (h : Inv s) : Inv (checkEvents s).1 := by
  have hpre := checkEvents_prefix s
  have hq := checkEvents_queue s
  have hfr := checkEvents_frame s
  have hperm : ((checkEvents s).1.tasks ++ (checkEvents s).1.queue).Perm (s.tasks ++ s.queue) := by
    rw [hq, ← hpre]
    -- t ++ (q ++ d) ~ (d ++ t) ++ q
    have h1 : ((checkEvents s).1.tasks ++ (s.queue ++ (checkEvents s).2.2)).Perm
        ((s.queue ++ (checkEvents s).2.2) ++ (checkEvents s).1.tasks) := List.perm_append_comm
    have h2 : ((s.queue ++ (checkEvents s).2.2) ++ (checkEvents s).1.tasks).Perm
        (s.queue ++ ((checkEvents s).2.2 ++ (checkEvents s).1.tasks)) := by rw [List.append_assoc]
    exact (h1.trans h2).trans List.perm_append_comm
  refine ⟨?_, ?_, ?_⟩
  · have : (checkEvents s).1.tasks.Sublist s.tasks := by
      rw [← hpre]; exact List.sublist_append_right _ _
    exact h.sorted.sublist this
  · intro e he
    rw [hfr.2.2]
    exact h.fresh e (hperm.mem_iff.mp he)
  · exact ((hperm.map (·.id)).nodup_iff).mpr h.nodup

theorem inv_dispatch {s : St} (h : Inv s) : Inv (dispatch s).1 := by
  refine ⟨h.sorted, ?_, ?_⟩
  · intro e he
    simp only [dispatch, List.append_nil] at he
    exact h.fresh e (List.mem_append_left _ he)
  · simp only [dispatch, List.append_nil]
    have : (s.tasks.map (·.id)).Sublist ((s.tasks ++ s.queue).map (·.id)) :=
      (List.sublist_append_left s.tasks s.queue).map _
    exact this.nodup h.nodup

theorem inv_runOnce {s : St} (h : Inv s) : Inv (runOnce s).1 := by
  obtain ⟨h1, _, _, _, _, h6, _, h8⟩ := runOnce_spec s
  have hsub : (runOnce s).1.tasks.Sublist s.tasks := by
    rw [← h1]; exact List.sublist_append_right _ _
  refine ⟨h.sorted.sublist hsub, ?_, ?_⟩
  · intro e he
    rw [h8, List.append_nil] at he
    rw [h6]
    exact h.fresh e (List.mem_append_left _ (hsub.subset he))
  · rw [h8, List.append_nil]
    have : ((runOnce s).1.tasks.map (·.id)).Sublist ((s.tasks ++ s.queue).map (·.id)) :=
      (hsub.trans (List.sublist_append_left s.tasks s.queue)).map _
    exact this.nodup h.nodup

theorem inv_step {s : St} (h : Inv s) (op : Op) : Inv (step s op).1 := by
  cases op with
  | clock d => exact ⟨h.sorted, h.fresh, h.nodup⟩
  | sched f a d w c => exact inv_schedule h f a d w c
  | cancel f a => exact inv_cancelWith h _ f a
  | check => exact inv_checkEvents h
  | dispatch => exact inv_dispatch h
  | loop => exact inv_runOnce h
  | remaining => exact h
  | find f a => exact h
  | invalidate a =>
    simp only [SquidModel.Event.step, invalidate]
    split
    · exact h
    · exact ⟨h.sorted, h.fresh, h.nodup⟩
  | pending => exact h

theorem inv_exec {s : St} (h : Inv s) (ops : List Op) : Inv (exec s ops) := by
  induction ops generalizing s with
  | nil => exact h
  | cons op ops ih => exact ih (inv_step h op)

/-- States the scheduler can be in: after any history from the empty scheduler. -/
def Reachable (s : St) : Prop := ∃ ops, s = exec init ops

theorem reachable_inv {s : St} (h : Reachable s) : Inv s := by
  obtain ⟨ops, rfl⟩ := h
  exact inv_exec inv_init ops

theorem reachable_step {s : St} (h : Reachable s) (op : Op) : Reachable (step s op).1 := by
  obtain ⟨ops, rfl⟩ := h
  refine ⟨ops ++ [op], ?_⟩
  have : ∀ (s : St) (ops : List Op), exec s (ops ++ [op]) = (step (exec s ops) op).1 := by
    intro s ops
    induction ops generalizing s with
    | nil => rfl
    | cons o os ih => exact ih (SquidModel.Event.step s o).1
  exact (this _ _).symm

/-- Two entries with the same id in a list whose ids are distinct are the same entry. -/
theorem eq_of_id_eq {l : List Ev} (hn : (l.map (·.id)).Nodup) {x y : Ev} (hx : x ∈ l) (hy : y ∈ l)
    (hid : x.id = y.id) : x = y := by
  induction l with
  | nil => cases hx
  | cons z zs ih =>
    rw [List.map_cons, List.nodup_cons] at hn
    have hz : ∀ w ∈ zs, w.id ≠ z.id := fun w hw h => hn.1 (List.mem_map.mpr ⟨w, hw, h⟩)
    rcases List.mem_cons.mp hx with hxz | hxs
    · rcases List.mem_cons.mp hy with hyz | hys
      · rw [hxz, hyz]
      · exact absurd (by rw [← hid, hxz]) (hz y hys)
    · rcases List.mem_cons.mp hy with hyz | hys
      · exact absurd (by rw [hid, hyz]) (hz x hxs)
      · exact ih hn.2 hxs hys

/-! ### what a later history can dequeue or fire -/

/-- Events dequeued (handed to the call queue) by the operation that produced this observation. -/
def Obs.dequeued : Obs → List Ev
  | .checked _ dq => dq
  | .looped o => o.dequeued
  | _ => []

/-- Events whose handler ran during the operation that produced this observation. -/
def Obs.fired : Obs → List Ev
  | .dispatched _ fd => fd
  | .looped o => o.fired
  | _ => []

/-- All events dequeued while `ops` run from `s`. -/
def dequeuedIn (s : St) (ops : List Op) : List Ev := (run s ops).2.flatMap Obs.dequeued

/-- All events whose handler runs while `ops` run from `s`. -/
def firedIn (s : St) (ops : List Op) : List Ev := (run s ops).2.flatMap Obs.fired

theorem step_origin (s : St) (op : Op) :
    s.nextId ≤ (step s op).1.nextId ∧
    (∀ x ∈ (step s op).1.tasks, x ∈ s.tasks ∨ s.nextId ≤ x.id) ∧
    (∀ x ∈ (step s op).1.queue, x ∈ s.tasks ∨ x ∈ s.queue) ∧
    (∀ x ∈ (step s op).2.dequeued, x ∈ s.tasks) ∧
    (∀ x ∈ (step s op).2.fired, x ∈ s.tasks ∨ x ∈ s.queue) := by
  cases op with
  | clock d => exact ⟨Nat.le_refl _, fun x hx => Or.inl hx, fun x hx => Or.inr hx, fun x hx => absurd hx List.not_mem_nil, fun x hx => absurd hx List.not_mem_nil⟩
  | sched f a d w c =>
    refine ⟨by simp [step, schedule], ?_, fun x hx => Or.inr hx, fun x hx => absurd hx List.not_mem_nil, fun x hx => absurd hx List.not_mem_nil⟩
    intro x hx
    simp only [step, schedule] at hx
    rcases mem_insert.mp hx with rfl | hx
    · right; simp
    · left; exact hx
  | cancel f a =>
    refine ⟨Nat.le_refl _, ?_, fun x hx => Or.inr hx, fun x hx => absurd hx List.not_mem_nil, fun x hx => absurd hx List.not_mem_nil⟩
    intro x hx
    left
    exact (cancelLoop_sublist _ f a false s.tasks).subset hx
  | check =>
    have hpre := checkEvents_prefix s
    have hq := checkEvents_queue s
    have hfr := checkEvents_frame s
    refine ⟨by simp only [step]; omega, ?_, ?_, ?_, fun x hx => absurd hx List.not_mem_nil⟩
    · intro x hx; left; simp only [step] at hx; rw [← hpre]; exact List.mem_append_right _ hx
    · intro x hx
      simp only [step] at hx
      rw [hq] at hx
      rcases List.mem_append.mp hx with hx | hx
      · right; exact hx
      · left; rw [← hpre]; exact List.mem_append_left _ hx
    · intro x hx
      simp only [step, Obs.dequeued] at hx
      rw [← hpre]; exact List.mem_append_left _ hx
  | dispatch =>
    refine ⟨Nat.le_refl _, fun x hx => Or.inl hx, fun x hx => absurd hx List.not_mem_nil, fun x hx => absurd hx List.not_mem_nil, ?_⟩
    intro x hx
    simp only [step, dispatch, Obs.fired] at hx
    right; exact (List.mem_filter.mp hx).1
  | loop =>
    obtain ⟨h1, h2, _, _, _, h6, _, h8⟩ := runOnce_spec s
    refine ⟨by simp only [step]; omega, ?_, ?_, ?_, ?_⟩
    · intro x hx; left; simp only [step] at hx; rw [← h1]; exact List.mem_append_right _ hx
    · intro x hx; simp only [step] at hx; rw [h8] at hx; cases hx
    · intro x hx
      simp only [step, Obs.dequeued] at hx
      rw [← h1]; exact List.mem_append_left _ hx
    · intro x hx
      simp only [step, Obs.fired] at hx
      rw [h2] at hx
      rcases List.mem_append.mp (List.mem_filter.mp hx).1 with hx | hx
      · right; exact hx
      · left; rw [← h1]; exact List.mem_append_left _ hx
  | remaining => exact ⟨Nat.le_refl _, fun x hx => Or.inl hx, fun x hx => Or.inr hx, fun x hx => absurd hx List.not_mem_nil, fun x hx => absurd hx List.not_mem_nil⟩
  | find f a => exact ⟨Nat.le_refl _, fun x hx => Or.inl hx, fun x hx => Or.inr hx, fun x hx => absurd hx List.not_mem_nil, fun x hx => absurd hx List.not_mem_nil⟩
  | invalidate a =>
    refine ⟨?_, ?_, ?_, fun x hx => absurd hx List.not_mem_nil, fun x hx => absurd hx List.not_mem_nil⟩
    · simp only [step, invalidate]; split <;> exact Nat.le_refl _
    · intro x hx; left; simp only [step, invalidate] at hx; split at hx <;> exact hx
    · intro x hx; right; simp only [step, invalidate] at hx; split at hx <;> exact hx
  | pending => exact ⟨Nat.le_refl _, fun x hx => Or.inl hx, fun x hx => Or.inr hx, fun x hx => absurd hx List.not_mem_nil, fun x hx => absurd hx List.not_mem_nil⟩

/-- Whatever a later history dequeues or fires was scheduled or queued at its start, or carries a fresh id. -/
theorem later_origin (s : St) (ops : List Op) :
    (∀ x ∈ dequeuedIn s ops, x ∈ s.tasks ∨ s.nextId ≤ x.id) ∧
    (∀ x ∈ firedIn s ops, x ∈ s.tasks ∨ x ∈ s.queue ∨ s.nextId ≤ x.id) := by
  induction ops generalizing s with
  | nil => exact ⟨fun x hx => absurd hx List.not_mem_nil, fun x hx => absurd hx List.not_mem_nil⟩
  | cons op ops ih =>
    obtain ⟨hn, ht, hq, hd, hf⟩ := step_origin s op
    obtain ⟨ihd, ihf⟩ := ih (step s op).1
    constructor
    · intro x hx
      simp only [dequeuedIn, run, List.flatMap_cons] at hx
      rcases List.mem_append.mp hx with hx | hx
      · exact Or.inl (hd x hx)
      · rcases ihd x hx with h | h
        · rcases ht x h with h | h
          · exact Or.inl h
          · exact Or.inr h
        · exact Or.inr (by omega)
    · intro x hx
      simp only [firedIn, run, List.flatMap_cons] at hx
      rcases List.mem_append.mp hx with hx | hx
      · rcases hf x hx with h | h
        · exact Or.inl h
        · exact Or.inr (Or.inl h)
      · rcases ihf x hx with h | h | h
        · rcases ht x h with h | h
          · exact Or.inl h
          · exact Or.inr (Or.inr h)
        · rcases hq x h with h | h
          · exact Or.inl h
          · exact Or.inr (Or.inl h)
        · exact Or.inr (Or.inr (by omega))

/-- An event that left the list (and is not in the call queue) is never dequeued or fired again. -/
theorem gone_never_again {s s' : St} (h : Inv s) (e : Ev) (he : e ∈ s.tasks)
    (ht : s'.tasks.Sublist s.tasks) (hq : s'.queue = s.queue) (hn : s'.nextId = s.nextId) (hgone : e ∉ s'.tasks)
    (ops : List Op) : (∀ x ∈ dequeuedIn s' ops, x.id ≠ e.id) ∧ (∀ x ∈ firedIn s' ops, x.id ≠ e.id) := by
  obtain ⟨hd, hf⟩ := later_origin s' ops
  have hfresh := h.fresh e (List.mem_append_left _ he)
  have key : ∀ x, x ∈ s'.tasks ∨ x ∈ s'.queue ∨ s'.nextId ≤ x.id → x.id ≠ e.id := by
    intro x hx hid
    rcases hx with hx | hx | hx
    · have := eq_of_id_eq h.nodup (List.mem_append_left _ (ht.subset hx)) (List.mem_append_left _ he) hid
      exact hgone (this ▸ hx)
    · rw [hq] at hx
      have hxe := eq_of_id_eq h.nodup (List.mem_append_right _ hx) (List.mem_append_left _ he) hid
      subst hxe
      have hnd := h.nodup
      rw [List.map_append, List.nodup_append] at hnd
      exact hnd.2.2 x.id (List.mem_map.mpr ⟨x, he, rfl⟩) x.id (List.mem_map.mpr ⟨x, hx, rfl⟩) rfl
    · rw [hn] at hx; omega
  exact ⟨fun x hx => key x ((hd x hx).elim Or.inl (fun h => Or.inr (Or.inr h))), fun x hx => key x (hf x hx)⟩

end SquidModel.Event
