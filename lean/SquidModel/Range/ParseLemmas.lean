/-
Lemmas about the parsing side of the Range model: value bounds of `httpHeaderParseOffset`, what
`HttpHdrRangeSpec::parseInit` can return (well-formed specs; it never faults),
and the item loop of `HttpHdrRange::parseInit` as a fold over the items `strListGetItem` yields.
-/
import SquidModel.Range.CanonLemmas

namespace SquidModel.Range

/-! ### httpHeaderParseOffset -/

theorem clampLL_bounds (v : Int) : LLONG_MIN ≤ clampLL v ∧ clampLL v ≤ LLONG_MAX := by
  have e1 := LLONG_MAX_eq; have e2 := LLONG_MIN_eq
  unfold clampLL
  split
  · omega
  · split <;> omega

theorem strtollDigits_bounds (s : Bytes) (neg : Bool) (u : Bytes) :
    LLONG_MIN ≤ (strtollDigits s neg u).value ∧ (strtollDigits s neg u).value ≤ LLONG_MAX := by
  have e1 := LLONG_MAX_eq; have e2 := LLONG_MIN_eq
  unfold strtollDigits
  split
  · split
    · exact clampLL_bounds _
    · simp only; omega
  · simp only; omega

theorem strtoll_bounds (s : Bytes) : LLONG_MIN ≤ (strtoll s).value ∧ (strtoll s).value ≤ LLONG_MAX :=
  strtollDigits_bounds _ _ _

theorem parseOffset_bounds {s : Bytes} {v : Int} {c : Nat} (h : parseOffset s = some (v, c)) :
    LLONG_MIN ≤ v ∧ v ≤ LLONG_MAX := by
  unfold parseOffset at h
  simp only at h
  split at h
  · cases h
  · split at h
    · cases h
    · split at h
      · cases h
      · injection h with h; injection h with h _; subst h; exact strtoll_bounds s

/-! ### parseBytePos and HttpHdrRangeSpec::parseInit -/

/-- a byte position that is accepted is a non-negative `int64_t` -/
theorem parseBytePos_bounds {t : Bytes} {len : Nat} {v : Int} (h : parseBytePos t len = some v) : 0 ≤ v ∧ v ≤ LLONG_MAX := by
  unfold parseBytePos at h
  split at h
  · cases h
  · split at h
    · cases h
    · split at h
      · cases h
      · split at h
        · cases h
        · rename_i v' c hpo
          split at h
          · cases h
          · split at h
            · rename_i hk
              injection h with h; subst h
              have := (known_iff _).mp hk
              exact ⟨by omega, (parseOffset_bounds hpo).2⟩
            · cases h

/-- the last-byte-pos branch never overflows: INT64_MAX is lowered by one before `+ 1` -/
theorem parseLast_cases (off : Int) (p : Bytes) (plen : Nat) (ho0 : 0 ≤ off) (hob : off ≤ LLONG_MAX) :
    parseLast off p plen = .invalid ∨
    ∃ last, parseBytePos p plen = some last ∧ off ≤ last ∧
      parseLast off p plen = .ok ⟨off, (if last = LLONG_MAX then last - 1 else last) + 1 - off⟩ := by
  have e1 := LLONG_MAX_eq; have e2 := LLONG_MIN_eq
  unfold parseLast
  cases hp : parseBytePos p plen with
  | none => exact Or.inl rfl
  | some last =>
    have hb := parseBytePos_bounds hp
    simp only
    by_cases hlt : last < off
    · simp [hlt]
    · right
      refine ⟨last, rfl, by omega, ?_⟩
      simp only [hlt, if_false]
      by_cases hmax : last = LLONG_MAX
      · simp only [hmax, if_true]
        rw [add64_ok (by omega) (by omega)]
        simp only
        rw [size_ok (by simp only; omega) (by simp only; omega)]
        simp only
        by_cases hgt : LLONG_MAX - 1 + 1 > off
        · simp [hgt] <;> omega
        · have : off = LLONG_MAX := by omega
          simp [hgt, this] <;> omega
      · simp only [hmax, if_false]
        rw [add64_ok (by omega) (by omega)]
        simp only
        rw [size_ok (by simp only; omega) (by simp only; omega)]
        have hgt : last + 1 > off := by omega
        simp [hgt] <;> omega

theorem parseLast_wf {off : Int} {p : Bytes} {plen : Nat} {s : Spec} (ho0 : 0 ≤ off) (hob : off ≤ LLONG_MAX)
    (h : parseLast off p plen = .ok s) : s.WF := by
  have e1 := LLONG_MAX_eq
  rcases parseLast_cases off p plen ho0 hob with hi | ⟨last, hp, hle, hok⟩
  · rw [hi] at h; cases h
  · rw [hok] at h; injection h with h; subst h
    have hb := parseBytePos_bounds hp
    refine Or.inr (Or.inr ⟨by simp only; omega, ?_, ?_⟩)
    · simp only; split <;> omega
    · simp only; split <;> omega

theorem parseLast_no_fault {off : Int} {p : Bytes} {plen : Nat} (ho0 : 0 ≤ off) (hob : off ≤ LLONG_MAX) (f : Fault) :
    parseLast off p plen ≠ .fault f := by
  intro h
  rcases parseLast_cases off p plen ho0 hob with hi | ⟨last, _, _, hok⟩
  · rw [hi] at h; cases h
  · rw [hok] at h; cases h

theorem parseFirst_wf {field : Bytes} {flen k : Nat} {s : Spec} (h : parseFirst field flen k = .ok s) : s.WF := by
  have e3 := Unknown_eq
  unfold parseFirst at h
  split at h
  · cases h
  · rename_i off hoff
    have hob := parseBytePos_bounds hoff
    split at h
    · exact parseLast_wf hob.1 hob.2 h
    · injection h with h; subst h
      exact Or.inr (Or.inl ⟨hob.1, hob.2, by simp only; omega⟩)

theorem parseFirst_no_fault {field : Bytes} {flen k : Nat} (f : Fault) : parseFirst field flen k ≠ .fault f := by
  intro h
  unfold parseFirst at h
  split at h
  · cases h
  · rename_i off hoff
    have hob := parseBytePos_bounds hoff
    split at h
    · exact parseLast_no_fault hob.1 hob.2 f h
    · cases h

theorem parseSuffix_wf {rest : Bytes} {flen : Nat} {s : Spec} (h : parseSuffix rest flen = .ok s) : s.WF := by
  have e3 := Unknown_eq
  unfold parseSuffix at h
  split at h
  · cases h
  · rename_i len hlen
    injection h with h; subst h
    have hb := parseBytePos_bounds hlen
    exact Or.inl ⟨by simp only; omega, hb.1, hb.2⟩

/-- whatever `parseInit` accepts is a well-formed spec (suffix / trailer / range with `offset + length ≤ INT64_MAX`) -/
theorem parseSpec_wf {field : Bytes} {flen : Nat} {s : Spec} (h : parseSpec field flen = .ok s) : s.WF := by
  unfold parseSpec at h
  split at h
  · cases h
  · split at h
    · exact parseSuffix_wf h
    · split at h
      · cases h
      · split at h
        · exact parseFirst_wf h
        · cases h

/-- `parseInit` performs no arithmetic that can overflow and has no assertion: it never faults -/
theorem parseSpec_no_fault (field : Bytes) (flen : Nat) (f : Fault) : parseSpec field flen ≠ .fault f := by
  intro h
  unfold parseSpec at h
  split at h
  · cases h
  · split at h
    · unfold parseSuffix at h
      split at h <;> cases h
    · split at h
      · cases h
      · split at h
        · exact parseFirst_no_fault f h
        · cases h

/-! ### the item loop as a fold over the items -/

/-- the `(field, ilen)` pairs `strListGetItem` hands to `HttpHdrRangeSpec::Create`, in order -/
def itemsOf : Nat → Bytes → List (Bytes × Nat)
  | 0, _ => []
  | fuel + 1, pos =>
    let p1 := skipLeading pos
    let n := scanItem false p1
    let ilen := rtrimLen (p1.take n)
    if ilen = 0 then [] else (p1, ilen) :: itemsOf fuel (p1.drop n)

/-- what the loop does with them -/
def collect : List (Bytes × Nat) → List Spec → Except Fault (List Spec)
  | [], acc => .ok acc
  | (f, n) :: r, acc =>
    match parseSpec f n with
    | .invalid => .ok []
    | .fault e => .error e
    | .ok s => collect r (acc ++ [s])

theorem parseItems_eq (fuel : Nat) (pos : Bytes) (acc : List Spec) :
    parseItems fuel pos acc = collect (itemsOf fuel pos) acc := by
  induction fuel generalizing pos acc with
  | zero => rfl
  | succ fuel ih =>
    simp only [parseItems, itemsOf]
    split
    · rfl
    · simp only [collect]
      split <;> simp_all

/-- an item the spec parser refuses makes the loop end with no specs (or with the fault of an earlier item) -/
theorem collect_invalid {items : List (Bytes × Nat)} {f : Bytes} {n : Nat} (hm : (f, n) ∈ items)
    (hinv : parseSpec f n = .invalid) (acc : List Spec) :
    collect items acc = .ok [] ∨ ∃ e, collect items acc = .error e := by
  induction items generalizing acc with
  | nil => cases hm
  | cons it rest ih =>
    obtain ⟨f', n'⟩ := it
    simp only [collect]
    rcases List.mem_cons.mp hm with heq | hm'
    · injection heq with h1 h2; subst h1; subst h2
      simp [hinv]
    · cases hp : parseSpec f' n' with
      | invalid => simp
      | fault e => exact Or.inr ⟨e, rfl⟩
      | ok s => exact ih hm' _

/-- when the loop succeeds, the specs are exactly the parsed items, in order, appended to `acc` -/
theorem collect_ok {items : List (Bytes × Nat)} {acc specs : List Spec} (h : collect items acc = .ok specs)
    (hne : specs ≠ []) :
    ∃ parsed, specs = acc ++ parsed ∧ parsed.length = items.length ∧
      ∀ p ∈ items.zip parsed, parseSpec p.1.1 p.1.2 = .ok p.2 := by
  induction items generalizing acc with
  | nil => simp only [collect] at h; injection h with h; subst h; exact ⟨[], by simp, rfl, by simp⟩
  | cons it rest ih =>
    obtain ⟨f, n⟩ := it
    simp only [collect] at h
    split at h
    · injection h with h; exact absurd h.symm hne
    · cases h
    · rename_i s hs
      obtain ⟨parsed, h1, h2, h3⟩ := ih h
      refine ⟨s :: parsed, by simp [h1], by simp [h2], ?_⟩
      intro p hp
      simp only [List.zip_cons_cons, List.mem_cons] at hp
      rcases hp with rfl | hp
      · exact hs
      · exact h3 p hp

theorem collect_wf {items : List (Bytes × Nat)} {acc specs : List Spec} (h : collect items acc = .ok specs)
    (hacc : ∀ s ∈ acc, s.WF) : ∀ s ∈ specs, s.WF := by
  induction items generalizing acc with
  | nil => simp only [collect] at h; injection h with h; subst h; exact hacc
  | cons it rest ih =>
    obtain ⟨f, n⟩ := it
    simp only [collect] at h
    split at h
    · injection h with h; subst h; intro s hs; cases hs
    · cases h
    · rename_i s hs
      refine ih h ?_
      intro x hx
      rcases List.mem_append.mp hx with hx | hx
      · exact hacc x hx
      · simp only [List.mem_singleton] at hx; subst hx; exact parseSpec_wf hs

theorem collect_fault {items : List (Bytes × Nat)} {acc : List Spec} {e : Fault} (h : collect items acc = .error e) :
    ∃ p ∈ items, parseSpec p.1 p.2 = .fault e := by
  induction items generalizing acc with
  | nil => cases h
  | cons it rest ih =>
    obtain ⟨f, n⟩ := it
    simp only [collect] at h
    split at h
    · cases h
    · rename_i e' he
      injection h with h; subst h
      exact ⟨(f, n), List.mem_cons_self, he⟩
    · obtain ⟨p, hp, hpf⟩ := ih h
      exact ⟨p, List.mem_cons_of_mem _ hp, hpf⟩

/-- the item loop never faults -/
theorem collect_no_fault (items : List (Bytes × Nat)) (acc : List Spec) (e : Fault) : collect items acc ≠ .error e := by
  intro h
  obtain ⟨p, _, hpf⟩ := collect_fault h
  exact parseSpec_no_fault _ _ _ hpf

/-- everything an accepted header yields is well-formed -/
theorem parseHeader_wf {v : Bytes} {specs : List Spec} (h : parseHeader v = .ok (some specs)) : ∀ s ∈ specs, s.WF := by
  unfold parseHeader at h
  split at h
  · cases h
  · rw [parseItems_eq] at h
    split at h
    · cases h
    · cases h
    · rename_i specs' hne hc
      injection h with h; injection h with h; subst h
      exact collect_wf hc (by intro s hs; cases hs)

end SquidModel.Range
