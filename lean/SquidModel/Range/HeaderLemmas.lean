/-
Header level: every layout of a byte-range-set (specs separated by commas with optional SP/HTAB, empty list elements,
white space after `bytes=`) is cut by the model of `strListGetItem` into exactly its specs, and each is read correctly.
-/
import SquidModel.Range.RfcLemmas

namespace SquidModel.Range

def AllLeading (l : Bytes) : Prop := l.all isListLeading = true
def AllOWS (t : Bytes) : Prop := t.all isOWS = true
instance (l : Bytes) : Decidable (AllLeading l) := by unfold AllLeading; exact inferInstance
instance (t : Bytes) : Decidable (AllOWS t) := by unfold AllOWS; exact inferInstance

/-- layouts of `1#( byte-range-spec / suffix-byte-range-spec )` as a recipient must accept them (RFC 7230 section 7):
`l` = commas and white space in front of an element, `t` = SP/HTAB behind it -/
inductive Body : List Rfc → Bytes → Prop
  | last (r : Rfc) (l t e : Bytes) : AllLeading l → AllOWS t → (e = [] ∨ ∃ l', e = 44 :: l' ∧ AllLeading l') →
      Body [r] (l ++ r.text ++ t ++ e)
  | cons (r : Rfc) (rs : List Rfc) (l t b : Bytes) : AllLeading l → AllOWS t → Body rs b →
      Body (r :: rs) (l ++ r.text ++ t ++ 44 :: b)

/-! ### strListGetItem pieces -/

theorem skipLeading_append (a x : Bytes) (h : AllLeading a) : skipLeading (a ++ x) = skipLeading x := by
  induction a with
  | nil => rfl
  | cons c a ih =>
    simp only [AllLeading, List.all_cons, Bool.and_eq_true] at h
    simp only [List.cons_append, skipLeading, h.1, if_true]
    exact ih h.2

theorem skipLeading_all (a : Bytes) (h : AllLeading a) : skipLeading a = [] := by
  have := skipLeading_append a [] h
  simpa [skipLeading] using this

theorem scanItem_plain (a rest : Bytes) (ha : ∀ c ∈ a, c ≠ 34 ∧ c ≠ 44) (hr : rest = [] ∨ ∃ b, rest = 44 :: b) :
    scanItem false (a ++ rest) = a.length := by
  induction a with
  | nil =>
    rcases hr with rfl | ⟨b, rfl⟩
    · rfl
    · simp [scanItem]
  | cons c a ih =>
    have hc := ha c List.mem_cons_self
    simp only [List.cons_append, scanItem, hc.1, hc.2, if_false, List.length_cons]
    rw [ih (fun x hx => ha x (List.mem_cons_of_mem _ hx))]
    omega

theorem dropWhile_space_append (t x : Bytes) (ht : t.all isSpace = true) :
    (t ++ x).dropWhile isSpace = x.dropWhile isSpace := by
  induction t with
  | nil => rfl
  | cons c t ih =>
    simp only [List.all_cons, Bool.and_eq_true] at ht
    simp only [List.cons_append, List.dropWhile_cons, ht.1, if_true]
    exact ih ht.2

theorem rtrimLen_append (init : Bytes) (c : UInt8) (t : Bytes) (hc : isSpace c = false) (ht : t.all isSpace = true) :
    rtrimLen (init ++ [c] ++ t) = (init ++ [c]).length := by
  unfold rtrimLen
  have hrev : (init ++ [c] ++ t).reverse = t.reverse ++ (c :: init.reverse) := by simp
  rw [hrev, dropWhile_space_append _ _ (by simpa using ht)]
  simp [List.dropWhile_cons, hc]

theorem ows_space {t : Bytes} (h : AllOWS t) : t.all isSpace = true := by
  simp only [AllOWS, List.all_eq_true] at h ⊢
  intro c hc
  have := ows_facts c; simp [h c hc] at this; exact this.1.1.1.1

theorem ows_plain {t : Bytes} (h : AllOWS t) : ∀ c ∈ t, c ≠ 34 ∧ c ≠ 44 := by
  simp only [AllOWS, List.all_eq_true] at h
  intro c hc
  have := ows_facts c; simp [h c hc] at this; exact ⟨this.1.1.2, this.1.2⟩

theorem ows_noDigitHead {t rest : Bytes} (h : AllOWS t) (hr : rest = [] ∨ ∃ b, rest = 44 :: b) : NoDigitHead (t ++ rest) := by
  intro d r heq
  cases t with
  | nil =>
    rcases hr with rfl | ⟨b, rfl⟩
    · cases heq
    · simp only [List.nil_append] at heq; injection heq with h1 _; subst h1; decide
  | cons c t =>
    simp only [List.cons_append] at heq; injection heq with h1 _; subst h1
    simp only [AllOWS, List.all_cons, Bool.and_eq_true] at h
    have := ows_facts c; simp [h.1] at this; exact this.1.1.1.2

/-! ### the list ends only at the end of the header (since squid commit 43aac5c every `xisspace` byte is skipped in front of an item) -/

theorem space_is_leading : ∀ b : UInt8, (!isSpace b || isListLeading b) = true :=
  forall_octet _ (by decide +kernel)

theorem skipLeading_head {pos : Bytes} {c : UInt8} {r : Bytes} (h : skipLeading pos = c :: r) : isListLeading c = false := by
  induction pos with
  | nil => cases h
  | cons x xs ih =>
    simp only [skipLeading] at h
    split at h
    · exact ih h
    · rename_i hx
      injection h with h1 _; subst h1
      simpa using hx

theorem skipLeading_nil {pos : Bytes} (h : skipLeading pos = []) : ∀ c ∈ pos, isListLeading c = true := by
  induction pos with
  | nil => intro c hc; cases hc
  | cons x xs ih =>
    simp only [skipLeading] at h
    split at h
    · rename_i hx
      intro c hc
      rcases List.mem_cons.mp hc with rfl | hc
      · exact hx
      · exact ih h c hc
    · cases h

theorem dropWhile_snoc_ne_nil (l : Bytes) (c : UInt8) (hc : isSpace c = false) : (l ++ [c]).dropWhile isSpace ≠ [] := by
  induction l with
  | nil => simp [List.dropWhile_cons, hc]
  | cons x l ih =>
    simp only [List.cons_append, List.dropWhile_cons]
    split
    · exact ih
    · simp

theorem rtrimLen_pos (c : UInt8) (x : Bytes) (hc : isSpace c = false) : 0 < rtrimLen (c :: x) := by
  unfold rtrimLen
  rw [List.reverse_cons]
  exact List.length_pos_iff.mpr (dropWhile_snoc_ne_nil _ c hc)

theorem scanItem_pos (c : UInt8) (r : Bytes) (hc : c ≠ 44) : 0 < scanItem false (c :: r) := by
  simp only [scanItem, hc, if_false]
  split <;> omega

/-- the first thing after the skipped commas/white space is always a non-empty item -/
theorem first_item_nonempty {pos : Bytes} {c : UInt8} {r : Bytes} (h : skipLeading pos = c :: r) :
    rtrimLen ((c :: r).take (scanItem false (c :: r))) ≠ 0 := by
  have hl := skipLeading_head h
  have hc44 : c ≠ 44 := by intro h44; subst h44; revert hl; decide
  have hsp : isSpace c = false := by
    have := space_is_leading c
    cases hs : isSpace c with
    | false => rfl
    | true => simp [hs, hl] at this
  obtain ⟨n, hn⟩ : ∃ n, scanItem false (c :: r) = n + 1 := ⟨scanItem false (c :: r) - 1, by have := scanItem_pos c r hc44; omega⟩
  rw [hn, List.take_succ_cons]
  have := rtrimLen_pos c (r.take n) hsp
  omega

/-- the item loop stops only when nothing but commas and list white space is left -/
theorem itemsOf_nil {fuel : Nat} {pos : Bytes} (h : itemsOf (fuel + 1) pos = []) : ∀ c ∈ pos, isListLeading c = true := by
  cases hs : skipLeading pos with
  | nil => exact skipLeading_nil hs
  | cons c r =>
    simp only [itemsOf, hs] at h
    have := first_item_nonempty hs
    simp [this] at h

/-! ### shape of the text of a valid spec -/

theorem num_plain {ds : Bytes} (h : ds.all isDigit = true) : ∀ c ∈ ds, c ≠ 34 ∧ c ≠ 44 := by
  simp only [List.all_eq_true] at h
  intro c hc; exact ⟨digit_ne_quote (h c hc), digit_ne_comma (h c hc)⟩

theorem text_plain (r : Rfc) (hv : r.Valid) : ∀ c ∈ r.text, c ≠ 34 ∧ c ≠ 44 := by
  intro c hc
  cases r with
  | range f l =>
    simp only [Rfc.text, List.mem_append, List.mem_cons] at hc
    rcases hc with hc | rfl | hc
    · exact num_plain hv.1.2 c hc
    · decide
    · exact num_plain hv.2.1.2 c hc
  | «from» f =>
    simp only [Rfc.text, List.mem_append, List.mem_singleton] at hc
    rcases hc with hc | rfl
    · exact num_plain hv.1.2 c hc
    · decide
  | suffix n =>
    simp only [Rfc.text, List.mem_cons] at hc
    rcases hc with rfl | hc
    · decide
    · exact num_plain hv.1.2 c hc

theorem num_head {ds : Bytes} (h : IsNum ds) : ∃ c tl, ds = c :: tl ∧ isDigit c = true := by
  obtain ⟨hne, hd⟩ := h
  match ds, hne with
  | c :: tl, _ => simp only [List.all_cons, Bool.and_eq_true] at hd; exact ⟨c, tl, rfl, hd.1⟩

theorem num_last {ds : Bytes} (h : IsNum ds) : ∃ init c, ds = init ++ [c] ∧ isDigit c = true := by
  obtain ⟨hne, hd⟩ := h
  refine ⟨ds.dropLast, ds.getLast hne, (List.dropLast_concat_getLast hne).symm, ?_⟩
  simp only [List.all_eq_true] at hd
  exact hd _ (List.getLast_mem hne)

theorem text_head (r : Rfc) (hv : r.Valid) : ∃ c tl, r.text = c :: tl ∧ isListLeading c = false := by
  cases r with
  | range f l =>
    obtain ⟨c, tl, rfl, hc⟩ := num_head hv.1
    exact ⟨c, tl ++ 45 :: l, by simp [Rfc.text], digit_not_leading hc⟩
  | «from» f =>
    obtain ⟨c, tl, rfl, hc⟩ := num_head hv.1
    exact ⟨c, tl ++ [45], by simp [Rfc.text], digit_not_leading hc⟩
  | suffix n => exact ⟨45, n, rfl, by decide⟩

theorem text_last (r : Rfc) (hv : r.Valid) : ∃ init c, r.text = init ++ [c] ∧ isSpace c = false := by
  cases r with
  | range f l =>
    obtain ⟨init, c, rfl, hc⟩ := num_last hv.2.1
    exact ⟨f ++ 45 :: init, c, by simp [Rfc.text], digit_not_space hc⟩
  | «from» f => exact ⟨f, 45, rfl, by decide⟩
  | suffix n =>
    obtain ⟨init, c, rfl, hc⟩ := num_last hv.1
    exact ⟨45 :: init, c, by simp [Rfc.text], digit_not_space hc⟩

/-! ### one round of the loop, and the whole loop -/

theorem parseItems_end (fuel : Nat) (x : Bytes) (hx : AllLeading x) (acc : List Spec) :
    parseItems (fuel + 1) x acc = .ok acc := by
  simp [parseItems, skipLeading_all x hx, scanItem, rtrimLen]

/-- one element `l ++ text ++ t` followed by `rest` (nothing, or a comma and more): the loop appends the spec and goes on at `rest` -/
theorem parseItems_step (fuel : Nat) (pre l t rest : Bytes) (r : Rfc) (hv : r.Valid) (hpre : AllLeading pre) (hl : AllLeading l)
    (ht : AllOWS t) (hr : rest = [] ∨ ∃ b, rest = 44 :: b) (acc : List Spec) :
    parseItems (fuel + 1) (pre ++ (l ++ r.text ++ t ++ rest)) acc = parseItems fuel rest (acc ++ [r.toSpec]) := by
  obtain ⟨c, tl, htext, hc⟩ := text_head r hv
  obtain ⟨init, cl, hlast, hcl⟩ := text_last r hv
  have hskip : skipLeading (pre ++ (l ++ r.text ++ t ++ rest)) = r.text ++ t ++ rest := by
    have : pre ++ (l ++ r.text ++ t ++ rest) = pre ++ (l ++ (r.text ++ t ++ rest)) := by simp
    rw [this, skipLeading_append _ _ hpre, skipLeading_append _ _ hl, htext]
    simp [skipLeading, hc]
  have hplain : ∀ c ∈ r.text ++ t, c ≠ 34 ∧ c ≠ 44 := by
    intro c hc
    rcases List.mem_append.mp hc with hc | hc
    · exact text_plain r hv c hc
    · exact ows_plain ht c hc
  have hscan : scanItem false (r.text ++ t ++ rest) = (r.text ++ t).length := scanItem_plain _ _ hplain hr
  have htake : (r.text ++ t ++ rest).take (r.text ++ t).length = r.text ++ t := List.take_left' rfl
  have hdrop : (r.text ++ t ++ rest).drop (r.text ++ t).length = rest := List.drop_left' rfl
  have htrim : rtrimLen (r.text ++ t) = r.text.length := by
    rw [hlast]; exact rtrimLen_append init cl t hcl (ows_space ht)
  have hlen : r.text.length ≠ 0 := by rw [htext]; simp
  have hparse : parseSpec (r.text ++ t ++ rest) r.text.length = .ok r.toSpec := by
    have : r.text ++ t ++ rest = r.text ++ (t ++ rest) := by simp
    rw [this]; exact parseSpec_rfc r hv _ (ows_noDigitHead ht hr)
  simp only [parseItems, hskip, hscan, htake, hdrop, htrim, hlen, if_false, hparse]

theorem parseItems_body {rs : List Rfc} {b : Bytes} (hb : Body rs b) (hv : ∀ r ∈ rs, r.Valid) :
    ∀ (fuel : Nat) (pre : Bytes) (acc : List Spec), AllLeading pre → b.length + 1 ≤ fuel →
      parseItems fuel (pre ++ b) acc = .ok (acc ++ rs.map Rfc.toSpec) := by
  induction hb with
  | last r l t e hl ht he =>
    intro fuel pre acc hpre hfuel
    have hrv := hv r List.mem_cons_self
    obtain ⟨c, tl, htext, _⟩ := text_head r hrv
    have hlenpos : 2 ≤ (l ++ r.text ++ t ++ e).length + 1 := by
      simp only [List.length_append, htext, List.length_cons]; omega
    obtain ⟨f1, rfl⟩ : ∃ f1, fuel = f1 + 1 := ⟨fuel - 1, by omega⟩
    obtain ⟨f2, rfl⟩ : ∃ f2, f1 = f2 + 1 := ⟨f1 - 1, by omega⟩
    have hr : e = [] ∨ ∃ b, e = 44 :: b := by
      rcases he with rfl | ⟨l', rfl, _⟩
      · exact Or.inl rfl
      · exact Or.inr ⟨l', rfl⟩
    rw [parseItems_step _ pre l t e r hrv hpre hl ht hr acc]
    have hall : AllLeading e := by
      rcases he with rfl | ⟨l', rfl, hl'⟩
      · rfl
      · simp only [AllLeading, List.all_cons, Bool.and_eq_true]; exact ⟨by decide, hl'⟩
    rw [parseItems_end f2 e hall]; simp
  | cons r rs l t b hl ht _ ih =>
    intro fuel pre acc hpre hfuel
    have hrv := hv r List.mem_cons_self
    obtain ⟨c, tl, htext, _⟩ := text_head r hrv
    have hlen : (l ++ r.text ++ t ++ 44 :: b).length ≥ b.length + 2 := by
      simp only [List.length_append, htext, List.length_cons]; omega
    obtain ⟨f1, rfl⟩ : ∃ f1, fuel = f1 + 1 := ⟨fuel - 1, by omega⟩
    rw [parseItems_step _ pre l t (44 :: b) r hrv hpre hl ht (Or.inr ⟨b, rfl⟩) acc]
    have h44 : AllLeading [44] := by unfold AllLeading; decide
    have := ih (fun x hx => hv x (List.mem_cons_of_mem _ hx)) f1 [44] (acc ++ [r.toSpec]) h44 (by omega)
    simp only [List.singleton_append] at this
    rw [this]; simp

theorem body_ne_nil {rs : List Rfc} {b : Bytes} (hb : Body rs b) : rs ≠ [] := by
  cases hb <;> simp

/-- a `bytes=` header (any letter case) with a byte-range-set of valid specs in any layout is parsed to exactly those specs -/
theorem parseHeader_body (unit body : Bytes) (rs : List Rfc) (hu : unit.map toLower = [98, 121, 116, 101, 115, 61])
    (hb : Body rs body) (hv : ∀ r ∈ rs, r.Valid) :
    parseHeader (unit ++ body) = .ok (some (rs.map Rfc.toSpec)) := by
  have hulen : unit.length = 6 := by
    have := congrArg List.length hu; simpa using this
  have hprefix : hasBytesPrefix (unit ++ body) = true := by
    simp only [hasBytesPrefix, List.take_left' hulen, hu, beq_self_eq_true]
  have hdrop : (unit ++ body).drop 6 = body := List.drop_left' hulen
  have hitems := parseItems_body hb hv ((unit ++ body).length + 1) [] [] (by unfold AllLeading; decide)
    (by simp only [List.length_append]; omega)
  simp only [List.nil_append] at hitems
  simp only [parseHeader, hprefix, Bool.not_true, Bool.false_eq_true, if_false, hdrop, hitems]
  have hne := body_ne_nil hb
  cases rs with
  | nil => exact absurd rfl hne
  | cons r rs => simp

end SquidModel.Range
