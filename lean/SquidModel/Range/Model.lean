/-
Model of Range header parsing and canonicalisation:

* `strtoll(start, &end, 10)` with `errno` (ERANGE) as used by `httpHeaderParseOffset` (src/HttpHeaderTools.cc);
* `Range<int64_t, uint64_t>` (src/base/Range.h): `intersection`, `size`;
* `strListGetItem(str, ',', …)` (src/StrList.cc): leading delimiter skip, quote/escape aware scan, right trim;
* `parseBytePos` and `HttpHdrRangeSpec::parseInit` (as of squid commit cc9716a: byte positions are `1*DIGIT` ending at the
  item boundary), `::canonize`, `::mergeWith` (compiled-out branch) and
  `HttpHdrRange::parseInit`, `::getCanonizedSpecs`, `::merge`, `::canonize(int64_t)` (src/HttpHdrRange.cc).

`int64_t` arithmetic is modelled explicitly: every signed `+`/`-` of the code is a checked operation and leaving the range of
the type is the fault `ub` (undefined behaviour); a failing `assert` is the fault `assertion`.
Core-only (no Mathlib), so that the driver links.
-/
import SquidModel.Base.Bytes
import SquidModel.Gen.Range

namespace SquidModel.Range

/-! ### int64_t -/

def LLONG_MAX : Int := Gen.Range.llongMax
def LLONG_MIN : Int := Gen.Range.llongMin
/-- `HttpHdrRangeSpec::UnknownPosition` -/
def Unknown : Int := Gen.Range.unknownPosition

inductive Fault
  | ub          -- signed overflow
  | assertion   -- a failed `assert`
deriving Repr, DecidableEq

deriving instance DecidableEq for Except

def fits64 (x : Int) : Bool := decide (LLONG_MIN ≤ x) && decide (x ≤ LLONG_MAX)
def add64 (a b : Int) : Except Fault Int := if fits64 (a + b) then .ok (a + b) else .error .ub
def sub64 (a b : Int) : Except Fault Int := if fits64 (a - b) then .ok (a - b) else .error .ub

/-! ### strtoll(…, 10) with errno -/

/-- `isspace`: SP, HT, LF, VT, FF, CR -/
def isSpace (b : UInt8) : Bool := b == 32 || (9 ≤ b && b ≤ 13)
def isDigit (b : UInt8) : Bool := 48 ≤ b && b ≤ 57

def digitsVal : Bytes → Nat → Nat × Bytes
  | [], acc => (acc, [])
  | d :: ds, acc => if isDigit d then digitsVal ds (acc * 10 + (d.toNat - 48)) else (acc, d :: ds)

def skipSpace : Bytes → Bytes
  | [] => []
  | c :: r => if isSpace c then skipSpace r else c :: r

def takeSign : Bytes → Bool × Bytes
  | 45 :: r => (true, r)     -- '-'
  | 43 :: r => (false, r)    -- '+'
  | t => (false, t)

def clampLL (v : Int) : Int := if v > LLONG_MAX then LLONG_MAX else if v < LLONG_MIN then LLONG_MIN else v

structure Strtoll where
  value : Int
  /-- the text `*end` points at -/
  rest : Bytes
  /-- `end == start`: no conversion -/
  noDigits : Bool
  /-- `errno == ERANGE` -/
  erange : Bool
deriving Repr, DecidableEq

/-- the digits after white space and sign; `s` is the whole text (`end = start` when nothing converts) -/
def strtollDigits (s : Bytes) (neg : Bool) (u : Bytes) : Strtoll :=
  match u with
  | d :: _ =>
    if isDigit d then
      let v : Int := if neg then -((digitsVal u 0).1 : Int) else ((digitsVal u 0).1 : Int)
      { value := clampLL v, rest := (digitsVal u 0).2, noDigits := false,
        erange := decide (v > LLONG_MAX) || decide (v < LLONG_MIN) }
    else { value := 0, rest := s, noDigits := true, erange := false }
  | [] => { value := 0, rest := s, noDigits := true, erange := false }

def strtoll (s : Bytes) : Strtoll :=
  let su := takeSign (skipSpace s)
  strtollDigits s su.1 su.2

/-- `httpHeaderParseOffset(start, &value, &end)`: the value and the number of bytes `end - start`; `none` = false -/
def parseOffset (start : Bytes) : Option (Int × Nat) :=
  let r := strtoll start
  if r.erange && r.value == 0 then none                                         -- `errno && !res`
  else if r.erange && (r.value == LLONG_MIN || r.value == LLONG_MAX) then none   -- "huge offset"
  else if r.noDigits then none                                                   -- `start == end`
  else some (r.value, start.length - r.rest.length)

/-! ### Range<int64_t, uint64_t> -/

structure HttpRange where
  start : Int
  stop : Int
deriving Repr, DecidableEq

def HttpRange.intersection (a b : HttpRange) : HttpRange := ⟨max a.start b.start, min a.stop b.stop⟩

/-- `(uint64_t)(end > start ? end - start : 0)`, assigned back to an `int64_t` -/
def HttpRange.size (r : HttpRange) : Except Fault Int :=
  if r.stop > r.start then sub64 r.stop r.start else .ok 0

/-! ### HttpHdrRangeSpec -/

structure Spec where
  offset : Int
  length : Int
deriving Repr, DecidableEq

/-- `known_spec(s)`: `s > UnknownPosition` -/
def known (x : Int) : Bool := decide (x > Unknown)

inductive SpecParse
  | invalid
  | fault (f : Fault)
  | ok (s : Spec)
deriving Repr, DecidableEq

/-- index of the first `-` (`strchr(field, '-')`) -/
def dashIndex : Bytes → Option Nat
  | [] => none
  | c :: r => if c = 45 then some 0 else (dashIndex r).map (· + 1)

/-- `parseBytePos(start, end, value)` (file-static, HttpHdrRange.cc): `1*DIGIT` occupying exactly `[start, end)`;
`t` is the text from `start` to the end of the header, `len` is `end - start` (0 when `start >= end`) -/
def parseBytePos (t : Bytes) (len : Nat) : Option Int :=
  if len = 0 then none                               -- `start >= end`
  else match t with
    | [] => none                                     -- `*start` is the terminating NUL
    | d :: _ =>
      if !isDigit d then none                        -- `!xisdigit(*start)`: no white space, no sign
      else match parseOffset t with
        | none => none
        | some (v, consumed) =>
          if consumed ≠ len then none                -- `parsedEnd != end`: trailing garbage, or the number runs on
          else if known v then some v else none

/-- the last-byte-pos part of `parseInit`: `p` is the text after the `-`, `plen` what is left of the item,
`off` the first-byte-pos already parsed -/
def parseLast (off : Int) (p : Bytes) (plen : Nat) : SpecParse :=
  match parseBytePos p plen with
  | none => .invalid
  | some last =>
    if last < off then .invalid                      -- RFC 2616 s14.35.1 MUST: last-byte-pos >= first-byte-pos
    else
      let last' := if last = LLONG_MAX then last - 1 else last   -- "No representation has a byte at position INT64_MAX"
      match add64 last' 1 with                       -- `HttpRange aSpec(offset, last_pos + 1)`
      | .error f => .fault f
      | .ok e =>
        match (HttpRange.mk off e).size with         -- `length = aSpec.size()`
        | .error f => .fault f
        | .ok len => .ok ⟨off, len⟩

/-- the branch of `parseInit` for items not starting with `-`, once the first `-` was found at index `k < flen` -/
def parseFirst (field : Bytes) (flen k : Nat) : SpecParse :=
  match parseBytePos field k with                    -- `parseBytePos(field, p, offset)`
  | none => .invalid
  | some off =>
    if k + 1 < flen then parseLast off (field.drop (k + 1)) (flen - (k + 1))   -- "do we have last-pos ?"
    else .ok ⟨off, Unknown⟩                                                    -- trailer

/-- the suffix-byte-range-spec branch: `rest` is the text after the leading `-`, `flen` the item length -/
def parseSuffix (rest : Bytes) (flen : Nat) : SpecParse :=
  match parseBytePos rest (flen - 1) with            -- `parseBytePos(field + 1, fieldEnd, length)`
  | none => .invalid
  | some len => .ok ⟨Unknown, len⟩

/-- `HttpHdrRangeSpec::parseInit(field, flen)`; `field` is the text from the start of the item to the end of the header -/
def parseSpec (field : Bytes) (flen : Nat) : SpecParse :=
  if flen < 2 then .invalid else
  match field with
  | 45 :: rest => parseSuffix rest flen            -- `*field == '-'`
  | _ =>
    match dashIndex field with                     -- `strchr(field, '-')`
    | none => .invalid
    | some k => if k < flen then parseFirst field flen k else .invalid   -- "must have a '-' somewhere in _this_ field"

/-- the common tail of `HttpHdrRangeSpec::canonize`: "we have a range now, adjust length if needed" -/
def canonizeTail (offset length clen : Int) : Except Fault (Spec × Bool) :=
  if !known length then .error .assertion            -- assert(known_spec(length))
  else if !known offset then .error .assertion       -- assert(known_spec(offset))
  else match add64 offset length with                -- `offset + length`
    | .error f => .error f
    | .ok e =>
      match ((HttpRange.mk 0 clen).intersection ⟨offset, e⟩).size with
      | .error f => .error f
      | .ok len => .ok (⟨offset, len⟩, decide (len > 0))

/-- `HttpHdrRangeSpec::canonize(clen)`: the updated spec and the return value `length > 0` -/
def canonizeSpec (s : Spec) (clen : Int) : Except Fault (Spec × Bool) :=
  if !known s.offset then                            -- suffix
    if !known s.length then .error .assertion
    else match sub64 clen s.length with              -- `clen - length`
      | .error f => .error f
      | .ok st => canonizeTail ((HttpRange.mk 0 clen).intersection ⟨st, clen⟩).start s.length clen
  else if !known s.length then                       -- trailer
    match ((HttpRange.mk 0 clen).intersection ⟨s.offset, clen⟩).size with
    | .error f => .error f
    | .ok len => canonizeTail s.offset len clen
  else canonizeTail s.offset s.length clen

/-- `HttpHdrRangeSpec::mergeWith`: with MERGING_BREAKS_NOTHING undefined the body is `(void)donor; return false` -/
def mergeWith (_recipient _donor : Spec) : Bool := false

/-- `HttpHdrRange::getCanonizedSpecs` -/
def getCanonizedSpecs (clen : Int) : List Spec → Except Fault (List Spec)
  | [] => .ok []
  | s :: ss =>
    match canonizeSpec s clen with
    | .error f => .error f
    | .ok (c, good) =>
      match getCanonizedSpecs clen ss with
      | .error f => .error f
      | .ok rest => .ok (if good then c :: rest else rest)

/-- `HttpHdrRange::merge(basis)`; `acc` is `specs` in reverse. With `mergeWith` constantly false this is the identity. -/
def mergeLoop : Nat → List Spec → List Spec → List Spec
  | 0, _, acc => acc.reverse
  | _, [], acc => acc.reverse
  | fuel + 1, i :: rest, acc =>
    match acc with
    | last :: acc' => if mergeWith i last then mergeLoop fuel (i :: rest) acc' else mergeLoop fuel rest (i :: acc)
    | [] => mergeLoop fuel rest [i]

def merge (basis : List Spec) : List Spec := mergeLoop (2 * basis.length + 1) basis []

/-- `HttpHdrRange::canonize(int64_t)`: the specs afterwards (the return value is `specs.size() > 0`) -/
def canonize (specs : List Spec) (clen : Int) : Except Fault (List Spec) :=
  match getCanonizedSpecs clen specs with
  | .error f => .error f
  | .ok goods => .ok (merge goods)

/-! ### strListGetItem(str, ',', &item, &ilen, &pos) -/

/-- bytes skipped in front of an item: `delim[2]` = SP, ',', HT, CR, LF, VT, FF (all `xisspace` bytes and the comma; VT/FF
since squid commit 43aac5c) -/
def isListLeading (c : UInt8) : Bool := c == 32 || c == 44 || (9 ≤ c && c ≤ 13)

def skipLeading : Bytes → Bytes
  | [] => []
  | c :: r => if isListLeading c then skipLeading r else c :: r

/-- number of bytes up to the delimiter that ends the item (quotes toggle, backslash escapes inside quotes) -/
def scanItem : Bool → Bytes → Nat
  | _, [] => 0
  | false, c :: r =>
    if c = 34 then 1 + scanItem true r
    else if c = 44 then 0
    else 1 + scanItem false r
  | true, c :: r =>
    if c = 34 then 1 + scanItem false r
    else if c = 92 then
      match r with
      | [] => 1
      | _ :: r' => 2 + scanItem true r'
    else 1 + scanItem true r

/-- right trim by `xisspace`: the remaining length -/
def rtrimLen (item : Bytes) : Nat := (item.reverse.dropWhile isSpace).length

/-! ### HttpHdrRange::parseInit -/

def toLower (c : UInt8) : UInt8 := if 65 ≤ c && c ≤ 90 then c + 32 else c

/-- `range_spec->caseCmp("bytes=", 6) == 0` -/
def hasBytesPrefix (v : Bytes) : Bool := (v.take 6).map toLower == [98, 121, 116, 101, 115, 61]

/-- the `while (strListGetItem(…))` loop; `acc` is `specs`. An invalid item clears `specs` and ends the loop. -/
def parseItems : Nat → Bytes → List Spec → Except Fault (List Spec)
  | 0, _, acc => .ok acc
  | fuel + 1, pos, acc =>
    let p1 := skipLeading pos
    let n := scanItem false p1
    let ilen := rtrimLen (p1.take n)
    if ilen = 0 then .ok acc
    else match parseSpec p1 ilen with
      | .invalid => .ok []
      | .fault f => .error f
      | .ok s => parseItems fuel (p1.drop n) (acc ++ [s])

/-- `HttpHdrRange::ParseCreate`: `none` = the header is ignored -/
def parseHeader (v : Bytes) : Except Fault (Option (List Spec)) :=
  if !hasBytesPrefix v then .ok none
  else match parseItems (v.length + 1) (v.drop 6) [] with
    | .error f => .error f
    | .ok [] => .ok none
    | .ok specs => .ok (some specs)

end SquidModel.Range
