/-
Specification side of Range parsing — RFC 7233 byte-range-spec / suffix-byte-range-spec written with decimal digit
strings — and the proof that the model of squid's parser reads every such spec, in any comma / optional-white-space
layout, as exactly that spec.
-/
import SquidModel.Range.ParseLemmas
import SquidModel.Base.Finite

namespace SquidModel.Range

/-! ### character facts (decided over all 256 octets) -/

theorem isSpace_eq_gen : ∀ b : UInt8, (isSpace b == Gen.Range.cSpace.contains b) = true :=
  forall_octet _ (by decide +kernel)
theorem isDigit_eq_gen : ∀ b : UInt8, (isDigit b == Gen.Range.cDigit.contains b) = true :=
  forall_octet _ (by decide +kernel)
theorem isListLeading_eq_gen : ∀ b : UInt8, (isListLeading b == Gen.Range.listLeading.contains b) = true :=
  forall_octet _ (by decide +kernel)
/-- the only byte that ends an unquoted item is the comma; the trimmed trailing bytes are the `isspace` set -/
theorem list_delim_is_comma : Gen.Range.listDelim = [44] := by decide
theorem list_trailing_is_space : Gen.Range.listTrailing = Gen.Range.cSpace := by decide

/-- optional white space of RFC 7230: SP / HTAB -/
def isOWS (c : UInt8) : Bool := c == 32 || c == 9

theorem digit_facts : ∀ b : UInt8,
    (!isDigit b || (!isSpace b && b != 45 && b != 43 && b != 34 && b != 44 && !isListLeading b)) = true :=
  forall_octet _ (by decide +kernel)
theorem ows_facts : ∀ b : UInt8, (!isOWS b || (isSpace b && !isDigit b && b != 34 && b != 44 && isListLeading b)) = true :=
  forall_octet _ (by decide +kernel)

theorem digit_not_space {b : UInt8} (h : isDigit b = true) : isSpace b = false := by
  have := digit_facts b; simp [h] at this; exact this.1.1.1.1.1
theorem digit_ne_dash {b : UInt8} (h : isDigit b = true) : b ≠ 45 := by
  have := digit_facts b; simp [h] at this; exact this.1.1.1.1.2
theorem digit_ne_plus {b : UInt8} (h : isDigit b = true) : b ≠ 43 := by
  have := digit_facts b; simp [h] at this; exact this.1.1.1.2
theorem digit_ne_quote {b : UInt8} (h : isDigit b = true) : b ≠ 34 := by
  have := digit_facts b; simp [h] at this; exact this.1.1.2
theorem digit_ne_comma {b : UInt8} (h : isDigit b = true) : b ≠ 44 := by
  have := digit_facts b; simp [h] at this; exact this.1.2
theorem digit_not_leading {b : UInt8} (h : isDigit b = true) : isListLeading b = false := by
  have := digit_facts b; simp [h] at this; exact this.2

/-! ### decimal digit strings -/

def decVal (ds : Bytes) : Nat := ds.foldl (fun a d => a * 10 + (d.toNat - 48)) 0

/-- `1*DIGIT` -/
def IsNum (ds : Bytes) : Prop := ds ≠ [] ∧ ds.all isDigit = true

instance (ds : Bytes) : Decidable (IsNum ds) := by unfold IsNum; exact inferInstance

/-- the text after a number does not go on with a digit -/
def NoDigitHead (rest : Bytes) : Prop := ∀ d r, rest = d :: r → isDigit d = false

theorem digitsVal_append (ds rest : Bytes) (acc : Nat) (h : ds.all isDigit = true) (hr : NoDigitHead rest) :
    digitsVal (ds ++ rest) acc = (ds.foldl (fun a d => a * 10 + (d.toNat - 48)) acc, rest) := by
  induction ds generalizing acc with
  | nil =>
    cases rest with
    | nil => rfl
    | cons d r => simp [digitsVal, hr d r rfl]
  | cons d ds ih =>
    simp only [List.all_cons, Bool.and_eq_true] at h
    simp only [List.cons_append, digitsVal, h.1, if_true, List.foldl_cons]
    exact ih _ h.2

theorem skipSpace_digit {d : UInt8} {r : Bytes} (h : isDigit d = true) : skipSpace (d :: r) = d :: r := by
  simp [skipSpace, digit_not_space h]

theorem takeSign_digit {d : UInt8} {r : Bytes} (h : isDigit d = true) : takeSign (d :: r) = (false, d :: r) := by
  unfold takeSign
  split
  · rename_i heq; injection heq with h1 _; exact absurd h1 (digit_ne_dash h)
  · rename_i heq; injection heq with h1 _; exact absurd h1 (digit_ne_plus h)
  · rfl

theorem digitsVal_num (ds rest : Bytes) (h : ds.all isDigit = true) (hr : NoDigitHead rest) :
    digitsVal (ds ++ rest) 0 = (decVal ds, rest) := digitsVal_append ds rest 0 h hr

/-- `strtoll` on `1*DIGIT` followed by a non-digit -/
theorem strtoll_num (ds rest : Bytes) (hn : IsNum ds) (hr : NoDigitHead rest) :
    strtoll (ds ++ rest) = { value := clampLL (decVal ds), noDigits := false,
                             erange := decide ((decVal ds : Int) > LLONG_MAX) || decide ((decVal ds : Int) < LLONG_MIN) } := by
  obtain ⟨hne, hd⟩ := hn
  match ds, hne with
  | d :: r, _ =>
    have hd1 : isDigit d = true := by simp only [List.all_cons, Bool.and_eq_true] at hd; exact hd.1
    have hdv : digitsVal (d :: (r ++ rest)) 0 = (decVal (d :: r), rest) := digitsVal_num (d :: r) rest hd hr
    have happ : (d :: r) ++ rest = d :: (r ++ rest) := rfl
    rw [happ]
    simp only [strtoll, skipSpace_digit hd1, takeSign_digit hd1, strtollDigits, hd1, if_true, hdv, Bool.false_eq_true, if_false]

/-- `httpHeaderParseOffset` on `1*DIGIT` followed by a non-digit: the decimal value, provided it fits `int64_t` -/
theorem parseOffset_num (ds rest : Bytes) (hn : IsNum ds) (hr : NoDigitHead rest) (hle : (decVal ds : Int) ≤ LLONG_MAX) :
    parseOffset (ds ++ rest) = some ((decVal ds : Int)) := by
  have e1 := LLONG_MAX_eq; have e2 := LLONG_MIN_eq
  have hcl : clampLL (decVal ds : Int) = decVal ds := by
    unfold clampLL
    split
    · omega
    · split
      · omega
      · rfl
  have h1 : decide ((decVal ds : Int) > LLONG_MAX) = false := decide_eq_false (by omega)
  have h2 : decide ((decVal ds : Int) < LLONG_MIN) = false := decide_eq_false (by omega)
  simp only [parseOffset, strtoll_num ds rest hn hr, hcl, h1, h2, Bool.or_self, Bool.false_and, Bool.false_eq_true, if_false]

/-- … and it is refused as "huge" when it does not -/
theorem parseOffset_num_huge (ds rest : Bytes) (hn : IsNum ds) (hr : NoDigitHead rest) (hgt : (decVal ds : Int) > LLONG_MAX) :
    parseOffset (ds ++ rest) = none := by
  have e1 := LLONG_MAX_eq; have e2 := LLONG_MIN_eq
  have hcl : clampLL (decVal ds : Int) = LLONG_MAX := by simp [clampLL, hgt]
  have h1 : decide ((decVal ds : Int) > LLONG_MAX) = true := decide_eq_true hgt
  have h0 : (LLONG_MAX == 0) = false := by decide
  simp only [parseOffset, strtoll_num ds rest hn hr, hcl, h1, Bool.true_or, Bool.true_and, h0, Bool.false_eq_true, if_false,
    beq_self_eq_true, Bool.or_true, if_true]

theorem dashIndex_num (ds rest : Bytes) (hd : ds.all isDigit = true) : dashIndex (ds ++ 45 :: rest) = some ds.length := by
  induction ds with
  | nil => simp [dashIndex]
  | cons d r ih =>
    simp only [List.all_cons, Bool.and_eq_true] at hd
    simp [dashIndex, digit_ne_dash hd.1, ih hd.2]

/-! ### RFC 7233 specs -/

inductive Rfc
  | range (first last : Bytes)    -- first-byte-pos "-" last-byte-pos
  | from (first : Bytes)          -- first-byte-pos "-"
  | suffix (n : Bytes)            -- "-" suffix-length

namespace Rfc

def text : Rfc → Bytes
  | range f l => f ++ 45 :: l
  | .from f => f ++ [45]
  | suffix n => 45 :: n

/-- syntactically valid and representable: digit strings, `first ≤ last`, `last < INT64_MAX` (see `no_overflow_counterexample`),
other numbers `≤ INT64_MAX` -/
def Valid : Rfc → Prop
  | range f l => IsNum f ∧ IsNum l ∧ decVal f ≤ decVal l ∧ (decVal l : Int) < LLONG_MAX
  | .from f => IsNum f ∧ (decVal f : Int) ≤ LLONG_MAX
  | suffix n => IsNum n ∧ (decVal n : Int) ≤ LLONG_MAX

/-- squid's internal representation -/
def toSpec : Rfc → Spec
  | range f l => ⟨decVal f, (decVal l : Int) + 1 - decVal f⟩
  | .from f => ⟨decVal f, -1⟩
  | suffix n => ⟨-1, decVal n⟩

/-- the bytes the spec selects from a representation of `clen` bytes (RFC 7233 section 2.1), stated on the numbers -/
def selects (r : Rfc) (clen b : Int) : Prop :=
  0 ≤ b ∧ b < clen ∧
  match r with
  | range f l => (decVal f : Int) ≤ b ∧ b ≤ decVal l
  | .from f => (decVal f : Int) ≤ b
  | suffix n => clen - decVal n ≤ b

theorem requests_iff_selects (r : Rfc) (hv : r.Valid) (clen b : Int) : r.toSpec.requests clen b ↔ r.selects clen b := by
  cases r with
  | range f l =>
    obtain ⟨_, _, hle, _⟩ := hv
    simp only [toSpec, Spec.requests, selects]
    constructor
    · rintro ⟨h1, h2, h3⟩
      refine ⟨h1, h2, ?_⟩
      rcases h3 with ⟨h3, _⟩ | ⟨_, h3, _⟩ | ⟨_, _, h3, h4⟩ <;> omega
    · rintro ⟨h1, h2, h3, h4⟩
      exact ⟨h1, h2, Or.inr (Or.inr ⟨by omega, by omega, h3, by omega⟩)⟩
  | «from» f =>
    simp only [toSpec, Spec.requests, selects]
    constructor
    · rintro ⟨h1, h2, h3⟩
      refine ⟨h1, h2, ?_⟩
      rcases h3 with ⟨h3, _⟩ | ⟨_, _, h3⟩ | ⟨_, h3, _⟩ <;> omega
    · rintro ⟨h1, h2, h3⟩
      exact ⟨h1, h2, Or.inr (Or.inl ⟨by omega, trivial, h3⟩)⟩
  | suffix n =>
    simp only [toSpec, Spec.requests, selects]
    constructor
    · rintro ⟨h1, h2, h3⟩
      refine ⟨h1, h2, ?_⟩
      rcases h3 with ⟨_, h3⟩ | ⟨h3, _⟩ | ⟨h3, _⟩ <;> omega
    · rintro ⟨h1, h2, h3⟩
      exact ⟨h1, h2, Or.inl ⟨trivial, h3⟩⟩

end Rfc

theorem parseLast_num (off : Int) (l tail : Bytes) (hl : IsNum l) (ht : NoDigitHead tail) (ho0 : 0 ≤ off)
    (hle : off ≤ decVal l) (hmax : (decVal l : Int) < LLONG_MAX) :
    parseLast off (l ++ tail) = .ok ⟨off, (decVal l : Int) + 1 - off⟩ := by
  have e1 := LLONG_MAX_eq; have e2 := LLONG_MIN_eq
  have hkn : known (decVal l : Int) = true := (known_iff _).mpr (by omega)
  have hnlt : ¬ ((decVal l : Int) < off) := by omega
  have hadd : add64 (decVal l : Int) 1 = .ok ((decVal l : Int) + 1) := add64_ok (by omega) (by omega)
  have hsz : (HttpRange.mk off ((decVal l : Int) + 1)).size = .ok ((decVal l : Int) + 1 - off) := by
    rw [size_ok (by simp only; omega) (by simp only; omega)]
    have : (decVal l : Int) + 1 > off := by omega
    simp [this]
  simp only [parseLast, parseOffset_num l tail hl ht (by omega), hkn, Bool.not_true, Bool.false_eq_true, if_false, hnlt, hadd, hsz]

/-- `HttpHdrRangeSpec::parseInit` reads a valid RFC spec (followed by anything that does not start with a digit) as that spec -/
theorem parseSpec_rfc (r : Rfc) (hv : r.Valid) (tail : Bytes) (ht : NoDigitHead tail) :
    parseSpec (r.text ++ tail) r.text.length = .ok r.toSpec := by
  have e1 := LLONG_MAX_eq; have e2 := LLONG_MIN_eq; have e3 := Unknown_eq
  cases r with
  | range f l =>
    obtain ⟨hf, hl, hle, hmax⟩ := hv
    have hfpos : 0 < f.length := List.length_pos_iff.mpr hf.1
    have hlpos : 0 < l.length := List.length_pos_iff.mpr hl.1
    have hdash : NoDigitHead (45 :: (l ++ tail)) := by intro d r h; injection h with h _; subst h; decide
    have hoff : parseOffset (f ++ 45 :: (l ++ tail)) = some ((decVal f : Int)) := parseOffset_num f _ hf hdash (by omega)
    have hk : dashIndex (f ++ 45 :: (l ++ tail)) = some f.length := dashIndex_num f _ hf.2
    have hdrop : (f ++ 45 :: (l ++ tail)).drop (f.length + 1) = l ++ tail := by
      have : f ++ 45 :: (l ++ tail) = (f ++ [45]) ++ (l ++ tail) := by simp
      rw [this, List.drop_left' (by simp)]
    have hkn1 : known (decVal f : Int) = true := (known_iff _).mpr (by omega)
    have hlen : (f ++ 45 :: l).length = f.length + 1 + l.length := by simp; omega
    have hfirst : parseFirst (f ++ 45 :: (l ++ tail)) (f.length + 1 + l.length) f.length = .ok ⟨decVal f, (decVal l : Int) + 1 - decVal f⟩ := by
      have hk1 : f.length + 1 < f.length + 1 + l.length := by omega
      simp only [parseFirst, hoff, hkn1, Bool.not_true, Bool.false_eq_true, if_false, hk1, if_true, hdrop]
      exact parseLast_num _ l tail hl ht (by omega) (by omega) hmax
    have happ : f ++ 45 :: l ++ tail = f ++ 45 :: (l ++ tail) := by simp
    rw [Rfc.text, happ, hlen, Rfc.toSpec]
    unfold parseSpec
    rw [if_neg (by omega)]
    obtain ⟨hfne, hfd⟩ := hf
    match f, hfne with
    | d :: fr, _ =>
      have hd1 : isDigit d = true := by simp only [List.all_cons, Bool.and_eq_true] at hfd; exact hfd.1
      have hne45 : d ≠ 45 := digit_ne_dash hd1
      simp only [List.cons_append] at hk hfirst ⊢
      split
      · rename_i heq; injection heq with h1 _; exact absurd h1 hne45
      · rw [hk]
        simp only
        rw [if_pos (by omega)]
        exact hfirst
  | «from» f =>
    obtain ⟨hf, hmax⟩ := hv
    have hfpos : 0 < f.length := List.length_pos_iff.mpr hf.1
    have hdash : NoDigitHead (45 :: tail) := by intro d r h; injection h with h _; subst h; decide
    have hoff : parseOffset (f ++ 45 :: tail) = some ((decVal f : Int)) := parseOffset_num f _ hf hdash hmax
    have hk : dashIndex (f ++ 45 :: tail) = some f.length := dashIndex_num f _ hf.2
    have hkn1 : known (decVal f : Int) = true := (known_iff _).mpr (by omega)
    have hlen : (f ++ [45]).length = f.length + 1 := by simp
    have hfirst : parseFirst (f ++ 45 :: tail) (f.length + 1) f.length = .ok ⟨decVal f, -1⟩ := by
      have hk1 : ¬ (f.length + 1 < f.length + 1) := by omega
      simp only [parseFirst, hoff, hkn1, Bool.not_true, Bool.false_eq_true, if_false, hk1, e3]
    have happ : f ++ [45] ++ tail = f ++ 45 :: tail := by simp
    rw [Rfc.text, happ, hlen, Rfc.toSpec]
    unfold parseSpec
    rw [if_neg (by omega)]
    obtain ⟨hfne, hfd⟩ := hf
    match f, hfne with
    | d :: fr, _ =>
      have hd1 : isDigit d = true := by simp only [List.all_cons, Bool.and_eq_true] at hfd; exact hfd.1
      have hne45 : d ≠ 45 := digit_ne_dash hd1
      simp only [List.cons_append] at hk hfirst ⊢
      split
      · rename_i heq; injection heq with h1 _; exact absurd h1 hne45
      · rw [hk]
        simp only
        rw [if_pos (by omega)]
        exact hfirst
  | suffix n =>
    obtain ⟨hn, hmax⟩ := hv
    have hoff : parseOffset (n ++ tail) = some ((decVal n : Int)) := parseOffset_num n _ hn ht hmax
    have hflen : ¬ ((45 :: n).length < 2) := by
      have : 0 < n.length := List.length_pos_iff.mpr hn.1
      simp only [List.length_cons]; omega
    have hkn : known (decVal n : Int) = true := (known_iff _).mpr (by omega)
    simp only [Rfc.text, List.cons_append]
    unfold parseSpec
    rw [if_neg hflen]
    simp only [parseSuffix, hoff, hkn, if_true, Rfc.toSpec, e3]

end SquidModel.Range
