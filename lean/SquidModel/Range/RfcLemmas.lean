/-
Specification side of Range parsing — RFC 7233 byte-range-spec / suffix-byte-range-spec written with decimal digit
strings — and the proof that the model of squid's parser reads every such spec, in any comma / optional-white-space
layout, as exactly that spec.
-/
import SquidModel.Range.ParseLemmas
import SquidModel.Base.Finite

namespace SquidModel.Range

/-! ### character facts (decided over all 256 octets) -/

theorem isSpace_eq_gen : ∀ b : UInt8, (isSpace b == Gen.Range.cSpace.contains b) = true :=
  forall_octet _ (by decide +kernel)
theorem isDigit_eq_gen : ∀ b : UInt8, (isDigit b == Gen.Range.cDigit.contains b) = true :=
  forall_octet _ (by decide +kernel)
theorem isListLeading_eq_gen : ∀ b : UInt8, (isListLeading b == Gen.Range.listLeading.contains b) = true :=
  forall_octet _ (by decide +kernel)
/-- the only byte that ends an unquoted item is the comma; the trimmed trailing bytes are the `isspace` set -/
theorem list_delim_is_comma : Gen.Range.listDelim = [44] := by decide
theorem list_trailing_is_space : Gen.Range.listTrailing = Gen.Range.cSpace := by decide

/-- optional white space of RFC 7230: SP / HTAB -/
def isOWS (c : UInt8) : Bool := c == 32 || c == 9

theorem digit_facts : ∀ b : UInt8,
    (!isDigit b || (!isSpace b && b != 45 && b != 43 && b != 34 && b != 44 && !isListLeading b)) = true :=
  forall_octet _ (by decide +kernel)
theorem ows_facts : ∀ b : UInt8, (!isOWS b || (isSpace b && !isDigit b && b != 34 && b != 44 && isListLeading b)) = true :=
  forall_octet _ (by decide +kernel)

theorem digit_not_space {b : UInt8} (h : isDigit b = true) : isSpace b = false := by
  have := digit_facts b; simp [h] at this; exact this.1.1.1.1.1
theorem digit_ne_dash {b : UInt8} (h : isDigit b = true) : b ≠ 45 := by
  have := digit_facts b; simp [h] at this; exact this.1.1.1.1.2
theorem digit_ne_plus {b : UInt8} (h : isDigit b = true) : b ≠ 43 := by
  have := digit_facts b; simp [h] at this; exact this.1.1.1.2
theorem digit_ne_quote {b : UInt8} (h : isDigit b = true) : b ≠ 34 := by
  have := digit_facts b; simp [h] at this; exact this.1.1.2
theorem digit_ne_comma {b : UInt8} (h : isDigit b = true) : b ≠ 44 := by
  have := digit_facts b; simp [h] at this; exact this.1.2
theorem digit_not_leading {b : UInt8} (h : isDigit b = true) : isListLeading b = false := by
  have := digit_facts b; simp [h] at this; exact this.2

/-! ### decimal digit strings -/

def decVal (ds : Bytes) : Nat := ds.foldl (fun a d => a * 10 + (d.toNat - 48)) 0

/-- `1*DIGIT` -/
def IsNum (ds : Bytes) : Prop := ds ≠ [] ∧ ds.all isDigit = true

instance (ds : Bytes) : Decidable (IsNum ds) := by unfold IsNum; exact inferInstance

/-- the text after a number does not go on with a digit -/
def NoDigitHead (rest : Bytes) : Prop := ∀ d r, rest = d :: r → isDigit d = false

theorem digitsVal_append (ds rest : Bytes) (acc : Nat) (h : ds.all isDigit = true) (hr : NoDigitHead rest) :
    digitsVal (ds ++ rest) acc = (ds.foldl (fun a d => a * 10 + (d.toNat - 48)) acc, rest) := by
  induction ds generalizing acc with
  | nil =>
    cases rest with
    | nil => rfl
    | cons d r => simp [digitsVal, hr d r rfl]
  | cons d ds ih =>
    simp only [List.all_cons, Bool.and_eq_true] at h
    simp only [List.cons_append, digitsVal, h.1, if_true, List.foldl_cons]
    exact ih _ h.2

theorem skipSpace_digit {d : UInt8} {r : Bytes} (h : isDigit d = true) : skipSpace (d :: r) = d :: r := by
  simp [skipSpace, digit_not_space h]

theorem takeSign_digit {d : UInt8} {r : Bytes} (h : isDigit d = true) : takeSign (d :: r) = (false, d :: r) := by
  unfold takeSign
  split
  · rename_i heq; injection heq with h1 _; exact absurd h1 (digit_ne_dash h)
  · rename_i heq; injection heq with h1 _; exact absurd h1 (digit_ne_plus h)
  · rfl

theorem digitsVal_num (ds rest : Bytes) (h : ds.all isDigit = true) (hr : NoDigitHead rest) :
    digitsVal (ds ++ rest) 0 = (decVal ds, rest) := digitsVal_append ds rest 0 h hr

/-- `strtoll` on `1*DIGIT` followed by a non-digit -/
theorem strtoll_num (ds rest : Bytes) (hn : IsNum ds) (hr : NoDigitHead rest) :
    strtoll (ds ++ rest) = { value := clampLL (decVal ds), rest := rest, noDigits := false,
                             erange := decide ((decVal ds : Int) > LLONG_MAX) || decide ((decVal ds : Int) < LLONG_MIN) } := by
  obtain ⟨hne, hd⟩ := hn
  match ds, hne with
  | d :: r, _ =>
    have hd1 : isDigit d = true := by simp only [List.all_cons, Bool.and_eq_true] at hd; exact hd.1
    have hdv : digitsVal (d :: (r ++ rest)) 0 = (decVal (d :: r), rest) := digitsVal_num (d :: r) rest hd hr
    have happ : (d :: r) ++ rest = d :: (r ++ rest) := rfl
    rw [happ]
    simp only [strtoll, skipSpace_digit hd1, takeSign_digit hd1, strtollDigits, hd1, if_true, hdv, Bool.false_eq_true, if_false]

/-- `httpHeaderParseOffset` on `1*DIGIT` followed by a non-digit: the decimal value and the length of the digit string,
provided the value fits `int64_t` -/
theorem parseOffset_num (ds rest : Bytes) (hn : IsNum ds) (hr : NoDigitHead rest) (hle : (decVal ds : Int) ≤ LLONG_MAX) :
    parseOffset (ds ++ rest) = some ((decVal ds : Int), ds.length) := by
  have e1 := LLONG_MAX_eq; have e2 := LLONG_MIN_eq
  have hcl : clampLL (decVal ds : Int) = decVal ds := by
    unfold clampLL
    split
    · omega
    · split
      · omega
      · rfl
  have h1 : decide ((decVal ds : Int) > LLONG_MAX) = false := decide_eq_false (by omega)
  have h2 : decide ((decVal ds : Int) < LLONG_MIN) = false := decide_eq_false (by omega)
  have hlen : (ds ++ rest).length - rest.length = ds.length := by simp
  simp only [parseOffset, strtoll_num ds rest hn hr, hcl, h1, h2, Bool.or_self, Bool.false_and, Bool.false_eq_true, if_false, hlen]

/-- … and it is refused as "huge" when it does not -/
theorem parseOffset_num_huge (ds rest : Bytes) (hn : IsNum ds) (hr : NoDigitHead rest) (hgt : (decVal ds : Int) > LLONG_MAX) :
    parseOffset (ds ++ rest) = none := by
  have e1 := LLONG_MAX_eq; have e2 := LLONG_MIN_eq
  have hcl : clampLL (decVal ds : Int) = LLONG_MAX := by simp [clampLL, hgt]
  have h1 : decide ((decVal ds : Int) > LLONG_MAX) = true := decide_eq_true hgt
  have h0 : (LLONG_MAX == 0) = false := by decide
  simp only [parseOffset, strtoll_num ds rest hn hr, hcl, h1, Bool.true_or, Bool.true_and, h0, Bool.false_eq_true, if_false,
    beq_self_eq_true, Bool.or_true, if_true]

/-- `parseBytePos` accepts `1*DIGIT` that ends exactly at the given length -/
theorem parseBytePos_num (ds rest : Bytes) (hn : IsNum ds) (hr : NoDigitHead rest) (hle : (decVal ds : Int) ≤ LLONG_MAX) :
    parseBytePos (ds ++ rest) ds.length = some ((decVal ds : Int)) := by
  have hpo := parseOffset_num ds rest hn hr hle
  have hkn : known (decVal ds : Int) = true := (known_iff _).mpr (by omega)
  obtain ⟨hne, hd⟩ := hn
  match ds, hne with
  | d :: r, _ =>
    have hd1 : isDigit d = true := by simp only [List.all_cons, Bool.and_eq_true] at hd; exact hd.1
    have happ : (d :: r) ++ rest = d :: (r ++ rest) := rfl
    rw [happ] at hpo ⊢
    simp only [parseBytePos, List.length_cons, Nat.add_one_ne_zero, if_false, hd1, Bool.not_true, Bool.false_eq_true, hpo,
      ne_eq, not_true_eq_false, hkn, if_true]

theorem takeWhile_all (t : Bytes) : (t.takeWhile isDigit).all isDigit = true := by
  induction t with
  | nil => rfl
  | cons c t ih =>
    simp only [List.takeWhile_cons]
    split
    · rename_i hc; simp [hc, ih]
    · rfl

/-- the digits `digitsVal` consumes are the longest digit prefix -/
theorem takeWhile_isNum {d : UInt8} {r : Bytes} (hd : isDigit d = true) : IsNum ((d :: r).takeWhile isDigit) := by
  constructor
  · simp [List.takeWhile_cons, hd]
  · exact takeWhile_all _

theorem dropWhile_noDigitHead (t : Bytes) : NoDigitHead (t.dropWhile isDigit) := by
  induction t with
  | nil => intro d r h; cases h
  | cons c t ih =>
    intro d r h
    simp only [List.dropWhile_cons] at h
    split at h
    · exact ih d r h
    · rename_i hc
      injection h with h1 _; subst h1
      simpa using hc

/-- **`parseBytePos` is strict**: whatever it accepts is `1*DIGIT` of exactly the given length followed by a non-digit, and the
value is the decimal value of those digits (at most INT64_MAX) -/
theorem parseBytePos_strict {t : Bytes} {len : Nat} {v : Int} (h : parseBytePos t len = some v) :
    ∃ ds rest, t = ds ++ rest ∧ IsNum ds ∧ NoDigitHead rest ∧ len = ds.length ∧ v = decVal ds ∧ (decVal ds : Int) ≤ LLONG_MAX := by
  unfold parseBytePos at h
  split at h
  · cases h
  · split at h
    · cases h
    · rename_i d r
      split at h
      · cases h
      · rename_i hd
        have hd1 : isDigit d = true := by simpa using hd
        have hsplit : d :: r = (d :: r).takeWhile isDigit ++ (d :: r).dropWhile isDigit :=
          (List.takeWhile_append_dropWhile).symm
        have hn := takeWhile_isNum (r := r) hd1
        have hr := dropWhile_noDigitHead (d :: r)
        by_cases hbig : (decVal ((d :: r).takeWhile isDigit) : Int) > LLONG_MAX
        · have := parseOffset_num_huge _ _ hn hr hbig
          rw [← hsplit] at this
          rw [this] at h; cases h
        · have hpo := parseOffset_num _ _ hn hr (by omega)
          rw [← hsplit] at hpo
          rw [hpo] at h
          simp only at h
          split at h
          · cases h
          · rename_i hlen
            split at h
            · injection h with h
              exact ⟨_, _, hsplit, hn, hr, by omega, h.symm, by omega⟩
            · cases h

theorem dashIndex_num (ds rest : Bytes) (hd : ds.all isDigit = true) : dashIndex (ds ++ 45 :: rest) = some ds.length := by
  induction ds with
  | nil => simp [dashIndex]
  | cons d r ih =>
    simp only [List.all_cons, Bool.and_eq_true] at hd
    simp [dashIndex, digit_ne_dash hd.1, ih hd.2]

/-! ### RFC 7233 specs -/

inductive Rfc
  | range (first last : Bytes)    -- first-byte-pos "-" last-byte-pos
  | from (first : Bytes)          -- first-byte-pos "-"
  | suffix (n : Bytes)            -- "-" suffix-length

namespace Rfc

def text : Rfc → Bytes
  | range f l => f ++ 45 :: l
  | .from f => f ++ [45]
  | suffix n => 45 :: n

/-- syntactically valid (RFC 7233: digit strings, `first ≤ last`) -/
def Syntactic : Rfc → Prop
  | range f l => IsNum f ∧ IsNum l ∧ decVal f ≤ decVal l
  | .from f => IsNum f
  | suffix n => IsNum n

/-- syntactically valid and representable: all numbers `≤ INT64_MAX` -/
def Valid : Rfc → Prop
  | range f l => IsNum f ∧ IsNum l ∧ decVal f ≤ decVal l ∧ (decVal l : Int) ≤ LLONG_MAX
  | .from f => IsNum f ∧ (decVal f : Int) ≤ LLONG_MAX
  | suffix n => IsNum n ∧ (decVal n : Int) ≤ LLONG_MAX

theorem Valid.syntactic {r : Rfc} (h : r.Valid) : r.Syntactic := by
  cases r with
  | range f l => exact ⟨h.1, h.2.1, h.2.2.1⟩
  | «from» f => exact h.1
  | suffix n => exact h.1

/-- squid's internal representation (a last-byte-pos of INT64_MAX is stored as INT64_MAX-1: no representation has that byte) -/
def toSpec : Rfc → Spec
  | range f l => ⟨decVal f, (if (decVal l : Int) = LLONG_MAX then (decVal l : Int) - 1 else (decVal l : Int)) + 1 - decVal f⟩
  | .from f => ⟨decVal f, -1⟩
  | suffix n => ⟨-1, decVal n⟩

/-- the bytes the spec selects from a representation of `clen` bytes (RFC 7233 section 2.1), stated on the numbers -/
def selects (r : Rfc) (clen b : Int) : Prop :=
  0 ≤ b ∧ b < clen ∧
  match r with
  | range f l => (decVal f : Int) ≤ b ∧ b ≤ decVal l
  | .from f => (decVal f : Int) ≤ b
  | suffix n => clen - decVal n ≤ b

theorem requests_iff_selects (r : Rfc) (hv : r.Valid) (clen b : Int) (hc : clen ≤ LLONG_MAX) :
    r.toSpec.requests clen b ↔ r.selects clen b := by
  cases r with
  | range f l =>
    obtain ⟨_, _, hle, hmax⟩ := hv
    simp only [toSpec, Spec.requests, selects]
    constructor
    · rintro ⟨h1, h2, h3⟩
      refine ⟨h1, h2, ?_⟩
      rcases h3 with ⟨h3, _⟩ | ⟨_, h3, _⟩ | ⟨_, _, h3, h4⟩
      · omega
      · split at h3 <;> omega
      · split at h4 <;> omega
    · rintro ⟨h1, h2, h3, h4⟩
      refine ⟨h1, h2, Or.inr (Or.inr ⟨by omega, ?_, h3, ?_⟩)⟩
      · split <;> omega
      · split <;> omega
  | «from» f =>
    simp only [toSpec, Spec.requests, selects]
    constructor
    · rintro ⟨h1, h2, h3⟩
      refine ⟨h1, h2, ?_⟩
      rcases h3 with ⟨h3, _⟩ | ⟨_, _, h3⟩ | ⟨_, h3, _⟩ <;> omega
    · rintro ⟨h1, h2, h3⟩
      exact ⟨h1, h2, Or.inr (Or.inl ⟨by omega, trivial, h3⟩)⟩
  | suffix n =>
    simp only [toSpec, Spec.requests, selects]
    constructor
    · rintro ⟨h1, h2, h3⟩
      refine ⟨h1, h2, ?_⟩
      rcases h3 with ⟨_, h3⟩ | ⟨h3, _⟩ | ⟨h3, _⟩ <;> omega
    · rintro ⟨h1, h2, h3⟩
      exact ⟨h1, h2, Or.inl ⟨trivial, h3⟩⟩

end Rfc

theorem parseLast_num (off : Int) (l tail : Bytes) (hl : IsNum l) (ht : NoDigitHead tail) (ho0 : 0 ≤ off)
    (hle : off ≤ decVal l) (hmax : (decVal l : Int) ≤ LLONG_MAX) :
    parseLast off (l ++ tail) l.length =
      .ok ⟨off, (if (decVal l : Int) = LLONG_MAX then (decVal l : Int) - 1 else (decVal l : Int)) + 1 - off⟩ := by
  rcases parseLast_cases off (l ++ tail) l.length ho0 (by omega) with hi | ⟨last, hp, _, hok⟩
  · unfold parseLast at hi
    rw [parseBytePos_num l tail hl ht hmax] at hi
    simp only at hi
    have hnlt : ¬ ((decVal l : Int) < off) := by omega
    simp only [hnlt, if_false] at hi
    split at hi
    · cases hi
    · split at hi <;> cases hi
  · rw [parseBytePos_num l tail hl ht hmax] at hp
    injection hp with hp; subst hp
    exact hok

/-- a list item is a byte-range-spec or suffix-byte-range-spec of RFC 7233: `1*DIGIT "-" [1*DIGIT]` with
`last-byte-pos ≥ first-byte-pos`, or `"-" 1*DIGIT`; nothing else (no white space, sign, or text after the digits) -/
def IsRfcSpec (item : Bytes) : Prop := ∃ r : Rfc, r.Syntactic ∧ item = r.text

/-- `HttpHdrRangeSpec::parseInit` reads a valid RFC spec (followed by anything that does not start with a digit) as that spec -/
theorem parseSpec_rfc (r : Rfc) (hv : r.Valid) (tail : Bytes) (ht : NoDigitHead tail) :
    parseSpec (r.text ++ tail) r.text.length = .ok r.toSpec := by
  have e1 := LLONG_MAX_eq; have e2 := LLONG_MIN_eq; have e3 := Unknown_eq
  cases r with
  | range f l =>
    obtain ⟨hf, hl, hle, hmax⟩ := hv
    have hfpos : 0 < f.length := List.length_pos_iff.mpr hf.1
    have hlpos : 0 < l.length := List.length_pos_iff.mpr hl.1
    have hdash : NoDigitHead (45 :: (l ++ tail)) := by intro d r h; injection h with h _; subst h; decide
    have hoff : parseBytePos (f ++ 45 :: (l ++ tail)) f.length = some ((decVal f : Int)) := parseBytePos_num f _ hf hdash (by omega)
    have hk : dashIndex (f ++ 45 :: (l ++ tail)) = some f.length := dashIndex_num f _ hf.2
    have hdrop : (f ++ 45 :: (l ++ tail)).drop (f.length + 1) = l ++ tail := by
      have : f ++ 45 :: (l ++ tail) = (f ++ [45]) ++ (l ++ tail) := by simp
      rw [this, List.drop_left' (by simp)]
    have hlen : (f ++ 45 :: l).length = f.length + 1 + l.length := by simp; omega
    have hfirst : parseFirst (f ++ 45 :: (l ++ tail)) (f.length + 1 + l.length) f.length = .ok (Rfc.range f l).toSpec := by
      have hk1 : f.length + 1 < f.length + 1 + l.length := by omega
      have hsub : f.length + 1 + l.length - (f.length + 1) = l.length := by omega
      simp only [parseFirst, hoff, hk1, if_true, hdrop, hsub]
      exact parseLast_num _ l tail hl ht (by omega) (by omega) hmax
    have happ : f ++ 45 :: l ++ tail = f ++ 45 :: (l ++ tail) := by simp
    rw [Rfc.text, happ, hlen]
    unfold parseSpec
    rw [if_neg (by omega)]
    obtain ⟨hfne, hfd⟩ := hf
    match f, hfne with
    | d :: fr, _ =>
      have hd1 : isDigit d = true := by simp only [List.all_cons, Bool.and_eq_true] at hfd; exact hfd.1
      have hne45 : d ≠ 45 := digit_ne_dash hd1
      simp only [List.cons_append] at hk hfirst ⊢
      split
      · rename_i heq; injection heq with h1 _; exact absurd h1 hne45
      · rw [hk]
        simp only
        rw [if_pos (by omega)]
        exact hfirst
  | «from» f =>
    obtain ⟨hf, hmax⟩ := hv
    have hfpos : 0 < f.length := List.length_pos_iff.mpr hf.1
    have hdash : NoDigitHead (45 :: tail) := by intro d r h; injection h with h _; subst h; decide
    have hoff : parseBytePos (f ++ 45 :: tail) f.length = some ((decVal f : Int)) := parseBytePos_num f _ hf hdash hmax
    have hk : dashIndex (f ++ 45 :: tail) = some f.length := dashIndex_num f _ hf.2
    have hlen : (f ++ [45]).length = f.length + 1 := by simp
    have hfirst : parseFirst (f ++ 45 :: tail) (f.length + 1) f.length = .ok ⟨decVal f, -1⟩ := by
      have hk1 : ¬ (f.length + 1 < f.length + 1) := by omega
      simp only [parseFirst, hoff, hk1, if_false, e3]
    have happ : f ++ [45] ++ tail = f ++ 45 :: tail := by simp
    rw [Rfc.text, happ, hlen, Rfc.toSpec]
    unfold parseSpec
    rw [if_neg (by omega)]
    obtain ⟨hfne, hfd⟩ := hf
    match f, hfne with
    | d :: fr, _ =>
      have hd1 : isDigit d = true := by simp only [List.all_cons, Bool.and_eq_true] at hfd; exact hfd.1
      have hne45 : d ≠ 45 := digit_ne_dash hd1
      simp only [List.cons_append] at hk hfirst ⊢
      split
      · rename_i heq; injection heq with h1 _; exact absurd h1 hne45
      · rw [hk]
        simp only
        rw [if_pos (by omega)]
        exact hfirst
  | suffix n =>
    obtain ⟨hn, hmax⟩ := hv
    have hflen : ¬ ((45 :: n).length < 2) := by
      have : 0 < n.length := List.length_pos_iff.mpr hn.1
      simp only [List.length_cons]; omega
    have hoff : parseBytePos (n ++ tail) ((45 :: n).length - 1) = some ((decVal n : Int)) := by
      have : (45 :: n).length - 1 = n.length := by simp
      rw [this]; exact parseBytePos_num n _ hn ht hmax
    simp only [Rfc.text, List.cons_append]
    unfold parseSpec
    rw [if_neg hflen]
    simp only [parseSuffix, hoff, Rfc.toSpec, e3]

/-! ### the converse: whatever `parseInit` accepts is an RFC spec, written strictly -/

theorem dashIndex_append_digits (ds rest : Bytes) (hd : ds.all isDigit = true) :
    dashIndex (ds ++ rest) = (dashIndex rest).map (· + ds.length) := by
  induction ds with
  | nil => cases h : dashIndex rest <;> simp [h]
  | cons d r ih =>
    simp only [List.all_cons, Bool.and_eq_true] at hd
    simp only [List.cons_append, dashIndex, digit_ne_dash hd.1, if_false, ih hd.2, List.length_cons]
    cases dashIndex rest <;> simp; omega

theorem dashIndex_zero {rest : Bytes} (h : dashIndex rest = some 0) : ∃ r, rest = 45 :: r := by
  cases rest with
  | nil => cases h
  | cons c r =>
    simp only [dashIndex] at h
    split at h
    · rename_i hc; exact ⟨r, by rw [hc]⟩
    · cases hd : dashIndex r with
      | none => simp [hd] at h
      | some k => simp [hd] at h

/-- **`parseInit` is strict**: an accepted item is, byte for byte, a valid RFC 7233 spec, and the stored spec is its meaning -/
theorem parseSpec_ok_strict {field : Bytes} {flen : Nat} {s : Spec} (h : parseSpec field flen = .ok s) :
    ∃ r : Rfc, r.Valid ∧ field.take flen = r.text ∧ s = r.toSpec := by
  have e3 := Unknown_eq
  unfold parseSpec at h
  split at h
  · cases h
  · rename_i hflen
    split at h
    · -- suffix
      rename_i rest
      unfold parseSuffix at h
      split at h
      · cases h
      · rename_i len hlen
        injection h with h; subst h
        obtain ⟨ds, rest', rfl, hn, _, hl, hv, hmax⟩ := parseBytePos_strict hlen
        refine ⟨Rfc.suffix ds, ⟨hn, hmax⟩, ?_, ?_⟩
        · have : flen = ds.length + 1 := by omega
          rw [this, List.take_succ_cons, List.take_left' rfl]; rfl
        · simp only [Rfc.toSpec, hv, e3]
    · rename_i hnd
      split at h
      · cases h
      · rename_i k hk
        split at h
        · rename_i hkf
          unfold parseFirst at h
          split at h
          · cases h
          · rename_i off hoff
            obtain ⟨ds, rest1, rfl, hn, hr1, hkl, hv, hmax⟩ := parseBytePos_strict hoff
            rw [dashIndex_append_digits ds rest1 hn.2] at hk
            have hk0 : dashIndex rest1 = some 0 := by
              cases hd : dashIndex rest1 with
              | none => simp [hd] at hk
              | some j => simp [hd] at hk; congr; omega
            obtain ⟨rest2, rfl⟩ := dashIndex_zero hk0
            have hdrop : (ds ++ 45 :: rest2).drop (k + 1) = rest2 := by
              have : ds ++ 45 :: rest2 = (ds ++ [45]) ++ rest2 := by simp
              rw [this, List.drop_left' (by simp; omega)]
            split at h
            · rename_i hk1
              rw [hdrop] at h
              have hob : 0 ≤ off ∧ off ≤ LLONG_MAX := parseBytePos_bounds hoff
              rcases parseLast_cases off rest2 (flen - (k + 1)) hob.1 hob.2 with hi | ⟨last, hp, hle, hok⟩
              · rw [hi] at h; cases h
              · rw [hok] at h; injection h with h; subst h
                obtain ⟨ds2, rest3, rfl, hn2, _, hl2, hv2, hmax2⟩ := parseBytePos_strict hp
                refine ⟨Rfc.range ds ds2, ⟨hn, hn2, by omega, hmax2⟩, ?_, ?_⟩
                · have hfl : flen = (ds ++ 45 :: ds2).length := by simp; omega
                  have : ds ++ 45 :: (ds2 ++ rest3) = (ds ++ 45 :: ds2) ++ rest3 := by simp
                  rw [this, hfl, List.take_left' rfl]; rfl
                · simp only [Rfc.toSpec, hv, hv2]
            · rename_i hk1
              injection h with h; subst h
              refine ⟨Rfc.from ds, ⟨hn, hmax⟩, ?_, ?_⟩
              · have hfl : flen = (ds ++ [45]).length := by simp; omega
                have : ds ++ 45 :: rest2 = (ds ++ [45]) ++ rest2 := by simp
                rw [this, hfl, List.take_left' rfl]; rfl
              · simp only [Rfc.toSpec, hv, e3]
        · cases h

end SquidModel.Range
