/-
Lemmas about `HttpHdrRangeSpec::canonize` / `HttpHdrRange::canonize` in the model: no overflow and no assertion on
parse-reachable specs, closed form of the canonical spec, the bytes it denotes, and `merge` = identity.
-/
import SquidModel.Range.Model

namespace SquidModel.Range

/-! ### constants of the build the proofs rely on (re-checked against the regenerated Gen file) -/

theorem LLONG_MAX_eq : LLONG_MAX = 9223372036854775807 := by decide
theorem LLONG_MIN_eq : LLONG_MIN = -9223372036854775808 := by decide
theorem Unknown_eq : Unknown = -1 := by decide
/-- spec merging is compiled out (MERGING_BREAKS_NOTHING undefined): the model's `mergeWith` is the `(void)donor` branch -/
theorem merging_compiled_out : Gen.Range.mergingCompiledIn = false := by decide

/-! ### specification side -/

/-- what `HttpHdrRangeSpec::parseInit` can produce: suffix (`offset` unknown), trailer (`length` unknown), range
(length 0 only arises for `INT64_MAX-INT64_MAX`, whose last-byte-pos is lowered by one) -/
def Spec.WF (s : Spec) : Prop :=
  (s.offset = -1 ∧ 0 ≤ s.length ∧ s.length ≤ LLONG_MAX) ∨
  (0 ≤ s.offset ∧ s.offset ≤ LLONG_MAX ∧ s.length = -1) ∨
  (0 ≤ s.offset ∧ 0 ≤ s.length ∧ s.offset + s.length ≤ LLONG_MAX)

/-- byte position `b` of a representation of `clen` bytes is requested by the spec (RFC 7233 section 2.1):
suffix `-n`: the last `n` bytes; trailer `f-`: from `f` on; range `f-l` (stored as offset `f`, length `l+1-f`): `f..l` -/
def Spec.requests (s : Spec) (clen b : Int) : Prop :=
  0 ≤ b ∧ b < clen ∧
  ((s.offset = -1 ∧ clen - s.length ≤ b) ∨
   (0 ≤ s.offset ∧ s.length = -1 ∧ s.offset ≤ b) ∨
   (0 ≤ s.offset ∧ 0 ≤ s.length ∧ s.offset ≤ b ∧ b < s.offset + s.length))

/-- byte `b` is covered by the canonical (offset, length) pair -/
def Spec.covers (c : Spec) (b : Int) : Prop := c.offset ≤ b ∧ b < c.offset + c.length

/-- closed form of the canonical spec; `none` = unsatisfiable (dropped) -/
def canonical (s : Spec) (clen : Int) : Option Spec :=
  if s.offset = -1 then
    if 0 < s.length ∧ 0 < clen then some ⟨max 0 (clen - s.length), min s.length clen⟩ else none
  else if s.length = -1 then
    if s.offset < clen then some ⟨s.offset, clen - s.offset⟩ else none
  else
    if s.offset < clen ∧ 0 < s.length then some ⟨s.offset, min s.length (clen - s.offset)⟩ else none

/-! ### checked arithmetic -/

theorem fits64_iff (x : Int) : fits64 x = true ↔ LLONG_MIN ≤ x ∧ x ≤ LLONG_MAX := by
  simp [fits64]

theorem add64_ok {a b : Int} (h1 : LLONG_MIN ≤ a + b) (h2 : a + b ≤ LLONG_MAX) : add64 a b = .ok (a + b) := by
  simp [add64, (fits64_iff _).mpr ⟨h1, h2⟩]

theorem sub64_ok {a b : Int} (h1 : LLONG_MIN ≤ a - b) (h2 : a - b ≤ LLONG_MAX) : sub64 a b = .ok (a - b) := by
  simp [sub64, (fits64_iff _).mpr ⟨h1, h2⟩]

theorem size_ok {r : HttpRange} (h1 : LLONG_MIN ≤ r.stop - r.start) (h2 : r.stop - r.start ≤ LLONG_MAX) :
    r.size = .ok (if r.stop > r.start then r.stop - r.start else 0) := by
  unfold HttpRange.size
  split
  · exact sub64_ok h1 h2
  · rfl

theorem known_iff (x : Int) : known x = true ↔ x > -1 := by
  simp [known, Unknown_eq]

/-! ### one spec -/

theorem canonizeTail_range (offset length clen : Int) (ho : 0 ≤ offset) (hl : 0 ≤ length)
    (hsum : offset + length ≤ LLONG_MAX) (hc0 : 0 ≤ clen) (hc : clen ≤ LLONG_MAX) :
    canonizeTail offset length clen =
      .ok (⟨offset, if min clen (offset + length) > offset then min clen (offset + length) - offset else 0⟩,
           decide ((if min clen (offset + length) > offset then min clen (offset + length) - offset else 0) > 0)) := by
  have e1 := LLONG_MAX_eq; have e2 := LLONG_MIN_eq
  have k1 : known length = true := (known_iff _).mpr (by omega)
  have k2 : known offset = true := (known_iff _).mpr (by omega)
  have hadd : add64 offset length = .ok (offset + length) := add64_ok (by omega) (by omega)
  have hmax : max (0 : Int) offset = offset := by omega
  simp only [canonizeTail, k1, k2, Bool.not_true, Bool.false_eq_true, if_false, hadd, HttpRange.intersection, hmax]
  rw [size_ok (by simp only; omega) (by simp only; omega)]

/-- the central per-spec fact: `canonize` neither overflows nor asserts, returns `length > 0` exactly when the spec is
satisfiable, and then yields the closed-form canonical spec -/
theorem canonizeSpec_eq (s : Spec) (hwf : s.WF) (clen : Int) (hc0 : 0 ≤ clen) (hc : clen ≤ LLONG_MAX) :
    ∃ c good, canonizeSpec s clen = .ok (c, good) ∧
      (good = true → canonical s clen = some c) ∧ (good = false → canonical s clen = none) := by
  have e1 := LLONG_MAX_eq; have e2 := LLONG_MIN_eq
  rcases hwf with ⟨ho, hl0, hl1⟩ | ⟨ho0, ho1, hl⟩ | ⟨ho0, hl1, hsum⟩
  · -- suffix
    have k1 : known s.offset = false := by
      cases h : known s.offset with
      | false => rfl
      | true => have := (known_iff _).mp h; omega
    have k2 : known s.length = true := (known_iff _).mpr (by omega)
    have hsub : sub64 clen s.length = .ok (clen - s.length) := sub64_ok (by omega) (by omega)
    simp only [canonizeSpec, k1, k2, Bool.not_false, Bool.not_true, if_true, Bool.false_eq_true, if_false, hsub,
      HttpRange.intersection]
    rw [canonizeTail_range _ _ _ (by omega) hl0 (by omega) hc0 hc]
    refine ⟨_, _, rfl, ?_, ?_⟩
    · intro hg
      simp only [decide_eq_true_eq] at hg
      simp only [canonical, ho, if_true]
      split at hg
      · rename_i hgt
        have hpos : 0 < s.length ∧ 0 < clen := by omega
        simp only [hpos, and_self, if_true]
        congr 2
        omega
      · omega
    · intro hg
      simp only [decide_eq_false_iff_not] at hg
      simp only [canonical, ho, if_true]
      split at hg
      · omega
      · rename_i hng
        have : ¬ (0 < s.length ∧ 0 < clen) := by omega
        simp [this]
  · -- trailer
    have k1 : known s.offset = true := (known_iff _).mpr (by omega)
    have k2 : known s.length = false := by
      cases h : known s.length with
      | false => rfl
      | true => have := (known_iff _).mp h; omega
    have hne : s.offset ≠ -1 := by omega
    have hmax : max (0 : Int) s.offset = s.offset := by omega
    simp only [canonizeSpec, k1, k2, Bool.not_false, Bool.not_true, if_true, Bool.false_eq_true, if_false,
      HttpRange.intersection, hmax, Int.min_self]
    rw [size_ok (by simp only; omega) (by simp only; omega)]
    simp only
    by_cases hlt : s.offset < clen
    · have hgt : clen > s.offset := hlt
      simp only [hgt, if_true]
      rw [canonizeTail_range _ _ _ ho0 (by omega) (by omega) hc0 hc]
      refine ⟨_, _, rfl, ?_, ?_⟩
      · intro _
        simp only [canonical, hne, if_false, hl, if_true, hlt]
        have h1 : min clen (s.offset + (clen - s.offset)) = clen := by omega
        simp only [h1, hgt, if_true]
      · intro hg
        simp only [decide_eq_false_iff_not] at hg
        have h1 : min clen (s.offset + (clen - s.offset)) = clen := by omega
        simp only [h1, hgt, if_true] at hg
        omega
    · have hgt : ¬ (clen > s.offset) := by omega
      simp only [hgt, if_false]
      rw [canonizeTail_range _ _ _ ho0 (by omega) (by omega) hc0 hc]
      refine ⟨_, _, rfl, ?_, ?_⟩
      · intro hg
        simp only [decide_eq_true_eq] at hg
        split at hg <;> omega
      · intro _
        simp [canonical, hne, hl, hlt]
  · -- range
    have k1 : known s.offset = true := (known_iff _).mpr (by omega)
    have k2 : known s.length = true := (known_iff _).mpr (by omega)
    have hne : s.offset ≠ -1 := by omega
    have hne2 : s.length ≠ -1 := by omega
    simp only [canonizeSpec, k1, k2, Bool.not_true, Bool.false_eq_true, if_false]
    rw [canonizeTail_range _ _ _ ho0 (by omega) hsum hc0 hc]
    refine ⟨_, _, rfl, ?_, ?_⟩
    · intro hg
      simp only [decide_eq_true_eq] at hg
      simp only [canonical, hne, if_false, hne2]
      split at hg
      · rename_i hgt
        rw [if_pos (by omega)]
        congr 2
        omega
      · omega
    · intro hg
      simp only [decide_eq_false_iff_not] at hg
      simp only [canonical, hne, if_false, hne2]
      split at hg
      · omega
      · rename_i hng
        rw [if_neg (by omega)]

/-- a canonical spec is non-empty, lies inside the representation, and covers exactly the requested bytes -/
theorem canonical_some {s : Spec} (hwf : s.WF) {clen : Int} (hc0 : 0 ≤ clen) {c : Spec} (h : canonical s clen = some c) :
    0 ≤ c.offset ∧ 0 < c.length ∧ c.offset + c.length ≤ clen ∧ ∀ b, c.covers b ↔ s.requests clen b := by
  unfold canonical at h
  rcases hwf with ⟨ho, hl0, hl1⟩ | ⟨ho0, ho1, hl⟩ | ⟨ho0, hl1, hsum⟩
  · simp only [ho, if_true] at h
    split at h
    · rename_i hpos
      injection h with h; subst h
      refine ⟨by simp only; omega, by simp only; omega, by simp only; omega, ?_⟩
      intro b
      simp only [Spec.covers, Spec.requests, ho]
      constructor
      · rintro ⟨h1, h2⟩; exact ⟨by omega, by omega, Or.inl ⟨trivial, by omega⟩⟩
      · rintro ⟨h1, h2, h3⟩
        rcases h3 with ⟨_, h3⟩ | ⟨h3, _⟩ | ⟨h3, _⟩
        · constructor <;> omega
        · omega
        · omega
    · cases h
  · have hne : s.offset ≠ -1 := by omega
    simp only [hne, if_false, hl, if_true] at h
    split at h
    · rename_i hlt
      injection h with h; subst h
      refine ⟨ho0, by simp only; omega, by simp only; omega, ?_⟩
      intro b
      simp only [Spec.covers, Spec.requests, hl]
      constructor
      · rintro ⟨h1, h2⟩; exact ⟨by omega, by omega, Or.inr (Or.inl ⟨ho0, trivial, h1⟩)⟩
      · rintro ⟨h1, h2, h3⟩
        rcases h3 with ⟨h3, _⟩ | ⟨_, _, h3⟩ | ⟨_, h3, _⟩
        · omega
        · constructor <;> omega
        · omega
    · cases h
  · have hne : s.offset ≠ -1 := by omega
    have hne2 : s.length ≠ -1 := by omega
    simp only [hne, if_false, hne2] at h
    split at h
    · rename_i hlt
      injection h with h; subst h
      refine ⟨ho0, by simp only; omega, by simp only; omega, ?_⟩
      intro b
      simp only [Spec.covers, Spec.requests]
      constructor
      · rintro ⟨h1, h2⟩; exact ⟨by omega, by omega, Or.inr (Or.inr ⟨ho0, by omega, h1, by omega⟩)⟩
      · rintro ⟨h1, h2, h3⟩
        rcases h3 with ⟨h3, _⟩ | ⟨_, h3, _⟩ | ⟨_, _, h3, h4⟩
        · omega
        · omega
        · constructor <;> omega
    · cases h

/-- an unsatisfiable spec requests no byte of the representation -/
theorem canonical_none {s : Spec} (hwf : s.WF) {clen : Int} (hc0 : 0 ≤ clen) (h : canonical s clen = none) :
    ∀ b, ¬ s.requests clen b := by
  unfold canonical at h
  intro b hb
  obtain ⟨hb0, hb1, hb2⟩ := hb
  rcases hwf with ⟨ho, hl0, hl1⟩ | ⟨ho0, ho1, hl⟩ | ⟨ho0, hl1, hsum⟩
  · simp only [ho, if_true] at h
    split at h
    · cases h
    · rcases hb2 with ⟨_, h3⟩ | ⟨h3, _⟩ | ⟨h3, _⟩ <;> omega
  · have hne : s.offset ≠ -1 := by omega
    simp only [hne, if_false, hl, if_true] at h
    split at h
    · cases h
    · rcases hb2 with ⟨h3, _⟩ | ⟨_, _, h3⟩ | ⟨_, h3, _⟩ <;> omega
  · have hne : s.offset ≠ -1 := by omega
    have hne2 : s.length ≠ -1 := by omega
    simp only [hne, if_false, hne2] at h
    split at h
    · cases h
    · rcases hb2 with ⟨h3, _⟩ | ⟨_, h3, _⟩ | ⟨_, _, h3, h4⟩ <;> omega

/-! ### the list -/

theorem mergeLoop_id (fuel : Nat) (rest acc : List Spec) (h : rest.length ≤ fuel) :
    mergeLoop fuel rest acc = acc.reverse ++ rest := by
  induction fuel generalizing rest acc with
  | zero =>
    have : rest = [] := List.eq_nil_of_length_eq_zero (by omega)
    simp [mergeLoop, this]
  | succ fuel ih =>
    cases rest with
    | nil => simp [mergeLoop]
    | cons i rest =>
      simp only [List.length_cons] at h
      cases acc with
      | nil =>
        simp only [mergeLoop]
        rw [ih rest [i] (by omega)]; simp
      | cons last acc' =>
        simp only [mergeLoop, mergeWith, Bool.false_eq_true, if_false]
        rw [ih rest (i :: last :: acc') (by omega)]; simp

theorem merge_id (basis : List Spec) : merge basis = basis := by
  unfold merge
  rw [mergeLoop_id _ _ _ (by omega)]; rfl

theorem getCanonizedSpecs_eq (specs : List Spec) (hwf : ∀ s ∈ specs, s.WF) (clen : Int) (hc0 : 0 ≤ clen)
    (hc : clen ≤ LLONG_MAX) : getCanonizedSpecs clen specs = .ok (specs.filterMap (canonical · clen)) := by
  induction specs with
  | nil => rfl
  | cons s ss ih =>
    obtain ⟨c, good, heq, hg, hb⟩ := canonizeSpec_eq s (hwf s List.mem_cons_self) clen hc0 hc
    have ih' := ih (fun x hx => hwf x (List.mem_cons_of_mem _ hx))
    simp only [getCanonizedSpecs, heq, ih']
    cases good with
    | true => simp [hg rfl]
    | false => simp [hb rfl]

theorem canonize_eq (specs : List Spec) (hwf : ∀ s ∈ specs, s.WF) (clen : Int) (hc0 : 0 ≤ clen) (hc : clen ≤ LLONG_MAX) :
    canonize specs clen = .ok (specs.filterMap (canonical · clen)) := by
  simp only [canonize, getCanonizedSpecs_eq specs hwf clen hc0 hc, merge_id]

end SquidModel.Range
