/-
"Need more" is bounded: `ProxyProtocol::Parse` asks for more bytes only while fewer than 12 octets (no signature yet),
fewer than 107 octets (v1 line) or fewer than 16 + length-field octets (v2) are buffered; in particular never beyond
12 + 4 + 65535 octets. Helper lemmas for Properties/C38.lean. Core-only.
-/
import SquidModel.Proxyp.Short
import SquidModel.Proxyp.Shape
namespace SquidModel.Proxyp
open SquidModel.Gen.Proxyp

namespace Two

theorem liftB_more_iff (e : BErr) : liftB e = .more ↔ e = .insufficient := by cases e <;> simp [liftB]

/-! characterisations of the tokenizer operations, in a form `simp_all` can chain -/

theorem area_error_iff (t : BTok) (n : Nat) (e : BErr) :
    t.area n = .error e ↔ t.rest.length < n ∧ e = (if t.expectMore then .insufficient else .truncated) := by
  unfold BTok.area BTok.want
  by_cases h : t.rest.length < n
  · simp only [h, if_true, Except.error.injEq, true_and]; exact eq_comm
  · simp [h]

theorem area_ok_iff (t : BTok) (n : Nat) (x : Bytes) (t' : BTok) :
    t.area n = .ok (x, t') ↔ ¬ t.rest.length < n ∧ x = t.rest.take n ∧ t' = ⟨t.rest.drop n, t.parsed + n, t.expectMore⟩ := by
  unfold BTok.area BTok.want
  by_cases h : t.rest.length < n
  · simp [h]
  · simp only [h, if_false, Except.ok.injEq, Prod.mk.injEq, not_false_eq_true, true_and]
    constructor
    · rintro ⟨h1, h2⟩; exact ⟨h1.symm, h2.symm⟩
    · rintro ⟨h1, h2⟩; exact ⟨h1.symm, h2.symm⟩

theorem skip_error_iff (t : BTok) (n : Nat) (e : BErr) :
    t.skip n = .error e ↔ t.rest.length < n ∧ e = (if t.expectMore then .insufficient else .truncated) := by
  unfold BTok.skip BTok.want
  by_cases h : t.rest.length < n
  · simp only [h, if_true, Except.error.injEq, true_and]; exact eq_comm
  · simp [h]

theorem skip_ok_iff (t : BTok) (n : Nat) (t' : BTok) :
    t.skip n = .ok t' ↔ ¬ t.rest.length < n ∧ t' = ⟨t.rest.drop n, t.parsed + n, t.expectMore⟩ := by
  unfold BTok.skip BTok.want
  by_cases h : t.rest.length < n
  · simp [h]
  · simp only [h, if_false, Except.ok.injEq, not_false_eq_true, true_and]; exact eq_comm

/-- the value `uint16` reads -/
def peek16 : Bytes → Nat
  | a :: b :: _ => (a.toNat <<< 8) ||| b.toNat
  | _ => 0

def peek8 : Bytes → Nat
  | a :: _ => a.toNat
  | _ => 0

theorem uint16_error_iff (t : BTok) (e : BErr) :
    t.uint16 = .error e ↔ t.rest.length < 2 ∧ e = (if t.expectMore then .insufficient else .truncated) := by
  obtain ⟨r, p, em⟩ := t
  unfold BTok.uint16 BTok.want
  by_cases h : r.length < 2
  · simp only [h, if_true, Except.error.injEq, true_and]; exact eq_comm
  · match r, h with
    | a :: b :: r', _ =>
      simp only [List.length_cons, show ¬ (r'.length + 1 + 1 < 2) by omega, if_false, false_and]
      simp
    | [_], h => simp at h
    | [], h => simp at h

theorem uint16_ok_iff (t : BTok) (v : Nat) (t' : BTok) :
    t.uint16 = .ok (v, t') ↔ ¬ t.rest.length < 2 ∧ v = peek16 t.rest ∧ t' = ⟨t.rest.drop 2, t.parsed + 2, t.expectMore⟩ := by
  obtain ⟨r, p, em⟩ := t
  unfold BTok.uint16 BTok.want
  by_cases h : r.length < 2
  · simp [h]
  · match r, h with
    | a :: b :: r', _ =>
      simp only [List.length_cons, show ¬ (r'.length + 1 + 1 < 2) by omega, if_false, Except.ok.injEq, Prod.mk.injEq,
        not_false_eq_true, true_and, peek16, List.drop_succ_cons, List.drop_zero]
      constructor
      · rintro ⟨h1, h2⟩; exact ⟨h1.symm, h2.symm⟩
      · rintro ⟨h1, h2⟩; exact ⟨h1.symm, h2.symm⟩
    | [_], h => simp at h
    | [], h => simp at h

theorem uint8_error_iff (t : BTok) (e : BErr) :
    t.uint8 = .error e ↔ t.rest.length < 1 ∧ e = (if t.expectMore then .insufficient else .truncated) := by
  obtain ⟨r, p, em⟩ := t
  unfold BTok.uint8 BTok.want
  by_cases h : r.length < 1
  · simp only [h, if_true, Except.error.injEq, true_and]; exact eq_comm
  · match r, h with
    | a :: r', _ =>
      simp only [List.length_cons, show ¬ (r'.length + 1 < 1) by omega, if_false, false_and]
      simp
    | [], h => simp at h

theorem uint8_ok_iff (t : BTok) (v : Nat) (t' : BTok) :
    t.uint8 = .ok (v, t') ↔ ¬ t.rest.length < 1 ∧ v = peek8 t.rest ∧ t' = ⟨t.rest.drop 1, t.parsed + 1, t.expectMore⟩ := by
  obtain ⟨r, p, em⟩ := t
  unfold BTok.uint8 BTok.want
  by_cases h : r.length < 1
  · simp [h]
  · match r, h with
    | a :: r', _ =>
      simp only [List.length_cons, show ¬ (r'.length + 1 < 1) by omega, if_false, Except.ok.injEq, Prod.mk.injEq,
        not_false_eq_true, true_and, peek8, List.drop_succ_cons, List.drop_zero]
      constructor
      · rintro ⟨h1, h2⟩; exact ⟨h1.symm, h2.symm⟩
      · rintro ⟨h1, h2⟩; exact ⟨h1.symm, h2.symm⟩
    | [], h => simp at h

theorem pstring16_error (t : BTok) (e : BErr) (h : t.pstring16 = .error e) (he : t.expectMore = false) : e = .truncated := by
  unfold BTok.pstring16 at h
  split at h
  · rename_i e' heq
    cases h
    rw [uint16_error_iff] at heq
    rw [heq.2, he]; rfl
  · rename_i len t1 heq
    rw [uint16_ok_iff] at heq
    split at h
    · rw [area_error_iff] at h
      rw [h.2, heq.2.2, he]; rfl
    · cases h

theorem pstring16_ok (t : BTok) (x : Bytes) (t' : BTok) (h : t.pstring16 = .ok (x, t')) : t'.expectMore = t.expectMore := by
  unfold BTok.pstring16 at h
  split at h
  · cases h
  · rename_i len t1 heq
    rw [uint16_ok_iff] at heq
    split at h
    · rw [area_ok_iff] at h
      rw [h.2.2, heq.2.2]
    · cases h; rw [heq.2.2]

/-- a failing read of a tokenizer that does not expect more data is a rejection, never "need more" -/
theorem parseAddresses_error {family : Nat} {t : BTok} {h : Header} {e : Stop} (he : t.expectMore = false)
    (hp : parseAddresses family t h = .error e) : e ≠ .more := by
  intro hc
  subst hc
  unfold parseAddresses BTok.inetAny at hp
  repeat' (split at hp)
  all_goals (try (simp at hp; done))
  all_goals (
    simp only [Except.error.injEq, liftB_more_iff] at hp
    subst hp
    simp_all [area_error_iff, area_ok_iff, skip_error_iff, uint16_error_iff, uint16_ok_iff])

theorem parseAddresses_em {family : Nat} {t t' : BTok} {h h1 : Header} (hp : parseAddresses family t h = .ok (h1, t')) :
    t'.expectMore = t.expectMore := by
  unfold parseAddresses BTok.inetAny at hp
  repeat' (split at hp)
  all_goals (try (simp at hp; done))
  all_goals (
    simp only [Except.ok.injEq, Prod.mk.injEq] at hp
    obtain ⟨-, rfl⟩ := hp
    simp_all [area_ok_iff, skip_ok_iff, uint16_ok_iff])

theorem parseTLVs_ne_more (fuel : Nat) (t : BTok) (he : t.expectMore = false) (acc : List Tlv) :
    parseTLVs fuel t acc ≠ .error .more := by
  induction fuel generalizing t acc with
  | zero => simp [parseTLVs]
  | succ f ih =>
    intro hc
    unfold parseTLVs at hc
    split at hc
    · simp at hc
    · split at hc
      · rename_i e heq
        simp only [Except.error.injEq, liftB_more_iff] at hc
        subst hc
        rw [uint8_error_iff, he] at heq
        simp at heq
      · rename_i ty t1 heq
        have hem1 : t1.expectMore = false := by
          rw [uint8_ok_iff] at heq; rw [heq.2.2]; exact he
        split at hc
        · rename_i e heq2
          simp only [Except.error.injEq, liftB_more_iff] at hc
          subst hc
          have := pstring16_error _ _ heq2 hem1
          cases this
        · rename_i v t2 heq2
          have hem2 : t2.expectMore = false := by rw [pstring16_ok _ _ _ heq2, hem1]
          exact ih t2 hem2 _ hc

theorem body_ne_more (command family proto : Nat) (raw : Bytes) : body command family proto raw ≠ .error .more := by
  intro hc
  unfold body at hc
  repeat' (first | (split at hc) | (simp only at hc))
  all_goals (try (simp at hc; done))
  · cases hc; exact parseAddresses_error (t := BTok.mk' raw) rfl ‹_› rfl
  · cases hc
    rename_i heq _ _ heq2
    have hem := parseAddresses_em heq
    exact parseTLVs_ne_more _ _ (hem.trans rfl) _ heq2

theorem len16_lt (l1 l2 : UInt8) : len16 l1 l2 < 65536 := by
  unfold len16
  have h1 := l1.toNat_lt
  have h2 := l2.toNat_lt
  rw [← Nat.shiftLeft_add_eq_or_of_lt (by omega), Nat.shiftLeft_eq]
  omega

/-- `Two::Parse` asks for more only while the frame (4 octets + length field) is incomplete -/
theorem parse_more {buf : Bytes} (h : parse buf = .error .more) : buf.length < 4 + 65536 := by
  by_cases hl : buf.length < 4 + 65536
  · exact hl
  · exfalso
    match buf, hl with
    | vc :: fp :: l1 :: l2 :: r3, hl =>
      rw [parse_eq] at h
      simp only at h
      have hlen : ¬ r3.length < len16 l1 l2 := by
        have := len16_lt l1 l2
        simp only [List.length_cons] at hl
        omega
      simp only [hlen, if_false] at h
      repeat' (split at h)
      all_goals (try (simp at h; done))
      all_goals (cases h; exact absurd ‹_› (body_ne_more _ _ _ _))
    | [_, _, _], hl => simp at hl
    | [_, _], hl => simp at hl
    | [_], hl => simp at hl
    | [], hl => simp at hl

end Two

namespace One

theorem extractIp_ne_more (ipOf : IpOf) (t : Tok) : extractIp ipOf t ≠ .error .more := by
  unfold extractIp
  repeat' split
  all_goals simp

theorem extractPort_ne_more (t : Tok) (ts : Bool) : extractPort t ts ≠ .error .more := by
  rw [extractPort_eq]
  repeat' split
  all_goals simp

theorem parseAddresses_ne_more (ipOf : IpOf) (t : Tok) (h : Header) : parseAddresses ipOf t h ≠ .error .more := by
  intro hc
  unfold parseAddresses at hc
  repeat' (first | (split at hc) | (simp only at hc))
  all_goals (try cases hc)
  all_goals
    first
    | exact extractIp_ne_more _ _ ‹_›
    | exact extractPort_ne_more _ _ ‹_›

theorem interior_ne_more (ipOf : IpOf) (inter : Bytes) : interior ipOf inter ≠ .error .more := by
  intro hc
  unfold interior at hc
  simp only at hc
  repeat' (split at hc)
  all_goals (try cases hc)
  all_goals exact parseAddresses_ne_more _ _ _ ‹_›

/-- `One::Parse` asks for more only while no CRLF was seen within the first 107 - 5 octets -/
theorem parse_more {ipOf : IpOf} {buf : Bytes} (h : parse ipOf buf = .error .more) : buf.length ≤ maxInteriorLength + 1 := by
  unfold parse at h
  have hrl := run_length_le buf
  cases hl : line (Tok.ofBytes buf) with
  | ok p =>
    rw [hl] at h
    obtain ⟨inter, t3⟩ := p
    simp only at h
    split at h
    · cases h; exact absurd ‹_› (interior_ne_more _ _)
    · cases h
  | error e =>
    rw [hl] at h
    simp only [Except.error.injEq] at h
    subst h
    rw [line_eq] at hl
    by_cases hr : run buf = []
    · simp only [hr, if_true] at hl
      by_cases hb : buf = []
      · subst hb; simp
      · simp [hb] at hl
    · simp only [hr, if_false] at hl
      cases hd : buf.drop (run buf).length with
      | nil =>
        have := congrArg List.length hd
        simp only [List.length_drop, List.length_nil] at this
        omega
      | cons c rest =>
        rw [hd] at hl
        simp only at hl
        by_cases hc : c = 13
        · simp only [hc, if_true] at hl
          cases rest with
          | nil =>
            have := congrArg List.length hd
            simp only [List.length_drop, List.length_cons, List.length_nil] at this
            omega
          | cons d rest2 =>
            simp only at hl
            by_cases hd2 : d = 10 <;> simp [hd2] at hl
        · simp [hc] at hl

end One

/-- the parser never waits beyond a v2 frame of maximal size (and never beyond 106 octets of a v1 line or 11 octets
without a signature) -/
theorem more_bounded {ipOf : IpOf} {buf : Bytes} (h : parse ipOf buf = .more) :
    buf.length < magic2.length + 4 + 65536 ∧
    (magic1.isPrefixOf buf = true → buf.length < maxHeaderLength) ∧
    (magic1.isPrefixOf buf = false → magic2.isPrefixOf buf = false → buf.length < magic2.length) := by
  rw [parse_eq] at h
  by_cases h2 : magic2.isPrefixOf buf = true
  · simp only [h2, if_true] at h
    obtain ⟨t, rfl⟩ := List.isPrefixOf_iff_prefix.mp h2
    rw [List.drop_left] at h
    have hm : Two.parse t = .error .more := by
      cases hq : Two.parse t with
      | error e => rw [hq] at h; cases e <;> simp [toRes] at h ⊢
      | ok p => rw [hq] at h; simp [toRes] at h
    have := Two.parse_more hm
    refine ⟨by simp only [List.length_append]; omega, ?_, ?_⟩
    · intro h1
      have := magic1_excludes_magic2 _ h1
      rw [h2] at this; cases this
    · intro _ h2'; rw [h2] at h2'; cases h2'
  · have h2' : magic2.isPrefixOf buf = false := Bool.eq_false_iff.mpr h2
    rw [h2'] at h
    simp only [Bool.false_eq_true, if_false] at h
    by_cases h1 : magic1.isPrefixOf buf = true
    · simp only [h1, if_true] at h
      obtain ⟨t, rfl⟩ := List.isPrefixOf_iff_prefix.mp h1
      rw [List.drop_left] at h
      have hm : One.parse ipOf t = .error .more := by
        cases hq : One.parse ipOf t with
        | error e => rw [hq] at h; cases e <;> simp [toRes] at h ⊢
        | ok p => rw [hq] at h; simp [toRes] at h
      have := One.parse_more hm
      have hl : (magic1 ++ t).length < maxHeaderLength := by
        simp only [List.length_append, magic1, maxHeaderLength, maxInteriorLength, List.length_cons, List.length_nil] at this ⊢
        omega
      refine ⟨?_, fun _ => hl, ?_⟩
      · simp only [maxHeaderLength, magic2, List.length_cons, List.length_nil] at hl ⊢; omega
      · intro h1'; rw [h1] at h1'; cases h1'
    · have h1' : magic1.isPrefixOf buf = false := Bool.eq_false_iff.mpr h1
      rw [h1'] at h
      by_cases hl : buf.length ≥ magic2.length
      · simp [hl] at h
      · refine ⟨by omega, ?_, fun _ _ => by omega⟩
        intro h1''; rw [h1'] at h1''; cases h1''

end SquidModel.Proxyp
