/-
`One::ExtractPort` in closed form: `Tokenizer::int64(port, 10, false)` reads the maximal run of decimal digits, returns
its exact value when it fits an int64 and fails otherwise (shared refinement theorem `Tok.int64Core_eq`); no sign, no
undefined behaviour. Helper lemmas for Properties/C38.lean. Core-only.
-/
import SquidModel.Proxyp.Parser
import SquidModel.Base.TokIntLemmas
import SquidModel.Base.TokLemmas
namespace SquidModel.Proxyp
open SquidModel.Gen.Proxyp

/-- the maximal leading run of decimal digits -/
def decRun (b : Bytes) : Bytes := b.takeWhile (Tok.validDigit 10)

theorem lexPrefix10 (s : Bytes) (off : Nat) : Tok.lexPrefix 10 s off = (10, s, off) := by
  unfold Tok.lexPrefix
  rw [if_neg (by decide)]

theorem resolveBase10 (s : Bytes) : Tok.resolveBase 10 s = 10 := by
  unfold Tok.resolveBase
  rw [if_neg (by decide)]

theorem lexSignFalse (r : Bytes) : Tok.lexSign false r = (false, r, 0) := by
  simp [Tok.lexSign]

/-- closed form of `tok.int64(port, 10, false)` -/
theorem int64_dec (t : Tok) :
    t.int64 10 false =
      if decRun t.buf = [] then .fail
      else if ((Tok.digitsValue 10 (decRun t.buf) : Nat) : Int) ≤ Tok.i64Max then
        .ok ((Tok.digitsValue 10 (decRun t.buf) : Nat) : Int) ⟨t.buf.drop (decRun t.buf).length, t.parsed + (decRun t.buf).length⟩
      else .fail := by
  unfold Tok.int64 Tok.int64Raw
  rw [Tok.int64Core_eq _ _ _ (by decide)]
  have hub : Tok.inUbZone t.buf 10 false Tok.npos = false := by
    unfold Tok.inUbZone
    by_cases h1 : (t.buf.isEmpty || Tok.npos == 0) = true
    · simp [h1]
    · simp only [h1, Bool.false_eq_true, if_false, lexSignFalse, Bool.false_and, Tok.ubDigits]
      split <;> rfl
  rw [hub]
  simp only [Bool.and_false, Bool.false_eq_true, if_false]
  unfold Tok.specInt64
  by_cases he : t.buf = []
  · simp [he, decRun]
  · have h1 : (t.buf.isEmpty || Tok.npos == 0) = false := by
      cases hb : t.buf with
      | nil => exact absurd hb he
      | cons _ _ => simp [Tok.npos]
    have hne : t.buf.isEmpty = false := by
      cases hb : t.buf with
      | nil => exact absurd hb he
      | cons _ _ => rfl
    simp only [Bool.false_eq_true, if_false, lexSignFalse, Bool.false_and, Tok.takeLim_npos, lexPrefix10,
      hne, resolveBase10]
    rw [Tok.specDigits_def]
    simp only [Tok.signedValue, Bool.false_eq_true, if_false, Nat.zero_add, decRun]
    have h10 : (10 : Int).toNat = 10 := rfl
    rw [h10]
    by_cases hd : t.buf.takeWhile (Tok.validDigit 10) = []
    · simp [hd]
    · have hd' : (t.buf.takeWhile (Tok.validDigit 10)).isEmpty = false := by
        cases hx : t.buf.takeWhile (Tok.validDigit 10) with
        | nil => exact absurd hx hd
        | cons _ _ => rfl
      simp only [hd', Bool.false_eq_true, if_false, hd]
      have hnn : Tok.i64Min ≤ ((Tok.digitsValue 10 (t.buf.takeWhile (Tok.validDigit 10)) : Nat) : Int) := by
        have : (0 : Int) ≤ ((Tok.digitsValue 10 (t.buf.takeWhile (Tok.validDigit 10)) : Nat) : Int) := Int.natCast_nonneg _
        unfold Tok.i64Min; omega
      by_cases hr : ((Tok.digitsValue 10 (t.buf.takeWhile (Tok.validDigit 10)) : Nat) : Int) ≤ Tok.i64Max
      · have hnp : ¬ (Tok.npos = 0) := by decide
        have hmin : min (List.takeWhile (Tok.validDigit 10) t.buf).length t.buf.length = (List.takeWhile (Tok.validDigit 10) t.buf).length :=
          Nat.min_eq_left (Tok.length_takeWhile_le _ _)
        simp [hnn, hr, Tok.consumeN, hnp, hmin]
      · simp [hr]

/-- `rest` does not continue a run of `p` -/
def stops {α} (p : α → Bool) (rest : List α) : Prop := rest = [] ∨ ∃ c r, rest = c :: r ∧ p c = false

theorem takeWhile_append_stops {α} (p : α → Bool) (ds rest : List α) (hall : ∀ b ∈ ds, p b = true) (hs : stops p rest) :
    (ds ++ rest).takeWhile p = ds := by
  induction ds with
  | nil =>
    rcases hs with rfl | ⟨c, r, rfl, hc⟩
    · rfl
    · simp [hc]
  | cons b r ih =>
    have hb : p b = true := hall b (by simp)
    simp only [List.cons_append, List.takeWhile_cons, hb, if_true]
    rw [ih (fun x hx => hall x (by simp [hx]))]

theorem dropWhile_stops {α} (p : α → Bool) (l : List α) : stops p (l.drop (l.takeWhile p).length) := by
  rw [Tok.drop_length_takeWhile]
  rcases Tok.dropWhile_head p l with h | ⟨b, rest, h, hb⟩
  · exact Or.inl h
  · exact Or.inr ⟨b, rest, h, by simpa using hb⟩

namespace One

/-- the value `addr.port(static_cast<uint16_t>(port))` stores for an in-range port -/
theorem port_cast (v : Nat) (h : (v : Int) ≤ portMax) : (((v : Int) % 65536).toNat) = v := by
  unfold portMax at h
  omega

/-- closed form of `One::ExtractPort` -/
theorem extractPort_eq (t : Tok) (ts : Bool) :
    extractPort t ts =
      if decRun t.buf = [] then .error (.reject .v1MalformedPort)
      else if ¬ ((Tok.digitsValue 10 (decRun t.buf) : Nat) : Int) ≤ Tok.i64Max then .error (.reject .v1MalformedPort)
      else if ts then
        match t.buf.drop (decRun t.buf).length with
        | c :: r =>
          if c = 32 then
            (if ((Tok.digitsValue 10 (decRun t.buf) : Nat) : Int) > portMax then .error (.reject .v1InvalidPort)
             else .ok (Tok.digitsValue 10 (decRun t.buf), ⟨r, t.parsed + (decRun t.buf).length + 1⟩))
          else .error (.reject .v1GarbageAfterPort)
        | [] => .error (.reject .v1GarbageAfterPort)
      else
        (if ((Tok.digitsValue 10 (decRun t.buf) : Nat) : Int) > portMax then .error (.reject .v1InvalidPort)
         else .ok (Tok.digitsValue 10 (decRun t.buf), ⟨t.buf.drop (decRun t.buf).length, t.parsed + (decRun t.buf).length⟩)) := by
  unfold extractPort
  rw [int64_dec]
  by_cases h1 : decRun t.buf = []
  · simp [h1]
  · simp only [h1, if_false]
    by_cases h2 : ((Tok.digitsValue 10 (decRun t.buf) : Nat) : Int) ≤ Tok.i64Max
    · simp only [h2, if_true, not_true_eq_false, if_false]
      cases ts with
      | true =>
        simp only [if_true]
        rw [Tok.skipChar_eq]
        simp only
        cases t.buf.drop (decRun t.buf).length with
        | nil => rfl
        | cons c r =>
          simp only
          by_cases hc : c = 32
          · simp only [hc, if_true]
            by_cases hp : ((Tok.digitsValue 10 (decRun t.buf) : Nat) : Int) > portMax
            · simp [hp]
            · simp only [hp, if_false]
              rw [port_cast _ (by omega)]
          · simp [hc]
      | false =>
        simp only [Bool.false_eq_true, if_false]
        by_cases hp : ((Tok.digitsValue 10 (decRun t.buf) : Nat) : Int) > portMax
        · simp [hp]
        · simp only [hp, if_false]
          rw [port_cast _ (by omega)]
    · simp [h2]

theorem extractPort_ne_ub (t : Tok) (ts : Bool) : extractPort t ts ≠ .error .ub := by
  rw [extractPort_eq]
  repeat' split
  all_goals simp

/-- an accepted port is the exact value of a non-empty maximal run of decimal digits, at most 65535, followed by a
space when one is required -/
theorem extractPort_ok {t t' : Tok} {ts : Bool} {p : Nat} (h : extractPort t ts = .ok (p, t')) :
    ∃ ds, ds ≠ [] ∧ (∀ c ∈ ds, Tok.validDigit 10 c = true) ∧ Tok.digitsValue 10 ds = p ∧ p ≤ 65535 ∧
      t.buf = ds ++ (if ts then 32 :: t'.buf else t'.buf) ∧
      t'.parsed = t.parsed + ds.length + (if ts then 1 else 0) ∧
      (ts = false → stops (Tok.validDigit 10) t'.buf) := by
  rw [extractPort_eq] at h
  by_cases h1 : decRun t.buf = []
  · simp [h1] at h
  · simp only [h1, if_false] at h
    by_cases h2 : ((Tok.digitsValue 10 (decRun t.buf) : Nat) : Int) ≤ Tok.i64Max
    · simp only [h2, not_true_eq_false, if_false] at h
      have hsplit : decRun t.buf ++ t.buf.drop (decRun t.buf).length = t.buf := by
        have := List.take_append_drop (decRun t.buf).length t.buf
        rw [show t.buf.take (decRun t.buf).length = decRun t.buf from Tok.take_length_takeWhile _ _] at this
        exact this
      cases ts with
      | true =>
        simp only [if_true] at h
        cases hd : t.buf.drop (decRun t.buf).length with
        | nil => rw [hd] at h; cases h
        | cons c r =>
          rw [hd] at h
          simp only at h
          by_cases hc : c = 32
          · subst hc
            simp only [if_true] at h
            by_cases hp : ((Tok.digitsValue 10 (decRun t.buf) : Nat) : Int) > portMax
            · simp [hp] at h
            · simp only [hp, if_false, Except.ok.injEq, Prod.mk.injEq] at h
              obtain ⟨rfl, rfl⟩ := h
              refine ⟨decRun t.buf, h1, fun c hc => Tok.mem_takeWhile hc, rfl, ?_, ?_, by simp, by simp⟩
              · unfold portMax at hp; omega
              · simp only [if_true]; rw [← hd]; exact hsplit.symm
          · simp [hc] at h
      | false =>
        simp only [Bool.false_eq_true, if_false] at h
        by_cases hp : ((Tok.digitsValue 10 (decRun t.buf) : Nat) : Int) > portMax
        · simp [hp] at h
        · simp only [hp, if_false, Except.ok.injEq, Prod.mk.injEq] at h
          obtain ⟨rfl, rfl⟩ := h
          refine ⟨decRun t.buf, h1, fun c hc => Tok.mem_takeWhile hc, rfl, ?_, ?_, by simp, ?_⟩
          · unfold portMax at hp; omega
          · simp only [Bool.false_eq_true, if_false]; exact hsplit.symm
          · intro _; exact dropWhile_stops _ _
    · simp [h2] at h

/-- a decimal spelling of a port (any number of digits, value at most 65535) is read exactly -/
theorem extractPort_intro (ds rest : Bytes) (par : Nat) (ts : Bool) (hne : ds ≠ []) (hall : ∀ c ∈ ds, Tok.validDigit 10 c = true)
    (hv : Tok.digitsValue 10 ds ≤ 65535) (hs : if ts then True else stops (Tok.validDigit 10) rest) :
    extractPort ⟨ds ++ (if ts then 32 :: rest else rest), par⟩ ts =
      .ok (Tok.digitsValue 10 ds, ⟨rest, par + ds.length + (if ts then 1 else 0)⟩) := by
  rw [extractPort_eq]
  have hrun : decRun (ds ++ (if ts then 32 :: rest else rest)) = ds := by
    unfold decRun
    apply takeWhile_append_stops _ _ _ hall
    cases ts with
    | true => exact Or.inr ⟨32, rest, rfl, by decide⟩
    | false => simpa using hs
  simp only [hrun, hne, if_false]
  have h2 : ((Tok.digitsValue 10 ds : Nat) : Int) ≤ Tok.i64Max := by unfold Tok.i64Max; omega
  have hp : ¬ ((Tok.digitsValue 10 ds : Nat) : Int) > portMax := by unfold portMax; omega
  simp only [h2, not_true_eq_false, if_false, hp, List.drop_left]
  cases ts <;> simp

end One
end SquidModel.Proxyp
