/-
What a successful parse consumed: the accepted header is a function of the consumed octets only, the consumed size
never exceeds the buffer, it is `16 + length field` for v2 and `interior + CRLF` (at most 107 octets) for v1.
Helper lemmas for Properties/C38.lean. Core-only.
-/
import SquidModel.Proxyp.Stable
namespace SquidModel.Proxyp
open SquidModel.Gen.Proxyp

namespace One

theorem run_intro {α} (p : α → Bool) (inter : List α) (c : α) (rest : List α) (L : Nat)
    (hall : ∀ b ∈ inter, p b = true) (hc : p c = false) (hL : inter.length ≤ L) :
    ((inter ++ c :: rest).take L).takeWhile p = inter := by
  induction inter generalizing L with
  | nil =>
    cases L with
    | zero => simp
    | succ n => simp [hc]
  | cons b r ih =>
    cases L with
    | zero => simp at hL
    | succ n =>
      have hb : p b = true := hall b (by simp)
      simp only [List.cons_append, List.take_succ_cons, List.takeWhile_cons, hb, if_true]
      rw [ih n (fun x hx => hall x (by simp [hx])) (by simpa using hL)]

theorem cr_not_interior : interiorChars.mem 13 = false := by decide

/-- a line made of an interior (no CR, 1..`maxInteriorLength` octets), CR, LF is extracted exactly -/
theorem line_intro (inter rest : Bytes) (hne : inter ≠ []) (hall : ∀ b ∈ inter, interiorChars.mem b = true)
    (hlen : inter.length ≤ maxInteriorLength) :
    line (Tok.ofBytes (inter ++ 13 :: 10 :: rest)) = .ok (inter, ⟨rest, inter.length + 2⟩) := by
  rw [line_eq]
  have hrun : run (inter ++ 13 :: 10 :: rest) = inter := run_intro _ inter 13 _ _ hall cr_not_interior hlen
  rw [hrun]
  simp [hne]

theorem run_all (buf : Bytes) : ∀ b ∈ run buf, interiorChars.mem b = true :=
  fun _ hb => Tok.mem_takeWhile hb

theorem run_length_le (buf : Bytes) : (run buf).length ≤ maxInteriorLength := by
  unfold run
  have := Tok.length_takeWhile_le interiorChars.mem (buf.take maxInteriorLength)
  have := List.length_take_le maxInteriorLength buf
  omega

theorem take_run (buf : Bytes) : buf.take (run buf).length = run buf := by
  have e1 := Tok.take_length_takeWhile interiorChars.mem (buf.take maxInteriorLength)
  have hle := run_length_le buf
  unfold run at hle ⊢
  rw [List.take_take, Nat.min_eq_left hle] at e1
  exact e1

/-- decomposition of a successful line phase -/
theorem line_ok {buf inter : Bytes} {t3 : Tok} (h : line (Tok.ofBytes buf) = .ok (inter, t3)) :
    buf = inter ++ 13 :: 10 :: t3.buf ∧ t3.parsed = inter.length + 2 ∧ inter ≠ [] ∧
    inter.length ≤ maxInteriorLength ∧ ∀ b ∈ inter, interiorChars.mem b = true := by
  rw [line_eq] at h
  by_cases hr : run buf = []
  · simp only [hr, if_true] at h
    split at h <;> cases h
  · simp only [hr, if_false] at h
    cases hd : buf.drop (run buf).length with
    | nil => rw [hd] at h; cases h
    | cons c rest =>
      rw [hd] at h
      simp only at h
      by_cases hc : c = 13
      · subst hc
        simp only [if_true] at h
        cases rest with
        | nil => cases h
        | cons d rest2 =>
          simp only at h
          by_cases hd2 : d = 10
          · subst hd2
            simp only [if_true, Except.ok.injEq, Prod.mk.injEq] at h
            obtain ⟨h1, h2⟩ := h
            subst h1
            subst h2
            refine ⟨?_, rfl, hr, run_length_le buf, run_all buf⟩
            have := List.take_append_drop (run buf).length buf
            rw [take_run, hd] at this
            exact this.symm
          · simp [hd2] at h
      · simp [hc] at h

/-- a successful `One::Parse` consumed interior + CRLF, and the same answer is given for exactly these octets -/
theorem parse_ok {ipOf : IpOf} {buf : Bytes} {h : Header} {n : Nat} (hp : parse ipOf buf = .ok (h, n)) :
    ∃ inter rest, buf = inter ++ 13 :: 10 :: rest ∧ n = inter.length + 2 ∧ inter ≠ [] ∧
      inter.length ≤ maxInteriorLength ∧ (∀ b ∈ inter, interiorChars.mem b = true) ∧
      interior ipOf inter = .ok h ∧ parse ipOf (buf.take n) = .ok (h, n) := by
  unfold parse at hp
  cases hl : line (Tok.ofBytes buf) with
  | error e => rw [hl] at hp; cases hp
  | ok p =>
    obtain ⟨inter, t3⟩ := p
    rw [hl] at hp
    simp only at hp
    cases hi : interior ipOf inter with
    | error e => rw [hi] at hp; cases hp
    | ok h' =>
      rw [hi] at hp
      simp only [Except.ok.injEq, Prod.mk.injEq] at hp
      obtain ⟨rfl, rfl⟩ := hp
      obtain ⟨hb, hps, hne, hlen, hall⟩ := line_ok hl
      refine ⟨inter, t3.buf, hb, hps, hne, hlen, hall, hi, ?_⟩
      have htake : buf.take t3.parsed = inter ++ 13 :: 10 :: [] := by
        rw [hps]
        conv => lhs; rw [hb]
        rw [List.take_append, List.take_of_length_le (by omega)]
        simp
      rw [htake]
      unfold parse
      rw [line_intro inter [] hne hall hlen]
      simp only [hi, hps]

end One

namespace Two

/-- decomposition of a successful `Two::Parse`: four fixed octets, the 16-bit length, exactly that many octets -/
theorem parse_ok {buf : Bytes} {h : Header} {n : Nat} (hp : parse buf = .ok (h, n)) :
    ∃ vc fp l1 l2 r3, buf = vc :: fp :: l1 :: l2 :: r3 ∧ n = 4 + len16 l1 l2 ∧ len16 l1 l2 ≤ r3.length ∧
      (vc.toNat &&& 0xF0) >>> 4 = 2 ∧ vc.toNat &&& 0x0F ≤ cmdProxy ∧
      (fp.toNat &&& 0xF0) >>> 4 ≤ afUnix ∧ fp.toNat &&& 0x0F ≤ tpDgram ∧
      body (vc.toNat &&& 0x0F) ((fp.toNat &&& 0xF0) >>> 4) (fp.toNat &&& 0x0F) (r3.take (len16 l1 l2)) = .ok h ∧
      parse (buf.take n) = .ok (h, n) := by
  rw [parse_eq] at hp
  cases buf with
  | nil => cases hp
  | cons vc r1 =>
    simp only at hp
    by_cases h1 : (vc.toNat &&& 0xF0) >>> 4 ≠ 2
    · simp [h1] at hp
    · simp only [h1, if_false] at hp
      by_cases h2 : vc.toNat &&& 0x0F > cmdProxy
      · simp [h2] at hp
      · simp only [h2, if_false] at hp
        cases r1 with
        | nil => cases hp
        | cons fp r2 =>
          simp only at hp
          by_cases h3 : (fp.toNat &&& 0xF0) >>> 4 > afUnix
          · simp [h3] at hp
          · simp only [h3, if_false] at hp
            by_cases h4 : fp.toNat &&& 0x0F > tpDgram
            · simp [h4] at hp
            · simp only [h4, if_false] at hp
              cases r2 with
              | nil => cases hp
              | cons l1 r2' =>
                cases r2' with
                | nil => cases hp
                | cons l2 r3 =>
                  simp only at hp
                  by_cases hl : r3.length < len16 l1 l2
                  · simp [hl] at hp
                  · simp only [hl, if_false] at hp
                    cases hb : body (vc.toNat &&& 0x0F) ((fp.toNat &&& 0xF0) >>> 4) (fp.toNat &&& 0x0F) (r3.take (len16 l1 l2)) with
                    | error e => rw [hb] at hp; cases hp
                    | ok h' =>
                      rw [hb] at hp
                      simp only [Except.ok.injEq, Prod.mk.injEq] at hp
                      obtain ⟨rfl, rfl⟩ := hp
                      refine ⟨vc, fp, l1, l2, r3, rfl, rfl, by omega, by omega, by omega, by omega, by omega, hb, ?_⟩
                      have ht : (vc :: fp :: l1 :: l2 :: r3).take (4 + len16 l1 l2) = vc :: fp :: l1 :: l2 :: r3.take (len16 l1 l2) := by
                        rw [show 4 + len16 l1 l2 = len16 l1 l2 + 1 + 1 + 1 + 1 by omega]
                        simp only [List.take_succ_cons]
                      rw [ht, parse_eq]
                      have hl2 : ¬ (r3.take (len16 l1 l2)).length < len16 l1 l2 := by
                        rw [List.length_take]; omega
                      simp only [h1, h2, h3, h4, hl2, if_false]
                      rw [List.take_take, Nat.min_self, hb]

end Two

/-! ### ProxyProtocol::Parse -/

/-- a parsed header never claims more octets than the buffer holds, and the same header is returned for exactly the
consumed octets -/
theorem parse_ok_take {ipOf : IpOf} {buf : Bytes} {h : Header} {n : Nat} (hp : parse ipOf buf = .ok h n) :
    n ≤ buf.length ∧ parse ipOf (buf.take n) = .ok h n := by
  rw [parse_eq] at hp
  by_cases h2 : magic2.isPrefixOf buf = true
  · simp only [h2, if_true] at hp
    obtain ⟨t, rfl⟩ := List.isPrefixOf_iff_prefix.mp h2
    rw [List.drop_left] at hp
    cases hq : Two.parse t with
    | error e => rw [hq] at hp; cases e <;> simp [toRes] at hp
    | ok p =>
      obtain ⟨h', m⟩ := p
      rw [hq] at hp
      simp only [toRes, Res.ok.injEq] at hp
      obtain ⟨rfl, rfl⟩ := hp
      obtain ⟨vc, fp, l1, l2, r3, rfl, hm, hle, -, -, -, -, -, htk⟩ := Two.parse_ok hq
      constructor
      · simp only [List.length_append, List.length_cons]; omega
      · rw [List.take_append, List.take_of_length_le (by omega), Nat.add_sub_cancel_left, parse_eq]
        have : magic2.isPrefixOf (magic2 ++ List.take m (vc :: fp :: l1 :: l2 :: r3)) = true :=
          List.isPrefixOf_iff_prefix.mpr ⟨_, rfl⟩
        simp only [this, if_true, List.drop_left, htk, toRes]
  · have h2' : magic2.isPrefixOf buf = false := Bool.eq_false_iff.mpr h2
    rw [h2'] at hp
    simp only [Bool.false_eq_true, if_false] at hp
    by_cases h1 : magic1.isPrefixOf buf = true
    · simp only [h1, if_true] at hp
      obtain ⟨t, rfl⟩ := List.isPrefixOf_iff_prefix.mp h1
      rw [List.drop_left] at hp
      cases hq : One.parse ipOf t with
      | error e => rw [hq] at hp; cases e <;> simp [toRes] at hp
      | ok p =>
        obtain ⟨h', m⟩ := p
        rw [hq] at hp
        simp only [toRes, Res.ok.injEq] at hp
        obtain ⟨rfl, rfl⟩ := hp
        obtain ⟨inter, rest, rfl, hm, -, -, -, -, htk⟩ := One.parse_ok hq
        constructor
        · simp only [List.length_append, List.length_cons]; omega
        · rw [List.take_append, List.take_of_length_le (by omega), Nat.add_sub_cancel_left, parse_eq]
          have hp1 : magic1.isPrefixOf (magic1 ++ List.take m (inter ++ 13 :: 10 :: rest)) = true :=
            List.isPrefixOf_iff_prefix.mpr ⟨_, rfl⟩
          have hp2 := magic1_excludes_magic2 _ hp1
          simp only [hp2, hp1, if_true, List.drop_left, htk, toRes]
          simp
    · have h1' : magic1.isPrefixOf buf = false := Bool.eq_false_iff.mpr h1
      have h2' : magic2.isPrefixOf buf = false := Bool.eq_false_iff.mpr h2
      rw [h1'] at hp
      by_cases hl : buf.length ≥ magic2.length <;> simp [hl] at hp

end SquidModel.Proxyp
