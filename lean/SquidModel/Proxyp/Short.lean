/-
PROXY/2.0: a header block shorter than the address block of its family is rejected (`Must(expectMore_)` fails in
`BinaryTokenizer::want` because the block tokenizer does not expect more data). Helper lemmas for Properties/C38.lean.
-/
import SquidModel.Proxyp.V2
namespace SquidModel.Proxyp
open SquidModel.Gen.Proxyp

namespace Two

theorem area_short {t : BTok} {n : Nat} (h : t.rest.length < n) (he : t.expectMore = false) :
    t.area n = .error .truncated := by
  simp [BTok.area, BTok.want, h, he]

theorem area_long {t : BTok} {n : Nat} (h : n ≤ t.rest.length) :
    t.area n = .ok (t.rest.take n, ⟨t.rest.drop n, t.parsed + n, t.expectMore⟩) := by
  have : ¬ t.rest.length < n := by omega
  simp [BTok.area, BTok.want, this]

theorem uint16_short {t : BTok} (h : t.rest.length < 2) (he : t.expectMore = false) :
    t.uint16 = .error .truncated := by
  simp [BTok.uint16, BTok.want, h, he]

theorem uint16_long {t : BTok} (h : 2 ≤ t.rest.length) :
    ∃ v, t.uint16 = .ok (v, ⟨t.rest.drop 2, t.parsed + 2, t.expectMore⟩) := by
  obtain ⟨r, p, e⟩ := t
  cases r with
  | nil => simp at h
  | cons a r =>
    cases r with
    | nil => simp at h
    | cons b r =>
      have h2 : ¬ (r.length + 1 + 1 < 2) := by omega
      exact ⟨a.toNat <<< 8 ||| b.toNat, by simp [BTok.uint16, BTok.want, h2]⟩

theorem skip_short {t : BTok} {n : Nat} (h : t.rest.length < n) (he : t.expectMore = false) :
    t.skip n = .error .truncated := by
  simp [BTok.skip, BTok.want, h, he]

/-- INET block shorter than 12 octets -/
theorem parseAddresses_inet_short (raw : Bytes) (h : Header) (hl : raw.length < 12) :
    parseAddresses afInet (BTok.mk' raw) h = .error (.reject .truncated) := by
  unfold parseAddresses BTok.inetAny
  simp only [if_true, inAddrLen]
  by_cases h1 : raw.length < 4
  · rw [area_short (by simpa [BTok.mk'] using h1) rfl]; rfl
  · rw [area_long (by simp [BTok.mk']; omega)]
    simp only [BTok.mk']
    by_cases h2 : (raw.drop 4).length < 4
    · rw [area_short (by simpa using h2) rfl]; rfl
    · rw [area_long (by simp at h2 ⊢; omega)]
      simp only
      by_cases h3 : ((raw.drop 4).drop 4).length < 2
      · rw [uint16_short (by simpa using h3) rfl]; rfl
      · obtain ⟨v, hv⟩ := uint16_long (t := ⟨(raw.drop 4).drop 4, 0 + 4 + 4, false⟩) (by simp at h3 ⊢; omega)
        rw [hv]
        simp only
        rw [uint16_short (by simp at h1 h2 h3 ⊢; omega) rfl]; rfl

/-- INET6 block shorter than 36 octets -/
theorem parseAddresses_inet6_short (raw : Bytes) (h : Header) (hl : raw.length < 36) :
    parseAddresses afInet6 (BTok.mk' raw) h = .error (.reject .truncated) := by
  unfold parseAddresses BTok.inetAny
  simp only [show ¬ (afInet6 = afInet) by decide, if_false, if_true, in6AddrLen]
  by_cases h1 : raw.length < 16
  · rw [area_short (by simpa [BTok.mk'] using h1) rfl]; rfl
  · rw [area_long (by simp [BTok.mk']; omega)]
    simp only [BTok.mk']
    by_cases h2 : (raw.drop 16).length < 16
    · rw [area_short (by simpa using h2) rfl]; rfl
    · rw [area_long (by simp at h2 ⊢; omega)]
      simp only
      by_cases h3 : ((raw.drop 16).drop 16).length < 2
      · rw [uint16_short (by simpa using h3) rfl]; rfl
      · obtain ⟨v, hv⟩ := uint16_long (t := ⟨(raw.drop 16).drop 16, 0 + 16 + 16, false⟩) (by simp at h3 ⊢; omega)
        rw [hv]
        simp only
        rw [uint16_short (by simp at h1 h2 h3 ⊢; omega) rfl]; rfl

/-- AF_UNIX block shorter than 216 octets -/
theorem parseAddresses_unix_short (raw : Bytes) (h : Header) (hl : raw.length < unixAddrLen) :
    parseAddresses afUnix (BTok.mk' raw) h = .error (.reject .truncated) := by
  unfold parseAddresses
  simp only [show ¬ (afUnix = afInet) by decide, show ¬ (afUnix = afInet6) by decide, if_false, if_true]
  rw [skip_short (by simpa [BTok.mk'] using hl) rfl]; rfl

/-- the number of address octets of a family -/
def addrBlockLen (fam : Nat) : Nat := if fam = afInet then 12 else if fam = afInet6 then 36 else unixAddrLen

/-- a header block shorter than its family's address block is rejected, for both commands -/
theorem body_short (cmd fam proto : Nat) (hf : fam = afInet ∨ fam = afInet6 ∨ fam = afUnix) (hp : proto ≠ tpUnspecified)
    (raw : Bytes) (hl : raw.length < addrBlockLen fam) :
    body cmd fam proto raw = .error (.reject .truncated) := by
  unfold body
  have hfu : ¬ (proto = tpUnspecified ∨ fam = afUnspecified) := by
    rcases hf with rfl | rfl | rfl <;> simp [hp] <;> decide
  rw [if_neg hfu]
  rcases hf with rfl | rfl | rfl
  · rw [parseAddresses_inet_short raw _ (by simpa [addrBlockLen] using hl)]
  · rw [parseAddresses_inet6_short raw _ (by simpa [addrBlockLen, show ¬ (afInet6 = afInet) by decide] using hl)]
  · rw [parseAddresses_unix_short raw _ (by simpa [addrBlockLen, show ¬ (afUnix = afInet) by decide, show ¬ (afUnix = afInet6) by decide] using hl)]

end Two
end SquidModel.Proxyp
