/-
Model of the PROXY protocol parser: src/proxyp/Parser.cc (`ProxyProtocol::Parse`, `One::Parse`, `One::ParseAddresses`,
`One::ExtractIp`, `One::ExtractPort`, `Two::Parse`, `Two::ParseAddresses`, `Two::ParseTLVs`) and the parts of
src/proxyp/Header.{h,cc} the parser uses (`Header`, `ignoreAddresses`, `hasAddresses`, `hasForwardedAddresses`,
`addressFamily`), function by function, branch by branch. Core-only.

* `Parser::Tokenizer` is `SquidModel.Tok` (Base/Tok.lean, Base/TokInt.lean: `prefix`, `skip`, `int64`).
* `Parser::BinaryTokenizer` is `Proxyp.BTok` (Proxyp/BinTok.lean).
* `Ip::Address` is observed as the 16 octets of its `sin6_addr` plus the port; `Ip::Address(in_addr)` = `map4to6`,
  `Ip::Address(in6_addr)` = raw copy, `isIPv4()` = `IN6_IS_ADDR_V4MAPPED`.
* Text-to-address conversion (`Ip::Address::GetHostByName`, i.e. libc `getaddrinfo`) is the parameter `ipOf`: a
  function from the address token to the 16 octets. All theorems hold for every such function. The driver
  instantiates it with `IpText.numeric` (Proxyp/IpText.lean).
* Exceptions: `InsufficientInput` = `Stop.more`; a `TextException` = `Stop.reject e` with one `Err` per `throw` site.
-/
import SquidModel.Base.TokInt
import SquidModel.Proxyp.BinTok
import SquidModel.Gen.Proxyp
namespace SquidModel.Proxyp
open SquidModel.Gen.Proxyp

/-! ### Ip::Address, as far as the parser and the observation are concerned -/

structure IpAddr where
  /-- `mSocketAddr_.sin6_addr.s6_addr` (16 octets) -/
  bytes : Bytes
  /-- `port()` (host byte order) -/
  port : Nat
  deriving DecidableEq, Repr

/-- `Ip::Address()`: `setEmpty()` -/
def IpAddr.empty : IpAddr := ⟨List.replicate 16 0, 0⟩

/-- the ::ffff:0:0/96 prefix (`v4_anyaddr` without its last four octets) -/
def v4Mapped : Bytes := [0, 0, 0, 0, 0, 0, 0, 0, 0, 0, 255, 255]

/-- `Ip::Address::map4to6`: the ANYADDR and NOADDR special cases produce the same octets as the general case -/
def map4to6 (b : Bytes) : Bytes := v4Mapped ++ b

/-- `isIPv4()`: `IN6_IS_ADDR_V4MAPPED` -/
def IpAddr.isIPv4 (a : IpAddr) : Bool := a.bytes.take 12 == v4Mapped
/-- `isIPv6()`: `!isIPv4()` -/
def IpAddr.isIPv6 (a : IpAddr) : Bool := !a.isIPv4

/-- text → `sin6_addr` octets (`lookupHostIP` + `operator=(addrinfo)`), `none` = `GetHostByName` returned false -/
abbrev IpOf := Bytes → Option Bytes

/-! ### ProxyProtocol::Header -/

/-- `Two::Tlv` -/
structure Tlv where
  type : Nat
  value : Bytes
  deriving DecidableEq, Repr

structure Header where
  /-- `version_`: 1 = "1.0", 2 = "2.0" -/
  version : Nat
  /-- `command_` -/
  command : Nat
  /-- `ignoreAddresses_` -/
  ignoreAddresses : Bool := false
  /-- `sourceAddress` -/
  src : IpAddr := IpAddr.empty
  /-- `destinationAddress` -/
  dst : IpAddr := IpAddr.empty
  tlvs : List Tlv := []
  deriving DecidableEq, Repr

namespace Header
/-- `hasAddresses()` -/
def hasAddresses (h : Header) : Bool := !h.ignoreAddresses
/-- `localConnection()` -/
def localConnection (h : Header) : Bool := h.command == cmdLocal
/-- `hasForwardedAddresses()` -/
def hasForwardedAddresses (h : Header) : Bool := !h.localConnection && h.hasAddresses
/-- `addressFamily()`: "6", "4" or "mix" -/
def addressFamily (h : Header) : Bytes :=
  if h.src.isIPv6 && h.dst.isIPv6 then familyV6
  else if h.src.isIPv4 && h.dst.isIPv4 then familyV4
  else familyMix
end Header

/-! ### outcomes -/

/-- one constructor per `throw TexcHere(...)` site (and `Must`) -/
inductive Err where
  | badMagic                 -- "PROXY protocol error: invalid magic"
  | v1MalformedHeader        -- "PROXY/1.0 error: malformed header"
  | v1MissingSp              -- "missing SP after the magic sequence"
  | v1BadProto               -- "invalid INET protocol or family"
  | v1BadFamily              -- "missing or invalid IP address family"
  | v1FamilySp               -- "missing SP after the IP address family"
  | v1MalformedIp            -- "malformed IP address"
  | v1GarbageAfterIp         -- "garbage after IP address"
  | v1InvalidIp (tok : Bytes) -- "invalid IP address": the resolver refused this token
  | v1FamilyMismatch         -- "declared and/or actual IP address families mismatch"
  | v1MalformedPort          -- "malformed port"
  | v1GarbageAfterPort       -- "garbage after port"
  | v1InvalidPort            -- "invalid port"
  | v1TrailingGarbage        -- only when `Gen.v1ChecksLineEnd`
  | v2Version (v : Nat)      -- "PROXY/2.0 error: invalid version N"
  | v2Command (c : Nat)      -- "invalid command N"
  | v2Family (f : Nat)       -- "invalid address family N"
  | v2Proto (p : Nat)        -- "invalid transport protocol N"
  | truncated                -- `Must(expectMore_)` in `BinaryTokenizer::want` on the complete v2 address/TLV block
  | unreachable              -- `Must(false)` in `Two::ParseAddresses`
  deriving DecidableEq, Repr

/-- how a parsing attempt ends without a header -/
inductive Stop where
  /-- `InsufficientInput` -/
  | more
  | reject (e : Err)
  /-- signed overflow inside `Tokenizer::int64` (proved impossible here: `parse_ne_ub`) -/
  | ub
  deriving DecidableEq, Repr

/-- result of `ProxyProtocol::Parse` -/
inductive Res where
  /-- `Parsed(header, size)` -/
  | ok (h : Header) (size : Nat)
  | more
  | reject (e : Err)
  | ub
  deriving DecidableEq, Repr

def liftB : BErr → Stop
  | .insufficient => .more
  | .truncated => .reject .truncated

/-! ### PROXY protocol version 1 -/
namespace One

/-- `ExtractIp(tok, addr)` → the octets to store in `addr` and the tokenizer -/
def extractIp (ipOf : IpOf) (t : Tok) : Except Stop (Bytes × Tok) :=
  match t.prefixOf ipChars with
  | none => .error (.reject .v1MalformedIp)
  | some (ip, t1) =>
    match t1.skipChar 32 with
    | none => .error (.reject .v1GarbageAfterIp)
    | some t2 =>
      match ipOf ip with
      | none => .error (.reject (.v1InvalidIp ip))
      | some a => .ok (a, t2)

/-- `ExtractPort(tok, addr, trailingSpace)` → the port stored by `addr.port(static_cast<uint16_t>(port))` -/
def extractPort (t : Tok) (trailingSpace : Bool) : Except Stop (Nat × Tok) :=
  match t.int64 10 false with
  | .fail => .error (.reject .v1MalformedPort)
  | .ub => .error .ub
  | .ok port t1 =>
    let cont (t2 : Tok) : Except Stop (Nat × Tok) :=
      if port > portMax then .error (.reject .v1InvalidPort)
      else .ok ((port % 65536).toNat, t2)
    if trailingSpace then
      match t1.skipChar 32 with
      | none => .error (.reject .v1GarbageAfterPort)
      | some t2 => cont t2
    else cont t1

/-- `ParseAddresses(tok, header)` -/
def parseAddresses (ipOf : IpOf) (t : Tok) (h : Header) : Except Stop Header :=
  match t.prefixOf addressFamilies 1 with
  | none => .error (.reject .v1BadFamily)
  | some (family, t1) =>
    match t1.skipChar 32 with
    | none => .error (.reject .v1FamilySp)
    | some t2 =>
      match extractIp ipOf t2 with
      | .error e => .error e
      | .ok (s, t3) =>
        match extractIp ipOf t3 with
        | .error e => .error e
        | .ok (d, t4) =>
          -- `lookupHostIP` keeps the port of the address it overwrites
          let h1 : Header := { h with src := ⟨s, h.src.port⟩, dst := ⟨d, h.dst.port⟩ }
          if h1.addressFamily ≠ family then .error (.reject .v1FamilyMismatch) else
          match extractPort t4 true with
          | .error e => .error e
          | .ok (sp, t5) =>
            match extractPort t5 false with
            | .error e => .error e
            | .ok (dp, t6) =>
              if v1ChecksLineEnd && !t6.atEnd then .error (.reject .v1TrailingGarbage)
              else .ok { h1 with src := ⟨s, sp⟩, dst := ⟨d, dp⟩ }

/-- the first statement of `One::Parse`:
`if (!(tok.prefix(interior, interiorChars, maxInteriorLength) && tok.skip('\r') && tok.skip('\n')))
   { if (tok.atEnd()) throw InsufficientInput(); throw "malformed header"; }` → interior and the tokenizer after CRLF -/
def line (tok : Tok) : Except Stop (Bytes × Tok) :=
  let failed (t : Tok) : Except Stop (Bytes × Tok) :=
    if t.atEnd then .error .more else .error (.reject .v1MalformedHeader)
  match tok.prefixOf interiorChars maxInteriorLength with
  | none => failed tok
  | some (interior, t1) =>
    match t1.skipChar 13 with
    | none => failed t1
    | some t2 =>
      match t2.skipChar 10 with
      | none => failed t2
      | some t3 => .ok (interior, t3)

/-- the rest of `One::Parse`, working on the interior only -/
def interior (ipOf : IpOf) (inter : Bytes) : Except Stop Header :=
  let h : Header := { version := 1, command := cmdProxy }
  let it := Tok.ofBytes inter
  match it.skipChar 32 with
  | none => .error (.reject .v1MissingSp)
  | some it1 =>
    match it1.skip protoTcp with
    | some it2 => parseAddresses ipOf it2 h
    | none =>
      match it1.skip protoUnknown with
      | some _ => .ok { h with ignoreAddresses := true }
      | none => .error (.reject .v1BadProto)

/-- `One::Parse(buf)` → header and `tok.parsedSize()` -/
def parse (ipOf : IpOf) (buf : Bytes) : Except Stop (Header × Nat) :=
  match line (Tok.ofBytes buf) with
  | .error e => .error e
  | .ok (inter, t3) =>
    match interior ipOf inter with
    | .error e => .error e
    | .ok h => .ok (h, t3.parsed)

end One

/-! ### PROXY protocol version 2 -/
namespace Two

/-- `ParseAddresses(family, tok, header)` -/
def parseAddresses (family : Nat) (t : BTok) (h : Header) : Except Stop (Header × BTok) :=
  if family = afInet then
    match t.inetAny inAddrLen with
    | .error e => .error (liftB e)
    | .ok (s, t1) =>
      match t1.inetAny inAddrLen with
      | .error e => .error (liftB e)
      | .ok (d, t2) =>
        match t2.uint16 with
        | .error e => .error (liftB e)
        | .ok (sp, t3) =>
          match t3.uint16 with
          | .error e => .error (liftB e)
          | .ok (dp, t4) => .ok ({ h with src := ⟨map4to6 s, sp⟩, dst := ⟨map4to6 d, dp⟩ }, t4)
  else if family = afInet6 then
    match t.inetAny in6AddrLen with
    | .error e => .error (liftB e)
    | .ok (s, t1) =>
      match t1.inetAny in6AddrLen with
      | .error e => .error (liftB e)
      | .ok (d, t2) =>
        match t2.uint16 with
        | .error e => .error (liftB e)
        | .ok (sp, t3) =>
          match t3.uint16 with
          | .error e => .error (liftB e)
          | .ok (dp, t4) => .ok ({ h with src := ⟨s, sp⟩, dst := ⟨d, dp⟩ }, t4)
  else if family = afUnix then
    match t.skip unixAddrLen with
    | .error e => .error (liftB e)
    | .ok t1 =>
      -- the pinned tree leaves the header untouched; `Gen.unixIgnoresAddresses` follows a tree that marks it address-less
      .ok (if unixIgnoresAddresses then { h with ignoreAddresses := true } else h, t1)
  else .error (.reject .unreachable)

/-- `ParseTLVs(tok, header)`: `while (!tok.atEnd()) { type = uint8; tlvs.emplace_back(type, pstring16) }`.
Every iteration consumes at least one octet, so `fuel = rest.length` iterations suffice (`parseTLVs_fuel`). -/
def parseTLVs : Nat → BTok → List Tlv → Except Stop (List Tlv)
  | 0, _, acc => .ok acc
  | fuel + 1, t, acc =>
    if t.atEnd then .ok acc else
    match t.uint8 with
    | .error e => .error (liftB e)
    | .ok (type, t1) =>
      match t1.pstring16 with
      | .error e => .error (liftB e)
      | .ok (value, t2) => parseTLVs fuel t2 (acc ++ [⟨type, value⟩])

/-- the part of `Two::Parse` after `rawHeader` has been extracted: depends on the header block only -/
def body (command family proto : Nat) (raw : Bytes) : Except Stop Header :=
  let h : Header := { version := 2, command := command }
  if proto = tpUnspecified ∨ family = afUnspecified then
    .ok { h with ignoreAddresses := true }
  else
    match parseAddresses family (BTok.mk' raw) h with
    | .error e => .error e
    | .ok (h1, t) =>
      -- `if (header->hasForwardedAddresses())`; a tree that marks AF_UNIX headers address-less (`Gen.unixIgnoresAddresses`)
      -- still reads the TLVs of PROXY-command ones
      if h1.hasForwardedAddresses || (unixIgnoresAddresses && family == afUnix && command == cmdProxy) then
        match parseTLVs t.rest.length t [] with
        | .error e => .error e
        | .ok tl => .ok { h1 with tlvs := tl }
      else .ok h1

/-- `Two::Parse(buf)` → header and `tokHeader.parsed()` -/
def parse (buf : Bytes) : Except Stop (Header × Nat) :=
  match (BTok.mk' buf true).uint8 with
  | .error e => .error (liftB e)
  | .ok (versionAndCommand, t1) =>
    let version := (versionAndCommand &&& 0xF0) >>> 4
    if version ≠ 2 then .error (.reject (.v2Version version)) else
    let command := versionAndCommand &&& 0x0F
    if command > cmdProxy then .error (.reject (.v2Command command)) else
    match t1.uint8 with
    | .error e => .error (liftB e)
    | .ok (familyAndProto, t2) =>
      let family := (familyAndProto &&& 0xF0) >>> 4
      if family > afUnix then .error (.reject (.v2Family family)) else
      let proto := familyAndProto &&& 0x0F
      if proto > tpDgram then .error (.reject (.v2Proto proto)) else
      match t2.pstring16 with
      | .error e => .error (liftB e)
      | .ok (rawHeader, t3) =>
        match body command family proto rawHeader with
        | .error e => .error e
        | .ok h => .ok (h, t3.parsed)

end Two

/-! ### ProxyProtocol::Parse -/

def toRes (magicSize : Nat) : Except Stop (Header × Nat) → Res
  | .ok (h, n) => .ok h (magicSize + n)      -- `Parsed(parsed.header, magicTok.parsedSize() + parsed.size)`
  | .error .more => .more
  | .error (.reject e) => .reject e
  | .error .ub => .ub

/-- `ProxyProtocol::Parse(buf)` -/
def parse (ipOf : IpOf) (buf : Bytes) : Res :=
  let magicTok := Tok.ofBytes buf
  match magicTok.skip magic2 with
  | some t => toRes t.parsed (Two.parse t.buf)
  | none =>
    match magicTok.skip magic1 with
    | some t => toRes t.parsed (One.parse ipOf t.buf)
    | none =>
      if buf.length ≥ magic2.length then .reject .badMagic    -- "invalid magic"
      else .more                                              -- not enough bytes to parse magic yet

end SquidModel.Proxyp
