/-
Extension stability of the PROXY protocol parser model: a definite answer (header or rejection) of any phase does not
change when bytes are appended to the buffer. Helper lemmas for Properties/C38.lean. Core-only.
-/
import SquidModel.Proxyp.Parser
import SquidModel.Base.TokLemmas
namespace SquidModel.Proxyp
open SquidModel.Gen.Proxyp

/-! ### version 2 -/
namespace Two

/-- the 16-bit length field -/
def len16 (a b : UInt8) : Nat := (a.toNat <<< 8) ||| b.toNat

/-- closed form of `Two::Parse`: four fixed octets, then `len16` octets of header block -/
theorem parse_eq (buf : Bytes) :
    parse buf =
      match buf with
      | [] => .error .more
      | vc :: r1 =>
        if (vc.toNat &&& 0xF0) >>> 4 ≠ 2 then .error (.reject (.v2Version ((vc.toNat &&& 0xF0) >>> 4))) else
        if vc.toNat &&& 0x0F > cmdProxy then .error (.reject (.v2Command (vc.toNat &&& 0x0F))) else
        match r1 with
        | [] => .error .more
        | fp :: r2 =>
          if (fp.toNat &&& 0xF0) >>> 4 > afUnix then .error (.reject (.v2Family ((fp.toNat &&& 0xF0) >>> 4))) else
          if fp.toNat &&& 0x0F > tpDgram then .error (.reject (.v2Proto (fp.toNat &&& 0x0F))) else
          match r2 with
          | l1 :: l2 :: r3 =>
            if r3.length < len16 l1 l2 then .error .more else
            match body (vc.toNat &&& 0x0F) ((fp.toNat &&& 0xF0) >>> 4) (fp.toNat &&& 0x0F) (r3.take (len16 l1 l2)) with
            | .error e => .error e
            | .ok h => .ok (h, 4 + len16 l1 l2)
          | _ => .error .more := by
  unfold parse
  cases buf with
  | nil => simp [BTok.mk', BTok.uint8, BTok.want, liftB]
  | cons vc r1 =>
    simp only [BTok.mk', BTok.uint8, BTok.want, List.length_cons]
    simp only [show ¬ (r1.length + 1 < 1) by omega, if_false]
    split
    · rfl
    · split
      · rfl
      · cases r1 with
        | nil => simp [liftB]
        | cons fp r2 =>
          simp only [List.length_cons, show ¬ (r2.length + 1 < 1) by omega, if_false]
          split
          · rfl
          · split
            · rfl
            · cases r2 with
              | nil => simp [BTok.pstring16, BTok.uint16, BTok.want, liftB]
              | cons l1 r2' =>
                cases r2' with
                | nil => simp [BTok.pstring16, BTok.uint16, BTok.want, liftB]
                | cons l2 r3 =>
                  simp only [BTok.pstring16, BTok.uint16, BTok.want, List.length_cons,
                    show ¬ (r3.length + 1 + 1 < 2) by omega, if_false, len16]
                  by_cases h0 : (l1.toNat <<< 8 ||| l2.toNat) = 0
                  · simp only [h0, ne_eq, not_true_eq_false, if_false, Nat.not_lt_zero, List.take_zero, Nat.add_zero]
                    cases body (vc.toNat &&& 15) ((fp.toNat &&& 240) >>> 4) (fp.toNat &&& 15) [] <;> rfl
                  · simp only [ne_eq, h0, not_false_eq_true, if_true, BTok.area, BTok.want]
                    by_cases hl : r3.length < (l1.toNat <<< 8 ||| l2.toNat)
                    · simp [hl, liftB]
                    · simp only [hl, if_false]
                      cases body (vc.toNat &&& 15) ((fp.toNat &&& 240) >>> 4) (fp.toNat &&& 15) (List.take (l1.toNat <<< 8 ||| l2.toNat) r3) with
                      | error e => rfl
                      | ok h => simp <;> omega

/-- a definite answer of `Two::Parse` does not change when bytes are appended -/
theorem parse_ext (buf s : Bytes) (h : parse buf ≠ .error .more) : parse (buf ++ s) = parse buf := by
  rw [parse_eq] at h
  rw [parse_eq, parse_eq]
  cases buf with
  | nil => exact absurd rfl h
  | cons vc r1 =>
    simp only [List.cons_append] at h ⊢
    split
    · rfl
    · rename_i h1
      simp only [h1, if_false] at h
      split
      · rfl
      · rename_i h2
        simp only [h2, if_false] at h
        cases r1 with
        | nil => exact absurd rfl h
        | cons fp r2 =>
          simp only [List.cons_append] at h ⊢
          split
          · rfl
          · rename_i h3
            simp only [h3, if_false] at h
            split
            · rfl
            · rename_i h4
              simp only [h4, if_false] at h
              cases r2 with
              | nil => exact absurd rfl h
              | cons l1 r2' =>
                cases r2' with
                | nil => exact absurd rfl h
                | cons l2 r3 =>
                  simp only [List.cons_append] at h ⊢
                  by_cases hl : r3.length < len16 l1 l2
                  · simp [hl] at h
                  · have hl' : ¬ (r3 ++ s).length < len16 l1 l2 := by simp only [List.length_append]; omega
                    simp only [hl, hl', if_false]
                    rw [List.take_append_of_le_length (by omega)]

end Two
end SquidModel.Proxyp
