/-
Extension stability of the PROXY protocol parser model: a definite answer (header or rejection) of any phase does not
change when bytes are appended to the buffer. Helper lemmas for Properties/C38.lean. Core-only.
-/
import SquidModel.Proxyp.Parser
import SquidModel.Base.TokLemmas
namespace SquidModel.Proxyp
open SquidModel.Gen.Proxyp

/-! ### version 1: the line -/
namespace One

/-- the maximal run of `interiorChars` octets within the first `maxInteriorLength` octets -/
def run (buf : Bytes) : Bytes := (buf.take maxInteriorLength).takeWhile interiorChars.mem

theorem takeLim_interior (buf : Bytes) : Tok.takeLim maxInteriorLength buf = buf.take maxInteriorLength := by
  simp [Tok.takeLim, maxInteriorLength, Tok.npos]

/-- closed form of the first statement of `One::Parse` -/
theorem line_eq (buf : Bytes) :
    line (Tok.ofBytes buf) =
      if run buf = [] then (if buf = [] then .error .more else .error (.reject .v1MalformedHeader))
      else
        match buf.drop (run buf).length with
        | [] => .error .more
        | c :: rest =>
          if c = 13 then
            match rest with
            | [] => .error .more
            | d :: rest2 =>
              if d = 10 then .ok (run buf, ⟨rest2, (run buf).length + 2⟩)
              else .error (.reject .v1MalformedHeader)
          else .error (.reject .v1MalformedHeader) := by
  unfold line
  rw [Tok.prefixOf_eq, takeLim_interior]
  simp only [Tok.ofBytes]
  change (match (if run buf = [] then none else some (run buf, (⟨buf.drop (run buf).length, 0 + (run buf).length⟩ : Tok))) with
    | none => _ | some (interior, t1) => _) = _
  by_cases hr : run buf = []
  · simp only [hr, if_true, Tok.atEnd, List.isEmpty_iff]
  · simp only [hr, if_false]
    rw [Tok.skipChar_eq]
    cases hd : buf.drop (run buf).length with
    | nil => simp [Tok.atEnd]
    | cons c rest =>
      simp only
      by_cases hc : c = 13
      · simp only [hc, if_true]
        rw [Tok.skipChar_eq]
        cases rest with
        | nil => simp [Tok.atEnd]
        | cons d rest2 =>
          simp only
          by_cases hd2 : d = 10
          · simp [hd2]
          · simp [hd2, Tok.atEnd]
      · simp [hc, Tok.atEnd]

theorem takeWhile_take_append {α} (p : α → Bool) (L : Nat) (l s : List α)
    (h : ((l.take L).takeWhile p).length < l.length) :
    ((l ++ s).take L).takeWhile p = (l.take L).takeWhile p := by
  induction l generalizing L with
  | nil => simp at h
  | cons b r ih =>
    cases L with
    | zero => simp
    | succ n =>
      simp only [List.cons_append, List.take_succ_cons, List.takeWhile_cons] at h ⊢
      by_cases hb : p b = true
      · simp only [hb, if_true, List.length_cons] at h ⊢
        rw [ih n (by omega)]
      · simp [hb]

theorem run_ext (buf s : Bytes) (h : (run buf).length < buf.length) : run (buf ++ s) = run buf :=
  takeWhile_take_append _ _ _ _ h

theorem drop_nonempty_lt {α} {l : List α} {k : Nat} {c : α} {rest : List α} (h : l.drop k = c :: rest) : k < l.length := by
  by_cases hk : k < l.length
  · exact hk
  · rw [List.drop_eq_nil_of_le (by omega)] at h; cases h

/-- a definite answer of the line phase does not change when bytes are appended (the unparsed rest grows) -/
theorem line_ext (buf s : Bytes) :
    (∀ e, line (Tok.ofBytes buf) = .error (.reject e) → line (Tok.ofBytes (buf ++ s)) = .error (.reject e)) ∧
    (∀ inter t3, line (Tok.ofBytes buf) = .ok (inter, t3) →
      line (Tok.ofBytes (buf ++ s)) = .ok (inter, ⟨t3.buf ++ s, t3.parsed⟩)) := by
  rw [line_eq, line_eq]
  by_cases hr : run buf = []
  · by_cases hb : buf = []
    · subst hb; simp [hr]
    · have hlt : (run buf).length < buf.length := by
        rw [hr]; cases buf with
        | nil => exact absurd rfl hb
        | cons _ _ => simp
      have hbs : buf ++ s ≠ [] := by
        intro e; exact hb (List.append_eq_nil_iff.mp e).1
      simp [hr, hb, run_ext buf s hlt, hbs]
  · simp only [hr, if_false]
    cases hd : buf.drop (run buf).length with
    | nil => simp
    | cons c rest =>
      have hlt := drop_nonempty_lt hd
      have hd' : (buf ++ s).drop (run buf).length = c :: (rest ++ s) := by
        rw [List.drop_append_of_le_length (by omega), hd]; rfl
      rw [run_ext buf s hlt]
      simp only [hr, if_false, hd']
      by_cases hc : c = 13
      · simp only [hc, if_true]
        cases rest with
        | nil => simp
        | cons d rest2 =>
          simp only [List.cons_append]
          by_cases hd2 : d = 10
          · simp [hd2]
          · simp [hd2]
      · simp [hc]

theorem line_ne_ub (buf : Bytes) : line (Tok.ofBytes buf) ≠ .error .ub := by
  rw [line_eq]
  repeat' split
  all_goals simp

/-- a definite answer of `One::Parse` does not change when bytes are appended -/
theorem parse_ext (ipOf : IpOf) (buf s : Bytes) (h : parse ipOf buf ≠ .error .more) :
    parse ipOf (buf ++ s) = parse ipOf buf := by
  unfold parse at h ⊢
  have hx := line_ext buf s
  cases hl : line (Tok.ofBytes buf) with
  | error e =>
    cases e with
    | more => rw [hl] at h; exact absurd rfl h
    | reject e => rw [hx.1 e hl]
    | ub => exact absurd hl (line_ne_ub buf)
  | ok p =>
    obtain ⟨inter, t3⟩ := p
    rw [hx.2 inter t3 hl]

end One

/-! ### version 2 -/
namespace Two

/-- the 16-bit length field -/
def len16 (a b : UInt8) : Nat := (a.toNat <<< 8) ||| b.toNat

/-- closed form of `Two::Parse`: four fixed octets, then `len16` octets of header block -/
theorem parse_eq (buf : Bytes) :
    parse buf =
      match buf with
      | [] => .error .more
      | vc :: r1 =>
        if (vc.toNat &&& 0xF0) >>> 4 ≠ 2 then .error (.reject (.v2Version ((vc.toNat &&& 0xF0) >>> 4))) else
        if vc.toNat &&& 0x0F > cmdProxy then .error (.reject (.v2Command (vc.toNat &&& 0x0F))) else
        match r1 with
        | [] => .error .more
        | fp :: r2 =>
          if (fp.toNat &&& 0xF0) >>> 4 > afUnix then .error (.reject (.v2Family ((fp.toNat &&& 0xF0) >>> 4))) else
          if fp.toNat &&& 0x0F > tpDgram then .error (.reject (.v2Proto (fp.toNat &&& 0x0F))) else
          match r2 with
          | l1 :: l2 :: r3 =>
            if r3.length < len16 l1 l2 then .error .more else
            match body (vc.toNat &&& 0x0F) ((fp.toNat &&& 0xF0) >>> 4) (fp.toNat &&& 0x0F) (r3.take (len16 l1 l2)) with
            | .error e => .error e
            | .ok h => .ok (h, 4 + len16 l1 l2)
          | _ => .error .more := by
  unfold parse
  cases buf with
  | nil => simp [BTok.mk', BTok.uint8, BTok.want, liftB]
  | cons vc r1 =>
    simp only [BTok.mk', BTok.uint8, BTok.want, List.length_cons]
    simp only [show ¬ (r1.length + 1 < 1) by omega, if_false]
    split
    · rfl
    · split
      · rfl
      · cases r1 with
        | nil => simp [liftB]
        | cons fp r2 =>
          simp only [List.length_cons, show ¬ (r2.length + 1 < 1) by omega, if_false]
          split
          · rfl
          · split
            · rfl
            · cases r2 with
              | nil => simp [BTok.pstring16, BTok.uint16, BTok.want, liftB]
              | cons l1 r2' =>
                cases r2' with
                | nil => simp [BTok.pstring16, BTok.uint16, BTok.want, liftB]
                | cons l2 r3 =>
                  simp only [BTok.pstring16, BTok.uint16, BTok.want, List.length_cons,
                    show ¬ (r3.length + 1 + 1 < 2) by omega, if_false, len16]
                  by_cases h0 : (l1.toNat <<< 8 ||| l2.toNat) = 0
                  · simp only [h0, ne_eq, not_true_eq_false, if_false, Nat.not_lt_zero, List.take_zero, Nat.add_zero]
                    cases body (vc.toNat &&& 15) ((fp.toNat &&& 240) >>> 4) (fp.toNat &&& 15) [] <;> rfl
                  · simp only [ne_eq, h0, not_false_eq_true, if_true, BTok.area, BTok.want]
                    by_cases hl : r3.length < (l1.toNat <<< 8 ||| l2.toNat)
                    · simp [hl, liftB]
                    · simp only [hl, if_false]
                      cases body (vc.toNat &&& 15) ((fp.toNat &&& 240) >>> 4) (fp.toNat &&& 15) (List.take (l1.toNat <<< 8 ||| l2.toNat) r3) with
                      | error e => rfl
                      | ok h => simp <;> omega

/-- a definite answer of `Two::Parse` does not change when bytes are appended -/
theorem parse_ext (buf s : Bytes) (h : parse buf ≠ .error .more) : parse (buf ++ s) = parse buf := by
  rw [parse_eq] at h
  rw [parse_eq, parse_eq]
  cases buf with
  | nil => exact absurd rfl h
  | cons vc r1 =>
    simp only [List.cons_append] at h ⊢
    split
    · rfl
    · rename_i h1
      simp only [h1, if_false] at h
      split
      · rfl
      · rename_i h2
        simp only [h2, if_false] at h
        cases r1 with
        | nil => exact absurd rfl h
        | cons fp r2 =>
          simp only [List.cons_append] at h ⊢
          split
          · rfl
          · rename_i h3
            simp only [h3, if_false] at h
            split
            · rfl
            · rename_i h4
              simp only [h4, if_false] at h
              cases r2 with
              | nil => exact absurd rfl h
              | cons l1 r2' =>
                cases r2' with
                | nil => exact absurd rfl h
                | cons l2 r3 =>
                  simp only [List.cons_append] at h ⊢
                  by_cases hl : r3.length < len16 l1 l2
                  · simp [hl] at h
                  · have hl' : ¬ (r3 ++ s).length < len16 l1 l2 := by simp only [List.length_append]; omega
                    simp only [hl, hl', if_false]
                    rw [List.take_append_of_le_length (by omega)]

end Two

/-! ### magic dispatch -/

theorem skip_magic (m buf : Bytes) (hm : m ≠ []) :
    (Tok.ofBytes buf).skip m = if m.isPrefixOf buf then some ⟨buf.drop m.length, m.length⟩ else none := by
  unfold Tok.skip Tok.ofBytes Tok.consumeN
  by_cases hp : m.isPrefixOf buf = true
  · simp only [hp, if_true]
    obtain ⟨t, rfl⟩ := List.isPrefixOf_iff_prefix.mp hp
    have : m.length ≠ 0 := fun e => hm (List.eq_nil_of_length_eq_zero e)
    simp [this]
  · simp [hp]

/-- closed form of `ProxyProtocol::Parse` -/
theorem parse_eq (ipOf : IpOf) (buf : Bytes) :
    parse ipOf buf =
      if magic2.isPrefixOf buf then toRes magic2.length (Two.parse (buf.drop magic2.length))
      else if magic1.isPrefixOf buf then toRes magic1.length (One.parse ipOf (buf.drop magic1.length))
      else if buf.length ≥ magic2.length then .reject .badMagic else .more := by
  unfold parse
  simp only [skip_magic magic2 buf (by decide), skip_magic magic1 buf (by decide)]
  by_cases h2 : magic2.isPrefixOf buf = true
  · simp [h2]
  · by_cases h1 : magic1.isPrefixOf buf = true
    · simp [h2, h1]
    · simp [h2, h1]

theorem isPrefixOf_append_of {m buf : Bytes} (s : Bytes) (h : m.isPrefixOf buf = true) : m.isPrefixOf (buf ++ s) = true := by
  obtain ⟨t, rfl⟩ := List.isPrefixOf_iff_prefix.mp h
  exact List.isPrefixOf_iff_prefix.mpr ⟨t ++ s, by simp⟩

theorem isPrefixOf_append_long {m buf : Bytes} (s : Bytes) (hlen : m.length ≤ buf.length) :
    m.isPrefixOf (buf ++ s) = m.isPrefixOf buf := by
  by_cases h : m.isPrefixOf buf = true
  · rw [h, isPrefixOf_append_of s h]
  · have : m.isPrefixOf (buf ++ s) ≠ true := by
      intro h'
      apply h
      obtain ⟨t, ht⟩ := List.isPrefixOf_iff_prefix.mp h'
      apply List.isPrefixOf_iff_prefix.mpr
      have := List.prefix_of_prefix_length_le (⟨t, ht⟩ : m <+: buf ++ s) (List.prefix_append buf s) hlen
      exact this
    simp only [Bool.not_eq_true] at h this
    rw [h, this]

theorem toRes_ne_more {k : Nat} {r : Except Stop (Header × Nat)} (h : toRes k r ≠ .more) : r ≠ .error .more := by
  intro e; subst e; exact h rfl

/-- a buffer that starts with the v1 magic does not start with the v2 magic, whatever follows -/
theorem magic1_excludes_magic2 (buf : Bytes) (h : magic1.isPrefixOf buf = true) : magic2.isPrefixOf buf = false := by
  obtain ⟨t, rfl⟩ := List.isPrefixOf_iff_prefix.mp h
  simp [magic1, magic2, List.isPrefixOf]

/-- **extension stability**: a definite answer of `ProxyProtocol::Parse` does not change when more bytes arrive -/
theorem parse_stable (ipOf : IpOf) (buf s : Bytes) (h : parse ipOf buf ≠ .more) :
    parse ipOf (buf ++ s) = parse ipOf buf := by
  rw [parse_eq] at h
  rw [parse_eq, parse_eq]
  by_cases h2 : magic2.isPrefixOf buf = true
  · simp only [h2, if_true] at h ⊢
    rw [isPrefixOf_append_of s h2]
    simp only [if_true]
    have hlen : magic2.length ≤ buf.length := (List.isPrefixOf_iff_prefix.mp h2).length_le
    rw [List.drop_append_of_le_length hlen, Two.parse_ext _ _ (toRes_ne_more h)]
  · simp only [h2] at h ⊢
    by_cases h1 : magic1.isPrefixOf buf = true
    · simp only [h1, if_true] at h ⊢
      have h2' := magic1_excludes_magic2 (buf ++ s) (isPrefixOf_append_of s h1)
      rw [h2', isPrefixOf_append_of s h1]
      simp only [if_true]
      have hlen : magic1.length ≤ buf.length := (List.isPrefixOf_iff_prefix.mp h1).length_le
      rw [List.drop_append_of_le_length hlen, One.parse_ext _ _ _ (toRes_ne_more h)]
      simp
    · simp only [h1] at h ⊢
      by_cases hl : buf.length ≥ magic2.length
      · have hl1 : magic1.length ≤ buf.length := by
          have : magic1.length ≤ magic2.length := by decide
          omega
        rw [isPrefixOf_append_long s hl, isPrefixOf_append_long s hl1]
        have : magic2.length ≤ buf.length + s.length := by omega
        simp [h2, h1, hl, this]
      · simp [hl] at h

end SquidModel.Proxyp
