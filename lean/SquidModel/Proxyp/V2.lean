/-
PROXY/2.0 round trip: the reference encoder (`encV2`: signature, version/command, family/transport, 16-bit length,
address block, TLV vector) and the proof that `ProxyProtocol::Parse` reads every encoded header back exactly and
consumes exactly the header. Helper lemmas for Properties/C38.lean. Core-only.
-/
import SquidModel.Proxyp.Size
namespace SquidModel.Proxyp
open SquidModel.Gen.Proxyp

namespace Two

/-! ### reference encoder -/

/-- 16-bit big-endian -/
def u16 (n : Nat) : Bytes := [UInt8.ofNat (n / 256), UInt8.ofNat (n % 256)]

def encTlv (t : Tlv) : Bytes := UInt8.ofNat t.type :: (u16 t.value.length ++ t.value)

def encTlvs : List Tlv → Bytes
  | [] => []
  | t :: r => encTlv t ++ encTlvs r

/-- a TLV the wire format can carry -/
def Tlv.wf (t : Tlv) : Prop := t.type < 256 ∧ t.value.length < 65536

/-- address block of the INET and INET6 families -/
def block (s d : Bytes) (sp dp : Nat) : Bytes := s ++ (d ++ (u16 sp ++ u16 dp))

/-- a complete v2 header: the 12-octet signature, version 2 + command, family + transport, length, payload -/
def encV2 (cmd fam proto : Nat) (payload : Bytes) : Bytes :=
  magic2 ++ UInt8.ofNat (0x20 + cmd) :: UInt8.ofNat (fam * 16 + proto) :: (u16 payload.length ++ payload)

/-! ### decoding the fixed octets -/

theorem len16_u16 (n : Nat) (h : n < 65536) : len16 (UInt8.ofNat (n / 256)) (UInt8.ofNat (n % 256)) = n := by
  unfold len16
  have h1 : (UInt8.ofNat (n / 256)).toNat = n / 256 := by
    simp only [UInt8.toNat_ofNat']; omega
  have h2 : (UInt8.ofNat (n % 256)).toNat = n % 256 := by
    simp only [UInt8.toNat_ofNat']; omega
  rw [h1, h2, ← Nat.shiftLeft_add_eq_or_of_lt (by omega), Nat.shiftLeft_eq]
  omega

theorem vc_decode (cmd : Nat) (h : cmd ≤ 1) :
    ((UInt8.ofNat (0x20 + cmd)).toNat &&& 0xF0) >>> 4 = 2 ∧ (UInt8.ofNat (0x20 + cmd)).toNat &&& 0x0F = cmd := by
  have : cmd = 0 ∨ cmd = 1 := by omega
  rcases this with rfl | rfl <;> decide

theorem fp_decode (fam proto : Nat) (hf : fam ≤ 3) (hp : proto ≤ 2) :
    ((UInt8.ofNat (fam * 16 + proto)).toNat &&& 0xF0) >>> 4 = fam ∧ (UInt8.ofNat (fam * 16 + proto)).toNat &&& 0x0F = proto := by
  have : fam = 0 ∨ fam = 1 ∨ fam = 2 ∨ fam = 3 := by omega
  have : proto = 0 ∨ proto = 1 ∨ proto = 2 := by omega
  rcases ‹fam = 0 ∨ _› with rfl | rfl | rfl | rfl <;> rcases ‹proto = 0 ∨ _› with rfl | rfl | rfl <;> decide

/-! ### BinaryTokenizer on encoded fields -/

theorem area_append (a r : Bytes) (p : Nat) (e : Bool) :
    BTok.area ⟨a ++ r, p, e⟩ a.length = .ok (a, ⟨r, p + a.length, e⟩) := by
  have : ¬ (a.length + r.length < a.length) := by omega
  simp [BTok.area, BTok.want, this]

theorem skip_append (a r : Bytes) (p : Nat) (e : Bool) :
    BTok.skip ⟨a ++ r, p, e⟩ a.length = .ok ⟨r, p + a.length, e⟩ := by
  have : ¬ (a.length + r.length < a.length) := by omega
  simp [BTok.skip, BTok.want, this]

theorem uint8_cons (b : UInt8) (r : Bytes) (p : Nat) (e : Bool) :
    BTok.uint8 ⟨b :: r, p, e⟩ = .ok (b.toNat, ⟨r, p + 1, e⟩) := by
  simp [BTok.uint8, BTok.want]

theorem uint16_u16 (n : Nat) (h : n < 65536) (r : Bytes) (p : Nat) (e : Bool) :
    BTok.uint16 ⟨u16 n ++ r, p, e⟩ = .ok (n, ⟨r, p + 2, e⟩) := by
  have := len16_u16 n h
  unfold len16 at this
  have h2 : ¬ (r.length + 1 + 1 < 2) := by omega
  simp only [BTok.uint16, BTok.want, u16, List.cons_append, List.nil_append, List.length_cons, h2, if_false, this]

theorem pstring16_enc (v r : Bytes) (h : v.length < 65536) (p : Nat) (e : Bool) :
    BTok.pstring16 ⟨u16 v.length ++ (v ++ r), p, e⟩ = .ok (v, ⟨r, p + 2 + v.length, e⟩) := by
  unfold BTok.pstring16
  rw [uint16_u16 _ h]
  simp only
  by_cases h0 : v.length = 0
  · have : v = [] := List.eq_nil_of_length_eq_zero h0
    subst this
    simp
  · simp only [ne_eq, h0, not_false_eq_true, if_true]
    exact area_append v r (p + 2) e

/-! ### TLVs -/

theorem encTlvs_length_cons (t : Tlv) (r : List Tlv) : (encTlvs (t :: r)).length = 3 + t.value.length + (encTlvs r).length := by
  simp [encTlvs, encTlv, u16]; omega

/-- `ParseTLVs` reads an encoded TLV vector back exactly -/
theorem parseTLVs_enc (tlvs : List Tlv) (hwf : ∀ t ∈ tlvs, Tlv.wf t) (fuel : Nat) (hfuel : (encTlvs tlvs).length ≤ fuel)
    (acc : List Tlv) (p : Nat) :
    parseTLVs fuel ⟨encTlvs tlvs, p, false⟩ acc = .ok (acc ++ tlvs) := by
  induction tlvs generalizing fuel acc p with
  | nil =>
    cases fuel with
    | zero => simp [parseTLVs]
    | succ f => simp [parseTLVs, encTlvs, BTok.atEnd]
  | cons t r ih =>
    have hl := encTlvs_length_cons t r
    cases fuel with
    | zero => omega
    | succ f =>
      obtain ⟨ht1, ht2⟩ := hwf t (by simp)
      unfold parseTLVs
      have hne : BTok.atEnd ⟨encTlvs (t :: r), p, false⟩ = false := by
        simp [BTok.atEnd, encTlvs, encTlv]
      simp only [hne, Bool.false_eq_true, if_false]
      simp only [encTlvs, encTlv, List.cons_append]
      rw [uint8_cons]
      simp only
      rw [List.append_assoc, pstring16_enc _ _ ht2]
      simp only
      rw [ih (fun x hx => hwf x (by simp [hx])) f (by omega)]
      have : (UInt8.ofNat t.type).toNat = t.type := by
        simp only [UInt8.toNat_ofNat']; omega
      rw [this]
      simp

/-! ### the address block -/

def hdr (cmd : Nat) : Header := { version := 2, command := cmd }

theorem parseAddresses_inet (s d : Bytes) (sp dp : Nat) (tail : Bytes) (h : Header)
    (hs : s.length = 4) (hd : d.length = 4) (hsp : sp < 65536) (hdp : dp < 65536) :
    parseAddresses afInet (BTok.mk' (block s d sp dp ++ tail)) h =
      .ok ({ h with src := ⟨map4to6 s, sp⟩, dst := ⟨map4to6 d, dp⟩ }, ⟨tail, 12, false⟩) := by
  unfold parseAddresses BTok.inetAny BTok.mk' block
  simp only [if_true, inAddrLen, List.append_assoc]
  rw [← hs, area_append]
  simp only
  rw [show s.length = d.length by omega, area_append]
  simp only
  rw [uint16_u16 _ hsp]
  simp only
  rw [uint16_u16 _ hdp]
  simp only [hd]

theorem parseAddresses_inet6 (s d : Bytes) (sp dp : Nat) (tail : Bytes) (h : Header)
    (hs : s.length = 16) (hd : d.length = 16) (hsp : sp < 65536) (hdp : dp < 65536) :
    parseAddresses afInet6 (BTok.mk' (block s d sp dp ++ tail)) h =
      .ok ({ h with src := ⟨s, sp⟩, dst := ⟨d, dp⟩ }, ⟨tail, 36, false⟩) := by
  unfold parseAddresses BTok.inetAny BTok.mk' block
  simp only [show ¬ (afInet6 = afInet) by decide, if_false, if_true, in6AddrLen, List.append_assoc]
  rw [← hs, area_append]
  simp only
  rw [show s.length = d.length by omega, area_append]
  simp only
  rw [uint16_u16 _ hsp]
  simp only
  rw [uint16_u16 _ hdp]
  simp only [hd]

theorem parseAddresses_unix (u tail : Bytes) (h : Header) (hu : u.length = unixAddrLen) :
    parseAddresses afUnix (BTok.mk' (u ++ tail)) h =
      .ok (if unixIgnoresAddresses then { h with ignoreAddresses := true } else h, ⟨tail, unixAddrLen, false⟩) := by
  unfold parseAddresses BTok.mk'
  simp only [show ¬ (afUnix = afInet) by decide, show ¬ (afUnix = afInet6) by decide, if_false, if_true]
  rw [← hu, skip_append]
  simp

theorem fwd_proxy (h : Header) (hc : h.command = cmdProxy) (hi : h.ignoreAddresses = false) : h.hasForwardedAddresses = true := by
  simp [Header.hasForwardedAddresses, Header.localConnection, Header.hasAddresses, hc, hi, cmdProxy, cmdLocal]

theorem fwd_local (h : Header) (hc : h.command = cmdLocal) : h.hasForwardedAddresses = false := by
  simp [Header.hasForwardedAddresses, Header.localConnection, hc]

/-- the header block of a PROXY command with INET addresses and a TLV vector -/
theorem body_proxy_inet (proto : Nat) (hproto : proto ≠ tpUnspecified) (s d : Bytes) (sp dp : Nat) (tlvs : List Tlv)
    (hs : s.length = 4) (hd : d.length = 4) (hsp : sp < 65536) (hdp : dp < 65536) (hwf : ∀ t ∈ tlvs, Tlv.wf t) :
    body cmdProxy afInet proto (block s d sp dp ++ encTlvs tlvs) =
      .ok { version := 2, command := cmdProxy, src := ⟨map4to6 s, sp⟩, dst := ⟨map4to6 d, dp⟩, tlvs := tlvs } := by
  unfold body
  rw [if_neg (by simp [hproto]; decide)]
  rw [parseAddresses_inet s d sp dp _ _ hs hd hsp hdp]
  simp only
  rw [fwd_proxy _ rfl rfl]
  simp only [Bool.true_or, if_true]
  rw [parseTLVs_enc tlvs hwf _ (Nat.le_refl _)]
  simp

/-- the same with INET6 addresses -/
theorem body_proxy_inet6 (proto : Nat) (hproto : proto ≠ tpUnspecified) (s d : Bytes) (sp dp : Nat) (tlvs : List Tlv)
    (hs : s.length = 16) (hd : d.length = 16) (hsp : sp < 65536) (hdp : dp < 65536) (hwf : ∀ t ∈ tlvs, Tlv.wf t) :
    body cmdProxy afInet6 proto (block s d sp dp ++ encTlvs tlvs) =
      .ok { version := 2, command := cmdProxy, src := ⟨s, sp⟩, dst := ⟨d, dp⟩, tlvs := tlvs } := by
  unfold body
  rw [if_neg (by simp [hproto]; decide)]
  rw [parseAddresses_inet6 s d sp dp _ _ hs hd hsp hdp]
  simp only
  rw [fwd_proxy _ rfl rfl]
  simp only [Bool.true_or, if_true]
  rw [parseTLVs_enc tlvs hwf _ (Nat.le_refl _)]
  simp

/-- AF_UNIX: the 216 address octets are skipped, the TLVs are read, the header still claims (empty) addresses -/
theorem body_proxy_unix (hflag : unixIgnoresAddresses = false) (proto : Nat) (hproto : proto ≠ tpUnspecified) (u : Bytes)
    (tlvs : List Tlv) (hu : u.length = unixAddrLen) (hwf : ∀ t ∈ tlvs, Tlv.wf t) :
    body cmdProxy afUnix proto (u ++ encTlvs tlvs) =
      .ok { version := 2, command := cmdProxy, tlvs := tlvs } := by
  unfold body
  rw [if_neg (by simp [hproto]; decide)]
  rw [parseAddresses_unix u _ _ hu, hflag]
  simp only [Bool.false_eq_true, if_false]
  rw [fwd_proxy _ rfl rfl]
  simp only [Bool.true_or, if_true]
  rw [parseTLVs_enc tlvs hwf _ (Nat.le_refl _)]
  simp

/-- LOCAL with INET addresses: the addresses are stored, everything after them is ignored -/
theorem body_local_inet (proto : Nat) (hproto : proto ≠ tpUnspecified) (s d : Bytes) (sp dp : Nat) (tail : Bytes)
    (hs : s.length = 4) (hd : d.length = 4) (hsp : sp < 65536) (hdp : dp < 65536) :
    body cmdLocal afInet proto (block s d sp dp ++ tail) =
      .ok { version := 2, command := cmdLocal, src := ⟨map4to6 s, sp⟩, dst := ⟨map4to6 d, dp⟩ } := by
  unfold body
  rw [if_neg (by simp [hproto]; decide)]
  rw [parseAddresses_inet s d sp dp _ _ hs hd hsp hdp]
  simp only
  rw [fwd_local _ rfl]
  simp [afInet, afUnix]

/-- unspecified family or transport: the whole block is ignored -/
theorem body_unspec (cmd fam proto : Nat) (h : proto = tpUnspecified ∨ fam = afUnspecified) (payload : Bytes) :
    body cmd fam proto payload = .ok { version := 2, command := cmd, ignoreAddresses := true } := by
  unfold body
  rw [if_pos h]

theorem liftB_ne_ub (e : BErr) : liftB e ≠ .ub := by cases e <;> simp [liftB]

theorem parseAddresses_ne_ub (family : Nat) (t : BTok) (h : Header) : parseAddresses family t h ≠ .error .ub := by
  intro hc
  unfold parseAddresses at hc
  repeat' (split at hc)
  all_goals (simp [liftB_ne_ub] at hc)

theorem parseTLVs_ne_ub (fuel : Nat) (t : BTok) (acc : List Tlv) : parseTLVs fuel t acc ≠ .error .ub := by
  induction fuel generalizing t acc with
  | zero => simp [parseTLVs]
  | succ f ih =>
    intro hc
    unfold parseTLVs at hc
    repeat' (split at hc)
    all_goals first
      | (simp [liftB_ne_ub] at hc; done)
      | exact ih _ _ hc

theorem body_ne_ub (command family proto : Nat) (raw : Bytes) : body command family proto raw ≠ .error .ub := by
  intro hc
  unfold body at hc
  simp only at hc
  repeat' (split at hc)
  all_goals first
    | (simp at hc; done)
    | (cases hc; exact parseAddresses_ne_ub _ _ _ ‹_›)
    | (cases hc; exact parseTLVs_ne_ub _ _ _ ‹_›)

/-- `Two::Parse` has no undefined outcome -/
theorem parse_ne_ub (buf : Bytes) : parse buf ≠ .error .ub := by
  intro hc
  rw [parse_eq] at hc
  repeat' (split at hc)
  all_goals first
    | (simp at hc; done)
    | (cases hc; exact body_ne_ub _ _ _ _ ‹_›)

/-- framing of a v2 header: the answer is that of `Two.body` on exactly the payload, the size is 16 + payload -/
theorem parse_encV2 (ipOf : IpOf) (cmd fam proto : Nat) (payload rest : Bytes)
    (hc : cmd ≤ 1) (hf : fam ≤ 3) (hp : proto ≤ 2) (hl : payload.length < 65536) :
    Proxyp.parse ipOf (encV2 cmd fam proto payload ++ rest) =
      match body cmd fam proto payload with
      | .ok h => .ok h (16 + payload.length)
      | .error .more => .more
      | .error (.reject e) => .reject e
      | .error .ub => .ub := by
  rw [Proxyp.parse_eq]
  have hp2 : magic2.isPrefixOf (encV2 cmd fam proto payload ++ rest) = true := by
    unfold encV2
    exact List.isPrefixOf_iff_prefix.mpr ⟨_, by rw [List.append_assoc]⟩
  simp only [hp2, if_true]
  have hdrop : List.drop magic2.length (encV2 cmd fam proto payload ++ rest) =
      UInt8.ofNat (0x20 + cmd) :: UInt8.ofNat (fam * 16 + proto) :: UInt8.ofNat (payload.length / 256) ::
        UInt8.ofNat (payload.length % 256) :: (payload ++ rest) := by
    unfold encV2 u16
    rw [List.append_assoc, List.drop_left]
    simp
  rw [hdrop, parse_eq]
  obtain ⟨hv1, hv2⟩ := vc_decode cmd hc
  obtain ⟨hf1, hf2⟩ := fp_decode fam proto hf hp
  simp only [hv1, hv2, hf1, hf2, len16_u16 _ hl]
  have c1 : ¬ cmd > cmdProxy := by unfold cmdProxy; omega
  have c2 : ¬ fam > afUnix := by unfold afUnix; omega
  have c3 : ¬ proto > tpDgram := by unfold tpDgram; omega
  have c4 : ¬ (payload ++ rest).length < payload.length := by simp
  simp only [ne_eq, not_true_eq_false, if_false, c1, c2, c3, c4, List.take_left']
  cases body cmd fam proto payload with
  | error e => cases e <;> rfl
  | ok h => simp [toRes, magic2]; omega

end Two
end SquidModel.Proxyp
