/-
PROXY/1.0: what an accepted interior looks like (`parseAddresses_ok`) and that a reference-encoded TCP line is read
back exactly (`tcp_line`). Helper lemmas for Properties/C38.lean. Core-only.
-/
import SquidModel.Proxyp.Port
import SquidModel.Proxyp.Size
import SquidModel.Base.Finite
namespace SquidModel.Proxyp
open SquidModel.Gen.Proxyp

theorem skip_eq (t : Tok) (m : Bytes) (hm : m ≠ []) :
    t.skip m = if m.isPrefixOf t.buf then some ⟨t.buf.drop m.length, t.parsed + m.length⟩ else none := by
  unfold Tok.skip Tok.consumeN
  by_cases hp : m.isPrefixOf t.buf = true
  · simp only [hp, if_true]
    obtain ⟨r, hr⟩ := List.isPrefixOf_iff_prefix.mp hp
    have : m.length ≠ 0 := fun e => hm (List.eq_nil_of_length_eq_zero e)
    rw [← hr]
    simp [this]
  · simp [hp]

namespace One

theorem sp_not_ip : ipChars.mem 32 = false := by decide

/-- `ExtractIp` on `token SP rest` -/
theorem extractIp_intro (ipOf : IpOf) (s rest a : Bytes) (par : Nat) (hne : s ≠ [])
    (hall : ∀ b ∈ s, ipChars.mem b = true) (hip : ipOf s = some a) :
    extractIp ipOf ⟨s ++ 32 :: rest, par⟩ = .ok (a, ⟨rest, par + s.length + 1⟩) := by
  unfold extractIp
  rw [Tok.prefixOf_npos]
  have hrun : (s ++ 32 :: rest).takeWhile ipChars.mem = s :=
    takeWhile_append_stops _ _ _ hall (Or.inr ⟨32, rest, rfl, sp_not_ip⟩)
  have hdrop : (s ++ 32 :: rest).dropWhile ipChars.mem = 32 :: rest := by
    rw [← Tok.drop_length_takeWhile, hrun, List.drop_left]
  simp only [hrun, hne, if_false, hdrop]
  rw [Tok.skipChar_eq]
  simp [hip]

/-- what an accepted address field looks like -/
theorem extractIp_ok {ipOf : IpOf} {t t' : Tok} {a : Bytes} (h : extractIp ipOf t = .ok (a, t')) :
    ∃ s, s ≠ [] ∧ (∀ b ∈ s, ipChars.mem b = true) ∧ ipOf s = some a ∧ t.buf = s ++ 32 :: t'.buf ∧
      t'.parsed = t.parsed + s.length + 1 := by
  unfold extractIp at h
  rw [Tok.prefixOf_npos] at h
  by_cases hr : t.buf.takeWhile ipChars.mem = []
  · simp [hr] at h
  · simp only [hr, if_false] at h
    rw [Tok.skipChar_eq] at h
    simp only at h
    cases hd : t.buf.dropWhile ipChars.mem with
    | nil => rw [hd] at h; cases h
    | cons c r =>
      rw [hd] at h
      simp only at h
      by_cases hc : c = 32
      · subst hc
        simp only [if_true] at h
        cases hi : ipOf (t.buf.takeWhile ipChars.mem) with
        | none => rw [hi] at h; cases h
        | some a' =>
          rw [hi] at h
          simp only [Except.ok.injEq, Prod.mk.injEq] at h
          obtain ⟨rfl, rfl⟩ := h
          refine ⟨t.buf.takeWhile ipChars.mem, hr, fun b hb => Tok.mem_takeWhile hb, hi, ?_, rfl⟩
          simp only
          rw [← hd]
          exact List.takeWhile_append_dropWhile.symm
      · simp [hc] at h

theorem extractIp_ne_ub (ipOf : IpOf) (t : Tok) : extractIp ipOf t ≠ .error .ub := by
  unfold extractIp
  repeat' split
  all_goals simp

/-- `Header::addressFamily()` of a header holding these two addresses -/
def familyOf (s d : Bytes) : Bytes := ({ version := 1, command := cmdProxy, src := ⟨s, 0⟩, dst := ⟨d, 0⟩ } : Header).addressFamily

theorem addressFamily_eq (h : Header) : h.addressFamily = familyOf h.src.bytes h.dst.bytes := rfl

/-- what an accepted TCP interior looks like: declared family = actual family of both addresses, address tokens
over `ipChars` that the resolver accepts, ports = exact values of digit runs, at most 65535 -/
theorem parseAddresses_ok {ipOf : IpOf} {t : Tok} {h0 h : Header} (hp : parseAddresses ipOf t h0 = .ok h) :
    ∃ fam s d sp dp rest sa da,
      t.buf = fam :: 32 :: (s ++ 32 :: (d ++ 32 :: (sp ++ 32 :: (dp ++ rest)))) ∧
      addressFamilies.mem fam = true ∧
      s ≠ [] ∧ (∀ b ∈ s, ipChars.mem b = true) ∧ ipOf s = some sa ∧
      d ≠ [] ∧ (∀ b ∈ d, ipChars.mem b = true) ∧ ipOf d = some da ∧
      familyOf sa da = [fam] ∧
      sp ≠ [] ∧ (∀ c ∈ sp, Tok.validDigit 10 c = true) ∧ Tok.digitsValue 10 sp ≤ 65535 ∧
      dp ≠ [] ∧ (∀ c ∈ dp, Tok.validDigit 10 c = true) ∧ Tok.digitsValue 10 dp ≤ 65535 ∧
      stops (Tok.validDigit 10) rest ∧ (v1ChecksLineEnd = true → rest = []) ∧
      h = { h0 with src := ⟨sa, Tok.digitsValue 10 sp⟩, dst := ⟨da, Tok.digitsValue 10 dp⟩ } := by
  unfold parseAddresses at hp
  cases hf : t.prefixOf addressFamilies 1 with
  | none => rw [hf] at hp; cases hp
  | some p =>
    obtain ⟨family, t1⟩ := p
    rw [hf] at hp
    simp only at hp
    obtain ⟨hspan, hfne, hfall, hfpar, hflen, -⟩ := Tok.prefixOf_some hf
    have hlen1 : family.length ≤ 1 := by
      have := Tok.takeLim_length 1 t.buf
      have hnp : ¬ ((1 : Nat) = Tok.npos) := by decide
      rw [if_neg hnp] at this
      have h2 : (Tok.takeLim 1 t.buf).length ≤ 1 := by
        rw [this]; omega
      omega
    obtain ⟨fam, rfl⟩ : ∃ fam, family = [fam] := by
      cases family with
      | nil => exact absurd rfl hfne
      | cons a r =>
        cases r with
        | nil => exact ⟨a, rfl⟩
        | cons _ _ => simp at hlen1
    rw [Tok.skipChar_eq] at hp
    cases hb1 : t1.buf with
    | nil => rw [hb1] at hp; cases hp
    | cons c r1 =>
      rw [hb1] at hp
      simp only at hp
      by_cases hc : c = 32
      · subst hc
        simp only [if_true] at hp
        cases h3 : extractIp ipOf ⟨r1, t1.parsed + 1⟩ with
        | error e => rw [h3] at hp; cases hp
        | ok p3 =>
          obtain ⟨sa, t3⟩ := p3
          rw [h3] at hp
          simp only at hp
          cases h4 : extractIp ipOf t3 with
          | error e => rw [h4] at hp; cases hp
          | ok p4 =>
            obtain ⟨da, t4⟩ := p4
            rw [h4] at hp
            simp only at hp
            by_cases hfm : ({ h0 with src := ⟨sa, h0.src.port⟩, dst := ⟨da, h0.dst.port⟩ } : Header).addressFamily ≠ [fam]
            · simp [hfm] at hp
            · simp only [hfm, if_false] at hp
              cases h5 : extractPort t4 true with
              | error e => rw [h5] at hp; cases hp
              | ok p5 =>
                obtain ⟨spv, t5⟩ := p5
                rw [h5] at hp
                simp only at hp
                cases h6 : extractPort t5 false with
                | error e => rw [h6] at hp; cases hp
                | ok p6 =>
                  obtain ⟨dpv, t6⟩ := p6
                  rw [h6] at hp
                  simp only at hp
                  by_cases hend : (v1ChecksLineEnd && !t6.atEnd) = true
                  · simp [hend] at hp
                  · simp only [hend, Bool.false_eq_true, if_false, Except.ok.injEq] at hp
                    obtain ⟨s, hsne, hsall, hsip, hsbuf, -⟩ := extractIp_ok h3
                    obtain ⟨d, hdne, hdall, hdip, hdbuf, -⟩ := extractIp_ok h4
                    obtain ⟨sp, hspne, hspall, hspv, hsple, hspbuf, -, -⟩ := extractPort_ok h5
                    obtain ⟨dp, hdpne, hdpall, hdpv, hdple, hdpbuf, -, hstop⟩ := extractPort_ok h6
                    simp only [if_true] at hspbuf
                    simp only [Bool.false_eq_true, if_false] at hdpbuf
                    simp only at hsbuf
                    refine ⟨fam, s, d, sp, dp, t6.buf, sa, da, ?_, hfall fam (by simp), hsne, hsall, hsip, hdne, hdall, hdip,
                      ?_, hspne, hspall, by omega, hdpne, hdpall, by omega, hstop rfl, ?_, ?_⟩
                    · rw [← hspan, hb1, hsbuf, hdbuf, hspbuf, hdpbuf]; rfl
                    · simpa [addressFamily_eq] using hfm
                    · intro hflag
                      simp only [hflag, Bool.true_and, Bool.not_eq_true', Bool.not_eq_false] at hend
                      simpa [Tok.atEnd] using hend
                    · rw [← hp, hspv, hdpv]
      · simp [hc] at hp

theorem parseAddresses_ne_ub (ipOf : IpOf) (t : Tok) (h : Header) : parseAddresses ipOf t h ≠ .error .ub := by
  intro hc
  unfold parseAddresses at hc
  repeat' (first | (split at hc) | (simp only at hc))
  all_goals (try cases hc)
  all_goals
    first
    | exact extractIp_ne_ub _ _ ‹_›
    | exact extractPort_ne_ub _ _ ‹_›

theorem interior_ne_ub (ipOf : IpOf) (inter : Bytes) : interior ipOf inter ≠ .error .ub := by
  intro hc
  unfold interior at hc
  simp only at hc
  repeat' (split at hc)
  all_goals (try cases hc)
  all_goals exact parseAddresses_ne_ub _ _ _ ‹_›

/-- `One::Parse` performs no signed overflow -/
theorem parse_ne_ub (ipOf : IpOf) (buf : Bytes) : parse ipOf buf ≠ .error .ub := by
  intro hc
  unfold parse at hc
  repeat' (split at hc)
  all_goals (try cases hc)
  all_goals
    first
    | exact line_ne_ub _ ‹_›
    | exact interior_ne_ub _ _ ‹_›

/-- a TCP line whose two addresses are not both of the declared family is rejected -/
theorem parseAddresses_mismatch (ipOf : IpOf) (fam : UInt8) (s d rest sa da : Bytes) (par : Nat) (h0 : Header)
    (hfam : addressFamilies.mem fam = true)
    (hsne : s ≠ []) (hsall : ∀ b ∈ s, ipChars.mem b = true) (hsip : ipOf s = some sa)
    (hdne : d ≠ []) (hdall : ∀ b ∈ d, ipChars.mem b = true) (hdip : ipOf d = some da)
    (hfamily : familyOf sa da ≠ [fam]) :
    parseAddresses ipOf ⟨fam :: 32 :: (s ++ 32 :: (d ++ 32 :: rest)), par⟩ h0 = .error (.reject .v1FamilyMismatch) := by
  unfold parseAddresses
  rw [Tok.prefixOf_eq]
  have hnp : ¬ ((1 : Nat) = Tok.npos) := by decide
  have htl : Tok.takeLim 1 (fam :: 32 :: (s ++ 32 :: (d ++ 32 :: rest))) = [fam] := by
    unfold Tok.takeLim; rw [if_neg hnp]; rfl
  simp only [htl, List.takeWhile_cons, hfam, if_true, List.takeWhile_nil, List.length_cons, List.length_nil,
    List.drop_succ_cons, List.drop_zero]
  rw [if_neg (by simp)]
  simp only
  rw [Tok.skipChar_eq]
  simp only [if_true]
  rw [extractIp_intro ipOf s _ sa _ hsne hsall hsip]
  simp only
  rw [extractIp_intro ipOf d _ da _ hdne hdall hdip]
  simp only
  have hfm : ({ h0 with src := ⟨sa, h0.src.port⟩, dst := ⟨da, h0.dst.port⟩ } : Header).addressFamily ≠ [fam] := by
    rw [addressFamily_eq]; simpa using hfamily
  rw [if_pos hfm]

/-- `ParseAddresses` reads back `family SP src SP dst SP sport SP dport` exactly -/
theorem parseAddresses_intro (ipOf : IpOf) (fam : UInt8) (s d sp dp sa da : Bytes) (par : Nat) (h0 : Header)
    (hfam : addressFamilies.mem fam = true)
    (hsne : s ≠ []) (hsall : ∀ b ∈ s, ipChars.mem b = true) (hsip : ipOf s = some sa)
    (hdne : d ≠ []) (hdall : ∀ b ∈ d, ipChars.mem b = true) (hdip : ipOf d = some da)
    (hfamily : familyOf sa da = [fam])
    (hspne : sp ≠ []) (hspall : ∀ c ∈ sp, Tok.validDigit 10 c = true) (hspv : Tok.digitsValue 10 sp ≤ 65535)
    (hdpne : dp ≠ []) (hdpall : ∀ c ∈ dp, Tok.validDigit 10 c = true) (hdpv : Tok.digitsValue 10 dp ≤ 65535) :
    parseAddresses ipOf ⟨fam :: 32 :: (s ++ 32 :: (d ++ 32 :: (sp ++ 32 :: dp))), par⟩ h0 =
      .ok { h0 with src := ⟨sa, Tok.digitsValue 10 sp⟩, dst := ⟨da, Tok.digitsValue 10 dp⟩ } := by
  unfold parseAddresses
  rw [Tok.prefixOf_eq]
  have hnp : ¬ ((1 : Nat) = Tok.npos) := by decide
  have htl : Tok.takeLim 1 (fam :: 32 :: (s ++ 32 :: (d ++ 32 :: (sp ++ 32 :: dp)))) = [fam] := by
    unfold Tok.takeLim; rw [if_neg hnp]; rfl
  simp only [htl, List.takeWhile_cons, hfam, if_true, List.takeWhile_nil, List.length_cons, List.length_nil,
    List.drop_succ_cons, List.drop_zero]
  rw [if_neg (by simp)]
  simp only
  rw [Tok.skipChar_eq]
  simp only [if_true]
  rw [extractIp_intro ipOf s _ sa _ hsne hsall hsip]
  simp only
  rw [extractIp_intro ipOf d _ da _ hdne hdall hdip]
  simp only
  have hfm : ¬ ({ h0 with src := ⟨sa, h0.src.port⟩, dst := ⟨da, h0.dst.port⟩ } : Header).addressFamily ≠ [fam] := by
    rw [addressFamily_eq]; simpa using hfamily
  rw [if_neg hfm]
  have e5 := extractPort_intro sp dp (par + 0 + 1 + 1 + s.length + 1 + d.length + 1) true hspne hspall hspv trivial
  simp only [if_true] at e5
  rw [e5]
  simp only
  have e6 := extractPort_intro dp [] (par + 0 + 1 + 1 + s.length + 1 + d.length + 1 + sp.length + 1) false hdpne hdpall hdpv (Or.inl rfl)
  simp only [Bool.false_eq_true, if_false, List.append_nil] at e6
  rw [e6]
  simp [Tok.atEnd]

end One
end SquidModel.Proxyp
