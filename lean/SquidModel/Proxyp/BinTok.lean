/-
Model of `Parser::BinaryTokenizer` (src/parser/BinaryTokenizer.{h,cc}), the methods the PROXY protocol parser uses,
function by function. Core-only.

Representation: the C++ object keeps the whole input `data_` and the index `parsed_`; the model keeps the unparsed
suffix `rest` (= `data_.substr(parsed_)`, what `leftovers()` returns) and the counter `parsed`. `octet()` =
`data_[parsed_++]` is "take the head of `rest`"; `want(size)` compares `parsed_ + size` with `data_.length()`,
i.e. `size` with `rest.length`. `commit/rollback/syncPoint_` and the debugging context are not used by the
PROXY parser and are not modelled. 64-bit wrap of `parsed_ + size` cannot happen (`size` ≤ 65535 here).
-/
import SquidModel.Base.Bytes
namespace SquidModel.Proxyp

/-- what a failed `want()` throws -/
inductive BErr where
  /-- `throw InsufficientInput()` (when `expectMore_`) -/
  | insufficient
  /-- `Must(expectMore_)` failed: premature end of a complete input (a `TextException`) -/
  | truncated
  deriving DecidableEq, Repr

structure BTok where
  /-- `data_.substr(parsed_)` -/
  rest : Bytes
  /-- `parsed_` -/
  parsed : Nat
  /-- `expectMore_` -/
  expectMore : Bool
  deriving DecidableEq, Repr

namespace BTok

/-- `BinaryTokenizer(data, expectMore)` -/
def mk' (data : Bytes) (expectMore : Bool := false) : BTok := ⟨data, 0, expectMore⟩

/-- `want(size, description)`: `none` = enough octets remain -/
def want (t : BTok) (size : Nat) : Option BErr :=
  if t.rest.length < size then            -- `parsed_ + size > data_.length()`
    some (if t.expectMore then .insufficient else .truncated)   -- `Must(expectMore_); throw InsufficientInput();`
  else none

/-- `atEnd()`: `parsed_ >= data_.length()` -/
def atEnd (t : BTok) : Bool := t.rest.isEmpty

/-- `uint8(description)` -/
def uint8 (t : BTok) : Except BErr (Nat × BTok) :=
  match t.want 1 with
  | some e => .error e
  | none =>
    match t.rest with
    | a :: r => .ok (a.toNat, ⟨r, t.parsed + 1, t.expectMore⟩)
    | [] => .error .truncated      -- unreachable after `want`

/-- `uint16(description)`: `(octet() << 8) | octet()` -/
def uint16 (t : BTok) : Except BErr (Nat × BTok) :=
  match t.want 2 with
  | some e => .error e
  | none =>
    match t.rest with
    | a :: b :: r => .ok ((a.toNat <<< 8) ||| b.toNat, ⟨r, t.parsed + 2, t.expectMore⟩)
    | _ => .error .truncated       -- unreachable after `want`

/-- `area(size, description)`: `data_.substr(parsed_, size); parsed_ += size` -/
def area (t : BTok) (size : Nat) : Except BErr (Bytes × BTok) :=
  match t.want size with
  | some e => .error e
  | none => .ok (t.rest.take size, ⟨t.rest.drop size, t.parsed + size, t.expectMore⟩)

/-- `skip(size, description)` -/
def skip (t : BTok) (size : Nat) : Except BErr BTok :=
  match t.want size with
  | some e => .error e
  | none => .ok ⟨t.rest.drop size, t.parsed + size, t.expectMore⟩

/-- `inetAny<InAddr>()`: `memcpy(&addr, data_.rawContent() + parsed_, sizeof(addr)); parsed_ += size` — the raw
octets; the conversion to `Ip::Address` is done by the caller's model (`Ip::Address(in_addr)` / `(in6_addr)`). -/
def inetAny (t : BTok) (size : Nat) : Except BErr (Bytes × BTok) := t.area size

/-- `pstring16(description)`: `if (const uint16_t length = uint16(".length")) return area(length, ".octets"); return SBuf();` -/
def pstring16 (t : BTok) : Except BErr (Bytes × BTok) :=
  match t.uint16 with
  | .error e => .error e
  | .ok (len, t1) => if len ≠ 0 then t1.area len else .ok ([], t1)

end BTok
end SquidModel.Proxyp
