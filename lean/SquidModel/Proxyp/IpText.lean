/-
Reference instance of the text-to-address parameter `IpOf` of the PROXY/1.0 parser model: what
`Ip::Address::lookupHostIP()` stores for a *numeric* host string, i.e. glibc 2.36 `getaddrinfo()` on a numeric
node name (`__inet_aton_exact`, then `inet_pton(AF_INET6)`), followed by `Ip::Address::operator=(addrinfo)`
(`map4to6` for AF_INET, raw copy for AF_INET6).

This file is OUTSIDE the anchored squid code: it describes libc, only for tokens over `[0-9A-Fa-f.:]` (the only
tokens `One::ExtractIp` can pass on), it is used by the line driver to make the model executable, and it is tied to
the real `getaddrinfo` by the differential run only. The property theorems quantify over every `IpOf`.
Non-numeric tokens map to `none` ("the name does not resolve").  Core-only.
-/
import SquidModel.Proxyp.Parser
namespace SquidModel.Proxyp.IpText

def isDigit (c : UInt8) : Bool := 48 ≤ c && c ≤ 57

/-- value of a hexadecimal digit (`hex_digit_value`) -/
def hexVal (c : UInt8) : Option Nat :=
  if 48 ≤ c ∧ c ≤ 57 then some (c.toNat - 48)
  else if 97 ≤ c ∧ c ≤ 102 then some (c.toNat - 87)
  else if 65 ≤ c ∧ c ≤ 70 then some (c.toNat - 55)
  else none

/-- is `c` a digit of `base` (8 or 10)? -/
def digitIn (base : Nat) (c : UInt8) : Bool := 48 ≤ c && c.toNat < 48 + base

def valueOf (base : Nat) (ds : Bytes) : Nat := ds.foldl (fun a c => a * base + (c.toNat - 48)) 0

/-- the four octets of `res.word | htonl(val)` when `pp` holds the leading parts -/
def compose (pp : List Nat) (val : Nat) : Bytes :=
  let w := (pp.getD 0 0) * 16777216 + (pp.getD 1 0) * 65536 + (pp.getD 2 0) * 256 + val
  [UInt8.ofNat (w / 16777216 % 256), UInt8.ofNat (w / 65536 % 256), UInt8.ofNat (w / 256 % 256), UInt8.ofNat (w % 256)]

def maxLast : Nat → Nat
  | 0 => 0xffffffff
  | 1 => 0xffffff
  | 2 => 0xffff
  | _ => 0xff

/-- `inet_aton_end` + `*endp == 0` (`__inet_aton_exact`): each part is read by `strtoul(cp, &endp, 0)`
(a leading `0` selects octal; `0x` cannot occur in the tokens considered) -/
def atonLoop : Nat → Bytes → List Nat → Option Bytes
  | 0, _, _ => none
  | fuel + 1, cp, pp =>
    match cp with
    | [] => none                                  -- `if (!isdigit(c)) goto ret_0`
    | c :: _ =>
      if !isDigit c then none else
      let base := if c = 48 then 8 else 10
      let ds := cp.takeWhile (digitIn base)
      let rest := cp.drop ds.length
      let val := valueOf base ds
      if val > 0xffffffff then none else          -- ERANGE or `ul > 0xffffffff`
      match rest with
      | 46 :: cp' =>                              -- '.'
        if pp.length > 2 ∨ val > 0xff then none
        else atonLoop fuel cp' (pp ++ [val])
      | [] => if val > maxLast pp.length then none else some (compose pp val)
      | _ :: _ => none                            -- trailing characters

def aton (s : Bytes) : Option Bytes := atonLoop (s.length + 1) s []

/-- `inet_pton4(src, end, dst)`: strict dotted quad (no leading zeros, exactly four decimal octets) -/
def pton4Loop : Bytes → (done : List Nat) → (cur : Nat) → (saw : Bool) → (octets : Nat) → Option Bytes
  | [], done, cur, _, octets =>
    if octets < 4 then none else some ((done ++ [cur]).map UInt8.ofNat)
  | ch :: src, done, cur, saw, octets =>
    if isDigit ch then
      let new := cur * 10 + (ch.toNat - 48)
      if saw && cur == 0 then none
      else if new > 255 then none
      else if !saw then
        (if octets + 1 > 4 then none else pton4Loop src done new true (octets + 1))
      else pton4Loop src done new saw octets
    else if ch = 46 && saw then
      if octets = 4 then none else pton4Loop src (done ++ [cur]) 0 false octets
    else none

def pton4 (s : Bytes) : Option Bytes := pton4Loop s [] 0 false 0

structure P6 where
  /-- octets written to `tmp` so far -/
  tp : Bytes
  /-- `colonp - tmp` -/
  colonp : Option Nat
  /-- `xdigits_seen` -/
  seen : Nat
  val : Nat

/-- the part of `inet_pton6` after its loop -/
def pton6Finish (st : P6) : Option Bytes :=
  let wr : Option Bytes :=
    if st.seen > 0 then
      (if st.tp.length + 2 > 16 then none
       else some (st.tp ++ [UInt8.ofNat (st.val / 256 % 256), UInt8.ofNat (st.val % 256)]))
    else some st.tp
  match wr with
  | none => none
  | some tp =>
    match st.colonp with
    | some cp =>
      if tp.length = 16 then none                 -- `::` would expand to a zero-width field
      else some (tp.take cp ++ List.replicate (16 - tp.length) 0 ++ tp.drop cp)
    | none => if tp.length = 16 then some tp else none

/-- the `while (src < src_endp)` loop of `inet_pton6`; `cur` = text from `curtok` on -/
def pton6Loop : Bytes → Bytes → P6 → Option Bytes
  | [], _, st => pton6Finish st
  | ch :: src, cur, st =>
    match hexVal ch with
    | some d =>
      if st.seen = 4 then none
      else
        let val := st.val * 16 + d
        if val > 0xffff then none else pton6Loop src cur { st with val := val, seen := st.seen + 1 }
    | none =>
      if ch = 58 then                             -- ':'
        if st.seen = 0 then
          (if st.colonp.isSome then none else pton6Loop src src { st with colonp := some st.tp.length })
        else if src.isEmpty then none
        else if st.tp.length + 2 > 16 then none
        else pton6Loop src src { st with tp := st.tp ++ [UInt8.ofNat (st.val / 256 % 256), UInt8.ofNat (st.val % 256)], seen := 0, val := 0 }
      else if ch = 46 && st.tp.length + 4 ≤ 16 then   -- '.'
        match pton4 cur with
        | some b4 => pton6Finish { st with tp := st.tp ++ b4, seen := 0 }
        | none => none
      else none

def pton6 (s : Bytes) : Option Bytes :=
  match s with
  | [] => none
  | 58 :: r =>                                    -- leading `::` requires some special handling
    (match r with
     | 58 :: _ => pton6Loop r r ⟨[], none, 0, 0⟩
     | _ => none)
  | _ => pton6Loop s s ⟨[], none, 0, 0⟩

/-- numeric `getaddrinfo` + `Ip::Address::operator=(addrinfo)`; only for tokens over `Gen.ipChars` -/
def numeric : IpOf := fun s =>
  if s.all Gen.Proxyp.ipChars.mem then
    match aton s with
    | some b4 => some (map4to6 b4)
    | none => pton6 s
  else none

end SquidModel.Proxyp.IpText
