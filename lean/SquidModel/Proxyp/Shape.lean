/-
What every accepted buffer looks like (version, framing, size) and the rejection lemmas of the framing layer.
Helper lemmas for Properties/C38.lean. Core-only.
-/
import SquidModel.Proxyp.V1Line
import SquidModel.Proxyp.V2
import SquidModel.Proxyp.Feed
namespace SquidModel.Proxyp
open SquidModel.Gen.Proxyp

namespace Two

theorem parseAddresses_keeps {family : Nat} {t t' : BTok} {h h1 : Header} (hp : parseAddresses family t h = .ok (h1, t')) :
    h1.version = h.version ∧ h1.command = h.command ∧ h1.tlvs = h.tlvs := by
  unfold parseAddresses at hp
  repeat' (split at hp)
  all_goals first
    | (simp at hp; done)
    | (simp only [Except.ok.injEq, Prod.mk.injEq] at hp; obtain ⟨rfl, -⟩ := hp; exact ⟨rfl, rfl, rfl⟩)
    | (simp only [Except.ok.injEq, Prod.mk.injEq] at hp; obtain ⟨rfl, -⟩ := hp; split <;> exact ⟨rfl, rfl, rfl⟩)

/-- `Two.body` keeps the version and the command it was given -/
theorem body_version {command family proto : Nat} {raw : Bytes} {h : Header} (hp : body command family proto raw = .ok h) :
    h.version = 2 ∧ h.command = command := by
  unfold body at hp
  simp only at hp
  repeat' (split at hp)
  all_goals first
    | (simp at hp; done)
    | (simp only [Except.ok.injEq] at hp; subst hp; exact ⟨rfl, rfl⟩)
    | (simp only [Except.ok.injEq] at hp; subst hp
       have := parseAddresses_keeps ‹_›
       exact ⟨this.1, this.2.1⟩)

end Two

namespace One

theorem interior_version {ipOf : IpOf} {inter : Bytes} {h : Header} (hp : interior ipOf inter = .ok h) :
    h.version = 1 ∧ h.command = cmdProxy ∧ h.tlvs = [] := by
  unfold interior at hp
  simp only at hp
  repeat' (split at hp)
  all_goals first
    | (simp at hp; done)
    | (simp only [Except.ok.injEq] at hp; subst hp; exact ⟨rfl, rfl, rfl⟩)
    | (obtain ⟨fam, s, d, sp, dp, rest, sa, da, -, -, -, -, -, -, -, -, -, -, -, -, -, -, -, -, -, rfl⟩ := parseAddresses_ok hp
       exact ⟨rfl, rfl, rfl⟩)

end One

/-- `ProxyProtocol::Parse` has no undefined outcome -/
theorem parse_ne_ub (ipOf : IpOf) (buf : Bytes) : parse ipOf buf ≠ .ub := by
  intro hc
  rw [parse_eq] at hc
  repeat' (split at hc)
  all_goals (try (simp at hc; done))
  · unfold toRes at hc
    split at hc <;> first | (simp at hc; done) | exact Two.parse_ne_ub _ ‹_›
  · unfold toRes at hc
    split at hc <;> first | (simp at hc; done) | exact One.parse_ne_ub _ _ ‹_›

/-- every accepted buffer is a v2 frame (signature, 4 octets, 16-bit length, that many octets) or a v1 line
(`PROXY`, 1..100 non-CR octets, CRLF), and the size is exactly that frame -/
theorem parse_ok_shape {ipOf : IpOf} {buf : Bytes} {h : Header} {n : Nat} (hp : parse ipOf buf = .ok h n) :
    (h.version = 2 ∧ ∃ vc fp l1 l2 r3, buf = magic2 ++ vc :: fp :: l1 :: l2 :: r3 ∧ n = 16 + Two.len16 l1 l2 ∧
        Two.len16 l1 l2 ≤ r3.length ∧ h.command = vc.toNat &&& 0x0F ∧ h.command ≤ 1) ∨
    (h.version = 1 ∧ h.command = cmdProxy ∧ h.tlvs = [] ∧ ∃ inter rest, buf = magic1 ++ inter ++ 13 :: 10 :: rest ∧
        n = magic1.length + inter.length + 2 ∧ n ≤ maxHeaderLength ∧ inter ≠ [] ∧ (∀ b ∈ inter, b ≠ 13) ∧
        One.interior ipOf inter = .ok h) := by
  rw [parse_eq] at hp
  by_cases h2 : magic2.isPrefixOf buf = true
  · left
    simp only [h2, if_true] at hp
    obtain ⟨t, rfl⟩ := List.isPrefixOf_iff_prefix.mp h2
    rw [List.drop_left] at hp
    cases hq : Two.parse t with
    | error e => rw [hq] at hp; cases e <;> simp [toRes] at hp
    | ok p =>
      obtain ⟨h', m⟩ := p
      rw [hq] at hp
      simp only [toRes, Res.ok.injEq] at hp
      obtain ⟨rfl, rfl⟩ := hp
      obtain ⟨vc, fp, l1, l2, r3, rfl, hm, hle, -, hcmd, -, -, hb, -⟩ := Two.parse_ok hq
      obtain ⟨hv, hc⟩ := Two.body_version hb
      refine ⟨hv, vc, fp, l1, l2, r3, rfl, ?_, hle, hc, ?_⟩
      · simp only [magic2, List.length_cons, List.length_nil]; omega
      · rw [hc]; unfold cmdProxy at hcmd; exact hcmd
  · right
    have h2' : magic2.isPrefixOf buf = false := Bool.eq_false_iff.mpr h2
    rw [h2'] at hp
    simp only [Bool.false_eq_true, if_false] at hp
    by_cases h1 : magic1.isPrefixOf buf = true
    · simp only [h1, if_true] at hp
      obtain ⟨t, rfl⟩ := List.isPrefixOf_iff_prefix.mp h1
      rw [List.drop_left] at hp
      cases hq : One.parse ipOf t with
      | error e => rw [hq] at hp; cases e <;> simp [toRes] at hp
      | ok p =>
        obtain ⟨h', m⟩ := p
        rw [hq] at hp
        simp only [toRes, Res.ok.injEq] at hp
        obtain ⟨rfl, rfl⟩ := hp
        obtain ⟨inter, rest, rfl, hm, hne, hlen, hall, hi, -⟩ := One.parse_ok hq
        obtain ⟨hv, hc, htl⟩ := One.interior_version hi
        refine ⟨hv, hc, htl, inter, rest, by simp, by omega, ?_, hne, ?_, hi⟩
        · simp only [magic1, maxHeaderLength, maxInteriorLength, List.length_cons, List.length_nil] at hlen ⊢; omega
        · intro b hb e
          subst e
          have := hall 13 hb
          rw [One.cr_not_interior] at this
          cases this
    · have h1' : magic1.isPrefixOf buf = false := Bool.eq_false_iff.mpr h1
      rw [h1'] at hp
      by_cases hl : buf.length ≥ magic2.length <;> simp [hl] at hp

/-! ### rejections of the framing layer -/

theorem takeWhile_all {α} (p : α → Bool) (l : List α) (h : ∀ b ∈ l, p b = true) : l.takeWhile p = l := by
  induction l with
  | nil => rfl
  | cons b r ih =>
    simp only [List.takeWhile_cons, h b (by simp), if_true]
    rw [ih (fun x hx => h x (by simp [hx]))]

/-- more than `maxInteriorLength` octets without CR after the v1 magic: rejected, whatever follows -/
theorem v1_oversized (ipOf : IpOf) (junk : Bytes) (hlen : maxInteriorLength < junk.length)
    (hall : ∀ b ∈ junk.take (maxInteriorLength + 1), interiorChars.mem b = true) :
    parse ipOf (magic1 ++ junk) = .reject .v1MalformedHeader := by
  rw [parse_eq]
  have hp1 : magic1.isPrefixOf (magic1 ++ junk) = true := List.isPrefixOf_iff_prefix.mpr ⟨junk, rfl⟩
  rw [magic1_excludes_magic2 _ hp1, hp1]
  simp only [Bool.false_eq_true, if_false, if_true, List.drop_left]
  unfold One.parse
  rw [One.line_eq]
  have hsub : ∀ b ∈ junk.take maxInteriorLength, interiorChars.mem b = true := by
    intro b hb
    apply hall b
    have : junk.take maxInteriorLength <+: junk.take (maxInteriorLength + 1) :=
      List.take_prefix_take_left (by omega)
    exact this.subset hb
  have hrun : One.run junk = junk.take maxInteriorLength := takeWhile_all _ _ hsub
  have hrl : (One.run junk).length = maxInteriorLength := by
    rw [hrun, List.length_take]; omega
  have hne : One.run junk ≠ [] := by
    intro e; rw [e] at hrl; simp [maxInteriorLength] at hrl
  simp only [hne, if_false, hrl]
  cases hd : junk.drop maxInteriorLength with
  | nil =>
    have := congrArg List.length hd
    simp only [List.length_drop, List.length_nil] at this
    omega
  | cons c rest =>
    simp only
    have hc : c ∈ junk.take (maxInteriorLength + 1) := by
      rw [List.take_add_one]
      have : junk[maxInteriorLength]? = some c := by
        rw [← List.head?_drop, hd]; rfl
      simp [this]
    have hmem := hall c hc
    have hc13 : c ≠ 13 := by
      intro e; subst e; rw [One.cr_not_interior] at hmem; cases hmem
    simp [hc13, toRes]

/-- neither magic at the start of at least 12 octets: rejected; of fewer: more -/
theorem no_magic (ipOf : IpOf) (buf : Bytes) (h2 : magic2.isPrefixOf buf = false) (h1 : magic1.isPrefixOf buf = false) :
    parse ipOf buf = if magic2.length ≤ buf.length then .reject .badMagic else .more := by
  rw [parse_eq, h2, h1]
  simp

/-! ### the caller's retry loop -/

/-- however the bytes are cut into reads, the connection ends the PROXY phase with the answer (and the left-over bytes)
that a single parse of the whole input gives -/
theorem feed_eq (ipOf : IpOf) (acc : Bytes) (segs : List Bytes) :
    feed ipOf acc segs = attempt ipOf (acc ++ segs.flatten) := by
  induction segs generalizing acc with
  | nil => simp [feed]
  | cons s r ih =>
    unfold feed
    have hst := parse_stable ipOf (acc ++ s) r.flatten
    cases hp : parse ipOf (acc ++ s) with
    | more =>
      simp only
      rw [ih]
      simp [List.append_assoc]
    | ok h n =>
      have hfull : parse ipOf (acc ++ (s :: r).flatten) = .ok h n := by
        rw [List.flatten_cons, ← List.append_assoc, hst (by rw [hp]; simp), hp]
      have hn := (parse_ok_take hp).1
      simp only [attempt, hfull]
      rw [List.flatten_cons, ← List.append_assoc, List.drop_append_of_le_length hn]
    | reject e =>
      have hfull : parse ipOf (acc ++ (s :: r).flatten) = .reject e := by
        rw [List.flatten_cons, ← List.append_assoc, hst (by rw [hp]; simp), hp]
      simp only [attempt, hfull]
      simp [List.append_assoc]
    | ub => exact absurd hp (parse_ne_ub ipOf _)

end SquidModel.Proxyp
