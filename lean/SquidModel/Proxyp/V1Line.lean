/-
PROXY/1.0 whole-line round trips: a reference-encoded `PROXY TCPn src dst sport dport CRLF` line (any spelling of the
addresses the resolver accepts, any decimal spelling of the ports) and `PROXY UNKNOWN... CRLF` are read back exactly,
whatever follows them. Helper lemmas for Properties/C38.lean. Core-only.
-/
import SquidModel.Proxyp.V1
namespace SquidModel.Proxyp
open SquidModel.Gen.Proxyp

namespace One

theorem ip_sub_interior : ∀ b : UInt8, (!ipChars.mem b || interiorChars.mem b) = true :=
  forall_octet _ (by decide +kernel)
theorem dec_sub_interior : ∀ b : UInt8, (!Tok.validDigit 10 b || interiorChars.mem b) = true :=
  forall_octet _ (by decide +kernel)
theorem fam_sub_interior : ∀ b : UInt8, (!addressFamilies.mem b || interiorChars.mem b) = true :=
  forall_octet _ (by decide +kernel)

theorem interior_of_ip {b : UInt8} (h : ipChars.mem b = true) : interiorChars.mem b = true := by
  have := ip_sub_interior b; simpa [h] using this
theorem interior_of_dec {b : UInt8} (h : Tok.validDigit 10 b = true) : interiorChars.mem b = true := by
  have := dec_sub_interior b; simpa [h] using this
theorem interior_of_fam {b : UInt8} (h : addressFamilies.mem b = true) : interiorChars.mem b = true := by
  have := fam_sub_interior b; simpa [h] using this

/-- the interior of a TCP line -/
def tcpInterior (fam : UInt8) (s d sp dp : Bytes) : Bytes :=
  32 :: (protoTcp ++ fam :: 32 :: (s ++ 32 :: (d ++ 32 :: (sp ++ 32 :: dp))))

theorem tcpInterior_length (fam : UInt8) (s d sp dp : Bytes) :
    (tcpInterior fam s d sp dp).length = s.length + d.length + sp.length + dp.length + 9 := by
  simp [tcpInterior, protoTcp]; omega

theorem interior_tcp (ipOf : IpOf) (fam : UInt8) (s d sp dp sa da : Bytes)
    (hfam : addressFamilies.mem fam = true)
    (hsne : s ≠ []) (hsall : ∀ b ∈ s, ipChars.mem b = true) (hsip : ipOf s = some sa)
    (hdne : d ≠ []) (hdall : ∀ b ∈ d, ipChars.mem b = true) (hdip : ipOf d = some da)
    (hfamily : familyOf sa da = [fam])
    (hspne : sp ≠ []) (hspall : ∀ c ∈ sp, Tok.validDigit 10 c = true) (hspv : Tok.digitsValue 10 sp ≤ 65535)
    (hdpne : dp ≠ []) (hdpall : ∀ c ∈ dp, Tok.validDigit 10 c = true) (hdpv : Tok.digitsValue 10 dp ≤ 65535) :
    interior ipOf (tcpInterior fam s d sp dp) =
      .ok { version := 1, command := cmdProxy, src := ⟨sa, Tok.digitsValue 10 sp⟩, dst := ⟨da, Tok.digitsValue 10 dp⟩ } := by
  unfold interior tcpInterior
  simp only [Tok.skipChar_eq, Tok.ofBytes, if_true, skip_eq _ _ (show protoTcp ≠ [] by decide)]
  have hpre : protoTcp.isPrefixOf (protoTcp ++ fam :: 32 :: (s ++ 32 :: (d ++ 32 :: (sp ++ 32 :: dp)))) = true :=
    List.isPrefixOf_iff_prefix.mpr ⟨_, rfl⟩
  simp only [hpre, if_true, List.drop_left]
  rw [parseAddresses_intro ipOf fam s d sp dp sa da _ _ hfam hsne hsall hsip hdne hdall hdip hfamily hspne hspall hspv hdpne hdpall hdpv]

theorem tcpInterior_all (fam : UInt8) (s d sp dp : Bytes)
    (hfam : addressFamilies.mem fam = true)
    (hsall : ∀ b ∈ s, ipChars.mem b = true) (hdall : ∀ b ∈ d, ipChars.mem b = true)
    (hspall : ∀ c ∈ sp, Tok.validDigit 10 c = true) (hdpall : ∀ c ∈ dp, Tok.validDigit 10 c = true) :
    ∀ b ∈ tcpInterior fam s d sp dp, interiorChars.mem b = true := by
  intro b hb
  simp only [tcpInterior, protoTcp, List.mem_cons, List.mem_append, List.cons_append, List.nil_append] at hb
  have h32 : interiorChars.mem 32 = true := by decide
  rcases hb with rfl | rfl | rfl | rfl | rfl | rfl | hb | rfl | hb | rfl | hb | rfl | hb
  · exact h32
  · decide
  · decide
  · decide
  · exact interior_of_fam hfam
  · exact h32
  · exact interior_of_ip (hsall b hb)
  · exact h32
  · exact interior_of_ip (hdall b hb)
  · exact h32
  · exact interior_of_dec (hspall b hb)
  · exact h32
  · exact interior_of_dec (hdpall b hb)

end One

/-- framing of a v1 line: `PROXY` interior CRLF rest, interior without CR and at most `maxInteriorLength` long -/
theorem parse_v1_line (ipOf : IpOf) (inter rest : Bytes) (hne : inter ≠ [])
    (hall : ∀ b ∈ inter, interiorChars.mem b = true) (hlen : inter.length ≤ maxInteriorLength) :
    parse ipOf (magic1 ++ inter ++ 13 :: 10 :: rest) =
      match One.interior ipOf inter with
      | .ok h => .ok h (magic1.length + inter.length + 2)
      | .error .more => .more
      | .error (.reject e) => .reject e
      | .error .ub => .ub := by
  rw [parse_eq]
  have hp1 : magic1.isPrefixOf (magic1 ++ inter ++ 13 :: 10 :: rest) = true :=
    List.isPrefixOf_iff_prefix.mpr ⟨inter ++ 13 :: 10 :: rest, by simp⟩
  rw [magic1_excludes_magic2 _ hp1, hp1]
  simp only [Bool.false_eq_true, if_false, if_true]
  rw [List.append_assoc, List.drop_left]
  unfold One.parse
  rw [One.line_intro inter rest hne hall hlen]
  simp only
  cases One.interior ipOf inter with
  | error e => cases e <;> rfl
  | ok h => simp [toRes]; omega

end SquidModel.Proxyp
