/-
The caller's retry loop (`ConnStateData::parseProxyProtocolHeader`, src/client_side.cc): every time bytes arrive they are
appended to `inBuf` and `ProxyProtocol::Parse(inBuf)` runs on the whole accumulated buffer; `InsufficientInput` means
"wait for the next read", a header means `inBuf.consume(parsed.size)`, any other exception closes the connection.
Core-only.
-/
import SquidModel.Proxyp.Parser
namespace SquidModel.Proxyp

/-- how the connection leaves the PROXY phase: the answer and the bytes left in `inBuf` for the HTTP parser -/
structure Fed where
  res : Res
  /-- `inBuf` after `consume(parsed.size)` (only meaningful after a header) -/
  left : Bytes
  deriving DecidableEq, Repr

/-- one read handler invocation on the accumulated buffer -/
def attempt (ipOf : IpOf) (acc : Bytes) : Fed :=
  match parse ipOf acc with
  | .ok h n => ⟨.ok h n, acc.drop n⟩
  | r => ⟨r, acc⟩

/-- segments arrive one by one; parsing is retried on the accumulated buffer until the answer is definite; segments
that arrive after the header was consumed are simply appended to what was left -/
def feed (ipOf : IpOf) (acc : Bytes) : List Bytes → Fed
  | [] => attempt ipOf acc
  | s :: r =>
    match parse ipOf (acc ++ s) with
    | .more => feed ipOf (acc ++ s) r
    | .ok h n => ⟨.ok h n, (acc ++ s).drop n ++ r.flatten⟩
    | x => ⟨x, acc ++ s ++ r.flatten⟩

end SquidModel.Proxyp
