/-
C07 lemmas tying the scenario simulation (`Fwd/RetrySim.lean`, what the model driver prints) to `run`, so that the
history theorems apply to every simulated scenario.
-/
import SquidModel.Fwd.RetryLemmas
import SquidModel.Fwd.RetrySim
namespace SquidModel.Fwd.Retry

/-! ### the scenario simulation is a `run` over an event list -/

theorem run_append (c : Cfg) (r : Req) : ∀ (a b : List Ev) (s : St),
    run c r s (a ++ b) = ((run c r (run c r s a).1 b).1, (run c r s a).2 ++ (run c r (run c r s a).1 b).2)
  | [], b, s => by simp [run]
  | e :: a, b, s => by
    simp only [List.cons_append, run]
    rw [run_append c r a b]
    simp [List.append_assoc]

theorem feed_eq_run (c : Cfg) (r : Req) : ∀ (evs : List Ev) (s : St) (acc : List Out),
    feed c r s evs acc = ((run c r s evs).1, acc ++ (run c r s evs).2)
  | [], s, acc => by simp [feed, run]
  | e :: es, s, acc => by
    simp only [feed, run]
    rw [feed_eq_run c r es]
    simp [List.append_assoc]

theorem sim_eq_run (c : Cfg) (r : Req) (bodySent headReq : Bool) (fuel : Nat) (s : St) (faults : List Fault) (acc : List Out) :
    sim c r bodySent headReq fuel s faults acc =
      ((run c r s (simTrace c r bodySent headReq fuel s faults)).1, acc ++ (run c r s (simTrace c r bodySent headReq fuel s faults)).2) := by
  unfold sim
  exact feed_eq_run c r _ s acc

/-- the whole event list of a scenario -/
def scenarioTrace (c : Cfg) (r : Req) (bodySent headReq : Bool) (addrs : List Nat) (prime : Bool) (faults : List Fault) : List Ev :=
  let pool := if prime then (addrs.filter alive).take 1 else []
  let pre := addrs.map Ev.noteDestination ++ [Ev.noteDestinationsEnd]
  pre ++ simTrace c r bodySent headReq (4 * (addrs.length + faults.length) + 8) (run c r (init pool) pre).1 faults

theorem scenario_eq_run (c : Cfg) (r : Req) (bodySent headReq : Bool) (addrs : List Nat) (prime : Bool) (faults : List Fault) :
    scenario c r bodySent headReq addrs prime faults =
      run c r (init (if prime then (addrs.filter alive).take 1 else [])) (scenarioTrace c r bodySent headReq addrs prime faults) := by
  unfold scenario scenarioTrace
  dsimp only
  generalize (addrs.map Ev.noteDestination ++ [Ev.noteDestinationsEnd]) = pre
  rw [feed_eq_run, sim_eq_run, run_append]
  simp only [List.nil_append]

/-- the status a scripted fault puts on the wire as a parsed reply, if any -/
def Fault.replyStatus : Fault → Option Nat
  | .ok => some 200
  | .status s => some s
  | .partBody s _ => some s
  | _ => none

theorem faultEvents_reply (hasBody bodySent headReq : Bool) (f : Fault) (st : Nat)
    (h : Ev.replyHeaders st ∈ faultEvents hasBody bodySent headReq f) : f.replyStatus = some st := by
  unfold faultEvents at h
  cases f with
  | partBody s rst => cases rst <;> cases headReq <;> simp at h <;> simp_all [Fault.replyStatus]
  | partHead k rst => cases rst <;> simp at h
  | _ => simp at h <;> simp_all [Fault.replyStatus]

theorem simTrace_reply (c : Cfg) (r : Req) (bodySent headReq : Bool) (st : Nat) : ∀ (fuel : Nat) (s : St) (faults : List Fault),
    Ev.replyHeaders st ∈ simTrace c r bodySent headReq fuel s faults → st = 200 ∨ ∃ f ∈ faults, f.replyStatus = some st
  | 0, _, _, h => by simp [simTrace] at h
  | fuel + 1, s, faults, h => by
    unfold simTrace at h
    split at h
    · simp only [List.mem_cons, reduceCtorEq, false_or] at h
      exact simTrace_reply c r bodySent headReq st fuel _ faults h
    · simp only [List.mem_cons, reduceCtorEq, false_or] at h
      exact simTrace_reply c r bodySent headReq st fuel _ faults h
    · rcases List.mem_append.mp h with h1 | h2
      · have := faultEvents_reply _ _ _ _ _ h1
        cases faults with
        | nil => left; simp [Fault.replyStatus] at this; exact this.symm
        | cons f fs => right; exact ⟨f, by simp, by simpa using this⟩
      · rcases simTrace_reply c r bodySent headReq st fuel _ faults.tail h2 with h3 | ⟨f, hf, hs⟩
        · left; exact h3
        · right; exact ⟨f, List.mem_of_mem_tail hf, hs⟩
    · simp at h

/-- Scenario-level corollary of the partial theorem: whatever the configuration, address list, primed pconn and
fault script, a request whose method is neither safe nor idempotent is dispatched at most once in the simulated
scenario unless one of the scripted replies carries a re-forwardable status. -/
theorem scenario_at_most_once (c : Cfg) (r : Req) (bodySent headReq : Bool) (addrs : List Nat) (prime : Bool) (faults : List Fault)
    (hm : r.safe = false ∧ r.idem = false) (h200 : isReforwardableStatus c 200 = false)
    (hno : ∀ f ∈ faults, ∀ st, f.replyStatus = some st → isReforwardableStatus c st = false) :
    dispatches (scenario c r bodySent headReq addrs prime faults).2 ≤ 1 := by
  rw [scenario_eq_run]
  have hnr : checkRetriable r = false := by unfold checkRetriable; split <;> simp [hm.1, hm.2]
  have hb := run_good c r hnr (scenarioTrace c r bodySent headReq addrs prime faults)
    (init (if prime then (addrs.filter alive).take 1 else [])) (by intro d b h; simp [init] at h)
  rw [reforwards_zero c r _ _ rfl] at hb
  · have hp : pending (init (if prime then (addrs.filter alive).take 1 else [])) = 1 := rfl
    omega
  · intro st hst
    unfold scenarioTrace at hst
    dsimp only at hst
    rcases List.mem_append.mp hst with h1 | h2
    · simp at h1
    · rcases simTrace_reply c r bodySent headReq st _ _ faults h2 with h3 | ⟨f, hf, hs⟩
      · rw [h3]; exact h200
      · exact hno f hf st hs

end SquidModel.Fwd.Retry
