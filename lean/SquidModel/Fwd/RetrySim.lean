/-
C07 scenario semantics: how one end-to-end scenario (props/C07.py) drives the `Fwd.Retry` state machine.

A scenario fixes the A records of the origin name (`addrs`; 1..3 accept connections, 4..6 refuse), whether an idle
persistent connection to the first listening address is in the pool, whether the request has a body and whether the
origin ever gets to read it, and one fault per arrival.  `faultEvents` says which `Ev`s the scripted origin behaviour
causes in `HttpStateData` (src/http.cc: readReply / processReplyHeader / continueAfterParsingHeader /
processReplyBody / wroteLast), `sim` closes the loop: every `connect d` is answered by `connectDone (alive d)`, every
queued `noteConnection` fires with the socket open, every dispatch consumes the next fault.
-/
import SquidModel.Fwd.Retry

namespace SquidModel.Fwd.Retry

/-- scripted origin behaviour for one arrival -/
inductive Fault
  | ok                         -- complete 200 reply, connection kept
  | peekClose                  -- pk: close before reading anything (RST)
  | headClose                  -- hd: close after reading the request head
  | fullClose                  -- fr: read the whole request, FIN
  | fullReset                  -- rs: read the whole request, RST
  | partHead (k : Nat) (rst : Bool)   -- hf<k> / hr<k>: k bytes of a reply head, then FIN / RST
  | partBody (status : Nat) (rst : Bool) -- bf<s> / br<s>: whole head, part of the body, then FIN / RST
  | status (s : Nat)           -- st<s>: complete reply with that status
deriving Repr, DecidableEq

/-- does the origin read the request body (if one is sent) before it acts? -/
def Fault.readsBody : Fault → Bool
  | .peekClose => false
  | .headClose => false
  | _ => true

/-- `bodySent`: the client supplied body bytes (b<k>, c<k>); `hasBody`: a body_pipe exists (also w<k>);
`headReq`: the request method is HEAD (the reply has no body: it is complete after its head) -/
def faultEvents (hasBody bodySent headReq : Bool) (f : Fault) : List Ev :=
  let pre := if bodySent && f.readsBody then [Ev.bodyConsumed] else []
  pre ++ match f with
  | .ok => [.replyHeaders 200, .serverComplete (!hasBody || bodySent)]
  | .status s => [.replyHeaders s, .serverComplete (!hasBody || bodySent)]
  | .partBody s false => [.replyHeaders s, .serverComplete false]      -- premature EOF: markPrematureReplyBodyEofFailure; serverComplete
  | .partBody s true =>
    if headReq then [.replyHeaders s, .serverComplete false]           -- header-only reply: complete before the reset
    else [.replyHeaders s, .serverFailed .other false]                 -- readReply: ERR_READ_ERROR
  | .fullClose => [.serverFailed .zero false]                           -- ERR_ZERO_SIZE_OBJECT
  | .fullReset => [.serverFailed .other false]
  | .peekClose => [.serverFailed .other false]
  | .headClose => [.serverFailed (if hasBody then .other else .zero) false]
  | .partHead k false =>
    -- EOF inside the reply head.  Http1::ResponseParser keeps checkpoints after "HTTP/1.1 " (9 octets), after the
    -- status code and its SP (13) and after the status line (17 for "HTTP/1.1 200 OK\r\n"): when the received
    -- prefix ends exactly at a checkpoint, inBuf is empty at EOF and continueAfterParsingHeader reports
    -- ERR_ZERO_SIZE_OBJECT; otherwise ERR_INVALID_RESP
    [.serverFailed (if k = 0 ∨ k = 9 ∨ k = 13 ∨ k = 17 then .zero else .other) false]
  | .partHead _ true => [.serverFailed .other false]                    -- ERR_READ_ERROR (ECONNRESET)

def feed (c : Cfg) (r : Req) : St → List Ev → List Out → St × List Out
  | s, [], acc => (s, acc)
  | s, e :: es, acc =>
    let (s1, o1) := step c r s e
    feed c r s1 es (acc ++ o1)

def alive (d : Nat) : Bool := decide (1 ≤ d ∧ d ≤ 3)

/-- closed loop, as the list of events the environment produces: every `connect d` is answered by `connectDone (alive d)`,
every queued `noteConnection` fires with the socket open, every dispatch meets the next fault (then `ok`);
`fuel` bounds the number of stimuli -/
def simTrace (c : Cfg) (r : Req) (bodySent headReq : Bool) : Nat → St → List Fault → List Ev
  | 0, _, _ => []
  | fuel + 1, s, faults =>
    match s.phase with
    | .opening (some d) =>
      Ev.connectDone (alive d) :: simTrace c r bodySent headReq fuel (step c r s (.connectDone (alive d))).1 faults
    | .answering _ _ =>
      Ev.noteConnection true :: simTrace c r bodySent headReq fuel (step c r s (.noteConnection true)).1 faults
    | .sent _ _ =>
      faultEvents r.hasBody bodySent headReq (faults.headD .ok) ++
        simTrace c r bodySent headReq fuel (run c r s (faultEvents r.hasBody bodySent headReq (faults.headD .ok))).1 faults.tail
    | _ => []

def sim (c : Cfg) (r : Req) (bodySent headReq : Bool) (fuel : Nat) (s : St) (faults : List Fault) (acc : List Out) : St × List Out :=
  feed c r s (simTrace c r bodySent headReq fuel s faults) acc

/-- the status line the client receives (FwdState::completed, errorAppendEntry) -/
def finalStatus (s : St) : Nat :=
  if !s.entryEmpty then s.status else
  match s.err with
  | some .connectFail => 503
  | some .cannotForward503 => 503
  | some .selection => 503
  | some .cannotForward500 => 500
  | some .pinned => 503
  | _ => 502

/-- a whole scenario: peer selection delivers all A records, then the end of destinations -/
def scenario (c : Cfg) (r : Req) (bodySent headReq : Bool) (addrs : List Nat) (prime : Bool) (faults : List Fault) : St × List Out :=
  let pool := if prime then (addrs.filter alive).take 1 else []
  let (s0, o0) := feed c r (init pool) (addrs.map Ev.noteDestination ++ [Ev.noteDestinationsEnd]) []
  sim c r bodySent headReq (4 * (addrs.length + faults.length) + 8) s0 faults o0

end SquidModel.Fwd.Retry
