import SquidModel.Fwd.Loop

namespace SquidModel.Fwd

theorem isInfix_of_prefix (pat s : Bytes) (h : pat.isPrefixOf s = true) : isInfix pat s = true := by
  cases s with
  | nil => cases pat <;> simp_all [isInfix]
  | cons c s => simp [isInfix, h]

theorem isPrefixOf_append (pat b : Bytes) : pat.isPrefixOf (pat ++ b) = true := by
  induction pat with
  | nil => simp
  | cons x xs ih => simp [List.isPrefixOf, ih]

theorem isInfix_append (pat a b : Bytes) : isInfix pat (a ++ (pat ++ b)) = true := by
  induction a with
  | nil => exact isInfix_of_prefix _ _ (isPrefixOf_append pat b)
  | cons x a ih => simp [isInfix, ih]

theorem isInfix_mono_left (pat a s : Bytes) (h : isInfix pat s = true) : isInfix pat (a ++ s) = true := by
  induction a with
  | nil => simpa
  | cons x a ih => simp [isInfix, ih]

theorem isInfix_spec (pat s : Bytes) (h : isInfix pat s = true) : ∃ a b, s = a ++ (pat ++ b) := by
  induction s with
  | nil =>
    simp [isInfix] at h
    exact ⟨[], [], by simp [h]⟩
  | cons c s ih =>
    simp only [isInfix, Bool.or_eq_true] at h
    rcases h with h | h
    · rw [List.isPrefixOf_iff_prefix] at h
      obtain ⟨b, hb⟩ := h
      exact ⟨[], b, by simp [hb]⟩
    · obtain ⟨a, b, hab⟩ := ih h
      exact ⟨c :: a, b, by simp [hab]⟩

theorem isInfix_mono_right (pat s b : Bytes) (h : isInfix pat s = true) : isInfix pat (s ++ b) = true := by
  obtain ⟨a, c, hs⟩ := isInfix_spec pat s h
  subst hs
  have := isInfix_append pat a (c ++ b)
  simpa [List.append_assoc] using this

/-- an infix of a member field is an infix of the joined list -/
theorem isInfix_joinList (pat f : Bytes) (fields : List Bytes) (hm : f ∈ fields) (h : isInfix pat f = true) :
    isInfix pat (joinList fields) = true := by
  induction fields with
  | nil => simp at hm
  | cons g rest ih =>
    cases rest with
    | nil =>
      simp at hm; subst hm; simpa [joinList]
    | cons g2 rest2 =>
      simp only [joinList]
      rcases List.mem_cons.mp hm with hfg | hrest
      · subst hfg
        rw [List.append_assoc]
        exact isInfix_mono_right _ _ _ h
      · rw [List.append_assoc]
        exact isInfix_mono_left _ _ _ (isInfix_mono_left _ _ _ (ih hrest))

end SquidModel.Fwd
