/-
C07 model: how a request method token becomes the (isHttpSafe, isIdempotent) pair `FwdState::checkRetriable` reads.

* `HttpRequestMethod::HttpRequestMethod(const SBuf &)` (src/http/RequestMethod.cc): linear search through the
  `Http::MethodType` images in enum order; a case-insensitive match (`SBuf::caseCmp`) is accepted at once when
  `relaxed_header_parser` is on, otherwise only when it is also an exact match; no match ⇒ METHOD_OTHER.
* `isHttpSafe` / `isIdempotent`: `switch` over the enum — the table is regenerated from the staged code into
  `SquidModel.Gen.MethodClasses` (METHOD_OTHER and every id the switches do not list: false).
* `Http::IsReforwardableStatus`: the two status lists of the same Gen file.
-/
import SquidModel.Gen.MethodClasses
import SquidModel.Fwd.Retry

namespace SquidModel.Fwd.Retry
open SquidModel.Gen

/-- xtolower on one octet (ASCII) -/
def lower (b : UInt8) : UInt8 := if 65 ≤ b && b ≤ 90 then b + 32 else b

/-- SBuf::caseCmp(...) == 0 -/
def eqIgnoreCase : List UInt8 → List UInt8 → Bool
  | [], [] => true
  | a :: as, b :: bs => lower a == lower b && eqIgnoreCase as bs
  | _, _ => false

/-- the constructor's search loop: the first table row that matches -/
def findMethod (relaxed : Bool) (tok : List UInt8) : List (Nat × List UInt8 × Bool × Bool) → Option (Nat × List UInt8 × Bool × Bool)
  | [] => none
  | row :: rest =>
    if eqIgnoreCase row.2.1 tok && (relaxed || row.2.1 == tok) then some row else findMethod relaxed tok rest

structure MethodInfo where
  id : Nat
  image : List UInt8   -- what Squid writes upstream (the canonical image, or the token itself for METHOD_OTHER)
  safe : Bool
  idem : Bool
deriving Repr, DecidableEq

/-- HttpRequestMethod(SBuf) followed by id() / image() / isHttpSafe() / isIdempotent(); the empty token gives METHOD_NONE -/
def classify (relaxed : Bool) (tok : List UInt8) : MethodInfo :=
  if tok.isEmpty then ⟨0, [], false, false⟩ else
  match findMethod relaxed tok MethodClasses.methods with
  | some (i, img, s, d) => ⟨i, img, s, d⟩
  | none => ⟨MethodClasses.methodOther, tok, false, false⟩

/-- the request as the retry gate sees it -/
def reqOf (relaxed : Bool) (tok : List UInt8) (hasBody : Bool) : Req :=
  let m := classify relaxed tok
  { safe := m.safe, idem := m.idem, hasBody := hasBody }

/-- a configuration with the generated status lists -/
def cfgOf (maxTries : Nat) (retryOnError pconnForNonretriable : Bool) : Cfg :=
  { maxTries := maxTries, retryOnError := retryOnError, pconnForNonretriable := pconnForNonretriable,
    reforwardAlways := MethodClasses.reforwardAlways, reforwardOnError := MethodClasses.reforwardOnError }

def defaultCfg : Cfg := cfgOf MethodClasses.forwardMaxTriesDefault false false

end SquidModel.Fwd.Retry
