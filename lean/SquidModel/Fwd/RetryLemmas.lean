/-
C07 lemmas about the `Fwd.Retry` state machine (see SquidModel/Properties/C07.lean for the property theorems).
-/
import SquidModel.Fwd.Retry

namespace SquidModel.Fwd.Retry

/-! ### small facts -/

theorem dispatches_nil : dispatches [] = 0 := rfl
theorem dispatches_append (a b : List Out) : dispatches (a ++ b) = dispatches a + dispatches b := by
  simp [dispatches, List.countP_append]

theorem fail_connectedOkay (s : St) (e : Err) : (fail s e).connectedOkay = s.connectedOkay := by
  unfold fail; dsimp only; split <;> rfl
theorem fail_hdrWait (s : St) (e : Err) : (fail s e).hdrWait = s.hdrWait := by
  unfold fail; dsimp only; split <;> rfl
theorem fail_phase (s : St) (e : Err) : (fail s e).phase = s.phase := by
  unfold fail; dsimp only; split <;> rfl
theorem fail_nTries (s : St) (e : Err) : (fail s e).nTries = s.nTries := by
  unfold fail; dsimp only; split <;> rfl
theorem fail_dontRetry (s : St) (e : Err) : (fail s e).dontRetry = s.dontRetry := by
  unfold fail; dsimp only; split <;> rfl
theorem fail_destinationsFound (s : St) (e : Err) : (fail s e).destinationsFound = s.destinationsFound := by
  unfold fail; dsimp only; split <;> rfl
theorem fail_retriableOpener (s : St) (e : Err) : (fail s e).retriableOpener = s.retriableOpener := by
  unfold fail; dsimp only; split <;> rfl

/-- the gate: once a request was dispatched (`connected_okay`), `checkRetry` needs `checkRetriable` -/
theorem checkRetry_connected (c : Cfg) (r : Req) (s : St) (hc : s.connectedOkay = true)
    (h : checkRetry c r s = true) : checkRetriable r = true := by
  unfold checkRetry at h
  repeat' split at h
  all_goals simp_all

theorem checkRetry_false_of_connected (c : Cfg) (r : Req) (s : St) (hnr : checkRetriable r = false)
    (hc : s.connectedOkay = true) : checkRetry c r s = false := by
  cases h : checkRetry c r s with
  | false => rfl
  | true => have := checkRetry_connected c r s hc h; simp_all

theorem checkRetry_dontRetry (c : Cfg) (r : Req) (s : St) (h : s.dontRetry = true) : checkRetry c r s = false := by
  unfold checkRetry
  repeat' split
  all_goals simp_all

/-- `reforward()` needs ENTRY_FWD_HDR_WAIT -/
theorem reforward_hdrWait (c : Cfg) (r : Req) (s : St) (h : reforward c r s = true) : s.hdrWait = true := by
  unfold reforward at h
  repeat' split at h
  all_goals simp_all

/-! ### the helpers never dispatch -/

/-- nothing was dispatched, `connected_okay` and ENTRY_FWD_HDR_WAIT are untouched, the machine is not in `sent` -/
structure Quiet (s s' : St) (o : List Out) : Prop where
  disp : dispatches o = 0
  conn : s'.connectedOkay = s.connectedOkay
  hdr : s'.hdrWait = s.hdrWait
  notSent : ∀ d b, s'.phase ≠ .sent d b

theorem Quiet.rebase {s1 s s' : St} {o : List Out} (q : Quiet s1 s' o) (hc : s1.connectedOkay = s.connectedOkay)
    (hh : s1.hdrWait = s.hdrWait) : Quiet s s' o :=
  ⟨q.disp, q.conn.trans hc, q.hdr.trans hh, q.notSent⟩

theorem stop_quiet (s0 s : St) (hc : s.connectedOkay = s0.connectedOkay) (hh : s.hdrWait = s0.hdrWait) :
    Quiet s0 (stop s).1 (stop s).2 := by
  refine ⟨by simp [stop, dispatches, isDispatch], by simpa [stop] using hc, by simpa [stop] using hh, ?_⟩
  intro d b; simp [stop]

theorem noteConnectionError_quiet (s : St) : Quiet s (noteConnectionError s).1 (noteConnectionError s).2 := by
  unfold noteConnectionError
  apply stop_quiet
  · rw [fail_connectedOkay]
  · rw [fail_hdrWait]

theorem openerKick_quiet (c : Cfg) (s : St) : Quiet s (openerKick c s).1 (openerKick c s).2 := by
  unfold openerKick
  split
  · exact noteConnectionError_quiet s
  · split
    · split
      · exact ⟨rfl, rfl, rfl, by intro d b; simp⟩
      · exact noteConnectionError_quiet s
    · dsimp only
      split
      · split
        · exact ⟨rfl, rfl, rfl, by intro d b; simp⟩
        · exact ⟨by simp [dispatches, isDispatch], rfl, rfl, by intro d b; simp⟩
      · exact ⟨by simp [dispatches, isDispatch], rfl, rfl, by intro d b; simp⟩

theorem connectStart_quiet (c : Cfg) (r : Req) (s : St) : Quiet s (connectStart c r s).1 (connectStart c r s).2 := by
  unfold connectStart
  exact (openerKick_quiet c _).rebase rfl rfl

theorem useDestinations_quiet (c : Cfg) (r : Req) (s : St) :
    Quiet s (useDestinations c r s).1 (useDestinations c r s).2 := by
  unfold useDestinations
  split
  · exact connectStart_quiet c r s
  · split
    · exact ⟨rfl, rfl, rfl, by intro d b; simp⟩
    · apply stop_quiet
      · split
        · rw [fail_connectedOkay]
        · rfl
      · split
        · rw [fail_hdrWait]
        · rfl

theorem retryOrBail_quiet (c : Cfg) (r : Req) (s : St) : Quiet s (retryOrBail c r s).1 (retryOrBail c r s).2 := by
  unfold retryOrBail
  split
  · exact useDestinations_quiet c r s
  · exact stop_quiet s s rfl rfl

/-- HappyConnOpener's failure answer is `retryOrBail` on a state with `dont_retry` set -/
theorem noteConnectionError_eq (c : Cfg) (r : Req) (s : St) :
    noteConnectionError s = retryOrBail c r (fail { s with dontRetry := true } .connectFail) := by
  unfold noteConnectionError retryOrBail
  rw [checkRetry_dontRetry]
  · rfl
  · rw [fail_dontRetry]

theorem retryOrBail_stops (c : Cfg) (r : Req) (s : St) (h : checkRetry c r s = false) :
    retryOrBail c r s = stop s := by
  unfold retryOrBail; simp [h]

/-! ### the counting argument -/

/-- 1 while a dispatch may still follow without any further re-forward decision -/
def pending (s : St) : Nat :=
  match s.phase with
  | .sent _ _ => 0
  | .stopped => 0
  | _ => 1

theorem pending_le_one (s : St) : pending s ≤ 1 := by
  unfold pending; split <;> omega

theorem pending_stop (s : St) : pending (stop s).1 = 0 := rfl
theorem pending_idle {s : St} (h : s.phase = .idle) : pending s = 1 := by unfold pending; rw [h]
theorem pending_opening {s : St} {x : Option Nat} (h : s.phase = .opening x) : pending s = 1 := by unfold pending; rw [h]
theorem pending_answering {s : St} {d : Nat} {b : Bool} (h : s.phase = .answering d b) : pending s = 1 := by
  unfold pending; rw [h]
theorem pending_sent {s : St} {d : Nat} {b : Bool} (h : s.phase = .sent d b) : pending s = 0 := by
  unfold pending; rw [h]

/-- in `sent` the request has been dispatched, so `connected_okay` is set -/
def SentOk (s : St) : Prop := ∀ d b, s.phase = .sent d b → s.connectedOkay = true

theorem Quiet.sentOk {s s' : St} {o : List Out} (q : Quiet s s' o) : SentOk s' :=
  fun d b h => absurd h (q.notSent d b)

/-- the event is a `complete()` call that `reforward()` answers with yes -/
def isReforward (c : Cfg) (r : Req) (s : St) : Ev → Bool
  | .serverComplete _ =>
    match s.phase with
    | .sent _ _ => reforward c r s
    | _ => false
  | _ => false

/-- number of `complete()` calls along the history that `reforward()` answered with yes -/
def reforwards (c : Cfg) (r : Req) : St → List Ev → Nat
  | _, [] => 0
  | s, e :: es => (if isReforward c r s e then 1 else 0) + reforwards c r (step c r s e).1 es

structure Good (s : St) (rf : Nat) (s' : St) (o : List Out) : Prop where
  bound : dispatches o + pending s' ≤ pending s + rf
  sentOk : SentOk s'

theorem Good.same (s : St) (rf : Nat) (h : SentOk s) : Good s rf s [] :=
  ⟨by simp [dispatches_nil], h⟩

/-- a quiet helper result is fine whenever a dispatch was still pending or a re-forward was granted -/
theorem Quiet.good {s0 s s' : St} {o : List Out} {rf : Nat} (q : Quiet s0 s' o) (h : 1 ≤ pending s + rf) :
    Good s rf s' o :=
  ⟨by have := pending_le_one s'; rw [q.disp]; omega, q.sentOk⟩

theorem dispatch_good (s0 s : St) (d : Nat) (b : Bool) (rf : Nat) (h : pending s0 = 1) :
    Good s0 rf (dispatch s d b).1 (dispatch s d b).2 := by
  refine ⟨?_, ?_⟩
  · rw [h]; simp [dispatch, dispatches, isDispatch, pending]
  · intro d' b' _; simp [dispatch]

theorem stop_good (s0 s : St) (rf : Nat) : Good s0 rf (stop s).1 (stop s).2 := by
  refine ⟨by simp [stop, dispatches, isDispatch, pending], ?_⟩
  intro d b h; simp [stop] at h

theorem isReforward_complete_sent (c : Cfg) (r : Req) {s : St} (keep : Bool) {d : Nat} {b : Bool}
    (h : s.phase = .sent d b) : isReforward c r s (.serverComplete keep) = reforward c r s := by
  simp [isReforward, h]

theorem isReforward_complete_other (c : Cfg) (r : Req) {s : St} (keep : Bool) (h : ∀ d b, s.phase ≠ .sent d b) :
    isReforward c r s (.serverComplete keep) = false := by
  simp only [isReforward]
  split <;> simp_all

/-- `complete()` in `sent` -/
theorem complete_sent (c : Cfg) (r : Req) {s : St} (keep : Bool) {d : Nat} {b : Bool} (h : s.phase = .sent d b) :
    complete c r s keep =
      (if reforward c r s then
        useDestinations c r { (if keep && !s.pinned then { s with pool := d :: s.pool } else s) with
                              receipt := none, entryEmpty := true, status := 0, phase := .idle }
       else stop (if keep && !s.pinned then { s with pool := d :: s.pool } else s)) := by
  unfold complete
  simp only [h]

theorem complete_other (c : Cfg) (r : Req) {s : St} (keep : Bool) (h : ∀ d b, s.phase ≠ .sent d b) :
    complete c r s keep = (s, []) := by
  unfold complete
  split
  · rename_i d b h'; exact absurd h' (h d b)
  · rfl

theorem step_good (c : Cfg) (r : Req) (s : St) (e : Ev) (hnr : checkRetriable r = false) (hs : SentOk s) :
    Good s (if isReforward c r s e then 1 else 0) (step c r s e).1 (step c r s e).2 := by
  cases e with
  | noteDestination d =>
    simp only [step, isReforward, Bool.false_eq_true, ↓reduceIte]
    split
    · exact Good.same s _ hs
    · unfold noteDestination
      split
      · exact Good.same s _ hs
      · dsimp only
        split
        · rename_i h; exact (openerKick_quiet c _).good (by first | (rw [pending_opening h]; omega) | (rw [pending_idle h]; omega))
        · exact ⟨by simp_all [dispatches_nil, pending], fun d b h => by simp_all⟩
        · exact ⟨by simp_all [dispatches_nil, pending], fun d b h => by simp_all⟩
        · rename_i h
          refine ⟨by simp_all [dispatches_nil, pending], fun d b h' => ?_⟩
          exact hs _ _ h
        · rename_i h; exact (useDestinations_quiet c r _).good (by first | (rw [pending_opening h]; omega) | (rw [pending_idle h]; omega))
        · exact ⟨by simp_all [dispatches_nil, pending], fun d b h => by simp_all⟩
  | notePinned ok =>
    simp only [step, isReforward, Bool.false_eq_true, ↓reduceIte]
    unfold usePinned
    split
    · rename_i h
      have hp : pending s = 1 := by simp_all [pending]
      dsimp only
      split
      · exact dispatch_good s _ 0 true _ hp
      · exact stop_good s _ _
    · exact Good.same s _ hs
  | noteDestinationsEnd =>
    simp only [step, isReforward, Bool.false_eq_true, ↓reduceIte]
    split
    · exact Good.same s _ hs
    · unfold noteDestinationsEnd
      split
      · exact Good.same s _ hs
      · dsimp only
        split
        · split
          · exact stop_good s _ _
          · refine ⟨by simp [dispatches_nil, pending], fun d b h => ?_⟩
            exact hs d b h
        · split
          · rename_i h; exact (openerKick_quiet c _).good (by first | (rw [pending_opening h]; omega) | (rw [pending_idle h]; omega))
          · refine ⟨by simp [dispatches_nil, pending], fun d b h => ?_⟩
            exact hs d b h
          · refine ⟨by simp [dispatches_nil, pending], fun d b h => ?_⟩
            exact hs d b h
          · refine ⟨by simp [dispatches_nil, pending], fun d b h => ?_⟩
            exact hs d b h
          · exact stop_good s _ _
          · refine ⟨by simp [dispatches_nil, pending], fun d b h => ?_⟩
            exact hs d b h
  | connectDone ok =>
    simp only [step, isReforward, Bool.false_eq_true, ↓reduceIte]
    unfold connectDone
    split
    · rename_i d h
      dsimp only
      split
      · refine ⟨by simp [dispatches_nil, pending, h], fun d b h' => by simp at h'⟩
      · exact (openerKick_quiet c _).good (by first | (rw [pending_opening h]; omega) | (rw [pending_idle h]; omega))
    · exact Good.same s _ hs
  | noteConnection o =>
    simp only [step, isReforward, Bool.false_eq_true, ↓reduceIte]
    unfold noteConnection
    split
    · rename_i d b h
      have hp : pending s = 1 := by simp [pending, h]
      split
      · exact dispatch_good s _ d b _ hp
      · dsimp only
        exact (retryOrBail_quiet c r _).good (by omega)
    · exact Good.same s _ hs
  | tick => exact ⟨by simp [step, dispatches_nil, pending], fun d b h => hs d b h⟩
  | shutdown => exact ⟨by simp [step, dispatches_nil, pending], fun d b h => hs d b h⟩
  | storeAbort =>
    simp only [step, isReforward, Bool.false_eq_true, ↓reduceIte]
    split
    · exact Good.same s _ hs
    · exact stop_good s _ _
  | bodyConsumed =>
    simp only [step, isReforward, Bool.false_eq_true, ↓reduceIte]
    split
    · rename_i d b h
      exact ⟨by simp [dispatches_nil, pending, h], fun d' b' _ => hs d b h⟩
    · exact Good.same s _ hs
  | replyHeaders st =>
    simp only [step, isReforward, Bool.false_eq_true, ↓reduceIte]
    split
    · rename_i d b h
      exact ⟨by simp [dispatches_nil, pending, h], fun d' b' _ => hs d b h⟩
    · exact Good.same s _ hs
  | bufferedTooMuch =>
    simp only [step, isReforward, Bool.false_eq_true, ↓reduceIte]
    split
    · rename_i d b h
      exact ⟨by simp [dispatches_nil, pending, h], fun d' b' _ => hs d b h⟩
    · exact Good.same s _ hs
  | serverFailed f dr =>
    simp only [step, isReforward, Bool.false_eq_true, ↓reduceIte]
    unfold serverEnd
    split
    · rename_i d b h
      have hc : s.connectedOkay = true := hs d b h
      dsimp only
      rw [retryOrBail_stops]
      · exact stop_good s _ _
      · apply checkRetry_false_of_connected c r _ hnr
        cases f <;> simp [fail_connectedOkay, hc]
    · exact Good.same s _ hs
  | serverComplete keep =>
    show Good s (if isReforward c r s (.serverComplete keep) then 1 else 0) (complete c r s keep).1 (complete c r s keep).2
    by_cases hx : ∃ d b, s.phase = .sent d b
    · obtain ⟨d, b, hph⟩ := hx
      rw [isReforward_complete_sent c r keep hph, complete_sent c r keep hph]
      have hp0 : pending s = 0 := pending_sent hph
      by_cases hr : reforward c r s = true
      · simp only [hr, ↓reduceIte]
        exact (useDestinations_quiet c r _).good (by omega)
      · simp only [hr]
        exact stop_good s _ _
    · have hx' : ∀ d b, s.phase ≠ .sent d b := fun d b h => hx ⟨d, b, h⟩
      rw [isReforward_complete_other c r keep hx', complete_other c r keep hx']
      exact Good.same s _ hs

end SquidModel.Fwd.Retry
