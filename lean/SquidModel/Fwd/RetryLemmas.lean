/-
C07 lemmas about the `Fwd.Retry` state machine (see SquidModel/Properties/C07.lean for the property theorems).
-/
import SquidModel.Fwd.Retry

namespace SquidModel.Fwd.Retry

/-! ### small facts -/

theorem dispatches_nil : dispatches [] = 0 := rfl
theorem dispatches_append (a b : List Out) : dispatches (a ++ b) = dispatches a + dispatches b := by
  simp [dispatches, List.countP_append]

theorem fail_connectedOkay (s : St) (e : Err) : (fail s e).connectedOkay = s.connectedOkay := by
  unfold fail; dsimp only; split <;> rfl
theorem fail_hdrWait (s : St) (e : Err) : (fail s e).hdrWait = s.hdrWait := by
  unfold fail; dsimp only; split <;> rfl
theorem fail_phase (s : St) (e : Err) : (fail s e).phase = s.phase := by
  unfold fail; dsimp only; split <;> rfl
theorem fail_nTries (s : St) (e : Err) : (fail s e).nTries = s.nTries := by
  unfold fail; dsimp only; split <;> rfl
theorem fail_dontRetry (s : St) (e : Err) : (fail s e).dontRetry = s.dontRetry := by
  unfold fail; dsimp only; split <;> rfl
theorem fail_destinationsFound (s : St) (e : Err) : (fail s e).destinationsFound = s.destinationsFound := by
  unfold fail; dsimp only; split <;> rfl
theorem fail_retriableOpener (s : St) (e : Err) : (fail s e).retriableOpener = s.retriableOpener := by
  unfold fail; dsimp only; split <;> rfl

/-- the gate: once a request was dispatched (`connected_okay`), `checkRetry` needs `checkRetriable` -/
theorem checkRetry_connected (c : Cfg) (r : Req) (s : St) (hc : s.connectedOkay = true)
    (h : checkRetry c r s = true) : checkRetriable r = true := by
  unfold checkRetry at h
  repeat' split at h
  all_goals simp_all

theorem checkRetry_false_of_connected (c : Cfg) (r : Req) (s : St) (hnr : checkRetriable r = false)
    (hc : s.connectedOkay = true) : checkRetry c r s = false := by
  cases h : checkRetry c r s with
  | false => rfl
  | true => have := checkRetry_connected c r s hc h; simp_all

theorem checkRetry_dontRetry (c : Cfg) (r : Req) (s : St) (h : s.dontRetry = true) : checkRetry c r s = false := by
  unfold checkRetry
  repeat' split
  all_goals simp_all

/-- `reforward()` needs ENTRY_FWD_HDR_WAIT -/
theorem reforward_hdrWait (c : Cfg) (r : Req) (s : St) (h : reforward c r s = true) : s.hdrWait = true := by
  unfold reforward at h
  repeat' split at h
  all_goals simp_all

/-! ### the helpers never dispatch -/

/-- nothing was dispatched, `connected_okay` and ENTRY_FWD_HDR_WAIT are untouched, the machine is not in `sent` -/
structure Quiet (s s' : St) (o : List Out) : Prop where
  disp : dispatches o = 0
  conn : s'.connectedOkay = s.connectedOkay
  hdr : s'.hdrWait = s.hdrWait
  notSent : ∀ d b, s'.phase ≠ .sent d b

theorem Quiet.rebase {s1 s s' : St} {o : List Out} (q : Quiet s1 s' o) (hc : s1.connectedOkay = s.connectedOkay)
    (hh : s1.hdrWait = s.hdrWait) : Quiet s s' o :=
  ⟨q.disp, q.conn.trans hc, q.hdr.trans hh, q.notSent⟩

theorem stop_quiet (s0 s : St) (hc : s.connectedOkay = s0.connectedOkay) (hh : s.hdrWait = s0.hdrWait) :
    Quiet s0 (stop s).1 (stop s).2 := by
  refine ⟨by simp [stop, dispatches, isDispatch], by simpa [stop] using hc, by simpa [stop] using hh, ?_⟩
  intro d b; simp [stop]

theorem noteConnectionError_quiet (s : St) : Quiet s (noteConnectionError s).1 (noteConnectionError s).2 := by
  unfold noteConnectionError
  apply stop_quiet
  · rw [fail_connectedOkay]
  · rw [fail_hdrWait]

theorem openerKick_quiet (c : Cfg) (s : St) : Quiet s (openerKick c s).1 (openerKick c s).2 := by
  unfold openerKick
  split
  · exact noteConnectionError_quiet s
  · split
    · split
      · exact ⟨rfl, rfl, rfl, by intro d b; simp⟩
      · exact noteConnectionError_quiet s
    · dsimp only
      split
      · split
        · exact ⟨rfl, rfl, rfl, by intro d b; simp⟩
        · exact ⟨by simp [dispatches, isDispatch], rfl, rfl, by intro d b; simp⟩
      · exact ⟨by simp [dispatches, isDispatch], rfl, rfl, by intro d b; simp⟩

theorem connectStart_quiet (c : Cfg) (r : Req) (s : St) : Quiet s (connectStart c r s).1 (connectStart c r s).2 := by
  unfold connectStart
  exact (openerKick_quiet c _).rebase rfl rfl

theorem useDestinations_quiet (c : Cfg) (r : Req) (s : St) :
    Quiet s (useDestinations c r s).1 (useDestinations c r s).2 := by
  unfold useDestinations
  split
  · exact connectStart_quiet c r s
  · split
    · exact ⟨rfl, rfl, rfl, by intro d b; simp⟩
    · apply stop_quiet
      · split
        · rw [fail_connectedOkay]
        · rfl
      · split
        · rw [fail_hdrWait]
        · rfl

theorem retryOrBail_quiet (c : Cfg) (r : Req) (s : St) : Quiet s (retryOrBail c r s).1 (retryOrBail c r s).2 := by
  unfold retryOrBail
  split
  · exact useDestinations_quiet c r s
  · exact stop_quiet s s rfl rfl

/-- HappyConnOpener's failure answer is `retryOrBail` on a state with `dont_retry` set -/
theorem noteConnectionError_eq (c : Cfg) (r : Req) (s : St) :
    noteConnectionError s = retryOrBail c r (fail { s with dontRetry := true } .connectFail) := by
  unfold noteConnectionError retryOrBail
  rw [checkRetry_dontRetry]
  · rfl
  · rw [fail_dontRetry]

theorem retryOrBail_stops (c : Cfg) (r : Req) (s : St) (h : checkRetry c r s = false) :
    retryOrBail c r s = stop s := by
  unfold retryOrBail; simp [h]

/-! ### the counting argument -/

/-- 1 while a dispatch may still follow without any further re-forward decision -/
def pending (s : St) : Nat :=
  match s.phase with
  | .sent _ _ => 0
  | .stopped => 0
  | _ => 1

theorem pending_le_one (s : St) : pending s ≤ 1 := by
  unfold pending; split <;> omega

theorem pending_stop (s : St) : pending (stop s).1 = 0 := rfl
theorem pending_idle {s : St} (h : s.phase = .idle) : pending s = 1 := by unfold pending; rw [h]
theorem pending_opening {s : St} {x : Option Nat} (h : s.phase = .opening x) : pending s = 1 := by unfold pending; rw [h]
theorem pending_answering {s : St} {d : Nat} {b : Bool} (h : s.phase = .answering d b) : pending s = 1 := by
  unfold pending; rw [h]
theorem pending_sent {s : St} {d : Nat} {b : Bool} (h : s.phase = .sent d b) : pending s = 0 := by
  unfold pending; rw [h]

/-- in `sent` the request has been dispatched, so `connected_okay` is set -/
def SentOk (s : St) : Prop := ∀ d b, s.phase = .sent d b → s.connectedOkay = true

theorem Quiet.sentOk {s s' : St} {o : List Out} (q : Quiet s s' o) : SentOk s' :=
  fun d b h => absurd h (q.notSent d b)

/-- the event is a `complete()` call that `reforward()` answers with yes -/
def isReforward (c : Cfg) (r : Req) (s : St) : Ev → Bool
  | .serverComplete _ =>
    match s.phase with
    | .sent _ _ => reforward c r s
    | _ => false
  | _ => false

/-- number of `complete()` calls along the history that `reforward()` answered with yes -/
def reforwards (c : Cfg) (r : Req) : St → List Ev → Nat
  | _, [] => 0
  | s, e :: es => (if isReforward c r s e then 1 else 0) + reforwards c r (step c r s e).1 es

structure Good (s : St) (rf : Nat) (s' : St) (o : List Out) : Prop where
  bound : dispatches o + pending s' ≤ pending s + rf
  sentOk : SentOk s'

theorem Good.same (s : St) (rf : Nat) (h : SentOk s) : Good s rf s [] :=
  ⟨by simp [dispatches_nil], h⟩

/-- a quiet helper result is fine whenever a dispatch was still pending or a re-forward was granted -/
theorem Quiet.good {s0 s s' : St} {o : List Out} {rf : Nat} (q : Quiet s0 s' o) (h : 1 ≤ pending s + rf) :
    Good s rf s' o :=
  ⟨by have := pending_le_one s'; rw [q.disp]; omega, q.sentOk⟩

theorem dispatch_good (s0 s : St) (d : Nat) (b : Bool) (rf : Nat) (h : pending s0 = 1) :
    Good s0 rf (dispatch s d b).1 (dispatch s d b).2 := by
  refine ⟨?_, ?_⟩
  · rw [h]; simp [dispatch, dispatches, isDispatch, pending]
  · intro d' b' _; simp [dispatch]

theorem stop_good (s0 s : St) (rf : Nat) : Good s0 rf (stop s).1 (stop s).2 := by
  refine ⟨by simp [stop, dispatches, isDispatch, pending], ?_⟩
  intro d b h; simp [stop] at h

theorem isReforward_complete_sent (c : Cfg) (r : Req) {s : St} (keep : Bool) {d : Nat} {b : Bool}
    (h : s.phase = .sent d b) : isReforward c r s (.serverComplete keep) = reforward c r s := by
  simp [isReforward, h]

theorem isReforward_complete_other (c : Cfg) (r : Req) {s : St} (keep : Bool) (h : ∀ d b, s.phase ≠ .sent d b) :
    isReforward c r s (.serverComplete keep) = false := by
  simp only [isReforward]

/-- `complete()` in `sent` -/
theorem complete_sent (c : Cfg) (r : Req) {s : St} (keep : Bool) {d : Nat} {b : Bool} (h : s.phase = .sent d b) :
    complete c r s keep =
      (if reforward c r s then
        useDestinations c r { (if keep && !s.pinned then { s with pool := d :: s.pool } else s) with
                              receipt := none, entryEmpty := true, status := 0, phase := .idle }
       else stop (if keep && !s.pinned then { s with pool := d :: s.pool } else s)) := by
  unfold complete
  simp only [h]

theorem complete_other (c : Cfg) (r : Req) {s : St} (keep : Bool) (h : ∀ d b, s.phase ≠ .sent d b) :
    complete c r s keep = (s, []) := by
  unfold complete
  split
  · rename_i d b h'; exact absurd h' (h d b)
  · rfl

theorem step_good (c : Cfg) (r : Req) (s : St) (e : Ev) (hnr : checkRetriable r = false) (hs : SentOk s) :
    Good s (if isReforward c r s e then 1 else 0) (step c r s e).1 (step c r s e).2 := by
  cases e with
  | noteDestination d =>
    simp only [step, isReforward, Bool.false_eq_true, ↓reduceIte]
    split
    · exact Good.same s _ hs
    · unfold noteDestination
      split
      · exact Good.same s _ hs
      · dsimp only
        split
        · rename_i h; exact (openerKick_quiet c _).good (by first | (rw [pending_opening h]; omega) | (rw [pending_idle h]; omega))
        · exact ⟨by simp_all [pending, dispatches_nil], fun d b h => by simp_all⟩
        · exact ⟨by simp_all [pending, dispatches_nil], fun d b h => by simp_all⟩
        · rename_i h
          refine ⟨by simp_all [dispatches_nil, pending], fun d b h' => ?_⟩
          exact hs _ _ h
        · rename_i h; exact (useDestinations_quiet c r _).good (by first | (rw [pending_opening h]; omega) | (rw [pending_idle h]; omega))
        · exact ⟨by simp_all [pending, dispatches_nil], fun d b h => by simp_all⟩
  | notePinned ok =>
    simp only [step, isReforward, Bool.false_eq_true, ↓reduceIte]
    unfold usePinned
    split
    · rename_i h
      have hp : pending s = 1 := by simp_all [pending]
      dsimp only
      split
      · exact dispatch_good s _ 0 true _ hp
      · exact stop_good s _ _
    · exact Good.same s _ hs
  | noteDestinationsEnd =>
    simp only [step, isReforward, Bool.false_eq_true, ↓reduceIte]
    split
    · exact Good.same s _ hs
    · unfold noteDestinationsEnd
      split
      · exact Good.same s _ hs
      · dsimp only
        split
        · split
          · exact stop_good s _ _
          · refine ⟨by simp [dispatches_nil, pending], fun d b h => ?_⟩
            exact hs d b h
        · split
          · rename_i h; exact (openerKick_quiet c _).good (by first | (rw [pending_opening h]; omega) | (rw [pending_idle h]; omega))
          · refine ⟨by simp [dispatches_nil, pending], fun d b h => ?_⟩
            exact hs d b h
          · refine ⟨by simp [dispatches_nil, pending], fun d b h => ?_⟩
            exact hs d b h
          · refine ⟨by simp [dispatches_nil, pending], fun d b h => ?_⟩
            exact hs d b h
          · exact stop_good s _ _
          · refine ⟨by simp [dispatches_nil, pending], fun d b h => ?_⟩
            exact hs d b h
  | connectDone ok =>
    simp only [step, isReforward, Bool.false_eq_true, ↓reduceIte]
    unfold connectDone
    split
    · rename_i d h
      dsimp only
      split
      · refine ⟨by simp [dispatches_nil, pending, h], fun d b h' => by simp at h'⟩
      · exact (openerKick_quiet c _).good (by first | (rw [pending_opening h]; omega) | (rw [pending_idle h]; omega))
    · exact Good.same s _ hs
  | noteConnection o =>
    simp only [step, isReforward, Bool.false_eq_true, ↓reduceIte]
    unfold noteConnection
    split
    · rename_i d b h
      have hp : pending s = 1 := by simp [pending, h]
      split
      · exact dispatch_good s _ d b _ hp
      · dsimp only
        exact (retryOrBail_quiet c r _).good (by omega)
    · exact Good.same s _ hs
  | tick => exact ⟨by simp [step, dispatches_nil, pending], fun d b h => hs d b h⟩
  | shutdown => exact ⟨by simp [step, dispatches_nil, pending], fun d b h => hs d b h⟩
  | storeAbort =>
    simp only [step, isReforward, Bool.false_eq_true, ↓reduceIte]
    split
    · exact Good.same s _ hs
    · exact stop_good s _ _
  | bodyConsumed =>
    simp only [step, isReforward, Bool.false_eq_true, ↓reduceIte]
    split
    · rename_i d b h
      exact ⟨by simp [dispatches_nil, pending, h], fun d' b' _ => hs d b h⟩
    · exact Good.same s _ hs
  | replyHeaders st =>
    simp only [step, isReforward, Bool.false_eq_true, ↓reduceIte]
    split
    · rename_i d b h
      exact ⟨by simp [dispatches_nil, pending, h], fun d' b' _ => hs d b h⟩
    · exact Good.same s _ hs
  | bufferedTooMuch =>
    simp only [step, isReforward, Bool.false_eq_true, ↓reduceIte]
    split
    · rename_i d b h
      exact ⟨by simp [dispatches_nil, pending, h], fun d' b' _ => hs d b h⟩
    · exact Good.same s _ hs
  | serverFailed f dr =>
    simp only [step, isReforward, Bool.false_eq_true, ↓reduceIte]
    unfold serverEnd
    split
    · rename_i d b h
      have hc : s.connectedOkay = true := hs d b h
      dsimp only
      rw [retryOrBail_stops]
      · exact stop_good s _ _
      · apply checkRetry_false_of_connected c r _ hnr
        cases f <;> simp [fail_connectedOkay, hc]
    · exact Good.same s _ hs
  | serverComplete keep =>
    show Good s (if isReforward c r s (.serverComplete keep) then 1 else 0) (complete c r s keep).1 (complete c r s keep).2
    by_cases hx : ∃ d b, s.phase = .sent d b
    · obtain ⟨d, b, hph⟩ := hx
      rw [isReforward_complete_sent c r keep hph, complete_sent c r keep hph]
      have hp0 : pending s = 0 := pending_sent hph
      by_cases hr : reforward c r s = true
      · simp only [hr, ↓reduceIte]
        exact (useDestinations_quiet c r _).good (by omega)
      · simp only [hr]
        exact stop_good s _ _
    · have hx' : ∀ d b, s.phase ≠ .sent d b := fun d b h => hx ⟨d, b, h⟩
      rw [isReforward_complete_other c r keep hx', complete_other c r keep hx']
      exact Good.same s _ hs

/-- the counting invariant over a whole history -/
theorem run_good (c : Cfg) (r : Req) (hnr : checkRetriable r = false) :
    ∀ (evs : List Ev) (s : St), SentOk s →
      dispatches (run c r s evs).2 + pending (run c r s evs).1 ≤ pending s + reforwards c r s evs
  | [], s, _ => by simp [run, reforwards, dispatches_nil]
  | e :: es, s, hs => by
    have g := step_good c r s e hnr hs
    have ih := run_good c r hnr es (step c r s e).1 g.sentOk
    have hb := g.bound
    simp only [run, reforwards, dispatches_append]
    omega

/-! ### ENTRY_FWD_HDR_WAIT is only set by a reply with a re-forwardable status -/

@[simp] theorem stop_hdr (s : St) : (stop s).1.hdrWait = s.hdrWait := rfl
@[simp] theorem dispatch_hdr (s : St) (d : Nat) (b : Bool) : (dispatch s d b).1.hdrWait = s.hdrWait := rfl
@[simp] theorem openerKick_hdr (c : Cfg) (s : St) : (openerKick c s).1.hdrWait = s.hdrWait := (openerKick_quiet c s).hdr
@[simp] theorem useDestinations_hdr (c : Cfg) (r : Req) (s : St) : (useDestinations c r s).1.hdrWait = s.hdrWait :=
  (useDestinations_quiet c r s).hdr
@[simp] theorem retryOrBail_hdr (c : Cfg) (r : Req) (s : St) : (retryOrBail c r s).1.hdrWait = s.hdrWait :=
  (retryOrBail_quiet c r s).hdr

theorem step_hdrWait (c : Cfg) (r : Req) (s : St) (e : Ev) (h : s.hdrWait = false)
    (he : ∀ st, e = .replyHeaders st → isReforwardableStatus c st = false) : (step c r s e).1.hdrWait = false := by
  cases e with
  | noteDestination d =>
    simp only [step, noteDestination]
    repeat' split
    all_goals simp [h]
  | notePinned ok =>
    simp only [step, usePinned]
    repeat' split
    all_goals simp [h, fail_hdrWait]
  | noteDestinationsEnd =>
    simp only [step, noteDestinationsEnd]
    repeat' split
    all_goals simp [h, fail_hdrWait]
  | connectDone ok =>
    simp only [step, connectDone]
    repeat' split
    all_goals simp [h]
  | noteConnection o =>
    simp only [step, noteConnection]
    repeat' split
    all_goals simp [h, fail_hdrWait]
  | tick => simpa [step] using h
  | shutdown => simpa [step] using h
  | storeAbort =>
    simp only [step]
    repeat' split
    all_goals simp [h]
  | bodyConsumed =>
    simp only [step]
    repeat' split
    all_goals simp [h]
  | replyHeaders st =>
    have := he st rfl
    simp only [step]
    repeat' split
    all_goals simp [h, this]
  | bufferedTooMuch =>
    simp only [step]
    repeat' split
    all_goals simp [h]
  | serverFailed f dr =>
    simp only [step, serverEnd]
    repeat' split
    all_goals simp [h, fail_hdrWait]
  | serverComplete keep =>
    simp only [step, complete]
    repeat' split
    all_goals simp [h]

/-- without such a reply no `complete()` is ever answered by a re-forward -/
theorem reforwards_zero (c : Cfg) (r : Req) :
    ∀ (evs : List Ev) (s : St), s.hdrWait = false →
      (∀ st, Ev.replyHeaders st ∈ evs → isReforwardableStatus c st = false) → reforwards c r s evs = 0
  | [], _, _, _ => rfl
  | e :: es, s, h, hall => by
    have h1 : (step c r s e).1.hdrWait = false :=
      step_hdrWait c r s e h (fun st hst => hall st (by simp [hst]))
    have ih := reforwards_zero c r es (step c r s e).1 h1 (fun st hst => hall st (by simp [hst]))
    have h0 : isReforward c r s e = false := by
      cases e <;> simp only [isReforward]
      split
      · cases hr : reforward c r s with
        | false => rfl
        | true => have := reforward_hdrWait c r s hr; simp [h] at this
      · rfl
    simp [reforwards, h0, ih]

/-! ### a transaction that is not retriable never rides a reused pconn -/

theorem not_mem_of_dispatches_zero {o : List Out} (h : dispatches o = 0) (d : Nat) (b : Bool) : Out.dispatch d b ∉ o := by
  intro hm
  have : 0 < dispatches o := by
    unfold dispatches
    exact List.countP_pos_iff.mpr ⟨_, hm, rfl⟩
  omega

/-- the opener (if any) was told "not retriable", and no reused connection is waiting to be dispatched -/
structure NoReuse (s : St) : Prop where
  opener : ∀ x, s.phase = .opening x → s.retriableOpener = false
  answer : ∀ d, s.phase ≠ .answering d true

theorem NoReuse.of_phase {s : St} (h1 : ∀ x, s.phase ≠ .opening x) (h2 : ∀ d b, s.phase ≠ .answering d b) : NoReuse s :=
  ⟨fun x h => absurd h (h1 x), fun d => h2 d true⟩

theorem stop_noReuse (s : St) : NoReuse (stop s).1 := NoReuse.of_phase (by simp [stop]) (by simp [stop])

theorem openerKick_noReuse (c : Cfg) (s : St) (h : s.retriableOpener = false) : NoReuse (openerKick c s).1 := by
  unfold openerKick
  split
  · exact stop_noReuse _
  · split
    · split
      · exact ⟨fun x _ => h, fun d => by simp⟩
      · exact stop_noReuse _
    · dsimp only
      split
      · split
        · rename_i h'; simp [h] at h'
        · exact ⟨fun x _ => h, fun d => by simp⟩
      · exact ⟨fun x _ => h, fun d => by simp⟩

theorem connectStart_noReuse (c : Cfg) (r : Req) (s : St) (hR : (checkRetriable r || c.pconnForNonretriable) = false) :
    NoReuse (connectStart c r s).1 := by
  unfold connectStart
  exact openerKick_noReuse c _ hR

theorem useDestinations_noReuse (c : Cfg) (r : Req) (s : St) (hR : (checkRetriable r || c.pconnForNonretriable) = false) :
    NoReuse (useDestinations c r s).1 := by
  unfold useDestinations
  repeat' split
  all_goals first
    | exact connectStart_noReuse c r _ hR
    | exact stop_noReuse _
    | exact NoReuse.of_phase (by simp) (by simp)

theorem retryOrBail_noReuse (c : Cfg) (r : Req) (s : St) (hR : (checkRetriable r || c.pconnForNonretriable) = false) :
    NoReuse (retryOrBail c r s).1 := by
  unfold retryOrBail
  split
  · exact useDestinations_noReuse c r s hR
  · exact stop_noReuse s

theorem dispatch_noReuse (s : St) (d : Nat) (b : Bool) : NoReuse (dispatch s d b).1 :=
  NoReuse.of_phase (by simp [dispatch]) (by simp [dispatch])

theorem step_noReuse (c : Cfg) (r : Req) (s : St) (e : Ev) (hR : (checkRetriable r || c.pconnForNonretriable) = false)
    (hp : e ≠ .notePinned true) (hs : NoReuse s) :
    NoReuse (step c r s e).1 ∧ ∀ d, Out.dispatch d true ∉ (step c r s e).2 := by
  cases e with
  | noteDestination d =>
    simp only [step]
    split
    · exact ⟨hs, by simp⟩
    · unfold noteDestination
      split
      · exact ⟨hs, by simp⟩
      · dsimp only
        split
        · rename_i h
          exact ⟨openerKick_noReuse c _ (hs.opener _ h), fun d => not_mem_of_dispatches_zero (openerKick_quiet c _).disp d true⟩
        · rename_i h; exact ⟨⟨fun x hx => hs.opener _ h, fun d => by simp_all⟩, by simp⟩
        · rename_i h; exact ⟨⟨fun x hx => by simp_all, fun d hd => hs.answer d (by simp_all)⟩, by simp⟩
        · rename_i h; exact ⟨NoReuse.of_phase (by simp_all) (by simp_all), by simp⟩
        · exact ⟨useDestinations_noReuse c r _ hR, fun d => not_mem_of_dispatches_zero (useDestinations_quiet c r _).disp d true⟩
        · rename_i h; exact ⟨NoReuse.of_phase (by simp_all) (by simp_all), by simp⟩
  | notePinned ok =>
    cases ok with
    | true => exact absurd rfl hp
    | false =>
      simp only [step, usePinned]
      split
      · exact ⟨stop_noReuse _, by simp [stop]⟩
      · exact ⟨hs, by simp⟩
  | noteDestinationsEnd =>
    simp only [step]
    split
    · exact ⟨hs, by simp⟩
    · unfold noteDestinationsEnd
      split
      · exact ⟨hs, by simp⟩
      · dsimp only
        split
        · split
          · exact ⟨stop_noReuse _, by simp [stop]⟩
          · exact ⟨⟨fun x hx => hs.opener x hx, fun d hd => hs.answer d hd⟩, by simp⟩
        · split
          · rename_i h
            exact ⟨openerKick_noReuse c _ (hs.opener _ h), fun d => not_mem_of_dispatches_zero (openerKick_quiet c _).disp d true⟩
          · exact ⟨⟨fun x hx => hs.opener x hx, fun d hd => hs.answer d hd⟩, by simp⟩
          · exact ⟨⟨fun x hx => hs.opener x hx, fun d hd => hs.answer d hd⟩, by simp⟩
          · exact ⟨⟨fun x hx => hs.opener x hx, fun d hd => hs.answer d hd⟩, by simp⟩
          · exact ⟨stop_noReuse _, by simp [stop]⟩
          · exact ⟨⟨fun x hx => hs.opener x hx, fun d hd => hs.answer d hd⟩, by simp⟩
  | connectDone ok =>
    simp only [step]
    unfold connectDone
    split
    · rename_i d h
      dsimp only
      split
      · exact ⟨⟨fun x hx => by simp at hx, fun d' hd => by simp_all⟩, by simp⟩
      · exact ⟨openerKick_noReuse c _ (hs.opener _ h), fun d => not_mem_of_dispatches_zero (openerKick_quiet c _).disp d true⟩
    · exact ⟨hs, by simp⟩
  | noteConnection o =>
    simp only [step]
    unfold noteConnection
    split
    · rename_i d b h
      have hb : b = false := by
        cases b with
        | false => rfl
        | true => exact absurd h (hs.answer d)
      subst hb
      split
      · exact ⟨dispatch_noReuse _ _ _, by simp [dispatch]⟩
      · dsimp only
        exact ⟨retryOrBail_noReuse c r _ hR, fun d => not_mem_of_dispatches_zero (retryOrBail_quiet c r _).disp d true⟩
    · exact ⟨hs, by simp⟩
  | tick => exact ⟨⟨fun x hx => hs.opener x hx, fun d hd => hs.answer d hd⟩, by simp [step]⟩
  | shutdown => exact ⟨⟨fun x hx => hs.opener x hx, fun d hd => hs.answer d hd⟩, by simp [step]⟩
  | storeAbort =>
    simp only [step]
    split
    · exact ⟨hs, by simp⟩
    · exact ⟨stop_noReuse _, by simp [stop]⟩
  | bodyConsumed =>
    simp only [step]
    split
    · rename_i h; exact ⟨NoReuse.of_phase (by simp_all) (by simp_all), by simp⟩
    · exact ⟨hs, by simp⟩
  | replyHeaders st =>
    simp only [step]
    split
    · rename_i h; exact ⟨NoReuse.of_phase (by simp_all) (by simp_all), by simp⟩
    · exact ⟨hs, by simp⟩
  | bufferedTooMuch =>
    simp only [step]
    split
    · rename_i h; exact ⟨NoReuse.of_phase (by simp_all) (by simp_all), by simp⟩
    · exact ⟨hs, by simp⟩
  | serverFailed f dr =>
    simp only [step]
    unfold serverEnd
    split
    · dsimp only
      exact ⟨retryOrBail_noReuse c r _ hR, fun d => not_mem_of_dispatches_zero (retryOrBail_quiet c r _).disp d true⟩
    · exact ⟨hs, by simp⟩
  | serverComplete keep =>
    simp only [step]
    unfold complete
    split
    · dsimp only
      split
      · exact ⟨useDestinations_noReuse c r _ hR, fun d => not_mem_of_dispatches_zero (useDestinations_quiet c r _).disp d true⟩
      · exact ⟨stop_noReuse _, by simp [stop]⟩
    · exact ⟨hs, by simp⟩

theorem run_noReuse (c : Cfg) (r : Req) (hR : (checkRetriable r || c.pconnForNonretriable) = false) :
    ∀ (evs : List Ev) (s : St), NoReuse s → (∀ e ∈ evs, e ≠ .notePinned true) →
      ∀ d, Out.dispatch d true ∉ (run c r s evs).2
  | [], _, _, _, d => by simp [run]
  | e :: es, s, hs, hp, d => by
    have h1 := step_noReuse c r s e hR (hp e (by simp)) hs
    have ih := run_noReuse c r hR es (step c r s e).1 h1.1 (fun e' he' => hp e' (by simp [he'])) d
    simp only [run, List.mem_append, not_or]
    exact ⟨h1.2 d, ih⟩

/-! ### after a pconn race the same destination is retried on a fresh connection -/

theorem race_retry_fresh (c : Cfg) (r : Req) (s : St) (d : Nat) (dr : Bool)
    (hph : s.phase = .sent d true) (hrace : s.race = .possible) (hrec : s.receipt = some d) :
    (step c r s (.serverFailed .zero dr)).1.phase = .stopped ∨
    ((step c r s (.serverFailed .zero dr)).1.phase = .opening (some d) ∧
      Out.connect d ∈ (step c r s (.serverFailed .zero dr)).2 ∧
      (step c r s (.serverFailed .zero dr)).1.allowPconn = false) := by
  simp only [step, serverEnd, hph]
  simp only [fail, hrace, hrec, and_self, ↓reduceIte]
  unfold retryOrBail
  split
  · right
    simp only [useDestinations, List.isEmpty_cons, Bool.not_false, ↓reduceIte, connectStart]
    simp only [openerKick]
    split
    · rename_i hx
      -- checkRetry said yes, so tries and time are left
      rename_i hcr
      exfalso
      unfold checkRetry at hcr
      simp only [exhaustedTries] at hx hcr
      repeat' split at hcr
      all_goals simp_all
    · simp
  · left
    simp [stop]

/-! ### forward_max_tries bounds the number of dispatches -/

/-- 1 while a successful opener answer is queued -/
def ans (s : St) : Nat :=
  match s.phase with
  | .answering _ _ => 1
  | _ => 0

theorem ans_le_one (s : St) : ans s ≤ 1 := by unfold ans; split <;> omega

/-- `k` dispatches so far: each one (and the queued answer, if any) has been counted in `n_tries`; attempts are only
started while `n_tries < forward_max_tries` (the pinned connection being the only exception) -/
structure Tries (c : Cfg) (s : St) (k : Nat) : Prop where
  disp : k + ans s ≤ s.nTries
  cap : s.nTries ≤ max c.maxTries 1
  room : ∀ d, s.phase = .opening (some d) → s.nTries < c.maxTries
  fresh : s.destinationsFound = false → s.nTries = 0 ∧ (s.phase = .idle ∨ s.phase = .stopped)

/-- what the connect/retry helpers do to the counters -/
structure KickFacts (c : Cfg) (s s' : St) : Prop where
  tries : s'.nTries = s.nTries + ans s'
  lt : ans s' = 1 → s.nTries < c.maxTries
  room : ∀ d, s'.phase = .opening (some d) → s'.nTries < c.maxTries
  found : s'.destinationsFound = s.destinationsFound

theorem KickFacts.rebase {c : Cfg} {s1 s s' : St} (k : KickFacts c s1 s') (hn : s1.nTries = s.nTries)
    (hf : s1.destinationsFound = s.destinationsFound) : KickFacts c s s' :=
  ⟨by rw [k.tries, hn], by rw [← hn]; exact k.lt, k.room, by rw [k.found, hf]⟩

theorem stop_kick (c : Cfg) (s0 s : St) (hn : s.nTries = s0.nTries) (hf : s.destinationsFound = s0.destinationsFound) :
    KickFacts c s0 (stop s).1 :=
  ⟨by simp [stop, ans, hn], by simp [stop, ans], by simp [stop], by simp [stop, hf]⟩

theorem openerKick_kick (c : Cfg) (s : St) : KickFacts c s (openerKick c s).1 := by
  unfold openerKick
  split
  · exact stop_kick c s _ (by simp [fail_nTries]) (by simp [fail_destinationsFound])
  · rename_i hx
    have hlt : s.nTries < c.maxTries := by
      simp only [exhaustedTries, Bool.or_eq_true, decide_eq_true_eq, not_or] at hx
      omega
    split
    · split
      · exact ⟨by simp [ans], by simp [ans], by simp, rfl⟩
      · exact stop_kick c s _ (by simp [fail_nTries]) (by simp [fail_destinationsFound])
    · dsimp only
      split
      · split
        · exact ⟨by simp [ans], fun _ => hlt, by simp, rfl⟩
        · exact ⟨by simp [ans], by simp [ans], fun d _ => hlt, rfl⟩
      · exact ⟨by simp [ans], by simp [ans], fun d _ => hlt, rfl⟩

theorem connectStart_kick (c : Cfg) (r : Req) (s : St) : KickFacts c s (connectStart c r s).1 := by
  unfold connectStart
  exact (openerKick_kick c _).rebase rfl rfl

theorem useDestinations_kick (c : Cfg) (r : Req) (s : St) : KickFacts c s (useDestinations c r s).1 := by
  unfold useDestinations
  split
  · exact connectStart_kick c r s
  · split
    · exact ⟨by simp [ans], by simp [ans], by simp, rfl⟩
    · apply stop_kick
      · split
        · rw [fail_nTries]
        · rfl
      · split
        · rw [fail_destinationsFound]
        · rfl

theorem retryOrBail_kick (c : Cfg) (r : Req) (s : St) : KickFacts c s (retryOrBail c r s).1 := by
  unfold retryOrBail
  split
  · exact useDestinations_kick c r s
  · exact stop_kick c s s rfl rfl

/-- a helper result keeps the invariant (the number of dispatches is unchanged: helpers are `Quiet`) -/
theorem KickFacts.tries_inv {c : Cfg} {s s' : St} {k : Nat} (kf : KickFacts c s s') (hd : k ≤ s.nTries)
    (hcap : s.nTries ≤ max c.maxTries 1) (hfound : s.destinationsFound = true) : Tries c s' k := by
  have h1 := ans_le_one s'
  refine ⟨by rw [kf.tries]; omega, ?_, kf.room, ?_⟩
  · rw [kf.tries]
    by_cases ha : ans s' = 1
    · have := kf.lt ha; omega
    · have : ans s' = 0 := by omega
      omega
  · intro h; rw [kf.found, hfound] at h; exact absurd h (by simp)

theorem Tries.found_of_phase {c : Cfg} {s : St} {k : Nat} (t : Tries c s k) (h : s.phase ≠ .idle) (h' : s.phase ≠ .stopped) :
    s.destinationsFound = true := by
  cases hf : s.destinationsFound with
  | true => rfl
  | false => rcases (t.fresh hf).2 with h1 | h1 <;> simp_all

theorem tries_stop {c : Cfg} {s : St} {k : Nat} (hd : k ≤ s.nTries) (hcap : s.nTries ≤ max c.maxTries 1)
    (hf : s.destinationsFound = false → s.nTries = 0) : Tries c (stop s).1 (k + dispatches (stop s).2) :=
  ⟨by simp [stop, dispatches, isDispatch, ans]; omega, by simpa [stop] using hcap, by simp [stop],
   fun h => ⟨hf (by simpa [stop] using h), Or.inr rfl⟩⟩

theorem step_tries (c : Cfg) (r : Req) (s : St) (e : Ev) (k : Nat) (t : Tries c s k) :
    Tries c (step c r s e).1 (k + dispatches (step c r s e).2) := by
  have hk : k ≤ s.nTries := by have := t.disp; omega
  cases e with
  | noteDestination d =>
    simp only [step]
    split
    · simpa [dispatches_nil] using t
    · unfold noteDestination
      split
      · simpa [dispatches_nil] using t
      · dsimp only
        split
        · rw [(openerKick_quiet c _).disp]
          exact (openerKick_kick c _).tries_inv hk t.cap rfl
        · rename_i h
          refine ⟨by simpa [dispatches_nil, ans, h] using t.disp, t.cap, fun d' _ => t.room _ h, by simp⟩
        · rename_i h
          refine ⟨by simpa [dispatches_nil, ans, h] using t.disp, t.cap, by simp_all, by simp⟩
        · rename_i h
          refine ⟨by simpa [dispatches_nil, ans, h] using t.disp, t.cap, by simp_all, by simp⟩
        · rw [(useDestinations_quiet c r _).disp]
          exact (useDestinations_kick c r _).tries_inv hk t.cap rfl
        · rename_i h
          refine ⟨by simpa [dispatches_nil, ans, h] using t.disp, t.cap, by simp_all, by simp⟩
  | notePinned ok =>
    simp only [step, usePinned]
    split
    · rename_i h
      simp only [Bool.and_eq_true, decide_eq_true_eq, Bool.not_eq_true'] at h
      obtain ⟨⟨⟨⟨_, hph⟩, _⟩, _⟩, hdf⟩ := h
      have h0 := (t.fresh hdf).1
      have hk0 : k = 0 := by omega
      split
      · refine ⟨by simp [dispatch, dispatches, isDispatch, ans, h0, hk0], by simp [dispatch, h0]; omega, by simp [dispatch], by simp [dispatch]⟩
      · refine ⟨by simp [stop, dispatches, isDispatch, ans, fail_nTries, h0, hk0], by simp [stop, fail_nTries, h0], by simp [stop], by simp [stop, fail_destinationsFound]⟩
    · simpa [dispatches_nil] using t
  | noteDestinationsEnd =>
    simp only [step]
    split
    · simpa [dispatches_nil] using t
    · unfold noteDestinationsEnd
      split
      · simpa [dispatches_nil] using t
      · dsimp only
        split
        · rename_i hdf
          simp only [Bool.not_eq_true'] at hdf
          have hf := t.fresh hdf
          split
          · refine ⟨by simp [stop, dispatches, isDispatch, ans, fail_nTries, hf.1]; omega, by simp [stop, fail_nTries, hf.1], by simp [stop], ?_⟩
            intro _; simp [stop, fail_nTries, hf.1]
          · refine ⟨?_, t.cap, t.room, fun _ => hf⟩
            show k + dispatches [] + ans s ≤ s.nTries
            simpa [dispatches_nil] using t.disp
        · rename_i hdf
          have hfound : s.destinationsFound = true := by simpa using hdf
          split
          · rw [(openerKick_quiet c _).disp]
            exact (openerKick_kick c _).tries_inv hk t.cap hfound
          · rename_i h
            refine ⟨by simpa [dispatches_nil, ans, h] using t.disp, t.cap, fun d' _ => t.room _ h, by simp [hfound]⟩
          · rename_i h
            refine ⟨by simpa [dispatches_nil, ans, h] using t.disp, t.cap, by simp_all, by simp [hfound]⟩
          · rename_i h
            refine ⟨by simpa [dispatches_nil, ans, h] using t.disp, t.cap, by simp_all, by simp [hfound]⟩
          · refine ⟨by simp [stop, dispatches, isDispatch, ans]; split <;> simp [fail_nTries] <;> omega, ?_, by simp [stop], ?_⟩
            · simp only [stop]; split <;> simp [fail_nTries, t.cap]
            · simp only [stop]; split <;> simp [fail_destinationsFound, hfound]
          · rename_i h
            refine ⟨by simpa [dispatches_nil, ans, h] using t.disp, t.cap, by simp_all, by simp [hfound]⟩
  | connectDone ok =>
    simp only [step]
    unfold connectDone
    split
    · rename_i d h
      have hroom := t.room d h
      have hfound := t.found_of_phase (by simp [h]) (by simp [h])
      dsimp only
      split
      · refine ⟨by simp [dispatches_nil, ans]; omega, by simp; omega, by simp, by simp [hfound]⟩
      · rw [(openerKick_quiet c _).disp]
        exact (openerKick_kick c _).tries_inv (by simp; omega) (by simp; omega) hfound
    · simpa [dispatches_nil] using t
  | noteConnection o =>
    simp only [step]
    unfold noteConnection
    split
    · rename_i d b h
      have hfound := t.found_of_phase (by simp [h]) (by simp [h])
      have hd : k + 1 ≤ s.nTries := by simpa [ans, h] using t.disp
      split
      · refine ⟨by simp [dispatch, dispatches, isDispatch, ans]; omega, by simpa [dispatch] using t.cap, by simp [dispatch], by simp [dispatch, hfound]⟩
      · dsimp only
        rw [(retryOrBail_quiet c r _).disp]
        exact (retryOrBail_kick c r _).tries_inv (by simp [fail_nTries]; omega) (by simpa [fail_nTries] using t.cap)
          (by simpa [fail_destinationsFound] using hfound)
    · simpa [dispatches_nil] using t
  | tick => exact ⟨by simpa [step, dispatches_nil, ans] using t.disp, t.cap, t.room, t.fresh⟩
  | shutdown => exact ⟨by simpa [step, dispatches_nil, ans] using t.disp, t.cap, t.room, t.fresh⟩
  | storeAbort =>
    simp only [step]
    split
    · simpa [dispatches_nil] using t
    · refine ⟨by simp [stop, dispatches, isDispatch, ans]; omega, t.cap, by simp [stop], ?_⟩
      intro hf; exact ⟨(t.fresh hf).1, Or.inr rfl⟩
  | bodyConsumed =>
    simp only [step]
    split
    · rename_i d b h
      exact ⟨by simpa [dispatches_nil, ans, h] using t.disp, t.cap, by simp [h], fun hf => by have := t.fresh hf; simp_all⟩
    · simpa [dispatches_nil] using t
  | replyHeaders st =>
    simp only [step]
    split
    · rename_i d b h
      exact ⟨by simpa [dispatches_nil, ans, h] using t.disp, t.cap, by simp [h], fun hf => by have := t.fresh hf; simp_all⟩
    · simpa [dispatches_nil] using t
  | bufferedTooMuch =>
    simp only [step]
    split
    · rename_i d b h
      exact ⟨by simpa [dispatches_nil, ans, h] using t.disp, t.cap, by simp [h], fun hf => by have := t.fresh hf; simp_all⟩
    · simpa [dispatches_nil] using t
  | serverFailed f dr =>
    simp only [step]
    unfold serverEnd
    split
    · rename_i d b h
      have hfound := t.found_of_phase (by simp [h]) (by simp [h])
      dsimp only
      rw [(retryOrBail_quiet c r _).disp]
      refine (retryOrBail_kick c r _).tries_inv ?_ ?_ ?_
      · cases f <;> simp [fail_nTries] <;> omega
      · cases f <;> simp [fail_nTries] <;> exact t.cap
      · cases f <;> simp [fail_destinationsFound, hfound]
    · simpa [dispatches_nil] using t
  | serverComplete keep =>
    simp only [step]
    unfold complete
    split
    · rename_i d b h
      have hfound := t.found_of_phase (by simp [h]) (by simp [h])
      dsimp only
      split
      · rw [(useDestinations_quiet c r _).disp]
        refine (useDestinations_kick c r _).tries_inv ?_ ?_ ?_
        · split <;> simp <;> omega
        · split <;> simp <;> exact t.cap
        · split <;> simp [hfound]
      · apply tries_stop
        · split <;> simpa using hk
        · split <;> simpa using t.cap
        · split <;> simp [hfound]
    · simpa [dispatches_nil] using t

theorem run_tries (c : Cfg) (r : Req) : ∀ (evs : List Ev) (s : St) (k : Nat), Tries c s k →
    Tries c (run c r s evs).1 (k + dispatches (run c r s evs).2)
  | [], s, k, t => by simpa [run, dispatches_nil] using t
  | e :: es, s, k, t => by
    have t1 := step_tries c r s e k t
    have ih := run_tries c r es (step c r s e).1 _ t1
    simp only [run, dispatches_append]
    rw [← Nat.add_assoc]
    exact ih

theorem init_tries (c : Cfg) (pool : List Nat) : Tries c (init pool) 0 :=
  ⟨by simp [init, ans], by simp [init], by simp [init], by simp [init]⟩

/-- forward_max_tries bounds the number of dispatches (a pinned connection is used even with forward_max_tries 0) -/
theorem dispatches_le_maxTries (c : Cfg) (r : Req) (pool : List Nat) (evs : List Ev) :
    dispatches (run c r (init pool) evs).2 ≤ max c.maxTries 1 := by
  have t := run_tries c r evs (init pool) 0 (init_tries c pool)
  have h1 := t.disp
  have h2 := t.cap
  omega

end SquidModel.Fwd.Retry
