/-
C07 model: the retry / re-forward decision logic of `FwdState` (src/FwdState.cc) together with the parts of
`HappyConnOpener` (src/HappyConnOpener.cc), `PconnPool::pop` (src/pconn.cc), `HttpRequest::bodyNibbled`
(src/HttpRequest.cc), `HttpStateData::haveParsedReplyHeaders` (src/http.cc: ENTRY_FWD_HDR_WAIT) and
`Http::IsReforwardableStatus` (src/http/StatusCode.cc) that decide whether a request is dispatched again.

The model is an event-driven state machine: `step cfg req s ev = (s', outputs)`.  Events are what the rest of Squid
(peer selection, Comm, the dispatched `HttpStateData` job, the clock) tells `FwdState`; outputs are the visible
actions (`connect d`, `closeIdle d`, `dispatch d reused`, `finish`).  An event that cannot occur in the current
phase leaves the state unchanged, so "for every event list" covers every real history (and more).

Function by function (C++ name → Lean name):
  FwdState::checkRetriable → `checkRetriable`        FwdState::exhaustedTries → `exhaustedTries`
  FwdState::checkRetry → `checkRetry`                FwdState::reforward → `reforward`
  FwdState::retryOrBail → `retryOrBail`              FwdState::useDestinations → `useDestinations`
  FwdState::connectStart → `connectStart`            FwdState::noteConnection → `noteConnection` / `noteConnectionError`
  FwdState::syncWithServerConn + dispatch → `dispatch`
  FwdState::fail + reactToZeroSizeObject → `fail`    FwdState::complete → `complete`
  FwdState::serverClosed / handleUnregisteredServerEnd → `Ev.serverFailed` (`serverEnd`)
  FwdState::noteDestination / noteDestinationsEnd / usePinned → `noteDestination` / `noteDestinationsEnd` / `usePinned`
  HappyConnOpener::checkForNewConnection + maybeOpenPrimeConnection + startConnecting + reuseOldConnection +
    openFreshConnection + ranOutOfTimeOrAttempts + sendFailure → `openerKick`
  HappyConnOpener::handleConnOpenerAnswer → `connectDone`
  PconnPool::popStored(keepOpen) → inside `openerKick` (`closeIdle` when the transaction is not retriable)
  HttpStateData::haveParsedReplyHeaders (FWD_HDR_WAIT) → `Ev.replyHeaders`
Not modelled: the spare (other address family) track of HappyConnOpener, TLS / CONNECT-to-peer steps
(`advanceDestination`), cache_peer standby pools, FTP/WHOIS dispatch, sslPeek.
-/
namespace SquidModel.Fwd.Retry

/-- squid.conf values the decisions read -/
structure Cfg where
  maxTries : Nat                 -- Config.forward_max_tries
  retryOnError : Bool            -- Config.retry.onerror
  pconnForNonretriable : Bool    -- server_pconn_for_nonretriable: fastCheck().allowed()
  reforwardAlways : List Nat     -- Http::IsReforwardableStatus: statuses returning true (Gen table)
  reforwardOnError : List Nat    -- ... returning Config.retry.onerror (Gen table)
deriving Repr, DecidableEq

/-- what the decisions read from the request -/
structure Req where
  safe : Bool      -- request->method.isHttpSafe()
  idem : Bool      -- request->method.isIdempotent()
  hasBody : Bool   -- request->body_pipe != nullptr
deriving Repr, DecidableEq

inductive Race | impossible | possible | happened
deriving Repr, DecidableEq

/-- kind of the `ErrorState` kept in `FwdState::err` (decides the status of the final error page) -/
inductive Err
  | zeroSize        -- ERR_ZERO_SIZE_OBJECT (502)
  | badGateway      -- ERR_READ_ERROR / ERR_WRITE_ERROR / ERR_INVALID_RESP ... (502)
  | connectFail     -- HappyConnOpener: ERR_CONNECT_FAIL / ERR_GATEWAY_FAILURE (503)
  | cannotForward500 -- useDestinations: ERR_CANNOT_FORWARD, 500
  | cannotForward502 -- noteDestinationsEnd: ERR_CANNOT_FORWARD, 502
  | cannotForward503 -- noteConnection: ERR_CANNOT_FORWARD, 503 (socket closed while the callback was queued)
  | selection       -- noteDestinationsEnd(selectionError)
  | pinned          -- BorrowPinnedConnection threw
deriving Repr, DecidableEq

inductive Phase
  | idle                      -- no transportWait, not transporting (before the first destination or waiting for more)
  | opening (cur : Option Nat) -- transportWait: HappyConnOpener at work; `cur` = path of its in-progress connect
  | answering (d : Nat) (reused : Bool) -- transportWait: the opener called sendSuccess; the noteConnection callback is queued
  | sent (d : Nat) (reused : Bool) -- waitingForDispatched: the request was dispatched on a connection to `d`
  | stopped                   -- stopAndDestroy
deriving Repr, DecidableEq

structure St where
  nTries : Nat := 0
  connectedOkay : Bool := false     -- flags.connected_okay
  dontRetry : Bool := false         -- flags.dont_retry
  pinned : Bool := false            -- request->flags.pinned
  destinationsFound : Bool := false -- flags.destinationsFound
  race : Race := .impossible        -- pconnRace
  dests : List Nat := []            -- destinations (ResolvedPeers): paths not yet extracted, in order
  subscribed : Bool := true         -- PeerSelectionInitiator::subscribed (more destinations may come)
  receipt : Option Nat := none      -- destinationReceipt
  pool : List Nat := []             -- fwdPconnPool: addresses with an idle connection for this host
  retriableOpener : Bool := true    -- HappyConnOpener::retriable_
  allowPconn : Bool := true         -- HappyConnOpener::allowPconn_
  openerError : Bool := false       -- HappyConnOpener::lastError set (some connect failed)
  nibbled : Bool := false           -- request->body_pipe->consumedSize() > 0
  timeUp : Bool := false            -- ForwardTimeout(start_t) == 0
  shuttingDown : Bool := false      -- shutting_down
  entryEmpty : Bool := true         -- entry->isEmpty()
  hdrWait : Bool := false           -- ENTRY_FWD_HDR_WAIT
  status : Nat := 0                 -- entry->mem().baseReply().sline.status()
  err : Option Err := none          -- FwdState::err
  phase : Phase := .idle
deriving Repr, DecidableEq

inductive Out
  | connect (d : Nat)               -- Comm::ConnOpener started towards d
  | closeIdle (d : Nat)             -- an idle pconn to d was popped "to kill"
  | dispatch (d : Nat) (reused : Bool) -- httpStart: the request goes out on a (reused) connection to d
  | finish                          -- stopAndDestroy
deriving Repr, DecidableEq

/-- how the dispatched job ended before `complete()` -/
inductive Fail
  | zero      -- fwd->fail(ERR_ZERO_SIZE_OBJECT)
  | other     -- fwd->fail(any other error)
  | silent    -- the connection closed without fwd->fail()
deriving Repr, DecidableEq

inductive Ev
  | noteDestination (d : Nat)
  | notePinned (ok : Bool)             -- noteDestination(nil) → usePinned; ok = BorrowPinnedConnection succeeded
  | noteDestinationsEnd
  | connectDone (ok : Bool)            -- Comm::ConnOpener answered the opener's in-progress attempt
  | noteConnection (open_ : Bool)      -- the queued FwdState::noteConnection callback fires; open_ = the socket is still open
  | tick                               -- the forward_timeout budget is used up from now on
  | shutdown                           -- shutting_down becomes true
  | storeAbort                         -- HandleStoreAbort
  | bodyConsumed                       -- the dispatched job consumed request body bytes
  | replyHeaders (status : Nat)        -- the dispatched job stored a reply (haveParsedReplyHeaders)
  | bufferedTooMuch                    -- StoreEntry::write cleared ENTRY_FWD_HDR_WAIT (read-ahead gap exceeded)
  | serverFailed (f : Fail) (dontRetry : Bool) -- the job ended: [dontRetry(true)], [fail(err)], then serverClosed / handleUnregisteredServerEnd
  | serverComplete (keep : Bool)       -- the job called complete(); keep = the connection went back to the pconn pool
deriving Repr, DecidableEq

/-- Http::IsReforwardableStatus -/
def isReforwardableStatus (c : Cfg) (s : Nat) : Bool :=
  if c.reforwardAlways.contains s then true
  else if c.reforwardOnError.contains s then c.retryOnError
  else false

/-- FwdState::checkRetriable -/
def checkRetriable (r : Req) : Bool :=
  if r.hasBody then false else (r.safe || r.idem)

/-- FwdState::exhaustedTries -/
def exhaustedTries (c : Cfg) (s : St) : Bool := decide (s.nTries ≥ c.maxTries)

/-- HttpRequest::bodyNibbled -/
def bodyNibbled (r : Req) (s : St) : Bool := r.hasBody && s.nibbled

/-- FwdState::checkRetry (self != nil and store_status == STORE_PENDING hold while the phase is not `stopped`) -/
def checkRetry (c : Cfg) (r : Req) (s : St) : Bool :=
  if s.shuttingDown then false
  else if !s.entryEmpty then false
  else if exhaustedTries c s then false
  else if s.pinned then false
  else if s.timeUp then false
  else if s.dontRetry then false
  else if bodyNibbled r s then false
  else if !s.connectedOkay then true
  else if !checkRetriable r then false
  else true

/-- FwdState::reforward -/
def reforward (c : Cfg) (r : Req) (s : St) : Bool :=
  if s.pinned then false
  else if !s.hdrWait then false
  else if exhaustedTries c s then false
  else if bodyNibbled r s then false
  else if s.dests.isEmpty && !s.subscribed then false
  else isReforwardableStatus c s.status

def stop (s : St) : St × List Out := ({ s with phase := .stopped }, [.finish])

/-- FwdState::fail (with reactToZeroSizeObject) -/
def fail (s : St) (e : Err) : St :=
  let s := { s with err := some e }
  let s := if e = .zeroSize ∧ s.race = .possible then
      { s with race := .happened,
               dests := (match s.receipt with | some d => d :: s.dests | none => s.dests) }
    else s
  { s with receipt := none }

/-- syncWithServerConn + dispatch -/
def dispatch (s : St) (d : Nat) (reused : Bool) : St × List Out :=
  ({ s with race := (if reused then .possible else .impossible), connectedOkay := true, phase := .sent d reused },
   [.dispatch d reused])

/-- HappyConnOpener::sendFailure → FwdState::noteConnection with answer.error:
`flags.dont_retry = true; fail(error); retryOrBail()`, and `checkRetry` is false once `dont_retry` is set
(lemma `noteConnectionError_eq` in RetryLemmas: this equals `retryOrBail` on that state). -/
def noteConnectionError (s : St) : St × List Out :=
  stop (fail { s with dontRetry := true } .connectFail)

/-- HappyConnOpener::checkForNewConnection with no attempt in progress (maybeOpenPrimeConnection, startConnecting,
reuseOldConnection / PconnPool::popStored, openFreshConnection; ranOutOfTimeOrAttempts and an exhausted, finalized
destination list end the job through sendFailure) -/
def openerKick (c : Cfg) (s : St) : St × List Out :=
  if exhaustedTries c s || s.timeUp then noteConnectionError s
  else match s.dests with
    | [] => if s.subscribed then ({ s with phase := .opening none }, []) else noteConnectionError s
    | d :: rest =>
      let s := { s with dests := rest }
      if s.allowPconn && s.pool.contains d then
        let s := { s with pool := s.pool.erase d }
        if s.retriableOpener then
          -- reuseOldConnection: ++n_tries; sendSuccess(reused)
          ({ s with nTries := s.nTries + 1, phase := .answering d true }, [])
        else
          -- popStored(keepOpen = false) closes the idle connection; openFreshConnection
          ({ s with phase := .opening (some d) }, [.closeIdle d, .connect d])
      else
        ({ s with phase := .opening (some d) }, [.connect d])

/-- FwdState::connectStart: a new HappyConnOpener (setRetriable, allowPersistent) -/
def connectStart (c : Cfg) (r : Req) (s : St) : St × List Out :=
  openerKick c { s with err := none, openerError := false,
                        retriableOpener := checkRetriable r || c.pconnForNonretriable,
                        allowPconn := decide (s.race ≠ .happened),
                        phase := .opening none }

/-- FwdState::useDestinations -/
def useDestinations (c : Cfg) (r : Req) (s : St) : St × List Out :=
  if !s.dests.isEmpty then connectStart c r s
  else if s.subscribed then ({ s with phase := .idle }, [])
  else stop (if s.err.isNone then fail s .cannotForward500 else s)

/-- FwdState::retryOrBail -/
def retryOrBail (c : Cfg) (r : Req) (s : St) : St × List Out :=
  if checkRetry c r s then useDestinations c r s else stop s

/-- HappyConnOpener::handleConnOpenerAnswer -/
def connectDone (c : Cfg) (s : St) (ok : Bool) : St × List Out :=
  match s.phase with
  | .opening (some d) =>
    let s := { s with nTries := s.nTries + 1 }
    if ok then ({ s with phase := .answering d false }, [])
    else openerKick c { s with openerError := true, phase := .opening none }
  | _ => (s, [])

/-- FwdState::noteConnection for a successful answer (`updateAttempts` is already folded into `nTries`) -/
def noteConnection (c : Cfg) (r : Req) (s : St) (open_ : Bool) : St × List Out :=
  match s.phase with
  | .answering d reused =>
    if open_ then
      dispatch { s with receipt := some d } d reused
    else
      -- "conn was closed while waiting for noteConnection": retries are allowed only for reused connections
      let s := { s with receipt := (if reused then some d else none), phase := .idle }
      retryOrBail c r (fail s .cannotForward503)
  | _ => (s, [])

/-- FwdState::noteDestination(path) -/
def noteDestination (c : Cfg) (r : Req) (s : St) (d : Nat) : St × List Out :=
  if !s.subscribed then (s, []) else
  let s := { s with destinationsFound := true, dests := s.dests ++ [d] }
  match s.phase with
  | .opening none => openerKick c s        -- notifyConnOpener → noteCandidatesChange
  | .opening (some _) => (s, [])
  | .answering _ _ => (s, [])
  | .sent _ _ => (s, [])                   -- transporting(): keep the path for a re-forward
  | .idle => useDestinations c r s
  | .stopped => (s, [])

/-- FwdState::noteDestination(nil) → usePinned -/
def usePinned (s : St) (ok : Bool) : St × List Out :=
  if s.subscribed && s.phase = .idle && s.dests.isEmpty && !s.connectedOkay && !s.destinationsFound then
    let s := { s with destinationsFound := true }
    if ok then dispatch { s with nTries := s.nTries + 1, pinned := true } 0 true
    else stop (fail s .pinned)
  else (s, [])

/-- FwdState::noteDestinationsEnd -/
def noteDestinationsEnd (c : Cfg) (s : St) : St × List Out :=
  if !s.subscribed then (s, []) else
  let s := { s with subscribed := false }
  if !s.destinationsFound then
    match s.phase with
    | .idle => stop (fail s .selection)
    | _ => (s, [])
  else match s.phase with
    | .opening none => openerKick c s
    | .opening (some _) => (s, [])
    | .answering _ _ => (s, [])
    | .sent _ _ => (s, [])
    | .idle => stop (if s.err.isNone then fail s .cannotForward502 else s)
    | .stopped => (s, [])

/-- the dispatched job ended without calling complete(): [dontRetry(true)] [fail(err)] closeServer →
serverClosed / handleUnregisteredServerEnd → retryOrBail -/
def serverEnd (c : Cfg) (r : Req) (s : St) (f : Fail) (dr : Bool) : St × List Out :=
  match s.phase with
  | .sent _ _ =>
    let s := { s with dontRetry := s.dontRetry || dr }
    let s := match f with
      | .zero => fail s .zeroSize
      | .other => fail s .badGateway
      | .silent => { s with receipt := none }
    retryOrBail c r { s with phase := .idle }
  | _ => (s, [])

/-- FwdState::complete (called by Client::completeForwarding).  HttpStateData::processReplyBody has pooled the
connection before (COMPLETE_PERSISTENT_MSG, not pinned); `reforward()` does not read the pool. -/
def complete (c : Cfg) (r : Req) (s : St) (keep : Bool) : St × List Out :=
  match s.phase with
  | .sent d _ =>
    let again := reforward c r s
    let s := if keep && !s.pinned then { s with pool := d :: s.pool } else s
    if again then
      -- unregister, destinationReceipt = nil, entry->reset() (keeps ENTRY_FWD_HDR_WAIT), useDestinations
      useDestinations c r { s with receipt := none, entryEmpty := true, status := 0, phase := .idle }
    else stop s
  | _ => (s, [])

/-- one event -/
def step (c : Cfg) (r : Req) (s : St) : Ev → St × List Out
  | .noteDestination d => if s.phase = .stopped then (s, []) else noteDestination c r s d
  | .notePinned ok => usePinned s ok
  | .noteDestinationsEnd => if s.phase = .stopped then (s, []) else noteDestinationsEnd c s
  | .connectDone ok => connectDone c s ok
  | .noteConnection o => noteConnection c r s o
  | .tick => ({ s with timeUp := true }, [])
  | .shutdown => ({ s with shuttingDown := true }, [])
  | .storeAbort => if s.phase = .stopped then (s, []) else stop s
  | .bodyConsumed =>
    match s.phase with
    | .sent _ _ => ({ s with nibbled := s.nibbled || r.hasBody }, [])
    | _ => (s, [])
  | .replyHeaders st =>
    match s.phase with
    | .sent _ _ => ({ s with entryEmpty := false, status := st, hdrWait := s.hdrWait || isReforwardableStatus c st }, [])
    | _ => (s, [])
  | .bufferedTooMuch =>
    match s.phase with
    | .sent _ _ => ({ s with hdrWait := false }, [])
    | _ => (s, [])
  | .serverFailed f dr => serverEnd c r s f dr
  | .serverComplete keep => complete c r s keep

/-- a whole history: all outputs in order -/
def run (c : Cfg) (r : Req) : St → List Ev → St × List Out
  | s, [] => (s, [])
  | s, e :: es =>
    let p := step c r s e
    let q := run c r p.1 es
    (q.1, p.2 ++ q.2)

def isDispatch : Out → Bool
  | .dispatch _ _ => true
  | _ => false

/-- how many times the request was handed to a server connection -/
def dispatches (o : List Out) : Nat := o.countP isDispatch

/-- the initial FwdState (constructor), with the idle connections the pool holds for this host -/
def init (pool : List Nat) : St := { pool := pool }

end SquidModel.Fwd.Retry
