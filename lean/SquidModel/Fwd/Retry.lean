/-
C07 model: the retry / re-forward decision logic of `FwdState` (src/FwdState.cc) together with the parts of
`HappyConnOpener` (src/HappyConnOpener.cc), `PconnPool::pop` (src/pconn.cc), `HttpRequest::bodyNibbled`
(src/HttpRequest.cc), `HttpStateData::haveParsedReplyHeaders` (src/http.cc: ENTRY_FWD_HDR_WAIT) and
`Http::IsReforwardableStatus` (src/http/StatusCode.cc) that decide whether a request is dispatched again.

The model is an event-driven state machine: `step cfg req s ev = (s', outputs)`.  Events are what the rest of Squid
(peer selection, Comm, the dispatched `HttpStateData` job, the clock) tells `FwdState`; outputs are the visible
actions (`connect d`, `closeIdle d`, `dispatch d reused`, `finish`).  An event that cannot occur in the current
phase leaves the state unchanged, so "for every event list" covers every real history (and more).

Function by function (C++ name → Lean name):
  FwdState::checkRetriable → `checkRetriable`        FwdState::exhaustedTries → `exhaustedTries`
  FwdState::checkRetry → `checkRetry`                FwdState::reforward → `reforward`
  FwdState::retryOrBail → `retryOrBail`              FwdState::useDestinations → `useDestinations`
  FwdState::connectStart → `connectStart`            FwdState::noteConnection → `noteConnectionOk` / `noteConnectionError`
  FwdState::syncWithServerConn + dispatch → `dispatch`
  FwdState::fail + reactToZeroSizeObject → `fail`    FwdState::complete → `complete`
  FwdState::serverClosed / handleUnregisteredServerEnd → `Ev.serverFailed` (`serverEnd`)
  FwdState::noteDestination / noteDestinationsEnd / usePinned → `noteDestination` / `noteDestinationsEnd` / `usePinned`
  HappyConnOpener::checkForNewConnection + maybeOpenPrimeConnection + startConnecting + reuseOldConnection +
    openFreshConnection + ranOutOfTimeOrAttempts + sendFailure → `openerKick`
  HappyConnOpener::handleConnOpenerAnswer → `connectDone`
  PconnPool::popStored(keepOpen) → inside `openerKick` (`closeIdle` when the transaction is not retriable)
  HttpStateData::haveParsedReplyHeaders (FWD_HDR_WAIT) → `Ev.replyHeaders`
Not modelled: the spare (other address family) track of HappyConnOpener, TLS / CONNECT-to-peer steps
(`advanceDestination`), cache_peer standby pools, FTP/WHOIS dispatch, sslPeek.
-/
namespace SquidModel.Fwd.Retry

/-- squid.conf values the decisions read -/
structure Cfg where
  maxTries : Nat                 -- Config.forward_max_tries
  retryOnError : Bool            -- Config.retry.onerror
  pconnForNonretriable : Bool    -- server_pconn_for_nonretriable: fastCheck().allowed()
  reforwardAlways : List Nat     -- Http::IsReforwardableStatus: statuses returning true (Gen table)
  reforwardOnError : List Nat    -- ... returning Config.retry.onerror (Gen table)
deriving Repr, DecidableEq

/-- what the decisions read from the request -/
structure Req where
  safe : Bool      -- request->method.isHttpSafe()
  idem : Bool      -- request->method.isIdempotent()
  hasBody : Bool   -- request->body_pipe != nullptr
deriving Repr, DecidableEq

inductive Race | impossible | possible | happened
deriving Repr, DecidableEq

/-- kind of the `ErrorState` kept in `FwdState::err` (decides the status of the final error page) -/
inductive Err
  | zeroSize        -- ERR_ZERO_SIZE_OBJECT (502)
  | badGateway      -- ERR_READ_ERROR / ERR_WRITE_ERROR / ERR_INVALID_RESP ... (502)
  | connectFail     -- HappyConnOpener: ERR_CONNECT_FAIL / ERR_GATEWAY_FAILURE (503)
  | cannotForward500 -- useDestinations: ERR_CANNOT_FORWARD, 500
  | cannotForward502 -- noteDestinationsEnd: ERR_CANNOT_FORWARD, 502
  | pinned          -- BorrowPinnedConnection threw
deriving Repr, DecidableEq

inductive Phase
  | idle                      -- no transportWait, not transporting (before the first destination or waiting for more)
  | opening (cur : Option Nat) -- transportWait: HappyConnOpener at work; `cur` = path of its in-progress connect
  | sent (d : Nat) (reused : Bool) -- waitingForDispatched: the request was dispatched on a connection to `d`
  | stopped                   -- stopAndDestroy
deriving Repr, DecidableEq

structure St where
  nTries : Nat := 0
  connectedOkay : Bool := false     -- flags.connected_okay
  dontRetry : Bool := false         -- flags.dont_retry
  pinned : Bool := false            -- request->flags.pinned
  destinationsFound : Bool := false -- flags.destinationsFound
  race : Race := .impossible        -- pconnRace
  dests : List Nat := []            -- destinations (ResolvedPeers): paths not yet extracted, in order
  subscribed : Bool := true         -- PeerSelectionInitiator::subscribed (more destinations may come)
  receipt : Option Nat := none      -- destinationReceipt
  pool : List Nat := []             -- fwdPconnPool: addresses with an idle connection for this host
  retriableOpener : Bool := true    -- HappyConnOpener::retriable_
  allowPconn : Bool := true         -- HappyConnOpener::allowPconn_
  openerError : Bool := false       -- HappyConnOpener::lastError set (some connect failed)
  nibbled : Bool := false           -- request->body_pipe->consumedSize() > 0
  timeUp : Bool := false            -- ForwardTimeout(start_t) == 0
  shuttingDown : Bool := false      -- shutting_down
  entryEmpty : Bool := true         -- entry->isEmpty()
  hdrWait : Bool := false           -- ENTRY_FWD_HDR_WAIT
  status : Nat := 0                 -- entry->mem().baseReply().sline.status()
  err : Option Err := none          -- FwdState::err
  phase : Phase := .idle
deriving Repr, DecidableEq

inductive Out
  | connect (d : Nat)               -- Comm::ConnOpener started towards d
  | closeIdle (d : Nat)             -- an idle pconn to d was popped "to kill"
  | dispatch (d : Nat) (reused : Bool) -- httpStart: the request goes out on a (reused) connection to d
  | finish                          -- stopAndDestroy
deriving Repr, DecidableEq

/-- how the dispatched job ended before `complete()` -/
inductive Fail
  | zero      -- fwd->fail(ERR_ZERO_SIZE_OBJECT)
  | other     -- fwd->fail(any other error)
  | silent    -- the connection closed without fwd->fail()
deriving Repr, DecidableEq

inductive Ev
  | noteDestination (d : Nat)
  | notePinned (ok : Bool)             -- noteDestination(nil) → usePinned; ok = BorrowPinnedConnection succeeded
  | noteDestinationsEnd
  | connectDone (ok : Bool)            -- Comm::ConnOpener answered the opener's in-progress attempt
  | connGone                           -- noteConnection found the just-opened/reused socket already closed
  | tick                               -- the forward_timeout budget is used up from now on
  | shutdown                           -- shutting_down becomes true
  | storeAbort                         -- HandleStoreAbort
  | bodyConsumed                       -- the dispatched job consumed request body bytes
  | replyHeaders (status : Nat)        -- the dispatched job stored a reply (haveParsedReplyHeaders)
  | serverFailed (f : Fail) (dontRetry : Bool) -- the job ended: [dontRetry(true)], [fail(err)], then serverClosed / handleUnregisteredServerEnd
  | serverComplete (keep : Bool)       -- the job called complete(); keep = the connection went back to the pconn pool
deriving Repr, DecidableEq

/-- Http::IsReforwardableStatus -/
def isReforwardableStatus (c : Cfg) (s : Nat) : Bool :=
  if c.reforwardAlways.contains s then true
  else if c.reforwardOnError.contains s then c.retryOnError
  else false

/-- FwdState::checkRetriable -/
def checkRetriable (r : Req) : Bool :=
  if r.hasBody then false else (r.safe || r.idem)

/-- FwdState::exhaustedTries -/
def exhaustedTries (c : Cfg) (s : St) : Bool := decide (s.nTries ≥ c.maxTries)

/-- HttpRequest::bodyNibbled -/
def bodyNibbled (r : Req) (s : St) : Bool := r.hasBody && s.nibbled

/-- FwdState::checkRetry (self != nil and store_status == STORE_PENDING hold while the phase is not `stopped`) -/
def checkRetry (c : Cfg) (r : Req) (s : St) : Bool :=
  if s.shuttingDown then false
  else if !s.entryEmpty then false
  else if exhaustedTries c s then false
  else if s.pinned then false
  else if s.timeUp then false
  else if s.dontRetry then false
  else if bodyNibbled r s then false
  else if !s.connectedOkay then true
  else if !checkRetriable r then false
  else true

/-- FwdState::reforward -/
def reforward (c : Cfg) (r : Req) (s : St) : Bool :=
  if s.pinned then false
  else if !s.hdrWait then false
  else if exhaustedTries c s then false
  else if bodyNibbled r s then false
  else if s.dests.isEmpty && !s.subscribed then false
  else isReforwardableStatus c s.status

def stop (s : St) : St × List Out := ({ s with phase := .stopped }, [.finish])

/-- FwdState::fail (with reactToZeroSizeObject) -/
def fail (s : St) (e : Err) : St :=
  let s := { s with err := some e }
  let s := if e = .zeroSize ∧ s.race = .possible then
      { s with race := .happened,
               dests := (match s.receipt with | some d => d :: s.dests | none => s.dests) }
    else s
  { s with receipt := none }

/-- syncWithServerConn + dispatch -/
def dispatch (s : St) (d : Nat) (reused : Bool) : St × List Out :=
  ({ s with race := (if reused then .possible else .impossible), connectedOkay := true, phase := .sent d reused },
   [.dispatch d reused])

mutual
/-- FwdState::retryOrBail -/
def retryOrBail (c : Cfg) (r : Req) (s : St) : St × List Out :=
  if checkRetry c r s then useDestinations c r s else stop s
termination_by 2 * s.dests.length + 3
decreasing_by all_goals simp_wf; all_goals omega

/-- FwdState::useDestinations -/
def useDestinations (c : Cfg) (r : Req) (s : St) : St × List Out :=
  if !s.dests.isEmpty then connectStart c r s
  else if s.subscribed then ({ s with phase := .idle }, [])
  else stop (if s.err.isNone then fail s .cannotForward500 else s)
termination_by 2 * s.dests.length + 2
decreasing_by all_goals simp_wf; all_goals omega

/-- FwdState::connectStart: a new HappyConnOpener -/
def connectStart (c : Cfg) (r : Req) (s : St) : St × List Out :=
  openerKick c r { s with err := none, openerError := false,
                          retriableOpener := checkRetriable r || c.pconnForNonretriable,
                          allowPconn := decide (s.race ≠ .happened),
                          phase := .opening none }
termination_by 2 * s.dests.length + 1
decreasing_by all_goals simp_wf; all_goals omega

/-- HappyConnOpener::checkForNewConnection with no attempt in progress -/
def openerKick (c : Cfg) (r : Req) (s : St) : St × List Out :=
  if exhaustedTries c s || s.timeUp then noteConnectionError c r s
  else match hd : s.dests with
    | [] => if s.subscribed then ({ s with phase := .opening none }, []) else noteConnectionError c r s
    | d :: rest =>
      let s := { s with dests := rest }
      if s.allowPconn && s.pool.contains d then
        let s := { s with pool := s.pool.erase d }
        if s.retriableOpener then
          -- reuseOldConnection: ++n_tries; sendSuccess(reused) → noteConnection
          let s := { s with nTries := s.nTries + 1, receipt := some d }
          dispatch s d true
        else
          ({ s with phase := .opening (some d) }, [.closeIdle d, .connect d])
      else
        ({ s with phase := .opening (some d) }, [.connect d])
termination_by 2 * s.dests.length
decreasing_by all_goals simp_wf; all_goals omega

/-- HappyConnOpener::sendFailure → FwdState::noteConnection with answer.error -/
def noteConnectionError (c : Cfg) (r : Req) (s : St) : St × List Out :=
  -- flags.dont_retry = true; fail(error); retryOrBail() — which cannot retry any more
  stop (fail { s with dontRetry := true } .connectFail)
termination_by 0
end

end SquidModel.Fwd.Retry
