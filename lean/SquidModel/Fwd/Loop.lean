/-
C63 model: forwarding-loop detection through Via and Max-Forwards handling.

* `clientInterpretRequestHeaders` (src/client_side_request.cc): all Via field values are joined with ", "
  (`HttpHeader::getList`) and the request is marked `loopDetected` iff `ThisCache2` = " " ++ host ++ " (" ++ app ++ ")"
  occurs as a substring (`strListIsSubstr` = `String::find`).
* `clientProcessRequest` (src/client_side.cc): OPTIONS with `getInt64(Max-Forwards) == 0` is answered locally (501).
* `clientGetMoreData` (src/client_side_reply.cc): TRACE with `getInt64(Max-Forwards) == 0` is answered by `traceReply()`.
* `processMiss`: a request with `loopDetected` is denied (403) instead of being forwarded.
* `copyOneHeaderFromClientsideRequestToUpstreamRequest` (src/http.cc): every Max-Forwards entry is copied only for
  TRACE/OPTIONS and only when it parses to `hops > 0`, as `hops - 1`.
* `httpHeaderParseOffset` = `strtoll(.., 10)`: leading isspace, optional sign, digits; no digits or overflow ⇒ failure;
  `getInt64` returns -1 on failure or when the header is absent; trailing garbage is ignored.
-/
import SquidModel.Base.Bytes

namespace SquidModel.Fwd

/-- `String::find(pat) != npos` -/
def isInfix (pat : Bytes) : Bytes → Bool
  | [] => pat.isEmpty
  | c :: s => pat.isPrefixOf (c :: s) || isInfix pat s

/-- `HttpHeader::getList`: values joined by ", " -/
def joinList : List Bytes → Bytes
  | [] => []
  | [f] => f
  | f :: g :: rest => f ++ [44, 32] ++ joinList (g :: rest)

/-- "host (app)" -/
def thisCache (host app : Bytes) : Bytes := host ++ [32, 40] ++ app ++ [41]
/-- " host (app)": what the loop detector searches for -/
def thisCache2 (host app : Bytes) : Bytes := 32 :: thisCache host app
/-- the element `addVia` appends: protocol version, SP, "host (app)" -/
def viaElement (ver host app : Bytes) : Bytes := ver ++ thisCache2 host app

def loopDetected (host app : Bytes) (vias : List Bytes) : Bool :=
  !vias.isEmpty && isInfix (thisCache2 host app) (joinList vias)

def isSpace (b : UInt8) : Bool := b == 32 || (9 ≤ b && b ≤ 13)
def isDigit (b : UInt8) : Bool := 48 ≤ b && b ≤ 57

def digitsVal : Bytes → Nat → Nat
  | [], acc => acc
  | d :: ds, acc => digitsVal ds (acc * 10 + (d.toNat - 48))

def int64Max : Int := 9223372036854775807
def int64Min : Int := -9223372036854775808

/-- `httpHeaderParseOffset(value)`; `none` = parse failure -/
def parseOffset (v : Bytes) : Option Int :=
  let v := v.dropWhile isSpace
  let (neg, v) := match v with
    | 45 :: r => (true, r)
    | 43 :: r => (false, r)
    | _ => (false, v)
  let ds := v.takeWhile isDigit
  if ds.isEmpty then none
  else
    let n : Int := if neg then -(digitsVal ds 0 : Int) else (digitsVal ds 0 : Int)
    if n > int64Max || n < int64Min then none else some n

/-- `HttpHeader::getInt64(MAX_FORWARDS)`: first entry, -1 when absent or unparsable -/
def getInt64 (mfs : List Bytes) : Int :=
  match mfs with
  | [] => -1
  | v :: _ => (parseOffset v).getD (-1)

inductive Method | get | head | post | options | trace | other
  deriving DecidableEq, Repr

inductive Outcome
  | local501                       -- OPTIONS, Max-Forwards: 0
  | localTrace                     -- TRACE, Max-Forwards: 0
  | denied                         -- forwarding loop
  | forward (mfOut : List Int)     -- forwarded with these Max-Forwards values
  deriving DecidableEq, Repr

def mfOut (m : Method) (mfs : List Bytes) : List Int :=
  if m = .trace ∨ m = .options then
    mfs.filterMap fun v =>
      match parseOffset v with
      | some h => if h > 0 then some (h - 1) else none
      | none => none
  else []

/-- `cdnLoop` = the reverse-proxy-only check (`flags.accelerated` and a CDN-Loop member naming this Squid's surrogate id),
which can only *raise* `loopDetected` in addition to the Via check -/
def outcomeWith (cdnLoop : Bool) (host app : Bytes) (m : Method) (vias mfs : List Bytes) : Outcome :=
  if m = .options ∧ getInt64 mfs = 0 then .local501
  else if m = .trace ∧ getInt64 mfs = 0 then .localTrace
  else if loopDetected host app vias || cdnLoop then .denied
  else .forward (mfOut m mfs)

def outcome (host app : Bytes) (m : Method) (vias mfs : List Bytes) : Outcome :=
  outcomeWith false host app m vias mfs

def Outcome.isForward : Outcome → Bool
  | .forward _ => true
  | _ => false

end SquidModel.Fwd
