/-
C35 — the proleptic Gregorian calendar, defined by recursion over years and months.

`civilOfDays` (a walk that peels off whole years, then whole months) is the *reference meaning* of a day number:
the theorems of C35 say "the time a date string denotes" in terms of it. It is also the model of libc's `gmtime`.
`timegm` is modelled the way glibc computes it (closed-form day count, linear in every field, no validity check);
`SquidModel.Date.CalendarLemmas` proves that the two are inverse to each other by induction over the walks
(the closed-form inverse does not go through `omega` in one piece: notes/prototypes/Date_closed_form_attempt_FAILED).

Days are counted from 0000-01-01 (day 0, a Saturday); 1970-01-01 is day `epochDays`.
Months are 0-based (`tm_mon`), days of the month 1-based (`tm_mday`).
Core Lean only.
-/
namespace SquidModel.Date

def isLeap (y : Nat) : Bool := y % 4 == 0 && (y % 100 != 0 || y % 400 == 0)

def daysInYear (y : Nat) : Nat := if isLeap y then 366 else 365

def monthLen (leap : Bool) (m : Nat) : Nat :=
  match m with
  | 0 => 31 | 1 => if leap then 29 else 28 | 2 => 31 | 3 => 30 | 4 => 31 | 5 => 30
  | 6 => 31 | 7 => 31 | 8 => 30 | 9 => 31 | 10 => 30 | _ => 31

/-- peel whole years off `d`, starting at year `y` (fuel: every step removes at least 365 days) -/
def yearWalk : Nat → Nat → Nat → Nat × Nat
  | 0, y, d => (y, d)
  | f + 1, y, d => if d < daysInYear y then (y, d) else yearWalk f (y + 1) (d - daysInYear y)

/-- peel whole months off `d`, starting at month `m` -/
def monthWalk (leap : Bool) : Nat → Nat → Nat → Nat × Nat
  | 0, m, d => (m, d)
  | f + 1, m, d => if d < monthLen leap m then (m, d) else monthWalk leap f (m + 1) (d - monthLen leap m)

/-- day number (from 0000-01-01) → (year, month 0..11, day of month 1..31) -/
def civilOfDays (n : Nat) : Nat × Nat × Nat :=
  let yr := yearWalk n 0 n
  let md := monthWalk (isLeap yr.1) 11 0 yr.2
  (yr.1, md.1, md.2 + 1)

/-- number of days before January 1st of year `y` -/
def daysBeforeYear : Nat → Nat
  | 0 => 0
  | y + 1 => daysBeforeYear y + daysInYear y

/-- number of days of the year before the 1st of month `m` -/
def daysBeforeMonth (leap : Bool) : Nat → Nat
  | 0 => 0
  | m + 1 => daysBeforeMonth leap m + monthLen leap m

/-- a calendar date that exists -/
def validDate (y m d : Nat) : Prop := m < 12 ∧ 1 ≤ d ∧ d ≤ monthLen (isLeap y) m

instance (y m d : Nat) : Decidable (validDate y m d) := by unfold validDate; exact inferInstance

/-- day number of an existing date (the inverse walk) -/
def daysOfCivil (y m d : Nat) : Nat := daysBeforeYear y + daysBeforeMonth (isLeap y) m + (d - 1)

def epochDays : Nat := 719528

/-! ### broken-down time (`struct tm` as `gmtime` fills it; `year` is the full year, not `tm_year`) -/

structure Civil where
  year : Nat
  mon : Nat
  mday : Nat
  hour : Nat
  min : Nat
  sec : Nat
  wday : Nat
  deriving DecidableEq, Repr

/-- `gmtime` for `t ≥ -epochDays * 86400` (years ≥ 0); `/` and `%` on `Int` round towards -∞ for a positive divisor -/
def gmtime (t : Int) : Civil :=
  let days := (t / 86400 + (epochDays : Int)).toNat
  let sod := (t % 86400).toNat
  let c := civilOfDays days
  { year := c.1, mon := c.2.1, mday := c.2.2,
    hour := sod / 3600, min := sod % 3600 / 60, sec := sod % 60,
    wday := (days + 6) % 7 }

/-- the (year, mon, mday, hour, min, sec) a time denotes: what C35 means by "the time the string denotes" -/
def fieldsOf (t : Int) : Nat × Nat × Nat × Nat × Nat × Nat :=
  let c := gmtime t
  (c.year, c.mon, c.mday, c.hour, c.min, c.sec)

/-! ### `timegm` as glibc computes it: closed form, every field linear, no validity check -/

def isLeapI (y : Int) : Bool := y % 4 == 0 && (y % 100 != 0 || y % 400 == 0)

/-- days from 0000-01-01 to `y`-01-01 (negative for negative years): whole 400-year cycles of 146097 days plus the
years of the current cycle (`/`, `%` round towards -∞, so the remainder is in 0..399 for negative years too) -/
def daysBeforeYearI (y : Int) : Int := (y / 400) * 146097 + (daysBeforeYear (y % 400).toNat : Int)

/-- `__mon_yday`: days of the year before the 1st of month `m` (0..11) -/
def cumDays (leap : Bool) (m : Nat) : Int :=
  match m with
  | 0 => 0 | 1 => 31
  | 2 => if leap then 60 else 59
  | 3 => if leap then 91 else 90
  | 4 => if leap then 121 else 120
  | 5 => if leap then 152 else 151
  | 6 => if leap then 182 else 181
  | 7 => if leap then 213 else 212
  | 8 => if leap then 244 else 243
  | 9 => if leap then 274 else 273
  | 10 => if leap then 305 else 304
  | _ => if leap then 335 else 334

/-- `timegm` of a `struct tm` whose `tm_mon` is in 0..11 (all other fields arbitrary: a day of the month past the end of
the month carries into the next month, as in libc). `year` is `tm_year + 1900`. -/
def timegm (year : Int) (mon : Nat) (mday hour min sec : Int) : Int :=
  (daysBeforeYearI year + cumDays (isLeapI year) mon + (mday - 1) - (epochDays : Int)) * 86400
    + hour * 3600 + min * 60 + sec

end SquidModel.Date
