/-
C35 — the calendar walk and the closed-form day count are inverse to each other (induction over the walks).
-/
import SquidModel.Date.Calendar

namespace SquidModel.Date

theorem daysInYear_ge (y : Nat) : 365 ≤ daysInYear y ∧ daysInYear y ≤ 366 := by
  unfold daysInYear; split <;> omega

theorem monthLen_pos (leap : Bool) (m : Nat) : 28 ≤ monthLen leap m ∧ monthLen leap m ≤ 31 := by
  unfold monthLen; repeat' split
  all_goals omega

/-! ### year walk -/

theorem yearWalk_spec (f : Nat) : ∀ y d, d ≤ f →
    daysBeforeYear (yearWalk f y d).1 + (yearWalk f y d).2 = daysBeforeYear y + d ∧
    (yearWalk f y d).2 < daysInYear (yearWalk f y d).1 ∧ y ≤ (yearWalk f y d).1 := by
  induction f with
  | zero =>
    intro y d h
    have := daysInYear_ge y
    show daysBeforeYear y + d = daysBeforeYear y + d ∧ d < daysInYear y ∧ y ≤ y
    omega
  | succ f ih =>
    intro y d h
    have hy := daysInYear_ge y
    simp only [yearWalk]
    split
    · simp; omega
    · have := ih (y + 1) (d - daysInYear y) (by omega)
      simp only [daysBeforeYear] at this
      omega

theorem daysBeforeYear_mono {y y' : Nat} (h : y < y') : daysBeforeYear y + daysInYear y ≤ daysBeforeYear y' := by
  induction y' with
  | zero => omega
  | succ n ih =>
    simp only [daysBeforeYear]
    by_cases hn : y = n
    · subst hn; omega
    · have := ih (by omega); omega

/-! ### month walk -/

theorem monthWalk_spec (leap : Bool) (f : Nat) : ∀ m d,
    daysBeforeMonth leap (monthWalk leap f m d).1 + (monthWalk leap f m d).2 = daysBeforeMonth leap m + d ∧
    m ≤ (monthWalk leap f m d).1 ∧ (monthWalk leap f m d).1 ≤ m + f ∧
    ((monthWalk leap f m d).1 < m + f → (monthWalk leap f m d).2 < monthLen leap (monthWalk leap f m d).1) := by
  induction f with
  | zero => intro m d; simp [monthWalk]
  | succ f ih =>
    intro m d
    simp only [monthWalk]
    split
    · simp; omega
    · have := ih (m + 1) (d - monthLen leap m)
      simp only [daysBeforeMonth] at this
      omega

theorem daysBeforeMonth_mono (leap : Bool) {m m' : Nat} (h : m < m') :
    daysBeforeMonth leap m + monthLen leap m ≤ daysBeforeMonth leap m' := by
  induction m' with
  | zero => omega
  | succ n ih =>
    simp only [daysBeforeMonth]
    by_cases hn : m = n
    · subst hn; omega
    · have := ih (by omega); omega

theorem daysBeforeMonth_12 (leap : Bool) : daysBeforeMonth leap 12 = (if leap then 366 else 365) := by
  cases leap <;> rfl

theorem daysBeforeMonth_11 (leap : Bool) : daysBeforeMonth leap 11 = (if leap then 335 else 334) := by
  cases leap <;> rfl

/-- the day of the year of an existing date is inside the year -/
theorem dayOfYear_lt {y m d : Nat} (h : validDate y m d) :
    daysBeforeMonth (isLeap y) m + (d - 1) < daysInYear y := by
  obtain ⟨hm, hd1, hd2⟩ := h
  have h12 := daysBeforeMonth_12 (isLeap y)
  have : daysBeforeMonth (isLeap y) m + monthLen (isLeap y) m ≤ daysBeforeMonth (isLeap y) 12 :=
    daysBeforeMonth_mono _ hm
  unfold daysInYear
  cases hl : isLeap y <;> simp [hl] at * <;> omega

/-! ### the walk inverts the day count, and conversely -/

theorem monthWalk_year (leap : Bool) (r : Nat) (hr : r < (if leap then 366 else 365)) :
    (monthWalk leap 11 0 r).1 < 12 ∧ (monthWalk leap 11 0 r).2 < monthLen leap (monthWalk leap 11 0 r).1 ∧
    daysBeforeMonth leap (monthWalk leap 11 0 r).1 + (monthWalk leap 11 0 r).2 = r := by
  have hm := monthWalk_spec leap 11 0 r
  have h11 := daysBeforeMonth_11 leap
  simp only [daysBeforeMonth, Nat.zero_add] at hm
  by_cases hlt : (monthWalk leap 11 0 r).1 < 11
  · have := hm.2.2.2 (by omega)
    omega
  · have h11' : (monthWalk leap 11 0 r).1 = 11 := by omega
    rw [h11'] at hm ⊢
    have hl11 : monthLen leap 11 = 31 := rfl
    rw [hl11]
    cases leap <;> simp at h11 hr <;> omega

theorem civilOfDays_valid (n : Nat) :
    validDate (civilOfDays n).1 (civilOfDays n).2.1 (civilOfDays n).2.2 ∧
    daysOfCivil (civilOfDays n).1 (civilOfDays n).2.1 (civilOfDays n).2.2 = n := by
  have hy := yearWalk_spec n 0 n (Nat.le_refl _)
  have hm := monthWalk_year (isLeap (yearWalk n 0 n).1) (yearWalk n 0 n).2 hy.2.1
  simp only [civilOfDays, validDate, daysOfCivil]
  simp only [daysBeforeYear, Nat.zero_add] at hy
  refine ⟨⟨hm.1, by omega, by omega⟩, by omega⟩

theorem daysOfCivil_inj {y m d y' m' d' : Nat} (h : validDate y m d) (h' : validDate y' m' d')
    (e : daysOfCivil y m d = daysOfCivil y' m' d') : y = y' ∧ m = m' ∧ d = d' := by
  have r := dayOfYear_lt h
  have r' := dayOfYear_lt h'
  unfold daysOfCivil at e
  have hy : y = y' := by
    rcases Nat.lt_trichotomy y y' with hlt | heq | hgt
    · have := daysBeforeYear_mono hlt; omega
    · exact heq
    · have := daysBeforeYear_mono hgt; omega
  subst hy
  obtain ⟨_, hd1, hd2⟩ := h
  obtain ⟨_, hd1', hd2'⟩ := h'
  have hm : m = m' := by
    rcases Nat.lt_trichotomy m m' with hlt | heq | hgt
    · have := daysBeforeMonth_mono (isLeap y) hlt; omega
    · exact heq
    · have := daysBeforeMonth_mono (isLeap y) hgt; omega
  subst hm
  exact ⟨rfl, rfl, by omega⟩

theorem civilOfDays_daysOfCivil {y m d : Nat} (h : validDate y m d) :
    civilOfDays (daysOfCivil y m d) = (y, m, d) := by
  have := civilOfDays_valid (daysOfCivil y m d)
  have := daysOfCivil_inj this.1 h this.2
  ext <;> simp [this]

/-! ### closed forms used by the model of `timegm` -/

theorem isLeapI_natCast (y : Nat) : isLeapI (y : Int) = isLeap y := by
  have h4 : ((y : Int) % 4 == 0) = (y % 4 == 0) := by
    rw [Bool.eq_iff_iff]; simp; omega
  have h100 : ((y : Int) % 100 != 0) = (y % 100 != 0) := by
    rw [Bool.eq_iff_iff]; simp; omega
  have h400 : ((y : Int) % 400 == 0) = (y % 400 == 0) := by
    rw [Bool.eq_iff_iff]; simp; omega
  simp only [isLeapI, isLeap, h4, h100, h400]

theorem isLeap_add_400 (y : Nat) : isLeap (y + 400) = isLeap y := by
  have h4 : ((y + 400) % 4 == 0) = (y % 4 == 0) := by
    rw [Bool.eq_iff_iff]; simp; omega
  have h100 : ((y + 400) % 100 != 0) = (y % 100 != 0) := by
    rw [Bool.eq_iff_iff]; simp; omega
  have h400 : ((y + 400) % 400 == 0) = (y % 400 == 0) := by
    rw [Bool.eq_iff_iff]; simp
  simp only [isLeap, h4, h100, h400]

theorem daysBeforeYear_400 : daysBeforeYear 400 = 146097 := by decide +kernel

/-- the Gregorian calendar repeats every 400 years = 146097 days -/
theorem daysBeforeYear_add_400 (y : Nat) : daysBeforeYear (y + 400) = daysBeforeYear y + 146097 := by
  induction y with
  | zero =>
    show daysBeforeYear 400 = daysBeforeYear 0 + 146097
    rw [daysBeforeYear_400]; rfl
  | succ n ih =>
    show daysBeforeYear (n + 400) + daysInYear (n + 400) = (daysBeforeYear n + daysInYear n) + 146097
    rw [ih]; unfold daysInYear; rw [isLeap_add_400]; omega

theorem daysBeforeYear_cycles (q r : Nat) : daysBeforeYear (400 * q + r) = 146097 * q + daysBeforeYear r := by
  induction q with
  | zero => simp
  | succ n ih =>
    have : 400 * (n + 1) + r = (400 * n + r) + 400 := by omega
    rw [this, daysBeforeYear_add_400, ih]; omega

theorem daysBeforeYearI_natCast (y : Nat) : daysBeforeYearI (y : Int) = (daysBeforeYear y : Int) := by
  unfold daysBeforeYearI
  have h1 : (y : Int) / 400 = ((y / 400 : Nat) : Int) := by omega
  have h2 : ((y : Int) % 400).toNat = y % 400 := by omega
  rw [h1, h2]
  have := daysBeforeYear_cycles (y / 400) (y % 400)
  have e : 400 * (y / 400) + y % 400 = y := by omega
  rw [e] at this
  omega

theorem cumDays_eq (leap : Bool) {m : Nat} (h : m < 12) : cumDays leap m = (daysBeforeMonth leap m : Int) := by
  have : m = 0 ∨ m = 1 ∨ m = 2 ∨ m = 3 ∨ m = 4 ∨ m = 5 ∨ m = 6 ∨ m = 7 ∨ m = 8 ∨ m = 9 ∨ m = 10 ∨ m = 11 := by omega
  rcases this with h | h | h | h | h | h | h | h | h | h | h | h <;> subst h <;> cases leap <;> rfl

/-- days since the epoch of an existing date, as `timegm` computes them -/
theorem timegm_days {y m d : Nat} (h : validDate y m d) :
    daysBeforeYearI (y : Int) + cumDays (isLeapI (y : Int)) m + ((d : Int) - 1) = (daysOfCivil y m d : Int) := by
  rw [daysBeforeYearI_natCast, isLeapI_natCast, cumDays_eq _ h.1]
  unfold daysOfCivil
  have := h.2.1
  omega

/-! ### gmtime / timegm -/

theorem gmtime_valid (t : Int) : validDate (gmtime t).year (gmtime t).mon (gmtime t).mday ∧
    (gmtime t).hour < 24 ∧ (gmtime t).min < 60 ∧ (gmtime t).sec < 60 ∧ (gmtime t).wday < 7 := by
  refine ⟨(civilOfDays_valid _).1, ?_, ?_, ?_, ?_⟩ <;> simp only [gmtime] <;> omega

/-- `timegm (gmtime t) = t` for every `t` from year 0 on -/
theorem timegm_gmtime (t : Int) (h : -((epochDays : Int) * 86400) ≤ t) :
    timegm (gmtime t).year (gmtime t).mon (gmtime t).mday (gmtime t).hour (gmtime t).min (gmtime t).sec = t := by
  have hv := civilOfDays_valid (t / 86400 + (epochDays : Int)).toNat
  have hd := timegm_days hv.1
  rw [hv.2] at hd
  unfold timegm
  simp only [gmtime]
  rw [hd]
  simp only [epochDays] at *
  omega

/-- `gmtime (timegm fields) = fields` for every existing date and time of day -/
theorem fieldsOf_timegm {y m d h mi s : Nat} (hv : validDate y m d) (hh : h < 24) (hmi : mi < 60) (hs : s < 60) :
    fieldsOf (timegm y m d h mi s) = (y, m, d, h, mi, s) := by
  have hd := timegm_days hv
  have hc := civilOfDays_daysOfCivil hv
  unfold fieldsOf gmtime timegm
  rw [hd]
  have e1 : (((daysOfCivil y m d : Int) - (epochDays : Int)) * 86400 + (h : Int) * 3600 + (mi : Int) * 60 + (s : Int)) / 86400
      + (epochDays : Int) = (daysOfCivil y m d : Int) := by omega
  have e2 : (((daysOfCivil y m d : Int) - (epochDays : Int)) * 86400 + (h : Int) * 3600 + (mi : Int) * 60 + (s : Int)) % 86400
      = ((h * 3600 + mi * 60 + s : Nat) : Int) := by omega
  simp only [e1, e2, Int.toNat_natCast, hc]
  refine Prod.ext rfl (Prod.ext rfl (Prod.ext rfl (Prod.ext ?_ (Prod.ext ?_ ?_)))) <;> simp <;> omega

/-- the time a (date, time of day) denotes is unique -/
theorem fieldsOf_inj {t t' : Int} (h : -((epochDays : Int) * 86400) ≤ t) (h' : -((epochDays : Int) * 86400) ≤ t')
    (e : fieldsOf t = fieldsOf t') : t = t' := by
  have a := timegm_gmtime t h
  have b := timegm_gmtime t' h'
  simp only [fieldsOf, Prod.mk.injEq] at e
  obtain ⟨e1, e2, e3, e4, e5, e6⟩ := e
  rw [e1, e2, e3, e4, e5, e6] at a
  omega

end SquidModel.Date
