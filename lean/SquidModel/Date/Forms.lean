/-
C35 — the three HTTP date forms of RFC 9110 section 5.6.7 as string constructors (the *specification* side:
nothing here is taken from Squid), and what such a string denotes.

  IMF-fixdate  = day-name "," SP 2DIGIT SP month SP 4DIGIT SP 2DIGIT ":" 2DIGIT ":" 2DIGIT SP "GMT"
  rfc850-date  = day-name-l "," SP 2DIGIT "-" month "-" 2DIGIT SP 2DIGIT ":" 2DIGIT ":" 2DIGIT SP "GMT"
  asctime-date = day-name SP month SP ( 2DIGIT / ( SP 1DIGIT )) SP 2DIGIT ":" 2DIGIT ":" 2DIGIT SP 4DIGIT

The day name carries no information (RFC 9110 lets a recipient ignore it): a string denotes the time whose calendar
fields (`fieldsOf`, i.e. the recursive calendar walk) are the ones written in it.
Core Lean only.
-/
import SquidModel.Date.Libc

namespace SquidModel.Date
open SquidModel

/-- day-name: Mon Tue Wed Thu Fri Sat Sun -/
def dayNames : List Bytes :=
  [[77, 111, 110], [84, 117, 101], [87, 101, 100], [84, 104, 117], [70, 114, 105], [83, 97, 116], [83, 117, 110]]

/-- day-name-l: Monday … Sunday -/
def dayNamesLong : List Bytes :=
  [[77, 111, 110, 100, 97, 121], [84, 117, 101, 115, 100, 97, 121], [87, 101, 100, 110, 101, 115, 100, 97, 121],
   [84, 104, 117, 114, 115, 100, 97, 121], [70, 114, 105, 100, 97, 121], [83, 97, 116, 117, 114, 100, 97, 121],
   [83, 117, 110, 100, 97, 121]]

/-- month: Jan … Dec (index = month - 1) -/
def monthAbbr : List Bytes :=
  [[74, 97, 110], [70, 101, 98], [77, 97, 114], [65, 112, 114], [77, 97, 121], [74, 117, 110],
   [74, 117, 108], [65, 117, 103], [83, 101, 112], [79, 99, 116], [78, 111, 118], [68, 101, 99]]

/-- 4DIGIT -/
def dec4 (n : Nat) : Bytes := [dch (n / 1000), dch (n / 100), dch (n / 10), dch n]

/-- "GMT" -/
def gmtBytes : Bytes := [71, 77, 84]

/-- time-of-day = hour ":" minute ":" second -/
def timeOfDay (hh mm ss : Nat) : Bytes := dec2 hh ++ 58 :: (dec2 mm ++ 58 :: dec2 ss)

def imfFixdate (w : Bytes) (dd : Nat) (mon : Bytes) (yyyy hh mm ss : Nat) : Bytes :=
  w ++ 44 :: 32 :: (dec2 dd ++ 32 :: (mon ++ 32 :: (dec4 yyyy ++ 32 :: (timeOfDay hh mm ss ++ 32 :: gmtBytes))))

def rfc850Date (w : Bytes) (dd : Nat) (mon : Bytes) (yy hh mm ss : Nat) : Bytes :=
  w ++ 44 :: 32 :: (dec2 dd ++ 45 :: (mon ++ 45 :: (dec2 yy ++ 32 :: (timeOfDay hh mm ss ++ 32 :: gmtBytes))))

/-- `dayTok` is the `( 2DIGIT / ( SP 1DIGIT ))` part -/
def asctimeDate (w mon dayTok : Bytes) (hh mm ss yyyy : Nat) : Bytes :=
  w ++ 32 :: (mon ++ 32 :: (dayTok ++ 32 :: (timeOfDay hh mm ss ++ 32 :: dec4 yyyy)))

/-- `s` is an IMF-fixdate with these fields (month 0-based) -/
def IsImfFixdate (s : Bytes) (yyyy m dd hh mm ss : Nat) : Prop :=
  ∃ w, w ∈ dayNames ∧ m < 12 ∧ dd < 100 ∧ yyyy < 10000 ∧ hh < 100 ∧ mm < 100 ∧ ss < 100 ∧
    s = imfFixdate w dd (monthAbbr.getD m []) yyyy hh mm ss

/-- `s` is an rfc850-date with these fields (`yy` = the two year digits) -/
def IsRfc850Date (s : Bytes) (yy m dd hh mm ss : Nat) : Prop :=
  ∃ w, w ∈ dayNamesLong ∧ m < 12 ∧ dd < 100 ∧ yy < 100 ∧ hh < 100 ∧ mm < 100 ∧ ss < 100 ∧
    s = rfc850Date w dd (monthAbbr.getD m []) yy hh mm ss

/-- `s` is an asctime-date with these fields -/
def IsAsctimeDate (s : Bytes) (yyyy m dd hh mm ss : Nat) : Prop :=
  ∃ w dayTok, w ∈ dayNames ∧ m < 12 ∧ dd < 100 ∧ yyyy < 10000 ∧ hh < 100 ∧ mm < 100 ∧ ss < 100 ∧
    (dayTok = dec2 dd ∨ (dd < 10 ∧ dayTok = [32, dch dd])) ∧
    s = asctimeDate w (monthAbbr.getD m []) dayTok hh mm ss yyyy

/-- the time `t` is the one with these calendar fields (there is at most one: `fieldsOf_inj`) -/
def Denotes (yyyy m dd hh mm ss : Nat) (t : Int) : Prop :=
  -((epochDays : Int) * 86400) ≤ t ∧ fieldsOf t = (yyyy, m, dd, hh, mm, ss)

/-! ### the two-digit year of an rfc850-date (RFC 9110 5.6.7)

"Recipients of a timestamp value in rfc850-date format, which uses a two-digit year, MUST interpret a timestamp that
appears to be more than 50 years in the future as representing the most recent year in the past that had the same
last two digits." `now` is the recipient's clock. "More than 50 years in the future" is read on the calendar fields:
the fields compare (lexicographically) greater than those of `now` with 50 added to the year. -/

def fieldsLe : Nat × Nat × Nat × Nat × Nat × Nat → Nat × Nat × Nat × Nat × Nat × Nat → Bool
  | (y, m, d, h, mi, s), (y', m', d', h', mi', s') =>
    y < y' || (y == y' && (m < m' || (m == m' && (d < d' || (d == d' && (h < h' || (h == h' && (mi < mi' || (mi == mi' && s ≤ s')))))))))

def plus50 : Nat × Nat × Nat × Nat × Nat × Nat → Nat × Nat × Nat × Nat × Nat × Nat
  | (y, r) => (y + 50, r)

/-- `yyyy` is the year an rfc850-date with year digits `yy` and the given other fields stands for at time `now` -/
def Rfc850Year (now : Int) (yy yyyy m dd hh mm ss : Nat) : Prop :=
  yyyy % 100 = yy ∧
  fieldsLe (yyyy, m, dd, hh, mm, ss) (plus50 (fieldsOf now)) = true ∧
  fieldsLe (yyyy + 100, m, dd, hh, mm, ss) (plus50 (fieldsOf now)) = false

instance (now : Int) (yy yyyy m dd hh mm ss : Nat) : Decidable (Rfc850Year now yy yyyy m dd hh mm ss) := by
  unfold Rfc850Year; exact inferInstance

end SquidModel.Date
