/-
C35 — what the model of `parse_date` / `parse_date_elements` computes on strings of the three RFC 9110 date forms,
and what the model of `FormatRfc1123` produces.
-/
import SquidModel.Base.Finite
import SquidModel.Date.Parse
import SquidModel.Date.Forms
import SquidModel.Date.CalendarLemmas

namespace SquidModel.Date
open SquidModel

/-! ### facts about single digit bytes -/

theorem dch_cases (P : UInt8 → Prop) (h : ∀ j, j < 10 → P (UInt8.ofNat (48 + j))) (k : Nat) : P (dch k) :=
  h (k % 10) (Nat.mod_lt _ (by decide))

theorem isDigit_dch (k : Nat) : isDigit (dch k) = true :=
  dch_cases (fun c => isDigit c = true) (allBelow_spec (n := 10) (p := fun j => isDigit (UInt8.ofNat (48 + j))) (by decide)) k

theorem isSpace_dch (k : Nat) : isSpace (dch k) = false :=
  dch_cases (fun c => isSpace c = false)
    (fun j hj => by simpa using allBelow_spec (n := 10) (p := fun j => !isSpace (UInt8.ofNat (48 + j))) (by decide) j hj) k

theorem isDelim_dch (k : Nat) : isDelim (dch k) = false :=
  dch_cases (fun c => isDelim c = false)
    (fun j hj => by simpa using allBelow_spec (n := 10) (p := fun j => !isDelim (UInt8.ofNat (48 + j))) (by decide) j hj) k

theorem dch_ne (x : UInt8) (hx : isDigit x = false) (k : Nat) : (dch k == x) = false := by
  have := isDigit_dch k
  cases h : dch k == x
  · rfl
  · rw [beq_iff_eq] at h; rw [h] at this; rw [this] at hx; cases hx

theorem toNat_dch (k : Nat) : (dch k).toNat = 48 + k % 10 := by
  unfold dch
  rw [UInt8.toNat_ofNat']
  omega

theorem schar_dch (k : Nat) : schar (dch k) = 48 + ((k % 10 : Nat) : Int) := by
  have h := toNat_dch k
  have hlt : dch k < 128 := by
    rw [UInt8.lt_iff_toNat_lt, h]; show 48 + k % 10 < 128; omega
  unfold schar
  rw [if_pos hlt, h]; omega

/-! ### `atoi` on digit strings -/

theorem digitsVal_dch (acc k : Nat) (cs : Bytes) : digitsVal acc (dch k :: cs) = digitsVal (acc * 10 + k % 10) cs := by
  simp only [digitsVal, isDigit_dch, if_true, toNat_dch]
  congr 1; omega

theorem digitsVal_stop (acc : Nat) (c : UInt8) (cs : Bytes) (h : isDigit c = false) : digitsVal acc (c :: cs) = acc := by
  simp [digitsVal, h]

theorem wrap_small (v : Nat) (h : v < 10000) : wrapInt (satLong (v : Int)) = (v : Int) := by
  unfold wrapInt satLong
  have h1 : ¬ ((v : Int) > 9223372036854775807) := by omega
  have h2 : ¬ ((v : Int) < -9223372036854775808) := by omega
  rw [if_neg h1, if_neg h2]; omega

/-- `atoi` of a string that starts with a digit -/
theorem atoi_dch (k : Nat) (cs : Bytes) : atoi (dch k :: cs) = wrapInt (satLong (digitsVal 0 (dch k :: cs))) := by
  have h45 : dch k ≠ 45 := by
    intro h; have := dch_ne 45 (by decide) k; simp [h] at this
  have h43 : dch k ≠ 43 := by
    intro h; have := dch_ne 43 (by decide) k; simp [h] at this
  simp [atoi, skipSpace, isSpace_dch, h45, h43]

/-- a 2DIGIT field followed by the end of the string or by a non-digit -/
theorem atoi_dec2 (n : Nat) (h : n < 100) (rest : Bytes) (hr : isDigit (byteAt rest 0) = false) :
    atoi (dec2 n ++ rest) = (n : Int) := by
  show atoi (dch (n / 10) :: dch n :: rest) = _
  rw [atoi_dch, digitsVal_dch, digitsVal_dch]
  have e : digitsVal ((0 * 10 + n / 10 % 10) * 10 + n % 10) rest = n := by
    have : (0 * 10 + n / 10 % 10) * 10 + n % 10 = n := by omega
    rw [this]
    cases rest with
    | nil => rfl
    | cons c cs => exact digitsVal_stop _ _ _ (by simpa [byteAt] using hr)
  rw [e, wrap_small n (by omega)]

theorem atoi_dec4 (n : Nat) (h : n < 10000) : atoi (dec4 n) = (n : Int) := by
  show atoi (dch (n / 1000) :: dch (n / 100) :: dch (n / 10) :: dch n :: []) = _
  rw [atoi_dch, digitsVal_dch, digitsVal_dch, digitsVal_dch, digitsVal_dch]
  have : (((0 * 10 + n / 1000 % 10) * 10 + n / 100 % 10) * 10 + n / 10 % 10) * 10 + n % 10 = n := by omega
  rw [this]
  exact wrap_small n h

theorem atoi_dch1 (n : Nat) (h : n < 10) : atoi [dch n] = (n : Int) := by
  rw [atoi_dch, digitsVal_dch]
  have : 0 * 10 + n % 10 = n := by omega
  rw [this]
  exact wrap_small n (by omega)

/-! ### the `strtok` loop -/

/-- no `,` / SP inside -/
def noDelim (a : Bytes) : Bool := a.all (fun c => !isDelim c)

theorem tokAux_run (a : Bytes) (h : noDelim a = true) : ∀ (cur rest : Bytes),
    tokAux cur (a ++ rest) = tokAux (a.reverse ++ cur) rest := by
  induction a with
  | nil => intro cur rest; rfl
  | cons c cs ih =>
    intro cur rest
    simp only [noDelim, List.all_cons, Bool.and_eq_true, Bool.not_eq_true'] at h
    have := ih (by simpa [noDelim] using h.2) (c :: cur) rest
    simp only [List.cons_append, tokAux, h.1, List.reverse_cons, List.append_assoc]
    simpa using this

/-- a non-empty delimiter-free run followed by a delimiter is the next token -/
theorem tokens_tok (a : Bytes) (hne : a ≠ []) (h : noDelim a = true) (c : UInt8) (hc : isDelim c = true) (rest : Bytes) :
    tokens (a ++ c :: rest) = a :: tokens rest := by
  unfold tokens
  rw [tokAux_run a h]
  have : (a.reverse ++ []).isEmpty = false := by
    cases a with
    | nil => exact absurd rfl hne
    | cons x xs => simp
  simp only [tokAux, hc, this, if_true]
  simp

theorem tokens_delim (c : UInt8) (hc : isDelim c = true) (rest : Bytes) : tokens (c :: rest) = tokens rest := by
  unfold tokens
  simp [tokAux, hc]

theorem tokens_last (a : Bytes) (hne : a ≠ []) (h : noDelim a = true) : tokens a = [a] := by
  have := tokAux_run a h [] []
  unfold tokens
  rw [List.append_nil] at this
  rw [this]
  cases a with
  | nil => exact absurd rfl hne
  | cons x xs => simp [tokAux]

theorem noDelim_append (a b : Bytes) : noDelim (a ++ b) = (noDelim a && noDelim b) := by
  simp [noDelim, List.all_append]

theorem noDelim_dec2 (n : Nat) : noDelim (dec2 n) = true := by
  simp [noDelim, dec2, isDelim_dch]

theorem noDelim_dec4 (n : Nat) : noDelim (dec4 n) = true := by
  simp [noDelim, dec4, isDelim_dch]

theorem noDelim_timeOfDay (hh mm ss : Nat) : noDelim (timeOfDay hh mm ss) = true := by
  simp [noDelim, timeOfDay, dec2, isDelim_dch, (by decide : isDelim 58 = false)]

/-! ### `strchr` -/

theorem splitAtByte_append (x : UInt8) (a rest : Bytes) (h : hasByte x a = false) :
    splitAtByte x (a ++ x :: rest) = some (a, rest) := by
  induction a with
  | nil => simp [splitAtByte]
  | cons c cs ih =>
    simp only [hasByte, List.any_cons, Bool.or_eq_false_iff] at h
    have := ih (by simpa [hasByte] using h.2)
    simp [splitAtByte, h.1, this]

theorem splitAtByte_none (x : UInt8) (a : Bytes) (h : hasByte x a = false) : splitAtByte x a = none := by
  induction a with
  | nil => rfl
  | cons c cs ih =>
    simp only [hasByte, List.any_cons, Bool.or_eq_false_iff] at h
    have := ih (by simpa [hasByte] using h.2)
    simp [splitAtByte, h.1, this]

theorem hasByte_dec2 (x : UInt8) (hx : isDigit x = false) (n : Nat) : hasByte x (dec2 n) = false := by
  simp [hasByte, dec2, dch_ne x hx]

theorem hasByte_dec4 (x : UInt8) (hx : isDigit x = false) (n : Nat) : hasByte x (dec4 n) = false := by
  simp [hasByte, dec4, dch_ne x hx]

theorem hasByte_colon_time (hh mm ss : Nat) : hasByte 58 (timeOfDay hh mm ss) = true := by
  simp [hasByte, timeOfDay]

/-! ### the time-of-day token -/

theorem makeNum_time (hh : Nat) (h : hh < 100) (rest : Bytes) : makeNum (dec2 hh ++ rest) = (hh : Int) := by
  show makeNum (dch (hh / 10) :: dch hh :: rest) = _
  simp only [makeNum, byteAt, List.getD_cons_zero, List.getD_cons_succ, isDigit_dch, if_true, schar_dch]
  omega

theorem time_fields (hh mm ss : Nat) (hm : mm < 100) (hs : ss < 100) :
    splitAtByte 58 (timeOfDay hh mm ss) = some (dec2 hh, dec2 mm ++ 58 :: dec2 ss) ∧
    atoi (dec2 mm ++ 58 :: dec2 ss) = (mm : Int) ∧
    splitAtByte 58 (dec2 mm ++ 58 :: dec2 ss) = some (dec2 mm, dec2 ss) ∧
    atoi (dec2 ss) = (ss : Int) := by
  refine ⟨splitAtByte_append _ _ _ (hasByte_dec2 _ (by decide) _), atoi_dec2 mm hm _ (by show isDigit 58 = false; decide),
    splitAtByte_append _ _ _ (hasByte_dec2 _ (by decide) _), ?_⟩
  have := atoi_dec2 ss hs [] (by decide)
  simpa using this

/-! ### the name tables (RFC grammar on one side, the regenerated Squid / strftime tables on the other) -/

/-- what the parse needs from a day or month name: a token that does not start with a digit and has no `-` -/
def nameOk (w : Bytes) : Bool :=
  w != [] && noDelim w && !isDigit (byteAt w 0) && !hasByte 45 w && decide (w.length ≤ 9)

theorem dayNames_ok : ∀ w, w ∈ dayNames → nameOk w = true := by decide
theorem dayNamesLong_ok : ∀ w, w ∈ dayNamesLong → nameOk w = true := by decide
theorem month_ok : ∀ m, m < 12 → nameOk (monthAbbr.getD m []) = true ∧ makeMonth (monthAbbr.getD m []) = (m : Int) := by
  decide

/-- the names `strftime` emits are the RFC's -/
theorem strftime_wday_ok : ∀ d, d < 7 → Gen.DateNames.wdayAbbr.getD d [] ∈ dayNames := by decide
theorem strftime_mon_ok : ∀ m, m < 12 → Gen.DateNames.monAbbr.getD m [] = monthAbbr.getD m [] := by decide

theorem nameOk_parts {w : Bytes} (h : nameOk w = true) :
    w ≠ [] ∧ noDelim w = true ∧ isDigit (byteAt w 0) = false ∧ hasByte 45 w = false ∧ w.length ≤ 9 := by
  simp only [nameOk, Bool.and_eq_true, bne_iff_ne, ne_eq, Bool.not_eq_true', decide_eq_true_eq] at h
  exact ⟨h.1.1.1.1, h.1.1.1.2, h.1.1.2, h.1.2, h.2⟩

theorem copy_limit : Gen.DateNames.copyN - 1 = 63 := by decide

/-! ### `parse_date_elements` on a well-formed time of day -/

/-- the fields pass `tmSaneValues`: time of day in range, the day exists in month `m` of a (leap / common) year -/
def saneFields (leap : Bool) (m dd hh mm ss : Nat) : Prop :=
  ss ≤ 59 ∧ mm ≤ 59 ∧ hh ≤ 23 ∧ 1 ≤ dd ∧ dd ≤ monthLen leap m

instance (leap : Bool) (m dd hh mm ss : Nat) : Decidable (saneFields leap m dd hh mm ss) := by
  unfold saneFields; exact inferInstance

/-- the common-year probe of `tmSaneValues` is explained by the leap-year probe and the Feb-29 rule -/
theorem monthDays_probes :
    Gen.DateNames.monthDaysCommon = Gen.DateNames.monthDays.zipIdx.map (fun p => if p.2 = 1 then p.1 - 1 else p.1) := by
  decide

/-- the regenerated `monthDays[]` table plus the Feb-29 rule of `tmSaneValues` is the length of the month -/
theorem monthDays_rule (leap : Bool) {m : Nat} (hm : m < 12) (dd : Nat) (h1 : 1 ≤ dd) :
    (((dd : Int) ≤ Gen.DateNames.monthDays.getD m 0) ∧ ¬ (m = 1 ∧ dd = 29 ∧ leap = false)) ↔ dd ≤ monthLen leap m := by
  have : m = 0 ∨ m = 1 ∨ m = 2 ∨ m = 3 ∨ m = 4 ∨ m = 5 ∨ m = 6 ∨ m = 7 ∨ m = 8 ∨ m = 9 ∨ m = 10 ∨ m = 11 := by omega
  rcases this with h | h | h | h | h | h | h | h | h | h | h | h <;> subst h <;> cases leap <;>
    simp [Gen.DateNames.monthDays, monthLen] <;> omega

theorem tmSane_iff (ty : Int) {m dd hh mm ss : Nat} (hm12 : m < 12) :
    tmSane { year := ty, mon := m, mday := dd, hour := hh, min := mm, sec := ss } = true ↔
      saneFields (isLeapI (1900 + ty)) m dd hh mm ss := by
  simp only [tmSane, Bool.and_eq_true, decide_eq_true_eq, saneFields, Bool.not_eq_true', Bool.and_eq_false_imp,
    beq_iff_eq, Int.toNat_natCast]
  simp only [Gen.DateNames.secMin, Gen.DateNames.secMax, Gen.DateNames.minMin, Gen.DateNames.minMax,
    Gen.DateNames.hourMin, Gen.DateNames.hourMax, Gen.DateNames.mdayMin, Gen.DateNames.mdayMax,
    Gen.DateNames.monMin, Gen.DateNames.monMax]
  have hml := monthLen_pos (isLeapI (1900 + ty)) m
  constructor
  · intro h
    have h1 : 1 ≤ dd := by omega
    have := (monthDays_rule (isLeapI (1900 + ty)) hm12 dd h1).1 ⟨h.1.2, by
      intro ⟨a, b, c⟩
      have := h.2 ⟨by omega, by omega⟩
      simp [c] at this⟩
    omega
  · intro h
    have h1 : 1 ≤ dd := by omega
    have := (monthDays_rule (isLeapI (1900 + ty)) hm12 dd h1).2 h.2.2.2.2
    refine ⟨⟨by omega, this.1⟩, ?_⟩
    intro a
    cases hl : isLeapI (1900 + ty)
    · exact absurd ⟨by omega, by omega, hl⟩ this.2
    · rfl

theorem elements_general {wd : Option Bytes} {dayTok mon yearTok : Bytes} {zone : Option Bytes} {dd m hh mm ss : Nat} {ty : Int}
    (hz : zone = none ∨ zone = some gmtBytes) (hday : atoi dayTok = (dd : Int)) (hmon : makeMonth mon = (m : Int)) (hm12 : m < 12)
    (hyear : adjustYear yearTok = ty) (hhh : hh < 100) (hmm : mm < 100) (hss : ss < 100) :
    parseDateElements { wday := wd, day := some dayTok, month := some mon, year := some yearTok,
                        time := some (timeOfDay hh mm ss), zone := zone } =
      if saneFields (isLeapI (1900 + ty)) m dd hh mm ss then some { year := ty, mon := m, mday := dd, hour := hh, min := mm, sec := ss } else none := by
  obtain ⟨t1, t2, t3, t4⟩ := time_fields hh mm ss hmm hss
  have hnum : makeNum (timeOfDay hh mm ss) = (hh : Int) := makeNum_time hh hhh _
  have hzone : zoneBad zone = false := by
    rcases hz with h | h <;> subst h
    · rfl
    · decide
  have hneg : ¬ ((m : Int) < 0) := by omega
  simp only [parseDateElements, hzone, hday, hmon, hyear, hnum, t1, t2, t3, t4, hneg, if_false, Bool.false_eq_true]
  by_cases hs : saneFields (isLeapI (1900 + ty)) m dd hh mm ss
  · rw [if_pos ((tmSane_iff ty hm12).2 hs), if_pos hs]
  · rw [if_neg (fun h => hs ((tmSane_iff ty hm12).1 h)), if_neg hs]

theorem take_copy (s : Bytes) (h : s.length ≤ 63) : s.take (Gen.DateNames.copyN - 1) = s := by
  rw [copy_limit]; exact List.take_of_length_le h

/-- from the token walk and the element conversion to `ParseRfc1123` -/
theorem parse_of_run {s : Bytes} {f : Fields} {c : Prop} [Decidable c] {tm : Tm}
    (hlen : s.length ≤ 63) (hrun : run {} (tokens s) = some f)
    (hel : parseDateElements f = if c then some tm else none) :
    parseRfc1123 s = if c then timegm (1900 + tm.year) tm.mon.toNat tm.mday tm.hour tm.min tm.sec else -1 := by
  unfold parseRfc1123 parseDate
  rw [take_copy s hlen, hrun]
  simp only [hel]
  by_cases hc : c
  · simp only [if_pos hc]
  · simp only [if_neg hc]

/-! ### IMF-fixdate -/

theorem tokens_imf {w mon : Bytes} (hw : nameOk w = true) (hmon : nameOk mon = true) (dd yyyy hh mm ss : Nat) :
    tokens (imfFixdate w dd mon yyyy hh mm ss) = [w, dec2 dd, mon, dec4 yyyy, timeOfDay hh mm ss, gmtBytes] := by
  obtain ⟨w1, w2, _, _, _⟩ := nameOk_parts hw
  obtain ⟨m1, m2, _, _, _⟩ := nameOk_parts hmon
  unfold imfFixdate
  rw [tokens_tok w w1 w2 44 (by decide), tokens_delim 32 (by decide),
    tokens_tok (dec2 dd) (by simp [dec2]) (noDelim_dec2 _) 32 (by decide),
    tokens_tok mon m1 m2 32 (by decide),
    tokens_tok (dec4 yyyy) (by simp [dec4]) (noDelim_dec4 _) 32 (by decide),
    tokens_tok (timeOfDay hh mm ss) (by simp [timeOfDay, dec2]) (noDelim_timeOfDay _ _ _) 32 (by decide),
    tokens_last gmtBytes (by decide) (by decide)]

theorem run_imf {w mon : Bytes} (hw : nameOk w = true) (hmon : nameOk mon = true) (dd yyyy hh mm ss : Nat) :
    run {} [w, dec2 dd, mon, dec4 yyyy, timeOfDay hh mm ss, gmtBytes] =
      some { wday := some w, day := some (dec2 dd), month := some mon, year := some (dec4 yyyy),
             time := some (timeOfDay hh mm ss), zone := some gmtBytes } := by
  obtain ⟨_, _, w3, _, _⟩ := nameOk_parts hw
  obtain ⟨_, _, m3, _, _⟩ := nameOk_parts hmon
  have d0 : isDigit (byteAt (dec2 dd) 0) = true := isDigit_dch _
  have y0 : isDigit (byteAt (dec4 yyyy) 0) = true := isDigit_dch _
  have t0 : isDigit (byteAt (timeOfDay hh mm ss) 0) = true := isDigit_dch _
  have g0 : isDigit (byteAt gmtBytes 0) = false := by decide
  simp [run, step, w3, m3, d0, y0, t0, g0, splitAtByte_none 45 _ (hasByte_dec2 45 (by decide) dd),
    hasByte_dec4 58 (by decide) yyyy, hasByte_colon_time]

theorem adjustYear_dec4 (yyyy : Nat) (h : yyyy < 10000) : adjustYear (dec4 yyyy) = (yyyy : Int) - 1900 := by
  unfold adjustYear
  rw [atoi_dec4 yyyy h]
  simp [dec4]

theorem length_time (hh mm ss : Nat) : (timeOfDay hh mm ss).length = 8 := by simp [timeOfDay, dec2]

/-- `ParseRfc1123` on an IMF-fixdate: the sanity check, then `timegm` of exactly the written fields -/
theorem parse_imf {w : Bytes} {m dd yyyy hh mm ss : Nat} (hw : w ∈ dayNames) (hm : m < 12)
    (hdd : dd < 100) (hy : yyyy < 10000) (hhh : hh < 100) (hmm : mm < 100) (hss : ss < 100) :
    parseRfc1123 (imfFixdate w dd (monthAbbr.getD m []) yyyy hh mm ss) =
      if saneFields (isLeap yyyy) m dd hh mm ss then timegm yyyy m dd hh mm ss else -1 := by
  have hwo := dayNames_ok w hw
  obtain ⟨hmo, hmk⟩ := month_ok m hm
  have hlen : (imfFixdate w dd (monthAbbr.getD m []) yyyy hh mm ss).length ≤ 63 := by
    have := (nameOk_parts hwo).2.2.2.2
    have := (nameOk_parts hmo).2.2.2.2
    simp only [imfFixdate, List.length_append, List.length_cons, length_time, dec2, dec4, gmtBytes, List.length_nil]
    omega
  have hd : atoi (dec2 dd) = (dd : Int) := by simpa using atoi_dec2 dd hdd [] (by decide)
  have := parse_of_run hlen (by rw [tokens_imf hwo hmo]; exact run_imf hwo hmo dd yyyy hh mm ss)
    (elements_general (Or.inr rfl) hd hmk hm (adjustYear_dec4 yyyy hy) hhh hmm hss)
  rw [this]
  have e : (1900 : Int) + ((yyyy : Int) - 1900) = (yyyy : Int) := by omega
  simp only [e, Int.toNat_natCast, isLeapI_natCast]

/-! ### rfc850-date -/

/-- the `DD-Mon-YY` token -/
def date2 (dd : Nat) (mon : Bytes) (yy : Nat) : Bytes := dec2 dd ++ 45 :: (mon ++ 45 :: dec2 yy)

theorem noDelim_date2 {mon : Bytes} (hmon : noDelim mon = true) (dd yy : Nat) : noDelim (date2 dd mon yy) = true := by
  unfold date2
  rw [noDelim_append, noDelim_dec2]
  show (true && noDelim (45 :: (mon ++ 45 :: dec2 yy))) = true
  have : noDelim (45 :: (mon ++ 45 :: dec2 yy)) = (noDelim [45] && (noDelim mon && (noDelim [45] && noDelim (dec2 yy)))) := by
    rw [← noDelim_append, ← noDelim_append, ← noDelim_append]; rfl
  rw [this, hmon, noDelim_dec2]; decide

theorem tokens_850 {w mon : Bytes} (hw : nameOk w = true) (hmon : nameOk mon = true) (dd yy hh mm ss : Nat) :
    tokens (rfc850Date w dd mon yy hh mm ss) = [w, date2 dd mon yy, timeOfDay hh mm ss, gmtBytes] := by
  obtain ⟨w1, w2, _, _, _⟩ := nameOk_parts hw
  obtain ⟨m1, m2, _, _, _⟩ := nameOk_parts hmon
  have e : rfc850Date w dd mon yy hh mm ss =
      w ++ 44 :: 32 :: (date2 dd mon yy ++ 32 :: (timeOfDay hh mm ss ++ 32 :: gmtBytes)) := by
    simp [rfc850Date, date2, List.append_assoc]
  rw [e, tokens_tok w w1 w2 44 (by decide), tokens_delim 32 (by decide),
    tokens_tok (date2 dd mon yy) (by simp [date2, dec2]) (noDelim_date2 m2 _ _) 32 (by decide),
    tokens_tok (timeOfDay hh mm ss) (by simp [timeOfDay, dec2]) (noDelim_timeOfDay _ _ _) 32 (by decide),
    tokens_last gmtBytes (by decide) (by decide)]

theorem run_850 {w mon : Bytes} (hw : nameOk w = true) (hmon : nameOk mon = true) (dd yy hh mm ss : Nat) :
    run {} [w, date2 dd mon yy, timeOfDay hh mm ss, gmtBytes] =
      some { wday := some w, day := some (dec2 dd), month := some mon, year := some (dec2 yy),
             time := some (timeOfDay hh mm ss), zone := some gmtBytes } := by
  obtain ⟨_, _, w3, _, _⟩ := nameOk_parts hw
  obtain ⟨_, _, _, m4, _⟩ := nameOk_parts hmon
  have d0 : isDigit (byteAt (date2 dd mon yy) 0) = true := isDigit_dch _
  have t0 : isDigit (byteAt (timeOfDay hh mm ss) 0) = true := isDigit_dch _
  have g0 : isDigit (byteAt gmtBytes 0) = false := by decide
  have s1 : splitAtByte 45 (date2 dd mon yy) = some (dec2 dd, mon ++ 45 :: dec2 yy) :=
    splitAtByte_append 45 _ _ (hasByte_dec2 45 (by decide) dd)
  have s2 : splitAtByte 45 (mon ++ 45 :: dec2 yy) = some (mon, dec2 yy) := splitAtByte_append 45 _ _ m4
  simp [run, step, w3, d0, t0, g0, s1, s2, hasByte_colon_time]

theorem adjustYear_dec2 (yy : Nat) (h : yy < 100) : adjustYear (dec2 yy) = if yy < 70 then (yy : Int) + 100 else (yy : Int) := by
  have ha : atoi (dec2 yy) = (yy : Int) := by simpa using atoi_dec2 yy h [] (by decide)
  unfold adjustYear
  rw [ha]
  have hl : ((dec2 yy).length == 4) = false := by simp [dec2]
  simp only [hl, Bool.false_eq_true, if_false]
  by_cases h70 : yy < 70
  · rw [if_pos (by omega), if_pos h70]
  · rw [if_neg (by omega), if_neg (by omega), if_neg h70]

/-- the year Squid gives a two-digit year: the fixed window 1970..2069 -/
def squidYear (yy : Nat) : Nat := if yy < 70 then 2000 + yy else 1900 + yy

theorem parse_850 {w : Bytes} {m dd yy hh mm ss : Nat} (hw : w ∈ dayNamesLong) (hm : m < 12)
    (hdd : dd < 100) (hy : yy < 100) (hhh : hh < 100) (hmm : mm < 100) (hss : ss < 100) :
    parseRfc1123 (rfc850Date w dd (monthAbbr.getD m []) yy hh mm ss) =
      if saneFields (isLeap (squidYear yy)) m dd hh mm ss then timegm (squidYear yy) m dd hh mm ss else -1 := by
  have hwo := dayNamesLong_ok w hw
  obtain ⟨hmo, hmk⟩ := month_ok m hm
  have hlen : (rfc850Date w dd (monthAbbr.getD m []) yy hh mm ss).length ≤ 63 := by
    have := (nameOk_parts hwo).2.2.2.2
    have := (nameOk_parts hmo).2.2.2.2
    simp only [rfc850Date, List.length_append, List.length_cons, length_time, dec2, gmtBytes, List.length_nil]
    omega
  have hd : atoi (dec2 dd) = (dd : Int) := by simpa using atoi_dec2 dd hdd [] (by decide)
  have := parse_of_run hlen (by rw [tokens_850 hwo hmo]; exact run_850 hwo hmo dd yy hh mm ss)
    (elements_general (Or.inr rfl) hd hmk hm (adjustYear_dec2 yy hy) hhh hmm hss)
  rw [this]
  have e : (1900 : Int) + (if yy < 70 then (yy : Int) + 100 else (yy : Int)) = ((squidYear yy : Nat) : Int) := by
    unfold squidYear; split <;> omega
  simp only [e, Int.toNat_natCast, isLeapI_natCast]

/-! ### asctime-date -/

theorem tokens_asc {w mon dayTok : Bytes} (hw : nameOk w = true) (hmon : nameOk mon = true) {dd : Nat}
    (hday : dayTok = dec2 dd ∨ dayTok = [32, dch dd]) (hh mm ss yyyy : Nat) :
    tokens (asctimeDate w mon dayTok hh mm ss yyyy) =
      [w, mon, (if dayTok = dec2 dd then dec2 dd else [dch dd]), timeOfDay hh mm ss, dec4 yyyy] := by
  obtain ⟨w1, w2, _, _, _⟩ := nameOk_parts hw
  obtain ⟨m1, m2, _, _, _⟩ := nameOk_parts hmon
  unfold asctimeDate
  rw [tokens_tok w w1 w2 32 (by decide), tokens_tok mon m1 m2 32 (by decide)]
  rcases hday with h | h
  · rw [if_pos h, h, tokens_tok (dec2 dd) (by simp [dec2]) (noDelim_dec2 _) 32 (by decide),
      tokens_tok (timeOfDay hh mm ss) (by simp [timeOfDay, dec2]) (noDelim_timeOfDay _ _ _) 32 (by decide),
      tokens_last (dec4 yyyy) (by simp [dec4]) (noDelim_dec4 _)]
  · have hne : ¬ (dayTok = dec2 dd) := by
      rw [h]; intro e
      have : (32 : UInt8) = dch (dd / 10) := by simpa [dec2] using (List.cons.inj e).1
      have h2 := isDigit_dch (dd / 10)
      rw [← this] at h2; exact absurd h2 (by decide)
    rw [if_neg hne, h]
    show w :: mon :: tokens (32 :: ([dch dd] ++ 32 :: (timeOfDay hh mm ss ++ 32 :: dec4 yyyy))) = _
    rw [tokens_delim 32 (by decide), tokens_tok [dch dd] (by simp) (by simp [noDelim, isDelim_dch]) 32 (by decide),
      tokens_tok (timeOfDay hh mm ss) (by simp [timeOfDay, dec2]) (noDelim_timeOfDay _ _ _) 32 (by decide),
      tokens_last (dec4 yyyy) (by simp [dec4]) (noDelim_dec4 _)]

theorem run_asc {w mon dayTok : Bytes} (hw : nameOk w = true) (hmon : nameOk mon = true)
    (hd0 : isDigit (byteAt dayTok 0) = true) (hd1 : hasByte 45 dayTok = false) (hh mm ss yyyy : Nat) :
    run {} [w, mon, dayTok, timeOfDay hh mm ss, dec4 yyyy] =
      some { wday := some w, day := some dayTok, month := some mon, year := some (dec4 yyyy),
             time := some (timeOfDay hh mm ss), zone := none } := by
  obtain ⟨_, _, w3, _, _⟩ := nameOk_parts hw
  obtain ⟨_, _, m3, _, _⟩ := nameOk_parts hmon
  have y0 : isDigit (byteAt (dec4 yyyy) 0) = true := isDigit_dch _
  have t0 : isDigit (byteAt (timeOfDay hh mm ss) 0) = true := isDigit_dch _
  simp [run, step, w3, m3, hd0, y0, t0, splitAtByte_none 45 _ hd1, hasByte_dec4 58 (by decide) yyyy, hasByte_colon_time]

theorem parse_asc {w dayTok : Bytes} {m dd yyyy hh mm ss : Nat} (hw : w ∈ dayNames) (hm : m < 12)
    (hdd : dd < 100) (hy : yyyy < 10000) (hhh : hh < 100) (hmm : mm < 100) (hss : ss < 100)
    (hday : dayTok = dec2 dd ∨ (dd < 10 ∧ dayTok = [32, dch dd])) :
    parseRfc1123 (asctimeDate w (monthAbbr.getD m []) dayTok hh mm ss yyyy) =
      if saneFields (isLeap yyyy) m dd hh mm ss then timegm yyyy m dd hh mm ss else -1 := by
  have hwo := dayNames_ok w hw
  obtain ⟨hmo, hmk⟩ := month_ok m hm
  have hdl : dayTok.length = 2 := by
    rcases hday with h | ⟨_, h⟩ <;> rw [h] <;> rfl
  have hlen : (asctimeDate w (monthAbbr.getD m []) dayTok hh mm ss yyyy).length ≤ 63 := by
    have := (nameOk_parts hwo).2.2.2.2
    have := (nameOk_parts hmo).2.2.2.2
    simp only [asctimeDate, List.length_append, List.length_cons, length_time, dec4, List.length_nil, hdl]
    omega
  have hday' : dayTok = dec2 dd ∨ dayTok = [32, dch dd] := by
    rcases hday with h | ⟨_, h⟩
    · exact Or.inl h
    · exact Or.inr h
  have htok := tokens_asc hwo hmo hday' hh mm ss yyyy
  have e : (1900 : Int) + ((yyyy : Int) - 1900) = (yyyy : Int) := by omega
  by_cases h2 : dayTok = dec2 dd
  · rw [if_pos h2] at htok
    have hd : atoi (dec2 dd) = (dd : Int) := by simpa using atoi_dec2 dd hdd [] (by decide)
    have := parse_of_run hlen (by rw [htok]; exact run_asc hwo hmo (dayTok := dec2 dd) (isDigit_dch (dd / 10)) (hasByte_dec2 45 (by decide) dd) hh mm ss yyyy)
      (elements_general (Or.inl rfl) hd hmk hm (adjustYear_dec4 yyyy hy) hhh hmm hss)
    rw [this]
    simp only [e, Int.toNat_natCast, isLeapI_natCast]
  · rw [if_neg h2] at htok
    have hlt : dd < 10 := by
      rcases hday with h | ⟨h, _⟩
      · exact absurd h h2
      · exact h
    have := parse_of_run hlen
      (by rw [htok]; exact run_asc hwo hmo (dayTok := [dch dd]) (isDigit_dch dd) (by simp [hasByte, dch_ne 45 (by decide)]) hh mm ss yyyy)
      (elements_general (Or.inl rfl) (atoi_dch1 dd hlt) hmk hm (adjustYear_dec4 yyyy hy) hhh hmm hss)
    rw [this]
    simp only [e, Int.toNat_natCast, isLeapI_natCast]

/-! ### what `timegm` returns for an existing date -/

/-- `timegm` of fields that pass `tmSaneValues` is the time they denote -/
theorem denotes_timegm {yyyy m dd hh mm ss : Nat} (hm : m < 12) (hs : saneFields (isLeap yyyy) m dd hh mm ss) :
    Denotes yyyy m dd hh mm ss (timegm yyyy m dd hh mm ss) := by
  have hv : validDate yyyy m dd := ⟨hm, hs.2.2.2.1, hs.2.2.2.2⟩
  have hf := fieldsOf_timegm hv (h := hh) (mi := mm) (s := ss) (by have := hs.2.2.1; omega) (by have := hs.2.1; omega) (by have := hs.1; omega)
  refine ⟨?_, hf⟩
  have hd := timegm_days hv
  unfold timegm
  rw [hd]
  simp only [epochDays]
  omega

/-! ### `FormatRfc1123` -/

theorem decimal_4 (y : Nat) (h1 : 1000 ≤ y) (h2 : y < 10000) : decimal y = dec4 y := by
  have e1 : y / 10 / 10 = y / 100 := by omega
  have e2 : y / 100 / 10 = y / 1000 := by omega
  unfold decimal dec4
  rw [decimalAux, if_neg (by omega), decimalAux, if_neg (by omega), e1, decimalAux, if_neg (by omega), e2,
    decimalAux, if_pos (by omega)]

/-- `strftime(RFC1123_STRFTIME)` of a broken-down time with a four-digit year is the IMF-fixdate of its fields -/
theorem strftime_shape (c : Civil) (h1 : 1000 ≤ c.year) (h2 : c.year < 10000) :
    strftime Gen.DateNames.rfc1123Strftime c =
      imfFixdate (Gen.DateNames.wdayAbbr.getD c.wday []) c.mday (Gen.DateNames.monAbbr.getD c.mon []) c.year c.hour c.min c.sec := by
  simp [Gen.DateNames.rfc1123Strftime, strftime, conversion, imfFixdate, timeOfDay, gmtBytes, decimal_4 c.year h1 h2]

theorem daysBeforeYear_le {y y' : Nat} (h : y ≤ y') : daysBeforeYear y ≤ daysBeforeYear y' := by
  rcases Nat.lt_or_eq_of_le h with h | h
  · have := daysBeforeYear_mono h; omega
  · rw [h]; exact Nat.le_refl _

theorem daysBeforeYear_370 : daysBeforeYear 370 = 135140 := by decide +kernel

theorem daysBeforeYear_1970 : daysBeforeYear 1970 = 719528 := by
  have := daysBeforeYear_cycles 4 370
  rw [daysBeforeYear_370] at this
  exact this

theorem daysBeforeYear_10000 : daysBeforeYear 10000 = 3652425 := by
  have h := daysBeforeYear_cycles 25 0
  have h0 : daysBeforeYear 0 = 0 := rfl
  rw [h0] at h
  exact h

/-- times of 1970-01-01 .. 9999-12-31 have a year in 1970..9999 -/
theorem gmtime_year_bounds (t : Int) (h0 : 0 ≤ t) (h1 : t < 253402300800) :
    1970 ≤ (gmtime t).year ∧ (gmtime t).year ≤ 9999 := by
  have hv := civilOfDays_valid (t / 86400 + (epochDays : Int)).toNat
  have hlt := dayOfYear_lt hv.1
  have hn := hv.2
  unfold daysOfCivil at hn
  have hn0 : 719528 ≤ (t / 86400 + (epochDays : Int)).toNat := by simp only [epochDays]; omega
  have hn1 : (t / 86400 + (epochDays : Int)).toNat < 3652425 := by simp only [epochDays]; omega
  show 1970 ≤ (civilOfDays (t / 86400 + (epochDays : Int)).toNat).1 ∧ (civilOfDays (t / 86400 + (epochDays : Int)).toNat).1 ≤ 9999
  generalize (civilOfDays (t / 86400 + (epochDays : Int)).toNat).1 = y at *
  constructor
  · apply Classical.byContradiction; intro hc
    have h1 : daysBeforeYear (y + 1) ≤ daysBeforeYear 1970 := daysBeforeYear_le (by omega)
    rw [daysBeforeYear_1970] at h1
    simp only [daysBeforeYear] at h1
    omega
  · apply Classical.byContradiction; intro hc
    have h1 : daysBeforeYear 10000 ≤ daysBeforeYear y := daysBeforeYear_le (by omega)
    rw [daysBeforeYear_10000] at h1
    omega

theorem daysBeforeYear_70 : daysBeforeYear 70 = 25568 := by decide +kernel

theorem daysBeforeYear_2070 : daysBeforeYear 2070 = 756053 := by
  have := daysBeforeYear_cycles 5 70
  rw [daysBeforeYear_70] at this
  exact this

/-- times of 1970-01-01 .. 2069-12-31 have a year in 1970..2069 -/
theorem gmtime_year_window (t : Int) (h0 : 0 ≤ t) (h1 : t < 3155760000) :
    1970 ≤ (gmtime t).year ∧ (gmtime t).year ≤ 2069 := by
  refine ⟨(gmtime_year_bounds t h0 (by omega)).1, ?_⟩
  have hv := civilOfDays_valid (t / 86400 + (epochDays : Int)).toNat
  have hn := hv.2
  unfold daysOfCivil at hn
  have hn1 : (t / 86400 + (epochDays : Int)).toNat < 756053 := by simp only [epochDays]; omega
  show (civilOfDays (t / 86400 + (epochDays : Int)).toNat).1 ≤ 2069
  generalize (civilOfDays (t / 86400 + (epochDays : Int)).toNat).1 = y at *
  apply Classical.byContradiction; intro hc
  have h1 : daysBeforeYear 2070 ≤ daysBeforeYear y := daysBeforeYear_le (by omega)
  rw [daysBeforeYear_2070] at h1
  omega

end SquidModel.Date
