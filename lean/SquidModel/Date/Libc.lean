/-
C35 — the libc pieces `src/time/rfc1123.cc` calls, in the C locale (modelled, not verified; the differential run has
them inside the correspondence): `isdigit`, `isspace`, `toupper`, `tolower`, `atoi` (glibc: `(int) strtol(s, 0, 10)`),
`strncmp`, `strchr`, `strtok(…, ", ")`, `strftime` for the conversions `RFC1123_STRFTIME` uses.
Strings are NUL-free byte lists; reading index `i` of a C string of length `n` yields the terminator 0 for `i = n`.
Core Lean only.
-/
import SquidModel.Base.Bytes
import SquidModel.Date.Calendar
import SquidModel.Gen.DateNames

namespace SquidModel.Date
open SquidModel

def isDigit (c : UInt8) : Bool := 48 ≤ c && c ≤ 57

/-- C locale `isspace`: SP, HT, LF, VT, FF, CR -/
def isSpace (c : UInt8) : Bool := c == 32 || (9 ≤ c && c ≤ 13)

def toUpper (c : UInt8) : UInt8 := if 97 ≤ c && c ≤ 122 then c - 32 else c

def toLower (c : UInt8) : UInt8 := if 65 ≤ c && c ≤ 90 then c + 32 else c

/-- `s[i]` of the C string `s` (the terminator when `i` is its length) -/
def byteAt (s : Bytes) (i : Nat) : UInt8 := s.getD i 0

/-- value of a `char` (signed on the platforms Squid is built for here) -/
def schar (c : UInt8) : Int := if c < 128 then (c.toNat : Int) else (c.toNat : Int) - 256

/-- the run of decimal digits at the front of `s`, accumulated into `acc` (unbounded) -/
def digitsVal : Nat → Bytes → Nat
  | acc, [] => acc
  | acc, c :: cs => if isDigit c then digitsVal (acc * 10 + (c.toNat - 48)) cs else acc

def skipSpace : Bytes → Bytes
  | [] => []
  | c :: cs => if isSpace c then skipSpace cs else c :: cs

/-- `strtol` saturates at the ends of `long` (64 bit) -/
def satLong (v : Int) : Int :=
  if v > 9223372036854775807 then 9223372036854775807 else if v < -9223372036854775808 then -9223372036854775808 else v

/-- the conversion `long → int` keeps the low 32 bits (two's complement) -/
def wrapInt (v : Int) : Int := (v + 2147483648) % 4294967296 - 2147483648

/-- glibc `atoi`: optional white space, optional sign, digits; everything else ends the number (no digits: 0) -/
def atoi (s : Bytes) : Int :=
  match skipSpace s with
  | [] => 0
  | c :: cs =>
    if c == 45 then wrapInt (satLong (-(digitsVal 0 cs : Int)))
    else if c == 43 then wrapInt (satLong (digitsVal 0 cs))
    else wrapInt (satLong (digitsVal 0 (c :: cs)))

/-- `strchr(s, x) != nullptr` for `x ≠ 0` -/
def hasByte (x : UInt8) (s : Bytes) : Bool := s.any (· == x)

/-- `p = strchr(s, x)`: the bytes before `p` and the bytes after `p` (i.e. `p + 1`) -/
def splitAtByte (x : UInt8) : Bytes → Option (Bytes × Bytes)
  | [] => none
  | c :: cs =>
    if c == x then some ([], cs)
    else match splitAtByte x cs with
      | none => none
      | some (a, b) => some (c :: a, b)

/-- `strncmp(a, b, n) == 0` -/
def strncmpEq : Nat → Bytes → Bytes → Bool
  | 0, _, _ => true
  | n + 1, a, b =>
    let x := byteAt a 0
    let y := byteAt b 0
    if x != y then false else if x == 0 then true else strncmpEq n (a.drop 1) (b.drop 1)

/-! ### `strtok(s, ", ")` called until it returns null: the maximal runs of bytes other than `,` and SP -/

def isDelim (c : UInt8) : Bool := c == 44 || c == 32

/-- `cur` is the token being collected, reversed -/
def tokAux : Bytes → Bytes → List Bytes
  | cur, [] => if cur.isEmpty then [] else [cur.reverse]
  | cur, c :: cs =>
    if isDelim c then (if cur.isEmpty then tokAux [] cs else cur.reverse :: tokAux [] cs)
    else tokAux (c :: cur) cs

def tokens (s : Bytes) : List Bytes := tokAux [] s

/-! ### `strftime` -/

def dch (k : Nat) : UInt8 := UInt8.ofNat (48 + k % 10)

/-- two digits, zero padded (`%d`, `%H`, `%M`, `%S`) -/
def dec2 (n : Nat) : Bytes := [dch (n / 10), dch n]

/-- decimal without padding (what glibc emits for `%Y`: "0", "970", "1994", "10000"); fuel = number of digits allowed -/
def decimalAux : Nat → Nat → Bytes → Bytes
  | 0, _, acc => acc
  | f + 1, n, acc => if n < 10 then dch n :: acc else decimalAux f (n / 10) (dch n :: acc)

def decimal (n : Nat) : Bytes := decimalAux 40 n []

def conversion (c : UInt8) (tm : Civil) : Bytes :=
  if c == 97 then Gen.DateNames.wdayAbbr.getD tm.wday []       -- %a
  else if c == 98 then Gen.DateNames.monAbbr.getD tm.mon []    -- %b
  else if c == 100 then dec2 tm.mday                            -- %d
  else if c == 89 then decimal tm.year                          -- %Y
  else if c == 72 then dec2 tm.hour                             -- %H
  else if c == 77 then dec2 tm.min                              -- %M
  else if c == 83 then dec2 tm.sec                              -- %S
  else [37, c]   -- a conversion this model does not know: not used by RFC1123_STRFTIME (the theorems would break)

def strftime : Bytes → Civil → Bytes
  | [], _ => []
  | a :: cs, tm =>
    if a == 37 then
      match cs with
      | [] => [a]
      | b :: rest => conversion b tm ++ strftime rest tm
    else a :: strftime cs tm

end SquidModel.Date
