/-
C08, ownership bookkeeping: every descriptor the process has open is either part of the idle baseline (listening sockets, logs,
helpers … opened at startup and never touched by traffic), owned by a transaction (its client or its server connection), or parked
in the idle persistent-connection pool. The events are the descriptor-level effects of whatever a transaction does:

  openNew fd     accept() on a listening socket / connect() for a forwarded request: `fd_open` (comm_openex / comm accept)
  closeBusy fd   comm_close of a transaction's connection — normal completion, client abort mid-request or mid-response, server
                 reset, stall timeout, I/O error: all of them end in `fd_close` through the close handlers
  toPool fd      `PconnPool::push` after a complete reply on a persistent server connection (closes instead under descriptor
                 pressure or during shutdown)
  fromPool       `PconnPool::pop` → `IdleConnList::findUseable`: the transaction takes over the newest available idle connection
  idleClose fd   `IdleConnList::Read` / `IdleConnList::Timeout` → `findAndClose`: the peer closed an idle connection or it timed out
  poolCloseN n   `IdleConnList::closeN(n)` (also `endingShutdown`)

An event whose guard is false (a descriptor number that is already open — the kernel never hands one out — or one the acting
party does not own) leaves the state unchanged. An assertion in fd.cc would show up in `bad`. Core-only.
-/
import SquidModel.Fd.TableLemmas
import SquidModel.Fd.Pconn

namespace SquidModel.Fd

structure St where
  tbl : Table
  base : Nat                 -- number of baseline descriptors (open in tbl, owned by nobody below)
  busy : List Nat            -- descriptors owned by transactions
  pool : IdleList            -- idle persistent connections
  openingFD : Int            -- Opening_FD
  reservedFD : Int           -- RESERVED_FD
  shuttingDown : Bool
  bad : Option Bad
  deriving DecidableEq, Repr

inductive Ev where
  | openNew (fd : Nat)
  | closeBusy (fd : Nat)
  | toPool (fd : Nat)
  | fromPool (avail : List Nat)
  | idleClose (fd : Nat)
  | poolCloseN (n : Nat)
  deriving DecidableEq, Repr

def St.withTbl (s : St) : Except Bad Table → St
  | .ok t => { s with tbl := t }
  | .error e => { s with bad := some e }

/-- `fd_close` for each descriptor of a list, in order -/
def closeAll (s : St) : List Nat → St
  | [] => s
  | fd :: rest => closeAll (s.withTbl (fdClose s.tbl fd)) rest

def step (s : St) : Ev → St
  | .openNew fd =>
    if fd < s.tbl.maxFD ∧ s.tbl.isOpen fd = false then { s.withTbl (fdOpen s.tbl fd) with busy := fd :: s.busy } else s
  | .closeBusy fd =>
    if fd ∈ s.busy then { s.withTbl (fdClose s.tbl fd) with busy := s.busy.erase fd } else s
  | .toPool fd =>
    if fd ∈ s.busy then
      if fdUsageHigh s.tbl s.openingFD s.reservedFD ∨ s.shuttingDown then
        { s.withTbl (fdClose s.tbl fd) with busy := s.busy.erase fd }                -- conn->close()
      else { s with busy := s.busy.erase fd, pool := s.pool.push fd }
    else s
  | .fromPool avail =>
    match s.pool.pop (fun fd => avail.contains fd) with
    | (some fd, p) => { s with pool := p, busy := fd :: s.busy }
    | (none, _) => s
  | .idleClose fd =>
    match s.pool.findAndClose fd with
    | (some x, p) => { s.withTbl (fdClose s.tbl x) with pool := p }
    | (none, _) => s
  | .poolCloseN n =>
    let r := s.pool.closeN n
    { closeAll s r.1 with pool := r.2 }

def run (s : St) (evs : List Ev) : St := evs.foldl step s

/-- once traffic has stopped and every timeout has expired: each transaction's connections were closed by their timeouts, each idle
connection by `IdleConnList::Timeout` -/
def closeBusyAll : Nat → St → St
  | 0, s => s
  | n + 1, s =>
    match s.busy with
    | [] => s
    | fd :: _ => closeBusyAll n (step s (.closeBusy fd))

def expireAll (s : St) : St :=
  let s1 := closeBusyAll s.busy.length s
  step s1 (.poolCloseN s1.pool.list.length)

end SquidModel.Fd
