/-
C08, descriptor table accounting: src/fd.cc `fd_open`, `fd_close`, `fdUpdateBiggest`, `fdNFree`, `fdUsageHigh`, with the globals
`fd_table[i].flags.open`, `Number_FD`, `Biggest_FD`, `Squid_MaxFD`, `Opening_FD`, `RESERVED_FD`.

Every `assert` of these functions is an explicit outcome (`Bad`). `fd_table` is a list of the `flags.open` bits of length
`Squid_MaxFD`; an index outside the table is the outcome `Bad.outsideTable` (the C code would index out of bounds).
Core-only.
-/
namespace SquidModel.Fd

inductive Bad where
  | outsideTable          -- fd >= Squid_MaxFD: fdUpdateBiggest `assert(fd < Squid_MaxFD)` / fd_table index out of range
  | closeNotOpen          -- fd_close: assert(F->flags.open)
  | closingAboveBiggest   -- fdUpdateBiggest: assert(opening) with fd > Biggest_FD
  | reopeningBiggest      -- fdUpdateBiggest: assert(!opening) with fd == Biggest_FD
  deriving DecidableEq, Repr

structure Table where
  flags : List Bool       -- fd_table[i].flags.open, i < Squid_MaxFD
  number : Int            -- Number_FD
  biggest : Int           -- Biggest_FD
  deriving DecidableEq, Repr

/-- the table after `comm_init`: nothing open, `Biggest_FD = -1` -/
def Table.empty (maxFD : Nat) : Table := ⟨List.replicate maxFD false, 0, -1⟩

def Table.maxFD (t : Table) : Nat := t.flags.length

/-- `fd_table[fd].flags.open` -/
def Table.isOpen (t : Table) (fd : Nat) : Bool := t.flags.getD fd false

/-- `while (Biggest_FD >= 0 && !fd_table[Biggest_FD].flags.open) --Biggest_FD;` — the argument is `Biggest_FD + 1` -/
def scanDown (flags : List Bool) : Nat → Int
  | 0 => -1
  | b + 1 => if flags.getD b false then (b : Int) else scanDown flags b

/-- `fdUpdateBiggest(fd, opening)`; `flags` already holds the new `open` bit of `fd` -/
def updateBiggest (t : Table) (fd : Nat) (opening : Bool) : Except Bad Table :=
  if (fd : Int) < t.biggest then .ok t
  else if ¬ fd < t.maxFD then .error .outsideTable
  else if (fd : Int) > t.biggest then
    if opening then .ok { t with biggest := fd } else .error .closingAboveBiggest
  else if opening then .error .reopeningBiggest
  else .ok { t with biggest := scanDown t.flags (fd + 1) }

/-- `fd_close(fd)` -/
def fdClose (t : Table) (fd : Nat) : Except Bad Table :=
  if ¬ fd < t.maxFD then .error .outsideTable
  else if ¬ t.isOpen fd then .error .closeNotOpen
  else
    match updateBiggest { t with flags := t.flags.set fd false } fd false with
    | .error e => .error e
    | .ok t1 => .ok { t1 with number := t1.number - 1 }

/-- `fd_open(fd, type, desc)`: an already open slot is closed first ("WARNING: Closing open FD") -/
def fdOpen (t : Table) (fd : Nat) : Except Bad Table :=
  if ¬ fd < t.maxFD then .error .outsideTable
  else
    let closed : Except Bad Table := if t.isOpen fd then fdClose t fd else .ok t
    match closed with
    | .error e => .error e
    | .ok t0 =>
      match updateBiggest { t0 with flags := t0.flags.set fd true } fd true with
      | .error e => .error e
      | .ok t1 => .ok { t1 with number := t1.number + 1 }

/-- `fdNFree()` -/
def fdNFree (t : Table) (openingFD : Int) : Int := (t.maxFD : Int) - t.number - openingFD

/-- `fdUsageHigh()` (`x << 1` and `x >> 2` on ints) -/
def fdUsageHigh (t : Table) (openingFD reservedFD : Int) : Bool :=
  let nrfree := fdNFree t openingFD
  if nrfree < reservedFD * 2 then true
  else if nrfree < t.number / 4 then true
  else false

inductive Op where
  | open_ (fd : Nat)
  | close (fd : Nat)
  deriving DecidableEq, Repr

def apply (t : Table) : Op → Except Bad Table
  | .open_ fd => fdOpen t fd
  | .close fd => fdClose t fd

/-- a history of calls; stops at the first assertion -/
def runOps : Table → List Op → Except Bad Table
  | t, [] => .ok t
  | t, o :: rest => match apply t o with
    | .error e => .error e
    | .ok t' => runOps t' rest

end SquidModel.Fd
