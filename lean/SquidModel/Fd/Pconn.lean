/-
C08, idle persistent connections: src/pconn.cc `IdleConnList` (`push` with capacity doubling, `findIndexOf`, `removeAt`, `closeN`,
`pop`/`findUseable`, `findAndClose` — the target of `IdleConnList::Read` and `IdleConnList::Timeout`) and `PconnPool::push`
(`fdUsageHigh()` / `shutting_down` ⇒ close instead of pooling).

`theList_[0 .. size_)` is a list of descriptor numbers, oldest first (`size_` is its length); the shifting loops are list operations.
Core-only.
-/
import SquidModel.Fd.Table

namespace SquidModel.Fd

structure IdleList where
  list : List Nat
  capacity : Nat
  deriving DecidableEq, Repr

/-- `IdleConnList::push`: `if (size_ == capacity_) capacity_ <<= 1;` then append -/
def IdleList.push (l : IdleList) (fd : Nat) : IdleList :=
  { list := l.list ++ [fd], capacity := if l.list.length = l.capacity then l.capacity * 2 else l.capacity }

/-- the backwards search of `findIndexOf` / `pop` / `findUseable`: the largest index whose entry satisfies `p` -/
def lastIdx (p : Nat → Bool) : List Nat → Option Nat
  | [] => none
  | x :: rest =>
    match lastIdx p rest with
    | some i => some (i + 1)
    | none => if p x then some 0 else none

/-- `IdleConnList::findIndexOf(conn)`: matches by descriptor number, newest first -/
def IdleList.findIndexOf (l : IdleList) (fd : Nat) : Option Nat := lastIdx (· == fd) l.list

/-- `IdleConnList::removeAt(index)`: false when the index is not in use -/
def IdleList.removeAt (l : IdleList) (index : Nat) : Bool × IdleList :=
  if index ≥ l.list.length then (false, l) else (true, { l with list := l.list.eraseIdx index })

/-- `IdleConnList::closeN(n)`: the descriptors closed (in closing order) and the list afterwards -/
def IdleList.closeN (l : IdleList) (n : Nat) : List Nat × IdleList :=
  if n < 1 then ([], l)
  else if n ≥ l.list.length then (l.list.reverse, { l with list := [] })      -- newest first, down to empty
  else (l.list.take n, { l with list := l.list.drop n })                        -- the n oldest, the rest shifted down

/-- `IdleConnList::pop()` / `findUseable()`: the newest entry that is available (`isAvailable`, a timeout handler set,
not to a gone cache_peer — all folded into `avail`) is removed and returned -/
def IdleList.pop (l : IdleList) (avail : Nat → Bool) : Option Nat × IdleList :=
  match lastIdx avail l.list with
  | none => (none, l)
  | some i => (l.list[i]?, (l.removeAt i).2)

/-- `IdleConnList::findAndClose(conn)`: the descriptor to close, if it was listed -/
def IdleList.findAndClose (l : IdleList) (fd : Nat) : Option Nat × IdleList :=
  match l.findIndexOf fd with
  | none => (none, l)
  | some i => (some fd, (l.removeAt i).2)

/-! ### what the list operations do to the content -/

theorem lastIdx_some {p : Nat → Bool} : ∀ {l : List Nat} {i : Nat}, lastIdx p l = some i →
    ∃ h : i < l.length, p l[i] = true := by
  intro l
  induction l with
  | nil => intro i h; simp [lastIdx] at h
  | cons x rest ih =>
    intro i h
    simp only [lastIdx] at h
    cases hr : lastIdx p rest with
    | some j =>
      simp only [hr, Option.some.injEq] at h
      subst h
      obtain ⟨hj, hp⟩ := ih hr
      exact ⟨by simp; omega, by simpa using hp⟩
    | none =>
      simp only [hr] at h
      by_cases hx : p x = true
      · simp only [hx, if_true, Option.some.injEq] at h
        subst h
        exact ⟨by simp, by simpa using hx⟩
      · simp [hx] at h

theorem lastIdx_none {p : Nat → Bool} : ∀ {l : List Nat}, lastIdx p l = none → ∀ x ∈ l, p x = false := by
  intro l
  induction l with
  | nil => intro _ x hx; simp at hx
  | cons a rest ih =>
    intro h x hx
    simp only [lastIdx] at h
    cases hr : lastIdx p rest with
    | some j => simp [hr] at h
    | none =>
      simp only [hr] at h
      by_cases ha : p a = true
      · simp [ha] at h
      · rcases List.mem_cons.mp hx with rfl | hm
        · simpa using ha
        · exact ih hr x hm

/-- `closeN` closes `min n size_` descriptors, and closed ++ kept is a rearrangement of the old content -/
theorem closeN_length (l : IdleList) (n : Nat) :
    (l.closeN n).1.length = min n l.list.length ∧ (l.closeN n).1.length + (l.closeN n).2.list.length = l.list.length := by
  unfold IdleList.closeN
  split
  · simp; omega
  · split
    · simp; omega
    · simp; omega

theorem closeN_mem (l : IdleList) (n : Nat) (x : Nat) :
    x ∈ l.list ↔ x ∈ (l.closeN n).1 ∨ x ∈ (l.closeN n).2.list := by
  unfold IdleList.closeN
  split
  · simp
  · split
    · simp
    · simp only
      constructor
      · intro h
        rw [← List.take_append_drop n l.list] at h
        exact List.mem_append.mp h
      · intro h
        rcases h with h | h
        · exact List.mem_of_mem_take h
        · exact List.mem_of_mem_drop h

/-- the initial capacity is positive, so the array always has room for its entries -/
theorem push_capacity (l : IdleList) (fd : Nat) (h : l.list.length ≤ l.capacity) (hp : 0 < l.capacity) :
    (l.push fd).list.length ≤ (l.push fd).capacity ∧ 0 < (l.push fd).capacity := by
  unfold IdleList.push
  simp only [List.length_append, List.length_singleton]
  split <;> omega

end SquidModel.Fd
