/-
C08: the descriptor-table invariant (Number_FD = number of open slots, Biggest_FD = the largest open slot or -1) is kept by
`fd_open`/`fd_close`, and with it the two assertions inside `fdUpdateBiggest` cannot fire.
-/
import SquidModel.Fd.Table

namespace SquidModel.Fd

def openCount (flags : List Bool) : Nat := flags.countP (· = true)

structure WF (t : Table) : Prop where
  count : t.number = (openCount t.flags : Int)
  big_ge : -1 ≤ t.biggest
  big_lt : t.biggest < (t.flags.length : Int)
  big_open : 0 ≤ t.biggest → t.flags.getD t.biggest.toNat false = true
  above : ∀ i : Nat, t.biggest < (i : Int) → t.flags.getD i false = false

theorem getD_set (l : List Bool) (i j : Nat) (b : Bool) :
    (l.set i b).getD j false = if i = j ∧ i < l.length then b else l.getD j false := by
  simp only [List.getD_eq_getElem?_getD, List.getElem?_set]
  by_cases h : i = j
  · subst h
    by_cases hl : i < l.length
    · simp [hl]
    · simp [hl, List.getElem?_eq_none (Nat.le_of_not_lt hl)]
  · simp [h]

theorem openCount_set_true (l : List Bool) (i : Nat) (hi : i < l.length) (h : l.getD i false = false) :
    openCount (l.set i true) = openCount l + 1 := by
  induction l generalizing i with
  | nil => simp at hi
  | cons a t ih =>
    cases i with
    | zero =>
      simp only [List.getD_cons_zero] at h
      subst h
      simp [openCount, List.countP_cons]
    | succ k =>
      simp only [List.getD_cons_succ] at h
      have := ih k (by simpa using hi) h
      simp only [openCount, List.set_cons_succ, List.countP_cons] at this ⊢
      omega

theorem openCount_set_false (l : List Bool) (i : Nat) (h : l.getD i false = true) :
    openCount (l.set i false) + 1 = openCount l := by
  induction l generalizing i with
  | nil => simp at h
  | cons a t ih =>
    cases i with
    | zero =>
      simp only [List.getD_cons_zero] at h
      subst h
      simp [openCount, List.countP_cons]
    | succ k =>
      simp only [List.getD_cons_succ] at h
      have := ih k h
      simp only [openCount, List.set_cons_succ, List.countP_cons] at this ⊢
      omega

theorem getD_true_lt {l : List Bool} {i : Nat} (h : l.getD i false = true) : i < l.length := by
  by_cases hl : i < l.length
  · exact hl
  · simp [List.getD_eq_getElem?_getD, List.getElem?_eq_none (Nat.le_of_not_lt hl)] at h

/-- the downward scan stops at the largest open slot below `n`, or at -1 -/
theorem scanDown_spec (flags : List Bool) : ∀ n : Nat,
    -1 ≤ scanDown flags n ∧ scanDown flags n < (n : Int) ∧
    (0 ≤ scanDown flags n → flags.getD (scanDown flags n).toNat false = true) ∧
    (∀ i : Nat, scanDown flags n < (i : Int) → i < n → flags.getD i false = false) := by
  intro n
  induction n with
  | zero => simp [scanDown]
  | succ b ih =>
    simp only [scanDown]
    by_cases h : flags.getD b false = true
    · simp only [h, if_true]
      refine ⟨by omega, by omega, fun _ => by simpa using h, fun i h1 h2 => by omega⟩
    · simp only [h]
      obtain ⟨a1, a2, a3, a4⟩ := ih
      refine ⟨a1, by omega, a3, fun i h1 h2 => ?_⟩
      by_cases hib : i = b
      · subst hib; simpa using h
      · exact a4 i h1 (by omega)

theorem wf_empty (maxFD : Nat) : WF (Table.empty maxFD) where
  count := by simp [Table.empty, openCount, List.countP_replicate]
  big_ge := by simp [Table.empty]
  big_lt := by simp only [Table.empty, List.length_replicate]; omega
  big_open := by intro h; simp [Table.empty] at h
  above := by intro i _; simp only [Table.empty, List.getD_eq_getElem?_getD, List.getElem?_replicate]; split <;> rfl

/-- an open slot is never above `Biggest_FD` -/
theorem open_le_biggest {t : Table} (h : WF t) {fd : Nat} (ho : t.isOpen fd = true) : (fd : Int) ≤ t.biggest := by
  by_cases hc : t.biggest < (fd : Int)
  · have := h.above fd hc
    simp only [Table.isOpen] at ho
    rw [this] at ho
    cases ho
  · omega

/-- `fd_close` of an open descriptor: no assertion, the invariant is kept, exactly that slot changes, Number_FD drops by one -/
theorem fdClose_wf {t : Table} (h : WF t) {fd : Nat} (ho : t.isOpen fd = true) :
    ∃ t', fdClose t fd = .ok t' ∧ WF t' ∧ t'.flags = t.flags.set fd false ∧ t'.number = t.number - 1 := by
  have hlt : fd < t.flags.length := getD_true_lt ho
  have hle := open_le_biggest h ho
  have hcount : (openCount (t.flags.set fd false) : Int) = t.number - 1 := by
    have := openCount_set_false t.flags fd ho
    rw [h.count]; omega
  unfold fdClose
  simp only [Table.maxFD, hlt, not_true_eq_false, if_false, ho]
  unfold updateBiggest
  simp only [Table.maxFD, List.length_set, hlt, not_true_eq_false, if_false]
  by_cases hb : (fd : Int) < t.biggest
  · simp only [hb, if_true]
    refine ⟨_, rfl, ⟨?_, h.big_ge, by simpa using h.big_lt, ?_, ?_⟩, rfl, rfl⟩
    · simpa using hcount.symm
    · intro h0
      have hne : ¬ (fd = t.biggest.toNat ∧ fd < t.flags.length) := by omega
      simp only [getD_set, hne, if_false]
      exact h.big_open h0
    · intro i hi
      have hi' : t.biggest < (i : Int) := hi
      have hne : ¬ (fd = i ∧ fd < t.flags.length) := by omega
      simp only [getD_set, hne, if_false]
      exact h.above i hi' 
  · have heq : (fd : Int) = t.biggest := by omega
    have hgt : ¬ ((fd : Int) > t.biggest) := by omega
    simp only [hb, if_false, hgt, Bool.false_eq_true]
    obtain ⟨s1, s2, s3, s4⟩ := scanDown_spec (t.flags.set fd false) (fd + 1)
    refine ⟨_, rfl, ⟨?_, s1, ?_, s3, ?_⟩, rfl, rfl⟩
    · simpa using hcount.symm
    · simp only [List.length_set]; omega
    · intro i hi
      by_cases hif : i < fd + 1
      · exact s4 i hi hif
      · have hne : ¬ (fd = i ∧ fd < t.flags.length) := by omega
        simp only [getD_set, hne, if_false]
        exact h.above i (by omega)

/-- `fd_open` of a closed slot inside the table: no assertion, invariant kept, Number_FD grows by one -/
theorem fdOpen_wf {t : Table} (h : WF t) {fd : Nat} (hlt : fd < t.maxFD) (hc : t.isOpen fd = false) :
    ∃ t', fdOpen t fd = .ok t' ∧ WF t' ∧ t'.flags = t.flags.set fd true ∧ t'.number = t.number + 1 := by
  have hlt' : fd < t.flags.length := hlt
  have hcount : (openCount (t.flags.set fd true) : Int) = t.number + 1 := by
    have := openCount_set_true t.flags fd hlt' (by simpa [Table.isOpen] using hc)
    rw [h.count, this]; omega
  unfold fdOpen
  simp only [hlt, not_true_eq_false, if_false, hc, Bool.false_eq_true]
  unfold updateBiggest
  simp only [Table.maxFD, List.length_set, hlt', not_true_eq_false, if_false]
  by_cases hb : (fd : Int) < t.biggest
  · simp only [hb, if_true]
    refine ⟨_, rfl, ⟨?_, h.big_ge, by simpa using h.big_lt, ?_, ?_⟩, rfl, rfl⟩
    · simpa using hcount.symm
    · intro h0
      have hne : ¬ (fd = t.biggest.toNat ∧ fd < t.flags.length) := by omega
      simp only [getD_set, hne, if_false]
      exact h.big_open h0
    · intro i hi
      have hi' : t.biggest < (i : Int) := hi
      have hne : ¬ (fd = i ∧ fd < t.flags.length) := by omega
      simp only [getD_set, hne, if_false]
      exact h.above i hi' 
  · have hne : (fd : Int) ≠ t.biggest := by
      intro heq
      have := h.big_open (by omega)
      rw [← heq] at this
      simp [Table.isOpen] at hc
      simp [hc] at this
    have hgt : (fd : Int) > t.biggest := by omega
    simp only [hb, if_false, hgt, if_true]
    refine ⟨_, rfl, ⟨?_, by simp only; omega, by simp only [List.length_set]; omega, ?_, ?_⟩, rfl, rfl⟩
    · simpa using hcount.symm
    · intro _
      simp [getD_set, hlt']
    · intro i hi
      have hne' : ¬ (fd = i ∧ fd < t.flags.length) := by simp only at hi; omega
      simp only [getD_set, hne', if_false]
      exact h.above i (by simp only at hi; omega)

/-- `fd_open` of any slot inside the table (an open one is closed first): no assertion, invariant kept, the slot is open -/
theorem fdOpen_wf_any {t : Table} (h : WF t) {fd : Nat} (hlt : fd < t.maxFD) :
    ∃ t', fdOpen t fd = .ok t' ∧ WF t' ∧ t'.isOpen fd = true ∧ t'.flags = t.flags.set fd true := by
  by_cases hc : t.isOpen fd = true
  · obtain ⟨t0, e0, w0, f0, n0⟩ := fdClose_wf h hc
    have hlt0 : fd < t0.maxFD := by simp [Table.maxFD, f0]; exact hlt
    have hc0 : t0.isOpen fd = false := by
      have hl : fd < t.flags.length := hlt
      simp only [Table.isOpen, f0, getD_set, hl, and_self, if_true]
    obtain ⟨t1, e1, w1, f1, n1⟩ := fdOpen_wf w0 hlt0 hc0
    have hlt' : fd < t.flags.length := hlt
    refine ⟨t1, ?_, w1, by simp only [Table.isOpen, f1, getD_set, f0, List.length_set]; simp [hlt'], by rw [f1, f0]; simp [List.set_set]⟩
    -- the open branch of fd_open is: fd_close, then the closed-slot path on its result
    unfold fdOpen at e1 ⊢
    simp only [hlt, hlt0, not_true_eq_false, if_false, hc, if_true, e0, hc0, Bool.false_eq_true] at e1 ⊢
    exact e1
  · have hc' : t.isOpen fd = false := by simpa using hc
    obtain ⟨t1, e1, w1, f1, _⟩ := fdOpen_wf h hlt hc'
    have hlt' : fd < t.flags.length := hlt
    exact ⟨t1, e1, w1, by simp only [Table.isOpen, f1, getD_set]; simp [hlt'], f1⟩

theorem apply_wf {t t' : Table} (h : WF t) (o : Op) (e : apply t o = .ok t') : WF t' := by
  cases o with
  | open_ fd =>
    simp only [apply] at e
    by_cases hlt : fd < t.maxFD
    · obtain ⟨t1, e1, w1, _⟩ := fdOpen_wf_any h hlt
      rw [e1] at e; cases e; exact w1
    · simp [fdOpen, hlt] at e
  | close fd =>
    simp only [apply] at e
    by_cases ho : t.isOpen fd = true
    · obtain ⟨t1, e1, w1, _⟩ := fdClose_wf h ho
      rw [e1] at e; cases e; exact w1
    · unfold fdClose at e
      by_cases hlt : fd < t.maxFD
      · simp [hlt, ho] at e
      · simp [hlt] at e

/-- the only ways to fail: closing a descriptor that is not open, or a descriptor number outside the table -/
theorem apply_error {t : Table} (h : WF t) (o : Op) (e : Bad) (he : apply t o = .error e) :
    e = .closeNotOpen ∨ e = .outsideTable := by
  cases o with
  | open_ fd =>
    simp only [apply] at he
    by_cases hlt : fd < t.maxFD
    · obtain ⟨t1, e1, _⟩ := fdOpen_wf_any h hlt
      rw [e1] at he; cases he
    · simp only [fdOpen, hlt, not_false_eq_true, if_true] at he
      cases he; exact Or.inr rfl
  | close fd =>
    simp only [apply] at he
    by_cases ho : t.isOpen fd = true
    · obtain ⟨t1, e1, _⟩ := fdClose_wf h ho
      rw [e1] at he; cases he
    · unfold fdClose at he
      by_cases hlt : fd < t.maxFD
      · simp only [hlt, not_true_eq_false, if_false, ho, not_false_eq_true, if_true] at he
        cases he; exact Or.inl rfl
      · simp only [hlt, not_false_eq_true, if_true] at he
        cases he; exact Or.inr rfl

theorem runOps_wf : ∀ (ops : List Op) (t t' : Table), WF t → runOps t ops = .ok t' → WF t' := by
  intro ops
  induction ops with
  | nil => intro t t' h e; simp only [runOps] at e; cases e; exact h
  | cons o rest ih =>
    intro t t' h e
    simp only [runOps] at e
    cases ha : apply t o with
    | error x => rw [ha] at e; cases e
    | ok t1 =>
      rw [ha] at e
      exact ih t1 t' (apply_wf h o ha) e

theorem runOps_error : ∀ (ops : List Op) (t : Table) (e : Bad), WF t → runOps t ops = .error e →
    e = .closeNotOpen ∨ e = .outsideTable := by
  intro ops
  induction ops with
  | nil => intro t e _ he; simp [runOps] at he
  | cons o rest ih =>
    intro t e h he
    simp only [runOps] at he
    cases ha : apply t o with
    | error x =>
      rw [ha] at he
      cases he
      exact apply_error h o _ ha
    | ok t1 =>
      rw [ha] at he
      exact ih t1 e (apply_wf h o ha) he

end SquidModel.Fd
