/-
C08: the ownership invariant of Fd/Book.lean — every owned descriptor is open, no descriptor has two owners, Number_FD counts the
baseline plus every owned descriptor, and no assertion of fd.cc fires — holds after every event history.
-/
import SquidModel.Fd.Book

namespace SquidModel.Fd

def St.owned (s : St) : List Nat := s.busy ++ s.pool.list

structure Inv (s : St) : Prop where
  wf : WF s.tbl
  ok : s.bad = none
  nodup : s.owned.Nodup
  opened : ∀ fd ∈ s.owned, s.tbl.isOpen fd = true
  count : s.tbl.number = (s.base : Int) + (s.owned.length : Int)

/-- closing a descriptor that is open keeps the others open -/
theorem close_keeps_others {t t' : Table} {fd x : Nat} (hf : t'.flags = t.flags.set fd false) (hx : x ≠ fd)
    (ho : t.isOpen x = true) : t'.isOpen x = true := by
  simp only [Table.isOpen, hf, getD_set] at ho ⊢
  have : ¬ (fd = x ∧ fd < t.flags.length) := by intro h; exact hx h.1.symm
  simp only [this, if_false]
  exact ho

theorem open_keeps_others {t t' : Table} {fd x : Nat} (hf : t'.flags = t.flags.set fd true)
    (ho : t.isOpen x = true) : t'.isOpen x = true := by
  simp only [Table.isOpen, hf, getD_set] at ho ⊢
  split
  · rfl
  · exact ho

/-- one owned descriptor is closed: the table stays well-formed, no assertion, the remaining owners keep theirs -/
theorem close_owned {t : Table} {L : List Nat} (hw : WF t) (hn : L.Nodup) (ho : ∀ x ∈ L, t.isOpen x = true) {fd : Nat} (hm : fd ∈ L) :
    ∃ t', fdClose t fd = .ok t' ∧ WF t' ∧ (∀ x ∈ L.erase fd, t'.isOpen x = true) ∧ t'.number = t.number - 1 ∧
      t'.isOpen fd = false ∧ t'.maxFD = t.maxFD := by
  obtain ⟨t', e, w, f, n⟩ := fdClose_wf hw (ho fd hm)
  refine ⟨t', e, w, ?_, n, ?_, by simp [Table.maxFD, f]⟩
  · intro x hx
    have hx' := (List.Nodup.mem_erase_iff hn).mp hx
    exact close_keeps_others f hx'.1 (ho x hx'.2)
  · have hlt : fd < t.flags.length := getD_true_lt (ho fd hm)
    simp only [Table.isOpen, f, getD_set, hlt, and_self, if_true]

theorem perm_cons_eraseIdx : ∀ (l : List Nat) (i : Nat) (h : i < l.length), (l[i] :: l.eraseIdx i).Perm l := by
  intro l
  induction l with
  | nil => intro i h; simp at h
  | cons a t ih =>
    intro i h
    cases i with
    | zero => exact List.Perm.refl _
    | succ k =>
      have hk : k < t.length := by simpa using h
      simp only [List.getElem_cons_succ, List.eraseIdx_cons_succ]
      exact (List.Perm.swap a (t[k]'hk) (t.eraseIdx k)).trans (List.Perm.cons a (ih k hk))

theorem eraseIdx_eq_erase_of_nodup : ∀ (l : List Nat), l.Nodup → ∀ (i : Nat) (h : i < l.length), l.eraseIdx i = l.erase l[i] := by
  intro l
  induction l with
  | nil => intro _ i h; simp at h
  | cons a t ih =>
    intro hn i h
    cases i with
    | zero => simp
    | succ k =>
      have hk : k < t.length := by simpa using h
      have hne : a ≠ t[k] := by
        intro heq
        have := (List.nodup_cons.mp hn).1
        exact this (heq ▸ List.getElem_mem hk)
      simp only [List.getElem_cons_succ, List.eraseIdx_cons_succ]
      rw [List.erase_cons_tail (by simpa using hne)]
      rw [ih (List.nodup_cons.mp hn).2 k hk]

/-- `fd_close` over a list of distinct open descriptors: no assertion, exactly those are closed -/
theorem closeAll_inv : ∀ (C : List Nat) (s : St), WF s.tbl → s.bad = none → C.Nodup → (∀ x ∈ C, s.tbl.isOpen x = true) →
    WF (closeAll s C).tbl ∧ (closeAll s C).bad = none ∧ (closeAll s C).tbl.number = s.tbl.number - (C.length : Int) ∧
    (∀ x, x ∉ C → s.tbl.isOpen x = true → (closeAll s C).tbl.isOpen x = true) ∧
    (closeAll s C).busy = s.busy ∧ (closeAll s C).pool = s.pool ∧ (closeAll s C).base = s.base := by
  intro C
  induction C with
  | nil => intro s hw hb _ _; simp [closeAll, hw, hb]
  | cons fd rest ih =>
    intro s hw hb hn ho
    obtain ⟨t', e, w, f, n⟩ := fdClose_wf hw (ho fd (List.mem_cons_self))
    have hn' := List.nodup_cons.mp hn
    simp only [closeAll, e, St.withTbl]
    have hrest : ∀ x ∈ rest, ({ s with tbl := t' } : St).tbl.isOpen x = true := by
      intro x hx
      have hne : x ≠ fd := by intro heq; exact hn'.1 (heq ▸ hx)
      exact close_keeps_others f hne (ho x (List.mem_cons_of_mem _ hx))
    obtain ⟨a1, a2, a3, a4, a5, a6, a7⟩ := ih { s with tbl := t' } w hb hn'.2 hrest
    refine ⟨a1, a2, ?_, ?_, a5, a6, a7⟩
    · rw [a3]; simp only [n, List.length_cons]; omega
    · intro x hx hox
      have hne : x ≠ fd := by intro heq; exact hx (heq ▸ List.mem_cons_self)
      exact a4 x (fun hm => hx (List.mem_cons_of_mem _ hm)) (close_keeps_others f hne hox)

theorem inv_closeBusy {s : St} (h : Inv s) {fd : Nat} (hm : fd ∈ s.busy) : Inv (step s (.closeBusy fd)) := by
  have hmo : fd ∈ s.owned := List.mem_append_left _ hm
  obtain ⟨t', e, w, o, n, _, _⟩ := close_owned h.wf h.nodup h.opened hmo
  have hown : (s.busy.erase fd ++ s.pool.list) = s.owned.erase fd := by
    simp only [St.owned]; rw [List.erase_append_left _ hm]
  simp only [step, hm, if_true, e, St.withTbl]
  refine ⟨w, h.ok, ?_, ?_, ?_⟩
  · simp only [St.owned]; rw [hown]; exact h.nodup.erase fd
  · simp only [St.owned]; rw [hown]; exact o
  · simp only [St.owned]; rw [hown, n, h.count, List.length_erase_of_mem hmo]
    have : 0 < s.owned.length := List.length_pos_of_mem hmo
    omega

theorem inv_step {s : St} (h : Inv s) (e : Ev) : Inv (step s e) := by
  cases e with
  | openNew fd =>
    simp only [step]
    split
    · rename_i hg
      obtain ⟨t', e, w, f, n⟩ := fdOpen_wf h.wf hg.1 hg.2
      have hnot : fd ∉ s.owned := by
        intro hm
        have := h.opened fd hm
        rw [hg.2] at this; cases this
      simp only [e, St.withTbl]
      refine ⟨w, h.ok, ?_, ?_, ?_⟩
      · simp only [St.owned, List.cons_append]
        exact List.nodup_cons.mpr ⟨hnot, h.nodup⟩
      · intro x hx
        simp only [St.owned, List.cons_append, List.mem_cons] at hx
        rcases hx with rfl | hx
        · have hlt : x < s.tbl.flags.length := hg.1
          simp only [Table.isOpen, f, getD_set, hlt, and_self, if_true]
        · exact open_keeps_others f (h.opened x hx)
      · simp only [St.owned, List.cons_append, List.length_cons]
        rw [n, h.count]; simp only [St.owned]; omega
    · exact h
  | closeBusy fd =>
    by_cases hm : fd ∈ s.busy
    · exact inv_closeBusy h hm
    · simp only [step, hm, if_false]; exact h
  | toPool fd =>
    by_cases hm : fd ∈ s.busy
    · simp only [step, hm, if_true]
      split
      · have := inv_closeBusy h hm
        simpa only [step, hm, if_true] using this
      · -- the descriptor moves from its transaction to the idle list
        have hperm : (s.busy.erase fd ++ (s.pool.list ++ [fd])).Perm s.owned := by
          have h1 : (s.busy.erase fd ++ (s.pool.list ++ [fd])).Perm (fd :: (s.busy.erase fd ++ s.pool.list)) := by
            rw [← List.append_assoc]
            exact List.perm_append_singleton _ _
          have h2 : (fd :: (s.busy.erase fd ++ s.pool.list)).Perm (s.busy ++ s.pool.list) := by
            rw [← List.cons_append]
            exact List.Perm.append_right _ (List.perm_cons_erase hm).symm
          exact h1.trans h2
        refine ⟨h.wf, h.ok, ?_, ?_, ?_⟩
        · simp only [St.owned, IdleList.push]; exact hperm.nodup_iff.mpr h.nodup
        · intro x hx
          simp only [St.owned, IdleList.push] at hx
          exact h.opened x (hperm.mem_iff.mp hx)
        · simp only [St.owned, IdleList.push]
          rw [hperm.length_eq, h.count]
    · simp only [step, hm, if_false]; exact h
  | fromPool avail =>
    simp only [step]
    cases hl : lastIdx (fun fd => avail.contains fd) s.pool.list with
    | none => simp only [IdleList.pop, hl]; exact h
    | some i =>
      obtain ⟨hi, _⟩ := lastIdx_some hl
      have hget : s.pool.list[i]? = some s.pool.list[i] := List.getElem?_eq_getElem hi
      have hnge : ¬ i ≥ s.pool.list.length := by omega
      simp only [IdleList.pop, hl, hget, IdleList.removeAt, hnge, if_false]
      have hperm : (s.pool.list[i] :: s.busy ++ s.pool.list.eraseIdx i).Perm s.owned := by
        simp only [St.owned, List.cons_append]
        have h1 : (s.pool.list[i] :: s.pool.list.eraseIdx i).Perm s.pool.list := perm_cons_eraseIdx _ _ hi
        exact (List.perm_middle.symm.trans (List.Perm.append_left _ h1))
      refine ⟨h.wf, h.ok, ?_, ?_, ?_⟩
      · simp only [St.owned]; exact hperm.nodup_iff.mpr h.nodup
      · intro x hx
        simp only [St.owned] at hx
        exact h.opened x (hperm.mem_iff.mp hx)
      · simp only [St.owned]
        rw [hperm.length_eq, h.count]
  | idleClose fd =>
    simp only [step, IdleList.findAndClose, IdleList.findIndexOf]
    cases hl : lastIdx (fun x => x == fd) s.pool.list with
    | none => exact h
    | some i =>
      obtain ⟨hi, hp⟩ := lastIdx_some hl
      have hfd : s.pool.list[i] = fd := by simpa using hp
      have hnge : ¬ i ≥ s.pool.list.length := by omega
      have hm : fd ∈ s.pool.list := hfd ▸ List.getElem_mem hi
      have hmo : fd ∈ s.owned := List.mem_append_right _ hm
      obtain ⟨t', e, w, o, n, _, _⟩ := close_owned h.wf h.nodup h.opened hmo
      have hnb : fd ∉ s.busy := by
        intro hb
        have := (List.nodup_append.mp h.nodup).2.2 fd hb fd hm
        exact this rfl
      have hpn : s.pool.list.Nodup := (List.nodup_append.mp h.nodup).2.1
      have her : s.pool.list.eraseIdx i = s.pool.list.erase fd := by
        rw [← hfd]; exact eraseIdx_eq_erase_of_nodup _ hpn _ hi
      have hown : s.busy ++ s.pool.list.erase fd = s.owned.erase fd := by
        simp only [St.owned]; rw [List.erase_append_right _ hnb]
      simp only [IdleList.removeAt, hnge, if_false, e, St.withTbl, her]
      refine ⟨w, h.ok, ?_, ?_, ?_⟩
      · simp only [St.owned]; rw [hown]; exact h.nodup.erase fd
      · simp only [St.owned]; rw [hown]; exact o
      · simp only [St.owned]; rw [hown, n, h.count, List.length_erase_of_mem hmo]
        have : 0 < s.owned.length := List.length_pos_of_mem hmo
        omega
  | poolCloseN n =>
    have hpn : s.pool.list.Nodup := (List.nodup_append.mp h.nodup).2.1
    have hbn : s.busy.Nodup := (List.nodup_append.mp h.nodup).1
    have hdis : ∀ x ∈ s.busy, x ∉ s.pool.list := fun x hb hp => (List.nodup_append.mp h.nodup).2.2 x hb x hp rfl
    have hopen : ∀ x ∈ s.pool.list, s.tbl.isOpen x = true := fun x hx => h.opened x (List.mem_append_right _ hx)
    have hlen := closeN_length s.pool n
    -- facts about the two halves of closeN
    have hclosed_nd : (s.pool.closeN n).1.Nodup ∧ (∀ x ∈ (s.pool.closeN n).1, x ∈ s.pool.list) ∧
        (s.pool.closeN n).2.list.Nodup ∧ (∀ x ∈ (s.pool.closeN n).2.list, x ∈ s.pool.list ∧ x ∉ (s.pool.closeN n).1) := by
      unfold IdleList.closeN
      split
      · exact ⟨List.nodup_nil, by simp, hpn, fun x hx => ⟨hx, by simp⟩⟩
      · split
        · exact ⟨(List.reverse_perm s.pool.list).nodup_iff.mpr hpn, by simp, List.nodup_nil, by simp⟩
        · have hsplit := List.take_append_drop n s.pool.list
          have hnd : (s.pool.list.take n ++ s.pool.list.drop n).Nodup := by rw [hsplit]; exact hpn
          have := List.nodup_append.mp hnd
          refine ⟨this.1, fun x hx => List.mem_of_mem_take hx, this.2.1, fun x hx => ⟨List.mem_of_mem_drop hx, ?_⟩⟩
          intro hx'
          exact this.2.2 x hx' x hx rfl
    obtain ⟨c1, c2, c3, c4⟩ := hclosed_nd
    obtain ⟨a1, a2, a3, a4, a5, a6, a7⟩ := closeAll_inv (s.pool.closeN n).1 s h.wf h.ok c1 (fun x hx => hopen x (c2 x hx))
    simp only [step]
    refine ⟨a1, a2, ?_, ?_, ?_⟩
    · simp only [St.owned, a5]
      refine List.nodup_append.mpr ⟨hbn, c3, ?_⟩
      intro x hb y hy hxy
      subst hxy
      exact hdis x hb (c4 x hy).1
    · intro x hx
      simp only [St.owned, a5, List.mem_append] at hx
      rcases hx with hb | hp
      · exact a4 x (fun hc => hdis x hb (c2 x hc)) (h.opened x (List.mem_append_left _ hb))
      · exact a4 x (c4 x hp).2 (hopen x (c4 x hp).1)
    · simp only [St.owned, a5, a7, List.length_append]
      rw [a3, h.count]
      simp only [St.owned, List.length_append]
      omega

end SquidModel.Fd
