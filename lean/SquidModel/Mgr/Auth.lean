/-
C61 model: cache manager access control (src/cache_manager.cc).

* `PasswdGet`: walk the `cachemgr_passwd` list in configuration order; the first entry whose action list names the action
  or contains `all` supplies the password.
* `ActionProtection`: no entry ⇒ `hidden` when the action requires a password (`isPwReq`), else `public`; `disable` ⇒ `disabled`;
  `none` ⇒ `public`; otherwise `protected`.
* `ParseUrl`: unknown action ⇒ 404; `disabled` / `hidden` ⇒ 404 ("action is disabled/hidden").
* `CheckPassword`: no entry ⇒ `isPwReq`; `disable` ⇒ refuse; `none` ⇒ accept; empty supplied password ⇒ refuse; else compare.
* The manager ACL is checked by `http_access` before the request reaches the cache manager (403 when denied).
-/
import SquidModel.Base.Bytes

namespace SquidModel.Mgr

structure PwEntry where
  passwd : Bytes
  actions : List Bytes
  deriving Repr, DecidableEq

def allTok : Bytes := [97, 108, 108]                       -- "all"
def disableTok : Bytes := [100, 105, 115, 97, 98, 108, 101] -- "disable"
def noneTok : Bytes := [110, 111, 110, 101]                -- "none"

/-- `CacheManager::PasswdGet` -/
def passwdGet : List PwEntry → Bytes → Option Bytes
  | [], _ => none
  | e :: rest, action =>
    if e.actions.any (fun w => w == action || w == allTok) then some e.passwd else passwdGet rest action

inductive Protection | pub | prot | disabled | hidden
  deriving DecidableEq, Repr

/-- `CacheManager::ActionProtection` -/
def protection (pws : List PwEntry) (action : Bytes) (pwReq : Bool) : Protection :=
  match passwdGet pws action with
  | none => if pwReq then .hidden else .pub
  | some p => if p = disableTok then .disabled else if p = noneTok then .pub else .prot

/-- `CacheManager::CheckPassword`: `true` = refused -/
def checkPasswordRefuses (pws : List PwEntry) (action : Bytes) (pwReq : Bool) (supplied : Bytes) : Bool :=
  match passwdGet pws action with
  | none => pwReq
  | some p =>
    if p = disableTok then true
    else if p = noneTok then false
    else if supplied.isEmpty then true
    else supplied != p

inductive Outcome | report | denied403 | notFound404 | unauthorized401
  deriving DecidableEq, Repr

structure Action where
  name : Bytes
  pwReq : Bool
  deriving Repr, DecidableEq

/-- the whole decision: http_access verdict for the manager ACL, action lookup, protection, password -/
def decideMgr (accessAllowed : Bool) (known : List Action) (pws : List PwEntry) (action : Bytes) (supplied : Bytes) : Outcome :=
  if !accessAllowed then .denied403
  else match known.find? (fun a => a.name == action) with
    | none => .notFound404
    | some a =>
      match protection pws action a.pwReq with
      | .disabled | .hidden => .notFound404
      | _ => if checkPasswordRefuses pws action a.pwReq supplied then .unauthorized401 else .report

end SquidModel.Mgr
