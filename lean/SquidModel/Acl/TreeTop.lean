/-
C44 — the rule loop of the Acl::Tree and the entry points of ACLChecklist (matchAndFinish, nonBlockingCheck,
resumeNonBlockingCheck, fastCheck) meet the resumption specification; a suspended checklist carries an invariant
that makes every later resume end with the reference answer.
-/
import SquidModel.Acl.TreeLemmas

namespace SquidModel.Acl.Tree

/-! ### the rule loop -/

/-- the stack `p` makes sense for `treeLoop ctx rules i skip` -/
def ValidRules (ctx : Ctx) : Rules → Nat → Nat → List Crumb → Prop
  | [], _, _, p => p = []
  | _ :: rest, i, skip + 1, p => ValidRules ctx rest (i + 1) skip p
  | (a, n) :: rest, i, 0, p => if ctx.isBanned a then ValidRules ctx rest (i + 1) 0 p else ValidAt n [i] p

theorem validRules_fresh (ctx : Ctx) (rules : Rules) (i : Nat) : ValidRules ctx rules i 0 [] := by
  induction rules generalizing i with
  | nil => simp [ValidRules]
  | cons r rest ih =>
    obtain ⟨a, n⟩ := r
    simp only [ValidRules]
    split
    · exact ih _
    · simp [ValidAt, validChild]

/-- result, `lastMatch_` and final state agree with the expected outcome of the rule loop over `rules`, whose first
rule has position `i` -/
def TreeRes (o : TreeOut) (rules : Rules) (i : Nat) (r : Int) (lm : Option Nat) (s : CL) : Prop :=
  match o with
  | .win a => r = 1 ∧ s.finished = false ∧ ∃ k n, lm = some (i + k) ∧ rules[k]? = some (a, n)
  | .stopped c => r = -1 ∧ s.finished = true ∧ s.answer = { code := c }
  | .noRule => r = 0 ∧ s.finished = false

inductive TreePost (ctx : Ctx) (bound : Nat) (o : TreeOut) (rules : Rules) (i : Nat) (okPath : List Crumb → Prop) :
    Int × Option Nat × CL → Prop where
  | done {r : Int} {lm : Option Nat} {s : CL} : s.stage = .none → s.path = [] → s.fault = none →
      RoundsOk ctx s.rounds → totalRounds s.rounds ≤ bound → TreeRes o rules i r lm s →
      TreePost ctx bound o rules i okPath (r, lm, s)
  | paused {r : Int} {lm : Option Nat} {s : CL} : s.stage = .running → r ≠ 1 → s.finished = false → s.fault = none →
      RoundsOk ctx s.rounds → totalRounds s.rounds ≤ bound → PendingOk s → okPath s.path →
      TreePost ctx bound o rules i okPath (r, lm, s)

theorem treeRes_shift {o : TreeOut} {rest : Rules} {x : Answer × Node} {i : Nat} {r : Int} {lm : Option Nat} {s : CL}
    (h : TreeRes o rest (i + 1) r lm s) : TreeRes o (x :: rest) i r lm s := by
  cases o with
  | win a =>
    obtain ⟨h1, h2, k, n, h3, h4⟩ := h
    exact ⟨h1, h2, k + 1, n, by rw [h3]; congr 1; omega, by simpa using h4⟩
  | stopped c => exact h
  | noRule => exact h

theorem TreePost.shift {ctx : Ctx} {b b' : Nat} {o : TreeOut} {rest : Rules} {x : Answer × Node} {i : Nat}
    {P Q : List Crumb → Prop} {y : Int × Option Nat × CL}
    (h : TreePost ctx b o rest (i + 1) P y) (hb : b ≤ b') (hpq : ∀ p, P p → Q p) :
    TreePost ctx b' o (x :: rest) i Q y := by
  cases h with
  | done h1 h2 h3 h4 h5 h6 => exact .done h1 h2 h3 h4 (Nat.le_trans h5 hb) (treeRes_shift h6)
  | paused h1 h2 h3 h4 h5 h6 h7 h8 => exact .paused h1 h2 h3 h4 h5 (Nat.le_trans h6 hb) h7 (hpq _ h8)

theorem treeLoop_spec (ctx : Ctx) (rules : Rules) (i skip : Nat) (s : CL) (hs : Good ctx s)
    (hv : ValidRules ctx rules i skip s.path) :
    TreePost ctx (totalRounds s.rounds) (refTreeAt ctx rules skip (s.path.map (·.pos))) rules i
      (fun p => ∃ k p', p = ⟨[], i + k⟩ :: p' ∧ ValidRules ctx rules i k p' ∧
        refTreeAt ctx rules k (p'.map (·.pos)) = refTreeAt ctx rules skip (s.path.map (·.pos)))
      (treeLoop ctx rules i skip s) := by
  induction rules generalizing i skip s with
  | nil =>
    simp only [ValidRules] at hv
    simp only [treeLoop, refTreeAt]
    exact .done hs.stage hv hs.fault hs.rounds (Nat.le_refl _) ⟨rfl, hs.fin⟩
  | cons x rest ih =>
    obtain ⟨a, n⟩ := x
    cases skip with
    | succ skip =>
      simp only [ValidRules] at hv
      simp only [treeLoop, refTreeAt]
      refine (ih (i + 1) skip s hs hv).shift (Nat.le_refl _) ?_
      rintro p ⟨k, p', hp, hvp, hrp⟩
      refine ⟨k + 1, p', ?_, ?_, ?_⟩
      · rw [hp]; congr 2; omega
      · simpa [ValidRules] using hvp
      · simpa [refTreeAt] using hrp
    | zero =>
      simp only [ValidRules] at hv
      simp only [treeLoop, refTreeAt]
      by_cases hb : ctx.isBanned a = true
      · have hb' : ctx.banned.any (fun x => x.same a) = true := hb
        simp only [hb, if_true] at hv ⊢
        simp only [hb', if_true]
        refine (ih (i + 1) 0 s hs hv).shift (Nat.le_refl _) ?_
        rintro p ⟨k, p', hp, hvp, hrp⟩
        refine ⟨k + 1, p', ?_, ?_, ?_⟩
        · rw [hp]; congr 2; omega
        · simpa [ValidRules] using hvp
        · simpa [refTreeAt] using hrp
      · have hb' : ¬ ctx.banned.any (fun x => x.same a) = true := hb
        simp only [hb, Bool.false_eq_true, if_false] at hv ⊢
        simp only [hb', if_false]
        have mc := matchChild_spec ctx n [] i (run_spec ctx n ([] ++ [i])) s hs hv
        simp only [List.nil_append] at mc
        simp only [← refAt_eq]
        generalize matchChild n.isLeaf (run ctx n [i]) [] i s = y at mc
        obtain ⟨m, s1⟩ := y
        cases mc with
        | done h1 h2 h3 h4 h5 h6 =>
          cases ho : refAt ctx n s.path with
          | yes =>
            rw [ho] at h6; obtain ⟨hm, hf⟩ := h6; subst hm
            simp only [if_true]
            exact .done h1 h2 h3 h4 h5 ⟨rfl, hf, 0, n, rfl, rfl⟩
          | no =>
            rw [ho] at h6; obtain ⟨hm, hf⟩ := h6; subst hm
            simp only [Bool.false_eq_true, if_false, CL.KeepMatching, hf, h1, and_self, if_true]
            have ih' := ih (i + 1) 0 s1 ⟨h1, hf, h3, h4⟩ (by rw [h2]; exact validRules_fresh _ _ _)
            rw [h2] at ih'
            refine ih'.shift h5 ?_
            rintro p ⟨k, p', hp, hvp, hrp⟩
            refine ⟨k + 1, p', ?_, ?_, ?_⟩
            · rw [hp]; congr 2; omega
            · simpa [ValidRules] using hvp
            · simpa [refTreeAt] using hrp
          | stop code =>
            rw [ho] at h6; obtain ⟨hm, hf, ha⟩ := h6; subst hm
            simp only [Bool.false_eq_true, if_false, CL.KeepMatching, hf]
            exact .done h1 h2 h3 h4 h5 ⟨rfl, hf, ha⟩
        | paused h1 h2 h3 h4 h5 h6 h7 h8 =>
          subst h2
          obtain ⟨p', hp', hvp, hrp⟩ := h8
          simp only [Bool.false_eq_true, if_false, CL.KeepMatching, h1, reduceCtorEq, and_false]
          refine .paused h1 (by decide) h3 h4 h5 h6 h7 ⟨0, p', by simpa using hp', ?_, ?_⟩
          · simp only [ValidRules, hb, Bool.false_eq_true, if_false]; exact hvp
          · simp only [refTreeAt, hb, Bool.false_eq_true, if_false, ← refAt_eq, hrp]

/-! ### matchAndFinish -/

/-- the breadcrumb stack of a suspended checklist makes sense for the access list -/
def TreeValid (ctx : Ctx) (rules : Rules) (p : List Crumb) : Prop :=
  match p with
  | [] => True
  | top :: rest => top.addr = [] ∧ ValidRules ctx rules 0 top.pos rest

/-- the final state agrees with the outcome of the rule loop after matchAndFinish -/
def FinalOk (o : TreeOut) (s : CL) : Prop :=
  match o with
  | .win a => s.finished = true ∧ s.answer = a
  | .stopped c => s.finished = true ∧ s.answer = { code := c }
  | .noRule => s.finished = false

/-- everything a suspended checklist must satisfy so that resuming it works -/
structure PausedInv (ctx : Ctx) (rules : Rules) (o : TreeOut) (s : CL) : Prop where
  stage : s.stage = .running
  fin : s.finished = false
  fault : s.fault = none
  rounds : RoundsOk ctx s.rounds
  pending : PendingOk s
  valid : TreeValid ctx rules s.path
  nonempty : s.path ≠ []
  spec : treeAt ctx rules s.path = o

inductive MAFPost (ctx : Ctx) (rules : Rules) (bound : Nat) (o : TreeOut) : CL → Prop where
  | done {s : CL} : s.stage = .none → s.path = [] → s.fault = none → RoundsOk ctx s.rounds →
      totalRounds s.rounds ≤ bound → FinalOk o s → MAFPost ctx rules bound o s
  | paused {s : CL} : PausedInv ctx rules o s → totalRounds s.rounds ≤ bound → MAFPost ctx rules bound o s

theorem getElem?_zero_add {α : Type} (l : List α) (k : Nat) : l[0 + k]? = l[k]? := by simp

theorem maf_finish (ctx : Ctx) (rules : Rules) (b : Nat) (o : TreeOut) (y : Int × Option Nat × CL)
    (h : TreePost ctx b o rules 0
      (fun p => ∃ k p', p = ⟨[], 0 + k⟩ :: p' ∧ ValidRules ctx rules 0 k p' ∧ refTreeAt ctx rules k (p'.map (·.pos)) = o) y) :
    MAFPost ctx rules b o
      (match y with
       | (r, lm, s) =>
         if r = 1 then
           let (a, s) := winningAction rules lm s
           (lm, markFinished a s)
         else (lm, s)).2 := by
  obtain ⟨r, lm, s⟩ := y
  cases h with
  | done h1 h2 h3 h4 h5 h6 =>
    cases o with
    | win a =>
      obtain ⟨hr, hf, k, n, hlm, hk⟩ := h6
      subst hr
      simp only [if_true, hlm, winningAction, Nat.zero_add, hk, markFinished, hf, h1, and_self]
      exact .done rfl h2 h3 h4 h5 ⟨rfl, rfl⟩
    | stopped c =>
      obtain ⟨hr, hf, ha⟩ := h6
      subst hr
      simp only [show ¬ ((-1 : Int) = 1) by decide, if_false]
      exact .done h1 h2 h3 h4 h5 ⟨hf, ha⟩
    | noRule =>
      obtain ⟨hr, hf⟩ := h6
      subst hr
      simp only [show ¬ ((0 : Int) = 1) by decide, if_false]
      exact .done h1 h2 h3 h4 h5 hf
  | paused h1 h2 h3 h4 h5 h6 h7 h8 =>
    simp only [h2, if_false]
    obtain ⟨k, p', hp, hvp, hrp⟩ := h8
    refine .paused ⟨h1, h3, h4, h5, h7, ?_, ?_, ?_⟩ h6
    · rw [hp]; exact ⟨rfl, by simpa using hvp⟩
    · rw [hp]; simp
    · rw [hp]; simpa [treeAt] using hrp

theorem matchAndFinish_spec (ctx : Ctx) (rules : Rules) (s : CL) (hs : Good ctx s)
    (hv : TreeValid ctx rules s.path) (o : TreeOut) (ho : treeAt ctx rules s.path = o) :
    MAFPost ctx rules (totalRounds s.rounds) o (matchAndFinish ctx rules s).2 := by
  subst ho
  unfold matchAndFinish
  cases hp : s.path with
  | nil =>
    have h := treeLoop_spec ctx rules 0 0 s hs (by rw [hp]; exact validRules_fresh _ _ _)
    simp only [hp, List.map_nil] at h
    simp only [treeAt]
    exact maf_finish ctx rules _ _ _ h
  | cons top rest =>
    rw [hp] at hv
    obtain ⟨hv1, hv2⟩ := hv
    have h := treeLoop_spec ctx rules 0 top.pos { s with path := rest } ⟨hs.stage, hs.fin, hs.fault, hs.rounds⟩ hv2
    simp only [hv1, if_true, treeAt]
    exact maf_finish ctx rules _ _ _ h

/-! ### the implicit answer -/

theorem implicit_eq (rules : Rules) :
    ({ code := if (lastAction rules).code = .denied then Code.allowed
               else if (lastAction rules).code = .allowed then Code.denied else Code.dunno,
       implicit := true } : Answer) = implicitAnswer rules := by
  unfold lastAction implicitAnswer
  split
  next h => simp [h]
  next a n h =>
    simp only [h]
    split
    · rfl
    · split <;> rfl

theorem calcImplicitAnswer_eq (rules : Rules) (s : CL) :
    calcImplicitAnswer (some rules) s = markFinished (implicitAnswer rules) s := by
  simp only [calcImplicitAnswer]
  rw [implicit_eq]

/-! ### the entry points -/

/-- what a step of a check yields: the reference answer, or a suspended checklist that is still on its way to it
and has fewer lookups to do than `bound` allows -/
def StepPost (ctx : Ctx) (rules : Rules) (bound : Nat) : StepOut → Prop
  | .answered a s => a = reference ctx rules ∧ s.fault = none
  | .paused s => PausedInv ctx rules (refTreeAt ctx rules 0 []) s ∧ totalRounds s.rounds ≤ bound

theorem finish_step (ctx : Ctx) (rules : Rules) (b : Nat) (x : Option Nat × CL)
    (h : MAFPost ctx rules b (refTreeAt ctx rules 0 []) x.2) :
    StepPost ctx rules b
      (match x with
       | (lm, s) =>
         if s.stage = Stage.none then
           let s := completeNonBlocking (some rules) s
           (lm, StepOut.answered s.answer s)
         else (lm, StepOut.paused s)).2 := by
  obtain ⟨lm, s⟩ := x
  replace h : MAFPost ctx rules b (refTreeAt ctx rules 0 []) s := h
  have ho := answerOf_start ctx rules
  cases h with
  | done h1 h2 h3 h4 h5 h6 =>
    simp only [h1, if_true, completeNonBlocking]
    cases hspec : refTreeAt ctx rules 0 [] with
    | win a =>
      rw [hspec] at h6 ho
      obtain ⟨hf, ha⟩ := h6
      simp only [hf, if_true]
      exact ⟨by rw [ha]; exact ho, h3⟩
    | stopped c =>
      rw [hspec] at h6 ho
      obtain ⟨hf, ha⟩ := h6
      simp only [hf, if_true]
      exact ⟨by rw [ha]; exact ho, h3⟩
    | noRule =>
      rw [hspec] at h6 ho
      simp only [FinalOk] at h6
      simp only [h6, Bool.false_eq_true, if_false, calcImplicitAnswer_eq, markFinished, h1, and_self, if_true]
      exact ⟨ho, h3⟩
  | paused hp hb =>
    simp only [hp.stage, reduceCtorEq, if_false]
    exact ⟨hp, hb⟩

theorem finish_resume (ctx : Ctx) (rules : Rules) (b : Nat) (x : Option Nat × CL)
    (h : MAFPost ctx rules b (refTreeAt ctx rules 0 []) x.2) :
    StepPost ctx rules b
      (match x with
       | (lm, s) =>
         if s.stage = Stage.none then
           let s := completeNonBlocking (some rules) s
           (lm, StepOut.answered s.answer s)
         else
           let s := if s.path = [] then s.fail .pausedNoPath else s
           (lm, StepOut.paused s)).2 := by
  have := finish_step ctx rules b x h
  obtain ⟨lm, s⟩ := x
  replace h : MAFPost ctx rules b (refTreeAt ctx rules 0 []) s := h
  cases h with
  | done h1 h2 h3 h4 h5 h6 =>
    simp only [h1, if_true] at this ⊢
    exact this
  | paused hp hb =>
    simp only [hp.stage, reduceCtorEq, if_false, hp.nonempty] at this ⊢
    exact this

theorem nonBlockingCheck_spec (ctx : Ctx) (rules : Rules) (lm : Option Nat) (s : CL)
    (hst : s.stage = .none) (hfault : s.fault = none) (hpath : s.path = []) (hro : RoundsOk ctx s.rounds) :
    StepPost ctx rules (totalRounds s.rounds) (nonBlockingCheck ctx (some rules) lm s).2 := by
  have h := matchAndFinish_spec ctx rules { s with depth := 0, finished := false } ⟨hst, rfl, hfault, hro⟩
    (by simp [hpath, TreeValid]) (refTreeAt ctx rules 0 []) (by simp [hpath, treeAt])
  simp only [nonBlockingCheck]
  exact finish_step ctx rules _ _ h

theorem nonBlockingCheck_nil (ctx : Ctx) (lm : Option Nat) (s : CL) (hst : s.stage = .none) (hfault : s.fault = none) :
    ∃ s', (nonBlockingCheck ctx none lm s).2 = .answered { code := .dunno } s' ∧ s'.fault = none := by
  simp only [nonBlockingCheck, markFinished, hst, and_self, if_true]
  exact ⟨_, rfl, hfault⟩

theorem resume_eq (ctx : Ctx) (rules : Rules) (lm : Option Nat) (s : CL)
    (hst : s.stage = .running) (hne : s.path ≠ []) (hfin : s.finished = false) :
    resumeNonBlockingCheck ctx (some rules) lm s =
      (match matchAndFinish ctx rules { s with stage := Stage.none } with
       | (lm, s) =>
         if s.stage = Stage.none then
           let s := completeNonBlocking (some rules) s
           (lm, StepOut.answered s.answer s)
         else
           let s := if s.path = [] then s.fail .pausedNoPath else s
           (lm, StepOut.paused s)) := by
  simp only [resumeNonBlockingCheck, hst, if_true, hne, if_false, hfin, Bool.false_eq_true]

theorem completeLookup_spec (ctx : Ctx) (rules : Rules) (lm : Option Nat) (s : CL)
    (h : PausedInv ctx rules (refTreeAt ctx rules 0 []) s) :
    StepPost ctx rules (totalRounds s.rounds - 1) (completeLookup ctx (some rules) lm s).2 := by
  obtain ⟨l, hl, hne⟩ := h.pending
  have hlt := totalRounds_pop_lt s.rounds l hne
  have hm := matchAndFinish_spec ctx rules { popPending s l with stage := Stage.none }
    ⟨rfl, h.fin, h.fault, h.rounds.pop l⟩ h.valid _ h.spec
  have hm' : MAFPost ctx rules (totalRounds s.rounds - 1) (refTreeAt ctx rules 0 []) (matchAndFinish ctx rules
      { popPending s l with stage := Stage.none }).2 := by
    cases hm with
    | done h1 h2 h3 h4 h5 h6 =>
      refine .done h1 h2 h3 h4 ?_ h6
      have h5' : totalRounds _ ≤ totalRounds (popRound s.rounds l) := h5
      omega
    | paused hp hb =>
      refine .paused hp ?_
      have hb' : totalRounds _ ≤ totalRounds (popRound s.rounds l) := hb
      omega
  simp only [completeLookup, hl]
  rw [resume_eq ctx rules lm (popPending s l) h.stage h.nonempty h.fin]
  exact finish_resume ctx rules _ _ hm'

theorem finish_fast (ctx : Ctx) (rules : Rules) (b : Nat) (hfast : ctx.asyncCaller = false) (x : Option Nat × CL)
    (h : MAFPost ctx rules b (refTreeAt ctx rules 0 []) x.2) :
    ∃ s', (match x with
       | (lm, s) =>
         if s.finished then (lm, StepOut.answered s.answer s)
         else
           let s := calcImplicitAnswer (some rules) s
           (lm, StepOut.answered s.answer s)).2 = .answered (reference ctx rules) s' ∧ s'.fault = none := by
  obtain ⟨lm, s⟩ := x
  replace h : MAFPost ctx rules b (refTreeAt ctx rules 0 []) s := h
  have ho := answerOf_start ctx rules
  cases h with
  | done h1 h2 h3 h4 h5 h6 =>
    cases hspec : refTreeAt ctx rules 0 [] with
    | win a =>
      rw [hspec] at h6 ho
      obtain ⟨hf, ha⟩ := h6
      simp only [hf, if_true]
      exact ⟨_, by rw [ha, ← ho]; rfl, h3⟩
    | stopped c =>
      rw [hspec] at h6 ho
      obtain ⟨hf, ha⟩ := h6
      simp only [hf, if_true]
      exact ⟨_, by rw [ha, ← ho]; rfl, h3⟩
    | noRule =>
      rw [hspec] at h6 ho
      simp only [FinalOk] at h6
      simp only [h6, Bool.false_eq_true, if_false, calcImplicitAnswer_eq, markFinished, h1, and_self, if_true]
      rw [← ho]
      exact ⟨_, rfl, h3⟩
  | paused hp hb =>
    obtain ⟨l, _, hne⟩ := hp.pending
    exact absurd ((hp.rounds l).2 hfast) hne

theorem fastCheck_spec (ctx : Ctx) (rules : Rules) (lm : Option Nat) (s : CL) (hfast : ctx.asyncCaller = false)
    (hst : s.stage = .none) (hfault : s.fault = none) (hpath : s.path = []) (hro : RoundsOk ctx s.rounds) :
    ∃ s', (fastCheck ctx (some rules) lm s).2 = .answered (reference ctx rules) s' ∧ s'.fault = none := by
  have h := matchAndFinish_spec ctx rules { s with depth := 0, finished := false } ⟨hst, rfl, hfault, hro⟩
    (by simp [hpath, TreeValid]) (refTreeAt ctx rules 0 []) (by simp [hpath, treeAt])
  simp only [fastCheck]
  exact finish_fast ctx rules _ hfast _ h

theorem fastCheck_nil (ctx : Ctx) (lm : Option Nat) (s : CL) (hst : s.stage = .none) (hfault : s.fault = none) :
    ∃ s', (fastCheck ctx none lm s).2 = .answered { code := .dunno, implicit := true } s' ∧ s'.fault = none := by
  simp only [fastCheck, calcImplicitAnswer, markFinished, hst, and_self, if_true]
  exact ⟨_, rfl, hfault⟩

end SquidModel.Acl.Tree
