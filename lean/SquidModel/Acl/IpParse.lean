/-
ACLIP::parse and ACLIP::match against the set reading of the configured tokens: the reference semantics (`unionB`: is the address in
the union of the listed sets?), the parse invariant, the lookup lemma and the statement about whole harness lines (`verdicts`).
Core Lean only.
-/
import SquidModel.Acl.IpMerge
import SquidModel.Acl.IpItem

namespace SquidModel.Acl.Ip
open SquidModel.Acl

/-! ### what the configuration denotes -/

/-- is `x` in the set a numeric token denotes?  (`false` for a token without a proper mask) -/
def Item.denB (it : Item) (x : Nat) : Bool :=
  match it.hostBits with
  | none => false
  | some k => decide (it.lo k ≤ x ∧ x ≤ it.hi k)

/-- is `x` in the set a token denotes?  `all`/`ipv4`/`ipv6` are their families; the legacy spellings of "everything" that
`parseGlobal` overrides count as `all` -/
def Token.denB : Token → Nat → Bool
  | .all, _ => true
  | .ipv4, x => isIPv4 x
  | .ipv6, x => !isIPv4 x
  | .item it, x => isLegacyAll it || it.denB x

/-- is `x` in the union of the listed sets? -/
def unionB (toks : List Token) (x : Nat) : Bool := toks.any (fun t => t.denB x)

/-- what an ACL object matches according to its switches and stored block ranges -/
def Acl.den (acl : Acl) (x : Nat) : Prop :=
  (acl.any4 = true ∧ isIPv4 x = true) ∨ (acl.any6 = true ∧ isIPv4 x = false) ∨ cover acl.tree.inorder x

/-! ### the values a token list configures -/

/-- the stored form of a token (nothing for keywords, legacy spellings and refused tokens) -/
def Token.val? : Token → Option Val
  | .item it => if isLegacyAll it then none else (factoryParse it).map (·.1)
  | _ => none

def cfgVals (toks : List Token) : List Val := toks.filterMap Token.val?

/-- the configured values and their end points -/
def ctxOf (toks : List Token) : Ctx :=
  ⟨fun v => v ∈ cfgVals toks, fun e => ∃ v ∈ cfgVals toks, v.first = e, fun e => ∃ v ∈ cfgVals toks, v.last = e⟩

/-- a token the parse invariant can digest -/
def TokOK (c : Ctx) : Token → Prop
  | .item it => isLegacyAll it = true ∨
      ∃ v evs, factoryParse it = some (v, evs) ∧ c.In v ∧ c.Cfg v ∧ ∀ x, v.mem x ↔ it.denB x = true
  | _ => True

theorem den_all (acl : Acl) (x : Nat) : Acl.den { acl with any4 := true, any6 := true } x := by
  unfold Acl.den
  cases hv : isIPv4 x
  · exact Or.inr (Or.inl ⟨rfl, rfl⟩)
  · exact Or.inl ⟨rfl, rfl⟩

theorem den_set4 (acl : Acl) (x : Nat) : Acl.den { acl with any4 := true } x ↔ acl.den x ∨ isIPv4 x = true := by
  unfold Acl.den
  constructor
  · rintro (⟨_, h⟩ | h | h)
    · exact Or.inr h
    · exact Or.inl (Or.inr (Or.inl h))
    · exact Or.inl (Or.inr (Or.inr h))
  · rintro ((⟨_, h⟩ | h | h) | h)
    · exact Or.inl ⟨rfl, h⟩
    · exact Or.inr (Or.inl h)
    · exact Or.inr (Or.inr h)
    · exact Or.inl ⟨rfl, h⟩

theorem den_set6 (acl : Acl) (x : Nat) : Acl.den { acl with any6 := true } x ↔ acl.den x ∨ isIPv4 x = false := by
  unfold Acl.den
  constructor
  · rintro (h | ⟨_, h⟩ | h)
    · exact Or.inl (Or.inl h)
    · exact Or.inr h
    · exact Or.inl (Or.inr (Or.inr h))
  · rintro ((h | ⟨_, h⟩ | h) | h)
    · exact Or.inl h
    · exact Or.inr (Or.inl ⟨rfl, h⟩)
    · exact Or.inr (Or.inr h)
    · exact Or.inr (Or.inl ⟨rfl, h⟩)

theorem den_tree (acl : Acl) (t' : Tree Val) (v : Val) (x : Nat)
    (hc : cover t'.inorder x ↔ cover acl.tree.inorder x ∨ v.mem x) :
    Acl.den { acl with tree := t' } x ↔ acl.den x ∨ v.mem x := by
  unfold Acl.den
  simp only [hc]
  constructor
  · rintro (h | h | h | h)
    · exact Or.inl (Or.inl h)
    · exact Or.inl (Or.inr (Or.inl h))
    · exact Or.inl (Or.inr (Or.inr h))
    · exact Or.inr h
  · rintro ((h | h | h) | h)
    · exact Or.inl h
    · exact Or.inr (Or.inl h)
    · exact Or.inr (Or.inr (Or.inl h))
    · exact Or.inr (Or.inr (Or.inr h))

theorem unionB_cons (t : Token) (rest : List Token) (x : Nat) :
    (unionB (t :: rest) x = true) ↔ (t.denB x = true ∨ unionB rest x = true) := by
  simp [unionB]

/-- `ACLIP::parse` on digestible tokens ends normally; the tree invariant holds; the object matches what it matched before
plus the sets of the new tokens -/
theorem parseFrom_spec {c : Ctx} (tame : Tame c) :
    ∀ (toks : List Token) (acl : Acl) (ev : List Event), (∀ t ∈ toks, TokOK c t) → Inv c acl.tree.inorder →
      ∃ acl' ev', parseFrom toks acl ev = .ok acl' ev' ∧ Inv c acl'.tree.inorder ∧
        ∀ x, acl'.den x ↔ acl.den x ∨ unionB toks x = true := by
  intro toks
  induction toks with
  | nil =>
    intro acl ev _ inv
    exact ⟨acl, ev, rfl, inv, fun x => by simp [unionB]⟩
  | cons t rest ih =>
    intro acl ev hok inv
    have hrest : ∀ t ∈ rest, TokOK c t := fun t ht => hok t (by simp [ht])
    cases t with
    | all =>
      obtain ⟨acl', ev', h1, h2, h3⟩ := ih { acl with any4 := true, any6 := true } ev hrest inv
      refine ⟨acl', ev', by simpa [parseFrom] using h1, h2, ?_⟩
      intro x
      rw [h3 x, unionB_cons]
      constructor
      · intro _; exact Or.inr (Or.inl rfl)
      · intro _; exact Or.inl (den_all acl x)
    | ipv4 =>
      obtain ⟨acl', ev', h1, h2, h3⟩ := ih { acl with any4 := true } ev hrest inv
      refine ⟨acl', ev', by simpa [parseFrom] using h1, h2, ?_⟩
      intro x
      rw [h3 x, unionB_cons, den_set4]
      show _ ↔ acl.den x ∨ (isIPv4 x = true ∨ _)
      constructor
      · rintro ((h | h) | h)
        · exact Or.inl h
        · exact Or.inr (Or.inl h)
        · exact Or.inr (Or.inr h)
      · rintro (h | h | h)
        · exact Or.inl (Or.inl h)
        · exact Or.inl (Or.inr h)
        · exact Or.inr h
    | ipv6 =>
      obtain ⟨acl', ev', h1, h2, h3⟩ := ih { acl with any6 := true } ev hrest inv
      refine ⟨acl', ev', by simpa [parseFrom] using h1, h2, ?_⟩
      intro x
      rw [h3 x, unionB_cons, den_set6]
      have e : (Token.ipv6.denB x = true) ↔ isIPv4 x = false := by simp [Token.denB]
      rw [e]
      constructor
      · rintro ((h | h) | h)
        · exact Or.inl h
        · exact Or.inr (Or.inl h)
        · exact Or.inr (Or.inr h)
      · rintro (h | h | h)
        · exact Or.inl (Or.inl h)
        · exact Or.inl (Or.inr h)
        · exact Or.inr h
    | item it =>
      have hthis := hok (.item it) (by simp)
      unfold TokOK at hthis
      unfold parseFrom
      by_cases hleg : isLegacyAll it = true
      · simp only [hleg, if_true]
        obtain ⟨acl', ev', h1, h2, h3⟩ := ih { acl with any4 := true, any6 := true } (ev ++ [.legacyAll]) hrest inv
        refine ⟨acl', ev', h1, h2, ?_⟩
        intro x
        rw [h3 x, unionB_cons]
        constructor
        · intro _; exact Or.inr (Or.inl (by simp [Token.denB, hleg]))
        · intro _; exact Or.inl (den_all acl x)
      · simp only [hleg, if_false, Bool.false_eq_true]
        rcases hthis with h | ⟨v, evs, hfp, hin, hcfg, hmem⟩
        · exact absurd h hleg
        · simp only [hfp]
          obtain ⟨t', ev1, hm, inv1, hc1⟩ := merge_spec tame acl.tree v (ev ++ evs) inv hin (Or.inl hcfg)
          simp only [hm]
          obtain ⟨acl', ev', h1, h2, h3⟩ := ih { acl with tree := t' } ev1 hrest inv1
          refine ⟨acl', ev', h1, h2, ?_⟩
          intro x
          rw [h3 x, unionB_cons, den_tree acl t' v x (hc1 x), hmem x]
          have hl : isLegacyAll it = false := by simpa using hleg
          have e : ((Token.item it).denB x = true) ↔ it.denB x = true := by simp [Token.denB, hl]
          rw [e]
          constructor
          · rintro ((h | h) | h)
            · exact Or.inl h
            · exact Or.inr (Or.inl h)
            · exact Or.inr (Or.inr h)
          · rintro (h | h | h)
            · exact Or.inl (Or.inl h)
            · exact Or.inl (Or.inr h)
            · exact Or.inr h

/-! ### lookups -/

/-- the client address stays away from the special cases of `>=` / `<=` in `aclIpAddrNetworkCompare`: masked with the mask of a
configured value it is `0.0.0.0` only if that value's second address is not in `LowV6`, and `255.255.255.255` only if its first
address is not in `HighV6`; and the same for the address itself against all last / first addresses (combined values) -/
structure ProbeOK (c : Ctx) (x : Nat) : Prop where
  cfg : ∀ v, c.Cfg v → (x &&& v.mask = V4ANY → ¬ LowV6 v.addr2) ∧ (x &&& v.mask = V4NO → ¬ HighV6 v.addr1)
  any : x = V4ANY → ∀ e, c.Ehi e → ¬ LowV6 e
  no : x = V4NO → ∀ e, c.Elo e → ¬ HighV6 e

theorem and_ALL1 {x : Nat} (hx : x < 2 ^ 128) : x &&& ALL1 = x := by
  rw [← pmask_zero, and_pmask hx (by omega)]; simp [Nat.mod_one]

theorem pos3_zero (x lo hi : Nat) : pos3 x lo hi = 0 ↔ lo ≤ x ∧ x ≤ hi := by
  unfold pos3; rw [ite3_zero]; omega

theorem networkCompare_stored {c : Ctx} {l : List Val} (inv : Inv c l) {x : Nat} (hx : x < 2 ^ 128) (hp : ProbeOK c x)
    {v : Val} (hv : v ∈ l) : networkCompare x v = pos3 x v.first v.last := by
  obtain ⟨k, w⟩ := (inv.mem v hv).1
  apply networkCompare_spec w hx
  · rcases inv.shape v hv with h | ⟨hm, _, h2⟩
    · exact (hp.cfg v h).1
    · rw [hm, and_ALL1 hx]; intro h; exact hp.any h _ h2
  · rcases inv.shape v hv with h | ⟨hm, h1, _⟩
    · exact (hp.cfg v h).2
    · rw [hm, and_ALL1 hx]; intro h; exact hp.no h _ h1

theorem mono_network {c : Ctx} {l : List Val} (inv : Inv c l) {x : Nat} (hx : x < 2 ^ 128) (hp : ProbeOK c x) :
    Tree.Mono (networkCompare x) l := by
  refine List.Pairwise.imp_of_mem ?_ inv.sorted
  intro a b ha hb hab
  rw [networkCompare_stored inv hx hp ha, networkCompare_stored inv hx hp hb]
  have la := (inv.mem a ha).1.le
  have lb := (inv.mem b hb).1.le
  unfold pos3
  constructor
  · intro h; rw [ite3_neg] at h ⊢; omega
  · intro h; rw [ite3_pos] at h ⊢; omega

/-- `ACLIP::match`: the verdict is membership in what the object denotes; the switches and the stored sequence do not change -/
theorem matchAddr_spec {c : Ctx} (acl : Acl) (inv : Inv c acl.tree.inorder) {x : Nat} (hx : x < 2 ^ 128) (hp : ProbeOK c x) :
    ((matchAddr acl x).2 = true ↔ acl.den x) ∧
    (matchAddr acl x).1.any4 = acl.any4 ∧ (matchAddr acl x).1.any6 = acl.any6 ∧
    (matchAddr acl x).1.tree.inorder = acl.tree.inorder := by
  unfold matchAddr Acl.den isIPv6
  by_cases h1 : (acl.any4 && acl.any6) = true
  · simp only [h1, if_true, true_iff, and_self, and_true]
    simp only [Bool.and_eq_true] at h1
    cases hv : isIPv4 x
    · exact Or.inr (Or.inl ⟨h1.2, rfl⟩)
    · exact Or.inl ⟨h1.1, rfl⟩
  · simp only [h1, if_false, Bool.false_eq_true]
    by_cases h2 : (acl.any4 && isIPv4 x) = true
    · simp only [h2, if_true, true_iff, and_self, and_true]
      simp only [Bool.and_eq_true] at h2
      exact Or.inl h2
    · simp only [h2, if_false, Bool.false_eq_true]
      by_cases h3 : (!acl.any4 && acl.any6 && !isIPv4 x) = true
      · simp only [h3, if_true, true_iff, and_self, and_true]
        simp only [Bool.and_eq_true, Bool.not_eq_true'] at h3
        exact Or.inr (Or.inl ⟨h3.1.2, h3.2⟩)
      · simp only [h3, if_false, Bool.false_eq_true]
        refine ⟨?_, trivial, trivial, Tree.inorder_find _ _⟩
        rw [Tree.find_isSome_iff _ _ (mono_network inv hx hp)]
        have hflags : ¬ (acl.any4 = true ∧ isIPv4 x = true) ∧ ¬ (acl.any6 = true ∧ isIPv4 x = false) := by
          cases h4 : acl.any4 <;> cases h6 : acl.any6 <;> cases hv : isIPv4 x <;> simp_all
        constructor
        · rintro ⟨y, hy, h0⟩
          rw [networkCompare_stored inv hx hp hy, pos3_zero] at h0
          exact Or.inr (Or.inr ⟨y, hy, h0⟩)
        · rintro (h | h | ⟨y, hy, h0⟩)
          · exact absurd h hflags.1
          · exact absurd h hflags.2
          · exact ⟨y, hy, by rw [networkCompare_stored inv hx hp hy, pos3_zero]; exact h0⟩

/-- a sequence of lookups (each one splays the tree): every verdict is membership, whatever was looked up before -/
theorem matchAll_spec {c : Ctx} (f : Nat → Bool) :
    ∀ (xs : List Nat) (acl : Acl) (acc : List Bool), Inv c acl.tree.inorder → (∀ x, acl.den x ↔ f x = true) →
      (∀ x ∈ xs, x < 2 ^ 128 ∧ ProbeOK c x) → (matchAll acl xs acc).2 = acc.reverse ++ xs.map f := by
  intro xs
  induction xs with
  | nil => intro acl acc _ _ _; simp [matchAll]
  | cons x xs ih =>
    intro acl acc inv hden hxs
    obtain ⟨hx, hp⟩ := hxs x (by simp)
    obtain ⟨hv, h4, h6, hin⟩ := matchAddr_spec acl inv hx hp
    unfold matchAll
    simp only []
    rw [ih (matchAddr acl x).1 ((matchAddr acl x).2 :: acc) (by rw [hin]; exact inv) ?_ (fun y hy => hxs y (by simp [hy]))]
    · have : (matchAddr acl x).2 = f x := by
        rw [Bool.eq_iff_iff, hv, hden x]
      simp [this]
    · intro y
      rw [← hden y]
      unfold Acl.den
      rw [h4, h6, hin]

/-! ### whole lines -/

theorem mem_cfgVals {toks : List Token} {it : Item} {v : Val} {evs : List Event} (ht : Token.item it ∈ toks)
    (hleg : isLegacyAll it = false) (hf : factoryParse it = some (v, evs)) : v ∈ cfgVals toks := by
  unfold cfgVals
  rw [List.mem_filterMap]
  exact ⟨.item it, ht, by simp [Token.val?, hleg, hf]⟩

/-- every token is a keyword, a legacy spelling of `all`, or a regular numeric token -/
def RegularList (toks : List Token) : Prop :=
  ∀ it, Token.item it ∈ toks → isLegacyAll it = true ∨ ∃ k, it.Regular k

theorem tokOK_of_regular {toks : List Token} (hreg : RegularList toks) : ∀ t ∈ toks, TokOK (ctxOf toks) t := by
  intro t ht
  cases t with
  | item it =>
    unfold TokOK
    rcases hreg it ht with h | ⟨k, h⟩
    · exact Or.inl h
    · by_cases hleg : isLegacyAll it = true
      · exact Or.inl hleg
      · right
        obtain ⟨evs, hf, w, hfirst, hlast⟩ := factoryParse_spec h
        have hmem : it.stored k ∈ cfgVals toks := mem_cfgVals ht (by simpa using hleg) hf
        refine ⟨it.stored k, evs, hf, ⟨⟨k, w⟩, ⟨_, hmem, rfl⟩, ⟨_, hmem, rfl⟩⟩, hmem, ?_⟩
        intro x
        unfold Val.mem Item.denB
        rw [h.bits, hfirst, hlast]
        simp
  | all => trivial
  | ipv4 => trivial
  | ipv6 => trivial

/-- For a regular token list whose end points are tame, `parse` ends normally and every lookup of a harmless probe answers
"is the address in the union of the listed sets" -/
theorem verdicts_eq_union {toks : List Token} (hreg : RegularList toks) (tame : Tame (ctxOf toks)) {probes : List Nat}
    (hp : ∀ x ∈ probes, x < 2 ^ 128 ∧ ProbeOK (ctxOf toks) x) :
    verdicts toks probes = some (probes.map (unionB toks)) := by
  have inv0 : Inv (ctxOf toks) (Tree.inorder (Tree.nil : Tree Val)) :=
    ⟨by simp [Tree.inorder], by simp [Tree.inorder], by simp [Sorted, Tree.inorder]⟩
  obtain ⟨acl, ev, hparse, inv, hden⟩ := parseFrom_spec tame toks ⟨false, false, .nil⟩ [] (tokOK_of_regular hreg) inv0
  unfold verdicts parse
  simp only [hparse]
  rw [matchAll_spec (unionB toks) probes acl [] inv ?_ hp]
  · simp
  · intro x
    rw [hden x]
    unfold Acl.den cover
    simp [Tree.inorder]

end SquidModel.Acl.Ip
