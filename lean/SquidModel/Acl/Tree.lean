/-
C44 — model of squid's access-list evaluation:

  src/acl/Checklist.cc   ACLChecklist::matchChild, goAsync, markFinished, matchAndFinish, nonBlockingCheck,
                         resumeNonBlockingCheck, completeNonBlocking, calcImplicitAnswer, fastCheck(), bannedAction
  src/acl/BoolOps.cc     Acl::NotNode::doMatch, Acl::AndNode::doMatch, Acl::OrNode::doMatch
  src/acl/AllOf.cc       Acl::AllOf::doMatch
  src/acl/InnerNode.cc   Acl::InnerNode::match, resumeMatchingAt
  src/acl/Acl.cc         Acl::Node::matches (the `result == 1` conversion)
  src/acl/Tree.cc        Acl::Tree::winningAction, lastAction, actionAt, bannedAction

The ACL expression tree is modelled as a tree (`Node`); a node object that is used in several places of the
configuration is modelled by its copies (the only mutable member of a node, `OrNode::lastMatch_`, is read for the
top-level `Acl::Tree` only, where it is modelled as shared state `lastMatch`, see `TreeSys.lean`).  A node is
identified by its address: the list of child positions leading to it from the tree; a `Crumb` is
`ACLChecklist::Breadcrumb` (parent, position).  C++ `assert`s are modelled by the `fault` field: the first failed
assertion is recorded (the theorems show that none is ever recorded).

Leaves are the synthetic ACLs of harness/c44.cc: a fixed value (`Val`), a list of lookups (`Round`) that have to
complete before the leaf answers, and what the leaf does when `goAsync()` refuses (`styleB`).
-/
namespace SquidModel.Acl.Tree

/-- aclMatchCode -/
inductive Code where
  | denied | allowed | dunno | authRequired
  deriving DecidableEq, Repr, Inhabited

/-- Acl::Answer without lastCheckedName -/
structure Answer where
  code : Code
  kind : Nat := 0
  implicit : Bool := false
  deriving DecidableEq, Repr, Inhabited

/-- `Answer::operator==(const Answer &)`: code and kind, not `implicit` -/
def Answer.same (a b : Answer) : Bool := a.code == b.code && a.kind == b.kind

/-- the ACL expression tree below an `Acl::Tree`: named synthetic ACLs, `NotNode`, `AndNode`, `OrNode`
(also `AnyOf`, which is an `OrNode`) and `AllOf` (which looks at its first child only) -/
inductive Node where
  | leaf (id : Nat)
  | not (c : Node)
  | and (cs : List Node)
  | or (cs : List Node)
  | allOf (cs : List Node)
  deriving Repr, Inhabited

def Node.isLeaf : Node → Bool
  | .leaf _ => true
  | _ => false

/-- what a synthetic leaf answers once all its lookups are done -/
inductive Val where
  | t | f | stop (c : Code)
  deriving DecidableEq, Repr, Inhabited

/-- one lookup of a synthetic leaf: `deferred` completes when the schedule says so, `immediate` calls
`resumeNonBlockingCheck()` from inside the lookup starter -/
inductive Round where
  | deferred | immediate
  deriving DecidableEq, Repr, Inhabited

structure LeafScript where
  val : Val := .f
  styleB : Bool := false
  deriving Repr, Inhabited

/-- what does not change during one check: leaf scripts, `asyncCaller_`, `bannedActions_` -/
structure Ctx where
  script : List LeafScript
  asyncCaller : Bool
  banned : List Answer

def Ctx.leaf (ctx : Ctx) (id : Nat) : LeafScript := ctx.script.getD id {}

/-- ACLChecklist::Breadcrumb: the parent node (by address) and the child position -/
structure Crumb where
  addr : List Nat
  pos : Nat
  deriving DecidableEq, Repr, Inhabited

/-- ACLChecklist::AsyncStage -/
inductive Stage where
  | none | starting | running | failed
  deriving DecidableEq, Repr, Inhabited

/-- the assertions of the modelled code -/
inductive Fault where
  | markFinished      -- assert(!finished() && !asyncInProgress())
  | goAsyncInProgress -- assert(!asyncInProgress())
  | goAsyncNoLoc      -- assert(matchLoc_.parent)
  | goAsyncStage      -- assert(asyncStage_ == asyncFailed)
  | crumbParent       -- assert(child == top.parent)
  | crumbLeaf         -- a breadcrumb whose parent is not an InnerNode
  | notStart          -- NotNode: assert(start == nodes.begin())
  | allOfStart        -- AllOf: assert(start == nodes.begin())
  | resumeStage       -- assert(asyncStage_ == asyncRunning)
  | resumeNoPath      -- assert(!matchPath.empty())
  | pausedNoPath      -- assert(!matchPath.empty()) after matchAndFinish
  | completeAsync     -- completeNonBlocking: assert(!asyncInProgress())
  | treeCrumb         -- the top breadcrumb does not name the access list
  | actionAt          -- Tree::actionAt: assert(pos < nodes.size())
  | noPending         -- harness: completing a lookup that was not started
  | noAccessList      -- prepNonBlocking: assert(accessList)
  deriving DecidableEq, Repr, Inhabited

/-- the mutable state of an ACLChecklist (+ the lookup bookkeeping of the synthetic leaves) -/
structure CL where
  finished : Bool := false
  answer : Answer := { code := .denied }
  stage : Stage := .none
  matchLoc : Option Crumb := none
  asyncLoc : Option Crumb := none
  depth : Nat := 0
  path : List Crumb := []          -- matchPath, head = top of the stack
  rounds : List (List Round) := [] -- per leaf: the lookups still to be done
  pending : Option Nat := none     -- the leaf whose deferred lookup is outstanding
  syncCompleted : Bool := false    -- harness flag: the last lookup starter completed the lookup itself
  fault : Option Fault := none
  trace : List (Nat × Int) := []   -- leaf match() calls, newest first
  deriving Repr, Inhabited

def CL.fail (s : CL) (f : Fault) : CL :=
  match s.fault with
  | some _ => s
  | none => { s with fault := some f }

/-- ACLChecklist::keepMatching -/
def CL.KeepMatching (s : CL) : Prop := s.finished = false ∧ s.stage = .none

instance (s : CL) : Decidable s.KeepMatching := by unfold CL.KeepMatching; infer_instance

/-- ACLChecklist::markFinished -/
def markFinished (a : Answer) (s : CL) : CL :=
  let s := if s.finished = false ∧ s.stage = .none then s else s.fail .markFinished
  { s with finished := true, answer := a }

/-! ### lookups of the synthetic leaves -/

def roundsOf (rs : List (List Round)) (leaf : Nat) : List Round := rs.getD leaf []

def popRound : List (List Round) → Nat → List (List Round)
  | [], _ => []
  | r :: rest, 0 => r.tail :: rest
  | r :: rest, l + 1 => r :: popRound rest l

/-- the lookup starter of harness/c44.cc; for an immediate lookup it calls `resumeNonBlockingCheck()`, which
takes its first branch (`asyncStage_ == asyncStarting`: "oops, we did not really go async") -/
def starter (leaf : Nat) (kind : Round) (s : CL) : CL :=
  match kind with
  | .immediate =>
    let s := { s with rounds := popRound s.rounds leaf, syncCompleted := true }
    if s.stage = .starting then { s with stage := .failed } else s.fail .resumeStage
  | .deferred => { s with pending := some leaf }

/-- ACLChecklist::goAsync -/
def goAsync (ctx : Ctx) (leaf : Nat) (kind : Round) (s : CL) : Bool × CL :=
  let s := if s.stage = .none then s else s.fail .goAsyncInProgress
  let s := if s.matchLoc = none then s.fail .goAsyncNoLoc else s
  if ctx.asyncCaller = false then (false, s)
  else if s.matchLoc = s.asyncLoc ∧ s.depth > 5 then (false, s)
  else
    let s := { s with asyncLoc := s.matchLoc, depth := s.depth + 1, stage := .starting }
    let s := starter leaf kind s
    if s.stage = .starting then (true, { s with stage := .running })
    else
      let s := if s.stage = .failed then s else s.fail .goAsyncStage
      (false, { s with stage := .none })

/-- the value branch of SynthLeaf::match -/
def leafValue (v : Val) (s : CL) : Int × CL :=
  match v with
  | .t => (1, s)
  | .f => (0, s)
  | .stop c => (-1, if s.KeepMatching then markFinished { code := c } s else s)

/-- the lookup loop of SynthLeaf::match -/
def leafLoop (ctx : Ctx) (leaf : Nat) (sc : LeafScript) : List Round → CL → Int × CL
  | [], s => leafValue sc.val s
  | k :: rest, s =>
    let s := { s with syncCompleted := false }
    let (went, s) := goAsync ctx leaf k s
    if went then (-1, s)
    else if s.syncCompleted then leafLoop ctx leaf sc rest s
    else if sc.styleB then (-1, if s.KeepMatching then markFinished { code := .dunno } s else s)
    else (0, s)

/-- SynthLeaf::match -/
def leafMatch (ctx : Ctx) (leaf : Nat) (s : CL) : Int × CL :=
  let (r, s) := leafLoop ctx leaf (ctx.leaf leaf) (roundsOf s.rounds leaf) s
  (r, { s with trace := (leaf, r) :: s.trace })

/-! ### the tree walk -/

/-- ACLChecklist::matchChild; `f start` is the child's `match()` (for `start = 0`, called through
`Acl::Node::matches`) or `doMatch(start)` (called through `InnerNode::resumeMatchingAt`) -/
def matchChild (isLeaf : Bool) (f : Nat → CL → Int × CL) (addr : List Nat) (pos : Nat) (s : CL) : Bool × CL :=
  let s := { s with matchLoc := some ⟨addr, pos⟩, depth := 0 }
  let (r, s) :=
    match s.path with
    | [] => f 0 s
    | top :: rest =>
      let s := if top.addr = addr ++ [pos] then s else s.fail .crumbParent
      let s := if isLeaf then s.fail .crumbLeaf else s
      f top.pos { s with path := rest }
  let s := if s.stage = .none then { s with asyncLoc := none } else { s with path := ⟨addr, pos⟩ :: s.path }
  (r == 1, { s with matchLoc := none })

mutual
/-- the virtual `match()` of a leaf, `doMatch(start)` of an inner node at address `addr` -/
def run (ctx : Ctx) (n : Node) (addr : List Nat) (start : Nat) (s : CL) : Int × CL :=
  match n with
  | .leaf id => leafMatch ctx id s
  | .not c =>
    let s := if start = 0 then s else s.fail .notStart
    let (m, s) := matchChild c.isLeaf (run ctx c (addr ++ [0])) addr 0 s
    if m then (0, s)              -- converting match into mismatch
    else if s.KeepMatching then (1, s)  -- converting mismatch into match
    else (-1, s)                  -- suspend on async calls and stop on failures
  | .and cs => andLoop ctx cs addr 0 start s
  | .or cs => orLoop ctx cs addr 0 start s
  | .allOf cs =>
    let s := if start = 0 then s else s.fail .allOfStart
    allOfHead ctx cs addr s
termination_by structural n

/-- Acl::AllOf::doMatch after the assertion -/
def allOfHead (ctx : Ctx) (cs : List Node) (addr : List Nat) (s : CL) : Int × CL :=
  match cs with
  | [] => (1, s)
  | c :: _ =>
    let (m, s) := matchChild c.isLeaf (run ctx c (addr ++ [0])) addr 0 s
    if m then (1, s) else (if s.KeepMatching then 0 else -1, s)
termination_by structural cs

/-- Acl::AndNode::doMatch: `i` is the position of the head of `cs`, `skip` how far `start` is ahead -/
def andLoop (ctx : Ctx) (cs : List Node) (addr : List Nat) (i skip : Nat) (s : CL) : Int × CL :=
  match cs, skip with
  | [], _ => (1, s)
  | _ :: rest, skip + 1 => andLoop ctx rest addr (i + 1) skip s
  | c :: rest, 0 =>
    let (m, s) := matchChild c.isLeaf (run ctx c (addr ++ [i])) addr i s
    if m then andLoop ctx rest addr (i + 1) 0 s
    else (if s.KeepMatching then 0 else -1, s)
termination_by structural cs

/-- Acl::OrNode::doMatch of an inner OrNode (bannedAction() is false, lastMatch_ is never read) -/
def orLoop (ctx : Ctx) (cs : List Node) (addr : List Nat) (i skip : Nat) (s : CL) : Int × CL :=
  match cs, skip with
  | [], _ => (0, s)
  | _ :: rest, skip + 1 => orLoop ctx rest addr (i + 1) skip s
  | c :: rest, 0 =>
    let (m, s) := matchChild c.isLeaf (run ctx c (addr ++ [i])) addr i s
    if m then (1, s)
    else if s.KeepMatching then orLoop ctx rest addr (i + 1) 0 s
    else (-1, s)
termination_by structural cs
end

/-! ### Acl::Tree and the checklist entry points -/

/-- an access list: rules with their actions (`Acl::Tree::nodes`, `actions`) -/
abbrev Rules := List (Answer × Node)

/-- Acl::OrNode::doMatch of the Acl::Tree (with Tree::bannedAction); also returns `lastMatch_`
(`none` = `nodes.end()`) -/
def treeLoop (ctx : Ctx) : Rules → Nat → Nat → CL → Int × Option Nat × CL
  | [], _, _, s => (0, none, s)
  | _ :: rest, i, skip + 1, s => treeLoop ctx rest (i + 1) skip s
  | (a, n) :: rest, i, 0, s =>
    if ctx.banned.any (Answer.same · a) then treeLoop ctx rest (i + 1) 0 s
    else
      let (m, s) := matchChild n.isLeaf (run ctx n [i]) [] i s
      if m then (1, some i, s)
      else if s.KeepMatching then treeLoop ctx rest (i + 1) 0 s
      else (-1, none, s)

/-- Acl::Tree::winningAction / actionAt -/
def winningAction (rules : Rules) (lastMatch : Option Nat) (s : CL) : Answer × CL :=
  match lastMatch with
  | none => ({ code := .allowed }, s.fail .actionAt)
  | some i =>
    match rules[i]? with
    | some (a, _) => (a, s)
    | none => ({ code := .allowed }, s.fail .actionAt)

/-- Acl::Tree::lastAction -/
def lastAction (rules : Rules) : Answer :=
  match rules.getLast? with
  | none => { code := .dunno }
  | some (a, _) => a

/-- ACLChecklist::matchAndFinish; the second component is the new value of the tree's `lastMatch_` -/
def matchAndFinish (ctx : Ctx) (rules : Rules) (s : CL) : Option Nat × CL :=
  let (r, lm, s) :=
    match s.path with
    | [] => treeLoop ctx rules 0 0 s
    | top :: rest =>
      let s := if top.addr = [] then s else s.fail .treeCrumb
      treeLoop ctx rules 0 top.pos { s with path := rest }
  if r = 1 then
    let (a, s) := winningAction rules lm s
    (lm, markFinished a s)
  else (lm, s)

/-- ACLChecklist::calcImplicitAnswer; `rules = none` stands for a nil accessList -/
def calcImplicitAnswer (rules : Option Rules) (s : CL) : CL :=
  let last : Answer := match rules with
    | some rs => lastAction rs
    | none => { code := .dunno }
  let code := if last.code = .denied then Code.allowed else if last.code = .allowed then Code.denied else Code.dunno
  markFinished { code := code, implicit := true } s

/-- ACLChecklist::completeNonBlocking up to the callback -/
def completeNonBlocking (rules : Option Rules) (s : CL) : CL :=
  let s := if s.stage = .none then s else s.fail .completeAsync
  if s.finished then s else calcImplicitAnswer rules s

/-- the outcome of one uninterrupted piece of a check -/
inductive StepOut where
  | answered (a : Answer) (s : CL)   -- the callback was called with `a`
  | paused (s : CL)                  -- waiting for a lookup
  deriving Repr, Inhabited

/-- ACLChecklist::nonBlockingCheck (the caller is assumed to stay alive: callerGone() is false) -/
def nonBlockingCheck (ctx : Ctx) (rules : Option Rules) (lastMatch : Option Nat) (s : CL) : Option Nat × StepOut :=
  -- preCheck
  let s := { s with depth := 0, finished := false }
  match rules with
  | none =>
    -- checkCallback("nonBlockingCheck() without accessList")
    let s := markFinished { code := .dunno } s
    (lastMatch, .answered s.answer s)
  | some rs =>
    let (lm, s) := matchAndFinish ctx rs s
    if s.stage = .none then
      let s := completeNonBlocking rules s
      (lm, .answered s.answer s)
    else (lm, .paused s)

/-- ACLChecklist::resumeNonBlockingCheck when called by a completed deferred lookup -/
def resumeNonBlockingCheck (ctx : Ctx) (rules : Option Rules) (lastMatch : Option Nat) (s : CL) : Option Nat × StepOut :=
  let s := if s.stage = .running then s else s.fail .resumeStage
  let s := { s with stage := .none }
  let s := if s.path = [] then s.fail .resumeNoPath else s
  match rules with
  | none => (lastMatch, .paused (s.fail .noAccessList))
  | some rs =>
    let (lm, s) := if s.finished then (lastMatch, s) else matchAndFinish ctx rs s
    if s.stage = .none then
      let s := completeNonBlocking rules s
      (lm, .answered s.answer s)
    else
      let s := if s.path = [] then s.fail .pausedNoPath else s
      (lm, .paused s)

/-- harness/c44.cc completeRun(): the pending lookup of `leaf` is done -/
def popPending (s : CL) (leaf : Nat) : CL := { s with pending := none, rounds := popRound s.rounds leaf }

/-- harness/c44.cc completeRun(): the pending lookup is done, the checklist is resumed -/
def completeLookup (ctx : Ctx) (rules : Option Rules) (lastMatch : Option Nat) (s : CL) : Option Nat × StepOut :=
  match s.pending with
  | none => (lastMatch, .paused (s.fail .noPending))
  | some leaf =>
    resumeNonBlockingCheck ctx rules lastMatch (popPending s leaf)

/-- ACLChecklist::fastCheck() -/
def fastCheck (ctx : Ctx) (rules : Option Rules) (lastMatch : Option Nat) (s : CL) : Option Nat × StepOut :=
  let s := { s with depth := 0, finished := false }
  match rules with
  | some rs =>
    let (lm, s) := matchAndFinish ctx rs s
    if s.finished then (lm, .answered s.answer s)
    else
      let s := calcImplicitAnswer rules s
      (lm, .answered s.answer s)
  | none =>
    let s := calcImplicitAnswer rules s
    (lastMatch, .answered s.answer s)

end SquidModel.Acl.Tree
