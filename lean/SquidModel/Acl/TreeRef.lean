/-
C44 — the reference semantics of an access list (pure; no checklist state), and the specification of
resumption: what the rest of an evaluation must yield when it is re-entered along breadcrumb positions.
-/
import SquidModel.Acl.TreeSys

namespace SquidModel.Acl.Tree

/-- what evaluating an ACL yields: match, mismatch, or the check ends with an exceptional answer -/
inductive Out where
  | yes | no | stop (c : Code)
  deriving DecidableEq, Repr, Inhabited

def Out.neg : Out → Out
  | .yes => .no
  | .no => .yes
  | .stop c => .stop c

def outOfVal : Val → Out
  | .t => .yes
  | .f => .no
  | .stop c => .stop c

def leafOut (ctx : Ctx) (id : Nat) : Out := outOfVal (ctx.leaf id).val

/-! ### reference evaluator: left to right, lazy -/
mutual
def ref (ctx : Ctx) : Node → Out
  | .leaf id => leafOut ctx id
  | .not c => (ref ctx c).neg
  | .and cs => refAnd ctx cs
  | .or cs => refOr ctx cs
  | .allOf cs => refAllOf ctx cs
termination_by structural n => n
def refAllOf (ctx : Ctx) : List Node → Out
  | [] => .yes
  | c :: _ => ref ctx c
termination_by structural cs => cs
def refAnd (ctx : Ctx) : List Node → Out
  | [] => .yes
  | c :: rest =>
    match ref ctx c with
    | .yes => refAnd ctx rest
    | o => o
termination_by structural cs => cs
def refOr (ctx : Ctx) : List Node → Out
  | [] => .no
  | c :: rest =>
    match ref ctx c with
    | .no => refOr ctx rest
    | o => o
termination_by structural cs => cs
end

def Ctx.isBanned (ctx : Ctx) (a : Answer) : Bool := ctx.banned.any (Answer.same · a)

/-- what a rule list decides before the implicit rule: `none` = no rule matched -/
def refRules (ctx : Ctx) : Rules → Option Answer
  | [] => none
  | (a, n) :: rest =>
    if ctx.isBanned a then refRules ctx rest
    else match ref ctx n with
      | .yes => some a
      | .no => refRules ctx rest
      | .stop c => some { code := c }

/-- the implicit rule: the opposite of the last rule's action, DUNNO for an empty list -/
def implicitAnswer (rules : Rules) : Answer :=
  match rules.getLast? with
  | none => { code := .dunno, implicit := true }
  | some (a, _) =>
    if a.code = .denied then { code := .allowed, implicit := true }
    else if a.code = .allowed then { code := .denied, implicit := true }
    else { code := .dunno, implicit := true }

/-- the decision of an access list -/
def reference (ctx : Ctx) (rules : Rules) : Answer :=
  match refRules ctx rules with
  | some a => a
  | none => implicitAnswer rules

/-! ### boolean reading, for leaves that only match or mismatch -/
mutual
def evalB (v : Nat → Bool) : Node → Bool
  | .leaf id => v id
  | .not c => !(evalB v c)
  | .and cs => allB v cs
  | .or cs => anyB v cs
  | .allOf cs => match cs with
    | [] => true
    | c :: _ => evalB v c
termination_by structural n => n
def allB (v : Nat → Bool) : List Node → Bool
  | [] => true
  | c :: rest => evalB v c && allB v rest
termination_by structural cs => cs
def anyB (v : Nat → Bool) : List Node → Bool
  | [] => false
  | c :: rest => evalB v c || anyB v rest
termination_by structural cs => cs
end

/-! ### resumption specification -/

/-- the expected outcome of a child that is entered with the breadcrumb positions `ps` left on the stack -/
def refChild (f : Nat → List Nat → Out) (ps : List Nat) : Out :=
  match ps with
  | [] => f 0 []
  | p :: ps => f p ps

mutual
/-- the expected outcome of `run ctx n _ start` when the breadcrumb stack holds the positions `ps` -/
def refRun (ctx : Ctx) : Node → Nat → List Nat → Out
  | .leaf id, _, _ => leafOut ctx id
  | .not c, _, ps => (refChild (refRun ctx c) ps).neg
  | .and cs, start, ps => refAndAt ctx cs start ps
  | .or cs, start, ps => refOrAt ctx cs start ps
  | .allOf cs, _, ps => refAllOfAt ctx cs ps
termination_by structural n => n
def refAllOfAt (ctx : Ctx) : List Node → List Nat → Out
  | [], _ => .yes
  | c :: _, ps => refChild (refRun ctx c) ps
termination_by structural cs => cs
def refAndAt (ctx : Ctx) : List Node → Nat → List Nat → Out
  | [], _, _ => .yes
  | _ :: rest, skip + 1, ps => refAndAt ctx rest skip ps
  | c :: rest, 0, ps =>
    match refChild (refRun ctx c) ps with
    | .yes => refAndAt ctx rest 0 []
    | o => o
termination_by structural cs => cs
def refOrAt (ctx : Ctx) : List Node → Nat → List Nat → Out
  | [], _, _ => .no
  | _ :: rest, skip + 1, ps => refOrAt ctx rest skip ps
  | c :: rest, 0, ps =>
    match refChild (refRun ctx c) ps with
    | .no => refOrAt ctx rest 0 []
    | o => o
termination_by structural cs => cs
end

/-- the expected outcome of a node that is entered through `matchChild` with the stack `p` -/
def refAt (ctx : Ctx) (n : Node) (p : List Crumb) : Out := refChild (refRun ctx n) (p.map (·.pos))

/-- what the rule loop of the Acl::Tree must yield -/
inductive TreeOut where
  | win (a : Answer)     -- a rule matched; `a` is its action
  | stopped (c : Code)   -- an ACL ended the check
  | noRule
  deriving DecidableEq, Repr, Inhabited

def refTreeAt (ctx : Ctx) : Rules → Nat → List Nat → TreeOut
  | [], _, _ => .noRule
  | _ :: rest, skip + 1, ps => refTreeAt ctx rest skip ps
  | (a, n) :: rest, 0, ps =>
    if ctx.isBanned a then refTreeAt ctx rest 0 ps
    else match refChild (refRun ctx n) ps with
      | .yes => .win a
      | .no => refTreeAt ctx rest 0 []
      | .stop c => .stopped c

def treeAt (ctx : Ctx) (rules : Rules) (p : List Crumb) : TreeOut :=
  match p with
  | [] => refTreeAt ctx rules 0 []
  | top :: rest => refTreeAt ctx rules top.pos (rest.map (·.pos))

def answerOf (rules : Rules) : TreeOut → Answer
  | .win a => a
  | .stopped c => { code := c }
  | .noRule => implicitAnswer rules

/-! ### the resumption specification at the start is the reference evaluator -/
mutual
theorem refRun_start (ctx : Ctx) (n : Node) : refRun ctx n 0 [] = ref ctx n := by
  match n with
  | .leaf id => simp [refRun, ref]
  | .not c => simp [refRun, ref, refChild, refRun_start ctx c]
  | .and cs => simp [refRun, ref, refAndAt_start ctx cs]
  | .or cs => simp [refRun, ref, refOrAt_start ctx cs]
  | .allOf cs => simp [refRun, ref, refAllOfAt_start ctx cs]
theorem refAllOfAt_start (ctx : Ctx) (cs : List Node) : refAllOfAt ctx cs [] = refAllOf ctx cs := by
  match cs with
  | [] => simp [refAllOfAt, refAllOf]
  | c :: _ => simp [refAllOfAt, refAllOf, refChild, refRun_start ctx c]
theorem refAndAt_start (ctx : Ctx) (cs : List Node) : refAndAt ctx cs 0 [] = refAnd ctx cs := by
  match cs with
  | [] => simp [refAndAt, refAnd]
  | c :: rest => simp [refAndAt, refAnd, refChild, refRun_start ctx c, refAndAt_start ctx rest]
theorem refOrAt_start (ctx : Ctx) (cs : List Node) : refOrAt ctx cs 0 [] = refOr ctx cs := by
  match cs with
  | [] => simp [refOrAt, refOr]
  | c :: rest => simp [refOrAt, refOr, refChild, refRun_start ctx c, refOrAt_start ctx rest]
end

theorem refTreeAt_start (ctx : Ctx) (rules : Rules) :
    answerOf rules' (refTreeAt ctx rules 0 []) =
      match refRules ctx rules with
      | some a => a
      | none => implicitAnswer rules' := by
  induction rules with
  | nil => simp [refTreeAt, refRules, answerOf]
  | cons r rest ih =>
    obtain ⟨a, n⟩ := r
    simp only [refTreeAt, refRules, refChild, refRun_start]
    split
    · exact ih
    · cases h : ref ctx n
      · simp [answerOf]
      · simpa using ih
      · simp [answerOf]

theorem answerOf_start (ctx : Ctx) (rules : Rules) :
    answerOf rules (refTreeAt ctx rules 0 []) = reference ctx rules := by
  rw [refTreeAt_start]; rfl

/-! ### boolean leaves: the three-valued reference is the boolean one -/
def BoolLeaves (ctx : Ctx) : Prop := ∀ id, (ctx.leaf id).val = .t ∨ (ctx.leaf id).val = .f

def ofBool (b : Bool) : Out := if b then .yes else .no

def Ctx.truth (ctx : Ctx) (id : Nat) : Bool := decide ((ctx.leaf id).val = .t)

mutual
theorem ref_bool (ctx : Ctx) (h : BoolLeaves ctx) (n : Node) : ref ctx n = ofBool (evalB ctx.truth n) := by
  match n with
  | .leaf id =>
    rcases h id with h1 | h1 <;> simp [ref, evalB, leafOut, Ctx.truth, h1, outOfVal, ofBool]
  | .not c =>
    simp only [ref, evalB, ref_bool ctx h c]
    cases evalB ctx.truth c <;> simp [ofBool, Out.neg]
  | .and cs => simp only [ref, evalB, refAnd_bool ctx h cs]
  | .or cs => simp only [ref, evalB, refOr_bool ctx h cs]
  | .allOf cs =>
    match cs with
    | [] => simp [ref, refAllOf, evalB, ofBool]
    | c :: _ => simp only [ref, refAllOf, evalB, ref_bool ctx h c]
theorem refAnd_bool (ctx : Ctx) (h : BoolLeaves ctx) (cs : List Node) : refAnd ctx cs = ofBool (allB ctx.truth cs) := by
  match cs with
  | [] => simp [refAnd, allB, ofBool]
  | c :: rest =>
    simp only [refAnd, allB, ref_bool ctx h c, refAnd_bool ctx h rest]
    cases evalB ctx.truth c <;> simp [ofBool]
theorem refOr_bool (ctx : Ctx) (h : BoolLeaves ctx) (cs : List Node) : refOr ctx cs = ofBool (anyB ctx.truth cs) := by
  match cs with
  | [] => simp [refOr, anyB, ofBool]
  | c :: rest =>
    simp only [refOr, anyB, ref_bool ctx h c, refOr_bool ctx h rest]
    cases evalB ctx.truth c <;> simp [ofBool]
end

end SquidModel.Acl.Tree
