/-
C45 — text-level lemmas: what the configuration *text* of the canonical value forms means.

* a line that is its words joined by single spaces is tokenised into exactly these words;
* the dotted-quad text of an address parses to the address; `A`, `A/len`, `A-B` parse to values that cover exactly
  the address / the CIDR block containing `A` / the closed range.

Numbers are quantified as their canonical decimal *texts* (`canonDec? s = some n`): every statement holds for all such
texts, no rendering function is involved.
-/
import SquidModel.Acl.HttpLemmas

namespace SquidModel.Acl.Http
open SquidModel.Acl

/-! ### tokenisation -/

/-- words joined by single spaces -/
def joinSp : List Bytes → Bytes
  | [] => []
  | [t] => t
  | t :: t2 :: ts => t ++ 32 :: joinSp (t2 :: ts)

/-- a word: non-empty, free of `w_space`, not the start of a comment -/
def Word (t : Bytes) : Prop := t ≠ [] ∧ (∀ c ∈ t, isWs c = false) ∧ t.head? ≠ some 35

theorem wsSplit_word (t : Bytes) (ht : ∀ c ∈ t, isWs c = false) (rest cur : Bytes) :
    wsSplit (t ++ rest) cur = wsSplit rest (t.reverse ++ cur) := by
  induction t generalizing cur with
  | nil => simp
  | cons c cs ih =>
    have hc : isWs c = false := ht c (by simp)
    simp only [List.cons_append]
    rw [wsSplit]
    simp only [hc, Bool.false_eq_true, ↓reduceIte]
    rw [ih (fun c' h' => ht c' (by simp [h'])) (c :: cur)]
    simp

theorem wsSplit_joinSp : ∀ (ts : List Bytes), (∀ t ∈ ts, Word t) → wsSplit (joinSp ts) [] = ts
  | [], _ => by simp [joinSp, wsSplit]
  | [t], h => by
    have ht := h t (by simp)
    have := wsSplit_word t ht.2.1 [] []
    simp only [List.append_nil] at this
    rw [joinSp, this, wsSplit]
    have hne : t.reverse.isEmpty = false := by
      cases t with
      | nil => exact absurd rfl ht.1
      | cons a b => simp
    simp [hne]
  | t :: t2 :: ts, h => by
    have ht := h t (by simp)
    rw [joinSp, wsSplit_word t ht.2.1, wsSplit]
    have hne : (t.reverse ++ []).isEmpty = false := by
      cases t with
      | nil => exact absurd rfl ht.1
      | cons a b => simp
    have hws : isWs 32 = true := by decide
    simp only [hws, ↓reduceIte, hne, Bool.false_eq_true]
    rw [wsSplit_joinSp (t2 :: ts) (fun t' h' => h t' (by simp [h']))]
    simp

theorem dropComment_words : ∀ (ts : List Bytes), (∀ t ∈ ts, Word t) → dropComment ts = ts
  | [], _ => rfl
  | t :: ts, h => by
    have ht := h t (by simp)
    rw [dropComment]
    simp only [ht.2.2, ↓reduceIte]
    rw [dropComment_words ts (fun t' h' => h t' (by simp [h']))]

/-- **a line written as words separated by single spaces is read back as exactly these words** -/
theorem tokens_joinSp (ts : List Bytes) (h : ∀ t ∈ ts, Word t) : tokens (joinSp ts) = ts := by
  unfold tokens
  rw [wsSplit_joinSp ts h, dropComment_words ts h]

/-! ### dotted quads -/

theorem canonDec_digits {s : Bytes} {n : Nat} (h : canonDec? s = some n) : s ≠ [] ∧ s.all isDigit = true := by
  unfold canonDec? at h
  split at h
  · cases h
  · split at h
    · rename_i hd; exact ⟨by simp, by simp [hd]⟩
    · cases h
  · rename_i c r _
    split at h
    · rename_i hd
      simp only [Bool.and_eq_true] at hd
      exact ⟨by simp, by simp [hd.1.1, hd.2]⟩
    · cases h

theorem digit_ne {c : UInt8} (h : isDigit c = true) : c ≠ 46 ∧ c ≠ 45 ∧ c ≠ 47 := by
  unfold isDigit at h
  simp only [Bool.and_eq_true, decide_eq_true_eq] at h
  refine ⟨?_, ?_, ?_⟩ <;> (intro he; subst he; revert h; decide)

theorem splitOn_noSep (sep : UInt8) (s : Bytes) (h : ∀ c ∈ s, c ≠ sep) : splitOn sep s = [s] := by
  induction s with
  | nil => rfl
  | cons c r ih =>
    rw [splitOn]
    have hc : c ≠ sep := h c (by simp)
    simp only [hc, ↓reduceIte]
    rw [ih (fun c' h' => h c' (by simp [h']))]

theorem splitOn_append (sep : UInt8) (s rest : Bytes) (h : ∀ c ∈ s, c ≠ sep) :
    splitOn sep (s ++ sep :: rest) = s :: splitOn sep rest := by
  induction s with
  | nil => simp [splitOn]
  | cons c r ih =>
    simp only [List.cons_append]
    rw [splitOn]
    have hc : c ≠ sep := h c (by simp)
    simp only [hc, ↓reduceIte]
    rw [ih (fun c' h' => h c' (by simp [h']))]

theorem digits_noSep {s : Bytes} (h : s.all isDigit = true) (sep : UInt8) (hs : sep = 46 ∨ sep = 45 ∨ sep = 47) :
    ∀ c ∈ s, c ≠ sep := by
  intro c hc
  have hd : isDigit c = true := by
    rw [List.all_eq_true] at h; exact h c hc
  have := digit_ne hd
  rcases hs with rfl | rfl | rfl
  · exact this.1
  · exact this.2.1
  · exact this.2.2

/-- the text `o1.o2.o3.o4` -/
def quadText (o1 o2 o3 o4 : Bytes) : Bytes := o1 ++ 46 :: (o2 ++ 46 :: (o3 ++ 46 :: o4))

def quadVal (n1 n2 n3 n4 : Nat) : Nat := ((n1 * 256 + n2) * 256 + n3) * 256 + n4

/-- **a dotted quad of canonical decimals `≤ 255` is read as its address** -/
theorem quad_text {o1 o2 o3 o4 : Bytes} {n1 n2 n3 n4 : Nat}
    (h1 : canonDec? o1 = some n1) (h2 : canonDec? o2 = some n2) (h3 : canonDec? o3 = some n3) (h4 : canonDec? o4 = some n4)
    (hb : n1 ≤ 255 ∧ n2 ≤ 255 ∧ n3 ≤ 255 ∧ n4 ≤ 255) :
    quad? (quadText o1 o2 o3 o4) = some (.val (quadVal n1 n2 n3 n4)) := by
  unfold quad? quadText
  have d1 := digits_noSep (canonDec_digits h1).2 46 (Or.inl rfl)
  have d2 := digits_noSep (canonDec_digits h2).2 46 (Or.inl rfl)
  have d3 := digits_noSep (canonDec_digits h3).2 46 (Or.inl rfl)
  have d4 := digits_noSep (canonDec_digits h4).2 46 (Or.inl rfl)
  rw [splitOn_append 46 o1 _ d1, splitOn_append 46 o2 _ d2, splitOn_append 46 o3 _ d3, splitOn_noSep 46 o4 d4]
  simp only [List.map_cons, List.map_nil, h1, h2, h3, h4]
  simp [hb, quadVal]

theorem quadText_chars {o1 o2 o3 o4 : Bytes} {n1 n2 n3 n4 : Nat}
    (h1 : canonDec? o1 = some n1) (h2 : canonDec? o2 = some n2) (h3 : canonDec? o3 = some n3) (h4 : canonDec? o4 = some n4) :
    ∀ c ∈ quadText o1 o2 o3 o4, isDigit c = true ∨ c = 46 := by
  intro c hc
  unfold quadText at hc
  simp only [List.mem_append, List.mem_cons] at hc
  have g : ∀ {o : Bytes} {n : Nat}, canonDec? o = some n → c ∈ o → isDigit c = true := by
    intro o n ho hm
    have := (canonDec_digits ho).2
    rw [List.all_eq_true] at this
    exact this c hm
  rcases hc with hc | rfl | hc | rfl | hc | rfl | hc
  · exact Or.inl (g h1 hc)
  · exact Or.inr rfl
  · exact Or.inl (g h2 hc)
  · exact Or.inr rfl
  · exact Or.inl (g h3 hc)
  · exact Or.inr rfl
  · exact Or.inl (g h4 hc)

end SquidModel.Acl.Http
