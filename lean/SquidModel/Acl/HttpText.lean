/-
C45 — text-level lemmas: what the configuration *text* of the canonical value forms means.

* a line that is its words joined by single spaces is tokenised into exactly these words;
* the dotted-quad text of an address parses to the address; `A`, `A/len`, `A-B` parse to values that cover exactly
  the address / the CIDR block containing `A` / the closed range.

Numbers are quantified as their canonical decimal *texts* (`canonDec? s = some n`): every statement holds for all such
texts, no rendering function is involved.
-/
import SquidModel.Acl.HttpLemmas

namespace SquidModel.Acl.Http
open SquidModel.Acl

/-! ### tokenisation -/

/-- words joined by single spaces -/
def joinSp : List Bytes → Bytes
  | [] => []
  | [t] => t
  | t :: t2 :: ts => t ++ 32 :: joinSp (t2 :: ts)

/-- a word: non-empty, free of `w_space`, not the start of a comment -/
def Word (t : Bytes) : Prop := t ≠ [] ∧ (∀ c ∈ t, isWs c = false) ∧ t.head? ≠ some 35

theorem wsSplit_word (t : Bytes) (ht : ∀ c ∈ t, isWs c = false) (rest cur : Bytes) :
    wsSplit (t ++ rest) cur = wsSplit rest (t.reverse ++ cur) := by
  induction t generalizing cur with
  | nil => simp
  | cons c cs ih =>
    have hc : isWs c = false := ht c (by simp)
    simp only [List.cons_append]
    rw [wsSplit]
    simp only [hc, Bool.false_eq_true, ↓reduceIte]
    rw [ih (fun c' h' => ht c' (by simp [h'])) (c :: cur)]
    simp

theorem wsSplit_joinSp : ∀ (ts : List Bytes), (∀ t ∈ ts, Word t) → wsSplit (joinSp ts) [] = ts
  | [], _ => by simp [joinSp, wsSplit]
  | [t], h => by
    have ht := h t (by simp)
    have := wsSplit_word t ht.2.1 [] []
    simp only [List.append_nil] at this
    rw [joinSp, this, wsSplit]
    have hne : t.reverse.isEmpty = false := by
      cases t with
      | nil => exact absurd rfl ht.1
      | cons a b => simp
    simp [hne]
  | t :: t2 :: ts, h => by
    have ht := h t (by simp)
    rw [joinSp, wsSplit_word t ht.2.1, wsSplit]
    have hne : (t.reverse ++ []).isEmpty = false := by
      cases t with
      | nil => exact absurd rfl ht.1
      | cons a b => simp
    have hws : isWs 32 = true := by decide
    simp only [hws, ↓reduceIte, hne, Bool.false_eq_true]
    rw [wsSplit_joinSp (t2 :: ts) (fun t' h' => h t' (by simp [h']))]
    simp

theorem dropComment_words : ∀ (ts : List Bytes), (∀ t ∈ ts, Word t) → dropComment ts = ts
  | [], _ => rfl
  | t :: ts, h => by
    have ht := h t (by simp)
    rw [dropComment]
    simp only [ht.2.2, ↓reduceIte]
    rw [dropComment_words ts (fun t' h' => h t' (by simp [h']))]

/-- **a line written as words separated by single spaces is read back as exactly these words** -/
theorem tokens_joinSp (ts : List Bytes) (h : ∀ t ∈ ts, Word t) : tokens (joinSp ts) = ts := by
  unfold tokens
  rw [wsSplit_joinSp ts h, dropComment_words ts h]

/-! ### dotted quads -/

theorem canonDec_digits {s : Bytes} {n : Nat} (h : canonDec? s = some n) : s ≠ [] ∧ s.all isDigit = true := by
  unfold canonDec? at h
  split at h
  · cases h
  · split at h
    · rename_i hd; exact ⟨by simp, by simp [hd]⟩
    · cases h
  · rename_i c r _
    split at h
    · rename_i hd
      simp only [Bool.and_eq_true] at hd
      exact ⟨by simp, by simp [hd.1.1, hd.2]⟩
    · cases h

theorem digit_ne {c : UInt8} (h : isDigit c = true) : c ≠ 46 ∧ c ≠ 45 ∧ c ≠ 47 := by
  unfold isDigit at h
  simp only [Bool.and_eq_true, decide_eq_true_eq] at h
  refine ⟨?_, ?_, ?_⟩ <;> (intro he; subst he; revert h; decide)

theorem splitOn_noSep (sep : UInt8) (s : Bytes) (h : ∀ c ∈ s, c ≠ sep) : splitOn sep s = [s] := by
  induction s with
  | nil => rfl
  | cons c r ih =>
    rw [splitOn]
    have hc : c ≠ sep := h c (by simp)
    simp only [hc, ↓reduceIte]
    rw [ih (fun c' h' => h c' (by simp [h']))]

theorem splitOn_append (sep : UInt8) (s rest : Bytes) (h : ∀ c ∈ s, c ≠ sep) :
    splitOn sep (s ++ sep :: rest) = s :: splitOn sep rest := by
  induction s with
  | nil => simp [splitOn]
  | cons c r ih =>
    simp only [List.cons_append]
    rw [splitOn]
    have hc : c ≠ sep := h c (by simp)
    simp only [hc, ↓reduceIte]
    rw [ih (fun c' h' => h c' (by simp [h']))]

theorem digits_noSep {s : Bytes} (h : s.all isDigit = true) (sep : UInt8) (hs : sep = 46 ∨ sep = 45 ∨ sep = 47) :
    ∀ c ∈ s, c ≠ sep := by
  intro c hc
  have hd : isDigit c = true := by
    rw [List.all_eq_true] at h; exact h c hc
  have := digit_ne hd
  rcases hs with rfl | rfl | rfl
  · exact this.1
  · exact this.2.1
  · exact this.2.2

/-- the text `o1.o2.o3.o4` -/
def quadText (o1 o2 o3 o4 : Bytes) : Bytes := o1 ++ 46 :: (o2 ++ 46 :: (o3 ++ 46 :: o4))

def quadVal (n1 n2 n3 n4 : Nat) : Nat := ((n1 * 256 + n2) * 256 + n3) * 256 + n4

/-- **a dotted quad of canonical decimals `≤ 255` is read as its address** -/
theorem quad_text {o1 o2 o3 o4 : Bytes} {n1 n2 n3 n4 : Nat}
    (h1 : canonDec? o1 = some n1) (h2 : canonDec? o2 = some n2) (h3 : canonDec? o3 = some n3) (h4 : canonDec? o4 = some n4)
    (hb : n1 ≤ 255 ∧ n2 ≤ 255 ∧ n3 ≤ 255 ∧ n4 ≤ 255) :
    quad? (quadText o1 o2 o3 o4) = some (.val (quadVal n1 n2 n3 n4)) := by
  unfold quad? quadText
  have d1 := digits_noSep (canonDec_digits h1).2 46 (Or.inl rfl)
  have d2 := digits_noSep (canonDec_digits h2).2 46 (Or.inl rfl)
  have d3 := digits_noSep (canonDec_digits h3).2 46 (Or.inl rfl)
  have d4 := digits_noSep (canonDec_digits h4).2 46 (Or.inl rfl)
  rw [splitOn_append 46 o1 _ d1, splitOn_append 46 o2 _ d2, splitOn_append 46 o3 _ d3, splitOn_noSep 46 o4 d4]
  simp only [List.map_cons, List.map_nil, h1, h2, h3, h4]
  simp [hb, quadVal]

theorem quadText_chars {o1 o2 o3 o4 : Bytes} {n1 n2 n3 n4 : Nat}
    (h1 : canonDec? o1 = some n1) (h2 : canonDec? o2 = some n2) (h3 : canonDec? o3 = some n3) (h4 : canonDec? o4 = some n4) :
    ∀ c ∈ quadText o1 o2 o3 o4, isDigit c = true ∨ c = 46 := by
  intro c hc
  unfold quadText at hc
  simp only [List.mem_append, List.mem_cons] at hc
  have g : ∀ {o : Bytes} {n : Nat}, canonDec? o = some n → c ∈ o → isDigit c = true := by
    intro o n ho hm
    have := (canonDec_digits ho).2
    rw [List.all_eq_true] at this
    exact this c hm
  rcases hc with hc | rfl | hc | rfl | hc | rfl | hc
  · exact Or.inl (g h1 hc)
  · exact Or.inr rfl
  · exact Or.inl (g h2 hc)
  · exact Or.inr rfl
  · exact Or.inl (g h3 hc)
  · exact Or.inr rfl
  · exact Or.inl (g h4 hc)

/-! ### src / dst value forms -/

theorem cut_noSep (sep : UInt8) (s : Bytes) (h : ∀ c ∈ s, c ≠ sep) : cut sep s = (s, none) := by
  induction s with
  | nil => rfl
  | cons c r ih =>
    rw [cut]
    have hc : c ≠ sep := h c (by simp)
    simp only [hc, ↓reduceIte]
    rw [ih (fun c' h' => h c' (by simp [h']))]

theorem cut_append (sep : UInt8) (s rest : Bytes) (h : ∀ c ∈ s, c ≠ sep) : cut sep (s ++ sep :: rest) = (s, some rest) := by
  induction s with
  | nil => simp [cut]
  | cons c r ih =>
    simp only [List.cons_append]
    rw [cut]
    have hc : c ≠ sep := h c (by simp)
    simp only [hc, ↓reduceIte]
    rw [ih (fun c' h' => h c' (by simp [h']))]

/-- the text of an IPv4 address: a dotted quad of canonical decimals `≤ 255` with value `a` -/
def IsQuadText (q : Bytes) (a : Nat) : Prop :=
  ∃ o1 o2 o3 o4 n1 n2 n3 n4, q = quadText o1 o2 o3 o4 ∧ canonDec? o1 = some n1 ∧ canonDec? o2 = some n2 ∧
    canonDec? o3 = some n3 ∧ canonDec? o4 = some n4 ∧ n1 ≤ 255 ∧ n2 ≤ 255 ∧ n3 ≤ 255 ∧ n4 ≤ 255 ∧ a = quadVal n1 n2 n3 n4

theorem IsQuadText.quad {q : Bytes} {a : Nat} (h : IsQuadText q a) : quad? q = some (.val a) := by
  obtain ⟨o1, o2, o3, o4, n1, n2, n3, n4, rfl, h1, h2, h3, h4, b1, b2, b3, b4, rfl⟩ := h
  exact quad_text h1 h2 h3 h4 ⟨b1, b2, b3, b4⟩

theorem IsQuadText.chars {q : Bytes} {a : Nat} (h : IsQuadText q a) : ∀ c ∈ q, isDigit c = true ∨ c = 46 := by
  obtain ⟨o1, o2, o3, o4, n1, n2, n3, n4, rfl, h1, h2, h3, h4, _⟩ := h
  exact quadText_chars h1 h2 h3 h4

theorem IsQuadText.noSep {q : Bytes} {a : Nat} (h : IsQuadText q a) (sep : UInt8) (hs : sep = 45 ∨ sep = 47 ∨ sep = 58) :
    ∀ c ∈ q, c ≠ sep := by
  intro c hc
  rcases h.chars c hc with hd | rfl
  · have := digit_ne hd
    rcases hs with rfl | rfl | rfl
    · exact this.2.1
    · exact this.2.2
    · intro he; subst he; revert hd; decide
  · rcases hs with rfl | rfl | rfl <;> decide

theorem v6Literals_have_colon : ∀ l ∈ Gen.HttpAccessCfg.v6Literals, (58 : UInt8) ∈ l := by decide

theorem not_v6_of_no_colon {t : Bytes} (h : ∀ c ∈ t, c ≠ 58) : Gen.HttpAccessCfg.v6Literals.contains t = false := by
  cases hc : Gen.HttpAccessCfg.v6Literals.contains t with
  | false => rfl
  | true =>
    have hm : t ∈ Gen.HttpAccessCfg.v6Literals := by simpa using hc
    exact absurd rfl (h 58 (v6Literals_have_colon t hm))

theorem allowed_chars_of {t : Bytes} (h : ∀ c ∈ t, isDigit c = true ∨ c = 46 ∨ c = 45 ∨ c = 47) :
    (!(t.all fun c => isDigit c || c == 46 || c == 45 || c == 47)) = false := by
  simp only [Bool.not_eq_false', List.all_eq_true, Bool.or_eq_true, beq_iff_eq]
  intro c hc
  rcases h c hc with h | h | h | h
  · exact Or.inl (Or.inl (Or.inl h))
  · exact Or.inl (Or.inl (Or.inr h))
  · exact Or.inl (Or.inr h)
  · exact Or.inr h

/-- **`A`**: the text of one address is a value that covers exactly this address -/
theorem ip_value_single (q : Bytes) (a : Nat) (hq : IsQuadText q a) (ha : a ≠ 4294967295) :
    ∃ item, parseIpToken Gen.HttpAccessCfg.v6Literals q = .item item ∧ ∀ ip, item.Covers ip ↔ ip = a := by
  refine ⟨{ addr1 := a, addr2 := 0, maskK := 0 }, ?_, ?_⟩
  · unfold parseIpToken
    rw [not_v6_of_no_colon (hq.noSep 58 (by simp))]
    rw [allowed_chars_of (fun c hc => by rcases hq.chars c hc with h | h; exact Or.inl h; exact Or.inr (Or.inl h))]
    simp only [Bool.false_eq_true, ↓reduceIte]
    rw [cut_noSep 47 q (hq.noSep 47 (by simp))]
    simp only
    rw [cut_noSep 45 q (hq.noSep 45 (by simp))]
    simp only [hq.quad]
    unfold buildItem
    simp only [hq.quad, secondAddr, decodeMask, List.isEmpty_nil, ↓reduceIte, Option.isSome_none, Bool.false_eq_true,
      false_and, ha, clearLow, Nat.pow_zero, Nat.div_one, Nat.mul_one]
    simp
  · intro ip
    simp only [IpItem.Covers, IpItem.last, ↓reduceIte, Nat.pow_zero, true_and]
    omega

/-- **`A/len`**: a CIDR value covers exactly the block of `2^(32-len)` addresses that contains `A` -/
theorem ip_value_cidr (q l : Bytes) (a len : Nat) (hq : IsQuadText q a) (hl : canonDec? l = some len)
    (h1 : 1 ≤ len) (h32 : len ≤ 32) (ha : a ≠ 4294967295) :
    ∃ item, parseIpToken Gen.HttpAccessCfg.v6Literals (q ++ 47 :: l) = .item item ∧
      ∀ ip, item.Covers ip ↔ clearLow (32 - len) a ≤ ip ∧ ip < clearLow (32 - len) a + 2 ^ (32 - len) := by
  have hld := canonDec_digits hl
  refine ⟨{ addr1 := clearLow (32 - len) a, addr2 := 0, maskK := 32 - len }, ?_, ?_⟩
  · unfold parseIpToken
    have hcolon : ∀ c ∈ q ++ 47 :: l, c ≠ 58 := by
      intro c hc
      simp only [List.mem_append, List.mem_cons] at hc
      rcases hc with hc | rfl | hc
      · exact hq.noSep 58 (by simp) c hc
      · decide
      · intro he; subst he
        have := hld.2; rw [List.all_eq_true] at this
        have := this 58 hc; revert this; decide
    rw [not_v6_of_no_colon hcolon]
    have hchars : ∀ c ∈ q ++ 47 :: l, isDigit c = true ∨ c = 46 ∨ c = 45 ∨ c = 47 := by
      intro c hc
      simp only [List.mem_append, List.mem_cons] at hc
      rcases hc with hc | rfl | hc
      · rcases hq.chars c hc with h | h; exact Or.inl h; exact Or.inr (Or.inl h)
      · exact Or.inr (Or.inr (Or.inr rfl))
      · have := hld.2; rw [List.all_eq_true] at this; exact Or.inl (this c hc)
    rw [allowed_chars_of hchars]
    simp only [Bool.false_eq_true, ↓reduceIte]
    rw [cut_append 47 q l (hq.noSep 47 (by simp))]
    simp only
    rw [cut_noSep 45 q (hq.noSep 45 (by simp))]
    have hle : l.isEmpty = false := by
      cases l with
      | nil => exact absurd rfl hld.1
      | cons _ _ => rfl
    have h45 : l.contains 45 = false := by
      cases hc : l.contains 45 with
      | false => rfl
      | true => exact absurd rfl (digits_noSep hld.2 45 (by simp) 45 (by simpa using hc))
    have h47 : l.contains 47 = false := by
      cases hc : l.contains 47 with
      | false => rfl
      | true => exact absurd rfl (digits_noSep hld.2 47 (by simp) 47 (by simpa using hc))
    simp only [hle, h45, h47, Bool.false_eq_true, or_self, ↓reduceIte]
    unfold buildItem
    simp only [hq.quad, secondAddr]
    unfold decodeMask
    have hne : ¬ len > 128 := by omega
    have hn32 : ¬ len > 32 := by omega
    have hn0 : ¬ len = 0 := by omega
    simp only [hle, Bool.false_eq_true, ↓reduceIte, hl, hne, hn32, hn0, Option.isSome_none, false_and, ha, false_or]
    have : clearLow (32 - len) 0 = 0 := by simp [clearLow]
    simp [this]
  · intro ip
    unfold IpItem.Covers IpItem.last
    simp only [↓reduceIte, true_and]
    have hp : 0 < 2 ^ (32 - len) := Nat.two_pow_pos _
    omega

/-- **`A-B`**: a range value covers exactly the addresses from `A` to `B` -/
theorem ip_value_range (q1 q2 : Bytes) (a b : Nat) (hq1 : IsQuadText q1 a) (hq2 : IsQuadText q2 b)
    (ha : 0 < a) (hab : a ≤ b) (hb : b < 4294967295) :
    ∃ item, parseIpToken Gen.HttpAccessCfg.v6Literals (q1 ++ 45 :: q2) = .item item ∧
      ∀ ip, item.Covers ip ↔ a ≤ ip ∧ ip ≤ b := by
  refine ⟨{ addr1 := a, addr2 := b, maskK := 0 }, ?_, ?_⟩
  · unfold parseIpToken
    have hcolon : ∀ c ∈ q1 ++ 45 :: q2, c ≠ 58 := by
      intro c hc
      simp only [List.mem_append, List.mem_cons] at hc
      rcases hc with hc | rfl | hc
      · exact hq1.noSep 58 (by simp) c hc
      · decide
      · exact hq2.noSep 58 (by simp) c hc
    rw [not_v6_of_no_colon hcolon]
    have hchars : ∀ c ∈ q1 ++ 45 :: q2, isDigit c = true ∨ c = 46 ∨ c = 45 ∨ c = 47 := by
      intro c hc
      simp only [List.mem_append, List.mem_cons] at hc
      rcases hc with hc | rfl | hc
      · rcases hq1.chars c hc with h | h; exact Or.inl h; exact Or.inr (Or.inl h)
      · exact Or.inr (Or.inr (Or.inl rfl))
      · rcases hq2.chars c hc with h | h; exact Or.inl h; exact Or.inr (Or.inl h)
    rw [allowed_chars_of hchars]
    simp only [Bool.false_eq_true, ↓reduceIte]
    have hno47 : ∀ c ∈ q1 ++ 45 :: q2, c ≠ 47 := by
      intro c hc
      simp only [List.mem_append, List.mem_cons] at hc
      rcases hc with hc | rfl | hc
      · exact hq1.noSep 47 (by simp) c hc
      · decide
      · exact hq2.noSep 47 (by simp) c hc
    rw [cut_noSep 47 _ hno47]
    simp only
    rw [cut_append 45 q1 q2 (hq1.noSep 45 (by simp))]
    have h45 : q2.contains 45 = false := by
      cases hc : q2.contains 45 with
      | false => rfl
      | true => exact absurd rfl (hq2.noSep 45 (by simp) 45 (by simpa using hc))
    simp only [h45, Bool.false_eq_true, ↓reduceIte]
    unfold buildItem
    simp only [hq1.quad, secondAddr, hq2.quad, decodeMask, List.isEmpty_nil, ↓reduceIte, Option.isSome_some, true_and]
    have c0 : clearLow 0 b = b := by simp [clearLow]
    have c1 : clearLow 0 a = a := by simp [clearLow]
    have e1 : ¬ (b < a ∨ b = 0) := by omega
    have e2 : ¬ (a = 0 ∨ a = 4294967295 ∨ b = 4294967295) := by omega
    simp only [c0, c1, e1, e2, ↓reduceIte]
  · intro ip
    unfold IpItem.Covers IpItem.last
    have hb0 : b ≠ 0 := by omega
    simp only [hb0, ↓reduceIte, Nat.pow_zero, true_and]
    omega

/-! ### method names -/

/-- every registered method name, written exactly as squid prints it, is read as that method both from an `acl ... method`
line and from a request line (checked over the whole table of the staged tree) -/
theorem registered_methods_parse : ∀ i, 1 ≤ i → i < methodOther →
    parseMethod (imageOf i) = { id := i } ∧ requestMethod (imageOf i) = { id := i } := by
  have h : (List.range methodOther).all (fun i => i == 0 ||
      (parseMethod (imageOf i) == ({ id := i } : Meth) && requestMethod (imageOf i) == ({ id := i } : Meth))) = true := by
    decide +kernel
  intro i h1 h2
  rw [List.all_eq_true] at h
  have := h i (List.mem_range.mpr h2)
  have hi : (i == 0) = false := by
    cases i with
    | zero => omega
    | succ n => rfl
  simp only [hi, Bool.false_or, Bool.and_eq_true, beq_iff_eq] at this
  exact this

/-- a token that is not a case-insensitive prefix of any method image is an extension method with that very name -/
theorem methodSearchAcl_none (relaxed : Bool) (tok : Bytes) :
    ∀ (fuel i : Nat), (∀ j, i ≤ j → j ≤ methodOther → imageCaseCmpToken (imageOf j) tok = false) →
      methodSearchAcl relaxed tok fuel i = none
  | 0, _, _ => rfl
  | fuel + 1, i, h => by
    rw [methodSearchAcl]
    split
    · rfl
    · rename_i hle
      have hi : imageCaseCmpToken (imageOf i) tok = false := h i (Nat.le_refl _) (by omega)
      simp only [hi, Bool.false_and, Bool.false_eq_true, ↓reduceIte]
      exact methodSearchAcl_none relaxed tok fuel (i + 1) (fun j h1 h2 => h j (by omega) h2)

theorem extension_method_parse (tok : Bytes)
    (h : ∀ j, 1 ≤ j → j ≤ methodOther → imageCaseCmpToken (imageOf j) tok = false) :
    parseMethod tok = { id := methodOther, image := tok } := by
  unfold parseMethod
  rw [methodSearchAcl_none _ tok _ 1 h]

end SquidModel.Acl.Http
