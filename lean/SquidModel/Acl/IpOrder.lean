/-
Interval reading of the IP ACL model: a well-formed stored value denotes the block range `[lo, hi]`; when the operands stay away
from the special cases of `Ip::Address::operator < <= > >=` the insertion comparator, the subset test, the combined value and the
lookup comparator are what the interval picture says.  Core Lean only.
-/
import SquidModel.Acl.IpBits

namespace SquidModel.Acl.Ip

/-! ### the relational operators away from their special cases -/

/-- addresses strictly between `::` and `::ffff:0.0.0.0` -/
def LowV6 (e : Nat) : Prop := 0 < e ∧ e < V4ANY
/-- addresses strictly between `::ffff:255.255.255.255` and the all-ones address -/
def HighV6 (e : Nat) : Prop := V4NO < e ∧ e < ALL1

instance (e : Nat) : Decidable (LowV6 e) := by unfold LowV6; infer_instance
instance (e : Nat) : Decidable (HighV6 e) := by unfold HighV6; infer_instance

theorem isAnyAddr_iff (a : Nat) : isAnyAddr a = true ↔ a = 0 ∨ a = V4ANY := by
  simp [isAnyAddr]
theorem isNoAddr_iff (a : Nat) : isNoAddr a = true ↔ a = ALL1 ∨ a = V4NO := by
  simp [isNoAddr]

theorem matchIPAddr_neg (a b : Nat) : matchIPAddr a b < 0 ↔ a < b := by
  unfold matchIPAddr; split
  · omega
  · split <;> omega
theorem matchIPAddr_pos (a b : Nat) : matchIPAddr a b > 0 ↔ a > b := by
  unfold matchIPAddr; split
  · omega
  · split <;> omega
theorem matchIPAddr_zero (a b : Nat) : matchIPAddr a b = 0 ↔ a = b := by
  unfold matchIPAddr; split
  · omega
  · split <;> omega
theorem matchIPAddr_nonpos (a b : Nat) : matchIPAddr a b ≤ 0 ↔ a ≤ b := by
  unfold matchIPAddr; split
  · omega
  · split <;> omega
theorem matchIPAddr_nonneg (a b : Nat) : matchIPAddr a b ≥ 0 ↔ a ≥ b := by
  unfold matchIPAddr; split
  · omega
  · split <;> omega

/-- `operator <` / `<=` are numeric unless the left operand is `0.0.0.0` and the right one lies in `LowV6` -/
theorem lt_num {a b : Nat} (h : a = V4ANY → ¬ LowV6 b) : lt a b = decide (a < b) := by
  unfold lt
  by_cases h1 : (isAnyAddr a && !isAnyAddr b) = true
  · simp only [h1, if_true]
    simp only [Bool.and_eq_true, Bool.not_eq_true', isAnyAddr_iff] at h1
    have hb : ¬ (b = 0 ∨ b = V4ANY) := by
      intro hb; have := (isAnyAddr_iff b).mpr hb; simp [this] at h1
    rcases h1.1 with rfl | rfl
    · have : 0 < b := by omega
      simp [this]
    · have hl := h rfl
      unfold LowV6 at hl
      have : V4ANY < b := by omega
      simp [this]
  · simp only [h1, if_false, Bool.false_eq_true]
    simp [matchIPAddr_neg]

theorem le_num {a b : Nat} (h : a = V4ANY → ¬ LowV6 b) : le a b = decide (a ≤ b) := by
  unfold le
  by_cases h1 : (isAnyAddr a && !isAnyAddr b) = true
  · simp only [h1, if_true]
    simp only [Bool.and_eq_true, Bool.not_eq_true', isAnyAddr_iff] at h1
    have hb : ¬ (b = 0 ∨ b = V4ANY) := by
      intro hb; have := (isAnyAddr_iff b).mpr hb; simp [this] at h1
    rcases h1.1 with rfl | rfl
    · simp
    · have hl := h rfl
      unfold LowV6 at hl
      have : V4ANY ≤ b := by omega
      simp [this]
  · simp only [h1, if_false, Bool.false_eq_true]
    simp [matchIPAddr_nonpos]

/-- `operator >` / `>=` are numeric unless the left operand is `255.255.255.255` and the right one lies in `HighV6` -/
theorem gt_num {a b : Nat} (hb128 : b ≤ ALL1) (h : a = V4NO → ¬ HighV6 b) : gt a b = decide (a > b) := by
  unfold gt
  by_cases h1 : (isNoAddr a && !isNoAddr b) = true
  · simp only [h1, if_true]
    simp only [Bool.and_eq_true, Bool.not_eq_true', isNoAddr_iff] at h1
    have hb : ¬ (b = ALL1 ∨ b = V4NO) := by
      intro hb; have := (isNoAddr_iff b).mpr hb; simp [this] at h1
    rcases h1.1 with rfl | rfl
    · have : b < ALL1 := by omega
      simp [this]
    · have hl := h rfl
      unfold HighV6 at hl
      have : b < V4NO := by omega
      simp [this]
  · simp only [h1, if_false, Bool.false_eq_true]
    simp [matchIPAddr_pos]

theorem ge_num {a b : Nat} (hb128 : b ≤ ALL1) (h : a = V4NO → ¬ HighV6 b) : ge a b = decide (a ≥ b) := by
  unfold ge
  by_cases h1 : (isNoAddr a && !isNoAddr b) = true
  · simp only [h1, if_true]
    simp only [Bool.and_eq_true, Bool.not_eq_true', isNoAddr_iff] at h1
    have hb : ¬ (b = ALL1 ∨ b = V4NO) := by
      intro hb; have := (isNoAddr_iff b).mpr hb; simp [this] at h1
    rcases h1.1 with rfl | rfl
    · have : b ≤ ALL1 := hb128
      simp [this]
    · have hl := h rfl
      unfold HighV6 at hl
      have : b ≤ V4NO := by omega
      simp [this]
  · simp only [h1, if_false, Bool.false_eq_true]
    simp [matchIPAddr_nonneg]

/-- the comparators' order (operators or plain byte order, see `aLt`) is numeric under the same side conditions -/
theorem aLt_num {a b : Nat} (h : a = V4ANY → ¬ LowV6 b) : aLt a b = decide (a < b) := by
  unfold aLt; split
  · simp [matchIPAddr_neg]
  · exact lt_num h
theorem aLe_num {a b : Nat} (h : a = V4ANY → ¬ LowV6 b) : aLe a b = decide (a ≤ b) := by
  unfold aLe; split
  · simp [matchIPAddr_nonpos]
  · exact le_num h
theorem aGt_num {a b : Nat} (hb128 : b ≤ ALL1) (h : a = V4NO → ¬ HighV6 b) : aGt a b = decide (a > b) := by
  unfold aGt; split
  · simp [matchIPAddr_pos]
  · exact gt_num hb128 h
theorem aGe_num {a b : Nat} (hb128 : b ≤ ALL1) (h : a = V4NO → ¬ HighV6 b) : aGe a b = decide (a ≥ b) := by
  unfold aGe; split
  · simp [matchIPAddr_nonneg]
  · exact ge_num hb128 h

/-! ### well-formed stored values -/

/-- what `FactoryParse` and `MakeCombinedValue` produce: a prefix mask with `k` host bits, both addresses aligned to it,
and the second address, when there is one, not below the first -/
structure Val.WF (v : Val) (k : Nat) : Prop where
  hk : k ≤ 128
  hmask : v.mask = pmask k
  h1 : v.addr1 < 2 ^ 128
  h2 : v.addr2 < 2 ^ 128
  al1 : v.addr1 % 2 ^ k = 0
  al2 : v.addr2 % 2 ^ k = 0
  ord : isAnyAddr v.addr2 = false → v.addr1 ≤ v.addr2
  top : v.addr1 + (2 ^ k - 1) < 2 ^ 128 ∧ v.addr2 + (2 ^ k - 1) < 2 ^ 128

/-- the second address, or the first when there is none -/
def Val.ip (v : Val) : Nat := if isAnyAddr v.addr2 then v.addr1 else v.addr2

theorem Val.ip_aligned {v : Val} {k : Nat} (w : v.WF k) : v.ip % 2 ^ k = 0 := by
  unfold Val.ip
  split
  · exact w.al1
  · exact w.al2

theorem Val.first_eq {v : Val} {k : Nat} (w : v.WF k) : v.first = v.addr1 := by
  unfold Val.first applyMask
  split
  · rfl
  · simp only [w.hmask, and_pmask w.h1 w.hk, w.al1]; omega

theorem Val.last_eq {v : Val} {k : Nat} (w : v.WF k) : v.last = v.ip + (2 ^ k - 1) := by
  have hal : v.ip % 2 ^ k = 0 := Val.ip_aligned w
  unfold Val.last
  simp only [w.hmask, isNoAddr_pmask w.hk]
  by_cases hk0 : k = 0
  · subst hk0; simp [Val.ip]
  · simp only [hk0, decide_false, Bool.false_eq_true, if_false]
    rw [turnMaskedBitsOn_pmask w.hk (by simpa [Val.ip] using hal)]
    rfl

theorem Val.first_le_last {v : Val} {k : Nat} (w : v.WF k) : v.first ≤ v.last := by
  rw [Val.first_eq w, Val.last_eq w]
  unfold Val.ip
  split
  · omega
  · rename_i h; have := w.ord (by simpa using h); omega

theorem Val.last_lt {v : Val} {k : Nat} (w : v.WF k) : v.last < 2 ^ 128 := by
  rw [Val.last_eq w]; unfold Val.ip; split
  · exact w.top.1
  · exact w.top.2

/-- a value whose last address is `0.0.0.0` is the single address `0.0.0.0` -/
theorem Val.last_any {v : Val} {k : Nat} (w : v.WF k) (h : v.last = V4ANY) : v.first = V4ANY := by
  rw [Val.first_eq w]
  rw [Val.last_eq w] at h
  have hal : v.ip % 2 ^ k = 0 := Val.ip_aligned w
  have hk0 : k = 0 := by
    cases k with
    | zero => rfl
    | succ j =>
      exfalso
      have hp : 2 ^ (j + 1) = 2 * 2 ^ j := by rw [Nat.pow_succ]; omega
      have hpos : 0 < 2 ^ j := Nat.two_pow_pos _
      rw [hp] at hal h
      have h2 : v.ip % 2 = 0 := by
        have := Nat.mod_mod_of_dvd v.ip (⟨2 ^ j, rfl⟩ : 2 ∣ 2 * 2 ^ j)
        rw [hal] at this; simpa using this.symm
      have : V4ANY % 2 = 0 := by decide
      omega
  subst hk0
  simp only [Nat.pow_zero, Nat.sub_self, Nat.add_zero] at h
  unfold Val.ip at h
  split at h
  · exact h
  · rename_i hn
    have := (isAnyAddr_iff v.addr2).mpr (Or.inr h)
    exact absurd this hn

/-! ### the comparators as interval tests -/

/-- `x` lies in the block range of `v` -/
def Val.mem (v : Val) (x : Nat) : Prop := v.first ≤ x ∧ x ≤ v.last

instance (v : Val) (x : Nat) : Decidable (v.mem x) := by unfold Val.mem; infer_instance

/-- three-way position of `x` relative to `[lo, hi]` -/
def pos3 (x lo hi : Nat) : Int := if x < lo then -1 else if x > hi then 1 else 0

/-- `aclIpAddrNetworkCompare` is the three-way position of the client address relative to the value's block range, unless the
masked client address hits a special case of `>=` / `<=` -/
theorem networkCompare_spec {v : Val} {k : Nat} (w : v.WF k) {x : Nat} (hx : x < 2 ^ 128)
    (hq1 : x &&& v.mask = V4ANY → ¬ LowV6 v.addr2) (hq2 : x &&& v.mask = V4NO → ¬ HighV6 v.addr1) :
    networkCompare x v = pos3 x v.first v.last := by
  have hpos : 0 < 2 ^ k := Nat.two_pow_pos _
  have hA : x &&& v.mask = x - x % 2 ^ k := by rw [w.hmask, and_pmask hx w.hk]
  rw [Val.first_eq w, Val.last_eq w]
  unfold networkCompare applyMask pos3 Val.ip
  simp only [hA] at hq1 hq2 ⊢
  have g1 : v.addr1 ≤ x → v.addr1 ≤ x - x % 2 ^ k := block_ge hpos w.al1
  have g2 : x < v.addr1 + 2 ^ k → x - x % 2 ^ k ≤ v.addr1 := block_le hpos w.al1
  have g3 : v.addr2 ≤ x → v.addr2 ≤ x - x % 2 ^ k := block_ge hpos w.al2
  have g4 : x < v.addr2 + 2 ^ k → x - x % 2 ^ k ≤ v.addr2 := block_le hpos w.al2
  have g5 : (x - x % 2 ^ k) % 2 ^ k = 0 := block_aligned
  have hAle : x - x % 2 ^ k ≤ x := Nat.sub_le _ _
  have hxA : x < (x - x % 2 ^ k) + 2 ^ k := by have := Nat.mod_lt x hpos; omega
  -- an aligned address strictly above an aligned address is a whole block above
  have g6 : ∀ a, a % 2 ^ k = 0 → a < x - x % 2 ^ k → a + 2 ^ k ≤ x - x % 2 ^ k := by
    intro a ha hlt
    have := block_le hpos g5 (x := a + 2 ^ k - 1 + 1 - 1) 
    by_cases hc : a + 2 ^ k ≤ x - x % 2 ^ k
    · exact hc
    · exfalso
      have h1 : x - x % 2 ^ k < a + 2 ^ k := by omega
      have h2 := block_le hpos ha h1
      have h3 : (x - x % 2 ^ k) - (x - x % 2 ^ k) % 2 ^ k = x - x % 2 ^ k := by rw [g5]; omega
      omega
  by_cases hany : isAnyAddr v.addr2 = true
  · simp only [hany, if_true]
    unfold matchIPAddr
    by_cases c1 : x < v.addr1
    · have : x - x % 2 ^ k < v.addr1 := by omega
      simp [c1, this]
    · by_cases c2 : x > v.addr1 + (2 ^ k - 1)
      · have h3 := g1 (by omega)
        have : v.addr1 < x - x % 2 ^ k := by
          rcases Nat.lt_or_ge v.addr1 (x - x % 2 ^ k) with h | h
          · exact h
          · exfalso; have : x - x % 2 ^ k = v.addr1 := by omega
            omega
        have h4 : ¬ x - x % 2 ^ k < v.addr1 := by omega
        simp [c1, c2, this, h4]
      · have h3 := g1 (by omega)
        have h4 := g2 (by omega)
        have : x - x % 2 ^ k = v.addr1 := by omega
        simp [c1, c2, this]
  · have hany' : isAnyAddr v.addr2 = false := by simpa using hany
    have hord := w.ord hany'
    simp only [hany', Bool.false_eq_true, if_false]
    rw [aGe_num (by have := w.h1; rw [ALL1_eq]; omega) hq2, aLe_num hq1]
    unfold matchIPAddr
    by_cases c1 : x < v.addr1
    · have h5 : x - x % 2 ^ k < v.addr1 := by omega
      have h6 : ¬ x - x % 2 ^ k ≥ v.addr1 := by omega
      simp [c1, h5, h6]
    · by_cases c2 : x > v.addr2 + (2 ^ k - 1)
      · have h3 := g3 (by omega)
        have h7 : v.addr2 < x - x % 2 ^ k := by
          rcases Nat.lt_or_ge v.addr2 (x - x % 2 ^ k) with h | h
          · exact h
          · exfalso; have : x - x % 2 ^ k = v.addr2 := by omega
            omega
        have h8 : ¬ x - x % 2 ^ k ≤ v.addr2 := by omega
        have h9 : ¬ x - x % 2 ^ k < v.addr1 := by omega
        have h10 : x - x % 2 ^ k > v.addr1 := by omega
        simp [c1, c2, h8, h9, h10]
      · have h3 := g1 (by omega)
        have h4 := g4 (by omega)
        simp [c1, c2, h3, h4]

end SquidModel.Acl.Ip
