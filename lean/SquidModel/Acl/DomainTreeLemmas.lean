/-
Lemmas about the splay-tree model (Acl/DomainTree.lean), for any value type and any comparison callback:
the in-order sequence is preserved by every operation (no hypothesis), and — when the callback is monotone along
the in-order sequence — `find` reports a zero of the callback iff there is one, `insert` puts the new value between
the values that compare greater and those that compare less, `remove` removes exactly the located value.
-/
import SquidModel.Acl.DomainTree

namespace SquidModel.Acl.Tree
variable {α : Type}

/-- in-order content of the left chain (entries are most recent first) -/
def flatL : List (Tree α × α) → List α
  | [] => []
  | p :: L => flatL L ++ (inorder p.1 ++ [p.2])

/-- in-order content of the right chain -/
def flatR : List (α × Tree α) → List α
  | [] => []
  | p :: R => (p.1 :: inorder p.2) ++ flatR R

theorem inorder_closeL (L : List (Tree α × α)) (tl : Tree α) :
    inorder (closeL L tl) = flatL L ++ inorder tl := by
  induction L generalizing tl with
  | nil => simp [closeL, flatL]
  | cons p L ih =>
    have : closeL (p :: L) tl = closeL L (node p.1 p.2 tl) := by simp [closeL]
    rw [this, ih]; simp [flatL, inorder]

theorem inorder_closeR (R : List (α × Tree α)) (tr : Tree α) :
    inorder (closeR R tr) = inorder tr ++ flatR R := by
  induction R generalizing tr with
  | nil => simp [closeR, flatR]
  | cons p R ih =>
    have : closeR (p :: R) tr = closeR R (node tr p.1 p.2) := by simp [closeR]
    rw [this, ih]; simp [flatR, inorder]

theorem inorder_assemble (L : List (Tree α × α)) (R : List (α × Tree α)) (tl : Tree α) (tv : α) (tr : Tree α) :
    inorder (assemble L R tl tv tr) = flatL L ++ (inorder tl ++ tv :: inorder tr) ++ flatR R := by
  simp [assemble, inorder, inorder_closeL, inorder_closeR]

/-- The loop of `SplayNode::splay` never loses, duplicates or reorders a value. -/
theorem inorder_splayLoop (cmp : α → Int) (t : Tree α) (L : List (Tree α × α)) (R : List (α × Tree α)) :
    inorder (splayLoop cmp t L R).top = (if t.isNil then [] else flatL L ++ inorder t ++ flatR R) := by
  fun_induction splayLoop cmp t L R <;>
    simp_all [isNil, inorder_assemble, inorder, flatL, flatR]

theorem inorder_splay (cmp : α → Int) (l : Tree α) (v : α) (r : Tree α) :
    inorder (splay cmp (node l v r)).top = inorder (node l v r) := by
  simp [splay, inorder_splayLoop, isNil, flatL, flatR]

/-- the result of splaying a node is a node -/
theorem splayLoop_node (cmp : α → Int) (t : Tree α) (L : List (Tree α × α)) (R : List (α × Tree α)) (ht : t.isNil = false) :
    ∃ l v r, (splayLoop cmp t L R).top = node l v r := by
  fun_induction splayLoop cmp t L R <;> simp_all [isNil, assemble]

theorem inorder_find (cmp : α → Int) (t : Tree α) : inorder (find cmp t).1 = inorder t := by
  cases t with
  | nil => simp [find]
  | node l v r =>
    simp only [find]
    split <;> simp [inorder_splay]

/-! ### monotone callbacks -/

/-- the callback never goes from "sought < stored" back to "sought ≥ stored" along the in-order walk, nor from
"sought ≤ stored" to "sought > stored" -/
def Mono (cmp : α → Int) (xs : List α) : Prop :=
  xs.Pairwise (fun a b => (cmp a < 0 → cmp b < 0) ∧ (cmp b > 0 → cmp a > 0))

theorem Mono.sublist {cmp : α → Int} {xs ys : List α} (h : Mono cmp ys) (hs : xs.Sublist ys) : Mono cmp xs :=
  List.Pairwise.sublist hs h

/-- what the splay loop establishes -/
structure SplaySpec (cmp : α → Int) (full : List α) (s : SplayRes α) : Prop where
  shape : ∃ l v r, s.top = node l v r ∧ inorder l ++ v :: inorder r = full ∧ s.last = cmp v ∧
    (s.last < 0 → (∀ a ∈ inorder l, cmp a > 0) ∧ (∀ b ∈ inorder r, cmp b < 0)) ∧
    (s.last > 0 → (∀ a ∈ inorder l, cmp a > 0) ∧ (∀ b ∈ inorder r, cmp b < 0))

theorem mono_before {cmp : α → Int} {A B : List α} {v : α} (h : Mono cmp (A ++ v :: B)) (hv : cmp v > 0) :
    ∀ a ∈ A, cmp a > 0 := by
  intro a ha
  have := (List.pairwise_append.mp h).2.2 a ha v (by simp)
  exact this.2 hv

theorem mono_after {cmp : α → Int} {A B : List α} {v : α} (h : Mono cmp (A ++ v :: B)) (hv : cmp v < 0) :
    ∀ b ∈ B, cmp b < 0 := by
  intro b hb
  have h2 := (List.pairwise_append.mp h).2.1
  have := (List.pairwise_cons.mp h2).1 b hb
  exact this.1 hv

theorem splayLoop_spec (cmp : α → Int) (t : Tree α) (L : List (Tree α × α)) (R : List (α × Tree α))
    (ht : t.isNil = false) (full : List α) (hfull : full = flatL L ++ inorder t ++ flatR R)
    (hm : Mono cmp full) (hL : ∀ a ∈ flatL L, cmp a > 0) (hR : ∀ b ∈ flatR R, cmp b < 0) :
    SplaySpec cmp full (splayLoop cmp t L R) := by
  fun_induction splayLoop cmp t L R with
  | case1 => simp [isNil] at ht
  | case2 tv tr L R hc =>
    -- break: top->left == nullptr, last < 0
    refine ⟨closeL L nil, tv, closeR R tr, rfl, ?_, rfl, ?_, ?_⟩
    · simp [inorder_closeL, inorder_closeR, hfull, inorder]
    · intro _
      refine ⟨by simpa [inorder_closeL, inorder] using hL, ?_⟩
      have hm' : Mono cmp ((flatL L) ++ tv :: (inorder tr ++ flatR R)) := by
        simpa [hfull, inorder] using hm
      simpa [inorder_closeR] using mono_after hm' hc
    · intro h; dsimp only at h; omega
  | case3 tv tr L R hc yv yr hc2 =>
    refine ⟨closeL L nil, yv, closeR R (node yr tv tr), rfl, ?_, rfl, ?_, ?_⟩
    · simp [inorder_closeL, inorder_closeR, hfull, inorder]
    · intro _
      refine ⟨by simpa [inorder_closeL, inorder] using hL, ?_⟩
      have hm' : Mono cmp ((flatL L) ++ yv :: (inorder yr ++ tv :: inorder tr ++ flatR R)) := by
        simpa [hfull, inorder] using hm
      simpa [inorder_closeR, inorder] using mono_after hm' hc2
    · intro h; dsimp only at h; omega
  | case4 tv tr L R hc yv yr hc2 a b c ih =>
    apply ih (by simp [isNil])
    · simp [hfull, inorder, flatR]
    · exact hL
    · intro x hx
      have hm' : Mono cmp ((flatL L ++ inorder (node a b c)) ++ yv :: (inorder yr ++ tv :: inorder tr ++ flatR R)) := by
        simpa [hfull, inorder] using hm
      have h1 := mono_after hm' hc2
      simp only [flatR, List.cons_append, List.mem_cons, List.mem_append] at hx
      rcases hx with rfl | hx
      · exact hc2
      · apply h1; simp [inorder]; rcases hx with hx | hx
        · simp [inorder] at hx; rcases hx with hx | rfl | hx <;> simp [*]
        · simp [*]
  | case5 tv tr L R hc yl yv yr hc2 ih =>
    apply ih (by simp [isNil])
    · simp [hfull, inorder, flatR]
    · exact hL
    · intro x hx
      have hm' : Mono cmp ((flatL L ++ inorder (node yl yv yr)) ++ tv :: (inorder tr ++ flatR R)) := by
        simpa [hfull, inorder] using hm
      have h1 := mono_after hm' hc
      simp only [flatR, List.cons_append, List.mem_cons, List.mem_append] at hx
      rcases hx with rfl | hx
      · exact hc
      · apply h1; simp; rcases hx with hx | hx <;> simp [*]
  | case6 tl tv L R hc hc' =>
    refine ⟨closeL L tl, tv, closeR R nil, rfl, ?_, rfl, ?_, ?_⟩
    · simp [inorder_closeL, inorder_closeR, hfull, inorder]
    · intro h; dsimp only at h; omega
    · intro _
      refine ⟨?_, by simpa [inorder_closeR, inorder] using hR⟩
      have hm' : Mono cmp ((flatL L ++ inorder tl) ++ tv :: (flatR R)) := by
        simpa [hfull, inorder] using hm
      simpa [inorder_closeL] using mono_before hm' hc'
  | case7 tl tv L R hc hc' yl yv hc2 =>
    refine ⟨closeL L (node tl tv yl), yv, closeR R nil, rfl, ?_, rfl, ?_, ?_⟩
    · simp [inorder_closeL, inorder_closeR, hfull, inorder]
    · intro h; dsimp only at h; omega
    · intro _
      refine ⟨?_, by simpa [inorder_closeR, inorder] using hR⟩
      have hm' : Mono cmp ((flatL L ++ inorder tl ++ tv :: inorder yl) ++ yv :: (flatR R)) := by
        simpa [hfull, inorder] using hm
      simpa [inorder_closeL, inorder] using mono_before hm' hc2
  | case8 tl tv L R hc hc' yl yv hc2 a b c ih =>
    apply ih (by simp [isNil])
    · simp [hfull, inorder, flatL]
    · intro x hx
      have hm' : Mono cmp ((flatL L ++ inorder tl ++ tv :: inorder yl) ++ yv :: (inorder (node a b c) ++ flatR R)) := by
        simpa [hfull, inorder] using hm
      have h1 := mono_before hm' hc2
      have hx' : x = yv ∨ x ∈ flatL L ++ tl.inorder ++ tv :: yl.inorder := by
        simp [flatL, inorder] at hx ⊢
        grind
      rcases hx' with rfl | hx'
      · exact hc2
      · exact h1 x hx'
    · exact hR
  | case9 tl tv L R hc hc' yl yv yr hc2 ih =>
    apply ih (by simp [isNil])
    · simp [hfull, inorder, flatL]
    · intro x hx
      have hm' : Mono cmp ((flatL L ++ inorder tl) ++ tv :: (inorder (node yl yv yr) ++ flatR R)) := by
        simpa [hfull, inorder] using hm
      have h1 := mono_before hm' hc'
      simp only [flatL, List.mem_append, List.mem_singleton] at hx
      rcases hx with hx | hx | rfl
      · apply h1; simp [*]
      · apply h1; simp [*]
      · exact hc'
    · exact hR
  | case10 tl tv tr L R hc hc' =>
    refine ⟨closeL L tl, tv, closeR R tr, rfl, ?_, rfl, ?_, ?_⟩
    · simp [inorder_closeL, inorder_closeR, hfull, inorder]
    · intro h; dsimp only at h; omega
    · intro h; dsimp only at h; omega


theorem splay_spec (cmp : α → Int) (l : Tree α) (v : α) (r : Tree α) (hm : Mono cmp (inorder (node l v r))) :
    SplaySpec cmp (inorder (node l v r)) (splay cmp (node l v r)) :=
  splayLoop_spec cmp _ [] [] rfl _ (by simp [flatL, flatR]) hm (by simp [flatL]) (by simp [flatR])

/-- a splay that ends with a non-zero comparison has seen that no stored value compares equal -/
theorem SplaySpec.no_zero {cmp : α → Int} {full : List α} {s : SplayRes α} (h : SplaySpec cmp full s) (hl : s.last ≠ 0) :
    ∀ y ∈ full, cmp y ≠ 0 := by
  obtain ⟨l, v, r, _, hin, hlast, hneg, hpos⟩ := h.shape
  intro y hy
  have hsign : (∀ a ∈ inorder l, cmp a > 0) ∧ (∀ b ∈ inorder r, cmp b < 0) := by
    rcases Int.lt_or_gt_of_ne hl with h | h
    · exact hneg h
    · exact hpos h
  rw [← hin] at hy
  simp only [List.mem_append, List.mem_cons] at hy
  rcases hy with hy | rfl | hy
  · have := hsign.1 y hy; omega
  · omega
  · have := hsign.2 y hy; omega

theorem find_node_ne (cmp : α → Int) (l : Tree α) (v : α) (r : Tree α) (h : (splay cmp (node l v r)).last ≠ 0) :
    find cmp (node l v r) = ((splay cmp (node l v r)).top, none) := by
  simp [find, h]

theorem find_node_eq (cmp : α → Int) (l : Tree α) (v : α) (r : Tree α) (h : (splay cmp (node l v r)).last = 0) :
    find cmp (node l v r) = ((splay cmp (node l v r)).top, (splay cmp (node l v r)).top.rootVal?) := by
  simp [find, h]

/-- `Splay::find` under a monotone callback: content unchanged; a reported value is a stored zero of the callback
(now at the root); no report means there is no zero. -/
theorem find_spec (cmp : α → Int) (t : Tree α) (hm : Mono cmp (inorder t)) :
    inorder (find cmp t).1 = inorder t ∧
    (match (find cmp t).2 with
     | some s => s ∈ inorder t ∧ cmp s = 0 ∧ (find cmp t).1.rootVal? = some s
     | none => ∀ y ∈ inorder t, cmp y ≠ 0) := by
  refine ⟨inorder_find cmp t, ?_⟩
  cases t with
  | nil => simp [find, inorder]
  | node l v r =>
    have sp := splay_spec cmp l v r hm
    obtain ⟨l', v', r', htop, hin, hlast, _, _⟩ := sp.shape
    by_cases h0 : (splay cmp (node l v r)).last = 0
    · rw [find_node_eq cmp l v r h0]
      simp only [htop, rootVal?]
      refine ⟨?_, by omega, trivial⟩
      rw [← hin]; simp
    · rw [find_node_ne cmp l v r h0]
      exact sp.no_zero h0

theorem find_isSome_iff (cmp : α → Int) (t : Tree α) (hm : Mono cmp (inorder t)) :
    (find cmp t).2.isSome = true ↔ ∃ y ∈ inorder t, cmp y = 0 := by
  have h := (find_spec cmp t hm).2
  cases hf : (find cmp t).2 with
  | none =>
    rw [hf] at h
    simp only [Option.isSome_none, Bool.false_eq_true, false_iff, not_exists, not_and]
    exact h
  | some s =>
    rw [hf] at h
    simp only [Option.isSome_some, true_iff]
    exact ⟨s, h.1, h.2.1⟩

/-- `Splay::insert` under a monotone callback: either an existing zero of the callback is reported and nothing changes,
or the new value is linked in between the values that compare greater and those that compare less. -/
theorem insert_spec (cmp : α → Int) (x : α) (t : Tree α) (hm : Mono cmp (inorder t)) :
    (∃ t' s, insert cmp x t = (t', some s) ∧ inorder t' = inorder t ∧ s ∈ inorder t ∧ cmp s = 0) ∨
    (∃ t' A B, insert cmp x t = (t', none) ∧ inorder t = A ++ B ∧ inorder t' = A ++ x :: B ∧
      (∀ a ∈ A, cmp a > 0) ∧ (∀ b ∈ B, cmp b < 0)) := by
  have hf := find_spec cmp t hm
  unfold insert
  cases hres : find cmp t with
  | mk t' r =>
    rw [hres] at hf
    cases r with
    | some s =>
      left
      exact ⟨t', s, rfl, hf.1, hf.2.1, hf.2.2.1⟩
    | none =>
      right
      have hnz : ∀ y ∈ inorder t, cmp y ≠ 0 := hf.2
      have hin : inorder t' = inorder t := hf.1
      cases t' with
      | nil =>
        refine ⟨_, [], [], rfl, ?_, by simp [inorder], by simp, by simp⟩
        simpa [inorder] using hin.symm
      | node l v r =>
        have hm' : Mono cmp (inorder (node l v r)) := by rw [hin]; exact hm
        have sp := splay_spec cmp l v r hm'
        obtain ⟨l', v', r', htop, hin', hlast, hneg, hpos⟩ := sp.shape
        have hv' : cmp v' ≠ 0 := by
          apply hnz; rw [← hin, ← hin']; simp
        simp only [nodeInsert, htop]
        by_cases hlt : (splay cmp (node l v r)).last < 0
        · refine ⟨_, inorder l', v' :: inorder r', rfl, ?_, ?_, (hneg hlt).1, ?_⟩
          · rw [← hin, ← hin']
          · simp [hlt, inorder]
          · intro b hb
            simp only [List.mem_cons] at hb
            rcases hb with rfl | hb
            · omega
            · exact (hneg hlt).2 b hb
        · have hgt : (splay cmp (node l v r)).last > 0 := by omega
          refine ⟨_, inorder l' ++ [v'], inorder r', rfl, ?_, ?_, ?_, (hpos hgt).2⟩
          · rw [← hin, ← hin']; simp
          · simp [hlt, hgt, inorder]
          · intro a ha
            simp only [List.mem_append, List.mem_singleton] at ha
            rcases ha with ha | rfl
            · exact (hpos hgt).1 a ha
            · omega

/-- `Splay::remove` when every value stored in front of a zero of the callback compares greater (the zero is unique and
the callback is monotone): exactly the located value disappears. -/
theorem remove_spec (cmp : α → Int) (t : Tree α) (hm : Mono cmp (inorder t))
    (hz : (inorder t).Pairwise (fun a v => cmp v = 0 → cmp a > 0)) :
    (∃ t', remove cmp t = (t', false) ∧ inorder t' = inorder t ∧ ∀ y ∈ inorder t, cmp y ≠ 0) ∨
    (∃ t' A v B, remove cmp t = (t', true) ∧ inorder t = A ++ v :: B ∧ cmp v = 0 ∧ inorder t' = A ++ B) := by
  have hf := find_spec cmp t hm
  unfold remove
  cases hres : find cmp t with
  | mk t1 r =>
    rw [hres] at hf
    cases r with
    | none => left; exact ⟨t1, rfl, hf.1, hf.2⟩
    | some s =>
      right
      have hin : inorder t1 = inorder t := hf.1
      cases t1 with
      | nil =>
        have : s ∈ inorder t := hf.2.1
        rw [← hin] at this; simp [inorder] at this
      | node l v r =>
        have hm' : Mono cmp (inorder (node l v r)) := by rw [hin]; exact hm
        have sp := splay_spec cmp l v r hm'
        obtain ⟨l', v', r', htop, hin', hlast, _, _⟩ := sp.shape
        have hl0 : (splay cmp (node l v r)).last = 0 := by
          by_cases h0 : (splay cmp (node l v r)).last = 0
          · exact h0
          · have := sp.no_zero h0 s (by rw [hin]; exact hf.2.1)
            exact absurd hf.2.2.1 this
        have hv0 : cmp v' = 0 := by omega
        have hfull : inorder t = inorder l' ++ v' :: inorder r' := by rw [← hin, ← hin']
        simp only [nodeRemove, hl0, htop, if_true]
        cases l' with
        | nil =>
          exact ⟨r', [], v', inorder r', rfl, by simpa [inorder] using hfull, hv0, by simp⟩
        | node a b c =>
          rw [hfull] at hz hm
          have hzl : ∀ y ∈ inorder (node a b c), cmp y > 0 := fun y hy =>
            (List.pairwise_append.mp hz).2.2 y hy v' (by simp) hv0
          have hml : Mono cmp (inorder (node a b c)) := hm.sublist (List.sublist_append_left _ _)
          have sp2 := splay_spec cmp a b c hml
          obtain ⟨nl, nv, nr, htop2, hin2, hlast2, _, hpos2⟩ := sp2.shape
          have hnv : cmp nv > 0 := hzl nv (by rw [← hin2]; simp)
          have hnr : inorder nr = [] := by
            apply List.eq_nil_iff_forall_not_mem.mpr
            intro y hy
            have h1 := (hpos2 (by omega)).2 y hy
            have h2 := hzl y (by rw [← hin2]; simp [hy])
            omega
          refine ⟨node nl nv r', inorder nl ++ [nv], v', inorder r', ?_, ?_, hv0, ?_⟩
          · simp only [htop2]
          · rw [hfull, ← hin2, hnr]
          · simp [inorder]

end SquidModel.Acl.Tree
