/-
Bit-level facts behind the IP ACL model (Acl/Ip.lean): what `&`, `| ~` do for prefix masks `2^128 - 2^k`,
and the values `applyCidr`/`cidr` produce.  Core Lean only.
-/
import SquidModel.Acl.Ip

namespace SquidModel.Acl.Ip

theorem ALL1_eq : ALL1 = 2 ^ 128 - 1 := by decide

/-- the prefix mask that keeps all but the `k` low bits -/
def pmask (k : Nat) : Nat := 2 ^ 128 - 2 ^ k

theorem two_pow_le_128 {k : Nat} (hk : k ≤ 128) : 2 ^ k ≤ 2 ^ 128 := Nat.pow_le_pow_right (by decide) hk

theorem testBit_pmask {k : Nat} (hk : k ≤ 128) (i : Nat) :
    (pmask k).testBit i = (decide (i < 128) && !decide (i < k)) := by
  have h1 : 2 ^ k - 1 < 2 ^ 128 := by
    have := two_pow_le_128 hk
    have : 0 < 2 ^ k := Nat.two_pow_pos _
    omega
  have h2 : pmask k = 2 ^ 128 - ((2 ^ k - 1) + 1) := by
    have : 0 < 2 ^ k := Nat.two_pow_pos _
    unfold pmask; omega
  rw [h2, Nat.testBit_two_pow_sub_succ h1, Nat.testBit_two_pow_sub_one]

theorem testBit_of_lt_128 {x : Nat} (hx : x < 2 ^ 128) {i : Nat} (hi : ¬ i < 128) : x.testBit i = false := by
  apply Nat.testBit_lt_two_pow
  have : 2 ^ 128 ≤ 2 ^ i := Nat.pow_le_pow_right (by decide) (by omega)
  omega

/-- `x & mask` clears the `k` low bits -/
theorem and_pmask {x k : Nat} (hx : x < 2 ^ 128) (hk : k ≤ 128) : x &&& pmask k = x - x % 2 ^ k := by
  have hrhs : x - x % 2 ^ k = 2 ^ k * (x / 2 ^ k) + 0 := by
    have := Nat.div_add_mod x (2 ^ k); omega
  apply Nat.eq_of_testBit_eq
  intro i
  rw [Nat.testBit_and, testBit_pmask hk, hrhs, Nat.testBit_two_pow_mul_add _ (Nat.two_pow_pos _)]
  by_cases h128 : i < 128
  · by_cases hik : i < k
    · simp [h128, hik]
    · have : i - k + k = i := by omega
      simp [h128, hik, Nat.testBit_div_two_pow, this]
  · have hik : ¬ i < k := by omega
    have : i - k + k = i := by omega
    simp [h128, hik, Nat.testBit_div_two_pow, this, testBit_of_lt_128 hx h128]

/-- `~mask` within 128 bits -/
theorem xor_pmask {k : Nat} (hk : k ≤ 128) : ALL1 ^^^ pmask k = 2 ^ k - 1 := by
  apply Nat.eq_of_testBit_eq
  intro i
  rw [Nat.testBit_xor, testBit_pmask hk, ALL1_eq, Nat.testBit_two_pow_sub_one, Nat.testBit_two_pow_sub_one]
  by_cases h128 : i < 128 <;> by_cases hik : i < k <;> simp [h128, hik]
  omega

/-- `a | ~mask` for an aligned `a` -/
theorem or_low_ones {a k : Nat} (ha : a % 2 ^ k = 0) : a ||| (2 ^ k - 1) = a + (2 ^ k - 1) := by
  have hpos : 0 < 2 ^ k := Nat.two_pow_pos _
  have h1 : a = 2 ^ k * (a / 2 ^ k) := by
    have := Nat.div_add_mod a (2 ^ k); omega
  have h2 : 2 ^ k - 1 < 2 ^ k := by omega
  have := Nat.two_pow_add_eq_or_of_lt h2 (a / 2 ^ k)
  rw [← h1] at this
  exact this.symm

theorem turnMaskedBitsOn_pmask {a k : Nat} (hk : k ≤ 128) (ha : a % 2 ^ k = 0) :
    turnMaskedBitsOn a (pmask k) = a + (2 ^ k - 1) := by
  unfold turnMaskedBitsOn
  rw [xor_pmask hk, or_low_ones ha]

theorem pmask_zero : pmask 0 = ALL1 := by decide

/-- the byte loop of `applyMask(cidr, type)` on the all-ones mask -/
theorem shift_clear (c : Fin 129) : (ALL1 >>> c.val) <<< c.val = pmask c.val := by
  revert c; decide

theorem isNoAddr_pmask {k : Nat} (hk : k ≤ 128) : isNoAddr (pmask k) = decide (k = 0) := by
  have h : ∀ c : Fin 129, isNoAddr (pmask c.val) = decide (c.val = 0) := by decide
  exact h ⟨k, by omega⟩

/-- `cidr()` of a contiguous IPv4 netmask -/
theorem cidr_netmask (c : Fin 33) : cidr (V4ANY + (2 ^ 32 - 2 ^ c.val)) = 32 - c.val := by
  revert c; decide

/-! ### arithmetic of aligned blocks (`p` plays `2^k`) -/

theorem block_ge {p a x : Nat} (_hp : 0 < p) (ha : a % p = 0) (h : a ≤ x) : a ≤ x - x % p := by
  have h1 : a = p * (a / p) := by have := Nat.div_add_mod a p; omega
  have h2 : x - x % p = p * (x / p) := by have := Nat.div_add_mod x p; omega
  rw [h2, h1]
  apply Nat.mul_le_mul_left
  exact Nat.div_le_div_right h

theorem block_le {p a x : Nat} (hp : 0 < p) (ha : a % p = 0) (h : x < a + p) : x - x % p ≤ a := by
  have h1 : a = p * (a / p) := by have := Nat.div_add_mod a p; omega
  have h2 : x - x % p = p * (x / p) := by have := Nat.div_add_mod x p; omega
  rw [h2]
  have h3 : x / p < a / p + 1 := by
    apply (Nat.div_lt_iff_lt_mul hp).mpr
    rw [Nat.add_mul, Nat.one_mul, Nat.mul_comm]; omega
  have h4 : p * (x / p) ≤ p * (a / p) := Nat.mul_le_mul_left _ (by omega)
  omega

theorem block_aligned {p x : Nat} : (x - x % p) % p = 0 := by
  by_cases hp : p = 0
  · subst hp; simp
  · have h2 : x - x % p = p * (x / p) := by have := Nat.div_add_mod x p; omega
    rw [h2]; exact Nat.mul_mod_right _ _

end SquidModel.Acl.Ip
