/-
Order theory of domain values: every non-empty value denotes a half-open interval `[lo, hi)` of host keys;
`Acl::SplayInserter<char*>::Compare` orders well-formed values by these intervals and reports 0 exactly for overlapping
ones; overlapping intervals are nested and `IsSubset` tells the direction; interval membership is the textual
"equal, or ends with `.domain`" relation.
-/
import SquidModel.Acl.DomainKey

namespace SquidModel.Acl.Domain

/-! ### closed forms of the interval ends -/

/-- "the root of X" (comment in Compare): the value without its leading dot -/
def root (d : Bytes) : Bytes := if startsWithDot d then d.tail else d

theorem endKey_false (e : Nat) (l : List UInt8) : endKey false e l = l.map rank ++ [e] := by
  match l with
  | [] => simp [endKey]
  | [c] => simp [endKey]
  | c :: c2 :: r => simp [endKey, endKey_false e (c2 :: r)]

theorem endKey_true_snoc (e : Nat) (l : List UInt8) (c : UInt8) : endKey true e (l ++ [c]) = l.map rank ++ [e] := by
  match l with
  | [] => simp [endKey]
  | [c1] => simp [endKey]
  | c1 :: c2 :: r =>
    have := endKey_true_snoc e (c2 :: r) c
    simp only [List.cons_append] at this ⊢
    simp [endKey, this]

theorem lo_eq (d : Bytes) : lo d = rkey (root d) ++ [0] := by
  unfold lo root rkey
  cases d with
  | nil => simp [startsWithDot, endKey]
  | cons c r =>
    by_cases h : startsWithDot (c :: r) = true
    · simp only [h, if_true, List.tail_cons, List.reverse_cons]
      exact endKey_true_snoc 0 r.reverse c
    · have h' : startsWithDot (c :: r) = false := by simpa using h
      simp only [h', Bool.false_eq_true, if_false]
      exact endKey_false 0 _

theorem hi_eq (d : Bytes) : hi d = rkey (root d) ++ [if startsWithDot d then 2 else 1] := by
  unfold hi root rkey
  cases d with
  | nil => simp [startsWithDot, endKey]
  | cons c r =>
    by_cases h : startsWithDot (c :: r) = true
    · simp only [h, if_true, List.tail_cons, List.reverse_cons]
      exact endKey_true_snoc 2 r.reverse c
    · have h' : startsWithDot (c :: r) = false := by simpa using h
      simp only [h', Bool.false_eq_true, if_false]
      exact endKey_false 1 _

/-! ### a few facts about the lexicographic order on keys -/

theorem klt_of_lt_of_nlt {a b c : List Nat} (h1 : a < b) (h2 : ¬ c < b) : a < c := by
  rcases List.le_iff_lt_or_eq.mp (List.not_lt.mp h2) with h | h
  · exact List.lt_trans h1 h
  · exact h ▸ h1

theorem klt_of_nlt_of_lt {a b c : List Nat} (h1 : ¬ b < a) (h2 : b < c) : a < c :=
  List.lt_of_le_of_lt (List.not_lt.mp h1) h2

theorem knlt_trans {a b c : List Nat} (h1 : ¬ b < a) (h2 : ¬ c < b) : ¬ c < a :=
  List.not_lt.mpr (List.le_trans (List.not_lt.mp h1) (List.not_lt.mp h2))

theorem append_lt_append_left_iff (p x y : List Nat) : p ++ x < p ++ y ↔ x < y := by
  induction p with
  | nil => simp
  | cons a p ih => simp [List.cons_lt_cons_iff, ih]

theorem lo_lt_hi (d : Bytes) : lo d < hi d := by
  rw [lo_eq, hi_eq, append_lt_append_left_iff]
  split <;> simp [List.cons_lt_cons_iff]

/-- every element of a name key is a character rank: 1 (the dot) or at least 3 -/
def RankList (k : List Nat) : Prop := ∀ x ∈ k, x = 1 ∨ 3 ≤ x

theorem rkey_rankList (s : Bytes) : RankList (rkey s) := by
  intro x hx
  simp only [rkey, List.mem_map, List.mem_reverse] at hx
  obtain ⟨c, _, rfl⟩ := hx
  rcases rank_cases c with ⟨_, h⟩ | ⟨_, h⟩
  · exact Or.inl h
  · exact Or.inr h

/-- **Interval membership.**  A name key `k` (terminated by 0) lies in `[r ++ [0], r ++ [e])` iff `k = r`, or the
interval is a `.domain` one (`e = 2`) and `k` continues `r` with a dot. -/
theorem mem_interval_iff (e : Nat) (he : e = 1 ∨ e = 2) :
    ∀ (r k : List Nat), RankList r → RankList k →
      ((¬ k ++ [0] < r ++ [0] ∧ k ++ [0] < r ++ [e]) ↔ (k = r ∨ (e = 2 ∧ ∃ t, k = r ++ 1 :: t))) := by
  intro r
  induction r with
  | nil =>
    intro k _ hk
    cases k with
    | nil => rcases he with rfl | rfl <;> simp <;> decide
    | cons x k =>
      have hx := hk x (by simp)
      simp only [List.nil_append, List.cons_append, List.cons_lt_cons_iff, List.not_lt_nil, and_false, or_false]
      constructor
      · rintro ⟨_, h⟩
        right
        refine ⟨by omega, k, ?_⟩
        have : x = 1 := by omega
        rw [this]
      · rintro (h | ⟨h2, t, ht⟩)
        · exact absurd h (by simp)
        · simp only [List.cons.injEq] at ht
          omega
  | cons a r ih =>
    intro k hr hk
    have ha := hr a (by simp)
    have hr' : RankList r := fun y hy => hr y (by simp [hy])
    cases k with
    | nil =>
      simp only [List.nil_append, List.cons_append, List.cons_lt_cons_iff]
      constructor
      · rintro ⟨h1, h2⟩
        exfalso
        apply h1; left
        omega
      · rintro (h | ⟨_, t, ht⟩)
        · exact absurd h (by simp)
        · exact absurd ht (by simp)
    | cons x k =>
      have hk' : RankList k := fun y hy => hk y (by simp [hy])
      simp only [List.cons_append, List.cons_lt_cons_iff]
      by_cases hxa : x = a
      · subst hxa
        have := ih k hr' hk'
        simp only [Nat.lt_irrefl, false_or, true_and, List.cons.injEq]
        rw [this]
      · constructor
        · rintro ⟨h1, h2⟩
          exfalso
          rcases h2 with h2 | ⟨h2, _⟩
          · apply h1; left
            -- x < a and ¬ (x < a ∨ ...) contradiction
            exact h2
          · exact hxa h2
        · rintro (h | ⟨_, t, ht⟩)
          · simp only [List.cons.injEq] at h; exact absurd h.1 hxa
          · simp only [List.cons.injEq] at ht; exact absurd ht.1 hxa


/-! ### position of a key relative to a value -/

/-- the key lies in the value's interval -/
def In (k : List Nat) (v : Bytes) : Prop := ¬ k < lo v ∧ k < hi v

theorem pos_neg_iff (k : List Nat) (v : Bytes) : pos k v < 0 ↔ k < lo v := by
  unfold pos pos3
  by_cases h1 : k < lo v
  · simp [h1]
  · by_cases h2 : k < hi v <;> simp [h1, h2]

theorem pos_zero_iff (k : List Nat) (v : Bytes) : pos k v = 0 ↔ In k v := by
  unfold pos pos3 In
  by_cases h1 : k < lo v
  · simp [h1]
  · by_cases h2 : k < hi v <;> simp [h1, h2]

theorem pos_pos_iff (k : List Nat) (v : Bytes) : pos k v > 0 ↔ ¬ k < hi v := by
  unfold pos pos3
  by_cases h1 : k < lo v
  · have : k < hi v := List.lt_trans h1 (lo_lt_hi v)
    simp [h1, this]
  · by_cases h2 : k < hi v <;> simp [h1, h2]

theorem int_neg_iff_sign (x p : Int) (h : Int.sign x = p) : (x < 0 ↔ p < 0) ∧ (x = 0 ↔ p = 0) ∧ (x > 0 ↔ p > 0) := by
  subst h
  refine ⟨?_, ?_, ?_⟩
  · constructor
    · intro hx; rw [Int.sign_eq_neg_one_of_neg hx]; decide
    · intro hs
      rcases Int.lt_trichotomy x 0 with h | h | h
      · exact h
      · subst h; simp at hs
      · rw [Int.sign_eq_one_of_pos h] at hs; simp at hs
  · exact Int.sign_eq_zero_iff_zero.symm
  · constructor
    · intro hx; rw [Int.sign_eq_one_of_pos hx]; decide
    · intro hs
      rcases Int.lt_trichotomy x 0 with h | h | h
      · rw [Int.sign_eq_neg_one_of_neg h] at hs; simp at hs
      · subst h; simp at hs
      · exact h

theorem mdn_neg_iff (h d : Bytes) (hd : d ≠ []) : mdn mdnNone h d < 0 ↔ hostKey h < lo d :=
  (int_neg_iff_sign _ _ (mdn_sign h d hd)).1.trans (pos_neg_iff _ _)

theorem mdn_zero_iff (h d : Bytes) (hd : d ≠ []) : mdn mdnNone h d = 0 ↔ In (hostKey h) d :=
  (int_neg_iff_sign _ _ (mdn_sign h d hd)).2.1.trans (pos_zero_iff _ _)

theorem mdn_pos_iff (h d : Bytes) (hd : d ≠ []) : mdn mdnNone h d > 0 ↔ ¬ hostKey h < hi d :=
  (int_neg_iff_sign _ _ (mdn_sign h d hd)).2.2.trans (pos_pos_iff _ _)

/-! ### well-formed values -/

/-- a configured value the duplicate logic is designed for: after at most one leading dot comes a non-empty name that does
not itself begin with a dot (so: not `.` and not `..x`) -/
def Valid (v : Bytes) : Prop := root v ≠ [] ∧ startsWithDot (root v) = false

theorem Valid.ne_nil {v : Bytes} (h : Valid v) : v ≠ [] := by
  intro h0; subst h0; exact h.1 (by simp [root, startsWithDot])

theorem stripDots_of_not_dot (s : Bytes) (h : startsWithDot s = false) : stripDots s = s := by
  cases s with
  | nil => rfl
  | cons c r =>
    have : c ≠ DOT := by simpa [startsWithDot] using h
    simp [stripDots, this]

theorem stripDots_valid {v : Bytes} (h : Valid v) : stripDots v = root v := by
  cases v with
  | nil => exact absurd rfl h.ne_nil
  | cons c r =>
    by_cases hc : c = DOT
    · subst hc
      have hr : root (DOT :: r) = r := by simp [root, startsWithDot]
      have h2 : startsWithDot r = false := by have := h.2; rwa [hr] at this
      rw [hr]
      simp only [stripDots, if_true]
      exact stripDots_of_not_dot r h2
    · have hr : root (c :: r) = c :: r := by simp [root, startsWithDot, hc]
      rw [hr]
      exact stripDots_of_not_dot _ (by simp [startsWithDot, hc])

/-- used as a host (in `Compare`), a well-formed value is represented by the lower end of its own interval -/
theorem hostKey_valid {v : Bytes} (h : Valid v) : hostKey v = lo v := by
  unfold hostKey
  rw [stripDots_valid h, lo_eq]
  have : (root v).isEmpty = false := by
    cases hr : root v with
    | nil => exact absurd hr h.1
    | cons _ _ => rfl
  simp [this]

/-! ### `Compare` orders well-formed values by their intervals -/

theorem compare_neg_iff {a b : Bytes} (ha : Valid a) (hb : Valid b) : compare a b < 0 ↔ ¬ lo b < hi a := by
  unfold compare
  have h1 := mdn_zero_iff b a ha.ne_nil
  have h2 := mdn_neg_iff a b hb.ne_nil
  rw [hostKey_valid hb] at h1
  rw [hostKey_valid ha] at h2
  constructor
  · intro h
    by_cases hz : mdn mdnNone b a ≠ 0
    · rw [if_pos hz] at h
      have hlt : lo a < lo b := h2.mp h
      intro hc
      exact hz (h1.mpr ⟨List.lt_asymm hlt, hc⟩)
    · rw [if_neg hz] at h; omega
  · intro h
    have hz : mdn mdnNone b a ≠ 0 := fun hz => h (h1.mp hz).2
    rw [if_pos hz]
    exact h2.mpr (klt_of_lt_of_nlt (lo_lt_hi a) h)

theorem compare_pos_iff {a b : Bytes} (ha : Valid a) (hb : Valid b) : compare a b > 0 ↔ ¬ lo a < hi b := by
  unfold compare
  have h1 := mdn_zero_iff b a ha.ne_nil
  have h2 := mdn_pos_iff a b hb.ne_nil
  rw [hostKey_valid hb] at h1
  rw [hostKey_valid ha] at h2
  constructor
  · intro h
    by_cases hz : mdn mdnNone b a ≠ 0
    · rw [if_pos hz] at h
      exact h2.mp h
    · rw [if_neg hz] at h; omega
  · intro h
    have hlt : lo b < lo a := klt_of_lt_of_nlt (lo_lt_hi b) h
    have hz : mdn mdnNone b a ≠ 0 := fun hz => (h1.mp hz).1 hlt
    rw [if_pos hz]
    exact h2.mpr h

/-- `Compare` reports 0 exactly for overlapping intervals -/
theorem compare_zero_iff {a b : Bytes} (ha : Valid a) (hb : Valid b) : compare a b = 0 ↔ (lo b < hi a ∧ lo a < hi b) := by
  have h1 := compare_neg_iff ha hb
  have h2 := compare_pos_iff ha hb
  constructor
  · intro h
    constructor
    · apply Classical.byContradiction; intro hc
      have := h1.mpr hc; omega
    · apply Classical.byContradiction; intro hc
      have := h2.mpr hc; omega
  · intro ⟨h3, h4⟩
    rcases Int.lt_trichotomy (compare a b) 0 with h | h | h
    · exact absurd h3 (h1.mp h)
    · exact h
    · exact absurd h4 (h2.mp h)

/-- `a` lies entirely in front of `b` -/
def Before (a b : Bytes) : Prop := ¬ lo b < hi a

theorem Before.trans_lo {a b : Bytes} (h : Before a b) : lo a < lo b := klt_of_lt_of_nlt (lo_lt_hi a) h

theorem compare_self {a : Bytes} (ha : Valid a) : compare a a = 0 :=
  (compare_zero_iff ha ha).mpr ⟨lo_lt_hi a, lo_lt_hi a⟩


/-! ### all values the duplicate logic copes with: well-formed ones and the single dot -/

/-- a configured value that does not begin with two dots (and is not empty) -/
def Wf (v : Bytes) : Prop := v ≠ [] ∧ multiDot v = false

theorem Valid.wf {v : Bytes} (h : Valid v) : Wf v := by
  refine ⟨h.ne_nil, ?_⟩
  match v with
  | [] => rfl
  | [_] => rfl
  | a :: b :: r =>
    by_cases ha : a = DOT
    · by_cases hb : b = DOT
      · subst ha; subst hb
        have := h.2
        simp [root, startsWithDot] at this
      · simp [multiDot, hb]
    · simp [multiDot, ha]

theorem wf_cases {v : Bytes} (h : Wf v) : Valid v ∨ v = [DOT] := by
  obtain ⟨hne, hmd⟩ := h
  match v with
  | [] => exact absurd rfl hne
  | [a] =>
    by_cases ha : a = DOT
    · right; rw [ha]
    · left; simp [Valid, root, startsWithDot, ha]
  | a :: b :: r =>
    left
    by_cases ha : a = DOT
    · have hb : b ≠ DOT := by
        intro hb; simp [multiDot, ha, hb] at hmd
      subst ha
      simp [Valid, root, startsWithDot, hb]
    · simp [Valid, root, startsWithDot, ha]

theorem not_valid_dot : ¬ Valid [DOT] := by
  intro h; exact h.1 (by simp [root, startsWithDot])

theorem lo_dot : lo [DOT] = [0] := by decide
theorem hi_dot : hi [DOT] = [2] := by decide
theorem hostKey_dot : hostKey [DOT] = [] := by decide

theorem mdn_dot_host (x : Bytes) : mdn mdnNone [DOT] x = -1 := by
  simp [mdn, stripDots]

/-- nothing but the empty key lies below `[0]` -/
theorem not_lo_lt_zero (v : Bytes) : ¬ lo v < [0] := by
  rw [lo_eq]
  cases rkey (root v) with
  | nil => simp
  | cons a l => simp [List.cons_lt_cons_iff]

theorem zero_lt_hi (v : Bytes) : ([0] : List Nat) < hi v :=
  klt_of_nlt_of_lt (not_lo_lt_zero v) (lo_lt_hi v)

theorem compare_neg_iff' {a b : Bytes} (ha : Wf a) (hb : Wf b) :
    compare a b < 0 ↔ (¬ lo b < hi a ∨ (a = [DOT] ∧ b = [DOT])) := by
  rcases wf_cases ha with va | rfl <;> rcases wf_cases hb with vb | rfl
  · rw [compare_neg_iff va vb]
    constructor
    · exact Or.inl
    · rintro (h | ⟨h, _⟩)
      · exact h
      · subst h; exact absurd va not_valid_dot
  · -- b is the dot: Compare(a, .) = matchDomainName(a, .) ≥ 0
    have h1 : compare a [DOT] = mdn mdnNone a [DOT] := by simp [compare, mdn_dot_host]
    rw [h1, mdn_neg_iff a [DOT] (by simp), hostKey_valid va, lo_dot]
    constructor
    · intro h; exact absurd h (not_lo_lt_zero a)
    · rintro (h | ⟨h, _⟩)
      · exact absurd (zero_lt_hi a) h
      · subst h; exact absurd va not_valid_dot
  · -- a is the dot: Compare(., b) is -1 unless b lies inside the dot's set
    have h0 := mdn_zero_iff b [DOT] (by simp)
    rw [hostKey_valid vb] at h0
    simp only [compare, mdn_dot_host]
    constructor
    · intro h
      by_cases hz : mdn mdnNone b [DOT] ≠ 0
      · left; intro hc
        exact hz (h0.mpr ⟨by rw [lo_dot]; exact not_lo_lt_zero b, hc⟩)
      · rw [if_neg hz] at h; omega
    · rintro (h | ⟨_, h⟩)
      · have hz : mdn mdnNone b [DOT] ≠ 0 := fun hz => h (h0.mp hz).2
        rw [if_pos hz]; decide
      · subst h; exact absurd vb not_valid_dot
  · simp [compare, mdn_dot_host]

theorem compare_pos_iff' {a b : Bytes} (ha : Wf a) (hb : Wf b) : compare a b > 0 ↔ ¬ lo a < hi b := by
  rcases wf_cases ha with va | rfl <;> rcases wf_cases hb with vb | rfl
  · exact compare_pos_iff va vb
  · have h1 : compare a [DOT] = mdn mdnNone a [DOT] := by simp [compare, mdn_dot_host]
    rw [h1, mdn_pos_iff a [DOT] (by simp), hostKey_valid va]
  · simp only [compare, mdn_dot_host]
    constructor
    · intro h; split at h <;> omega
    · intro h; rw [lo_dot] at h; exact absurd (zero_lt_hi b) h
  · simp only [compare, mdn_dot_host]
    constructor
    · intro h; simp at h
    · intro h; rw [lo_dot, hi_dot] at h; exact absurd (by decide) h

theorem compare_zero_iff' {a b : Bytes} (ha : Wf a) (hb : Wf b) :
    compare a b = 0 ↔ ((lo b < hi a ∧ lo a < hi b) ∧ ¬ (a = [DOT] ∧ b = [DOT])) := by
  have h1 := compare_neg_iff' ha hb
  have h2 := compare_pos_iff' ha hb
  constructor
  · intro h
    refine ⟨⟨?_, ?_⟩, ?_⟩
    · apply Classical.byContradiction; intro hc
      have := h1.mpr (Or.inl hc); omega
    · apply Classical.byContradiction; intro hc
      have := h2.mpr hc; omega
    · intro hc
      have := h1.mpr (Or.inr hc); omega
  · intro ⟨⟨h3, h4⟩, h5⟩
    rcases Int.lt_trichotomy (compare a b) 0 with h | h | h
    · rcases h1.mp h with h | h
      · exact absurd h3 h
      · exact absurd h h5
    · exact h
    · exact absurd h4 (h2.mp h)

end SquidModel.Acl.Domain
