/-
Domain-name ACLs (dstdomain and friends), modelled branch by branch:

* `matchDomainName`               src/anyp/Uri.cc            → `mdn` (`mdnLoop` is the `while` loop, run from the string ends)
* `Acl::SplayInserter<char*>::Compare / IsSubset / MakeCombinedValue`   src/acl/DomainData.cc → `compare`, `isSubset`, outcome `assure`
* `Acl::SplayInserter<V>::Merge`  src/acl/SplayInserter.h    → `mergeLoop` / `merge`
* `ACLDomainData::parse / match`  src/acl/DomainData.cc      → `parse` / `matchHost`
* the splay tree itself           include/splay.h            → `SquidModel.Acl.Tree` (Acl/DomainTree.lean)

C strings are byte lists without NUL.  Indices that run from the end of the strings (`h[--hl]`, `d[--dl]`) are modelled by
walking the reversed lists: in `mdnLoop` the heads `hc`, `dc` are `h[hl]`, `d[dl]`, the tails are the characters still in
front of them, `prev` is `h[hl+1]` (NUL at the start), `d0` is `d[0]`.  `xtolower` is the table dumped from the running
code (Gen/DomainFold.lean).  Core Lean only.
-/
import SquidModel.Base.Bytes
import SquidModel.Gen.DomainFold
import SquidModel.Acl.DomainTree

namespace SquidModel.Acl.Domain
open SquidModel.Acl

/-- `'.'` -/
abbrev DOT : UInt8 := 46

/-- `xtolower` -/
def lower (c : UInt8) : UInt8 := Gen.DomainFold.tolowerTable.getD c.toNat c

/-- `Tolower(char *)` (lib/util.cc) -/
def fold (s : Bytes) : Bytes := s.map lower

/-- `enum MatchDomainNameFlags` -/
structure Flags where
  honorWildcards : Bool := false
  rejectSubsub : Bool := false
  deriving DecidableEq, Repr

def mdnNone : Flags := {}

/-- `while ('.' == *h) ++h;` -/
def stripDots : Bytes → Bytes
  | [] => []
  | c :: r => if c = DOT then stripDots r else c :: r

/-- `*s == '.'` for a C string -/
def startsWithDot (s : Bytes) : Bool :=
  match s with
  | [] => false
  | c :: _ => c = DOT

/-- the `while (xtolower(h[--hl]) == xtolower(d[--dl]))` loop of matchDomainName and the code after it -/
def mdnLoop (fl : Flags) (hostIncludesSubdomains : Bool) (d0 : UInt8) : UInt8 → List UInt8 → List UInt8 → Int
  | _, [], _ => 0                  -- not reachable: hl > 0 on entry, and the body returns when hl reaches 0
  | _, _ :: _, [] => 0             -- not reachable: dl > 0 on entry, and the body returns when dl reaches 0
  | prev, hc :: hr, dc :: dr =>
    if lower hc = lower dc then
      if hr.isEmpty && dr.isEmpty then 0                                  -- hl == 0 && dl == 0
      else if hr.isEmpty then                                             -- 0 == hl: host shorter than domain
        (if dr.length = 1 ∧ d0 = DOT then 0 else -1)
      else if dr.isEmpty then                                             -- 0 == dl: domain shorter than host
        if d0 = DOT then
          if fl.rejectSubsub then
            -- while(--hl >= 0 && h[hl] != '.'); if (hl < 0) return hostIncludesSubdomains ? 1 : 0; else return 1;
            (if hr.contains DOT then 1 else if hostIncludesSubdomains then 1 else 0)
          else 0
        else 1
      else mdnLoop fl hostIncludesSubdomains d0 hc hr dr
    else
      -- different characters in the same position (from the end)
      if fl.honorWildcards && hc = 42 && prev = DOT then 0                -- h[hl] == '*' && h[hl + 1] == '.'
      else if dc = DOT then 1
      else if hc = DOT then -1
      else ((lower hc).toNat : Int) - ((lower dc).toNat : Int)

/-- `matchDomainName(h, d, flags)` -/
def mdn (fl : Flags) (h d : Bytes) : Int :=
  let h' := stripDots h
  if h'.isEmpty then -1                      -- hl == 0
  else if d.isEmpty then 1                   -- dl == 0
  else mdnLoop fl (startsWithDot h) (d.headD 0) 0 h'.reverse d.reverse

/-- `aclHostDomainCompare` -/
def hostCompare (host : Bytes) (value : Bytes) : Int := mdn mdnNone host value

/-- `Acl::SplayInserter<char*>::Compare(a, b)` -/
def compare (a b : Bytes) : Int :=
  if mdn mdnNone b a ≠ 0 then mdn mdnNone a b else 0

/-- `Acl::SplayInserter<char*>::IsSubset(a, b)` -/
def isSubset (a b : Bytes) : Bool :=
  if startsWithDot a && startsWithDot b then decide (a.length ≥ b.length)
  else if !startsWithDot a && !startsWithDot b then true
  else startsWithDot b

/-- the WARNING lines of Merge -/
inductive Event where
  | ignoredNew (new old : Bytes)       -- "Ignoring <new> because it is already covered by <old>"
  | ignoredOld (old new : Bytes)       -- "Ignoring earlier <old> because it is covered by <new>"
  deriving DecidableEq, Repr

inductive Outcome where
  | ok (t : Tree Bytes) (events : List Event)
  /-- `MakeCombinedValue`: `Assure(!"domain name sets cannot partially overlap")` throws -/
  | assure
  /-- `storage.remove(oldItem)` did not find `oldItem`, `DestroyValue(oldItem)` freed a string the tree still points to:
      the next comparison reads freed memory (undefined behaviour; in practice the loop never ends) -/
  | dangling
  /-- `ACLDomainData::parse` refuses the value (only in trees that check for two leading dots: `Gen.DomainFold.rejectsMultiDot`) -/
  | rejected
  /-- model artefact: loop budget exhausted (shown unreachable for admitted values: every `continue` follows a successful removal) -/
  | fuel
  deriving DecidableEq, Repr

/-- the `while (storage.insert(newItem, comparator))` loop of `Acl::SplayInserter<char*>::Merge` -/
def mergeLoop : Nat → Tree Bytes → Bytes → List Event → Outcome
  | 0, _, _, _ => .fuel
  | n + 1, t, new, ev =>
    match Tree.insert (compare new) new t with
    | (t', none) => .ok t' ev
    | (t', some old) =>
      if isSubset new old then .ok t' (ev ++ [.ignoredNew new old])
      else if isSubset old new then
        match Tree.remove (compare old) t' with
        | (t'', true) => mergeLoop n t'' new (ev ++ [.ignoredOld old new])
        | (_, false) => .dangling
      else .assure

/-- `Merge(storage, newItem)`; `size + 1` rounds are enough (`mergeLoop_spec`, `C41.parse_ok`: the outcome is never `fuel` for admitted values) -/
def merge (t : Tree Bytes) (new : Bytes) (ev : List Event) : Outcome :=
  mergeLoop (t.size + 1) t new ev

/-- `t[0] == '.' && t[1] == '.'` -/
def multiDot : Bytes → Bool
  | a :: b :: _ => a = DOT && b = DOT
  | _ => false

/-- `ACLDomainData::parse`: `while (char *t = strtokFile()) { Tolower(t); Merge(domains, xstrdup(t)); }`
(a tree carrying the candidate fix first throws on a value that begins with two dots; whether the staged tree does is probed
by running it: `Gen.DomainFold.rejectsMultiDot`) -/
def parseFrom : List Bytes → Tree Bytes → List Event → Outcome
  | [], t, ev => .ok t ev
  | tok :: rest, t, ev =>
    if Gen.DomainFold.rejectsMultiDot && multiDot (fold tok) then .rejected
    else
      match merge t (fold tok) ev with
      | .ok t' ev' => parseFrom rest t' ev'
      | other => other

def parse (tokens : List Bytes) : Outcome := parseFrom tokens .nil []

/-- `ACLDomainData::match(host)` (host non-null): the splayed tree and the verdict -/
def matchHost (t : Tree Bytes) (host : Bytes) : Tree Bytes × Bool :=
  let r := Tree.find (hostCompare host) t
  (r.1, r.2.isSome)

/-- a sequence of lookups, as the harness performs them -/
def matchAll : Tree Bytes → List Bytes → List Bool → Tree Bytes × List Bool
  | t, [], acc => (t, acc.reverse)
  | t, h :: hs, acc =>
    let r := matchHost t h
    matchAll r.1 hs (r.2 :: acc)

/-- one harness line: configure the values, then ask for every host in turn (`none` = parse did not end normally) -/
def verdicts (values hosts : List Bytes) : Option (List Bool) :=
  match parse values with
  | .ok t _ => some (matchAll t hosts []).2
  | _ => none

/-- the stored values, left to right, after configuring `values` -/
def stored (values : List Bytes) : Option (List Bytes) :=
  match parse values with
  | .ok t _ => some t.inorder
  | _ => none

end SquidModel.Acl.Domain
