/-
`Acl::SplayInserter<char*>::Merge`, `ACLDomainData::parse` and `ACLDomainData::match` on well-formed values:
the tree always holds pairwise disjoint intervals in increasing order whose union is the union of the configured
values' intervals; Merge never reaches MakeCombinedValue, never removes a value it cannot find, and terminates;
lookups find a value iff the host key lies in some stored interval.
-/
import SquidModel.Acl.DomainSets
import SquidModel.Acl.DomainTreeLemmas

namespace SquidModel.Acl.Domain
open SquidModel.Acl SquidModel.Acl.Tree

/-- `a` is stored in front of `b`: its interval ends before b's begins — or both are the single dot, which `Compare` does not
recognise as a duplicate of itself (`matchDomainName(".", x)` sees an empty host): repeated `.` values are all stored -/
def Before' (a b : Bytes) : Prop := Before a b ∨ (a = [DOT] ∧ b = [DOT])

/-- the stored values do not begin with two dots and lie one after the other (hence are pairwise disjoint, except for
repetitions of the single dot) -/
def Sorted (xs : List Bytes) : Prop := xs.Pairwise Before' ∧ ∀ x ∈ xs, Wf x

theorem Sorted.sublist {xs ys : List Bytes} (h : Sorted ys) (hs : xs.Sublist ys) : Sorted xs :=
  ⟨h.1.sublist hs, fun x hx => h.2 x (hs.subset hx)⟩

theorem pairwise_mem_cases {α : Type} {R : α → α → Prop} {l : List α} (h : l.Pairwise R) {a b : α}
    (ha : a ∈ l) (hb : b ∈ l) : a = b ∨ R a b ∨ R b a := by
  induction l with
  | nil => simp at ha
  | cons x l ih =>
    have hp := List.pairwise_cons.mp h
    simp only [List.mem_cons] at ha hb
    rcases ha with rfl | ha <;> rcases hb with rfl | hb
    · exact Or.inl rfl
    · exact Or.inr (Or.inl (hp.1 b hb))
    · exact Or.inr (Or.inr (hp.1 a ha))
    · exact ih hp.2 ha hb

/-- in a sorted store a value overlaps no stored value but itself -/
theorem Sorted.overlap_eq {xs : List Bytes} (h : Sorted xs) {a b : Bytes} (ha : a ∈ xs) (hb : b ∈ xs)
    (hov : lo b < hi a ∧ lo a < hi b) : a = b := by
  rcases pairwise_mem_cases h.1 ha hb with h1 | h1 | h1
  · exact h1
  · rcases h1 with h1 | ⟨h1, h2⟩
    · exact absurd hov.1 h1
    · rw [h1, h2]
  · rcases h1 with h1 | ⟨h1, h2⟩
    · exact absurd hov.2 h1
    · rw [h1, h2]

theorem size_eq_length {α : Type} (t : Tree α) : t.size = (inorder t).length := by
  induction t with
  | nil => rfl
  | node l v r ihl ihr => simp [size, inorder, ihl, ihr]; omega

/-! ### the comparison callbacks are monotone along a sorted store -/

theorem mono_compare {xs : List Bytes} (h : Sorted xs) {x : Bytes} (hx : Wf x) : Mono (compare x) xs := by
  refine List.Pairwise.imp_of_mem ?_ h.1
  intro a b ha hb hab
  have va := h.2 a ha
  have vb := h.2 b hb
  rcases hab with hab | ⟨rfl, rfl⟩
  · constructor
    · intro h1
      rw [compare_neg_iff' hx vb]
      rcases (compare_neg_iff' hx va).mp h1 with h1 | ⟨rfl, rfl⟩
      · left; intro hc
        exact h1 (List.lt_trans hab.trans_lo hc)
      · left; exact hab
    · intro h1
      rw [gt_iff_lt, ← gt_iff_lt, compare_pos_iff' hx vb] at h1
      rw [gt_iff_lt, ← gt_iff_lt, compare_pos_iff' hx va]
      intro hc
      exact h1 (List.lt_trans (klt_of_lt_of_nlt hc hab) (lo_lt_hi b))
  · exact ⟨id, id⟩

theorem mono_host {xs : List Bytes} (h : Sorted xs) (host : Bytes) : Mono (hostCompare host) xs := by
  refine List.Pairwise.imp_of_mem ?_ h.1
  intro a b ha hb hab
  have va := (h.2 a ha).1
  have vb := (h.2 b hb).1
  rcases hab with hab | ⟨rfl, rfl⟩
  · unfold hostCompare
    constructor
    · intro h1
      rw [mdn_neg_iff _ _ va] at h1
      rw [mdn_neg_iff _ _ vb]
      exact List.lt_trans h1 hab.trans_lo
    · intro h1
      rw [gt_iff_lt, ← gt_iff_lt, mdn_pos_iff _ _ vb] at h1
      rw [gt_iff_lt, ← gt_iff_lt, mdn_pos_iff _ _ va]
      intro hc
      exact h1 (List.lt_trans (klt_of_lt_of_nlt hc hab) (lo_lt_hi b))
  · exact ⟨id, id⟩

/-- what `remove` needs: in front of the value to be removed everything compares greater -/
theorem remove_pairwise {xs : List Bytes} (h : Sorted xs) {old : Bytes} (ho : old ∈ xs) :
    xs.Pairwise (fun a v => compare old v = 0 → compare old a > 0) := by
  refine List.Pairwise.imp_of_mem ?_ h.1
  intro a v ha hv hav h0
  have vo := h.2 old ho
  have hov := (compare_zero_iff' vo (h.2 v hv)).mp h0
  have : old = v := h.overlap_eq ho hv hov.1
  subst this
  rcases hav with hav | ⟨_, h2⟩
  · exact (compare_pos_iff' vo (h.2 a ha)).mpr hav
  · exact absurd ⟨h2, h2⟩ hov.2

/-! ### interval containment -/

theorem In.mono {k : List Nat} {a b : Bytes} (h : In k a) (h1 : ¬ lo a < lo b) (h2 : ¬ hi b < hi a) : In k b :=
  ⟨knlt_trans h1 h.1, klt_of_lt_of_nlt h.2 h2⟩

/-! ### Merge -/

/-- a value whose interval starts at `[0]` is the single dot (or empty) -/
theorem eq_dot_of_lo {v : Bytes} (hv : Wf v) (h : lo v = [0]) : v = [DOT] := by
  rcases wf_cases hv with vv | rfl
  · exfalso
    rw [lo_eq] at h
    have hr : rkey (root v) = [] := by
      cases hk : rkey (root v) with
      | nil => rfl
      | cons a l => rw [hk] at h; simp at h
    have : root v = [] := by simpa [rkey] using hr
    exact vv.1 this
  · rfl

theorem mergeLoop_spec (P : List Nat → Prop) :
    ∀ (fuel : Nat) (t : Tree Bytes) (new : Bytes) (ev : List Event), Wf new → Sorted (inorder t) → t.size < fuel →
      (∀ k, ((∃ s ∈ inorder t, In k s) ∨ In k new) ↔ P k) →
      ∃ t' ev', mergeLoop fuel t new ev = .ok t' ev' ∧ Sorted (inorder t') ∧ (∀ k, (∃ s ∈ inorder t', In k s) ↔ P k) := by
  intro fuel
  induction fuel with
  | zero => intro t new ev _ _ h; omega
  | succ n ih =>
    intro t new ev hnew hs hsize hP
    rw [mergeLoop]
    rcases insert_spec (compare new) new t (mono_compare hs hnew) with
      ⟨t', old, hins, hin, hold, h0⟩ | ⟨t', A, B, hins, hAB, hin, hA, hB⟩
    · -- a stored value overlaps the new one
      rw [hins]
      have vold := hs.2 old hold
      have hov := (compare_zero_iff' hnew vold).mp h0
      rcases subset_spec hnew.1 vold.1 hov.1 with ⟨hsub, hb1, hb2⟩ | ⟨hsub, hsub2, hb1, hb2⟩
      · -- the new value is covered already
        simp only [hsub, if_true]
        refine ⟨t', _, rfl, by rw [hin]; exact hs, ?_⟩
        intro k
        rw [hin, ← hP k]
        constructor
        · intro h; exact Or.inl h
        · rintro (h | h)
          · exact h
          · exact ⟨old, hold, h.mono hb1 hb2⟩
      · -- the stored value is covered by the new one: remove it and try again
        simp only [hsub, hsub2, Bool.false_eq_true, if_false, if_true]
        have hs' : Sorted (inorder t') := by rw [hin]; exact hs
        have hold' : old ∈ inorder t' := by rw [hin]; exact hold
        -- the stored value is not the single dot (nothing but the dot itself covers it, and two dots do not compare equal)
        have hnd : old ≠ [DOT] := by
          intro hd
          subst hd
          rw [lo_dot] at hb1
          have hle : lo new = [0] :=
            List.le_antisymm (List.not_lt.mp hb1) (List.not_lt.mp (not_lo_lt_zero new))
          exact hov.2 ⟨eq_dot_of_lo hnew hle, rfl⟩
        have vvold : Valid old := by
          rcases wf_cases vold with h | h
          · exact h
          · exact absurd h hnd
        rcases remove_spec (compare old) t' (mono_compare hs' vold) (remove_pairwise hs' hold') with
          ⟨t'', hrem, _, hnz⟩ | ⟨t'', A, v, B, hrem, hAvB, hv0, hin''⟩
        · exact absurd (compare_self vvold) (hnz old hold')
        · rw [hrem]
          have hvmem : v ∈ inorder t' := by rw [hAvB]; simp
          have hv : old = v := hs'.overlap_eq hold' hvmem ((compare_zero_iff' vold (hs'.2 v hvmem)).mp hv0).1
          subst hv
          have hsub' : (A ++ B).Sublist (A ++ old :: B) :=
            List.Sublist.append (List.Sublist.refl A) (List.sublist_cons_self old B)
          apply ih t'' new _ hnew
          · rw [hin'']; exact (hAvB ▸ hs').sublist hsub'
          · have h1 := size_eq_length t''
            have h2 := size_eq_length t
            rw [hin''] at h1
            rw [← hin, hAvB] at h2
            simp at h1 h2; omega
          · intro k
            rw [hin'', ← hP k, ← hin, hAvB]
            constructor
            · rintro (⟨s, hsm, hk⟩ | h)
              · simp only [List.mem_append] at hsm
                rcases hsm with hsm | hsm
                · left; exact ⟨s, by simp [hsm], hk⟩
                · left; exact ⟨s, by simp [hsm], hk⟩
              · exact Or.inr h
            · rintro (⟨s, hsm, hk⟩ | h)
              · simp only [List.mem_append, List.mem_cons] at hsm
                rcases hsm with hsm | rfl | hsm
                · left; exact ⟨s, by simp [hsm], hk⟩
                · right; exact hk.mono hb1 hb2
                · left; exact ⟨s, by simp [hsm], hk⟩
              · exact Or.inr h
    · -- nothing overlaps: the value is linked in between the smaller and the greater ones
      rw [hins]
      refine ⟨t', ev, rfl, ?_, ?_⟩
      · rw [hin]
        rw [hAB] at hs
        have hp := List.pairwise_append.mp hs.1
        have hvA : ∀ a ∈ A, Wf a := fun a ha => hs.2 a (by simp [ha])
        have hvB : ∀ b ∈ B, Wf b := fun b hb => hs.2 b (by simp [hb])
        refine ⟨?_, ?_⟩
        · rw [List.pairwise_append]
          refine ⟨hp.1, ?_, ?_⟩
          · rw [List.pairwise_cons]
            exact ⟨fun b hb => (compare_neg_iff' hnew (hvB b hb)).mp (hB b hb), hp.2.1⟩
          · intro a ha b hb
            simp only [List.mem_cons] at hb
            rcases hb with rfl | hb
            · exact Or.inl ((compare_pos_iff' hnew (hvA a ha)).mp (hA a ha))
            · exact hp.2.2 a ha b hb
        · intro x hx
          simp only [List.mem_append, List.mem_cons] at hx
          rcases hx with hx | rfl | hx
          · exact hvA x hx
          · exact hnew
          · exact hvB x hx
      · intro k
        rw [hin, ← hP k, hAB]
        constructor
        · rintro ⟨s, hsm, hk⟩
          simp only [List.mem_append, List.mem_cons] at hsm
          rcases hsm with hsm | rfl | hsm
          · left; exact ⟨s, by simp [hsm], hk⟩
          · right; exact hk
          · left; exact ⟨s, by simp [hsm], hk⟩
        · rintro (⟨s, hsm, hk⟩ | h)
          · simp only [List.mem_append] at hsm
            rcases hsm with hsm | hsm
            · exact ⟨s, by simp [hsm], hk⟩
            · exact ⟨s, by simp [hsm], hk⟩
          · exact ⟨new, by simp, h⟩

theorem merge_spec (P : List Nat → Prop) (t : Tree Bytes) (new : Bytes) (ev : List Event) (hnew : Wf new)
    (hs : Sorted (inorder t)) (hP : ∀ k, ((∃ s ∈ inorder t, In k s) ∨ In k new) ↔ P k) :
    ∃ t' ev', merge t new ev = .ok t' ev' ∧ Sorted (inorder t') ∧ (∀ k, (∃ s ∈ inorder t', In k s) ↔ P k) :=
  mergeLoop_spec P (t.size + 1) t new ev hnew hs (Nat.lt_succ_self _) hP

/-! ### case folding does not change what a value denotes -/

theorem startsWithDot_fold (s : Bytes) : startsWithDot (fold s) = startsWithDot s := by
  cases s with
  | nil => rfl
  | cons c r =>
    simp only [fold, List.map_cons, startsWithDot]
    by_cases h : c = DOT
    · simp [h, lower_dot]
    · have : lower c ≠ DOT := fun hc => h ((lower_eq_dot_iff c).mp hc)
      simp [h, this]

theorem root_fold (s : Bytes) : root (fold s) = fold (root s) := by
  unfold root
  rw [startsWithDot_fold]
  split
  · simp [fold]
  · rfl

theorem rank_lower (c : UInt8) : rank (lower c) = rank c := by
  unfold rank
  by_cases h : c = DOT
  · simp [h, lower_dot]
  · have : lower c ≠ DOT := fun hc => h ((lower_eq_dot_iff c).mp hc)
    simp [h, this, lower_idem]

theorem rkey_fold (s : Bytes) : rkey (fold s) = rkey s := by
  simp [rkey, fold, List.map_reverse, rank_lower, Function.comp_def]

theorem lo_fold (v : Bytes) : lo (fold v) = lo v := by
  rw [lo_eq, lo_eq, root_fold, rkey_fold]

theorem hi_fold (v : Bytes) : hi (fold v) = hi v := by
  rw [hi_eq, hi_eq, root_fold, rkey_fold, startsWithDot_fold]

theorem in_fold (k : List Nat) (v : Bytes) : In k (fold v) ↔ In k v := by
  unfold In; rw [lo_fold, hi_fold]

theorem valid_fold (v : Bytes) : Valid (fold v) ↔ Valid v := by
  unfold Valid
  rw [root_fold, startsWithDot_fold]
  constructor
  · rintro ⟨h1, h2⟩; exact ⟨fun h => h1 (by simp [h, fold]), h2⟩
  · rintro ⟨h1, h2⟩; exact ⟨fun h => h1 (by simpa [fold] using h), h2⟩

theorem multiDot_fold (v : Bytes) : multiDot (fold v) = multiDot v := by
  match v with
  | [] => rfl
  | [_] => rfl
  | a :: b :: r =>
    have ha := lower_eq_dot_iff a
    have hb := lower_eq_dot_iff b
    simp only [fold, List.map_cons, multiDot]
    by_cases h1 : a = DOT <;> by_cases h2 : b = DOT <;> simp_all

theorem wf_fold (v : Bytes) : Wf (fold v) ↔ Wf v := by
  unfold Wf
  rw [multiDot_fold]
  constructor
  · rintro ⟨h1, h2⟩; exact ⟨fun h => h1 (by simp [h, fold]), h2⟩
  · rintro ⟨h1, h2⟩; exact ⟨fun h => h1 (by simpa [fold] using h), h2⟩

/-! ### parse and match -/

/-- the state of a correctly built domain ACL: disjoint, increasing, well-formed stored values whose intervals cover exactly
what the configured values cover -/
def Holds (vals : List Bytes) (t : Tree Bytes) : Prop :=
  Sorted (inorder t) ∧ ∀ k, (∃ s ∈ inorder t, In k s) ↔ (∃ v ∈ vals, In k v)

theorem parseFrom_spec : ∀ (toks : List Bytes) (t : Tree Bytes) (ev : List Event) (seen : List Bytes),
    (∀ tok ∈ toks, Wf tok) → Holds seen t →
    ∃ t' ev', parseFrom toks t ev = .ok t' ev' ∧ Holds (seen ++ toks) t' := by
  intro toks
  induction toks with
  | nil => intro t ev seen _ h; exact ⟨t, ev, rfl, by simpa using h⟩
  | cons tok rest ih =>
    intro t ev seen hv h
    have hvt : Wf (fold tok) := (wf_fold tok).mpr (hv tok (by simp))
    obtain ⟨t1, ev1, hm, hs1, hc1⟩ := merge_spec (fun k => ∃ v ∈ seen ++ [tok], In k v) t (fold tok) ev hvt h.1 (by
      intro k
      rw [h.2 k, in_fold]
      constructor
      · rintro (⟨v, hvm, hk⟩ | hk)
        · exact ⟨v, by simp [hvm], hk⟩
        · exact ⟨tok, by simp, hk⟩
      · rintro ⟨v, hvm, hk⟩
        simp only [List.mem_append, List.mem_singleton] at hvm
        rcases hvm with hvm | rfl
        · exact Or.inl ⟨v, hvm, hk⟩
        · exact Or.inr hk)
    obtain ⟨t2, ev2, hp, hh⟩ := ih t1 ev1 (seen ++ [tok]) (fun x hx => hv x (by simp [hx])) ⟨hs1, hc1⟩
    refine ⟨t2, ev2, ?_, by simpa using hh⟩
    rw [parseFrom, hvt.2, Bool.and_false]
    simp only [Bool.false_eq_true, if_false, hm]
    exact hp

/-- `ACLDomainData::parse` on well-formed values always succeeds and establishes the invariant. -/
theorem parse_spec (vals : List Bytes) (hv : ∀ v ∈ vals, Wf v) :
    ∃ t ev, parse vals = .ok t ev ∧ Holds vals t := by
  have := parseFrom_spec vals .nil [] [] hv ⟨⟨by simp [inorder], by simp [inorder]⟩, by simp [inorder]⟩
  simpa [parse] using this

/-- `ACLDomainData::match` keeps the invariant (it only splays) and answers by interval membership. -/
theorem matchHost_spec (vals : List Bytes) (hne : ∀ v ∈ vals, v ≠ []) (t : Tree Bytes) (h : Holds vals t) (host : Bytes) :
    Holds vals (matchHost t host).1 ∧ ((matchHost t host).2 = true ↔ ∃ v ∈ vals, Matches v host) := by
  unfold matchHost
  have hin := inorder_find (hostCompare host) t
  refine ⟨?_, ?_⟩
  · simp only; unfold Holds; rw [hin]; exact h
  · simp only
    rw [find_isSome_iff _ _ (mono_host h.1 host)]
    have : (∃ y ∈ inorder t, hostCompare host y = 0) ↔ (∃ s ∈ inorder t, In (hostKey host) s) := by
      constructor
      · rintro ⟨y, hy, h0⟩; exact ⟨y, hy, (mdn_zero_iff host y (h.1.2 y hy).1).mp h0⟩
      · rintro ⟨y, hy, h0⟩; exact ⟨y, hy, (mdn_zero_iff host y (h.1.2 y hy).1).mpr h0⟩
    rw [this, h.2]
    constructor
    · rintro ⟨v, hv, hk⟩
      exact ⟨v, hv, (in_iff_matches v host (hne v hv)).mp hk⟩
    · rintro ⟨v, hv, hm⟩
      exact ⟨v, hv, (in_iff_matches v host (hne v hv)).mpr hm⟩

/-- the invariant speaks about the in-order sequence only: any tree with the same sequence has it -/
theorem Holds.of_inorder_eq {vals : List Bytes} {t t' : Tree Bytes} (h : Holds vals t) (he : inorder t' = inorder t) :
    Holds vals t' := by
  unfold Holds at h ⊢; rw [he]; exact h

theorem matchAll_fst_holds (vals : List Bytes) (hne : ∀ v ∈ vals, v ≠ []) :
    ∀ (hosts : List Bytes) (t : Tree Bytes) (acc : List Bool), Holds vals t → Holds vals (matchAll t hosts acc).1 := by
  intro hosts
  induction hosts with
  | nil => intro t acc h; exact h
  | cons x xs ih =>
    intro t acc h
    rw [matchAll]
    exact ih _ _ (matchHost_spec vals hne t h x).1

theorem wf_all_ne_nil {vals : List Bytes} (hv : ∀ v ∈ vals, Wf v) : ∀ v ∈ vals, v ≠ [] :=
  fun v h => (hv v h).1

instance (v : Bytes) : Decidable (Wf v) := by unfold Wf; exact inferInstance

instance (v h : Bytes) : Decidable (Matches v h) := by unfold Matches; exact inferInstance

instance (v : Bytes) : Decidable (Valid v) := by unfold Valid; exact inferInstance

end SquidModel.Acl.Domain
