/-
src/acl/Ip.cc, src/acl/SplayInserter.h, src/ip/Address.cc — IP-address ACLs, modelled branch by branch.

An `Ip::Address` is its 16 address bytes `sin6_addr.s6_addr[0..15]` read as one big-endian natural number below 2^128
(IPv4 addresses are stored v4-mapped, `::ffff:a.b.c.d`); `matchIPAddr`'s left-to-right byte comparison is then the numeric
comparison.  The splay tree is the model of include/splay.h in `SquidModel.Acl.DomainTree` (generic in the value type).
Text scanning (`sscanf`) and `getaddrinfo` are libc: the model starts from what they deliver for the four numeric forms
`a`, `a/m`, `a-b`, `a-b/m` (`Item`).  Core Lean only.
-/
import SquidModel.Acl.DomainTree
import SquidModel.Gen.IpAcl

namespace SquidModel.Acl.Ip
open SquidModel.Acl

/-! ### src/ip/Address.cc -/

/-- `v6_noaddr`: all 128 bits set (value read from the staged source: `Gen.IpAcl`) -/
def ALL1 : Nat := Gen.IpAcl.v6NoAddr
/-- `v4_anyaddr` = `::ffff:0.0.0.0` -/
def V4ANY : Nat := Gen.IpAcl.v4AnyAddr
/-- `v4_noaddr` = `::ffff:255.255.255.255` -/
def V4NO : Nat := Gen.IpAcl.v4NoAddr

/-- `Ip::Address::isAnyAddr`: `IN6_IS_ADDR_UNSPECIFIED || == v4_anyaddr` -/
def isAnyAddr (a : Nat) : Bool := a == 0 || a == V4ANY
/-- `Ip::Address::isNoAddr`: `== v6_noaddr || == v4_noaddr` -/
def isNoAddr (a : Nat) : Bool := a == ALL1 || a == V4NO
/-- `Ip::Address::isIPv4`: `IN6_IS_ADDR_V4MAPPED` (80 zero bits, 16 one bits) -/
def isIPv4 (a : Nat) : Bool := a / 2 ^ 32 == 0xffff
def isIPv6 (a : Nat) : Bool := !isIPv4 a

/-- `Ip::Address::matchIPAddr`: byte-wise three-way comparison, most significant byte first -/
def matchIPAddr (a b : Nat) : Int := if a < b then -1 else if a > b then 1 else 0

/-- `operator <`: `if (isAnyAddr() && !rhs.isAnyAddr()) return true; return matchIPAddr(rhs) < 0;` -/
def lt (a b : Nat) : Bool := if isAnyAddr a && !isAnyAddr b then true else decide (matchIPAddr a b < 0)
/-- `operator <=` -/
def le (a b : Nat) : Bool := if isAnyAddr a && !isAnyAddr b then true else decide (matchIPAddr a b ≤ 0)
/-- `operator >`: `if (isNoAddr() && !rhs.isNoAddr()) return true; return matchIPAddr(rhs) > 0;` -/
def gt (a b : Nat) : Bool := if isNoAddr a && !isNoAddr b then true else decide (matchIPAddr a b > 0)
/-- `operator >=` -/
def ge (a b : Nat) : Bool := if isNoAddr a && !isNoAddr b then true else decide (matchIPAddr a b ≥ 0)

/-! The address order the IP ACL comparators use: the relational operators above in the pinned tree; plain byte order
(`matchIPAddr`) in a tree that carries notes/fixes/C42-address-operator-special-cases.diff (`Gen.IpAcl.plainOrder`, probed by
running the staged code). -/
def aLt (a b : Nat) : Bool := if Gen.IpAcl.plainOrder then decide (matchIPAddr a b < 0) else lt a b
def aLe (a b : Nat) : Bool := if Gen.IpAcl.plainOrder then decide (matchIPAddr a b ≤ 0) else le a b
def aGt (a b : Nat) : Bool := if Gen.IpAcl.plainOrder then decide (matchIPAddr a b > 0) else gt a b
def aGe (a b : Nat) : Bool := if Gen.IpAcl.plainOrder then decide (matchIPAddr a b ≥ 0) else ge a b

/-- `Ip::Address::applyMask(const Address &)`: word-wise `p1[i] &= p2[i]`; the second component is `changes != 0`
(the count of changed 32-bit words is only ever tested against zero) -/
def applyMask (a m : Nat) : Nat × Bool := (a &&& m, (a &&& m) != a)

/-- `Ip::Address::turnMaskedBitsOn`: `addressWords[i] |= ~maskWords[i]` -/
def turnMaskedBitsOn (a m : Nat) : Nat := a ||| (ALL1 ^^^ m)

inductive Fam where
  | v4 | v6
  deriving DecidableEq, Repr

/-- `Ip::Address::applyMask(cidrMask, mtype)` applied to the mask value `mask`; `none` = returns false.
The byte loop from `s6_addr[15]` downwards clears the `clearbits` least significant bits. -/
def applyCidr (mask : Nat) (n : Nat) (fam : Fam) : Option Nat :=
  if n > 128 then none
  else if n > 32 && fam == Fam.v4 then none
  else if n = 0 then some ALL1                        -- "CIDR /0 is NoAddr regardless of the IPv4/IPv6 protocol"
  else
    let clearbits := (if fam == Fam.v6 then 128 else 32) - n
    if clearbits = 0 then some mask                   -- short-cut
    else some ((mask >>> clearbits) <<< clearbits)

/-- number of leading one bits among the `w` low bits of `x` -/
def leadingOnes : Nat → Nat → Nat
  | 0, _ => 0
  | w + 1, x => if x.testBit w then 1 + leadingOnes w x else 0

/-- `Ip::Address::cidr`: leading one bits, counted from byte 12 for a v4-mapped address -/
def cidr (a : Nat) : Nat := if isIPv4 a then leadingOnes 32 (a % 2 ^ 32) else leadingOnes 128 a

/-! ### acl_ip_data -/

/-- `acl_ip_data` (the `next` link is used during parsing only) -/
structure Val where
  addr1 : Nat
  addr2 : Nat
  mask : Nat
  deriving DecidableEq, Repr

/-- `acl_ip_data::firstAddress` -/
def Val.first (v : Val) : Nat := if isNoAddr v.mask then v.addr1 else (applyMask v.addr1 v.mask).1

/-- `acl_ip_data::lastAddress` -/
def Val.last (v : Val) : Nat :=
  let ip := if isAnyAddr v.addr2 then v.addr1 else v.addr2
  if isNoAddr v.mask then ip else turnMaskedBitsOn ip v.mask

/-- `Acl::SplayInserter<acl_ip_data*>::Compare(a, b)` -/
def compare (a b : Val) : Int :=
  if aLt a.last b.first then -1          -- the entire range a is to the left of range b
  else if aGt a.first b.last then 1      -- the entire range a is to the right of range b
  else 0

/-- `Acl::SplayInserter<acl_ip_data*>::IsSubset(a, b)` -/
def isSubset (a b : Val) : Bool := aLe b.first a.first && aLe a.last b.last

/-- `std::min(x, y)` = `(y < x) ? y : x` with `Ip::Address::operator <` -/
def stdMin (x y : Nat) : Nat := if aLt y x then y else x
/-- `std::max(x, y)` = `(x < y) ? y : x` -/
def stdMax (x y : Nat) : Nat := if aLt x y then y else x

/-- `Acl::SplayInserter<acl_ip_data*>::MakeCombinedValue(a, b)` -/
def makeCombined (a b : Val) : Val :=
  ⟨stdMin a.first b.first, stdMax a.last b.last, ALL1⟩

/-- `aclIpAddrNetworkCompare(p, q)`: `p` is the client address, `q` a stored value -/
def networkCompare (p : Nat) (q : Val) : Int :=
  let A := (applyMask p q.mask).1
  if isAnyAddr q.addr2 then matchIPAddr A q.addr1                    -- single address check
  else if aGe A q.addr1 && aLe A q.addr2 then 0                       -- valid. inside range.
  else matchIPAddr A q.addr1                                          -- outside of range, 'less than'

/-! ### parsing -/

/-- the mask part of a configured value as `sscanf` delivers it -/
inductive MaskSpec where
  | none                      -- no "/..." part
  | cidr (n : Nat)            -- "/<decimal>" (at most three digits, no leading zero)
  | dotted (m : Nat)          -- "/<dotted quad>", the 32-bit number
  deriving DecidableEq, Repr

/-- what `sscanf` (SCAN_ACL1..4) and `getaddrinfo(AI_NUMERICHOST)` deliver for one numeric token: the pattern family,
the address(es) (32-bit numbers for the IPv4 patterns, 128-bit numbers for the IPv6 patterns) and the mask text -/
structure Item where
  fam : Fam
  a1 : Nat
  a2 : Option Nat
  mask : MaskSpec
  deriving DecidableEq, Repr

inductive Token where
  | all | ipv4 | ipv6
  | item (i : Item)
  deriving DecidableEq, Repr

/-- what squid logs at level 0/1 while parsing -/
inductive Event where
  | maskedAway        -- w: "Netmask masks away part of the specified IP"
  | deprecated        -- m: "Netmasks are deprecated"
  | ignoredNew        -- n: "Ignoring <new> because it is already covered by <old>"
  | ignoredOld        -- o: "Ignoring earlier <old> because it is covered by <new>"
  | combined          -- c: "Merging overlapping <new> and <old> into <combined>"
  | legacyAll         -- g: "'<token>' needs to be replaced by the term 'all'"
  deriving DecidableEq, Repr

/-- `map4to6` for the IPv4 patterns; IPv6 text is copied as is -/
def embed (fam : Fam) (a : Nat) : Nat := if fam == Fam.v4 then V4ANY + a else a

/-- the "dotted notation" branch of `acl_ip_data::DecodeMask` once `mask = asc` has produced the IPv4 address `m`:
`m = mask.cidr(); mask.setNoAddr(); return mask.applyMask(m, AF_INET);` -/
def decodeDotted (m : Nat) : Option Nat := applyCidr ALL1 (cidr (V4ANY + m)) Fam.v4

/-- `acl_ip_data::DecodeMask(asc, mask, ctype)`: the mask and whether the deprecation warnings were logged -/
def decodeMask (spec : MaskSpec) (fam : Fam) : Option (Nat × Bool) :=
  match spec with
  | .none => some (ALL1, false)                                        -- `!asc || !*asc`
  | .cidr n =>
    if n ≤ 128 then                                                    -- `sscanf(asc, "%d%c") == 1 && a1 <= 128 && a1 >= 0`
      if n = 0 && Gen.IpAcl.slashZeroIsEverything then
        -- only in a tree with notes/fixes/C42-v6-slash-zero.diff: `/0` leaves no network bits
        if fam == Fam.v6 then some (0, false)                          -- `mask.setAnyAddr()`
        else (applyCidr ALL1 96 Fam.v6).map (fun m => (m, false))      -- `mask.applyMask(96, AF_INET6)`
      else (applyCidr ALL1 n fam).map (fun m => (m, false))
    else (decodeDotted n).map (fun m => (m, true))                     -- getaddrinfo reads a lone number as an IPv4 address
  | .dotted m => (decodeDotted m).map (fun m' => (m', true))

/-- the test of notes/fixes/C42-self-incomparable-value-uaf.diff: `!q->addr2.isAnyAddr() && q->addr2.matchIPAddr(q->addr1) < 0` -/
def reversed (addr1 addr2 : Nat) : Bool := !isAnyAddr addr2 && decide (matchIPAddr addr2 addr1 < 0)

/-- `acl_ip_data::FactoryParse(t)` from "Decode addr1" on, for one numeric token; `none` = `self_destruct()` -/
def factoryParse (it : Item) : Option (Val × List Event) :=
  let addr1 := embed it.fam it.a1
  let addr2 := match it.a2 with
    | none => 0                                   -- `q->addr2.setAnyAddr()`
    | some b => embed it.fam b
  match decodeMask it.mask it.fam with
  | none => none                                  -- "unknown netmask"
  | some (mask, dep) =>
    let r1 := applyMask addr1 mask
    let r2 := applyMask addr2 mask
    if Gen.IpAcl.rejectsReversedRange && reversed r1.1 r2.1 then none   -- only in a tree with the candidate fix
    else some (⟨r1.1, r2.1, mask⟩,
          (if dep then [Event.deprecated] else []) ++ (if r1.2 || r2.2 then [Event.maskedAway] else []))

/-- the "old broken strings equivalent to 'all'" of `ACLIP::parseGlobal`, recognised on the canonical text of the token:
`0.0.0.0/0`, `0.0.0.0/0.0.0.0`, `0.0.0.0-255.255.255.255`, `0.0.0.0-0.0.0.0/0` (`0/0` is not a canonical address text) -/
def isLegacyAll (it : Item) : Bool :=
  it.fam == Fam.v4 && it.a1 == 0 &&
    (   (it.a2 == none && it.mask == MaskSpec.cidr 0)
     || (it.a2 == none && it.mask == MaskSpec.dotted 0)
     || (it.a2 == some 0xffffffff && it.mask == MaskSpec.none)
     || (it.a2 == some 0 && it.mask == MaskSpec.cidr 0))

/-- `ACLIP`: the two switches and the splay tree -/
structure Acl where
  any4 : Bool
  any6 : Bool
  tree : Tree Val
  deriving DecidableEq, Repr

inductive Outcome where
  | ok (acl : Acl) (events : List Event)
  /-- `self_destruct()`: bad address or netmask -/
  | selfDestruct
  /-- `storage.remove(oldItem)` did not find `oldItem`, `DestroyValue(oldItem)` freed a value the tree still points to:
      the next comparison reads freed memory (undefined behaviour; in practice the loop never ends) -/
  | dangling
  /-- model artefact: loop budget exhausted -/
  | fuel
  deriving DecidableEq, Repr

inductive MergeOutcome where
  | ok (t : Tree Val) (events : List Event)
  | dangling
  | fuel
  deriving DecidableEq, Repr

/-- the `while (storage.insert(newItem, comparator))` loop of `Acl::SplayInserter<acl_ip_data*>::Merge` -/
def mergeLoop : Nat → Tree Val → Val → List Event → MergeOutcome
  | 0, _, _, _ => .fuel
  | n + 1, t, new, ev =>
    match Tree.insert (compare new) new t with
    | (t', none) => .ok t' ev
    | (t', some old) =>
      if isSubset new old then .ok t' (ev ++ [.ignoredNew])
      else if isSubset old new then
        match Tree.remove (compare old) t' with
        | (t'', true) => mergeLoop n t'' new (ev ++ [.ignoredOld])
        | (_, false) => .dangling
      else
        match Tree.remove (compare old) t' with
        | (t'', true) => mergeLoop n t'' (makeCombined old new) (ev ++ [.combined])
        | (_, false) => .dangling

/-- `Merge(storage, newItem)`; `size + 1` rounds are enough when every `continue` follows a successful removal -/
def merge (t : Tree Val) (new : Val) (ev : List Event) : MergeOutcome :=
  mergeLoop (t.size + 1) t new ev

/-- `ACLIP::parse`: `while (char *t = strtokFile()) { if (parseGlobal(t)) continue; q = FactoryParse(t); Merge(...) }` -/
def parseFrom : List Token → Acl → List Event → Outcome
  | [], acl, ev => .ok acl ev
  | .all :: rest, acl, ev => parseFrom rest { acl with any4 := true, any6 := true } ev
  | .ipv4 :: rest, acl, ev => parseFrom rest { acl with any4 := true } ev
  | .ipv6 :: rest, acl, ev => parseFrom rest { acl with any6 := true } ev
  | .item it :: rest, acl, ev =>
    if isLegacyAll it then parseFrom rest { acl with any4 := true, any6 := true } (ev ++ [.legacyAll])
    else
      match factoryParse it with
      | none => .selfDestruct
      | some (v, ev1) =>
        match merge acl.tree v (ev ++ ev1) with
        | .ok t' ev' => parseFrom rest { acl with tree := t' } ev'
        | .dangling => .dangling
        | .fuel => .fuel

def parse (tokens : List Token) : Outcome := parseFrom tokens ⟨false, false, .nil⟩ []

/-- `ACLIP::match(clientip)`: the (splayed) tree and the verdict -/
def matchAddr (acl : Acl) (x : Nat) : Acl × Bool :=
  if acl.any4 && acl.any6 then (acl, true)                       -- matched 'all'
  else if acl.any4 && isIPv4 x then (acl, true)                  -- matched 'ipv4'
  else if !acl.any4 && acl.any6 && isIPv6 x then (acl, true)     -- matched 'ipv6'
  else
    let r := Tree.find (networkCompare x) acl.tree
    ({ acl with tree := r.1 }, r.2.isSome)

/-- a sequence of lookups, as the harness performs them -/
def matchAll : Acl → List Nat → List Bool → Acl × List Bool
  | acl, [], acc => (acl, acc.reverse)
  | acl, x :: xs, acc =>
    let r := matchAddr acl x
    matchAll r.1 xs (r.2 :: acc)

/-- one harness line: configure the values, then ask for every probe in turn (`none` = parse did not end normally) -/
def verdicts (tokens : List Token) (probes : List Nat) : Option (List Bool) :=
  match parse tokens with
  | .ok acl _ => some (matchAll acl probes []).2
  | _ => none

end SquidModel.Acl.Ip
