/-
Overlapping domain values are nested, `IsSubset` tells the direction (so `MakeCombinedValue` is never needed), and
key-interval membership is the textual relation of the property: "equal to the value, or — for a `.domain` value —
equal to the domain or ending in `.domain`", case-insensitively.
-/
import SquidModel.Acl.DomainOrder

namespace SquidModel.Acl.Domain

/-! ### nesting -/

theorem rkey_length (s : Bytes) : (rkey s).length = s.length := by simp [rkey]

theorem length_eq_root (v : Bytes) (hv : v ≠ []) :
    v.length = (root v).length + (if startsWithDot v then 1 else 0) := by
  cases v with
  | nil => exact absurd rfl hv
  | cons c r => unfold root; split <;> simp_all

private theorem ext_bounds (r t : List Nat) (e : Nat) (he : e = 1 ∨ e = 2) :
    r ++ [0] < (r ++ 1 :: t) ++ [0] ∧ (r ++ 1 :: t) ++ [e] < r ++ [2] := by
  constructor
  · rw [List.append_assoc, append_lt_append_left_iff]; simp [List.cons_lt_cons_iff]
  · rw [List.append_assoc, append_lt_append_left_iff]; simp [List.cons_lt_cons_iff]

/-- For two non-empty values with overlapping intervals: either `IsSubset(new, old)` holds and new's interval lies inside
old's, or it does not hold, `IsSubset(old, new)` holds and old's interval lies inside new's. -/
theorem subset_spec {n o : Bytes} (hn : n ≠ []) (ho : o ≠ []) (hov : lo o < hi n ∧ lo n < hi o) :
    (isSubset n o = true ∧ ¬ lo n < lo o ∧ ¬ hi o < hi n) ∨
    (isSubset n o = false ∧ isSubset o n = true ∧ ¬ lo o < lo n ∧ ¬ hi n < hi o) := by
  have ln := length_eq_root n hn
  have lo' := length_eq_root o ho
  have kn := rkey_length (root n)
  have ko := rkey_length (root o)
  have hRn := rkey_rankList (root n)
  have hRo := rkey_rankList (root o)
  have en_cases : (if startsWithDot n then 2 else 1) = 1 ∨ (if startsWithDot n then 2 else 1) = 2 := by split <;> simp
  have eo_cases : (if startsWithDot o then 2 else 1) = 1 ∨ (if startsWithDot o then 2 else 1) = 2 := by split <;> simp
  simp only [lo_eq, hi_eq] at hov ⊢
  generalize hrn : rkey (root n) = Rn at *
  generalize hro : rkey (root o) = Ro at *
  unfold isSubset
  by_cases hcase : Rn ++ [0] < Ro ++ [0]
  · -- old's root lies in new's interval
    have hmem := (mem_interval_iff _ en_cases Rn Ro hRn hRo).mp ⟨List.lt_asymm hcase, hov.1⟩
    rcases hmem with heq | ⟨he2, t, ht⟩
    · subst heq; exact absurd hcase (List.lt_irrefl _)
    · have hdn : startsWithDot n = true := by
        cases h : startsWithDot n <;> simp_all
      have hb := ext_bounds Rn t (if startsWithDot o then 2 else 1) eo_cases
      rw [← ht] at hb
      right
      cases hdo : startsWithDot o with
      | true =>
        have hlen : ¬ (n.length ≥ o.length) := by
          have : Ro.length = Rn.length + 1 + t.length := by rw [ht]; simp; omega
          simp [hdn, hdo] at ln lo'; omega
        have hlen2 : o.length ≥ n.length := by omega
        simp only [hdn, hdo, Bool.and_self, if_true, hlen, hlen2, decide_false, decide_true, true_and]
        rw [hdo] at hb
        exact ⟨List.lt_asymm hb.1, List.lt_asymm hb.2⟩
      | false =>
        rw [hdo] at hb
        simp only [hdn, hdo, Bool.and_false, Bool.false_eq_true, if_false, Bool.not_true, Bool.not_false, Bool.false_and,
          Bool.and_true, Bool.true_and, if_true, true_and]
        exact ⟨List.lt_asymm hb.1, List.lt_asymm hb.2⟩
  · -- new's root lies in old's interval
    have hmem := (mem_interval_iff _ eo_cases Ro Rn hRo hRn).mp ⟨hcase, hov.2⟩
    rcases hmem with heq | ⟨he2, t, ht⟩
    · subst heq
      cases hdn : startsWithDot n <;> cases hdo : startsWithDot o
      · left; simp [List.lt_irrefl]
      · left; simp [List.lt_irrefl, append_lt_append_left_iff, List.cons_lt_cons_iff]
      · right; simp [List.lt_irrefl, append_lt_append_left_iff, List.cons_lt_cons_iff]
      · left
        have : n.length ≥ o.length := by simp [hdn, hdo] at ln lo'; omega
        simp [List.lt_irrefl, this]
    · have hdo : startsWithDot o = true := by
        cases h : startsWithDot o <;> simp_all
      have hb := ext_bounds Ro t (if startsWithDot n then 2 else 1) en_cases
      rw [← ht] at hb
      left
      cases hdn : startsWithDot n with
      | true =>
        have hlen : n.length ≥ o.length := by
          have : Rn.length = Ro.length + 1 + t.length := by rw [ht]; simp; omega
          simp [hdn, hdo] at ln lo'; omega
        rw [hdn] at hb
        simp only [hdn, hdo, Bool.and_self, if_true, hlen, decide_true, true_and]
        exact ⟨List.lt_asymm hb.1, List.lt_asymm hb.2⟩
      | false =>
        rw [hdn] at hb
        simp only [hdn, hdo, Bool.false_and, Bool.false_eq_true, if_false, Bool.not_false, Bool.not_true, Bool.and_false,
          if_true, true_and]
        exact ⟨List.lt_asymm hb.1, List.lt_asymm hb.2⟩


/-! ### interval membership is the textual relation -/

/-- **The property's reading of one configured value.**  Hosts are taken without their leading dots (the documented contract
of matchDomainName) and compared case-insensitively: a value that begins with a dot matches the domain after the dot and every
name that ends with the value; any other value matches only itself.  The empty host matches nothing. -/
def Matches (v h : Bytes) : Prop :=
  fold (stripDots h) ≠ [] ∧
  (if startsWithDot v then fold (stripDots h) = fold v.tail ∨ fold v <:+ fold (stripDots h)
   else fold (stripDots h) = fold v)

theorem map_rank_eq_iff : ∀ (a b : List UInt8), a.map rank = b.map rank ↔ a.map lower = b.map lower
  | [], [] => by simp
  | [], _ :: _ => by simp
  | _ :: _, [] => by simp
  | x :: a, y :: b => by simp [rank_eq_iff, map_rank_eq_iff a b]

theorem rkey_eq_iff (a b : Bytes) : rkey a = rkey b ↔ fold a = fold b := by
  unfold rkey fold
  rw [List.map_reverse, List.map_reverse, List.reverse_inj]
  exact map_rank_eq_iff a b

theorem map_rank_split_iff (a b : List UInt8) :
    (∃ t, a.map rank = t ++ 1 :: b.map rank) ↔ (∃ u, a.map lower = u ++ DOT :: b.map lower) := by
  constructor
  · rintro ⟨t, ht⟩
    obtain ⟨l1, l2, rfl, h1, h2⟩ := List.map_eq_append_iff.mp ht
    obtain ⟨c, l3, rfl, hc, h3⟩ := List.map_eq_cons_iff.mp h2
    have hcd : c = DOT := (rank_eq_one_iff c).mp hc
    refine ⟨l1.map lower, ?_⟩
    rw [List.map_append, List.map_cons, hcd, lower_dot, (map_rank_eq_iff l3 b).mp h3]
  · rintro ⟨u, hu⟩
    obtain ⟨l1, l2, rfl, h1, h2⟩ := List.map_eq_append_iff.mp hu
    obtain ⟨c, l3, rfl, hc, h3⟩ := List.map_eq_cons_iff.mp h2
    have hcd : c = DOT := (lower_eq_dot_iff c).mp hc
    refine ⟨l1.map rank, ?_⟩
    rw [List.map_append, List.map_cons, hcd, rank_dot, (map_rank_eq_iff l3 b).mpr h3]

theorem rkey_ext_iff (a b : Bytes) : (∃ t, rkey a = rkey b ++ 1 :: t) ↔ fold (DOT :: b) <:+ fold a := by
  have key : (∃ t, rkey a = rkey b ++ 1 :: t) ↔ (∃ t, a.map rank = t ++ 1 :: b.map rank) := by
    unfold rkey
    constructor
    · rintro ⟨t, ht⟩
      refine ⟨t.reverse, ?_⟩
      have := congrArg List.reverse ht
      simpa using this
    · rintro ⟨t, ht⟩
      refine ⟨t.reverse, ?_⟩
      rw [List.map_reverse, ht]; simp
  rw [key, map_rank_split_iff]
  unfold fold
  simp only [List.map_cons, lower_dot]
  constructor
  · rintro ⟨u, hu⟩; exact ⟨u, hu.symm⟩
  · rintro ⟨u, hu⟩; exact ⟨u, hu.symm⟩

theorem in_iff_matches (v h : Bytes) (hv : v ≠ []) : In (hostKey h) v ↔ Matches v h := by
  unfold In Matches hostKey
  by_cases he : (stripDots h).isEmpty = true
  · have h0 : stripDots h = [] := by simpa using he
    have hl : lo v ≠ [] := endKey_ne_nil _ _ _
    have : ([] : List Nat) < lo v := by cases hlv : lo v with
      | nil => exact absurd hlv hl
      | cons _ _ => simp
    simp [h0, fold, this]
  · have he' : (stripDots h).isEmpty = false := by simpa using he
    have hne : fold (stripDots h) ≠ [] := by
      unfold fold; intro hc
      have : stripDots h = [] := by simpa using hc
      simp [this] at he'
    have ecs : (if startsWithDot v then 2 else 1) = 1 ∨ (if startsWithDot v then 2 else 1) = 2 := by split <;> simp
    simp only [he', Bool.false_eq_true, if_false, lo_eq, hi_eq]
    rw [mem_interval_iff _ ecs _ _ (rkey_rankList _) (rkey_rankList _)]
    cases v with
    | nil => exact absurd rfl hv
    | cons c r =>
      by_cases hc : startsWithDot (c :: r) = true
      · have hcd : c = DOT := by simpa [startsWithDot] using hc
        subst hcd
        have hr : root (DOT :: r) = r := by simp [root, startsWithDot]
        simp only [hc, if_true, hr, List.tail_cons, true_and, rkey_eq_iff, rkey_ext_iff, hne, ne_eq, not_false_eq_true]
      · have hc' : startsWithDot (c :: r) = false := by simpa using hc
        have hr : root (c :: r) = c :: r := by simp [root, hc']
        simp [hc', hr, rkey_eq_iff, hne]

end SquidModel.Acl.Domain
