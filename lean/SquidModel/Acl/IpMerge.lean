/-
The Merge loop of Acl::SplayInserter<acl_ip_data*> keeps the stored values sorted, pairwise disjoint, well formed, and covering
exactly what was inserted — as long as the end points that meet in the relational operators stay away from their special cases
(`Tame`).  Core Lean only.
-/
import SquidModel.Acl.IpOrder
import SquidModel.Acl.DomainTreeLemmas

namespace SquidModel.Acl.Ip
open SquidModel.Acl

/-- the first addresses (`Elo`) and last addresses (`Ehi`) that can meet in a comparison, and the configured values -/
structure Ctx where
  Cfg : Val → Prop
  Elo : Nat → Prop
  Ehi : Nat → Prop

/-- no comparison among these end points hits a special case of `operator <`, `<=`, `>`:
`0.0.0.0` (as a first or last address) never meets an address strictly between `::` and `::ffff:0.0.0.0`, and
`255.255.255.255` as a first address never meets a last address strictly between it and the all-ones address -/
structure Tame (c : Ctx) : Prop where
  any_hi : c.Ehi V4ANY → (∀ e, c.Elo e → ¬ LowV6 e) ∧ (∀ e, c.Ehi e → ¬ LowV6 e)
  any_lo : c.Elo V4ANY → ∀ e, c.Elo e → ¬ LowV6 e
  no_lo : c.Elo V4NO → ∀ e, c.Ehi e → ¬ HighV6 e

/-- well formed for some number of host bits -/
def Val.Ok (v : Val) : Prop := ∃ k, v.WF k

/-- a value whose end points belong to the context -/
def Ctx.In (c : Ctx) (v : Val) : Prop := v.Ok ∧ c.Elo v.first ∧ c.Ehi v.last

theorem Val.Ok.le {v : Val} (h : v.Ok) : v.first ≤ v.last := by
  obtain ⟨k, w⟩ := h; exact Val.first_le_last w
theorem Val.Ok.lt128 {v : Val} (h : v.Ok) : v.last < 2 ^ 128 := by
  obtain ⟨k, w⟩ := h; exact Val.last_lt w

theorem ite3_zero {p q : Prop} [Decidable p] [Decidable q] :
    (if p then (-1 : Int) else if q then 1 else 0) = 0 ↔ ¬ p ∧ ¬ q := by
  by_cases hp : p <;> by_cases hq : q <;> simp [hp, hq]
theorem ite3_neg {p q : Prop} [Decidable p] [Decidable q] :
    (if p then (-1 : Int) else if q then 1 else 0) < 0 ↔ p := by
  by_cases hp : p <;> by_cases hq : q <;> simp [hp, hq]
theorem ite3_pos {p q : Prop} [Decidable p] [Decidable q] :
    (if p then (-1 : Int) else if q then 1 else 0) > 0 ↔ ¬ p ∧ q := by
  by_cases hp : p <;> by_cases hq : q <;> simp [hp, hq]

section ops
variable {c : Ctx} (tame : Tame c) {a b : Val} (ha : c.In a) (hb : c.In b)
include tame ha hb

theorem compare_spec : compare a b = if a.last < b.first then -1 else if a.first > b.last then 1 else 0 := by
  unfold compare
  rw [aLt_num (fun h => (tame.any_hi (h ▸ ha.2.2)).1 _ hb.2.1),
      aGt_num (by have := hb.1.lt128; rw [ALL1_eq]; omega) (fun h => tame.no_lo (h ▸ ha.2.1) _ hb.2.2)]
  simp

theorem isSubset_spec : isSubset a b = decide (b.first ≤ a.first ∧ a.last ≤ b.last) := by
  unfold isSubset
  rw [aLe_num (fun h => tame.any_lo (h ▸ hb.2.1) _ ha.2.1),
      aLe_num (fun h => (tame.any_hi (h ▸ ha.2.2)).2 _ hb.2.2)]
  simp

theorem makeCombined_spec : makeCombined a b = ⟨min a.first b.first, max a.last b.last, ALL1⟩ := by
  unfold makeCombined stdMin stdMax
  rw [aLt_num (fun h => tame.any_lo (h ▸ hb.2.1) _ ha.2.1),
      aLt_num (fun h => (tame.any_hi (h ▸ ha.2.2)).2 _ hb.2.2)]
  congr 1
  · simp only [decide_eq_true_eq]; split <;> omega
  · simp only [decide_eq_true_eq]; split <;> omega

end ops

/-- sorted and pairwise disjoint -/
def Sorted (l : List Val) : Prop := l.Pairwise (fun a b => a.last < b.first)

/-- what the tree holds at any time -/
structure Inv (c : Ctx) (l : List Val) : Prop where
  mem : ∀ v ∈ l, c.In v
  shape : ∀ v ∈ l, c.Cfg v ∨ (v.mask = ALL1 ∧ c.Elo v.addr1 ∧ c.Ehi v.addr2)
  sorted : Sorted l

/-- the union of the stored block ranges -/
def cover (l : List Val) (x : Nat) : Prop := ∃ v ∈ l, v.mem x

theorem pairwise_mem_cases {α : Type} {R : α → α → Prop} {l : List α} (h : l.Pairwise R) {a b : α}
    (ha : a ∈ l) (hb : b ∈ l) : a = b ∨ R a b ∨ R b a := by
  induction l with
  | nil => simp at ha
  | cons x l ih =>
    rw [List.pairwise_cons] at h
    simp only [List.mem_cons] at ha hb
    rcases ha with rfl | ha <;> rcases hb with rfl | hb
    · exact Or.inl rfl
    · exact Or.inr (Or.inl (h.1 _ hb))
    · exact Or.inr (Or.inr (h.1 _ ha))
    · exact ih h.2 ha hb

/-- two stored values that overlap are the same value -/
theorem sorted_overlap_eq {c : Ctx} {l : List Val} (inv : Inv c l) {s v : Val} (hs : s ∈ l) (hv : v ∈ l)
    (h1 : ¬ s.last < v.first) (h2 : ¬ s.first > v.last) : v = s := by
  rcases pairwise_mem_cases inv.sorted hs hv with h | h | h
  · exact h.symm
  · exact absurd h h1
  · exact absurd h (by omega)

theorem mono_compare {c : Ctx} (tame : Tame c) {l : List Val} (inv : Inv c l) {new : Val} (hn : c.In new) :
    Tree.Mono (compare new) l := by
  refine List.Pairwise.imp_of_mem ?_ inv.sorted
  intro a b ha hb hab
  have sa := compare_spec tame hn (inv.mem a ha)
  have sb := compare_spec tame hn (inv.mem b hb)
  have la := (inv.mem a ha).1.le
  have lb := (inv.mem b hb).1.le
  have ln := hn.1.le
  rw [sa, sb]
  constructor
  · intro h
    rw [ite3_neg] at h ⊢; omega
  · intro h
    rw [ite3_pos] at h ⊢; omega

/-- `storage.remove(oldItem)` finds and removes exactly the stored value -/
theorem remove_stored {c : Ctx} (tame : Tame c) {t : Tree Val} (inv : Inv c t.inorder) {s : Val} (hs : s ∈ t.inorder) :
    ∃ t' A B, Tree.remove (compare s) t = (t', true) ∧ t.inorder = A ++ s :: B ∧ t'.inorder = A ++ B := by
  have hsin := inv.mem s hs
  have hm := mono_compare tame inv hsin
  have hss : compare s s = 0 := by
    rw [compare_spec tame hsin hsin, ite3_zero]; have := hsin.1.le; omega
  have hz : t.inorder.Pairwise (fun a v => compare s v = 0 → compare s a > 0) := by
    refine List.Pairwise.imp_of_mem ?_ inv.sorted
    intro a v ha hv hav h0
    rw [compare_spec tame hsin (inv.mem v hv), ite3_zero] at h0
    have e : v = s := sorted_overlap_eq inv hs hv h0.1 h0.2
    subst e
    rw [compare_spec tame hsin (inv.mem a ha), ite3_pos]
    have := hsin.1.le
    have := (inv.mem a ha).1.le
    omega
  rcases Tree.remove_spec (compare s) t hm hz with ⟨t', _, _, hno⟩ | ⟨t', A, v, B, hr, hin, hv0, hin'⟩
  · exact absurd hss (hno s hs)
  · have hv : v ∈ t.inorder := by rw [hin]; simp
    rw [compare_spec tame hsin (inv.mem v hv), ite3_zero] at hv0
    have e : v = s := sorted_overlap_eq inv hs hv hv0.1 hv0.2
    subst e
    exact ⟨t', A, B, hr, hin, hin'⟩

theorem Inv.remove {c : Ctx} {A B : List Val} {s : Val} (inv : Inv c (A ++ s :: B)) : Inv c (A ++ B) := by
  have hsub : (A ++ B).Sublist (A ++ s :: B) :=
    List.Sublist.append (List.Sublist.refl A) (List.sublist_cons_self s B)
  exact ⟨fun v hv => inv.mem v (hsub.subset hv), fun v hv => inv.shape v (hsub.subset hv), inv.sorted.sublist hsub⟩

theorem cover_remove {A B : List Val} {s : Val} (x : Nat) :
    cover (A ++ s :: B) x ↔ cover (A ++ B) x ∨ s.mem x := by
  unfold cover
  constructor
  · rintro ⟨v, hv, hx⟩
    simp only [List.mem_append, List.mem_cons] at hv
    rcases hv with hv | rfl | hv
    · exact Or.inl ⟨v, by simp [hv], hx⟩
    · exact Or.inr hx
    · exact Or.inl ⟨v, by simp [hv], hx⟩
  · rintro (⟨v, hv, hx⟩ | hx)
    · simp only [List.mem_append] at hv
      rcases hv with hv | hv
      · exact ⟨v, by simp [hv], hx⟩
      · exact ⟨v, by simp [hv], hx⟩
    · exact ⟨s, by simp, hx⟩

/-- the combined value of two overlapping values neither of which contains the other -/
theorem combined_ok {c : Ctx} (tame : Tame c) {old new : Val} (ho : c.In old) (hn : c.In new)
    (hov1 : ¬ new.last < old.first) (hov2 : ¬ new.first > old.last)
    (hs1 : ¬ (old.first ≤ new.first ∧ new.last ≤ old.last)) (hs2 : ¬ (new.first ≤ old.first ∧ old.last ≤ new.last)) :
    c.In (makeCombined old new) ∧ (makeCombined old new).mask = ALL1 ∧
    c.Elo (makeCombined old new).addr1 ∧ c.Ehi (makeCombined old new).addr2 ∧
    ∀ x, (makeCombined old new).mem x ↔ old.mem x ∨ new.mem x := by
  rw [makeCombined_spec tame ho hn]
  have lo := ho.1.le
  have ln := hn.1.le
  have h128o := ho.1.lt128
  have h128n := hn.1.lt128
  -- the right end is not an "any" address unless it is `::`
  have hmax : max old.last new.last ≠ V4ANY := by
    intro h
    obtain ⟨ko, wo⟩ := ho.1
    obtain ⟨kn, wn⟩ := hn.1
    by_cases e : old.last = V4ANY
    · have := Val.last_any wo e; omega
    · have e2 : new.last = V4ANY := by omega
      have := Val.last_any wn e2; omega
  let cv : Val := ⟨min old.first new.first, max old.last new.last, ALL1⟩
  have w : cv.WF 0 := by
    refine ⟨by omega, by simp [cv, pmask_zero], ?_, ?_, by simp [Nat.mod_one], by simp [Nat.mod_one], ?_, ?_⟩
    · show min old.first new.first < 2 ^ 128; omega
    · show max old.last new.last < 2 ^ 128; omega
    · intro _; show min old.first new.first ≤ max old.last new.last; omega
    · show min old.first new.first + (2 ^ 0 - 1) < 2 ^ 128 ∧ max old.last new.last + (2 ^ 0 - 1) < 2 ^ 128
      simp; omega
  have hfirst : cv.first = min old.first new.first := Val.first_eq w
  have hlast : cv.last = max old.last new.last := by
    rw [Val.last_eq w]
    unfold Val.ip
    by_cases ha : isAnyAddr cv.addr2 = true
    · rcases (isAnyAddr_iff _).mp ha with h0 | h1
      · have h0' : max old.last new.last = 0 := h0
        simp only [ha, if_true]
        show min old.first new.first + (2 ^ 0 - 1) = max old.last new.last
        simp; omega
      · exact absurd h1 hmax
    · simp only [ha, if_false, Bool.false_eq_true]
      show max old.last new.last + (2 ^ 0 - 1) = max old.last new.last
      simp
  have hElo : c.Elo (min old.first new.first) := by
    by_cases h : old.first ≤ new.first
    · rw [Nat.min_eq_left h]; exact ho.2.1
    · rw [Nat.min_eq_right (by omega)]; exact hn.2.1
  have hEhi : c.Ehi (max old.last new.last) := by
    by_cases h : old.last ≤ new.last
    · rw [Nat.max_eq_right h]; exact hn.2.2
    · rw [Nat.max_eq_left (by omega)]; exact ho.2.2
  refine ⟨⟨⟨0, w⟩, ?_, ?_⟩, rfl, hElo, hEhi, ?_⟩
  · show c.Elo cv.first; rw [hfirst]; exact hElo
  · show c.Ehi cv.last; rw [hlast]; exact hEhi
  · intro x
    show cv.mem x ↔ _
    unfold Val.mem
    rw [hfirst, hlast]
    constructor
    · intro h
      by_cases hx : x ≤ old.last
      · by_cases hy : old.first ≤ x
        · exact Or.inl ⟨hy, hx⟩
        · exact Or.inr ⟨by omega, by omega⟩
      · exact Or.inr ⟨by omega, by omega⟩
    · rintro (h | h) <;> omega

/-- the loop of `Merge`: ends normally, the stored values stay sorted, disjoint and well formed, and cover what they covered
plus the new value -/
theorem mergeLoop_spec {c : Ctx} (tame : Tame c) :
    ∀ (n : Nat) (t : Tree Val) (new : Val) (ev : List Event), Inv c t.inorder → c.In new →
      (c.Cfg new ∨ (new.mask = ALL1 ∧ c.Elo new.addr1 ∧ c.Ehi new.addr2)) → t.inorder.length < n →
      ∃ t' ev', mergeLoop n t new ev = .ok t' ev' ∧ Inv c t'.inorder ∧
        ∀ x, cover t'.inorder x ↔ cover t.inorder x ∨ new.mem x := by
  intro n
  induction n with
  | zero => intro t new ev _ _ _ h; omega
  | succ n ih =>
    intro t new ev inv hn hshape hlen
    have hm := mono_compare tame inv hn
    unfold mergeLoop
    rcases Tree.insert_spec (compare new) new t hm with ⟨t', s, hi, hin, hs, hs0⟩ | ⟨t', A, B, hi, hin, hin', hA, hB⟩
    · -- a stored value overlaps the new one
      rw [hi]
      have inv' : Inv c t'.inorder := by rw [hin]; exact inv
      have hs' : s ∈ t'.inorder := by rw [hin]; exact hs
      have hsin := inv.mem s hs
      rw [compare_spec tame hn hsin, ite3_zero] at hs0
      have hov1 : ¬ new.last < s.first := hs0.1
      have hov2 : ¬ new.first > s.last := hs0.2
      simp only []
      rw [isSubset_spec tame hn hsin, isSubset_spec tame hsin hn]
      by_cases c1 : s.first ≤ new.first ∧ new.last ≤ s.last
      · -- the new value is already covered
        simp only [c1, and_self, decide_true, if_true]
        refine ⟨t', _, rfl, inv', ?_⟩
        intro x
        rw [hin]
        constructor
        · exact fun h => Or.inl h
        · rintro (h | h)
          · exact h
          · exact ⟨s, hs, by unfold Val.mem at *; omega⟩
      · simp only [c1, decide_false, Bool.false_eq_true, if_false]
        obtain ⟨t'', A, B, hr, hAB, hAB'⟩ := remove_stored tame inv' hs'
        have invAB : Inv c (A ++ s :: B) := by rw [← hAB]; exact inv'
        have inv'' : Inv c t''.inorder := by rw [hAB']; exact invAB.remove
        have hlen'' : t''.inorder.length < n := by
          have : t.inorder.length = (A ++ s :: B).length := by rw [← hin, hAB]
          rw [hAB']; simp only [List.length_append, List.length_cons] at this ⊢; omega
        by_cases c2 : new.first ≤ s.first ∧ s.last ≤ new.last
        · -- the stored value is covered by the new one
          simp only [c2, and_self, decide_true, if_true]
          rw [hr]
          obtain ⟨t3, ev3, h3, inv3, hc3⟩ := ih t'' new (ev ++ [.ignoredOld]) inv'' hn hshape hlen''
          refine ⟨t3, ev3, h3, inv3, ?_⟩
          intro x
          rw [hc3 x, hAB', ← hin, hAB, cover_remove x]
          constructor
          · rintro (h | h)
            · exact Or.inl (Or.inl h)
            · exact Or.inr h
          · rintro ((h | h) | h)
            · exact Or.inl h
            · exact Or.inr (by unfold Val.mem at *; omega)
            · exact Or.inr h
        · -- partial overlap: combine
          simp only [c2, decide_false, Bool.false_eq_true, if_false]
          rw [hr]
          obtain ⟨hcin, hcm, hc1, hc2, hcmem⟩ := combined_ok tame hsin hn hov1 hov2 c1 c2
          obtain ⟨t3, ev3, h3, inv3, hc3⟩ :=
            ih t'' (makeCombined s new) (ev ++ [.combined]) inv'' hcin (Or.inr ⟨hcm, hc1, hc2⟩) hlen''
          refine ⟨t3, ev3, h3, inv3, ?_⟩
          intro x
          rw [hc3 x, hAB', ← hin, hAB, cover_remove x, hcmem x]
          constructor
          · rintro (h | h | h)
            · exact Or.inl (Or.inl h)
            · exact Or.inl (Or.inr h)
            · exact Or.inr h
          · rintro ((h | h) | h)
            · exact Or.inl h
            · exact Or.inr (Or.inl h)
            · exact Or.inr (Or.inr h)
    · -- no stored value overlaps: the new value is linked in
      rw [hi]
      refine ⟨t', ev, rfl, ?_, ?_⟩
      · rw [hin']
        rw [hin] at inv
        have hA' : ∀ a ∈ A, a.last < new.first := by
          intro a ha
          have h := hA a ha
          rw [compare_spec tame hn (inv.mem a (by simp [ha])), ite3_pos] at h
          omega
        have hB' : ∀ b ∈ B, new.last < b.first := by
          intro b hb
          have h := hB b hb
          rw [compare_spec tame hn (inv.mem b (by simp [hb])), ite3_neg] at h
          exact h
        refine ⟨?_, ?_, ?_⟩
        · intro v hv
          simp only [List.mem_append, List.mem_cons] at hv
          rcases hv with hv | rfl | hv
          · exact inv.mem v (by simp [hv])
          · exact hn
          · exact inv.mem v (by simp [hv])
        · intro v hv
          simp only [List.mem_append, List.mem_cons] at hv
          rcases hv with hv | rfl | hv
          · exact inv.shape v (by simp [hv])
          · exact hshape
          · exact inv.shape v (by simp [hv])
        · have hs := inv.sorted
          unfold Sorted at hs ⊢
          rw [List.pairwise_append] at hs ⊢
          refine ⟨hs.1, ?_, ?_⟩
          · rw [List.pairwise_cons]; exact ⟨hB', hs.2.1⟩
          · intro a ha b hb
            simp only [List.mem_cons] at hb
            rcases hb with rfl | hb
            · exact hA' a ha
            · exact hs.2.2 a ha b hb
      · intro x
        rw [hin', hin, cover_remove x]

theorem inorder_length_size (t : Tree Val) : t.inorder.length = t.size := by
  induction t with
  | nil => rfl
  | node l v r ihl ihr => simp [Tree.inorder, Tree.size, ihl, ihr]; omega

theorem merge_spec {c : Ctx} (tame : Tame c) (t : Tree Val) (new : Val) (ev : List Event) (inv : Inv c t.inorder)
    (hn : c.In new) (hshape : c.Cfg new ∨ (new.mask = ALL1 ∧ c.Elo new.addr1 ∧ c.Ehi new.addr2)) :
    ∃ t' ev', merge t new ev = .ok t' ev' ∧ Inv c t'.inorder ∧ ∀ x, cover t'.inorder x ↔ cover t.inorder x ∨ new.mem x :=
  mergeLoop_spec tame _ t new ev inv hn hshape (by rw [inorder_length_size]; omega)

end SquidModel.Acl.Ip
