/-
Lemmas about the `ACLIntRange` model: the decimal reading of digit strings, `strtoll`/`xatos` on them,
`splitDash`, and the meaning of `matchLoop`.
-/
import SquidModel.Acl.IntRange
import SquidModel.Base.Finite

namespace SquidModel.Acl.IntRange

/-! ### the model's character classes are the ones dumped from the running C library -/

theorem isSpace_eq_gen : ∀ b : UInt8, (isSpace b == Gen.IntRange.cSpace.contains b) = true :=
  forall_octet _ (by decide +kernel)

theorem isDigit_eq_gen : ∀ b : UInt8, (isDigit b == Gen.IntRange.cDigit.contains b) = true :=
  forall_octet _ (by decide +kernel)

theorem digit_facts : ∀ b : UInt8, (!isDigit b || (!isSpace b && b != 45 && b != 43)) = true :=
  forall_octet _ (by decide +kernel)

theorem digit_not_space {b : UInt8} (h : isDigit b = true) : isSpace b = false := by
  have := digit_facts b; simp [h] at this; exact this.1.1
theorem digit_ne_dash {b : UInt8} (h : isDigit b = true) : b ≠ 45 := by
  have := digit_facts b; simp [h] at this; exact this.1.2
theorem digit_ne_plus {b : UInt8} (h : isDigit b = true) : b ≠ 43 := by
  have := digit_facts b; simp [h] at this; exact this.2

/-! ### the platform limits the proofs rely on (re-checked against the regenerated constants) -/

theorem INT_MAX_eq : INT_MAX = 2147483647 := by decide
theorem INT_MIN_eq : INT_MIN = -2147483648 := by decide
theorem LONG_MAX_eq : LONG_MAX = 9223372036854775807 := by decide
theorem LONG_MIN_eq : LONG_MIN = -9223372036854775808 := by decide
theorem LLONG_MAX_eq : LLONG_MAX = 9223372036854775807 := by decide
theorem LLONG_MIN_eq : LLONG_MIN = -9223372036854775808 := by decide
theorem USHRT_MAX_eq : USHRT_MAX = 65535 := by decide

/-! ### specification side: the decimal value of a digit string -/

/-- positional decimal value of a string of ASCII digits (most significant first) -/
def decVal (ds : Bytes) : Nat := ds.foldl (fun a d => a * 10 + (d.toNat - 48)) 0

theorem digitsVal_digits (ds : Bytes) (acc : Nat) (h : ds.all isDigit = true) :
    digitsVal ds acc = (ds.foldl (fun a d => a * 10 + (d.toNat - 48)) acc, []) := by
  induction ds generalizing acc with
  | nil => rfl
  | cons d ds ih =>
    simp only [List.all_cons, Bool.and_eq_true] at h
    simp only [digitsVal, h.1, if_true, List.foldl_cons]
    exact ih _ h.2

theorem skipSpace_digit {d : UInt8} {r : Bytes} (h : isDigit d = true) : skipSpace (d :: r) = d :: r := by
  simp [skipSpace, digit_not_space h]

/-- `strtoll` on a non-empty digit string: whole string consumed, value = decimal value (saturated) -/
theorem strtoll_digits (ds : Bytes) (hne : ds ≠ []) (h : ds.all isDigit = true) :
    strtoll ds = { value := clampLL (decVal ds), rest := [], noDigits := false } := by
  match ds, hne with
  | d :: r, _ =>
    have hd : isDigit d = true := by simp only [List.all_cons, Bool.and_eq_true] at h; exact h.1
    have h45 := digit_ne_dash hd
    have h43 := digit_ne_plus hd
    have hs : takeSign (d :: r) = (false, d :: r) := by
      unfold takeSign
      split
      · rename_i heq; injection heq with h1 _; exact absurd h1 h45
      · rename_i heq; injection heq with h1 _; exact absurd h1 h43
      · rfl
    simp only [strtoll, skipSpace_digit hd, hs, strtollDigits, hd, if_true, digitsVal_digits (d :: r) 0 h, decVal]
    simp

theorem clampLL_small {v : Int} (h1 : LLONG_MIN ≤ v) (h2 : v ≤ LLONG_MAX) : clampLL v = v := by
  unfold clampLL
  split
  · omega
  · split
    · omega
    · rfl

theorem xatos_digits (ds : Bytes) (hne : ds ≠ []) (h : ds.all isDigit = true) (hle : decVal ds ≤ 65535) :
    xatos ds = .ok (decVal ds) := by
  have e1 := LLONG_MAX_eq; have e2 := LLONG_MIN_eq; have e3 := LONG_MAX_eq; have e4 := LONG_MIN_eq
  have e5 := USHRT_MAX_eq
  have hc : clampLL (decVal ds : Int) = decVal ds := clampLL_small (by omega) (by omega)
  simp only [xatos, xatol, xatoll, strtoll_digits ds hne h, hc]
  have h1 : LONG_MIN ≤ (decVal ds : Int) ∧ (decVal ds : Int) ≤ LONG_MAX := by omega
  have h2 : ¬ ((decVal ds : Int) < 0) := by omega
  simp [h1, h2]
  omega

theorem xatos_digits_tooLarge (ds : Bytes) (hne : ds ≠ []) (h : ds.all isDigit = true) (hgt : decVal ds > 65535) :
    xatos ds = .error .tooLarge := by
  have e1 := LLONG_MAX_eq; have e2 := LLONG_MIN_eq; have e3 := LONG_MAX_eq; have e4 := LONG_MIN_eq
  have e5 := USHRT_MAX_eq
  simp only [xatos, xatol, xatoll, strtoll_digits ds hne h]
  by_cases hbig : (decVal ds : Int) > LLONG_MAX
  · have hc : clampLL (decVal ds : Int) = LLONG_MAX := by simp [clampLL, hbig]
    have h1 : LONG_MIN ≤ LLONG_MAX ∧ LLONG_MAX ≤ LONG_MAX := by omega
    have h2 : ¬ (LLONG_MAX < 0) := by omega
    have h3 : LLONG_MAX.toNat > USHRT_MAX := by omega
    simp [hc, h1, h2, h3]
  · have hc : clampLL (decVal ds : Int) = decVal ds := clampLL_small (by omega) (by omega)
    have h1 : LONG_MIN ≤ (decVal ds : Int) ∧ (decVal ds : Int) ≤ LONG_MAX := by omega
    have h2 : ¬ ((decVal ds : Int) < 0) := by omega
    simp [hc, h1, h2]
    omega

/-! ### splitDash -/

theorem splitDash_digits (ds : Bytes) (h : ds.all isDigit = true) : splitDash ds = (ds, none) := by
  induction ds with
  | nil => rfl
  | cons d r ih =>
    simp only [List.all_cons, Bool.and_eq_true] at h
    simp only [splitDash, digit_ne_dash h.1, if_false, ih h.2]

theorem splitDash_range (ds1 ds2 : Bytes) (h : ds1.all isDigit = true) :
    splitDash (ds1 ++ 45 :: ds2) = (ds1, some ds2) := by
  induction ds1 with
  | nil => simp [splitDash]
  | cons d r ih =>
    simp only [List.all_cons, Bool.and_eq_true] at h
    simp only [List.cons_append, splitDash, digit_ne_dash h.1, if_false, ih h.2]

/-! ### match -/

/-- the number `i` lies in `[start, stop)` -/
def Range.has (r : Range) (i : Int) : Prop := r.start ≤ i ∧ i < r.stop

/-- `match(i)` is membership in the stored ranges, for every integer `i` -/
theorem matchInt_spec (rs : List Range) (i : Int) : matchInt rs i = true ↔ ∃ r ∈ rs, r.has i := by
  induction rs with
  | nil => simp [matchInt]
  | cons e es ih =>
    simp only [matchInt]
    by_cases hin : e.start ≤ i ∧ i < e.stop
    · have : (decide (e.start ≤ i) && decide (i < e.stop)) = true := by simp [hin]
      simp only [this, if_true, true_iff]
      exact ⟨e, List.mem_cons_self, hin⟩
    · have : (decide (e.start ≤ i) && decide (i < e.stop)) = false := by
        cases h : (decide (e.start ≤ i) && decide (i < e.stop)) with
        | false => rfl
        | true => simp at h; exact absurd h hin
      simp only [this, Bool.false_eq_true, if_false, ih]
      constructor
      · rintro ⟨r, hr, hh⟩; exact ⟨r, List.mem_cons_of_mem _ hr, hh⟩
      · rintro ⟨r, hr, hh⟩
        rcases List.mem_cons.mp hr with rfl | hr
        · exact absurd hh hin
        · exact ⟨r, hr, hh⟩

/-! ### parse -/

theorem xatos_le {t : Bytes} {n : Nat} (ht : xatos t = .ok n) : n ≤ 65535 := by
  have e5 := USHRT_MAX_eq
  simp only [xatos] at ht
  split at ht
  · exact absurd ht (by simp)
  · rename_i port _
    split at ht
    · exact absurd ht (by simp)
    · split at ht
      · exact absurd ht (by simp)
      · rename_i hgt
        injection ht with ht; omega

/-- everything `parseToken` accepts lies inside the port space and is non-empty -/
theorem parseToken_bounds {tok : Bytes} {r : Range} (h : parseToken tok = .ok r) :
    0 ≤ r.start ∧ r.start < r.stop ∧ r.stop ≤ 65536 := by
  unfold parseToken at h
  generalize splitDash tok = ab at h
  obtain ⟨a, b⟩ := ab
  simp only at h
  split at h
  · exact absurd h (by simp)
  · rename_i port1 h1
    have hp1 := xatos_le h1
    split at h
    · exact absurd h (by simp)
    · rename_i port2 h2
      have hp2 : port2 ≤ 65535 := by
        cases b with
        | none => simp only at h2; injection h2 with h2; omega
        | some bb => exact xatos_le h2
      split at h
      · injection h with h; subst h; simp only; omega
      · exact absurd h (by simp)

/-- `parse` accepts exactly when every token is accepted, and then stores one range per token, in order -/
theorem parse_ok_iff {toks : List Bytes} {rs : List Range} :
    parse toks = .ok rs ↔ toks.length = rs.length ∧ ∀ p ∈ toks.zip rs, parseToken p.1 = .ok p.2 := by
  induction toks generalizing rs with
  | nil =>
    cases rs with
    | nil => simp [parse]
    | cons r rs => simp [parse]
  | cons t ts ih =>
    cases rs with
    | nil =>
      simp only [parse]
      cases parseToken t with
      | error e => simp
      | ok r => cases parse ts <;> simp
    | cons r rs =>
      simp only [parse]
      cases hp : parseToken t with
      | error e => simp [hp]
      | ok r' =>
        cases hps : parse ts with
        | error e =>
          have : ¬ (ts.length = rs.length ∧ ∀ p ∈ ts.zip rs, parseToken p.1 = .ok p.2) := by
            intro hh; have := (ih (rs := rs)).mpr hh; rw [hps] at this; cases this
          simp only [List.length_cons, List.zip_cons_cons, List.mem_cons, forall_eq_or_imp, hp]
          constructor
          · intro h; cases h
          · rintro ⟨hl, _, hrest⟩; exact absurd ⟨by omega, hrest⟩ this
        | ok rs' =>
          have ih' := ih (rs := rs)
          simp only [List.length_cons, List.zip_cons_cons, List.mem_cons, forall_eq_or_imp, hp]
          constructor
          · intro h
            injection h with h; injection h with h1 h2; subst h1; subst h2
            have := (ih (rs := rs')).mp hps
            exact ⟨by omega, rfl, this.2⟩
          · rintro ⟨hl, hr, hrest⟩
            injection hr with hr; subst hr
            have := ih'.mpr ⟨by omega, hrest⟩
            rw [hps] at this; injection this with this; subst this; rfl

theorem parse_bounds {toks : List Bytes} {rs : List Range} (h : parse toks = .ok rs) :
    ∀ r ∈ rs, 0 ≤ r.start ∧ r.start < r.stop ∧ r.stop ≤ 65536 := by
  induction toks generalizing rs with
  | nil => simp only [parse] at h; injection h with h; subst h; simp
  | cons t ts ih =>
    simp only [parse] at h
    split at h
    · exact absurd h (by simp)
    · rename_i r hr
      split at h
      · exact absurd h (by simp)
      · rename_i rs' hrs
        injection h with h; subst h
        intro x hx
        rcases List.mem_cons.mp hx with rfl | hx
        · exact parseToken_bounds hr
        · exact ih hrs x hx

/-- a token that is refused makes `parse` refuse the whole list -/
theorem parse_error_of_mem {toks : List Bytes} {t : Bytes} (hm : t ∈ toks) {e : Reject} (ht : parseToken t = .error e) :
    ∃ e', parse toks = .error e' := by
  induction toks with
  | nil => cases hm
  | cons t' ts ih =>
    simp only [parse]
    cases hp : parseToken t' with
    | error e' => exact ⟨e', rfl⟩
    | ok r =>
      rcases List.mem_cons.mp hm with rfl | hm'
      · rw [ht] at hp; cases hp
      · obtain ⟨e', he'⟩ := ih hm'
        exact ⟨e', by simp [he']⟩

/-- the class reported is the one of the first refused token -/
theorem parse_error_first (pre : List Bytes) (t : Bytes) (post : List Bytes) (rs : List Range) (e : Reject)
    (hpre : parse pre = .ok rs) (ht : parseToken t = .error e) : parse (pre ++ t :: post) = .error e := by
  induction pre generalizing rs with
  | nil => simp [parse, ht]
  | cons p ps ih =>
    simp only [parse] at hpre
    split at hpre
    · exact absurd hpre (by simp)
    · rename_i r hr
      split at hpre
      · exact absurd hpre (by simp)
      · rename_i rs' hrs
        simp only [List.cons_append, parse, hr, ih rs' hrs]

/-! ### well-formed parameters (specification side) -/

/-- a well-formed ACL parameter: a decimal value, or two decimal values joined by `-` -/
structure Param where
  first : Bytes
  last : Option Bytes

namespace Param

def lo (p : Param) : Nat := decVal p.first
def hi (p : Param) : Nat := match p.last with | none => decVal p.first | some l => decVal l

/-- digits only, inside the port space, not descending -/
def Valid (p : Param) : Prop :=
  p.first ≠ [] ∧ p.first.all isDigit = true ∧ p.lo ≤ p.hi ∧ p.hi ≤ 65535 ∧
  match p.last with | none => True | some l => l ≠ [] ∧ l.all isDigit = true

instance (p : Param) : Decidable p.Valid := by
  unfold Valid
  cases p.last <;> exact inferInstance

/-- the configuration text -/
def token (p : Param) : Bytes := match p.last with | none => p.first | some l => p.first ++ 45 :: l

end Param

theorem parseToken_param (p : Param) (hv : p.Valid) : parseToken p.token = .ok ⟨p.lo, (p.hi : Int) + 1⟩ := by
  obtain ⟨hne, hd, hle, hhi, hlast⟩ := hv
  cases hl : p.last with
  | none =>
    simp only [Param.lo, Param.hi, hl] at hle hhi ⊢
    simp only [Param.token, hl, parseToken, splitDash_digits _ hd, xatos_digits _ hne hd hhi]
    simp
  | some l =>
    simp only [hl] at hlast
    simp only [Param.lo, Param.hi, hl] at hle hhi ⊢
    have h1 : decVal p.first ≤ 65535 := by omega
    simp only [Param.token, hl, parseToken, splitDash_range _ _ hd, xatos_digits _ hne hd h1,
      xatos_digits _ hlast.1 hlast.2 hhi]
    simp [hle]

theorem parse_params (ps : List Param) (hv : ∀ p ∈ ps, p.Valid) :
    parse (ps.map Param.token) = .ok (ps.map fun p => ⟨p.lo, (p.hi : Int) + 1⟩) := by
  induction ps with
  | nil => rfl
  | cons p ps ih =>
    simp only [List.map_cons, parse, parseToken_param p (hv p List.mem_cons_self),
      ih (fun q hq => hv q (List.mem_cons_of_mem _ hq))]

end SquidModel.Acl.IntRange
