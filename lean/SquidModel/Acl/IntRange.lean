/-
Model of `ACLIntRange` (src/acl/IntRange.cc) with the pieces it runs through:

* `strtoll(token, &end, 10)` as used by `xatoll` (src/Parsing.cc): leading C-locale white space, optional sign,
  decimal digits, saturation at LLONG_MIN/LLONG_MAX, `end == token` when no digit was converted;
* `xatoll` / `xatol` / `xatos` (src/Parsing.cc) with the point at which each calls `self_destruct()`;
* `Range<int>` (src/base/Range.h): `size` (used by `dump`);
* `ACLIntRange::parse`, `::match`, `::dump`, `::empty`.

`self_destruct()` ends the configuration attempt: it is the `reject` outcome, tagged with the ERROR text squid logs.
`match(int i)` (since squid commit 21bf4c4) only compares `i` with the stored bounds: no arithmetic on `i`, hence no
undefined behaviour for any `int`. The `int` subtraction inside `Range<int>::size()` (used by `dump`) stays a checked
operation (`none` = signed overflow).  Core-only (no Mathlib), so that the driver links.
-/
import SquidModel.Base.Bytes
import SquidModel.Gen.IntRange

namespace SquidModel.Acl.IntRange

/-! ### C integer types -/

-- limits as dumped from the staged build (Gen.IntRange is regenerated every run)
def INT_MAX : Int := Gen.IntRange.intMax
def INT_MIN : Int := Gen.IntRange.intMin
def LONG_MAX : Int := Gen.IntRange.longMax
def LONG_MIN : Int := Gen.IntRange.longMin
def LLONG_MAX : Int := Gen.IntRange.llongMax
def LLONG_MIN : Int := Gen.IntRange.llongMin
/-- largest value `xatos` lets through (`port & ~0xFFFF` is zero) -/
def USHRT_MAX : Nat := Gen.IntRange.ushortMax

def fitsInt (x : Int) : Bool := decide (INT_MIN ≤ x) && decide (x ≤ INT_MAX)

/-- signed `int` subtraction; `none` = overflow = undefined behaviour -/
def subInt (a b : Int) : Option Int := if fitsInt (a - b) then some (a - b) else none

/-! ### strtoll(…, 10) -/

/-- `isspace` in the C locale: SP, HT, LF, VT, FF, CR -/
def isSpace (b : UInt8) : Bool := b == 32 || (9 ≤ b && b ≤ 13)
def isDigit (b : UInt8) : Bool := 48 ≤ b && b ≤ 57
-- (IntRangeLemmas proves that these are the sets dumped from the running C library: `isSpace_eq_gen`, `isDigit_eq_gen`)

/-- consume the leading decimal digits, accumulating their value -/
def digitsVal : Bytes → Nat → Nat × Bytes
  | [], acc => (acc, [])
  | d :: ds, acc => if isDigit d then digitsVal ds (acc * 10 + (d.toNat - 48)) else (acc, d :: ds)

def clampLL (v : Int) : Int := if v > LLONG_MAX then LLONG_MAX else if v < LLONG_MIN then LLONG_MIN else v

structure Strtoll where
  value : Int
  /-- the text `*end` points at -/
  rest : Bytes
  /-- `end == token`: no conversion was performed -/
  noDigits : Bool
deriving Repr, DecidableEq

def skipSpace : Bytes → Bytes
  | [] => []
  | c :: r => if isSpace c then skipSpace r else c :: r

/-- optional sign: whether it was `-`, and the text after it -/
def takeSign : Bytes → Bool × Bytes
  | 45 :: r => (true, r)     -- '-'
  | 43 :: r => (false, r)    -- '+'
  | t => (false, t)

/-- the digits after white space and sign; `s` is the whole token (`end = token` when nothing converts) -/
def strtollDigits (s : Bytes) (neg : Bool) (u : Bytes) : Strtoll :=
  match u with
  | d :: _ =>
    if isDigit d then
      let nr := digitsVal u 0
      { value := clampLL (if neg then -(nr.1 : Int) else (nr.1 : Int)), rest := nr.2, noDigits := false }
    else { value := 0, rest := s, noDigits := true }
  | [] => { value := 0, rest := s, noDigits := true }

def strtoll (s : Bytes) : Strtoll :=
  let su := takeSign (skipSpace s)
  strtollDigits s su.1 su.2

/-! ### xatoll / xatol / xatos -/

inductive Reject
  | noDigits     -- "No digits were found in the input value"
  | trailing     -- "Invalid value: ... is supposed to be a number"
  | negative     -- "cannot be less than 0"
  | tooLarge     -- "is larger than the type 'short'"
  | descending   -- "ACLIntRange::parse: Invalid port value"
deriving Repr, DecidableEq

def Reject.token : Reject → String
  | .noDigits => "no-digits"
  | .trailing => "trailing"
  | .negative => "negative"
  | .tooLarge => "too-large"
  | .descending => "descending"

deriving instance DecidableEq for Except

/-- `xatoll(token, 10, '\0')` -/
def xatoll (token : Bytes) : Except Reject Int :=
  let r := strtoll token
  if r.noDigits then .error .noDigits
  else if r.rest ≠ [] then .error .trailing
  else .ok r.value

/-- `xatol`: `(long) input` must equal `input` ("larger than the type 'long'" otherwise) -/
def xatol (token : Bytes) : Except Reject Int :=
  match xatoll token with
  | .error e => .error e
  | .ok input => if LONG_MIN ≤ input ∧ input ≤ LONG_MAX then .ok input else .error .tooLarge

/-- `xatos`: the value as `unsigned short` -/
def xatos (token : Bytes) : Except Reject Nat :=
  match xatol token with
  | .error e => .error e
  | .ok port =>
    if port < 0 then .error .negative
    else if port.toNat > USHRT_MAX then .error .tooLarge    -- `port & ~0xFFFF`
    else .ok port.toNat

/-! ### Range<int> -/

/-- `[start, end)` -/
structure Range where
  start : Int
  stop : Int
deriving Repr, DecidableEq

/-- `(size_t)(end > start ? end - start : 0)`; the subtraction is an `int` subtraction -/
def Range.size (r : Range) : Option Nat :=
  if r.stop > r.start then (subInt r.stop r.start).map Int.toNat else some 0

/-! ### ACLIntRange -/

/-- `strchr(a, '-')`, `*b = 0`, `++b`: the text before the first `-` and, when there is one, the text after it -/
def splitDash : Bytes → Bytes × Option Bytes
  | [] => ([], none)
  | c :: r =>
    if c = 45 then ([], some r)
    else let (a, b) := splitDash r; (c :: a, b)

/-- one round of the `while` loop of `ACLIntRange::parse` -/
def parseToken (tok : Bytes) : Except Reject Range :=
  let (a, b) := splitDash tok
  match xatos a with
  | .error e => .error e
  | .ok port1 =>
    let port2 : Except Reject Nat := match b with
      | some bb => xatos bb
      | none => .ok port1
    match port2 with
    | .error e => .error e
    | .ok port2 =>
      if port2 ≥ port1 then .ok ⟨port1, (port2 : Int) + 1⟩
      else .error .descending

/-- `ACLIntRange::parse` over the tokens `ConfigParser::strtokFile()` returns, in order; `ranges.push_back` -/
def parse : List Bytes → Except Reject (List Range)
  | [] => .ok []
  | t :: ts =>
    match parseToken t with
    | .error e => .error e
    | .ok r =>
      match parse ts with
      | .error e => .error e
      | .ok rs => .ok (r :: rs)

/-- `ACLIntRange::match(int i)`: `for (element : ranges) if (element.start <= i && i < element.end) return true; return false` -/
def matchInt : List Range → Int → Bool
  | [], _ => false
  | e :: es, i => if decide (e.start ≤ i) && decide (i < e.stop) then true else matchInt es i

/-- `ACLIntRange::dump`: `(start, none)` is printed `%d`, `(start, some last)` is printed `%d-%d` -/
def dump (ranges : List Range) : List (Int × Option Int) :=
  ranges.map fun e => if e.size = some 1 then (e.start, none) else (e.start, some (e.stop - 1))

def empty (ranges : List Range) : Bool := ranges.isEmpty

/-! ### what ConfigParser hands over verbatim (harness contract, both parser modes) -/

def isAlnum (c : UInt8) : Bool := (48 ≤ c && c ≤ 57) || (65 ≤ c && c ≤ 90) || (97 ≤ c && c ≤ 122)

/-- `.,)-=_/:+` -/
def isStrictPunct (c : UInt8) : Bool :=
  c == 46 || c == 44 || c == 41 || c == 45 || c == 61 || c == 95 || c == 47 || c == 58 || c == 43

def verbatimToken (strict : Bool) (t : Bytes) : Bool :=
  match t with
  | [] => false
  | c :: _ =>
    !(c == 35 || c == 34 || c == 39) &&
    t.all fun c => !(c == 0 || Gen.IntRange.wSpace.contains c) && (!strict || isAlnum c || isStrictPunct c)

end SquidModel.Acl.IntRange
