/-
C45 — the IPv4 side of `src` / `dst` ACL values as http_access sees them.

  src/acl/Ip.cc   acl_ip_data::FactoryParse (the four IPv4 `sscanf` shapes + the plain-address `getaddrinfo` shape),
                  acl_ip_data::DecodeMask, ACLIP::parseGlobal, ACLIP::parse, aclIpAddrNetworkCompare, ACLIP::match
  src/ip/Address.cc  Ip::Address::applyMask(cidr, AF_INET), applyMask(mask), cidr(), matchIPAddr, operator<= / >=

An IPv4 address is its 32-bit value (`Nat`, `< 2^32`); squid stores it v4-mapped in 128 bits, the first 96 bits of all
IPv4 values are equal, so the byte-wise `matchIPAddr` order is the numeric order of the 32-bit values.  Every mask
`DecodeMask` produces for an IPv4 value is "32-k leading ones", modelled by `k` = the number of cleared low bits
(`k = 0` is `NoAddr`, the mask that changes nothing).

Scope (`IpTok.classify`): value tokens of the forms `A`, `A/M`, `A-B`, `A-B/M` with `A`, `B` dotted quads of canonical
decimals and `M` a canonical decimal `≤ 128` or a dotted quad; the words of `ACLIP::parseGlobal`; the IPv6 literals of
squid's built-in ACLs (`Gen.HttpAccessCfg.v6Literals`), which match no IPv4 address.  Everything else is `unmodelled`
(the harness refuses such scenarios with the same word).  The splay tree and `Acl::SplayInserter::Merge` are not
modelled here: an ACL is the list of its parsed values and `ACLIP::match` is "some value compares equal" (what
C42 establishes for the tree, outside its known findings: reversed ranges, 0.0.0.0 / 255.255.255.255 end points).
Core Lean only.
-/
import SquidModel.Base.Bytes

namespace SquidModel.Acl.Http

open Lean in
/-- `bytes! "abc"` = `[97, 98, 99]` (a literal, so that `decide` can evaluate examples) -/
macro "bytes!" s:str : term => do
  let elems ← s.getString.toUTF8.toList.mapM fun c => `(($(Syntax.mkNumLit (toString c.toNat)) : UInt8))
  `([$(elems.toArray),*])

/-! ### text helpers -/

def isDigit (c : UInt8) : Bool := 48 ≤ c && c ≤ 57

/-- value of a digit string, most significant first -/
def decVal : Bytes → Nat → Nat
  | [], acc => acc
  | c :: r, acc => decVal r (acc * 10 + (c.toNat - 48))

/-- a canonical decimal: non-empty, digits only, no leading zero except for "0" itself -/
def canonDec? (s : Bytes) : Option Nat :=
  match s with
  | [] => none
  | [c] => if isDigit c then some (c.toNat - 48) else none
  | c :: r => if isDigit c && c != 48 && r.all isDigit then some (decVal (c :: r) 0) else none

/-- split at every `sep` -/
def splitOn (sep : UInt8) : Bytes → List Bytes
  | [] => [[]]
  | c :: r =>
    if c = sep then [] :: splitOn sep r
    else match splitOn sep r with
      | [] => [[c]]          -- not reachable: the result is never empty
      | h :: t => (c :: h) :: t

/-- the text before the first `sep` and, when there is one, the text after it -/
def cut (sep : UInt8) : Bytes → Bytes × Option Bytes
  | [] => ([], none)
  | c :: r =>
    if c = sep then ([], some r)
    else let (a, b) := cut sep r; (c :: a, b)

/-- `some v`: four canonical decimals `≤ 255` separated by dots; `none`: not of the scoped shape;
`some none` (via `Quad`): the shape is right but an octet exceeds 255 (the address squid refuses) -/
inductive Quad where
  | val (v : Nat)
  | tooBig
  deriving DecidableEq, Repr

def quad? (s : Bytes) : Option Quad :=
  match (splitOn 46 s).map canonDec? with
  | [some a, some b, some c, some d] =>
    if a ≤ 255 ∧ b ≤ 255 ∧ c ≤ 255 ∧ d ≤ 255 then some (.val (((a * 256 + b) * 256 + c) * 256 + d))
    else some .tooBig
  | _ => none

/-! ### Ip::Address pieces -/

/-- `Ip::Address::applyMask(mask)` for a mask with `k` cleared low bits -/
def clearLow (k : Nat) (x : Nat) : Nat := x / 2 ^ k * 2 ^ k

/-- `Ip::Address::cidr()` of an IPv4 value: the number of leading one bits (scan stops at the first zero bit) -/
def leadingOnes : Nat → Nat → Nat
  | 0, _ => 0
  | n + 1, v => if v.testBit n then 1 + leadingOnes n v else 0

def cidrOf (v : Nat) : Nat := leadingOnes 32 v

/-! ### acl_ip_data -/

/-- one parsed value. `addr2 = 0` is squid's "no second address" (`addr2.isAnyAddr()`); `maskK` low bits are cleared
by the mask; `v6 = true`: an IPv6 literal of the built-in ACLs (never equal to an IPv4 address) -/
structure IpItem where
  addr1 : Nat
  addr2 : Nat := 0
  maskK : Nat := 0
  v6 : Bool := false
  deriving DecidableEq, Repr

inductive IpReject where
  | badIp        -- "unknown first address" / "unknown second address"
  | badMask      -- "unknown netmask"
  deriving DecidableEq, Repr

inductive IpParse where
  | item (i : IpItem)
  | reject (r : IpReject)
  | unmodelled
  deriving DecidableEq, Repr

/-- `acl_ip_data::DecodeMask(asc, mask, AF_INET)`: `some k` = mask with `k` cleared low bits -/
def decodeMask (m : Bytes) : Option (Option Nat) :=
  -- returns none = unmodelled, some none = DecodeMask failed, some (some k)
  if m.isEmpty then some (some 0)
  else match canonDec? m with
    | some a1 =>
      -- sscanf("%d%c") == 1 && 0 <= a1 <= 128  →  mask.applyMask(a1, AF_INET)
      if a1 > 128 then none                 -- falls through to the dotted-notation branch with a bare number: not scoped
      else if a1 > 32 then some none        -- cidrMask > 32 && mtype == AF_INET
      else if a1 = 0 then some (some 0)     -- "CIDR /0 is NoAddr"
      else some (some (32 - a1))
    | none =>
      match quad? m with
      | some (.val v) =>
        -- dotted notation: m = mask.cidr(); mask.setNoAddr(); mask.applyMask(m, AF_INET)
        let c := cidrOf v
        if c = 0 then some (some 0) else some (some (32 - c))
      | _ => none

/-- `q->addr2 = addr2` (or `setAnyAddr()` when the value has no second address): `none` = not scoped,
`some none` = "unknown second address" -/
def secondAddr (b : Option Bytes) : Option (Option Nat) :=
  match b with
  | none => some (some 0)             -- addr2.setAnyAddr()
  | some bb =>
    match quad? bb with
    | none => none
    | some .tooBig => some none
    | some (.val v) => some (some v)

/-- the tail of `acl_ip_data::FactoryParse` after the `sscanf` shape is known -/
def buildItem (a : Bytes) (b : Option Bytes) (m : Bytes) : IpParse :=
  match quad? a with
  | none => .unmodelled
  | some .tooBig => .reject .badIp
  | some (.val a1) =>
    match secondAddr b with
    | none => .unmodelled
    | some none => .reject .badIp
    | some (some a2) =>
      match decodeMask m with
      | none => .unmodelled
      | some none => .reject .badMask
      | some (some k) =>
        -- scope: the second address of a range must not be below the first one (C42: reversed ranges) and the
        -- end points 0.0.0.0 / 255.255.255.255 have their own special cases in Ip::Address
        if b.isSome ∧ (a2 < a1 ∨ clearLow k a2 = 0) then .unmodelled
        else if (b.isSome ∧ a1 = 0) ∨ a1 = 4294967295 ∨ a2 = 4294967295 then .unmodelled
        else .item { addr1 := clearLow k a1, addr2 := clearLow k a2, maskK := k }

/-- `acl_ip_data::FactoryParse(t)` on the scoped IPv4 shapes -/
def parseIpToken (v6Literals : List Bytes) (t : Bytes) : IpParse :=
  if v6Literals.contains t then .item { addr1 := 0, v6 := true }
  else if !(t.all fun c => isDigit c || c == 46 || c == 45 || c == 47) then .unmodelled
  else
    let (ab, m) := cut 47 t                -- '/'
    let (a, b) := cut 45 ab                -- '-'
    match m with
    | some mm =>
      -- SCAN_ACL1_4 / SCAN_ACL3_4 need a non-empty mask text
      if mm.isEmpty ∨ mm.contains 45 ∨ mm.contains 47 then .unmodelled else buildItem a b mm
    | none =>
      match b with
      | some bb => if bb.contains 45 then .unmodelled else buildItem a (some bb) []   -- SCAN_ACL2_4
      | none =>
        -- plain address: the `getaddrinfo()` branch; a canonical quad yields one value
        match quad? a with
        | some (.val _) => buildItem a none []
        | _ => .unmodelled

/-- `ACLIP::parseGlobal` -/
inductive IpGlobal where
  | all | ipv4 | ipv6
  deriving DecidableEq, Repr

def parseGlobal (t : Bytes) : Option IpGlobal :=
  if t = bytes! "all" then some .all
  else if t = bytes! "ipv4" then some .ipv4
  else if t = bytes! "ipv6" then some .ipv6
  else if t = bytes! "0/0" ∨ t = bytes! "0.0.0.0/0" ∨ t = bytes! "0.0.0.0/0.0.0.0" ∨
          t = bytes! "0.0.0.0-255.255.255.255" ∨ t = bytes! "0.0.0.0-0.0.0.0/0" then some .all
  else none

/-- an `ACLIP` object: `matchAnyIpv4`, `matchAnyIpv6`, the values in configuration order -/
structure IpAcl where
  any4 : Bool := false
  any6 : Bool := false
  items : List IpItem := []
  deriving DecidableEq, Repr

inductive IpAclParse where
  | ok (a : IpAcl)
  | reject (r : IpReject)
  | unmodelled
  deriving DecidableEq, Repr

/-- `ACLIP::parse`: the `while (strtokFile())` loop -/
def parseIpTokens (v6Literals : List Bytes) : List Bytes → IpAcl → IpAclParse
  | [], a => .ok a
  | t :: ts, a =>
    match parseGlobal t with
    | some .all => parseIpTokens v6Literals ts { a with any4 := true, any6 := true }
    | some .ipv4 => parseIpTokens v6Literals ts { a with any4 := true }
    | some .ipv6 => parseIpTokens v6Literals ts { a with any6 := true }
    | none =>
      match parseIpToken v6Literals t with
      | .item i => parseIpTokens v6Literals ts { a with items := a.items ++ [i] }
      | .reject r => .reject r
      | .unmodelled => .unmodelled

/-- `aclIpAddrNetworkCompare(p, q) == 0` for an IPv4 probe -/
def itemMatches (ip : Nat) (q : IpItem) : Bool :=
  if q.v6 then false
  else
    let a := clearLow q.maskK ip                       -- A.applyMask(q->mask)
    if q.addr2 = 0 then a == q.addr1                   -- single address check: A.matchIPAddr(q->addr1)
    else (decide (a ≥ q.addr1) && decide (a ≤ q.addr2)) || a == q.addr1   -- range check, else matchIPAddr

/-- `ACLIP::match(clientip)` for an IPv4 address -/
def ipAclMatch (a : IpAcl) (ip : Nat) : Bool :=
  if a.any4 then true          -- matched 'all' / 'ipv4' (an IPv6-only wildcard does not cover an IPv4 address)
  else a.items.any (itemMatches ip)

end SquidModel.Acl.Http
