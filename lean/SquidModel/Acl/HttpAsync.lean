/-
C45 — why the decision model may take DNS answers as inputs: the two slow ACLs re-run their `match()` after the lookup
and end with the same verdict whether the answer was cached or had to be waited for.

  src/acl/DestinationIp.cc      ACLDestinationIP::match / StartLookup / LookupDone
  src/acl/DestinationDomain.cc  Acl::DestinationDomainCheck::match / StartLookup / LookupDone
  src/acl/Checklist.cc          goAsync (true: the checklist pauses; the lookup callback calls resumeNonBlockingCheck, which
                                re-enters the paused node, i.e. calls `match()` again)

State of one check: what the cache holds now (`cached`), what the resolver will answer (`answer`), and the request flag
`destinationIpLookedUp` / the checklist flag `destinationDomainChecked`.  A positive answer is stored in the cache by the
lookup; a negative one leaves `ipcache_gethostbyname()` / `fqdncache_gethostbyaddr()` returning nullptr.
-/
import SquidModel.Acl.HttpEval

namespace SquidModel.Acl.Http

/-- the result of one `match()` call: 1, 0, or -1 after a successful `goAsync()` -/
inductive MatchStep where
  | yes | no | wait
  deriving DecidableEq, Repr

/-- one call of `ACLDestinationIP::match` (no `-n`, not intercepted): `cached` = what `ipcache_gethostbyname` returns -/
def dstStep (a : Acl) (cached : Option (List Nat)) (lookedUp : Bool) : MatchStep :=
  match cached with
  | some ips => if ips.any (ipAclMatch a.ip) then .yes else .no          -- "Entry in cache found"
  | none => if !lookedUp then .wait                                      -- goAsync(StartLookup) succeeded
            else .no                                                     -- lookup was attempted and failed: mismatch

/-- the check of one `dst` ACL from start to verdict: when the first call waits, LookupDone sets
`destinationIpLookedUp`, the cache holds the answer iff it has addresses, and `match()` runs again -/
def dstVerdict (a : Acl) (cached : Option (List Nat)) (answer : List Nat) : Bool :=
  match dstStep a cached false with
  | .yes => true
  | .no => false
  | .wait =>
    match dstStep a (if answer.isEmpty then none else some answer) true with
    | .yes => true
    | _ => false

/-- a cache entry, when there is one, is the resolver's (non-empty) answer -/
def CacheAgrees (cached : Option (List Nat)) (answer : List Nat) : Prop :=
  ∀ ips, cached = some ips → ips = answer ∧ answer ≠ []

/-- **cached or looked up, the `dst` verdict is the same**: "some address of the answer matches" -/
theorem dst_async_same_verdict (a : Acl) (cached : Option (List Nat)) (answer : List Nat) (h : CacheAgrees cached answer) :
    dstVerdict a cached answer = answer.any (ipAclMatch a.ip) := by
  unfold dstVerdict dstStep
  cases cached with
  | some ips =>
    obtain ⟨rfl, _⟩ := h ips rfl
    by_cases hm : ips.any (ipAclMatch a.ip) = true
    · simp [hm]
    · simp [hm]
  | none =>
    simp only [Bool.not_false, ↓reduceIte]
    by_cases he : answer.isEmpty = true
    · have : answer = [] := by simpa using he
      subst this
      simp
    · simp only [he, Bool.false_eq_true, ↓reduceIte]
      by_cases hm : answer.any (ipAclMatch a.ip) = true
      · simp [hm]
      · simp [hm]

/-- and that is what the decision model computes for a `dst` ACL without `-n` -/
theorem dstIpMatch_is_async_verdict (a : Acl) (r : Req) (cached : Option (List Nat)) (hn : a.noLookup = false)
    (h : CacheAgrees cached r.ips) : dstIpMatch a r = dstVerdict a cached r.ips := by
  rw [dst_async_same_verdict a cached r.ips h]
  unfold dstIpMatch
  simp [hn]

/-- one call of `DestinationDomainCheck::match` for a numeric host whose text did not match (no `-n`): `cached` = what
`fqdncache_gethostbyaddr` returns, `checked` = `destinationDomainChecked()` -/
def dstDomainStep (a : Acl) (cached : Option Bytes) (checked : Bool) : MatchStep :=
  match cached with
  | some name => if domainsMatch a.domains name then .yes else .no
  | none => if !checked then .wait
            else if domainsMatch a.domains (bytes! "none") then .yes else .no

def dstDomainVerdict (a : Acl) (cached : Option Bytes) (answer : Option Bytes) : Bool :=
  match dstDomainStep a cached false with
  | .yes => true
  | .no => false
  | .wait =>
    match dstDomainStep a answer true with
    | .yes => true
    | _ => false

/-- **cached or looked up, the rDNS part of `dstdomain` gives the same verdict**: the PTR name, or the word `none` -/
theorem dstdomain_async_same_verdict (a : Acl) (cached answer : Option Bytes) (h : ∀ n, cached = some n → answer = some n) :
    dstDomainVerdict a cached answer =
      (match answer with
       | some name => domainsMatch a.domains name
       | none => domainsMatch a.domains (bytes! "none")) := by
  unfold dstDomainVerdict dstDomainStep
  cases cached with
  | some n =>
    have ha := h n rfl
    subst ha
    by_cases hm : domainsMatch a.domains n = true
    · simp [hm]
    · simp [hm]
  | none =>
    simp only [Bool.not_false, ↓reduceIte]
    cases answer with
    | some n =>
      by_cases hm : domainsMatch a.domains n = true
      · simp [hm]
      · simp [hm]
    | none =>
      by_cases hm : domainsMatch a.domains (bytes! "none") = true
      · simp [hm]
      · simp [hm]

end SquidModel.Acl.Http
