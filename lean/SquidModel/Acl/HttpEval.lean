/-
C45 — evaluating http_access for one request, and what the client and the origin then see.

  src/client_side_request.cc  ClientRequestContext::clientAccessCheck (follow_x_forwarded_for is `deny all` by default:
                              the indirect client address is the direct one), clientAccessCheckDone (not allowed →
                              ERR_ACCESS_DENIED / 403, allowed → the request goes on to forwarding)
  src/acl/FilledChecklist.cc  setRequest: src_addr = request->indirect_client_addr (acl_uses_indirect_client on)
  src/acl/Checklist.cc        nonBlockingCheck → matchAndFinish → Tree (OrNode over the rules) / calcImplicitAnswer
  src/acl/BoolOps.cc          AndNode::doMatch (first mismatching child ends the rule), NotNode::doMatch
  src/acl/Tree.cc             winningAction = action of the matching rule, lastAction
  src/acl/SourceIp.cc, DestinationIp.cc, DestinationDomain.cc, UrlPort.cc, Method.cc, MethodData.cc,
  DomainData.cc, IntRange.cc  the `match()` of the five ACL types

DNS is an input: a request carries what the ipcache / fqdncache lookups for its URL host end with (`ips`, `rdns`);
whether the answer was already cached (the ACL answers at once) or `goAsync()` had to wait for it, the ACL's `match()`
is re-run with the same answer (`ACLChecklist::resumeNonBlockingCheck` re-enters the paused node), so the verdict is a
function of these values.  The pause/resume machinery itself is C44's subject.  Core Lean only.
-/
import SquidModel.Acl.HttpConf

namespace SquidModel.Acl.Http
open SquidModel.Acl

/-- what the checklist reads from one forward-proxy request -/
structure Req where
  /-- the TCP client address (`request->client_addr`) -/
  src : Nat
  /-- the method token of the request line -/
  method : Bytes
  /-- `request->url.host()`: lower-cased by the URL parser -/
  host : Bytes
  /-- `request->url.port()` (the scheme's default port when the URL has none) -/
  port : Nat
  /-- `url.hostIsNumeric()` -/
  numeric : Bool
  /-- the addresses the ipcache ends up with for `host` (the address itself for a numeric host; `[]` = lookup failed) -/
  ips : List Nat
  /-- the name the fqdncache ends up with for a numeric host (`none` = no PTR) -/
  rdns : Option Bytes
  deriving Repr

/-- `ACLDomainData::match(host)`: some stored value `v` has `aclHostDomainCompare(host, v) == 0` -/
def domainsMatch (values : List Bytes) (host : Bytes) : Bool :=
  values.any fun v => Domain.hostCompare host v == 0

/-- `Acl::DestinationDomainCheck::match` -/
def dstDomainMatch (a : Acl) (r : Req) : Bool :=
  if domainsMatch a.domains r.host then true
  else if a.noLookup then false                    -- "No-lookup DNS ACL"
  else if !r.numeric then false                    -- numeric IPA? no, trust the above result
  else
    match r.rdns with
    | some name => domainsMatch a.domains name     -- fqdncache answer (stored as dst_rdns)
    | none => domainsMatch a.domains (bytes! "none")  -- lookup failed: data->match("none")

/-- `ACLDestinationIP::match` (not intercepted) -/
def dstIpMatch (a : Acl) (r : Req) : Bool :=
  if a.noLookup then
    (if !r.numeric then false else r.ips.any (ipAclMatch a.ip))   -- url.hostIP()
  else r.ips.any (ipAclMatch a.ip)                 -- for (ip : ia->goodAndBad()) if (ACLIP::match(ip)) return 1; no address: 0

/-- the `match()` of a named ACL -/
def aclMatch (a : Acl) (r : Req) : Bool :=
  match a.type with
  | .src => ipAclMatch a.ip r.src
  | .dst => dstIpMatch a r
  | .dstdomain => dstDomainMatch a r
  | .port => IntRange.matchInt a.ports r.port
  | .method => a.methods.any fun m => m.same (requestMethod r.method)   -- ACLMethodData::match
  | .other => false

/-- one child of a rule's AndNode: the named ACL, or a NotNode around it -/
def litMatch (acls : List Acl) (r : Req) (l : Bool × Bytes) : Bool :=
  match findAcl acls l.2 with
  | some a => if l.1 then !aclMatch a r else aclMatch a r
  | none => false     -- not reachable: lineParse refuses undefined names

/-- Acl::AndNode::doMatch -/
def ruleMatch (acls : List Acl) (r : Req) (rule : Rule) : Bool := rule.lits.all (litMatch acls r)

/-- Acl::Tree as OrNode::doMatch + winningAction: the action of the first matching rule -/
def firstMatch (acls : List Acl) (r : Req) : List Rule → Option Bool
  | [] => none
  | rule :: rest => if ruleMatch acls r rule then some rule.allow else firstMatch acls r rest

/-- ACLChecklist::calcImplicitAnswer: the reverse of the last rule's action -/
def implicitAnswer (rules : List Rule) : Bool :=
  match rules.getLast? with
  | some rule => !rule.allow
  | none => false      -- ACCESS_DUNNO: not allowed

/-- `answer.allowed()` of the http_access check -/
def allowed (c : Conf) (r : Req) : Bool :=
  match firstMatch c.acls r c.rules with
  | some a => a
  | none => implicitAnswer c.rules

/-- what the rig observes for one request -/
inductive Obs where
  /-- 403 with ERR_ACCESS_DENIED, nothing arrives at the origin -/
  | deny
  /-- the request arrives at the origin once, the origin's reply reaches the client -/
  | fwd
  /-- allowed, but the host has no address: 503 ERR_DNS_FAIL, nothing arrives -/
  | dnsfail
  deriving DecidableEq, Repr

def Obs.token : Obs → String
  | .deny => "deny"
  | .fwd => "fwd"
  | .dnsfail => "dnsfail"

/-- clientAccessCheckDone + forwarding to an origin that listens on every address of the rig's universe -/
def observe (c : Conf) (r : Req) : Obs :=
  if allowed c r then (if r.ips.isEmpty then .dnsfail else .fwd) else .deny

/-- `while ((l = strlen(foundHost)) > 0 && foundHost[--l] == '.') foundHost[l] = '\0';` (AnyP::Uri::parse) -/
def stripTrailingDots (h : Bytes) : Bytes := (h.reverse.dropWhile (· == 46)).reverse

/-- the request as the rig sends it (`METHOD http://host[:port]/... HTTP/1.1` from TCP address `src`) → what the
checklist reads: AnyP::Uri::parse lower-cases the host, removes trailing dots and supplies the scheme's default port
(80); a host that is a dotted quad is numeric and is its own address.  An `X-Forwarded-For` header does not change the
address `src` ACLs look at: `follow_x_forwarded_for` is `deny all` by default, so clientFollowXForwardedForCheck leaves
`indirect_client_addr` = the TCP client address. -/
def mkReq (src : Nat) (method host : Bytes) (port : Option Nat) (ips : List Nat) (rdns : Option Bytes) : Req :=
  let h := stripTrailingDots (Domain.fold host)
  { src := src, method := method, host := h, port := port.getD 80,
    numeric := (match quad? h with | some (.val _) => true | _ => false),
    ips := ips, rdns := rdns }

/-- a whole scenario: the configuration section and the requests -/
inductive Scenario where
  | reject (r : Reject)
  | unmodelled
  | run (obs : List Obs)
  deriving DecidableEq, Repr

def scenario (lines : List Bytes) (reqs : List Req) : Scenario :=
  match parseConf lines with
  | .ok c => .run (reqs.map (observe c))
  | .reject r => .reject r
  | .unmodelled => .unmodelled

end SquidModel.Acl.Http
