/-
C44 — several checklists over one access list, interleaved at the granularity of "start a check" /
"complete a pending lookup" (each such step runs the C++ code without interruption), and the model of how
squid.conf text becomes the ACL tree (InnerNode::lineParse, AllOf::parse, AnyOf::parse, aclParseAccessLine).
-/
import SquidModel.Acl.Tree

namespace SquidModel.Acl.Tree

/-! ### configuration -> tree -/

/-- one name on an ACL line: `[!]L<idx>` or `[!]G<idx>` -/
structure Item where
  neg : Bool
  isGroup : Bool
  idx : Nat
  deriving Repr, Inhabited, DecidableEq

inductive GroupKind where
  | allOf | anyOf
  deriving Repr, Inhabited, DecidableEq

structure GroupSpec where
  kind : GroupKind
  lines : List (List Item)
  deriving Repr, Inhabited

/-- Acl::Node::FindByName for the names the harness defines -/
def findByName (nleaves : Nat) (groups : List Node) (it : Item) : Option Node :=
  if it.isGroup then groups[it.idx]? else if it.idx < nleaves then some (.leaf it.idx) else none

/-- Acl::InnerNode::lineParse: `none` = "ACL not found" (self_destruct) -/
def lineParse (nleaves : Nat) (groups : List Node) : List Item → Option (List Node)
  | [] => some []
  | it :: rest =>
    match findByName nleaves groups it with
    | none => none
    | some a =>
      match lineParse nleaves groups rest with
      | none => none
      | some ns => some ((if it.neg then Node.not a else a) :: ns)

/-- Acl::AllOf::parse for one more line -/
def allOfParse (node : Node) (line : List Node) : Node :=
  match node with
  | .allOf [] => .allOf [.and line]                                    -- first line: use it as is
  | .allOf (.or ws :: rest) => .allOf (.or (ws ++ [.and line]) :: rest) -- saw multiple lines before
  | .allOf (old :: rest) => .allOf (.or [old, .and line] :: rest)       -- saw a single line before
  | n => n

/-- Acl::AnyOf::parse for one more line -/
def anyOfParse (node : Node) (line : List Node) : Node :=
  match node with
  | .or cs => .or (cs ++ line)
  | n => n

def parseGroupLines (nleaves : Nat) (groups : List Node) (kind : GroupKind) : Node → List (List Item) → Option Node
  | node, [] => some node
  | node, l :: rest =>
    match lineParse nleaves groups l with
    | none => none
    | some ns =>
      parseGroupLines nleaves groups kind (match kind with | .allOf => allOfParse node ns | .anyOf => anyOfParse node ns) rest

/-- the `acl Gk all-of|any-of ...` directives, in order -/
def parseGroups (nleaves : Nat) : List Node → List GroupSpec → Option (List Node)
  | groups, [] => some groups
  | groups, g :: rest =>
    match parseGroupLines nleaves groups g.kind (match g.kind with | .allOf => .allOf [] | .anyOf => .or []) g.lines with
    | none => none
    | some node => parseGroups nleaves (groups ++ [node]) rest

/-- the access rules: `viaAccessLine` = aclParseAccessLine (a rule without ACLs is skipped) -/
def parseRules (nleaves : Nat) (groups : List Node) (viaAccessLine : Bool) : List (Answer × List Item) → Option Rules
  | [] => some []
  | (a, l) :: rest =>
    match lineParse nleaves groups l with
    | none => none
    | some ns =>
      match parseRules nleaves groups viaAccessLine rest with
      | none => none
      | some rs => some (if viaAccessLine && ns.isEmpty then rs else (a, Node.and ns) :: rs)

/-! ### checklists and schedules -/

inductive Kind where
  | nonBlocking | fast
  deriving Repr, Inhabited, DecidableEq

/-- what a scenario says about one checklist -/
structure Check where
  kind : Kind
  script : List LeafScript
  banned : List Answer
  rounds : List (List Round)

def Check.ctx (c : Check) : Ctx :=
  { script := c.script, banned := c.banned, asyncCaller := c.kind == .nonBlocking }

inductive Status where
  | idle
  | paused (s : CL)
  | done (a : Answer) (s : CL)
  deriving Repr, Inhabited

def Status.isDone : Status → Bool
  | .done _ _ => true
  | _ => false

structure Sys where
  lastMatch : Option Nat := none     -- Acl::OrNode::lastMatch_ of the Acl::Tree (shared by all checklists)
  sts : List Status := []
  trace : List (Nat × Nat × Int) := []  -- (checklist, leaf, result), newest first
  deriving Repr, Inhabited

def ofStepOut : StepOut → Status
  | .answered a s => .done a s
  | .paused s => .paused s

def stepTrace : StepOut → List (Nat × Int)
  | .answered _ s => s.trace
  | .paused s => s.trace

/-- start the check or complete its pending lookup -/
def stepCheck (rules : Option Rules) (c : Check) (lm : Option Nat) : Status → Option Nat × StepOut
  | .idle =>
    match c.kind with
    | .nonBlocking => nonBlockingCheck c.ctx rules lm { rounds := c.rounds }
    | .fast => fastCheck c.ctx rules lm { rounds := c.rounds }
  | .paused s => completeLookup c.ctx rules lm { s with trace := [] }
  | .done a s => (lm, .answered a { s with trace := [] })

def step (rules : Option Rules) (checks : List Check) (sys : Sys) (i : Nat) : Sys :=
  match checks[i]?, sys.sts[i]? with
  | some c, some st =>
    let (lm, out) := stepCheck rules c sys.lastMatch st
    { lastMatch := lm, sts := sys.sts.set i (ofStepOut out),
      trace := (stepTrace out).map (fun e => (i, e.1, e.2)) ++ sys.trace }
  | _, _ => sys

def liveFrom : List Status → Nat → List Nat
  | [], _ => []
  | st :: rest, i => if st.isDone then liveFrom rest (i + 1) else i :: liveFrom rest (i + 1)

/-- the indices of the checklists that have not answered yet -/
def live (sys : Sys) : List Nat := liveFrom sys.sts 0

/-- harness/c44.cc: each schedule entry picks one of the live checklists; 0 after the schedule ends -/
def runSched (rules : Option Rules) (checks : List Check) : Nat → List Nat → Sys → Sys
  | 0, _, sys => sys
  | fuel + 1, sched, sys =>
    match live sys with
    | [] => sys
    | l :: ls =>
      let k := sched.headD 0
      runSched rules checks fuel sched.tail (step rules checks sys ((l :: ls).getD (k % (l :: ls).length) l))

def totalRounds (rs : List (List Round)) : Nat := (rs.map List.length).sum

/-- enough fuel for every schedule: every step starts a check or consumes a lookup -/
def fuelFor (checks : List Check) : Nat := (checks.map (fun c => totalRounds c.rounds + 1)).sum + 1

def initSys (checks : List Check) : Sys := { sts := checks.map (fun _ => Status.idle) }

end SquidModel.Acl.Tree
