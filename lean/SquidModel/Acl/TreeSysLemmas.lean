/-
C44 — any number of checklists over one access list, any interleaving of their starts and lookup completions:
every checklist that answers gives its own reference answer, no assertion fails, and every schedule ends.
-/
import SquidModel.Acl.TreeTop

namespace SquidModel.Acl.Tree

/-- what a scenario must guarantee about a checklist: no leaf needs a 7th goAsync() call in one evaluation, and
a fast check has no leaf that needs a lookup -/
def CheckOk (c : Check) : Prop := RoundsOk c.ctx c.rounds

/-- the answer the property demands for the check `c` over the access list `rules` (`none` = nil accessList) -/
def expected (rules : Option Rules) (c : Check) : Answer :=
  match rules with
  | some rs => reference c.ctx rs
  | none =>
    match c.kind with
    | .nonBlocking => { code := .dunno }
    | .fast => { code := .dunno, implicit := true }

/-- the invariant of one checklist -/
def StatusInv (rules : Option Rules) (c : Check) : Status → Prop
  | .idle => True
  | .paused s => ∃ rs, rules = some rs ∧ PausedInv c.ctx rs (refTreeAt c.ctx rs 0 []) s
  | .done a s => a = expected rules c ∧ s.fault = none

/-- how many steps a checklist can still take at most -/
def statusMeasure (c : Check) : Status → Nat
  | .idle => totalRounds c.rounds + 1
  | .paused s => totalRounds s.rounds
  | .done _ _ => 0

theorem totalRounds_pos {rs : List (List Round)} {l : Nat} (h : roundsOf rs l ≠ []) : 0 < totalRounds rs := by
  have := totalRounds_pop_lt rs l h
  omega

theorem ctx_fast (c : Check) (h : c.kind = .fast) : c.ctx.asyncCaller = false := by
  simp [Check.ctx, h]

/-- one step of one checklist keeps its invariant and, unless it had answered already, brings it closer to the
answer; the value of the shared `lastMatch_` it starts from is irrelevant -/
theorem stepCheck_inv (rules : Option Rules) (c : Check) (hc : CheckOk c) (lm : Option Nat) (st : Status)
    (h : StatusInv rules c st) :
    StatusInv rules c (ofStepOut (stepCheck rules c lm st).2) ∧
      (st.isDone = false → statusMeasure c (ofStepOut (stepCheck rules c lm st).2) < statusMeasure c st) := by
  cases st with
  | idle =>
    cases hk : c.kind with
    | nonBlocking =>
      cases rules with
      | none =>
        obtain ⟨s', hs', hf⟩ := nonBlockingCheck_nil c.ctx lm { rounds := c.rounds } rfl rfl
        simp only [stepCheck, hk, hs', ofStepOut, StatusInv, expected, statusMeasure]
        exact ⟨⟨trivial, hf⟩, fun _ => by omega⟩
      | some rs =>
        have hp := nonBlockingCheck_spec c.ctx rs lm { rounds := c.rounds } rfl rfl rfl hc
        simp only [stepCheck, hk]
        generalize (nonBlockingCheck c.ctx (some rs) lm { rounds := c.rounds }).2 = out at hp
        cases out with
        | answered a s' =>
          simp only [ofStepOut, StatusInv, expected, statusMeasure]
          exact ⟨hp, fun _ => by omega⟩
        | paused s' =>
          simp only [ofStepOut, StatusInv, statusMeasure]
          exact ⟨⟨rs, rfl, hp.1⟩, fun _ => by have := hp.2; simp only at this; omega⟩
    | fast =>
      cases rules with
      | none =>
        obtain ⟨s', hs', hf⟩ := fastCheck_nil c.ctx lm { rounds := c.rounds } rfl rfl
        simp only [stepCheck, hk, hs', ofStepOut, StatusInv, expected, statusMeasure]
        exact ⟨⟨trivial, hf⟩, fun _ => by omega⟩
      | some rs =>
        obtain ⟨s', hs', hf⟩ := fastCheck_spec c.ctx rs lm { rounds := c.rounds } (ctx_fast c hk) rfl rfl rfl hc
        simp only [stepCheck, hk, hs', ofStepOut, StatusInv, expected, statusMeasure]
        exact ⟨⟨trivial, hf⟩, fun _ => by omega⟩
  | paused s =>
    obtain ⟨rs, hrs, hp⟩ := h
    subst hrs
    have hp' : PausedInv c.ctx rs (refTreeAt c.ctx rs 0 []) { s with trace := [] } :=
      ⟨hp.stage, hp.fin, hp.fault, hp.rounds, hp.pending, hp.valid, hp.nonempty, hp.spec⟩
    have hq := completeLookup_spec c.ctx rs lm { s with trace := [] } hp'
    obtain ⟨l, _, hne⟩ := hp.pending
    have hpos := totalRounds_pos hne
    simp only [stepCheck]
    generalize (completeLookup c.ctx (some rs) lm { s with trace := [] }).2 = out at hq
    cases out with
    | answered a s' =>
      simp only [ofStepOut, StatusInv, expected, statusMeasure]
      exact ⟨hq, fun _ => hpos⟩
    | paused s' =>
      simp only [ofStepOut, StatusInv, statusMeasure]
      exact ⟨⟨rs, rfl, hq.1⟩, fun _ => by have := hq.2; simp only at this; omega⟩
  | done a s =>
    simp only [stepCheck, ofStepOut, StatusInv, Status.isDone]
    exact ⟨⟨h.1, h.2⟩, fun hd => by cases hd⟩

/-! ### the system of checklists -/

/-- the invariant of the whole system: every checklist satisfies its own -/
structure SysInv (rules : Option Rules) (checks : List Check) (sys : Sys) : Prop where
  len : sys.sts.length = checks.length
  each : ∀ (i : Nat) (c : Check) (st : Status), checks[i]? = some c → sys.sts[i]? = some st → StatusInv rules c st

def sysMeasure : List Check → List Status → Nat
  | c :: cs, st :: sts => statusMeasure c st + sysMeasure cs sts
  | _, _ => 0

theorem sysMeasure_set_lt (checks : List Check) (sts : List Status) (i : Nat) (c : Check) (st st' : Status)
    (hc : checks[i]? = some c) (hs : sts[i]? = some st) (hlt : statusMeasure c st' < statusMeasure c st) :
    sysMeasure checks (sts.set i st') < sysMeasure checks sts := by
  induction checks generalizing sts i with
  | nil => simp at hc
  | cons c0 cs ih =>
    cases sts with
    | nil => simp at hs
    | cons st0 sts =>
      cases i with
      | zero =>
        simp only [List.getElem?_cons_zero, Option.some.injEq] at hc hs
        subst hc hs
        simp only [List.set_cons_zero, sysMeasure]
        omega
      | succ i =>
        simp only [List.getElem?_cons_succ] at hc hs
        simp only [List.set_cons_succ, sysMeasure]
        have := ih sts i hc hs
        omega

theorem step_sts (rules : Option Rules) (checks : List Check) (sys : Sys) (i : Nat) (c : Check) (st : Status)
    (hc : checks[i]? = some c) (hs : sys.sts[i]? = some st) :
    (step rules checks sys i).sts = sys.sts.set i (ofStepOut (stepCheck rules c sys.lastMatch st).2) := by
  simp only [step, hc, hs]

theorem step_sts_none (rules : Option Rules) (checks : List Check) (sys : Sys) (i : Nat)
    (h : checks[i]? = none ∨ sys.sts[i]? = none) : step rules checks sys i = sys := by
  unfold step
  rcases h with h | h
  · simp only [h]
  · cases hc : checks[i]? <;> simp only [h]

/-- one step of any checklist keeps the invariant of the system -/
theorem step_inv (rules : Option Rules) (checks : List Check) (hok : ∀ c ∈ checks, CheckOk c) (sys : Sys)
    (h : SysInv rules checks sys) (i : Nat) : SysInv rules checks (step rules checks sys i) := by
  cases hc : checks[i]? with
  | none => rw [step_sts_none rules checks sys i (Or.inl hc)]; exact h
  | some c =>
    cases hs : sys.sts[i]? with
    | none => rw [step_sts_none rules checks sys i (Or.inr hs)]; exact h
    | some st =>
      have hst := step_sts rules checks sys i c st hc hs
      refine ⟨by rw [hst, List.length_set]; exact h.len, ?_⟩
      intro j c' st' hc' hs'
      rw [hst] at hs'
      by_cases hij : i = j
      · subst hij
        have hlt : i < sys.sts.length := by
          rcases List.getElem?_eq_some_iff.mp hs with ⟨hl, _⟩; exact hl
        rw [List.getElem?_set_self hlt] at hs'
        rw [hc] at hc'
        cases hc'; cases hs'
        exact (stepCheck_inv rules c (hok c (List.mem_of_getElem? hc)) sys.lastMatch st (h.each i c st hc hs)).1
      · rw [List.getElem?_set_ne hij] at hs'
        exact h.each j c' st' hc' hs'

/-- a step of a checklist that has not answered yet brings the system closer to the end -/
theorem step_measure (rules : Option Rules) (checks : List Check) (hok : ∀ c ∈ checks, CheckOk c) (sys : Sys)
    (h : SysInv rules checks sys) (i : Nat) (st : Status) (hs : sys.sts[i]? = some st) (hnd : st.isDone = false) :
    sysMeasure checks (step rules checks sys i).sts < sysMeasure checks sys.sts := by
  have hlt : i < checks.length := by
    rcases List.getElem?_eq_some_iff.mp hs with ⟨hl, _⟩; rw [← h.len]; exact hl
  have hc : checks[i]? = some checks[i] := List.getElem?_eq_getElem hlt
  rw [step_sts rules checks sys i _ st hc hs]
  exact sysMeasure_set_lt checks sys.sts i _ st _ hc hs
    ((stepCheck_inv rules _ (hok _ (List.getElem_mem hlt)) sys.lastMatch st (h.each i _ st hc hs)).2 hnd)

theorem initSys_inv (rules : Option Rules) (checks : List Check) : SysInv rules checks (initSys checks) := by
  refine ⟨by simp [initSys], ?_⟩
  intro i c st _ hs
  simp only [initSys, List.getElem?_map] at hs
  cases hci : checks[i]? with
  | none => simp [hci] at hs
  | some c0 => simp [hci] at hs; subst hs; trivial

/-- any interleaving: a list of checklist indices, each starting that check or completing its pending lookup -/
def runSteps (rules : Option Rules) (checks : List Check) (is : List Nat) (sys : Sys) : Sys :=
  is.foldl (step rules checks) sys

theorem runSteps_inv (rules : Option Rules) (checks : List Check) (hok : ∀ c ∈ checks, CheckOk c) (is : List Nat)
    (sys : Sys) (h : SysInv rules checks sys) : SysInv rules checks (runSteps rules checks is sys) := by
  induction is generalizing sys with
  | nil => exact h
  | cons i rest ih => exact ih _ (step_inv rules checks hok sys h i)

theorem runSched_inv (rules : Option Rules) (checks : List Check) (hok : ∀ c ∈ checks, CheckOk c) (fuel : Nat)
    (sched : List Nat) (sys : Sys) (h : SysInv rules checks sys) :
    SysInv rules checks (runSched rules checks fuel sched sys) := by
  induction fuel generalizing sched sys with
  | zero => exact h
  | succ fuel ih =>
    simp only [runSched]
    split
    · exact h
    · exact ih _ _ (step_inv rules checks hok sys h _)

/-! ### every schedule ends -/

theorem liveFrom_mem (sts : List Status) (i0 j : Nat) (h : j ∈ liveFrom sts i0) :
    i0 ≤ j ∧ ∃ st, sts[j - i0]? = some st ∧ st.isDone = false := by
  induction sts generalizing i0 with
  | nil => simp [liveFrom] at h
  | cons st rest ih =>
    simp only [liveFrom] at h
    split at h
    · obtain ⟨h1, st', h2, h3⟩ := ih (i0 + 1) h
      refine ⟨by omega, st', ?_, h3⟩
      have : j - i0 = (j - (i0 + 1)) + 1 := by omega
      rw [this, List.getElem?_cons_succ]; exact h2
    · rcases List.mem_cons.mp h with h | h
      · subst h
        refine ⟨Nat.le_refl _, st, by simp, ?_⟩
        cases hd : st.isDone <;> simp_all
      · obtain ⟨h1, st', h2, h3⟩ := ih (i0 + 1) h
        refine ⟨by omega, st', ?_, h3⟩
        have : j - i0 = (j - (i0 + 1)) + 1 := by omega
        rw [this, List.getElem?_cons_succ]; exact h2

theorem liveFrom_nil (sts : List Status) (i0 : Nat) (h : liveFrom sts i0 = []) : ∀ st ∈ sts, st.isDone = true := by
  induction sts generalizing i0 with
  | nil => simp
  | cons st rest ih =>
    simp only [liveFrom] at h
    split at h
    · intro st' hm
      rcases List.mem_cons.mp hm with hm | hm
      · subst hm; assumption
      · exact ih (i0 + 1) h st' hm
    · cases h

theorem sysMeasure_zero (rules : Option Rules) (checks : List Check) (sys : Sys) (h : SysInv rules checks sys)
    (hz : sysMeasure checks sys.sts = 0) : ∀ st ∈ sys.sts, st.isDone = true := by
  obtain ⟨lm, sts, tr⟩ := sys
  simp only at hz h ⊢
  have hlen := h.len
  have heach := h.each
  simp only at hlen heach
  clear h
  induction checks generalizing sts with
  | nil =>
    cases sts with
    | nil => simp
    | cons _ _ => simp at hlen
  | cons c cs ih =>
    cases sts with
    | nil => simp
    | cons st rest =>
      simp only [sysMeasure] at hz
      intro st' hm
      rcases List.mem_cons.mp hm with hm | hm
      · subst hm
        have hi := heach 0 c st' (by simp) (by simp)
        cases st' with
        | idle => simp [statusMeasure] at hz
        | paused s =>
          obtain ⟨rs, _, hp⟩ := hi
          obtain ⟨l, _, hne⟩ := hp.pending
          have := totalRounds_pos hne
          simp only [statusMeasure] at hz
          omega
        | done a s => rfl
      · refine ih rest (by omega) (by simpa using hlen) ?_ st' hm
        intro i c' st'' hc' hs'
        exact heach (i + 1) c' st'' (by simpa using hc') (by simpa using hs')

/-- with enough fuel the harness's schedule loop ends with every checklist answered, whatever the schedule -/
theorem runSched_done (rules : Option Rules) (checks : List Check) (hok : ∀ c ∈ checks, CheckOk c) (fuel : Nat)
    (sched : List Nat) (sys : Sys) (h : SysInv rules checks sys) (hf : sysMeasure checks sys.sts ≤ fuel) :
    ∀ st ∈ (runSched rules checks fuel sched sys).sts, st.isDone = true := by
  induction fuel generalizing sched sys with
  | zero =>
    simp only [runSched]
    exact sysMeasure_zero rules checks sys h (by omega)
  | succ fuel ih =>
    simp only [runSched]
    split
    · rename_i hl
      exact liveFrom_nil sys.sts 0 hl
    · rename_i l ls hl
      have hmem : (l :: ls).getD (sched.headD 0 % (l :: ls).length) l ∈ live sys := by
        rw [hl]
        have hlt : sched.headD 0 % (l :: ls).length < (l :: ls).length := Nat.mod_lt _ (by simp)
        have hg : (l :: ls).getD (sched.headD 0 % (l :: ls).length) l = (l :: ls)[sched.headD 0 % (l :: ls).length] := by
          rw [List.getD_eq_getElem?_getD, List.getElem?_eq_getElem hlt]; rfl
        rw [hg]
        exact List.getElem_mem hlt
      obtain ⟨_, st, hst, hnd⟩ := liveFrom_mem sys.sts 0 _ hmem
      simp only [Nat.sub_zero] at hst
      have hm := step_measure rules checks hok sys h _ st hst hnd
      exact ih _ _ (step_inv rules checks hok sys h _) (by omega)

theorem sysMeasure_init (checks : List Check) : sysMeasure checks (initSys checks).sts + 1 = fuelFor checks := by
  simp only [initSys, fuelFor]
  induction checks with
  | nil => simp [sysMeasure]
  | cons c cs ih =>
    simp only [List.map_cons, sysMeasure, statusMeasure, List.sum_cons] at ih ⊢
    omega

/-! ### an executable form of `CheckOk` -/

def checkOkB (c : Check) : Bool :=
  c.rounds.all (fun r => okRounds r && (c.kind == .nonBlocking || r.isEmpty))

theorem roundsOf_mem_or_nil (rs : List (List Round)) (l : Nat) : roundsOf rs l ∈ rs ∨ roundsOf rs l = [] := by
  unfold roundsOf
  by_cases h : l < rs.length
  · left; rw [List.getD_eq_getElem?_getD, List.getElem?_eq_getElem h]; exact List.getElem_mem h
  · right; rw [List.getD_eq_getElem?_getD, List.getElem?_eq_none (by omega)]; rfl

theorem checkOk_of_B (c : Check) (h : checkOkB c = true) : CheckOk c := by
  intro l
  rcases roundsOf_mem_or_nil c.rounds l with hm | hn
  · have := List.all_eq_true.mp h _ hm
    simp only [Bool.and_eq_true, Bool.or_eq_true, beq_iff_eq, List.isEmpty_iff] at this
    refine ⟨this.1, fun ha => ?_⟩
    rcases this.2 with hk | he
    · simp [Check.ctx, hk] at ha
    · exact he
  · rw [hn]; exact ⟨rfl, fun _ => rfl⟩

end SquidModel.Acl.Tree
