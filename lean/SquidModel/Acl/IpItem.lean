/-
From a configured numeric token to the stored value: for a regular token (a proper mask, addresses within the family's width,
a range that is not reversed) `FactoryParse` succeeds and the stored value's block range is the address set the token denotes
(`Item.lo .. Item.hi`, host bits below the mask ignored).  Core Lean only.
-/
import SquidModel.Acl.IpOrder

namespace SquidModel.Acl.Ip

def Item.width (it : Item) : Nat := if it.fam == Fam.v4 then 32 else 128

/-- the number of zero bits of a contiguous IPv4 netmask -/
def netmaskBits (m : Nat) : Option Nat := (List.range 33).find? (fun k => m == 2 ^ 32 - 2 ^ k)

/-- the number of host bits a proper mask leaves: none, `/n` with `n ≤ width`, or a contiguous dotted IPv4 netmask -/
def Item.hostBits (it : Item) : Option Nat :=
  match it.mask with
  | .none => some 0
  | .cidr n => if n ≤ it.width then some (it.width - n) else none
  | .dotted m => if it.fam == Fam.v4 then netmaskBits m else none

/-- `a` with its `k` low bits cleared -/
def blockLo (k a : Nat) : Nat := a - a % 2 ^ k

/-- first address of the set the token denotes -/
def Item.lo (it : Item) (k : Nat) : Nat := embed it.fam (blockLo k it.a1)
/-- last address of the set the token denotes: the end of the block of the second (or only) address -/
def Item.hi (it : Item) (k : Nat) : Nat := embed it.fam (blockLo k (it.a2.getD it.a1)) + (2 ^ k - 1)

/-- the tokens the partial theorem speaks about -/
structure Item.Regular (it : Item) (k : Nat) : Prop where
  bits : it.hostBits = some k
  /-- the mask is not `/0` (squid turns a zero-length prefix into the all-ones "no mask" value) -/
  nz : k < it.width
  r1 : it.a1 < 2 ^ it.width
  r2 : ∀ b, it.a2 = some b → b < 2 ^ it.width ∧ it.a1 ≤ b
  /-- a range written in IPv6 syntax does not end (after masking) at `::ffff:0.0.0.0` unless it starts there too
      (squid reads such a second address as "no second address") -/
  deg : it.fam = Fam.v6 → ∀ b, it.a2 = some b → blockLo k b = V4ANY → blockLo k it.a1 = V4ANY

theorem netmaskBits_some {m k : Nat} (h : netmaskBits m = some k) : k < 33 ∧ m = 2 ^ 32 - 2 ^ k := by
  unfold netmaskBits at h
  have h1 := List.mem_of_find?_eq_some h
  have h2 := List.find?_some h
  simp only [List.mem_range] at h1
  exact ⟨h1, by simpa using h2⟩

theorem Item.Regular.k_le {it : Item} {k : Nat} (h : it.Regular k) : k ≤ it.width := by
  have hb := h.bits
  unfold Item.hostBits at hb
  split at hb
  · simp at hb; omega
  · split at hb
    · simp at hb; omega
    · simp at hb
  · split at hb
    · rename_i hf
      have := (netmaskBits_some hb).1
      have : it.width = 32 := by unfold Item.width; simp [hf]
      omega
    · simp at hb

theorem Item.width_le (it : Item) : it.width ≤ 128 := by unfold Item.width; split <;> omega

theorem applyCidr_clear {n w k : Nat} {fam : Fam} (hw : w = if fam == Fam.v6 then 128 else 32) (hn1 : 1 ≤ n) (hnw : n ≤ w)
    (hk : k = w - n) : applyCidr ALL1 n fam = some (pmask k) := by
  have hw128 : w ≤ 128 := by rw [hw]; split <;> omega
  unfold applyCidr
  have c1 : ¬ n > 128 := by omega
  have c2 : (decide (n > 32) && fam == Fam.v4) = false := by
    cases fam <;> simp_all <;> omega
  have c3 : ¬ n = 0 := by omega
  simp only [c1, c2, c3, if_false, Bool.false_eq_true]
  rw [← hw, ← hk]
  by_cases hk0 : k = 0
  · simp [hk0, pmask_zero]
  · simp only [hk0, if_false]
    have := shift_clear ⟨k, by omega⟩
    simp only at this
    rw [this]

theorem decodeMask_spec {it : Item} {k : Nat} (h : it.Regular k) :
    ∃ dep, decodeMask it.mask it.fam = some (pmask k, dep) := by
  have hb := h.bits
  have hwid : it.width = if it.fam == Fam.v6 then 128 else 32 := by
    unfold Item.width; cases it.fam <;> simp
  unfold Item.hostBits at hb
  unfold decodeMask
  cases hm : it.mask with
  | none =>
    rw [hm] at hb
    simp only [Option.some.injEq] at hb; subst hb
    exact ⟨false, by simp [pmask_zero]⟩
  | cidr n =>
    rw [hm] at hb
    simp only at hb ⊢
    split at hb
    · rename_i hn
      simp only [Option.some.injEq] at hb
      have hle : n ≤ 128 := by have := it.width_le; omega
      have hnz := h.nz
      have hn0 : ¬ n = 0 := by omega
      simp only [hle, if_true, hn0, decide_false, Bool.false_and, Bool.false_eq_true, if_false]
      rw [applyCidr_clear hwid (by omega) hn hb.symm]
      exact ⟨false, rfl⟩
    · simp at hb
  | dotted m =>
    rw [hm] at hb
    simp only at hb ⊢
    split at hb
    · obtain ⟨hk33, hme⟩ := netmaskBits_some hb
      rename_i hf4
      have hk32 : k < 32 := by
        have := h.nz; unfold Item.width at this; simpa [hf4] using this
      refine ⟨true, ?_⟩
      unfold decodeDotted
      have hc := cidr_netmask ⟨k, by omega⟩
      simp only at hc
      rw [hme, hc]
      rw [applyCidr_clear (w := 32) (k := k) (by simp) (by omega) (by omega) (by omega)]
      rfl
    · simp at hb

/-! ### embedding IPv4 -/

theorem V4ANY_dvd {k : Nat} (hk : k ≤ 32) : ∃ c, V4ANY = 2 ^ k * c := by
  refine ⟨2 ^ (32 - k) * 0xffff, ?_⟩
  rw [← Nat.mul_assoc, ← Nat.pow_add]
  have : k + (32 - k) = 32 := by omega
  rw [this]; decide

theorem embed_lt {it : Item} {a : Nat} (ha : a < 2 ^ it.width) : embed it.fam a < 2 ^ 128 := by
  unfold embed Item.width at *
  cases hf : it.fam
  · simp only [hf, beq_self_eq_true, if_true] at ha ⊢
    have : V4ANY + 2 ^ 32 < 2 ^ 128 := by decide
    omega
  · simpa [hf] using ha

/-- masking commutes with the IPv4 embedding -/
theorem embed_block {it : Item} {k a : Nat} (hk : k ≤ it.width) :
    blockLo k (embed it.fam a) = embed it.fam (blockLo k a) := by
  unfold embed blockLo Item.width at *
  cases hf : it.fam
  · simp only [hf, beq_self_eq_true, if_true] at hk ⊢
    obtain ⟨c, hc⟩ := V4ANY_dvd hk
    have : (V4ANY + a) % 2 ^ k = a % 2 ^ k := by
      rw [hc, Nat.mul_add_mod]
    rw [this]
    have := Nat.mod_le a (2 ^ k)
    omega
  · simp

theorem embed_mono {fam : Fam} {a b : Nat} (h : a ≤ b) : embed fam a ≤ embed fam b := by
  unfold embed; split <;> omega

theorem blockLo_mono {k a b : Nat} (h : a ≤ b) : blockLo k a ≤ blockLo k b := by
  unfold blockLo
  have hp : 0 < 2 ^ k := Nat.two_pow_pos _
  exact block_ge hp block_aligned (by have := Nat.sub_le a (a % 2 ^ k); omega)

theorem blockLo_le (k a : Nat) : blockLo k a ≤ a := Nat.sub_le _ _

/-- the block of `a` ends inside the family's address space -/
theorem block_top {k w a : Nat} (hk : k ≤ w) (ha : a < 2 ^ w) : blockLo k a + (2 ^ k - 1) < 2 ^ w := by
  unfold blockLo
  have hp : 0 < 2 ^ k := Nat.two_pow_pos _
  have hw : 2 ^ w = 2 ^ (w - k) * 2 ^ k := by rw [← Nat.pow_add]; congr 1; omega
  have h1 : a / 2 ^ k < 2 ^ (w - k) := by
    apply (Nat.div_lt_iff_lt_mul hp).mpr; rw [← hw]; exact ha
  have h2 : a - a % 2 ^ k = 2 ^ k * (a / 2 ^ k) := by have := Nat.div_add_mod a (2 ^ k); omega
  have h3 : 2 ^ k * (a / 2 ^ k + 1) ≤ 2 ^ k * 2 ^ (w - k) := Nat.mul_le_mul_left _ (by omega)
  rw [Nat.mul_add, Nat.mul_one, Nat.mul_comm (2 ^ k) (2 ^ (w - k)), ← hw] at h3
  omega

theorem embed_top {it : Item} {k a : Nat} (hk : k ≤ it.width) (ha : a < 2 ^ it.width) :
    embed it.fam (blockLo k a) + (2 ^ k - 1) < 2 ^ 128 := by
  have h := block_top hk ha
  unfold embed Item.width at *
  cases hf : it.fam
  · simp only [hf, beq_self_eq_true, if_true] at h ⊢
    have : V4ANY + 2 ^ 32 < 2 ^ 128 := by decide
    omega
  · simpa [hf] using h

/-- what `FactoryParse` stores for a token with `k` host bits: both addresses embedded and masked, and the prefix mask -/
def Item.stored (it : Item) (k : Nat) : Val :=
  ⟨embed it.fam (blockLo k it.a1),
   match it.a2 with
   | none => 0
   | some b => embed it.fam (blockLo k b),
   pmask k⟩

/-- `FactoryParse` on a regular token: the stored value is well formed and its block range is what the token denotes -/
theorem factoryParse_spec {it : Item} {k : Nat} (h : it.Regular k) :
    ∃ evs, factoryParse it = some (it.stored k, evs) ∧ (it.stored k).WF k ∧
      (it.stored k).first = it.lo k ∧ (it.stored k).last = it.hi k := by
  obtain ⟨dep, hd⟩ := decodeMask_spec h
  have hkw := h.k_le
  have hk128 : k ≤ 128 := by have := it.width_le; omega
  have e1 : embed it.fam it.a1 < 2 ^ 128 := embed_lt h.r1
  have hand : ∀ a, a < 2 ^ it.width → embed it.fam a &&& pmask k = embed it.fam (blockLo k a) := by
    intro a ha
    rw [and_pmask (embed_lt ha) hk128]
    exact embed_block hkw
  have hzero : (0 : Nat) &&& pmask k = 0 := by simp
  have hal : ∀ a, (embed it.fam (blockLo k a)) % 2 ^ k = 0 := by
    intro a; rw [← embed_block hkw]; exact block_aligned
  have hnr : ∀ a1 a2, (isAnyAddr a2 = false → a1 ≤ a2) → (Gen.IpAcl.rejectsReversedRange && reversed a1 a2) = false := by
    intro a1 a2 ho
    unfold reversed
    by_cases ha : isAnyAddr a2 = true
    · simp [ha]
    · have := ho (by simpa using ha)
      have hm : ¬ matchIPAddr a2 a1 < 0 := by rw [matchIPAddr_neg]; omega
      simp [hm]
  unfold factoryParse
  simp only [hd, applyMask]
  cases ha2 : it.a2 with
  | none =>
    simp only [hzero, hand _ h.r1]
    have w : Val.WF ⟨embed it.fam (blockLo k it.a1), 0, pmask k⟩ k := by
      refine ⟨hk128, rfl, ?_, by simp, hal _, by simp, ?_, ?_⟩
      · have := embed_top hkw h.r1; simp only; omega
      · intro hne; simp [isAnyAddr] at hne
      · refine ⟨embed_top hkw h.r1, ?_⟩
        have := two_pow_le_128 hk128
        have := Nat.two_pow_pos k
        simp only; omega
    have hst : it.stored k = ⟨embed it.fam (blockLo k it.a1), 0, pmask k⟩ := by simp [Item.stored, ha2]
    rw [hst]
    rw [hnr _ _ w.ord]
    refine ⟨_, rfl, w, ?_, ?_⟩
    · rw [Val.first_eq w]; rfl
    · rw [Val.last_eq w]
      unfold Val.ip Item.hi
      simp [isAnyAddr, ha2]
  | some b =>
    obtain ⟨hb, hab⟩ := h.r2 b ha2
    simp only [hand _ h.r1, hand _ hb]
    have w : Val.WF ⟨embed it.fam (blockLo k it.a1), embed it.fam (blockLo k b), pmask k⟩ k := by
      refine ⟨hk128, rfl, ?_, ?_, hal _, hal _, ?_, ?_⟩
      · have := embed_top hkw h.r1; simp only; omega
      · have := embed_top hkw hb; simp only; omega
      · intro _; exact embed_mono (blockLo_mono hab)
      · exact ⟨embed_top hkw h.r1, embed_top hkw hb⟩
    have hst : it.stored k = ⟨embed it.fam (blockLo k it.a1), embed it.fam (blockLo k b), pmask k⟩ := by
      simp [Item.stored, ha2]
    rw [hst]
    rw [hnr _ _ w.ord]
    refine ⟨_, rfl, w, ?_, ?_⟩
    · rw [Val.first_eq w]; rfl
    · rw [Val.last_eq w]
      unfold Val.ip Item.hi
      simp only [ha2, Option.getD_some]
      by_cases hany : isAnyAddr (embed it.fam (blockLo k b)) = true
      · simp only [hany, if_true]
        -- the masked second address is an "any" address: then so is the first
        have hle : embed it.fam (blockLo k it.a1) ≤ embed it.fam (blockLo k b) := embed_mono (blockLo_mono hab)
        rcases (isAnyAddr_iff _).mp hany with h0 | h1
        · rw [h0] at hle ⊢; omega
        · cases hf : it.fam
          · unfold embed at h1 hle ⊢
            simp only [hf, beq_self_eq_true, if_true] at h1 hle ⊢
            omega
          · have hb' : blockLo k b = V4ANY := by unfold embed at h1; simpa [hf] using h1
            have := h.deg hf b ha2 hb'
            unfold embed; simp [this, hb']
      · simp only [hany, if_false, Bool.false_eq_true]

/-- executable form of `∃ k, it.Regular k` -/
def Item.regularB (it : Item) : Bool :=
  match it.hostBits with
  | none => false
  | some k =>
    decide (k < it.width) && (decide (it.a1 < 2 ^ it.width) &&
    (match it.a2 with
     | none => true
     | some b => decide (b < 2 ^ it.width) && decide (it.a1 ≤ b) &&
         (it.fam != Fam.v6 || blockLo k b != V4ANY || blockLo k it.a1 == V4ANY)))

theorem regular_of_regularB {it : Item} (h : it.regularB = true) : ∃ k, it.Regular k := by
  unfold Item.regularB at h
  cases hb : it.hostBits with
  | none => simp [hb] at h
  | some k =>
    simp only [hb, Bool.and_eq_true, decide_eq_true_eq] at h
    obtain ⟨hnz, h⟩ := h
    refine ⟨k, hb, hnz, h.1, ?_, ?_⟩
    · intro b hb2
      have h2 := h.2
      simp only [hb2, Bool.and_eq_true, decide_eq_true_eq] at h2
      exact h2.1
    · intro hf b hb2 hbl
      have h2 := h.2
      simp only [hb2, Bool.and_eq_true, decide_eq_true_eq, hf, hbl] at h2
      simpa using h2.2

end SquidModel.Acl.Ip
