/-
The loop budget of the Merge model is never exhausted — for *every* tree, value and comparison behaviour (no well-formedness, no
tameness): each `continue` of the loop follows a removal that `Splay::remove` reported as successful, and such a removal makes the
tree strictly smaller whatever the comparison callback does.  Core Lean only.
-/
import SquidModel.Acl.Ip
import SquidModel.Acl.DomainTreeLemmas

namespace SquidModel.Acl.Tree
variable {α : Type}

theorem size_eq_len (t : Tree α) : t.size = (inorder t).length := by
  induction t with
  | nil => rfl
  | node l v r ihl ihr => simp [size, inorder, ihl, ihr]; omega

/-- the value `splayLastResult` was computed from is the value at the new top -/
theorem splayLoop_last (cmp : α → Int) (t : Tree α) (L : List (Tree α × α)) (R : List (α × Tree α)) (ht : t.isNil = false) :
    ∃ l v r, (splayLoop cmp t L R).top = node l v r ∧ (splayLoop cmp t L R).last = cmp v := by
  fun_induction splayLoop cmp t L R <;> simp_all [isNil, assemble] <;> exact ⟨_, _, ⟨rfl, rfl⟩, rfl⟩

/-- splaying a tree whose root compares equal changes nothing -/
theorem splay_root_zero (cmp : α → Int) (l : Tree α) (v : α) (r : Tree α) (h : cmp v = 0) :
    splay cmp (node l v r) = ⟨node l v r, 0⟩ := by
  unfold splay
  rw [splayLoop.eq_def]
  simp [h, assemble, closeL, closeR]

/-- a removal that `Splay::remove` reports as successful makes the tree strictly smaller, for any callback -/
theorem remove_true_size (cmp : α → Int) (t t' : Tree α) (h : remove cmp t = (t', true)) : t'.size < t.size := by
  unfold remove at h
  cases t with
  | nil => simp [find] at h
  | node l v r =>
    have hin := inorder_splay cmp l v r
    obtain ⟨l1, v1, r1, htop, hlast⟩ := splayLoop_last cmp (node l v r) [] [] rfl
    change (splay cmp (node l v r)).top = node l1 v1 r1 at htop
    change (splay cmp (node l v r)).last = cmp v1 at hlast
    by_cases h0 : (splay cmp (node l v r)).last = 0
    · rw [find_node_eq cmp l v r h0, htop] at h
      simp only [rootVal?] at h
      have hv1 : cmp v1 = 0 := by rw [← hlast]; exact h0
      simp only [nodeRemove, splay_root_zero cmp l1 v1 r1 hv1, if_true, Prod.mk.injEq, and_true] at h
      have hsz : (node l v r : Tree α).size = (node l1 v1 r1 : Tree α).size := by
        rw [size_eq_len, size_eq_len, ← hin, htop]
      rw [hsz]
      cases l1 with
      | nil => simp only at h; subst h; simp [size] <;> omega
      | node a b c =>
        simp only at h
        obtain ⟨nl, nv, nr, htop2, _⟩ := splayLoop_last cmp (node a b c) [] [] rfl
        change (splay cmp (node a b c)).top = node nl nv nr at htop2
        have hin2 := inorder_splay cmp a b c
        rw [htop2] at h hin2
        simp only at h
        subst h
        have : (node nl nv nr : Tree α).size = (node a b c : Tree α).size := by
          rw [size_eq_len, size_eq_len, hin2]
        simp only [size] at this ⊢
        omega
    · rw [find_node_ne cmp l v r h0] at h
      simp at h

end SquidModel.Acl.Tree

namespace SquidModel.Acl.Ip
open SquidModel.Acl

/-- the `while` loop of `Merge` never runs out of the model's budget -/
theorem mergeLoop_no_fuel : ∀ (n : Nat) (t : Tree Val) (new : Val) (ev : List Event), t.size < n →
    mergeLoop n t new ev ≠ .fuel := by
  intro n
  induction n with
  | zero => intro t new ev h; omega
  | succ n ih =>
    intro t new ev hsz
    unfold mergeLoop
    have hins : (Tree.insert (compare new) new t).2.isSome = true → (Tree.insert (compare new) new t).1.size = t.size := by
      intro hs
      unfold Tree.insert at hs ⊢
      have hf := Tree.inorder_find (compare new) t
      cases hres : Tree.find (compare new) t with
      | mk t1 r =>
        rw [hres] at hf
        cases r with
        | some s => simp only; rw [Tree.size_eq_len, Tree.size_eq_len, hf]
        | none =>
          simp only [hres] at hs
          cases t1 <;> simp at hs
    cases hi : Tree.insert (compare new) new t with
    | mk t' o =>
      cases o with
      | none => simp
      | some old =>
        have hsz' : t'.size = t.size := by
          have := hins (by rw [hi]; rfl)
          rw [hi] at this; exact this
        simp only []
        split
        · simp
        · split
          · cases hr : Tree.remove (compare old) t' with
            | mk t'' b =>
              cases b with
              | true =>
                simp only []
                have := Tree.remove_true_size _ _ _ hr
                exact ih t'' new _ (by omega)
              | false => simp
          · cases hr : Tree.remove (compare old) t' with
            | mk t'' b =>
              cases b with
              | true =>
                simp only []
                have := Tree.remove_true_size _ _ _ hr
                exact ih t'' _ _ (by omega)
              | false => simp

theorem merge_no_fuel (t : Tree Val) (new : Val) (ev : List Event) : merge t new ev ≠ .fuel :=
  mergeLoop_no_fuel _ t new ev (by omega)

/-- `ACLIP::parse` never ends in the model artefact `fuel`, for any token list -/
theorem parseFrom_no_fuel : ∀ (toks : List Token) (acl : Acl) (ev : List Event), parseFrom toks acl ev ≠ .fuel := by
  intro toks
  induction toks with
  | nil => intro acl ev; simp [parseFrom]
  | cons t rest ih =>
    intro acl ev
    cases t with
    | all => simpa [parseFrom] using ih _ _
    | ipv4 => simpa [parseFrom] using ih _ _
    | ipv6 => simpa [parseFrom] using ih _ _
    | item it =>
      unfold parseFrom
      split
      · exact ih _ _
      · cases hf : factoryParse it with
        | none => simp
        | some p =>
          obtain ⟨v, ev1⟩ := p
          simp only []
          cases hm : merge acl.tree v (ev ++ ev1) with
          | ok t' ev2 => simp only []; exact ih _ _
          | dangling => simp
          | fuel => exact absurd hm (merge_no_fuel _ _ _)

end SquidModel.Acl.Ip
