/-
C44 — the tree walk of an ACLChecklist meets the resumption specification: whatever breadcrumb stack it is entered
with, it either completes with the outcome the specification gives for that stack, or it pauses with a stack for
which the specification gives the same outcome.  No modelled assertion fails on the way.
-/
import SquidModel.Acl.TreeRef

namespace SquidModel.Acl.Tree

/-! ### lookups: how many goAsync() calls one evaluation of a leaf makes -/

/-- the number of goAsync() calls of one SynthLeaf::match() call when none is refused -/
def calls : List Round → Nat
  | [] => 0
  | .deferred :: _ => 1
  | .immediate :: r => calls r + 1

/-- no evaluation of the leaf needs a 7th goAsync() call -/
def okRounds : List Round → Bool
  | [] => true
  | k :: r => decide (calls (k :: r) ≤ 6) && okRounds r

theorem okRounds_calls {rs : List Round} (h : okRounds rs = true) : calls rs ≤ 6 := by
  cases rs with
  | nil => simp [calls]
  | cons k r => simp [okRounds] at h; exact h.1

theorem okRounds_tail {rs : List Round} (h : okRounds rs = true) : okRounds rs.tail = true := by
  cases rs with
  | nil => simp [okRounds]
  | cons k r => simp [okRounds] at h; exact h.2

def RoundsOk (ctx : Ctx) (rs : List (List Round)) : Prop :=
  ∀ l, okRounds (roundsOf rs l) = true ∧ (ctx.asyncCaller = false → roundsOf rs l = [])

theorem roundsOf_nil (l : Nat) : roundsOf [] l = [] := by simp [roundsOf]

theorem roundsOf_zero (r : List Round) (rest : List (List Round)) : roundsOf (r :: rest) 0 = r := by
  simp [roundsOf]

theorem roundsOf_succ (r : List Round) (rest : List (List Round)) (l : Nat) :
    roundsOf (r :: rest) (l + 1) = roundsOf rest l := by
  simp [roundsOf]

theorem roundsOf_popRound (rs : List (List Round)) (l l' : Nat) :
    roundsOf (popRound rs l) l' = if l' = l then (roundsOf rs l).tail else roundsOf rs l' := by
  induction rs generalizing l l' with
  | nil => simp [popRound, roundsOf_nil]
  | cons r rest ih =>
    cases l with
    | zero =>
      cases l' with
      | zero => simp [popRound, roundsOf_zero]
      | succ l' => simp [popRound, roundsOf_succ]
    | succ l =>
      cases l' with
      | zero => simp [popRound, roundsOf_zero]
      | succ l' => simp [popRound, roundsOf_succ, ih]

theorem RoundsOk.pop {ctx : Ctx} {rs : List (List Round)} (h : RoundsOk ctx rs) (l : Nat) :
    RoundsOk ctx (popRound rs l) := by
  intro l'
  rw [roundsOf_popRound]
  split
  · refine ⟨okRounds_tail (h l).1, fun ha => ?_⟩
    rw [(h l).2 ha]; rfl
  · exact h l'

theorem totalRounds_cons (r : List Round) (rest : List (List Round)) :
    totalRounds (r :: rest) = r.length + totalRounds rest := by
  simp [totalRounds]

theorem totalRounds_pop_le (rs : List (List Round)) (l : Nat) : totalRounds (popRound rs l) ≤ totalRounds rs := by
  induction rs generalizing l with
  | nil => simp [popRound]
  | cons r rest ih =>
    cases l with
    | zero => simp only [popRound, totalRounds_cons, List.length_tail]; omega
    | succ l => simp only [popRound, totalRounds_cons]; have := ih l; omega

theorem totalRounds_pop_lt (rs : List (List Round)) (l : Nat) (h : roundsOf rs l ≠ []) :
    totalRounds (popRound rs l) < totalRounds rs := by
  induction rs generalizing l with
  | nil => simp [roundsOf_nil] at h
  | cons r rest ih =>
    cases l with
    | zero =>
      simp only [roundsOf_zero] at h
      simp only [popRound, totalRounds_cons, List.length_tail]
      have : r.length ≠ 0 := by simpa using h
      omega
    | succ l =>
      simp only [roundsOf_succ] at h
      simp only [popRound, totalRounds_cons]; have := ih l h; omega

/-! ### pre- and postconditions -/

/-- a checklist state in which the tree walk may be (re-)entered -/
structure Good (ctx : Ctx) (s : CL) : Prop where
  stage : s.stage = .none
  fin : s.finished = false
  fault : s.fault = none
  rounds : RoundsOk ctx s.rounds

/-- a lookup is outstanding and it belongs to a leaf that still has lookups to do -/
def PendingOk (s : CL) : Prop := ∃ l, s.pending = some l ∧ roundsOf s.rounds l ≠ []

/-- the integer result and the final state agree with the expected outcome -/
def OutRes (o : Out) (r : Int) (s : CL) : Prop :=
  match o with
  | .yes => r = 1 ∧ s.finished = false
  | .no => r = 0 ∧ s.finished = false
  | .stop c => r = -1 ∧ s.finished = true ∧ s.answer = { code := c }

/-- postcondition of `run`/the loops: `bound` is the number of lookups that were still to do at the start -/
inductive Post (ctx : Ctx) (bound : Nat) (o : Out) (okPath : List Crumb → Prop) : Int × CL → Prop where
  | done {r : Int} {s : CL} : s.stage = .none → s.path = [] → s.fault = none → RoundsOk ctx s.rounds →
      totalRounds s.rounds ≤ bound → OutRes o r s → Post ctx bound o okPath (r, s)
  | paused {r : Int} {s : CL} : s.stage = .running → r ≠ 1 → s.finished = false → s.fault = none →
      RoundsOk ctx s.rounds → totalRounds s.rounds ≤ bound → PendingOk s → okPath s.path →
      Post ctx bound o okPath (r, s)

theorem Post.mono {ctx : Ctx} {b b' : Nat} {o : Out} {P Q : List Crumb → Prop} {x : Int × CL}
    (h : Post ctx b o P x) (hb : b ≤ b') (hpq : ∀ p, P p → Q p) : Post ctx b' o Q x := by
  cases h with
  | done h1 h2 h3 h4 h5 h6 => exact .done h1 h2 h3 h4 (Nat.le_trans h5 hb) h6
  | paused h1 h2 h3 h4 h5 h6 h7 h8 => exact .paused h1 h2 h3 h4 h5 (Nat.le_trans h6 hb) h7 (hpq _ h8)

/-! ### which breadcrumb stacks make sense for a node -/

/-- a stack for a node entered through matchChild: empty (the node is matched afresh) or a crumb naming this node
(which then is an inner node) and a position in it, followed by a stack that makes sense for `doMatch(position)` -/
def validChild (isLeaf : Bool) (vs : Nat → List Crumb → Prop) (addr : List Nat) (p : List Crumb) : Prop :=
  match p with
  | [] => True
  | cr :: rest => cr.addr = addr ∧ isLeaf = false ∧ vs cr.pos rest

mutual
/-- the stack `p` makes sense for `run ctx n addr start` -/
def ValidStart : Node → List Nat → Nat → List Crumb → Prop
  | .leaf _, _, _, p => p = []
  | .not c, a, start, p => start = 0 ∧ validChild c.isLeaf (ValidStart c (a ++ [0])) (a ++ [0]) p
  | .and cs, a, start, p => ValidList cs a 0 start p
  | .or cs, a, start, p => ValidList cs a 0 start p
  | .allOf cs, a, start, p => start = 0 ∧ ValidList cs a 0 0 p
termination_by structural n => n
def ValidList : List Node → List Nat → Nat → Nat → List Crumb → Prop
  | [], _, _, _, p => p = []
  | _ :: rest, a, i, skip + 1, p => ValidList rest a (i + 1) skip p
  | c :: _, a, i, 0, p => validChild c.isLeaf (ValidStart c (a ++ [i])) (a ++ [i]) p
termination_by structural cs => cs
end

def ValidAt (n : Node) (addr : List Nat) (p : List Crumb) : Prop :=
  validChild n.isLeaf (ValidStart n addr) addr p

theorem validList_fresh (cs : List Node) (a : List Nat) (i : Nat) : ValidList cs a i 0 [] := by
  cases cs with
  | nil => simp [ValidList]
  | cons c rest => simp [ValidList, validChild]

theorem validStart_fresh (n : Node) (a : List Nat) : ValidStart n a 0 [] := by
  cases n with
  | leaf id => simp [ValidStart]
  | not c => simp [ValidStart, validChild]
  | and cs => simp only [ValidStart]; exact validList_fresh cs a 0
  | or cs => simp only [ValidStart]; exact validList_fresh cs a 0
  | allOf cs => simp only [ValidStart]; exact ⟨trivial, validList_fresh cs a 0⟩

/-! ### the synthetic leaf -/

theorem calls_pos (k : Round) (r : List Round) : 1 ≤ calls (k :: r) := by
  cases k <;> simp [calls]

theorem leafLoop_spec (ctx : Ctx) (leaf : Nat) (sc : LeafScript) (rs : List Round) (s : CL)
    (hs : Good ctx s) (hloc : s.matchLoc ≠ none) (hrs : roundsOf s.rounds leaf = rs)
    (hd : s.depth + calls rs ≤ 6) (hpath : s.path = []) :
    Post ctx (totalRounds s.rounds) (outOfVal sc.val) (fun p => p = []) (leafLoop ctx leaf sc rs s) := by
  induction rs generalizing s with
  | nil =>
    simp only [leafLoop, leafValue]
    cases hv : sc.val with
    | t => exact .done hs.stage hpath hs.fault hs.rounds (Nat.le_refl _) (by simp [outOfVal, OutRes, hs.fin])
    | f => exact .done hs.stage hpath hs.fault hs.rounds (Nat.le_refl _) (by simp [outOfVal, OutRes, hs.fin])
    | stop c =>
      have hk : s.KeepMatching := ⟨hs.fin, hs.stage⟩
      simp only [hk, if_true, markFinished, hs.fin, hs.stage, and_self]
      exact .done rfl hpath hs.fault hs.rounds (Nat.le_refl _) (by simp [outOfVal, OutRes])
  | cons k rest ih =>
    have hasync : ctx.asyncCaller = true := by
      cases h : ctx.asyncCaller with
      | true => rfl
      | false => have := (hs.rounds leaf).2 h; rw [hrs] at this; cases this
    have hdepth : s.depth ≤ 5 := by have := calls_pos k rest; omega
    have hnd : ¬ (s.depth > 5) := by omega
    cases k with
    | immediate =>
      simp only [leafLoop, goAsync, hs.stage, if_true, hloc, if_false, hasync, starter, Bool.true_eq_false,
        hnd, and_false]
      simp only [reduceCtorEq, if_false, if_true]
      apply (ih _ ?_ ?_ ?_ ?_ ?_).mono
      · exact totalRounds_pop_le _ _
      · exact fun _ h => h
      · exact ⟨rfl, hs.fin, hs.fault, hs.rounds.pop leaf⟩
      · exact hloc
      · simp only [roundsOf_popRound, if_true, hrs, List.tail_cons]
      · simp only [calls] at hd ⊢; omega
      · exact hpath
    | deferred =>
      simp only [leafLoop, goAsync, hs.stage, if_true, hloc, if_false, hasync, starter, Bool.true_eq_false,
        hnd, and_false]
      exact .paused rfl (by decide) hs.fin hs.fault hs.rounds (Nat.le_refl _)
        ⟨leaf, rfl, by simp [hrs]⟩ hpath

theorem leafMatch_spec (ctx : Ctx) (leaf : Nat) (s : CL)
    (hs : Good ctx s) (hloc : s.matchLoc ≠ none) (hd : s.depth = 0) (hpath : s.path = []) :
    Post ctx (totalRounds s.rounds) (leafOut ctx leaf) (fun p => p = []) (leafMatch ctx leaf s) := by
  have h := leafLoop_spec ctx leaf (ctx.leaf leaf) (roundsOf s.rounds leaf) s hs hloc rfl
    (by have := okRounds_calls (hs.rounds leaf).1; omega) hpath
  simp only [leafMatch]
  generalize leafLoop ctx leaf (ctx.leaf leaf) (roundsOf s.rounds leaf) s = x at h
  obtain ⟨r, s'⟩ := x
  cases h with
  | done h1 h2 h3 h4 h5 h6 =>
    refine .done h1 h2 h3 h4 h5 ?_
    unfold leafOut
    cases ho : outOfVal (ctx.leaf leaf).val <;> simp only [ho, OutRes] at h6 ⊢ <;> exact h6
  | paused h1 h2 h3 h4 h5 h6 h7 h8 => exact .paused h1 h2 h3 h4 h5 h6 h7 h8

/-! ### matchChild -/

/-- the boolean result and the final state agree with the expected outcome -/
def OutResB (o : Out) (m : Bool) (s : CL) : Prop :=
  match o with
  | .yes => m = true ∧ s.finished = false
  | .no => m = false ∧ s.finished = false
  | .stop c => m = false ∧ s.finished = true ∧ s.answer = { code := c }

/-- postcondition of matchChild for the child `child` at position `pos` of the node at `addr` -/
inductive MCPost (ctx : Ctx) (bound : Nat) (o : Out) (child : Node) (addr : List Nat) (pos : Nat) : Bool × CL → Prop where
  | done {m : Bool} {s : CL} : s.stage = .none → s.path = [] → s.fault = none → RoundsOk ctx s.rounds →
      totalRounds s.rounds ≤ bound → OutResB o m s → MCPost ctx bound o child addr pos (m, s)
  | paused {m : Bool} {s : CL} : s.stage = .running → m = false → s.finished = false → s.fault = none →
      RoundsOk ctx s.rounds → totalRounds s.rounds ≤ bound → PendingOk s →
      (∃ p', s.path = ⟨addr, pos⟩ :: p' ∧ ValidAt child (addr ++ [pos]) p' ∧ refAt ctx child p' = o) →
      MCPost ctx bound o child addr pos (m, s)

/-- what `run` must satisfy for the node `n` at address `a` -/
def RunSpec (ctx : Ctx) (n : Node) (a : List Nat) : Prop :=
  ∀ (start : Nat) (s : CL), Good ctx s → s.matchLoc ≠ none → s.depth = 0 → ValidStart n a start s.path →
    Post ctx (totalRounds s.rounds) (refRun ctx n start (s.path.map (·.pos)))
      (fun p => ValidAt n a p ∧ refAt ctx n p = refRun ctx n start (s.path.map (·.pos)))
      (run ctx n a start s)

theorem outRes_toB {o : Out} {r : Int} {s : CL} (h : OutRes o r s) : OutResB o (r == 1) s := by
  cases o with
  | yes => obtain ⟨h1, h2⟩ := h; subst h1; exact ⟨by decide, h2⟩
  | no => obtain ⟨h1, h2⟩ := h; subst h1; exact ⟨by decide, h2⟩
  | stop c => obtain ⟨h1, h2⟩ := h; subst h1; exact ⟨by decide, h2⟩

/-- the part of matchChild after the child returned -/
theorem mc_finish (ctx : Ctx) (b : Nat) (o : Out) (child : Node) (a : List Nat) (pos : Nat) (x : Int × CL)
    (h : Post ctx b o (fun p => ValidAt child (a ++ [pos]) p ∧ refAt ctx child p = o) x) :
    MCPost ctx b o child a pos
      (match x with
       | (r, s) =>
         let s := if s.stage = .none then { s with asyncLoc := none } else { s with path := ⟨a, pos⟩ :: s.path }
         (r == 1, { s with matchLoc := none })) := by
  obtain ⟨r, s'⟩ := x
  cases h with
  | done h1 h2 h3 h4 h5 h6 =>
    simp only [h1, if_true]
    exact .done rfl h2 h3 h4 h5 (outRes_toB h6)
  | paused h1 h2 h3 h4 h5 h6 h7 h8 =>
    simp only [h1, reduceCtorEq, if_false]
    refine .paused rfl ?_ h3 h4 h5 h6 h7 ⟨s'.path, rfl, h8.1, h8.2⟩
    simpa using h2

theorem matchChild_spec (ctx : Ctx) (child : Node) (a : List Nat) (pos : Nat)
    (ih : RunSpec ctx child (a ++ [pos])) (s : CL) (hs : Good ctx s) (hv : ValidAt child (a ++ [pos]) s.path) :
    MCPost ctx (totalRounds s.rounds) (refAt ctx child s.path) child a pos
      (matchChild child.isLeaf (run ctx child (a ++ [pos])) a pos s) := by
  unfold matchChild
  cases hp : s.path with
  | nil =>
    have h := ih 0 { s with matchLoc := some ⟨a, pos⟩, depth := 0 }
      ⟨hs.stage, hs.fin, hs.fault, hs.rounds⟩ (by simp) rfl (by simp only [hp]; exact validStart_fresh _ _)
    have ho : refAt ctx child [] = refRun ctx child 0 [] := by simp [refAt, refChild]
    simp only [hp, List.map_nil, ← ho] at h
    exact mc_finish ctx _ _ child a pos _ h
  | cons top rest =>
    rw [hp] at hv
    obtain ⟨hv1, hv2, hv3⟩ := hv
    have h := ih top.pos { s with matchLoc := some ⟨a, pos⟩, depth := 0, path := rest }
      ⟨hs.stage, hs.fin, hs.fault, hs.rounds⟩ (by simp) rfl hv3
    have ho : refAt ctx child (top :: rest) = refRun ctx child top.pos (rest.map (·.pos)) := by
      simp [refAt, refChild]
    simp only [← ho] at h
    simp only [hv1, if_true, hv2, Bool.false_eq_true, if_false]
    exact mc_finish ctx _ _ child a pos _ h

/-! ### the tree walk -/

theorem validAt_cons_iff (n : Node) (a : List Nat) (cr : Crumb) (p : List Crumb) :
    ValidAt n a (cr :: p) ↔ (cr.addr = a ∧ n.isLeaf = false ∧ ValidStart n a cr.pos p) := Iff.rfl

theorem refAt_cons (ctx : Ctx) (n : Node) (cr : Crumb) (p : List Crumb) :
    refAt ctx n (cr :: p) = refRun ctx n cr.pos (p.map (·.pos)) := by
  simp [refAt, refChild]

theorem refAt_eq (ctx : Ctx) (n : Node) (p : List Crumb) :
    refAt ctx n p = refChild (refRun ctx n) (p.map (·.pos)) := rfl

mutual
theorem run_spec (ctx : Ctx) (n : Node) (a : List Nat) : RunSpec ctx n a := by
  intro start s hs hloc hdepth hv
  match n with
  | .leaf id =>
    simp only [ValidStart] at hv
    simp only [run, refRun]
    refine (leafMatch_spec ctx id s hs hloc hdepth hv).mono (Nat.le_refl _) ?_
    intro p hp
    subst hp
    exact ⟨trivial, by simp [refAt, refChild, refRun]⟩
  | .not c =>
    simp only [ValidStart] at hv
    obtain ⟨hstart, hv⟩ := hv
    have mc := matchChild_spec ctx c a 0 (run_spec ctx c (a ++ [0])) s hs hv
    simp only [run, hstart, if_true, refRun, ← refAt_eq]
    generalize matchChild c.isLeaf (run ctx c (a ++ [0])) a 0 s = x at mc
    obtain ⟨m, s1⟩ := x
    cases mc with
    | done h1 h2 h3 h4 h5 h6 =>
      cases ho : refAt ctx c s.path with
      | yes =>
        rw [ho] at h6; obtain ⟨hm, hf⟩ := h6; subst hm
        simp only [if_true]
        exact .done h1 h2 h3 h4 h5 ⟨rfl, hf⟩
      | no =>
        rw [ho] at h6; obtain ⟨hm, hf⟩ := h6; subst hm
        simp only [Bool.false_eq_true, if_false, CL.KeepMatching, hf, h1, and_self, if_true]
        exact .done h1 h2 h3 h4 h5 ⟨rfl, hf⟩
      | stop code =>
        rw [ho] at h6; obtain ⟨hm, hf, ha⟩ := h6; subst hm
        simp only [Bool.false_eq_true, if_false, CL.KeepMatching, hf]
        exact .done h1 h2 h3 h4 h5 ⟨rfl, hf, ha⟩
    | paused h1 h2 h3 h4 h5 h6 h7 h8 =>
      subst h2
      obtain ⟨p', hp', hvp, hrp⟩ := h8
      simp only [Bool.false_eq_true, if_false, CL.KeepMatching, h1, reduceCtorEq, and_false]
      refine .paused h1 (by decide) h3 h4 h5 h6 h7 ?_
      rw [hp']
      refine ⟨⟨rfl, rfl, ?_⟩, ?_⟩
      · simp only [ValidStart]; exact ⟨trivial, hvp⟩
      · rw [refAt_cons]; simp only [refRun, ← refAt_eq, hrp]
  | .and cs =>
    simp only [ValidStart] at hv
    simp only [run, refRun]
    refine (andLoop_spec ctx cs a 0 start s hs hv).mono (Nat.le_refl _) ?_
    rintro p ⟨k, p', hp, hvp, hrp⟩
    subst hp
    refine ⟨⟨rfl, rfl, ?_⟩, ?_⟩
    · simpa [ValidStart] using hvp
    · rw [refAt_cons]; simpa [refRun] using hrp
  | .or cs =>
    simp only [ValidStart] at hv
    simp only [run, refRun]
    refine (orLoop_spec ctx cs a 0 start s hs hv).mono (Nat.le_refl _) ?_
    rintro p ⟨k, p', hp, hvp, hrp⟩
    subst hp
    refine ⟨⟨rfl, rfl, ?_⟩, ?_⟩
    · simpa [ValidStart] using hvp
    · rw [refAt_cons]; simpa [refRun] using hrp
  | .allOf cs =>
    simp only [ValidStart] at hv
    obtain ⟨hstart, hv⟩ := hv
    simp only [run, hstart, if_true, refRun]
    refine (allOfHead_spec ctx cs a s hs hv).mono (Nat.le_refl _) ?_
    rintro p ⟨p', hp, hvp, hrp⟩
    subst hp
    refine ⟨⟨rfl, rfl, ?_⟩, ?_⟩
    · simp only [ValidStart]; exact ⟨trivial, hvp⟩
    · rw [refAt_cons]; simpa [refRun] using hrp

theorem allOfHead_spec (ctx : Ctx) (cs : List Node) (a : List Nat) (s : CL) (hs : Good ctx s)
    (hv : ValidList cs a 0 0 s.path) :
    Post ctx (totalRounds s.rounds) (refAllOfAt ctx cs (s.path.map (·.pos)))
      (fun p => ∃ p', p = ⟨a, 0⟩ :: p' ∧ ValidList cs a 0 0 p' ∧
        refAllOfAt ctx cs (p'.map (·.pos)) = refAllOfAt ctx cs (s.path.map (·.pos)))
      (allOfHead ctx cs a s) := by
  match cs with
  | [] =>
    simp only [ValidList] at hv
    simp only [allOfHead, refAllOfAt]
    exact .done hs.stage hv hs.fault hs.rounds (Nat.le_refl _) ⟨rfl, hs.fin⟩
  | c :: rest =>
    simp only [ValidList] at hv
    have mc := matchChild_spec ctx c a 0 (run_spec ctx c (a ++ [0])) s hs hv
    simp only [allOfHead, refAllOfAt, ← refAt_eq]
    generalize matchChild c.isLeaf (run ctx c (a ++ [0])) a 0 s = x at mc
    obtain ⟨m, s1⟩ := x
    cases mc with
    | done h1 h2 h3 h4 h5 h6 =>
      cases ho : refAt ctx c s.path with
      | yes =>
        rw [ho] at h6; obtain ⟨hm, hf⟩ := h6; subst hm
        simp only [if_true]
        exact .done h1 h2 h3 h4 h5 ⟨rfl, hf⟩
      | no =>
        rw [ho] at h6; obtain ⟨hm, hf⟩ := h6; subst hm
        simp only [Bool.false_eq_true, if_false, CL.KeepMatching, hf, h1, and_self, if_true]
        exact .done h1 h2 h3 h4 h5 ⟨rfl, hf⟩
      | stop code =>
        rw [ho] at h6; obtain ⟨hm, hf, ha⟩ := h6; subst hm
        simp only [Bool.false_eq_true, if_false, CL.KeepMatching, hf]
        exact .done h1 h2 h3 h4 h5 ⟨rfl, hf, ha⟩
    | paused h1 h2 h3 h4 h5 h6 h7 h8 =>
      subst h2
      obtain ⟨p', hp', hvp, hrp⟩ := h8
      simp only [Bool.false_eq_true, if_false, CL.KeepMatching, h1, reduceCtorEq, and_false]
      refine .paused h1 (by decide) h3 h4 h5 h6 h7 ⟨p', hp', ?_, ?_⟩
      · simp only [ValidList]; exact hvp
      · exact hrp

theorem andLoop_spec (ctx : Ctx) (cs : List Node) (a : List Nat) (i skip : Nat) (s : CL) (hs : Good ctx s)
    (hv : ValidList cs a i skip s.path) :
    Post ctx (totalRounds s.rounds) (refAndAt ctx cs skip (s.path.map (·.pos)))
      (fun p => ∃ k p', p = ⟨a, i + k⟩ :: p' ∧ ValidList cs a i k p' ∧
        refAndAt ctx cs k (p'.map (·.pos)) = refAndAt ctx cs skip (s.path.map (·.pos)))
      (andLoop ctx cs a i skip s) := by
  match cs, skip with
  | [], skip =>
    simp only [ValidList] at hv
    simp only [andLoop, refAndAt]
    exact .done hs.stage hv hs.fault hs.rounds (Nat.le_refl _) ⟨rfl, hs.fin⟩
  | c :: rest, skip + 1 =>
    simp only [ValidList] at hv
    simp only [andLoop, refAndAt]
    refine (andLoop_spec ctx rest a (i + 1) skip s hs hv).mono (Nat.le_refl _) ?_
    rintro p ⟨k, p', hp, hvp, hrp⟩
    refine ⟨k + 1, p', ?_, ?_, ?_⟩
    · rw [hp]; congr 2; omega
    · simpa [ValidList] using hvp
    · simpa [refAndAt] using hrp
  | c :: rest, 0 =>
    simp only [ValidList] at hv
    have mc := matchChild_spec ctx c a i (run_spec ctx c (a ++ [i])) s hs hv
    simp only [andLoop, refAndAt, ← refAt_eq]
    generalize matchChild c.isLeaf (run ctx c (a ++ [i])) a i s = x at mc
    obtain ⟨m, s1⟩ := x
    cases mc with
    | done h1 h2 h3 h4 h5 h6 =>
      cases ho : refAt ctx c s.path with
      | yes =>
        rw [ho] at h6; obtain ⟨hm, hf⟩ := h6; subst hm
        simp only [if_true]
        have ih := andLoop_spec ctx rest a (i + 1) 0 s1 ⟨h1, hf, h3, h4⟩ (by rw [h2]; exact validList_fresh _ _ _)
        rw [h2] at ih
        refine ih.mono h5 ?_
        rintro p ⟨k, p', hp, hvp, hrp⟩
        refine ⟨k + 1, p', ?_, ?_, ?_⟩
        · rw [hp]; congr 2; omega
        · simpa [ValidList] using hvp
        · simpa [refAndAt] using hrp
      | no =>
        rw [ho] at h6; obtain ⟨hm, hf⟩ := h6; subst hm
        simp only [Bool.false_eq_true, if_false, CL.KeepMatching, hf, h1, and_self, if_true]
        exact .done h1 h2 h3 h4 h5 ⟨rfl, hf⟩
      | stop code =>
        rw [ho] at h6; obtain ⟨hm, hf, ha⟩ := h6; subst hm
        simp only [Bool.false_eq_true, if_false, CL.KeepMatching, hf]
        exact .done h1 h2 h3 h4 h5 ⟨rfl, hf, ha⟩
    | paused h1 h2 h3 h4 h5 h6 h7 h8 =>
      subst h2
      obtain ⟨p', hp', hvp, hrp⟩ := h8
      simp only [Bool.false_eq_true, if_false, CL.KeepMatching, h1, reduceCtorEq, and_false]
      refine .paused h1 (by decide) h3 h4 h5 h6 h7 ⟨0, p', by simpa using hp', ?_, ?_⟩
      · simp only [ValidList]; exact hvp
      · simp only [refAndAt, ← refAt_eq, hrp]

theorem orLoop_spec (ctx : Ctx) (cs : List Node) (a : List Nat) (i skip : Nat) (s : CL) (hs : Good ctx s)
    (hv : ValidList cs a i skip s.path) :
    Post ctx (totalRounds s.rounds) (refOrAt ctx cs skip (s.path.map (·.pos)))
      (fun p => ∃ k p', p = ⟨a, i + k⟩ :: p' ∧ ValidList cs a i k p' ∧
        refOrAt ctx cs k (p'.map (·.pos)) = refOrAt ctx cs skip (s.path.map (·.pos)))
      (orLoop ctx cs a i skip s) := by
  match cs, skip with
  | [], skip =>
    simp only [ValidList] at hv
    simp only [orLoop, refOrAt]
    exact .done hs.stage hv hs.fault hs.rounds (Nat.le_refl _) ⟨rfl, hs.fin⟩
  | c :: rest, skip + 1 =>
    simp only [ValidList] at hv
    simp only [orLoop, refOrAt]
    refine (orLoop_spec ctx rest a (i + 1) skip s hs hv).mono (Nat.le_refl _) ?_
    rintro p ⟨k, p', hp, hvp, hrp⟩
    refine ⟨k + 1, p', ?_, ?_, ?_⟩
    · rw [hp]; congr 2; omega
    · simpa [ValidList] using hvp
    · simpa [refOrAt] using hrp
  | c :: rest, 0 =>
    simp only [ValidList] at hv
    have mc := matchChild_spec ctx c a i (run_spec ctx c (a ++ [i])) s hs hv
    simp only [orLoop, refOrAt, ← refAt_eq]
    generalize matchChild c.isLeaf (run ctx c (a ++ [i])) a i s = x at mc
    obtain ⟨m, s1⟩ := x
    cases mc with
    | done h1 h2 h3 h4 h5 h6 =>
      cases ho : refAt ctx c s.path with
      | yes =>
        rw [ho] at h6; obtain ⟨hm, hf⟩ := h6; subst hm
        simp only [if_true]
        exact .done h1 h2 h3 h4 h5 ⟨rfl, hf⟩
      | no =>
        rw [ho] at h6; obtain ⟨hm, hf⟩ := h6; subst hm
        simp only [Bool.false_eq_true, if_false, CL.KeepMatching, hf, h1, and_self, if_true]
        have ih := orLoop_spec ctx rest a (i + 1) 0 s1 ⟨h1, hf, h3, h4⟩ (by rw [h2]; exact validList_fresh _ _ _)
        rw [h2] at ih
        refine ih.mono h5 ?_
        rintro p ⟨k, p', hp, hvp, hrp⟩
        refine ⟨k + 1, p', ?_, ?_, ?_⟩
        · rw [hp]; congr 2; omega
        · simpa [ValidList] using hvp
        · simpa [refOrAt] using hrp
      | stop code =>
        rw [ho] at h6; obtain ⟨hm, hf, ha⟩ := h6; subst hm
        simp only [Bool.false_eq_true, if_false, CL.KeepMatching, hf]
        exact .done h1 h2 h3 h4 h5 ⟨rfl, hf, ha⟩
    | paused h1 h2 h3 h4 h5 h6 h7 h8 =>
      subst h2
      obtain ⟨p', hp', hvp, hrp⟩ := h8
      simp only [Bool.false_eq_true, if_false, CL.KeepMatching, h1, reduceCtorEq, and_false]
      refine .paused h1 (by decide) h3 h4 h5 h6 h7 ⟨0, p', by simpa using hp', ?_, ?_⟩
      · simp only [ValidList]; exact hvp
      · simp only [refOrAt, ← refAt_eq, hrp]
end

end SquidModel.Acl.Tree
