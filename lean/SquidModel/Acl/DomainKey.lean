/-
The key lemma for matchDomainName: with the strings read from their ends, case-folded, `'.'` ranked below every other
character and a terminator ranked below `'.'`, the three-way result of `matchDomainName(h, d)` is the position of the
host's key relative to the half-open key interval `[lo d, hi d)` of the domain value:

    h < lo d  →  negative        lo d ≤ h < hi d  →  0        hi d ≤ h  →  positive

where for `d = ".X"` the interval spans `X` and everything that ends in `.X`, and otherwise just `d`.
Holds for every host (also empty / all dots: key `[]`, below everything) and every non-empty `d`.
-/
import SquidModel.Acl.Domain
import SquidModel.Base.Finite

namespace SquidModel.Acl.Domain

/-! ### the case-folding table (regenerated from the running code; facts re-decided by the kernel) -/

theorem lower_eq_dot_iff (c : UInt8) : lower c = DOT ↔ c = DOT := by
  have := forall_octet (fun c => decide (lower c = DOT ↔ c = DOT)) (by decide +kernel) c
  simpa using this

theorem lower_idem (c : UInt8) : lower (lower c) = lower c := by
  have := forall_octet (fun c => decide (lower (lower c) = lower c)) (by decide +kernel) c
  simpa using this

theorem lower_dot : lower DOT = DOT := (lower_eq_dot_iff DOT).mpr rfl

theorem fold_idem (s : Bytes) : fold (fold s) = fold s := by
  simp [fold, lower_idem]

/-! ### ranks and keys -/

/-- rank of a character in the order matchDomainName sorts by: `'.'` = 1, any other character by its folded code, from 3 up;
0 is the string terminator and 2 the upper end of a `.domain` interval -/
def rank (c : UInt8) : Nat := if c = DOT then 1 else (lower c).toNat + 3

theorem rank_dot : rank DOT = 1 := by simp [rank]

theorem rank_eq_one_iff (c : UInt8) : rank c = 1 ↔ c = DOT := by
  unfold rank; split <;> simp_all

theorem rank_cases (c : UInt8) : (c = DOT ∧ rank c = 1) ∨ (c ≠ DOT ∧ 3 ≤ rank c) := by
  unfold rank; split <;> simp_all

theorem rank_eq_iff (a b : UInt8) : rank a = rank b ↔ lower a = lower b := by
  unfold rank
  by_cases ha : a = DOT <;> by_cases hb : b = DOT
  · simp [ha, hb]
  · have : lower b ≠ DOT := fun h => hb ((lower_eq_dot_iff b).mp h)
    simp [ha, hb, lower_dot]; intro h; exact this h.symm
  · have : lower a ≠ DOT := fun h => ha ((lower_eq_dot_iff a).mp h)
    simp [ha, hb, lower_dot]; exact this
  · simp only [ha, hb, if_false]
    constructor
    · intro h; exact UInt8.toNat_inj.mp (by omega)
    · intro h; rw [h]

/-- the key of a (part of a) name: ranks of its characters, last character first -/
def rkey (s : Bytes) : List Nat := s.reverse.map rank

/-- the key of a host as matchDomainName sees it: leading dots removed; nothing left = below every value -/
def hostKey (h : Bytes) : List Nat :=
  if (stripDots h).isEmpty then [] else rkey (stripDots h) ++ [0]

/-- key of a reversed domain value whose first character (the last of the reversed list) is dropped when it is a dot,
closed by the end marker `e` -/
def endKey (dot : Bool) (e : Nat) : List UInt8 → List Nat
  | [] => [e]
  | [c] => if dot then [e] else [rank c, e]
  | c :: c2 :: r => rank c :: endKey dot e (c2 :: r)

/-- lower end of the value's key interval -/
def lo (d : Bytes) : List Nat := endKey (startsWithDot d) 0 d.reverse
/-- upper end (exclusive) of the value's key interval -/
def hi (d : Bytes) : List Nat := endKey (startsWithDot d) (if startsWithDot d then 2 else 1) d.reverse

/-- -1 / 0 / 1: below, inside, above `[lo, hi)` -/
def pos3 (k lo hi : List Nat) : Int := if k < lo then -1 else if k < hi then 0 else 1

def pos (k : List Nat) (d : Bytes) : Int := pos3 k (lo d) (hi d)

theorem endKey_cons_cons (dot : Bool) (e : Nat) (c c2 : UInt8) (r : List UInt8) :
    endKey dot e (c :: c2 :: r) = rank c :: endKey dot e (c2 :: r) := rfl

theorem endKey_ne_nil (dot : Bool) (e : Nat) (l : List UInt8) : endKey dot e l ≠ [] := by
  match l with
  | [] => simp [endKey]
  | [c] => cases dot <;> simp [endKey]
  | c :: c2 :: r => simp [endKey]

private theorem lt_single_zero (l : List Nat) : ¬ (l ++ [0] < [0]) := by
  cases l with
  | nil => simp
  | cons a l => simp [List.cons_lt_cons_iff]

theorem int_sign_sub (a b : Nat) :
    Int.sign ((a : Int) - (b : Int)) = if a < b then -1 else if a = b then 0 else 1 := by
  by_cases h1 : a < b
  · simp only [h1, if_true]; exact Int.sign_eq_neg_one_of_neg (by omega)
  · by_cases h2 : a = b
    · subst h2; simp
    · simp only [h1, h2, if_false]; exact Int.sign_eq_one_of_pos (by omega)

/-- the loop of matchDomainName computes the position of the rest of the host key relative to the rest of the interval -/
theorem mdnLoop_sign (b : Bool) (d0 : UInt8) (dot : Bool) (hdot : dot = decide (d0 = DOT)) (e : Nat)
    (he : e = if dot then 2 else 1) :
    ∀ (rh rd : List UInt8) (prev : UInt8), rh ≠ [] → rd.getLast? = some d0 →
      Int.sign (mdnLoop mdnNone b d0 prev rh rd) = pos3 (rh.map rank ++ [0]) (endKey dot 0 rd) (endKey dot e rd) := by
  intro rh
  induction rh with
  | nil => intro rd prev h; exact absurd rfl h
  | cons hc hr ih =>
    intro rd prev _ hlast
    cases rd with
    | nil => simp at hlast
    | cons dc dr =>
      rw [mdnLoop]
      by_cases heq : lower hc = lower dc
      · have hrk : rank hc = rank dc := (rank_eq_iff hc dc).mpr heq
        simp only [heq, if_true]
        cases hr with
        | nil =>
          cases dr with
          | nil =>
            -- both strings used up
            have hd0 : dc = d0 := by simpa using hlast
            subst hd0
            cases dot with
            | true =>
              have : dc = DOT := by simpa using hdot.symm
              subst this
              have : rank hc = 1 := by rw [hrk, rank_dot]
              simp [pos3, endKey, he, this, List.cons_lt_cons_iff]
            | false =>
              simp [pos3, endKey, he, hrk, List.cons_lt_cons_iff]
          | cons d2 dr2 =>
            -- host used up, domain not
            simp only [List.isEmpty_nil, List.isEmpty_cons, Bool.and_false, Bool.false_eq_true, if_false, if_true]
            cases dr2 with
            | nil =>
              have hd0 : d2 = d0 := by simpa using hlast
              subst hd0
              cases dot with
              | true =>
                have : d2 = DOT := by simpa using hdot.symm
                simp [pos3, endKey, he, hrk, this, List.cons_lt_cons_iff]
              | false =>
                have : d2 ≠ DOT := by simpa using hdot.symm
                have h3 := rank_cases d2
                simp [pos3, endKey, he, hrk, this, List.cons_lt_cons_iff]
                omega
            | cons d3 dr3 =>
              have h3 := rank_cases d2
              have : (d2 :: d3 :: dr3).length ≠ 1 := by simp
              simp [pos3, endKey, hrk, List.cons_lt_cons_iff]
              omega
        | cons h2 hr2 =>
          cases dr with
          | nil =>
            -- domain used up, host not
            have hd0 : dc = d0 := by simpa using hlast
            subst hd0
            simp only [List.isEmpty_nil, List.isEmpty_cons, Bool.false_and, Bool.false_eq_true, if_false, if_true, mdnNone]
            cases dot with
            | true =>
              have hdc : dc = DOT := by simpa using hdot.symm
              subst hdc
              have : rank hc = 1 := by rw [hrk, rank_dot]
              simp [pos3, endKey, he, this, List.cons_lt_cons_iff]
            | false =>
              have hdc : dc ≠ DOT := by simpa using hdot.symm
              have h3 := rank_cases h2
              simp [pos3, endKey, he, hrk, hdc, List.cons_lt_cons_iff]
              omega
          | cons d2 dr2 =>
            simp only [List.isEmpty_cons, Bool.false_and, Bool.false_eq_true, if_false]
            have hlast' : (d2 :: dr2).getLast? = some d0 := by simpa using hlast
            rw [ih (d2 :: dr2) hc (by simp) hlast']
            simp [pos3, endKey_cons_cons, hrk]
      · have hrk : rank hc ≠ rank dc := fun h => heq ((rank_eq_iff hc dc).mp h)
        simp only [heq, if_false, mdnNone, Bool.false_and, Bool.false_eq_true]
        have hcs := rank_cases hc
        have dcs := rank_cases dc
        -- the value's interval ends start with `rank dc`, except when `dc` is the leading dot of the value
        by_cases hsingle : dr = [] ∧ dot = true
        · obtain ⟨hdr, hdt⟩ := hsingle
          subst hdr
          have hd0 : dc = d0 := by simpa using hlast
          subst hd0
          subst hdt
          have hdc : dc = DOT := by simpa using hdot.symm
          subst hdc
          have : hc ≠ DOT := fun h => heq (by rw [h])
          have h3 : 3 ≤ rank hc := by rcases hcs with ⟨h, _⟩ | ⟨_, h⟩; exact absurd h this; exact h
          simp [pos3, endKey, he, List.cons_lt_cons_iff]
          omega
        · have hlo : ∃ t, endKey dot 0 (dc :: dr) = rank dc :: t := by
            cases dr with
            | nil => cases dot <;> simp_all [endKey]
            | cons d2 dr2 => exact ⟨_, rfl⟩
          have hhi : ∃ t, endKey dot e (dc :: dr) = rank dc :: t := by
            cases dr with
            | nil => cases dot <;> simp_all [endKey]
            | cons d2 dr2 => exact ⟨_, rfl⟩
          obtain ⟨t1, ht1⟩ := hlo
          obtain ⟨t2, ht2⟩ := hhi
          rw [ht1, ht2]
          by_cases hd : dc = DOT
          · have : hc ≠ DOT := fun h => heq (by rw [h, hd])
            have h3 : 3 ≤ rank hc := by rcases hcs with ⟨h, _⟩ | ⟨_, h⟩; exact absurd h this; exact h
            have h1 : rank DOT = 1 := rank_dot
            simp [hd, pos3, List.cons_lt_cons_iff]
            omega
          · by_cases hh : hc = DOT
            · have h1 : rank DOT = 1 := rank_dot
              have h3 : 3 ≤ rank dc := by rcases dcs with ⟨h, _⟩ | ⟨_, h⟩; exact absurd h hd; exact h
              simp [hd, hh, pos3, List.cons_lt_cons_iff]
              omega
            · simp only [hd, hh, if_false]
              rw [int_sign_sub]
              have r1 : rank hc = (lower hc).toNat + 3 := by simp [rank, hh]
              have r2 : rank dc = (lower dc).toNat + 3 := by simp [rank, hd]
              have hne : (lower hc).toNat ≠ (lower dc).toNat := fun h => heq (UInt8.toNat_inj.mp h)
              simp only [pos3, List.cons_lt_cons_iff, List.map_cons, List.cons_append]
              by_cases hlt : (lower hc).toNat < (lower dc).toNat
              · have : rank hc < rank dc := by omega
                simp [hlt, this]
              · have h1 : ¬ rank hc < rank dc := by omega
                simp [hlt, hne, h1, hrk]


theorem stripDots_ne_nil_of (h : Bytes) (hne : (stripDots h).isEmpty = false) : stripDots h ≠ [] := by
  intro h0; rw [h0] at hne; simp at hne

theorem pos3_nil (lo hi : List Nat) (h : lo ≠ []) : pos3 [] lo hi = -1 := by
  cases lo with
  | nil => exact absurd rfl h
  | cons a l => simp [pos3]

/-- **Key lemma.**  For every host and every non-empty domain value the sign of `matchDomainName(host, value)` is the position
of the host's key relative to the value's key interval. -/
theorem mdn_sign (h d : Bytes) (hd : d ≠ []) : Int.sign (mdn mdnNone h d) = pos (hostKey h) d := by
  unfold mdn hostKey pos
  by_cases he : (stripDots h).isEmpty = true
  · simp only [he, if_true]
    rw [pos3_nil (lo d) (hi d) (endKey_ne_nil _ _ _)]
    rfl
  · have he' : (stripDots h).isEmpty = false := by simpa using he
    have hdne : d.isEmpty = false := by cases d <;> simp_all
    simp only [he', hdne, Bool.false_eq_true, if_false]
    cases d with
    | nil => exact absurd rfl hd
    | cons c r =>
      have := mdnLoop_sign (startsWithDot h) c (startsWithDot (c :: r)) (by simp [startsWithDot])
        (if startsWithDot (c :: r) then 2 else 1) rfl (stripDots h).reverse (c :: r).reverse 0
        (by simpa using stripDots_ne_nil_of h he') (by simp)
      simpa [lo, hi, rkey] using this

end SquidModel.Acl.Domain
