/-
include/splay.h — the top-down splay tree used by the ACL value stores, modelled branch by branch
(`SplayNode<V>::splay / insert / remove`, `Splay<V>::find / insert / remove`).

Pointers become an inductive binary tree.  The two chains the C loop grows through `l->right = top` /
`r->left = top` ("link left" / "link right") are kept as lists of the linked fragments, most recent first:
an entry `(lt, v)` of `L` is a node `v` whose left subtree is `lt` and whose right child is still to be
written; `assemble` performs the final four pointer assignments.  The comparison callback is applied to the
sought datum already (`cmp x = compare(dataToFind, x)`); `last` is the global `splayLastResult`.
Core Lean only.
-/
namespace SquidModel.Acl

inductive Tree (α : Type) where
  | nil : Tree α
  | node (l : Tree α) (v : α) (r : Tree α) : Tree α
  deriving Repr, DecidableEq

namespace Tree
variable {α : Type}

/-- left-to-right walk (`Splay::visit`) -/
def inorder : Tree α → List α
  | nil => []
  | node l v r => inorder l ++ v :: inorder r

def size : Tree α → Nat
  | nil => 0
  | node l _ r => size l + 1 + size r

def isNil : Tree α → Bool
  | nil => true
  | node _ _ _ => false

/-- `head->data` -/
def rootVal? : Tree α → Option α
  | nil => none
  | node _ v _ => some v

/-- what `SplayNode::splay` returns: the new top and `splayLastResult` -/
structure SplayRes (α : Type) where
  top : Tree α
  last : Int

/-- the left chain hanging off `N.right`, closed by `l->right = top->left` -/
def closeL (L : List (Tree α × α)) (tl : Tree α) : Tree α :=
  L.foldl (fun acc p => node p.1 p.2 acc) tl

/-- the right chain hanging off `N.left`, closed by `r->left = top->right` -/
def closeR (R : List (α × Tree α)) (tr : Tree α) : Tree α :=
  R.foldl (fun acc p => node acc p.1 p.2) tr

/-- `l->right = top->left; r->left = top->right; top->left = N.right; top->right = N.left;` -/
def assemble (L : List (Tree α × α)) (R : List (α × Tree α)) (tl : Tree α) (tv : α) (tr : Tree α) : Tree α :=
  node (closeL L tl) tv (closeR R tr)

/-- the `for (;;)` loop of `SplayNode<V>::splay` followed by the assembly; the first argument is `top` -/
def splayLoop (cmp : α → Int) : Tree α → List (Tree α × α) → List (α × Tree α) → SplayRes α
  | nil, _, _ => ⟨nil, 0⟩          -- `top` is never null (splay() is a member function; children are checked before descending)
  | node tl tv tr, L, R =>
    if cmp tv < 0 then
      match tl with
      | nil => ⟨assemble L R nil tv tr, cmp tv⟩                                  -- top->left == nullptr: break
      | node yl yv yr =>
        if cmp yv < 0 then
          -- rotate right: y = top->left; top->left = y->right; y->right = top; top = y
          match yl with
          | nil => ⟨assemble L R nil yv (node yr tv tr), cmp yv⟩                  -- top->left == nullptr: break
          | node a b c =>
            -- link right: r->left = top; r = top; top = top->left
            splayLoop cmp (node a b c) L ((yv, node yr tv tr) :: R)
        else
          -- link right without rotation
          splayLoop cmp (node yl yv yr) L ((tv, tr) :: R)
    else if cmp tv > 0 then
      match tr with
      | nil => ⟨assemble L R tl tv nil, cmp tv⟩                                  -- top->right == nullptr: break
      | node yl yv yr =>
        if cmp yv > 0 then
          -- rotate left: y = top->right; top->right = y->left; y->left = top; top = y
          match yr with
          | nil => ⟨assemble L R (node tl tv yl) yv nil, cmp yv⟩                  -- top->right == nullptr: break
          | node a b c =>
            -- link left: l->right = top; l = top; top = top->right
            splayLoop cmp (node a b c) ((node tl tv yl, yv) :: L) R
        else
          -- link left without rotation
          splayLoop cmp (node yl yv yr) ((tl, tv) :: L) R
    else
      ⟨assemble L R tl tv tr, cmp tv⟩                                            -- found: break

/-- `SplayNode<V>::splay(dataToFind, compare)` on a non-null node -/
def splay (cmp : α → Int) (t : Tree α) : SplayRes α := splayLoop cmp t [] []

/-- `Splay<V>::find`: splays (the tree changes!) and reports the head's value when the last comparison was 0 -/
def find (cmp : α → Int) (t : Tree α) : Tree α × Option α :=
  match t with
  | nil => (nil, none)
  | node l v r =>
    let s := splay cmp (node l v r)
    if s.last ≠ 0 then (s.top, none) else (s.top, s.top.rootVal?)

/-- `SplayNode<V>::insert(dataToInsert, compare)` on a non-null head -/
def nodeInsert (cmp : α → Int) (x : α) (t : Tree α) : Tree α :=
  let s := splay cmp t
  match s.top with
  | nil => node nil x nil                                   -- unreachable
  | node l v r =>
    if s.last < 0 then node l x (node nil v r)              -- newNode->left = newTop->left; newNode->right = newTop; newTop->left = nullptr
    else if s.last > 0 then node (node l v nil) x r         -- newNode->right = newTop->right; newNode->left = newTop; newTop->right = nullptr
    else node l v r                                         -- duplicate entry: delete newNode

/-- `Splay<V>::insert(value, compare)`: the stored similar value if any, else the tree with `x` added -/
def insert (cmp : α → Int) (x : α) (t : Tree α) : Tree α × Option α :=
  match find cmp t with
  | (t', some similar) => (t', some similar)
  | (t', none) =>
    match t' with
    | nil => (node nil x nil, none)
    | node l v r => (nodeInsert cmp x (node l v r), none)

/-- `SplayNode<V>::remove(dataToRemove, compare)` on a non-null head -/
def nodeRemove (cmp : α → Int) (t : Tree α) : Tree α :=
  let s := splay cmp t
  if s.last = 0 then
    match s.top with
    | nil => nil                                            -- unreachable
    | node l _ r =>
      match l with
      | nil => r                                            -- newTop = result->right
      | node a b c =>
        match (splay cmp (node a b c)).top with             -- newTop = result->left->splay(dataToRemove, compare)
        | nil => nil                                        -- unreachable
        | node nl nv _ => node nl nv r                      -- newTop->right = result->right  (whatever newTop->right was is dropped)
  else s.top                                                -- it wasn't there

/-- `Splay<V>::remove(value, compare)`; the flag says whether `find` located the value (squid does not look at it) -/
def remove (cmp : α → Int) (t : Tree α) : Tree α × Bool :=
  match find cmp t with
  | (t', none) => (t', false)
  | (t', some _) => (nodeRemove cmp t', true)

/-- canonical text of a tree: node = `(` left value right `)`, nil = empty -/
def shape (f : α → String) : Tree α → String
  | nil => ""
  | node l v r => "(" ++ shape f l ++ f v ++ shape f r ++ ")"

end Tree
end SquidModel.Acl
